(* The REST scheduler inside the simulator loop (Model/RestSim.v): transparency.
   A. the request body is the true state: [state_of_payload (view ...) = observable_part ...];
   B. the commands of a tick are the decoded reply (and none without a call);
   C. the run driven through the REST bridge equals the run of the in-process counterpart, for every
      admissible policy; without admissibility it does not (witness);
   D. run-level facts: the arrival ticks and the tick counter the bridge holds are the simulator's;
   E. links to Model/Rest.v: [parse_asg] is [parse_assignment], the bookkeeping is [rest_step], deletion by
      the flags that were sent is deletion by the flags after the Assignment objects were created. *)
From Coq Require Import ZArith QArith List Bool Arith Lia.
Import ListNotations.
From Eudoxia Require Import Num.Rnd64 Model.Types Model.Dag Model.Lifecycle Model.Container Model.Pool
  Model.Executor Model.Sched Model.Simulator Model.SimGen Model.Rest Model.RestSim
  Proofs.ListFacts Proofs.LifecycleFacts Proofs.RestFacts Proofs.SimGenFacts.
Close Scope Q_scope.
Close Scope Z_scope.

(* ---------------------------------------------------------------------------------------------- *)
(* small list facts *)

Lemma map_to_nat_of_nat (l : list nat) : map Z.to_nat (map Z.of_nat l) = l.
Proof. rewrite map_map. rewrite <- (map_id l) at 2. apply map_ext. intros; apply Nat2Z.id. Qed.

Lemma ostate_eqb_sym a b : ostate_eqb a b = ostate_eqb b a.
Proof. destruct a, b; reflexivity. Qed.

Lemma pid_pipe_entry S k : pid (pipe_entry S k) = k.
Proof. unfold pid, pipe_entry. cbn. apply Nat2Z.id. Qed.

Lemma map_pid_entries S l : map pid (map (pipe_entry S) l) = l.
Proof. rewrite map_map. rewrite <- (map_id l) at 2. apply map_ext. intros; apply pid_pipe_entry. Qed.

(* ---------------------------------------------------------------------------------------------- *)
(* A. the payload is the true state *)

Lemma cont_roundtrip S c : cont_of_view (container_to_dict S c) = observe_cont S c.
Proof.
  unfold cont_of_view, container_to_dict, observe_cont; cbn.
  rewrite Nat2Z.id, map_to_nat_of_nat.
  destruct (distinct (map (op_pipe S) (c_ops c))) as [|k [|k' t]]; cbn; try rewrite Nat2Z.id; reflexivity.
Qed.

Lemma map_cont_roundtrip S l : map cont_of_view (map (container_to_dict S) l) = map (observe_cont S) l.
Proof. rewrite map_map. apply map_ext. intros; apply cont_roundtrip. Qed.

Lemma pool_roundtrip S p : pool_of_view (pool_to_dict S p) = observe_pool S p.
Proof.
  unfold pool_of_view, pool_to_dict, observe_pool; cbn.
  rewrite Nat2Z.id, !map_cont_roundtrip. reflexivity.
Qed.

Lemma result_roundtrip r : result_of_view (result_to_dict r) = observe_result r.
Proof.
  unfold result_of_view, result_to_dict, observe_result; cbn.
  rewrite !Nat2Z.id, map_to_nat_of_nat. reflexivity.
Qed.

Lemma forallb_parents w ps :
  forallb (ostate_eqb Completed) (map (st_of w) ps) = forallb (fun p => ostate_eqb (st_of w p) Completed) ps.
Proof.
  induction ps as [|p t IH]; cbn [map forallb]; [reflexivity|]. rewrite IH, (ostate_eqb_sym Completed). reflexivity.
Qed.

Lemma op_roundtrip S w op : op_of_view (op_to_dict (op_true_of S w op)) = observe_op S w op.
Proof.
  unfold op_of_view, op_to_dict, op_true_of, observe_op, parents_complete, assignable; cbn.
  rewrite Nat2Z.id, forallb_parents. reflexivity.
Qed.

Lemma arrival_opt_spec k arr :
  arrival_opt k arr = if existsb (fun x => Nat.eqb (fst x) k) arr then Some (arrival_of k arr) else None.
Proof.
  unfold arrival_opt. induction arr as [|[a t] r IH]; cbn; [reflexivity|].
  destruct (Nat.eqb a k); cbn; [reflexivity|exact IH].
Qed.

Lemma pipe_roundtrip S w arr k : pipe_of_view (pipeline_to_dict S w arr k) = observe_pipe S w arr k.
Proof.
  unfold pipe_of_view, pipeline_to_dict, observe_pipe; cbn.
  rewrite Nat2Z.id, arrival_opt_spec, map_map. f_equal. apply map_ext. intros; apply op_roundtrip.
Qed.

Theorem payload_is_true_state C e results newp other arr t :
  state_of_payload (view C e results newp other arr t) = observable_part C e results newp other arr t.
Proof.
  unfold state_of_payload, view, observable_part; cbn. f_equal.
  - rewrite map_map. apply map_ext. intros; apply result_roundtrip.
  - rewrite map_map. apply map_ext. intros; apply pipe_roundtrip.
  - rewrite map_map. apply map_ext. intros; apply pipe_roundtrip.
  - rewrite map_map. apply map_ext. intros; apply pool_roundtrip.
Qed.

(* the body of the request of one invocation *)
Theorem request_is_true_state {PS} C poll (x : rxs PS) e results newp tick p :
  rest_request C poll x e results newp tick = Some p ->
  state_of_payload p
  = observable_part C e results newp (map pid (rs_other (rx_rs x)))
                    (rx_arr x ++ map (fun q => (q, tick)) newp) (rs_tick (rx_rs x) + 1)%Z.
Proof.
  unfold rest_request. destruct (rest_calls_at C poll x results newp); [|discriminate].
  intros H; inversion H; subst. apply payload_is_true_state.
Qed.

(* the view never mentions the true needs: it is the same whatever the per-tick memory scripts (the
   durations and memory demands of the operators) are *)
Definition with_script (C : cfg) (f : nat -> Z -> list Q) : cfg :=
  {| cf_static := cf_static C; cf_script := f; cf_tps := cf_tps C; cf_overcommit := cf_overcommit C;
     cf_multi := cf_multi C; cf_rnd := cf_rnd C |}.

Theorem view_hides_script C f e results newp other arr t :
  view (with_script C f) e results newp other arr t = view C e results newp other arr t.
Proof. reflexivity. Qed.

(* ---------------------------------------------------------------------------------------------- *)
(* B. the commands are the decoded reply *)

Lemma cpu_of_Q_spec q c : cpu_of_Q q = Some c -> (inject_Z c == q)%Q.
Proof.
  unfold cpu_of_Q. intros H. pose proof (Qred_correct q) as Hq.
  destruct (Qred q) as [n d] eqn:E. cbv zeta in H. cbn [Qden Qnum] in H.
  destruct (Z.pos d =? 1)%Z eqn:Hd; [|discriminate]. inversion H; subst c.
  apply Z.eqb_eq in Hd. assert (d = 1%positive) by lia. subst d.
  rewrite <- Hq. reflexivity.
Qed.

Lemma prio_named_val z pr : prio_named z = Some pr -> prio_val pr = z.
Proof.
  unfold prio_named. destruct (z =? 1)%Z eqn:E1; [intros H; inversion H; apply Z.eqb_eq in E1; now subst|].
  destruct (z =? 2)%Z eqn:E2; [intros H; inversion H; apply Z.eqb_eq in E2; now subst|].
  destruct (z =? 3)%Z eqn:E3; [intros H; inversion H; apply Z.eqb_eq in E3; now subst|discriminate].
Qed.

Lemma parse_asg_ok known a x :
  parse_asg known a = Ok x -> forallb known (as_ops a) = true /\ same_asg a x /\ as_ops a <> [].
Proof.
  unfold parse_asg. destruct (forallb known (as_ops a)) eqn:Hk; [|discriminate].
  destruct (prio_named (as_prio a)) as [pr|] eqn:Hp; [|discriminate].
  destruct (as_ops a) as [|o t] eqn:Ho; [discriminate|].
  destruct (Qltb 0 (as_cpu a) && Qltb 0 (as_ram a)); [|discriminate].
  destruct (cpu_of_Q (as_cpu a)) as [c|] eqn:Hc; [|discriminate].
  intros H; inversion H; subst x; clear H. split; [reflexivity|]. split; [|discriminate].
  unfold same_asg; cbn. rewrite Ho. repeat split; try reflexivity.
  - now apply cpu_of_Q_spec.
  - now apply prio_named_val.
Qed.

Lemma build_assignments_spec C known : forall l w w' asgs,
  build_assignments C known w l = Ok (w', asgs) ->
  Forall2 same_asg l asgs /\
  Forall (fun a => forallb known (as_ops a) = true) l /\
  mk_assignments C w asgs = Ok w'.
Proof.
  induction l as [|a t IH]; intros w w' asgs H; cbn in H.
  - inversion H; subst. repeat split; constructor.
  - destruct (parse_asg known a) as [x|e] eqn:Hx; cbn [bind] in H; [|discriminate].
    destruct (mk_assignment C w x) as [w1|e] eqn:Hm; cbn [bind] in H; [|discriminate].
    destruct (build_assignments C known w1 t) as [[w2 xs]|e] eqn:Hb; cbn [bind] in H; [|discriminate].
    inversion H; subst; clear H.
    apply parse_asg_ok in Hx. destruct Hx as (Hk & Hs & _).
    destruct (IH _ _ _ Hb) as (H2 & Hf & Hmk).
    repeat split; [constructor; assumption|constructor; assumption|].
    cbn. rewrite Hm. cbn [bind]. exact Hmk.
Qed.

Lemma susp_of_same e l : Forall2 (same_susp e) l (map (susp_of e) l).
Proof.
  induction l as [|s t IH]; cbn; constructor; [|exact IH].
  unfold same_susp, susp_of; cbn. split; [reflexivity|].
  destruct (su_container s <? 0)%Z eqn:E.
  - apply Z.ltb_lt in E. split; [lia|reflexivity].
  - apply Z.ltb_ge in E. split; [intros _; now apply Z2Nat.id|lia].
Qed.

(* the two branches of rest_step, read off the real state *)
Lemma early_return_tick_in {PS} C poll (x : rxs PS) e results newp :
  early_return (cf_rnd C) (cf_tps C) poll (rx_rs x) (tick_in_of C e results newp (rx_rs x))
  = negb (rest_calls_at C poll x results newp).
Proof. unfold rest_calls_at. rewrite negb_involutive. reflexivity. Qed.

Definition rs_skip (st : rs) : rs := mkrs (rs_tick st + 1)%Z (rs_last st) (rs_other st) (rs_lookup st).

Lemma rest_step_skip {PS} C poll (x : rxs PS) e results newp :
  rest_calls_at C poll x results newp = false ->
  rest_step (cf_rnd C) (cf_tps C) poll (rx_rs x) (tick_in_of C e results newp (rx_rs x))
  = (rs_skip (rx_rs x), None).
Proof.
  intros H. unfold rest_step. rewrite early_return_tick_in, H. reflexivity.
Qed.

Lemma rest_step_call {PS} C poll (x : rxs PS) e results newp :
  rest_calls_at C poll x results newp = true ->
  exists pl, rest_step (cf_rnd C) (cf_tps C) poll (rx_rs x) (tick_in_of C e results newp (rx_rs x))
             = (fst (rest_step (cf_rnd C) (cf_tps C) poll (rx_rs x) (tick_in_of C e results newp (rx_rs x))),
                Some pl).
Proof.
  intros H. unfold rest_step. rewrite early_return_tick_in, H. cbn [negb fst]. eexists. reflexivity.
Qed.

Lemma skip_no_new {PS} C poll (x : rxs PS) results newp :
  rest_calls_at C poll x results newp = false -> newp = [] /\ results = [].
Proof.
  unfold rest_calls_at, early_return. cbn [ti_new ti_nres]. intros H. apply negb_false_iff in H.
  apply andb_prop in H. destruct H as [H _]. apply andb_prop in H. destruct H as [Hn Hr].
  split.
  - destruct newp; [reflexivity|discriminate].
  - destruct results; [reflexivity|discriminate].
Qed.

Theorem decisions_executed_as_given {PS} C poll (pol : policy PS) x e results newp tick x' w' susps asgs :
  rest_gstep C poll pol x e results newp tick = Ok (x', w', susps, asgs) ->
  (rest_calls_at C poll x results newp = false -> susps = [] /\ asgs = [] /\ w' = e_world e) /\
  (rest_calls_at C poll x results newp = true ->
     let r := fst (pol (rx_pol x) (view_of C e results newp tick x)) in
     let lookup := register (rs_lookup (rx_rs x)) (map (pipe_entry (cf_static C)) newp) in
     Forall2 (same_susp e) (rp_susp r) susps /\
     Forall2 same_asg (rp_asg r) asgs /\
     Forall (fun a => forall o, In o (as_ops a) -> In o lookup) (rp_asg r) /\
     mk_assignments C (e_world e) asgs = Ok w').
Proof.
  intros H. unfold rest_gstep in H. split; intros Hc.
  - rewrite (rest_step_skip C poll x e results newp Hc) in H. inversion H; subst. auto.
  - destruct (rest_step_call C poll x e results newp Hc) as [pl Hpl]. rewrite Hpl in H.
    cbn [ti_new tick_in_of] in H.
    destruct (pol (rx_pol x) (view_of C e results newp tick x)) as [r0 ps'] eqn:Hp.
    rewrite decode_encode in H.
    destruct (build_assignments C _ (e_world e) (rp_asg r0)) as [[w1 as1]|er] eqn:Hb; cbn [bind] in H;
      [|discriminate].
    inversion H; subst; clear H. cbn [fst].
    apply build_assignments_spec in Hb. destruct Hb as (H2 & Hf & Hm).
    repeat split; [apply susp_of_same|exact H2| |exact Hm].
    eapply Forall_impl; [|exact Hf]. cbn beta. intros a Ha o Ho.
    rewrite forallb_forall in Ha. apply memZ_In. now apply Ha.
Qed.

(* ---------------------------------------------------------------------------------------------- *)
(* C. the bridge against the in-process counterpart *)

Lemma forallb_ext_in {A} (f g : A -> bool) l :
  (forall x, In x l -> f x = g x) -> forallb f l = forallb g l.
Proof.
  induction l as [|a t IH]; intros H; cbn; [reflexivity|].
  rewrite (H a (or_introl eq_refl)), IH; [reflexivity|]. intros x Hx. apply H. now right.
Qed.

Lemma filter_ext_in' {A} (f g : A -> bool) l :
  (forall x, In x l -> f x = g x) -> filter f l = filter g l.
Proof.
  induction l as [|a t IH]; intros H; cbn; [reflexivity|].
  rewrite (H a (or_introl eq_refl)), IH; [reflexivity|]. intros x Hx. apply H. now right.
Qed.

Lemma filter_map_comm {A B} (f : A -> B) (g : B -> bool) l :
  filter g (map f l) = map f (filter (fun x => g (f x)) l).
Proof.
  induction l as [|a t IH]; cbn; [reflexivity|]. destruct (g (f a)); cbn; now rewrite IH.
Qed.

Lemma key_add_in l k x : In x (key_add l k) <-> In x l \/ x = k.
Proof.
  unfold key_add. destruct (memZ k l) eqn:E.
  - apply memZ_In in E. split; [auto|]. intros [H| ->]; assumption.
  - rewrite in_app_iff. cbn. intuition.
Qed.

Lemma fold_key_add_in ks : forall l x, In x (fold_left key_add ks l) <-> In x l \/ In x ks.
Proof.
  induction ks as [|k t IH]; intros l x; cbn; [intuition|].
  rewrite IH, key_add_in. intuition.
Qed.

Lemma register_in new : forall lk o,
  In o (register lk new) <-> In o lk \/ exists p, In p new /\ In o (snd p).
Proof.
  unfold register. induction new as [|p t IH]; intros lk o; cbn.
  - split; [auto|]. intros [H|[q [[] _]]]. exact H.
  - rewrite IH, fold_key_add_in. split.
    + intros [[H|H]|[q [Hq Ho]]]; eauto.
    + intros [H|[q [[<-|Hq] Ho]]]; eauto.
Qed.

Lemma add_absent_in x y : forall l, In x (add_absent y l) <-> In x l \/ x = y.
Proof.
  induction l as [|z t IH]; cbn; [intuition|].
  destruct (Nat.eqb y z) eqn:E.
  - apply Nat.eqb_eq in E. subst z. cbn. intuition.
  - cbn. rewrite IH. intuition.
Qed.

Lemma fold_add_absent_in newp : forall l x,
  In x (fold_left (fun l p => add_absent p l) newp l) <-> In x l \/ In x newp.
Proof.
  induction newp as [|p t IH]; intros l x; cbn; [intuition|].
  rewrite IH, add_absent_in. intuition.
Qed.

Lemma dict_set_entry S k : forall d,
  dict_set (map (pipe_entry S) d) (Z.of_nat k) (snd (pipe_entry S k)) = map (pipe_entry S) (add_absent k d).
Proof.
  induction d as [|z t IH]; [reflexivity|].
  cbn [map add_absent]. unfold pipe_entry at 1. cbn [dict_set].
  destruct (Nat.eqb k z) eqn:E.
  - apply Nat.eqb_eq in E. subst z. rewrite Z.eqb_refl. reflexivity.
  - apply Nat.eqb_neq in E.
    destruct (Z.of_nat z =? Z.of_nat k)%Z eqn:E2; [apply Z.eqb_eq in E2; lia|].
    cbn [map]. f_equal. exact IH.
Qed.

Lemma merge_entries S newp : forall l,
  merge (map (pipe_entry S) l) (map (pipe_entry S) newp)
  = map (pipe_entry S) (fold_left (fun l p => add_absent p l) newp l).
Proof.
  unfold merge. induction newp as [|p t IH]; intros l; [reflexivity|].
  cbn [map fold_left]. change (fst (pipe_entry S p)) with (Z.of_nat p).
  rewrite dict_set_entry. apply IH.
Qed.

Lemma memZ_succ_ids S w ps k :
  In (Z.of_nat k) (map fst ps) -> memZ (Z.of_nat k) (succ_ids S w ps) = is_successful S w k.
Proof.
  intros Hin. unfold succ_ids. destruct (is_successful S w k) eqn:E.
  - apply memZ_In. apply filter_In. split; [exact Hin|]. now rewrite Nat2Z.id.
  - apply memZ_false. intros H. apply filter_In in H. destruct H as [_ H]. rewrite Nat2Z.id in H. congruence.
Qed.

Lemma in_entries_keys S k l : In k l -> In (Z.of_nat k) (map fst (map (pipe_entry S) l)).
Proof. intros H. rewrite map_map. cbn. now apply in_map. Qed.

Lemma filter_entries S w other newp l :
  (forall k, In k l -> In k other \/ In k newp) ->
  filter (fun p => negb (memZ (fst p) (succ_ids S w (map (pipe_entry S) other ++ map (pipe_entry S) newp))))
         (map (pipe_entry S) l)
  = map (pipe_entry S) (filter (fun k => negb (is_successful S w k)) l).
Proof.
  intros Hl. rewrite filter_map_comm. f_equal. apply filter_ext_in'. intros k Hk.
  cbn [pipe_entry fst]. rewrite memZ_succ_ids; [reflexivity|].
  rewrite map_app, in_app_iff. destruct (Hl k Hk); [left|right]; now apply in_entries_keys.
Qed.

(* every operator of a pipeline the bridge still lists is a key of operator_lookup *)
Definition lookup_inv (st : rs) : Prop :=
  forall p o, In p (rs_other st) -> In o (snd p) -> In o (rs_lookup st).

Lemma lookup_inv_call S w other newp lookup :
  order_pipe S ->
  (forall p o, In p (map (pipe_entry S) other) -> In o (snd p) -> In o lookup) ->
  let new := map (pipe_entry S) newp in
  let succ := succ_ids S w (map (pipe_entry S) other ++ new) in
  let lookup1 := register lookup new in
  let other1 := merge (map (pipe_entry S) other) new in
  forall p o,
    In p (filter (fun p => negb (memZ (fst p) succ)) other1) -> In o (snd p) ->
    In o (filter (fun k => negb (memZ k (flat_map snd (filter (fun p => memZ (fst p) succ) other1)))) lookup1).
Proof.
  intros Hord Hinv new succ lookup1 other1 p o Hp Ho.
  apply filter_In in Hp. destruct Hp as [Hp Halive].
  unfold other1, new in Hp. rewrite merge_entries in Hp. apply in_map_iff in Hp.
  destruct Hp as [k [<- Hk]]. apply fold_add_absent_in in Hk.
  apply filter_In. split.
  - apply register_in. destruct Hk as [Hk|Hk].
    + left. apply (Hinv (pipe_entry S k)); [now apply in_map|exact Ho].
    + right. exists (pipe_entry S k). split; [now apply in_map|exact Ho].
  - apply negb_true_iff. apply memZ_false. intros Hd. apply in_flat_map in Hd.
    destruct Hd as [q [Hq Hoq]]. apply filter_In in Hq. destruct Hq as [Hq Hdead].
    unfold other1, new in Hq. rewrite merge_entries in Hq. apply in_map_iff in Hq.
    destruct Hq as [k' [<- _]].
    cbn [pipe_entry snd] in Ho, Hoq. apply in_map_iff in Ho. apply in_map_iff in Hoq.
    destruct Ho as [n [<- Hn]]. destruct Hoq as [n' [Heq Hn']].
    apply Nat2Z.inj in Heq. subst n'.
    assert (k = k') by (rewrite <- (Hord k n Hn); now apply Hord). subst k'.
    cbn [pipe_entry fst] in Halive, Hdead. rewrite Hdead in Halive. discriminate.
Qed.

Lemma parse_asg_ext known1 known2 a :
  (forall o, In o (as_ops a) -> known1 o = known2 o) -> parse_asg known1 a = parse_asg known2 a.
Proof. intros H. unfold parse_asg. now rewrite (forallb_ext_in known1 known2 (as_ops a) H). Qed.

Lemma build_assignments_ext C known1 known2 : forall l w,
  (forall a, In a l -> forall o, In o (as_ops a) -> known1 o = known2 o) ->
  build_assignments C known1 w l = build_assignments C known2 w l.
Proof.
  induction l as [|a t IH]; intros w H; [reflexivity|]. cbn.
  rewrite (parse_asg_ext known1 known2 a (H a (or_introl eq_refl))).
  destruct (parse_asg known2 a) as [x|e]; cbn [bind]; [|reflexivity].
  destruct (mk_assignment C w x) as [w1|e]; cbn [bind]; [|reflexivity].
  rewrite IH; [reflexivity|]. intros b Hb. apply H. now right.
Qed.

Lemma listed_ops_view C e results newp other arr t o :
  In o (listed_ops (view C e results newp other arr t)) ->
  exists k n, (In k newp \/ In k other) /\ In n (pd_order (pipe_of (cf_static C) k)) /\ o = Z.of_nat n.
Proof.
  unfold listed_ops, view. cbn [pf_new pf_other]. intros H. apply in_flat_map in H.
  destruct H as [v [Hv Ho]]. rewrite <- map_app in Hv. apply in_map_iff in Hv.
  destruct Hv as [k [<- Hk]]. cbn [pipeline_to_dict pv_ops] in Ho. rewrite map_map in Ho.
  apply in_map_iff in Ho. destruct Ho as [n [<- Hn]].
  exists k, n. apply in_app_iff in Hk. repeat split; auto.
Qed.

Definition related {PS} (S : static) (t : Z) (x : rxs PS) (d : dxs PS) : Prop :=
  rs_other (rx_rs x) = map (pipe_entry S) (dx_other d) /\ rx_arr x = dx_arr d /\ rx_pol x = dx_pol d /\
  rs_tick (rx_rs x) = t /\ lookup_inv (rx_rs x).

Lemma rest_step_call_explicit {PS} C poll (x : rxs PS) e results newp :
  rest_calls_at C poll x results newp = true ->
  let S := cf_static C in
  let st := rx_rs x in
  let new := map (pipe_entry S) newp in
  let succ := succ_ids S (e_world e) (rs_other st ++ new) in
  let lookup1 := register (rs_lookup st) new in
  let other1 := merge (rs_other st) new in
  exists pl,
    rest_step (cf_rnd C) (cf_tps C) poll st (tick_in_of C e results newp st)
    = (mkrs (rs_tick st + 1)%Z (now_of (cf_rnd C) (cf_tps C) (rs_tick st + 1)%Z)
            (filter (fun p => negb (memZ (fst p) succ)) other1)
            (filter (fun k => negb (memZ k (flat_map snd (filter (fun p => memZ (fst p) succ) other1)))) lookup1),
       Some pl).
Proof.
  intros H. cbv zeta. unfold rest_step. rewrite early_return_tick_in, H. cbn [negb]. eexists. reflexivity.
Qed.

(* the two builders of commands agree on the reply to the request of this invocation *)
Definition builders_agree {PS} (C : cfg) (pol : policy PS) (x : rxs PS) (d : dxs PS) (e : estate)
           (results : list result) (newp : list nat) (t : Z) : Prop :=
  let v := view C e results newp (dx_other d) (dx_arr d ++ map (fun p => (p, t)) newp) (t + 1)%Z in
  let l := rp_asg (fst (pol (dx_pol d) v)) in
  build_assignments C (fun o => memZ o (register (rs_lookup (rx_rs x)) (map (pipe_entry (cf_static C)) newp)))
                    (e_world e) l
  = build_assignments C is_op_id (e_world e) l.

Lemma view_of_related {PS} C (x : rxs PS) d e results newp t :
  related (cf_static C) t x d ->
  view_of C e results newp t x
  = view C e results newp (dx_other d) (dx_arr d ++ map (fun p => (p, t)) newp) (t + 1)%Z.
Proof.
  intros (Ho & Ha & Hp & Ht & Hi). unfold view_of. now rewrite Ho, map_pid_entries, Ha, Ht.
Qed.

Lemma step_related_core {PS} C poll (pol : policy PS) call_at x d e results newp t :
  order_pipe (cf_static C) -> related (cf_static C) t x d ->
  call_at t = rest_calls_at C poll x results newp ->
  (rest_calls_at C poll x results newp = true -> builders_agree C pol x d e results newp t) ->
  match rest_gstep C poll pol x e results newp t, direct_gstep C call_at pol d e results newp t with
  | Ok (x', w1, su1, a1), Ok (d', w2, su2, a2) =>
      w1 = w2 /\ su1 = su2 /\ a1 = a2 /\ related (cf_static C) (t + 1)%Z x' d'
  | Err e1, Err e2 => e1 = e2
  | _, _ => False
  end.
Proof.
  intros Hord Hrel Hcall Hb. pose proof (view_of_related C x d e results newp t Hrel) as Hview.
  destruct Hrel as (Ho & Ha & Hp & Ht & Hi).
  unfold rest_gstep, direct_gstep. rewrite Hcall.
  destruct (rest_calls_at C poll x results newp) eqn:Hc.
  - destruct (rest_step_call_explicit C poll x e results newp Hc) as [pl Hpl]. cbv zeta in Hpl.
    rewrite Hpl. clear Hpl. cbn [ti_new tick_in_of].
    rewrite Hview, Hp. specialize (Hb eq_refl). unfold builders_agree in Hb. cbv zeta in Hb.
    set (v := view C e results newp (dx_other d) (dx_arr d ++ map (fun p => (p, t)) newp) (t + 1)%Z) in *.
    destruct (pol (dx_pol d) v) as [r ps']. cbn [fst] in Hb.
    rewrite decode_encode. rewrite Hb. rewrite Ho, Ht, Ha.
    destruct (build_assignments C is_op_id (e_world e) (rp_asg r)) as [[w' asgs]|er]; cbn [bind];
      [|reflexivity].
    repeat split; cbn [rx_rs rx_arr rx_pol dx_other dx_arr dx_pol rs_other rs_tick rs_lookup].
    + rewrite merge_entries. apply filter_entries. intros k Hk. now apply fold_add_absent_in in Hk.
    + unfold lookup_inv. cbn [rs_other rs_lookup]. unfold lookup_inv in Hi. rewrite Ho in Hi.
      apply lookup_inv_call; [exact Hord|exact Hi].
  - rewrite (rest_step_skip C poll x e results newp Hc).
    destruct (skip_no_new C poll x results newp Hc) as [-> ->]. cbn [fold_left map].
    repeat split; cbn [rx_rs rx_arr rx_pol dx_other dx_arr dx_pol rs_skip rs_other rs_tick];
      try assumption; try lia.
    now rewrite Ha.
Qed.

Lemma admissible_builders_agree {PS} C (pol : policy PS) x d e results newp t :
  admissible pol -> related (cf_static C) t x d -> builders_agree C pol x d e results newp t.
Proof.
  intros Hadm (Ho & Ha & Hp & Ht & Hi). unfold builders_agree. cbv zeta.
  set (v := view C e results newp (dx_other d) (dx_arr d ++ map (fun p => (p, t)) newp) (t + 1)%Z).
  pose proof (Hadm (dx_pol d) v) as Hadm'.
  apply build_assignments_ext. intros a Hina o Hino. specialize (Hadm' a o Hina Hino).
  apply listed_ops_view in Hadm'. destruct Hadm' as (k & n & Hk & Hn & ->).
  transitivity true; [|symmetry; unfold is_op_id; apply Z.leb_le; lia].
  apply memZ_In. apply register_in. destruct Hk as [Hk|Hk].
  - right. exists (pipe_entry (cf_static C) k). split; [now apply in_map|].
    cbn [pipe_entry snd]. now apply in_map.
  - left. apply (Hi (pipe_entry (cf_static C) k)).
    + rewrite Ho. now apply in_map.
    + cbn [pipe_entry snd]. now apply in_map.
Qed.

Lemma step_related {PS} C poll (pol : policy PS) call_at x d e results newp t :
  order_pipe (cf_static C) -> admissible pol -> related (cf_static C) t x d ->
  call_at t = rest_calls_at C poll x results newp ->
  match rest_gstep C poll pol x e results newp t, direct_gstep C call_at pol d e results newp t with
  | Ok (x', w1, su1, a1), Ok (d', w2, su2, a2) =>
      w1 = w2 /\ su1 = su2 /\ a1 = a2 /\ related (cf_static C) (t + 1)%Z x' d'
  | Err e1, Err e2 => e1 = e2
  | _, _ => False
  end.
Proof.
  intros Hord Hadm Hrel Hcall. apply step_related_core; auto.
  intros _. now apply admissible_builders_agree.
Qed.

Section Transparent.
Context {PS : Type}.
Variable C : cfg.
Variable poll : Q.
Variable pol : policy PS.
Variable call_at : Z -> bool.
Hypothesis Hord : order_pipe (cf_static C).
Hypothesis Hadm : admissible pol.

Let R (t : Z) (s1 : gsim (rxs PS)) (s2 : gsim (dxs PS)) : Prop :=
  gforget s1 = gforget s2 /\ related (cf_static C) t (gm_sched s1) (gm_sched s2).
Let P (t : Z) (s1 : gsim (rxs PS)) (newp : list nat) : Prop :=
  call_at t = rest_calls_at C poll (gm_sched s1) (gm_results s1) newp.

Lemma R_agree t s1 s2 newp : R t s1 s2 -> P t s1 newp ->
  step_agree (rest_gstep C poll pol (gm_sched s1) (gm_exec s1) (gm_results s1) newp t)
             (direct_gstep C call_at pol (gm_sched s2) (gm_exec s2) (gm_results s2) newp t).
Proof.
  intros [Hf Hr] HP. apply gforget_fields in Hf. destruct Hf as (He & Hres & _).
  rewrite <- He, <- Hres.
  pose proof (step_related C poll pol call_at (gm_sched s1) (gm_sched s2) (gm_exec s1) (gm_results s1)
                           newp t Hord Hadm Hr HP) as H.
  unfold step_agree.
  destruct (rest_gstep C poll pol (gm_sched s1) (gm_exec s1) (gm_results s1) newp t) as [[[[x1 w1] su1] a1]|e1];
    destruct (direct_gstep C call_at pol (gm_sched s2) (gm_exec s1) (gm_results s1) newp t)
      as [[[[x2 w2] su2] a2]|e2]; try contradiction; [|exact H].
  destruct H as (H1 & H2 & H3 & _). auto.
Qed.

Lemma R_step t s1 s2 newp s1' l1 s2' l2 : R t s1 s2 -> P t s1 newp ->
  gsim_tick C (rest_gstep C poll pol) t s1 newp = Ok (s1', l1) ->
  gsim_tick C (direct_gstep C call_at pol) t s2 newp = Ok (s2', l2) ->
  R (t + 1)%Z s1' s2'.
Proof.
  intros HR HP H1 H2. split.
  - pose proof (gsim_tick_agree C (rest_gstep C poll pol) (direct_gstep C call_at pol) t s1 s2 newp
                                (proj1 HR) (R_agree t s1 s2 newp HR HP)) as Hag.
    rewrite H1, H2 in Hag. exact (proj2 Hag).
  - destruct HR as [Hf Hr]. apply gforget_fields in Hf. destruct Hf as (He & Hres & _).
    apply gsim_tick_inv in H1. destruct H1 as (w1 & su1 & a1 & Hs1 & _).
    apply gsim_tick_inv in H2. destruct H2 as (w2 & su2 & a2 & Hs2 & _).
    rewrite <- He, <- Hres in Hs2.
    pose proof (step_related C poll pol call_at (gm_sched s1) (gm_sched s2) (gm_exec s1) (gm_results s1)
                             newp t Hord Hadm Hr HP) as H.
    rewrite Hs1, Hs2 in H. exact (proj2 (proj2 (proj2 H))).
Qed.

Theorem rest_transparent npools cpu ram ps0 arrivals :
  discipline_agrees C poll pol call_at 0%Z (ginit C npools cpu ram (rx_init ps0)) arrivals ->
  gforget_run (gsim_run C (rest_gstep C poll pol) 0%Z (ginit C npools cpu ram (rx_init ps0)) arrivals)
  = gforget_run (gsim_run C (direct_gstep C call_at pol) 0%Z (ginit C npools cpu ram (dx_init ps0)) arrivals).
Proof.
  intros Hd.
  apply (gsim_run_rel C (rest_gstep C poll pol) (direct_gstep C call_at pol) R P).
  - intros t s1 s2 H. exact (proj1 H).
  - exact R_agree.
  - exact R_step.
  - split; [reflexivity|]. unfold related, lookup_inv; cbn. repeat split; try reflexivity.
    intros p o [].
  - exact Hd.
Qed.

(* the statistics of the two runs *)
Corollary rest_same_statistics npools cpu ram ps0 arrivals duration :
  discipline_agrees C poll pol call_at 0%Z (ginit C npools cpu ram (rx_init ps0)) arrivals ->
  gfinal_stats C duration
    (fst (fst (gsim_run C (rest_gstep C poll pol) 0%Z (ginit C npools cpu ram (rx_init ps0)) arrivals)))
  = gfinal_stats C duration
    (fst (fst (gsim_run C (direct_gstep C call_at pol) 0%Z (ginit C npools cpu ram (dx_init ps0)) arrivals))).
Proof.
  intros Hd. pose proof (rest_transparent npools cpu ram ps0 arrivals Hd) as H.
  destruct (gsim_run C (rest_gstep C poll pol) 0%Z _ arrivals) as [[f1 l1] e1].
  destruct (gsim_run C (direct_gstep C call_at pol) 0%Z _ arrivals) as [[f2 l2] e2].
  unfold gforget_run in H. apply gfinal_stats_forget. cbn [fst].
  exact (f_equal (fun x => fst (fst x)) H).
Qed.

End Transparent.

(* ---------------------------------------------------------------------------------------------- *)
(* D. run-level facts *)

(* the bookkeeping of the bridge inside the loop is [rest_step] of Model/Rest.v on the inputs read off the
   real state (so every theorem of RestFacts about [rest_step] / [rest_run] applies to it) *)
Lemma rest_gstep_state {PS} C poll (pol : policy PS) x e results newp t x' w su a :
  rest_gstep C poll pol x e results newp t = Ok (x', w, su, a) ->
  rx_rs x' = fst (rest_step (cf_rnd C) (cf_tps C) poll (rx_rs x) (tick_in_of C e results newp (rx_rs x))) /\
  rx_arr x' = rx_arr x ++ map (fun p => (p, t)) newp.
Proof.
  unfold rest_gstep.
  destruct (rest_step (cf_rnd C) (cf_tps C) poll (rx_rs x) (tick_in_of C e results newp (rx_rs x)))
    as [st' [pl|]].
  - destruct (pol (rx_pol x) (view_of C e results newp t x)) as [r0 ps'].
    destruct (decode_reply (encode_reply r0)) as [r|]; [|discriminate].
    destruct (build_assignments C _ (e_world e) (rp_asg r)) as [[w1 as1]|er]; cbn [bind]; [|discriminate].
    intros H; inversion H; subst. split; reflexivity.
  - intros H; inversion H; subst. split; reflexivity.
Qed.

Definition bridge_inv {PS} (t : Z) (s : gsim (rxs PS)) : Prop :=
  rx_arr (gm_sched s) = gm_arrival s /\ rs_tick (rx_rs (gm_sched s)) = t.

Lemma bridge_inv_step {PS} C poll (pol : policy PS) t s newp s' lg :
  bridge_inv t s -> gsim_tick C (rest_gstep C poll pol) t s newp = Ok (s', lg) -> bridge_inv (t + 1)%Z s'.
Proof.
  intros [Ha Ht] H. apply gsim_tick_inv in H. destruct H as (w & su & a & Hs & Harr & _).
  apply rest_gstep_state in Hs. destruct Hs as [Hrs Hra]. split.
  - rewrite Hra, Harr, Ha. reflexivity.
  - rewrite Hrs, step_tick, Ht. reflexivity.
Qed.

Lemma bridge_inv_init {PS} C npools cpu ram (ps0 : PS) : bridge_inv 0%Z (ginit C npools cpu ram (rx_init ps0)).
Proof. split; reflexivity. Qed.

(* in every tick of a run from the initial state: the arrival ticks the bridge serialises are the ones the
   simulator recorded, and its own tick counter is the simulator's tick number (+ 1 in the request) *)
Theorem bridge_holds_simulator_clock {PS} C poll (pol : policy PS) npools cpu ram ps0 arrivals k sk :
  nth_error (gsim_states C (rest_gstep C poll pol) 0%Z (ginit C npools cpu ram (rx_init ps0)) arrivals) k
    = Some sk ->
  rx_arr (gm_sched sk) = gm_arrival sk /\ rs_tick (rx_rs (gm_sched sk)) = Z.of_nat k.
Proof.
  intros H.
  pose proof (gsim_states_inv C (rest_gstep C poll pol) bridge_inv
                (fun t s newp s' lg => bridge_inv_step C poll pol t s newp s' lg)
                arrivals 0%Z _ k sk (bridge_inv_init C npools cpu ram ps0) H) as [Ha Ht].
  split; [exact Ha|]. rewrite Ht. lia.
Qed.

(* the request of tick k of a run, against the simulator state of that moment *)
Theorem run_payload_is_true_state {PS} C poll (pol : policy PS) npools cpu ram ps0 arrivals k sk newp p :
  nth_error (gsim_states C (rest_gstep C poll pol) 0%Z (ginit C npools cpu ram (rx_init ps0)) arrivals) k
    = Some sk ->
  nth_error arrivals k = Some newp ->
  rest_request C poll (gm_sched sk) (gm_exec sk) (gm_results sk) newp (Z.of_nat k) = Some p ->
  state_of_payload p
  = observable_part C (gm_exec sk) (gm_results sk) newp (map pid (rs_other (rx_rs (gm_sched sk))))
                    (gm_arrival sk ++ map (fun q => (q, Z.of_nat k)) newp) (Z.of_nat k + 1)%Z.
Proof.
  intros Hk _ Hp. apply request_is_true_state in Hp.
  destruct (bridge_holds_simulator_clock C poll pol npools cpu ram ps0 arrivals k sk Hk) as [Ha Ht].
  rewrite Ha, Ht in Hp. exact Hp.
Qed.

(* the policy is handed exactly that request *)
Lemma rest_gstep_uses_request {PS} C poll (pol : policy PS) x e results newp t p :
  rest_request C poll x e results newp t = Some p ->
  rest_gstep C poll pol x e results newp t
  = (let '(r, ps') := pol (rx_pol x) p in
     do wa <- build_assignments C (fun o => memZ o (register (rs_lookup (rx_rs x))
                                                       (map (pipe_entry (cf_static C)) newp)))
                                (e_world e) (rp_asg r);
     let '(w', asgs) := wa in
     Ok (mkrxs (fst (rest_step (cf_rnd C) (cf_tps C) poll (rx_rs x) (tick_in_of C e results newp (rx_rs x))))
               (rx_arr x ++ map (fun q => (q, t)) newp) ps',
         w', map (susp_of e) (rp_susp r), asgs)).
Proof.
  unfold rest_request. destruct (rest_calls_at C poll x results newp) eqn:Hc; [|discriminate].
  intros H; inversion H; subst p; clear H. unfold rest_gstep.
  destruct (rest_step_call C poll x e results newp Hc) as [pl Hpl]. rewrite Hpl. cbn [fst ti_new tick_in_of].
  destruct (pol (rx_pol x) (view_of C e results newp t x)) as [r0 ps']. rewrite decode_encode. reflexivity.
Qed.

(* a call discipline that agrees with the bridge exists: the one read off the REST run *)
Lemma nth_map_combine {A B} (f : A * B -> bool) : forall (l1 : list A) (l2 : list B) k a b,
  nth_error l1 k = Some a -> nth_error l2 k = Some b -> nth k (map f (combine l1 l2)) false = f (a, b).
Proof.
  induction l1 as [|x t IH]; intros l2 k a b H1 H2; [destruct k; discriminate|].
  destruct l2 as [|y u]; [destruct k; discriminate|].
  destruct k as [|k]; cbn in *.
  - inversion H1; inversion H2; subst. reflexivity.
  - eapply IH; eauto.
Qed.

Theorem trace_discipline_agrees {PS} C poll (pol : policy PS) s arrivals :
  discipline_agrees C poll pol (schedule_of 0%Z (rest_call_trace C poll pol 0%Z s arrivals)) 0%Z s arrivals.
Proof.
  unfold discipline_agrees, schedule_of, rest_call_trace. intros k sk newp Hk Hn.
  replace (Z.to_nat (0 + Z.of_nat k - 0)) with k by lia.
  now rewrite (nth_map_combine _ _ _ k sk newp Hk Hn).
Qed.

(* ---------------------------------------------------------------------------------------------- *)
(* E. links to Model/Rest.v *)

(* the operator table of _parse_assignments for the registered keys: id -> id of its pipeline *)
Definition tab_of (S : static) (lk : list Z) : list (Z * Z) :=
  map (fun k => (k, Z.of_nat (op_pipe S (Z.to_nat k)))) lk.

Definition err_of_perr (e : perr) : err :=
  match e with PArgs => EBadAssignArgs | _ => EOther end.

(* an Assignment object as the executor reads it *)
Definition asg_of_obj (ob : assign_obj) : res asg :=
  match cpu_of_Q (ao_cpu ob) with
  | Some c => Ok {| a_ops := map Z.to_nat (ao_ops ob); a_cpu := c; a_ram := ao_ram ob; a_prio := ao_prio ob;
                    a_pool := ao_pool ob |}
  | None => Err EOther
  end.

Lemma lookup_pipe_tab S o : forall lk,
  lookup_pipe (tab_of S lk) o = if memZ o lk then Some (Z.of_nat (op_pipe S (Z.to_nat o))) else None.
Proof.
  induction lk as [|k t IH]; [reflexivity|]. cbn [tab_of map lookup_pipe]. fold (tab_of S t).
  unfold memZ. cbn [existsb]. fold (memZ o t). rewrite (Z.eqb_sym o k).
  destruct (k =? o)%Z eqn:E; cbn [orb]; [|exact IH]. apply Z.eqb_eq in E. now subst.
Qed.

(* [parse_asg] through the lookup IS Rest.parse_assignment (same tests in the same order, same fields) *)
Theorem parse_asg_rest S lk a :
  parse_asg (fun o => memZ o lk) a
  = match parse_assignment (tab_of S lk) a with
    | inl e => Err (err_of_perr e)
    | inr ob => asg_of_obj ob
    end.
Proof.
  unfold parse_asg, parse_assignment.
  rewrite (forallb_ext_in (fun o => match lookup_pipe (tab_of S lk) o with Some _ => true | None => false end)
                          (fun o => memZ o lk) (as_ops a)).
  2:{ intros o _. rewrite lookup_pipe_tab. destruct (memZ o lk); reflexivity. }
  destruct (forallb (fun o => memZ o lk) (as_ops a)) eqn:Hk; [|reflexivity].
  destruct (prio_named (as_prio a)) as [pr|]; [|reflexivity].
  destruct (as_ops a) as [|o t] eqn:Ho; [reflexivity|].
  cbn [forallb] in Hk. apply andb_prop in Hk. destruct Hk as [Hk _].
  rewrite lookup_pipe_tab, Hk.
  destruct (Qltb 0 (as_cpu a) && Qltb 0 (as_ram a)); [|reflexivity].
  unfold asg_of_obj. cbn [ao_cpu ao_ops ao_ram ao_prio ao_pool]. reflexivity.
Qed.

(* creating Assignment objects never changes which pipelines are successful: the deletion loop of
   rest_scheduler (which runs AFTER _parse_assignments) sees the flags the request carried *)
Lemma nth_bump_other c a d j : ost_idx a <> j -> nth j (bump c a d) 0%Z = nth j c 0%Z.
Proof. intros H. unfold bump. now apply nth_set_nth_other. Qed.

Lemma cnt_completed_assigned S w op w' k :
  transition S w op Assigned = Ok w' -> cnt_of w' k Completed = cnt_of w k Completed.
Proof.
  intros H. apply transition_ok in H. destruct H as (Hv & _ & ->).
  assert (Hne : ost_idx (st_of w op) <> 4).
  { destruct (st_of w op); cbn; try lia. rewrite completed_no_successor in Hv. discriminate. }
  unfold cnt_of, world_after. cbn [w_cnt ost_idx].
  destruct (Nat.eq_dec (op_pipe S op) k) as [<-|Hk].
  - destruct (lt_dec (op_pipe S op) (length (w_cnt w))) as [Hl|Hl].
    + rewrite nth_set_nth_same by exact Hl. rewrite !nth_bump_other; [reflexivity|exact Hne|cbn; lia].
    + rewrite set_nth_out by lia. reflexivity.
  - rewrite nth_set_nth_other by exact Hk. reflexivity.
Qed.

Lemma transition_all_assigned_success S k : forall ops w w',
  transition_all S w ops Assigned = Ok w' -> is_successful S w' k = is_successful S w k.
Proof.
  induction ops as [|op t IH]; intros w w' H; cbn in H.
  - now inversion H.
  - destruct (transition S w op Assigned) as [w1|e] eqn:E; cbn [bind] in H; [|discriminate].
    rewrite (IH _ _ H). unfold is_successful. now rewrite (cnt_completed_assigned _ _ _ _ k E).
Qed.

Lemma mk_assignment_success C w a w' k :
  mk_assignment C w a = Ok w' -> is_successful (cf_static C) w' k = is_successful (cf_static C) w k.
Proof.
  unfold mk_assignment. destruct (Nat.eqb (length (a_ops a)) 0); [discriminate|].
  destruct (a_cpu a <=? 0)%Z; [discriminate|]. destruct (Qleb (a_ram a) 0); [discriminate|].
  apply transition_all_assigned_success.
Qed.

Lemma build_assignments_success C known k : forall l w w' asgs,
  build_assignments C known w l = Ok (w', asgs) ->
  is_successful (cf_static C) w' k = is_successful (cf_static C) w k.
Proof.
  induction l as [|a t IH]; intros w w' asgs H; cbn in H.
  - now inversion H.
  - destruct (parse_asg known a) as [x|e]; cbn [bind] in H; [|discriminate].
    destruct (mk_assignment C w x) as [w1|e] eqn:Hm; cbn [bind] in H; [|discriminate].
    destruct (build_assignments C known w1 t) as [[w2 xs]|e] eqn:Hb; cbn [bind] in H; [|discriminate].
    inversion H; subst. rewrite (IH _ _ _ Hb). now apply mk_assignment_success with (a := x).
Qed.

Theorem deletion_sees_sent_flags {PS} C poll (pol : policy PS) x e results newp t x' w' su a ps :
  rest_gstep C poll pol x e results newp t = Ok (x', w', su, a) ->
  succ_ids (cf_static C) w' ps = succ_ids (cf_static C) (e_world e) ps.
Proof.
  intros H. unfold succ_ids. apply filter_ext_in'. intros z _.
  unfold rest_gstep in H.
  destruct (rest_step (cf_rnd C) (cf_tps C) poll (rx_rs x) (tick_in_of C e results newp (rx_rs x)))
    as [st' [pl|]].
  - destruct (pol (rx_pol x) (view_of C e results newp t x)) as [r0 ps'].
    destruct (decode_reply (encode_reply r0)) as [r|]; [|discriminate].
    destruct (build_assignments C _ (e_world e) (rp_asg r)) as [[w1 as1]|er] eqn:Hb; cbn [bind] in H;
      [|discriminate].
    inversion H; subst. eapply build_assignments_success; eauto.
  - inversion H; subst. reflexivity.
Qed.

(* ---------------------------------------------------------------------------------------------- *)
(* F. without admissibility: the only way the two runs can part is the KeyError of the bridge on an operator
   id that is not (or no longer) registered *)

Definition lookup_nonneg (st : rs) : Prop := forall o, In o (rs_lookup st) -> (0 <= o)%Z.

Lemma register_nonneg S lk newp :
  (forall o, In o lk -> (0 <= o)%Z) ->
  forall o, In o (register lk (map (pipe_entry S) newp)) -> (0 <= o)%Z.
Proof.
  intros H o Ho. apply register_in in Ho. destruct Ho as [Ho|[p [Hp Ho]]]; [now apply H|].
  apply in_map_iff in Hp. destruct Hp as [k [<- _]]. cbn [pipe_entry snd] in Ho.
  apply in_map_iff in Ho. destruct Ho as [n [<- _]]. lia.
Qed.

Lemma lookup_nonneg_gstep {PS} C poll (pol : policy PS) x e results newp t x' w su a :
  lookup_nonneg (rx_rs x) -> rest_gstep C poll pol x e results newp t = Ok (x', w, su, a) ->
  lookup_nonneg (rx_rs x').
Proof.
  intros Hn H. apply rest_gstep_state in H. destruct H as [-> _].
  destruct (rest_calls_at C poll x results newp) eqn:Hc.
  - destruct (rest_step_call_explicit C poll x e results newp Hc) as [pl Hpl]. cbv zeta in Hpl.
    rewrite Hpl. cbn [fst]. intros o Ho. cbn [rs_lookup] in Ho. apply filter_In in Ho.
    eapply register_nonneg; [exact Hn|exact (proj1 Ho)].
  - rewrite (rest_step_skip C poll x e results newp Hc). exact Hn.
Qed.

Lemma parse_asg_sub known1 known2 a :
  (forall o, known1 o = true -> known2 o = true) ->
  parse_asg known1 a = Err EOther \/ parse_asg known1 a = parse_asg known2 a.
Proof.
  intros H. unfold parse_asg. destruct (forallb known1 (as_ops a)) eqn:E; [right|left; reflexivity].
  assert (E2 : forallb known2 (as_ops a) = true).
  { apply forallb_forall. intros o Ho. apply H. rewrite forallb_forall in E. now apply E. }
  now rewrite E2.
Qed.

Lemma build_assignments_sub C known1 known2 : forall l w,
  (forall o, known1 o = true -> known2 o = true) ->
  build_assignments C known1 w l = Err EOther \/
  build_assignments C known1 w l = build_assignments C known2 w l.
Proof.
  induction l as [|a t IH]; intros w H; [right; reflexivity|]. cbn.
  destruct (parse_asg_sub known1 known2 a H) as [E|E]; rewrite E; [left; reflexivity|].
  destruct (parse_asg known2 a) as [x|e]; cbn [bind]; [|right; reflexivity].
  destruct (mk_assignment C w x) as [w1|e]; cbn [bind]; [|right; reflexivity].
  destruct (IH w1 H) as [E1|E1]; rewrite E1; [left|right]; reflexivity.
Qed.

Lemma step_dichotomy {PS} C poll (pol : policy PS) call_at x d e results newp t :
  order_pipe (cf_static C) -> related (cf_static C) t x d -> lookup_nonneg (rx_rs x) ->
  call_at t = rest_calls_at C poll x results newp ->
  rest_gstep C poll pol x e results newp t = Err EOther \/
  match rest_gstep C poll pol x e results newp t, direct_gstep C call_at pol d e results newp t with
  | Ok (x', w1, su1, a1), Ok (d', w2, su2, a2) =>
      w1 = w2 /\ su1 = su2 /\ a1 = a2 /\ related (cf_static C) (t + 1)%Z x' d'
  | Err e1, Err e2 => e1 = e2
  | _, _ => False
  end.
Proof.
  intros Hord Hrel Hnn Hcall.
  destruct (rest_calls_at C poll x results newp) eqn:Hc.
  - set (v := view C e results newp (dx_other d) (dx_arr d ++ map (fun p => (p, t)) newp) (t + 1)%Z).
    set (known1 := fun o => memZ o (register (rs_lookup (rx_rs x)) (map (pipe_entry (cf_static C)) newp))).
    destruct (build_assignments_sub C known1 is_op_id (rp_asg (fst (pol (dx_pol d) v))) (e_world e))
      as [E|E].
    { intros o Ho. unfold known1 in Ho. apply memZ_In in Ho. unfold is_op_id. apply Z.leb_le.
      eapply register_nonneg; [exact Hnn|exact Ho]. }
    + left. rewrite (rest_gstep_uses_request C poll pol x e results newp t (view_of C e results newp t x)).
      2:{ unfold rest_request. now rewrite Hc. }
      rewrite (view_of_related C x d e results newp t Hrel).
      destruct Hrel as (_ & _ & Hp & _). rewrite Hp. fold v.
      destruct (pol (dx_pol d) v) as [r ps']. cbn [fst] in E. fold known1. rewrite E. reflexivity.
    + right. apply step_related_core; auto. rewrite Hc. exact Hcall.
  - right. apply step_related_core; auto; [now rewrite Hc|]. intros H. rewrite Hc in H. discriminate.
Qed.

Section Dichotomy.
Context {PS : Type}.
Variable C : cfg.
Variable poll : Q.
Variable pol : policy PS.
Variable call_at : Z -> bool.
Hypothesis Hord : order_pipe (cf_static C).

Let R (t : Z) (s1 : gsim (rxs PS)) (s2 : gsim (dxs PS)) : Prop :=
  gforget s1 = gforget s2 /\ related (cf_static C) t (gm_sched s1) (gm_sched s2) /\
  lookup_nonneg (rx_rs (gm_sched s1)).
Let P (t : Z) (s1 : gsim (rxs PS)) (newp : list nat) : Prop :=
  call_at t = rest_calls_at C poll (gm_sched s1) (gm_results s1) newp.

Lemma R_agree_or t s1 s2 newp : R t s1 s2 -> P t s1 newp ->
  rest_gstep C poll pol (gm_sched s1) (gm_exec s1) (gm_results s1) newp t = Err EOther \/
  step_agree (rest_gstep C poll pol (gm_sched s1) (gm_exec s1) (gm_results s1) newp t)
             (direct_gstep C call_at pol (gm_sched s2) (gm_exec s2) (gm_results s2) newp t).
Proof.
  intros (Hf & Hr & Hn) HP. apply gforget_fields in Hf. destruct Hf as (He & Hres & _).
  rewrite <- He, <- Hres.
  destruct (step_dichotomy C poll pol call_at (gm_sched s1) (gm_sched s2) (gm_exec s1) (gm_results s1)
                           newp t Hord Hr Hn HP) as [H|H]; [left; exact H|right].
  unfold step_agree.
  destruct (rest_gstep C poll pol (gm_sched s1) (gm_exec s1) (gm_results s1) newp t) as [[[[x1 w1] su1] a1]|e1];
    destruct (direct_gstep C call_at pol (gm_sched s2) (gm_exec s1) (gm_results s1) newp t)
      as [[[[x2 w2] su2] a2]|e2]; try contradiction; [|exact H].
  destruct H as (H1 & H2 & H3 & _). auto.
Qed.

Lemma R_step_or t s1 s2 newp s1' l1 s2' l2 : R t s1 s2 -> P t s1 newp ->
  gsim_tick C (rest_gstep C poll pol) t s1 newp = Ok (s1', l1) ->
  gsim_tick C (direct_gstep C call_at pol) t s2 newp = Ok (s2', l2) ->
  R (t + 1)%Z s1' s2'.
Proof.
  intros HR HP H1 H2.
  pose proof H1 as H1'. pose proof H2 as H2'.
  destruct HR as (Hf & Hr & Hn). pose proof Hf as Hf0.
  apply gforget_fields in Hf. destruct Hf as (He & Hres & _).
  apply gsim_tick_inv in H1. destruct H1 as (w1 & su1 & a1 & Hs1 & _).
  apply gsim_tick_inv in H2. destruct H2 as (w2 & su2 & a2 & Hs2 & _).
  rewrite <- He, <- Hres in Hs2.
  destruct (step_dichotomy C poll pol call_at (gm_sched s1) (gm_sched s2) (gm_exec s1) (gm_results s1)
                           newp t Hord Hr Hn HP) as [H|H]; [congruence|].
  rewrite Hs1, Hs2 in H. destruct H as (-> & -> & -> & Hrel').
  split; [|split].
  - assert (Hag : step_agree (rest_gstep C poll pol (gm_sched s1) (gm_exec s1) (gm_results s1) newp t)
                    (direct_gstep C call_at pol (gm_sched s2) (gm_exec s2) (gm_results s2) newp t)).
    { rewrite <- He, <- Hres, Hs1, Hs2. cbn. auto. }
    pose proof (gsim_tick_agree C _ _ t s1 s2 newp Hf0 Hag) as Hx. rewrite H1', H2' in Hx. exact (proj2 Hx).
  - exact Hrel'.
  - eapply lookup_nonneg_gstep; eauto.
Qed.

(* for EVERY policy: either the HTTP-driven run stops with the bridge's lookup error (class EOther), or it
   is the in-process run *)
Theorem rest_transparent_or_keyerror npools cpu ram ps0 arrivals :
  discipline_agrees C poll pol call_at 0%Z (ginit C npools cpu ram (rx_init ps0)) arrivals ->
  snd (gsim_run C (rest_gstep C poll pol) 0%Z (ginit C npools cpu ram (rx_init ps0)) arrivals) = Some EOther \/
  gforget_run (gsim_run C (rest_gstep C poll pol) 0%Z (ginit C npools cpu ram (rx_init ps0)) arrivals)
  = gforget_run (gsim_run C (direct_gstep C call_at pol) 0%Z (ginit C npools cpu ram (dx_init ps0)) arrivals).
Proof.
  intros Hd.
  apply (gsim_run_rel_or C (rest_gstep C poll pol) (direct_gstep C call_at pol) R P).
  - intros t s1 s2 H. exact (proj1 H).
  - exact R_agree_or.
  - exact R_step_or.
  - split; [reflexivity|]. split.
    + unfold related, lookup_inv; cbn. repeat split; try reflexivity. intros p o [].
    + intros o [].
  - exact Hd.
Qed.

End Dichotomy.

(* with the discipline read off the REST run itself there is no hypothesis on the call ticks left *)
Corollary rest_transparent_trace {PS} C poll (pol : policy PS) npools cpu ram ps0 arrivals :
  order_pipe (cf_static C) -> admissible pol ->
  let s0 := ginit C npools cpu ram (rx_init ps0) in
  gforget_run (gsim_run C (rest_gstep C poll pol) 0%Z s0 arrivals)
  = gforget_run (gsim_run C (direct_gstep C (schedule_of 0%Z (rest_call_trace C poll pol 0%Z s0 arrivals)) pol)
                          0%Z (ginit C npools cpu ram (dx_init ps0)) arrivals).
Proof.
  intros Hord Hadm s0. apply rest_transparent; auto. apply trace_discipline_agrees.
Qed.

(* in a run from the initial state every key of operator_lookup is the wire form of an operator number, so
   "resolved through the lookup" reads: the operators of a command ARE the ids the reply named *)
Lemma lookup_nonneg_run {PS} C poll (pol : policy PS) npools cpu ram ps0 arrivals k sk :
  nth_error (gsim_states C (rest_gstep C poll pol) 0%Z (ginit C npools cpu ram (rx_init ps0)) arrivals) k
    = Some sk ->
  lookup_nonneg (rx_rs (gm_sched sk)).
Proof.
  intros H.
  refine (gsim_states_inv C (rest_gstep C poll pol) (fun _ s => lookup_nonneg (rx_rs (gm_sched s))) _
                          arrivals 0%Z _ k sk _ H).
  - intros t s newp s' lg Hn Ht. apply gsim_tick_inv in Ht. destruct Ht as (w & su & a & Hs & _).
    eapply lookup_nonneg_gstep; eauto.
  - intros o [].
Qed.

Theorem run_decisions_name_operators {PS} C poll (pol : policy PS) npools cpu ram ps0 arrivals k sk newp tick
        x' w' susps asgs :
  nth_error (gsim_states C (rest_gstep C poll pol) 0%Z (ginit C npools cpu ram (rx_init ps0)) arrivals) k
    = Some sk ->
  rest_gstep C poll pol (gm_sched sk) (gm_exec sk) (gm_results sk) newp tick = Ok (x', w', susps, asgs) ->
  rest_calls_at C poll (gm_sched sk) (gm_results sk) newp = true ->
  Forall2 (fun a x => map Z.of_nat (a_ops x) = as_ops a)
          (rp_asg (fst (pol (rx_pol (gm_sched sk)) (view_of C (gm_exec sk) (gm_results sk) newp tick (gm_sched sk)))))
          asgs.
Proof.
  intros Hk Hs Hc. pose proof (lookup_nonneg_run C poll pol npools cpu ram ps0 arrivals k sk Hk) as Hn.
  destruct (decisions_executed_as_given C poll pol _ _ _ _ _ _ _ _ _ Hs) as [_ H].
  specialize (H Hc). cbv zeta in H. destruct H as (_ & H2 & Hf & _).
  set (l := rp_asg (fst (pol (rx_pol (gm_sched sk))
                             (view_of C (gm_exec sk) (gm_results sk) newp tick (gm_sched sk))))) in *.
  clearbody l. clear Hs. revert Hf. induction H2 as [|a x l' xs Hax _ IH]; intros Hf; constructor.
  - destruct Hax as (Hops & _). rewrite Hops, map_map.
    rewrite <- (map_id (as_ops a)) at 2. apply map_ext_in. intros o Ho. apply Z2Nat.id.
    inversion Hf; subst. eapply register_nonneg; [exact Hn|]. now apply H1.
  - apply IH. inversion Hf; subst. assumption.
Qed.

(* ---------------------------------------------------------------------------------------------- *)
(* G. the small policy of Model/RestSim.v is admissible *)

Lemma first_ready_listed ps o pr :
  first_ready ps = Some (o, pr) -> exists v, In v ps /\ In o (map ov_id (pv_ops v)).
Proof.
  unfold first_ready.
  destruct (flat_map _ ps) as [|x t] eqn:E; [discriminate|]. intros H; inversion H; subst x; clear H.
  assert (Hin : In (o, pr) (flat_map (fun v =>
           if pv_complete v || pv_failures v then []
           else map (fun o => (ov_id o, pv_prio v))
                    (filter (fun o => ov_assignable o && ov_parents_complete o) (pv_ops v))) ps))
    by (rewrite E; now left).
  apply in_flat_map in Hin. destruct Hin as [v [Hv Hx]]. exists v. split; [exact Hv|].
  destruct (pv_complete v || pv_failures v); [destruct Hx|].
  apply in_map_iff in Hx. destruct Hx as [ov [Heq Hov]]. inversion Heq; subst.
  apply filter_In in Hov. apply in_map. exact (proj1 Hov).
Qed.

Theorem greedy_admissible : admissible greedy_policy.
Proof.
  intros ps p a o Ha Ho. unfold greedy_policy in Ha. cbn [fst] in Ha.
  destruct (first_ready (pf_other p ++ pf_new p)) as [[o' pr]|] eqn:E; [|destruct Ha].
  destruct (first_free (pf_pools p)) as [pl|]; [|destruct Ha].
  cbn [rp_asg] in Ha. destruct Ha as [<-|[]]. cbn [as_ops] in Ho. destruct Ho as [<-|[]].
  apply first_ready_listed in E. destruct E as [v [Hv Hov]].
  unfold listed_ops. apply in_flat_map. exists v. split; [|exact Hov].
  apply in_app_iff. apply in_app_iff in Hv. tauto.
Qed.

(* ---------------------------------------------------------------------------------------------- *)
(* H. a concrete run *)

Module RestSimExamples.

(* pipeline 0 (QUERY): operators 0 -> 1; pipeline 1 (BATCH): operator 2. Every operator runs two ticks and
   needs 1 GB. 10 ticks/s, float arithmetic, one pool of 4 CPUs / 8 GB, poll interval 0.3 s. Pipeline 0
   arrives in tick 0, pipeline 1 in tick 3. *)
Definition exl : list (prio * dag) := [(Query, [[]; [0]]); (Batch, [[]])].
Definition exC : cfg :=
  {| cf_static := mk_static exl;
     cf_script := fun _ _ => [1%Q; 1%Q];
     cf_tps := 10%Z; cf_overcommit := false; cf_multi := false; cf_rnd := rnd64 |}.
Definition ex_arrivals : list (list nat) := [[0]; []; []; [1]; []; []; []; []; []; []; []; []].
Definition ex_poll : Q := 3 # 10.
Definition ex_s0 : gsim (rxs unit) := ginit exC 1 4%Z 8%Q (rx_init tt).
Definition ex_d0 : gsim (dxs unit) := ginit exC 1 4%Z 8%Q (dx_init tt).

Lemma ex_order_pipe : order_pipe (cf_static exC).
Proof.
  intros k o H. destruct k as [|[|k]]; cbn in H.
  - destruct H as [<-|[<-|[]]]; reflexivity.
  - destruct H as [<-|[]]; reflexivity.
  - destruct k; destruct H.
Qed.

(* a policy that is NOT admissible: in its first reply it names operator 2, which belongs to a pipeline the
   bridge has not announced yet *)
Definition rogue_policy : policy unit :=
  fun _ p =>
    (if (pf_tick p =? 1)%Z then
       {| rp_susp := [];
          rp_asg := [{| as_ops := [2%Z]; as_cpu := 1; as_ram := 1; as_prio := 3%Z; as_pool := 0%Z;
                        as_resume := false; as_force := false |}] |}
     else {| rp_susp := []; rp_asg := [] |}, tt).

End RestSimExamples.

(* without admissibility the statement of [rest_transparent] fails: the bridge raises its KeyError in tick 0
   while the in-process scheduler, which holds the operator objects themselves, runs to the end *)
Theorem transparent_needs_admissible_refuted :
  exists (C : cfg) (poll : Q) (pol : policy unit) (arrivals : list (list nat)),
    let s0 := ginit C 1 4%Z 8%Q (rx_init tt) in
    let call_at := schedule_of 0%Z (rest_call_trace C poll pol 0%Z s0 arrivals) in
    let rest := gsim_run C (rest_gstep C poll pol) 0%Z s0 arrivals in
    let direct := gsim_run C (direct_gstep C call_at pol) 0%Z (ginit C 1 4%Z 8%Q (dx_init tt)) arrivals in
    order_pipe (cf_static C) /\
    discipline_agrees C poll pol call_at 0%Z s0 arrivals /\
    snd rest = Some EOther /\ snd direct = None /\
    gforget_run rest <> gforget_run direct.
Proof.
  exists RestSimExamples.exC, RestSimExamples.ex_poll, RestSimExamples.rogue_policy,
         RestSimExamples.ex_arrivals.
  cbv zeta. split; [exact RestSimExamples.ex_order_pipe|].
  split; [apply trace_discipline_agrees|].
  split; [vm_compute; reflexivity|]. split; [vm_compute; reflexivity|].
  intros H.
  assert (H' : snd (gforget_run (gsim_run RestSimExamples.exC
                 (rest_gstep RestSimExamples.exC RestSimExamples.ex_poll RestSimExamples.rogue_policy) 0%Z
                 (ginit RestSimExamples.exC 1 4%Z 8%Q (rx_init tt)) RestSimExamples.ex_arrivals)) = None).
  { rewrite H. vm_compute. reflexivity. }
  vm_compute in H'. discriminate.
Qed.
