(* Facts about the lazy trace reader (Model/CsvLazy.v) against the eager one (Model/Csv.v). *)
From Coq Require Import ZArith QArith List Bool Arith Lia.
Import ListNotations.
From Eudoxia Require Import Model.Types Model.Timing Model.Csv Model.CsvLazy Proofs.CsvFacts.
Close Scope Q_scope.
Close Scope Z_scope.

Local Opaque create_pipeline.

(* ------------------------------------------------------------------------------------------ *)
(* batch_by_pipeline *)

(* what a consumer of the lazy reader sees, as a function of the eager batching *)
Fixpoint lazy_read (bs : list (list row)) : list arrival * option refusal :=
  match bs with
  | [] => ([], None)
  | b :: t =>
      match create_pipeline b with
      | inl e => ([], Some e)
      | inr p => let (l, oe) := lazy_read t in ((batch_pid b, p) :: l, oe)
      end
  end.

Lemma bp_run_next_eq : forall f s1 s2, bp_next s1 = bp_next s2 -> bp_run (S f) s1 = bp_run (S f) s2.
Proof. intros f s1 s2 H. cbn [bp_run]. rewrite H. reflexivity. Qed.

Lemma bp_run_loop : forall rest id cur fuel, cur <> [] -> length rest + 2 <= fuel ->
  bp_run fuel (BpRun (Some id) cur rest) = lazy_read (batch_loop id cur rest).
Proof.
  induction rest as [|r rest IH]; intros id cur fuel Hc Hf.
  - destruct fuel as [|[|f]]; cbn [length] in Hf; try lia.
    destruct cur as [|c0 cur]; [congruence|].
    cbn [bp_run bp_next bp_scan batch_loop lazy_read].
    destruct (create_pipeline (c0 :: cur)) as [e|p]; reflexivity.
  - destruct fuel as [|f]; cbn [length] in Hf; try lia.
    cbn [batch_loop].
    destruct (r_pid r =? id) eqn:E.
    + rewrite (bp_run_next_eq f _ (BpRun (Some id) (cur ++ [r]) rest)).
      * apply IH; [destruct cur; discriminate | lia].
      * cbn [bp_next bp_scan]. rewrite E. reflexivity.
    + cbn [bp_run bp_next bp_scan lazy_read]. rewrite E.
      destruct (create_pipeline cur) as [e|p]; [reflexivity|].
      rewrite IH; [reflexivity | discriminate | lia].
Qed.

Lemma lazy_arrivals_spec : forall rows, lazy_arrivals rows = lazy_read (batches rows).
Proof.
  intros [|r rest]; [reflexivity|].
  unfold lazy_arrivals, bp_all, bp_start. cbn [bp_size batches].
  rewrite (bp_run_next_eq _ _ (BpRun (Some (r_pid r)) [r] rest)) by reflexivity.
  apply bp_run_loop; [discriminate | cbn [length]; lia].
Qed.

(* the two possible shapes of [lazy_read], side by side with the eager [read_batches] *)
Lemma lazy_read_cases : forall bs,
  (exists l, read_batches bs = inr (map snd l) /\ Forall2 built bs l /\ lazy_read bs = (l, None)) \/
  (exists k bad e l, nth_error bs k = Some bad /\ create_pipeline bad = inl e /\
                     Forall2 built (firstn k bs) l /\ read_batches bs = inl e /\ lazy_read bs = (l, Some e)).
Proof.
  induction bs as [|b t IH].
  - left. exists []. repeat split. constructor.
  - cbn [read_batches lazy_read]. destruct (create_pipeline b) as [e|p] eqn:E.
    + right. exists 0, b, e, []. repeat split; try assumption. constructor.
    + destruct IH as [[l [H1 [H2 H3]]] | [k [bad [e [l [H1 [H2 [H3 [H4 H5]]]]]]]]].
      * left. exists ((batch_pid b, p) :: l). rewrite H1, H3. repeat split.
        constructor; [split; [reflexivity | exact E] | assumption].
      * right. exists (S k), bad, e, ((batch_pid b, p) :: l). rewrite H4, H5. repeat split; try assumption.
        cbn [firstn]. constructor; [split; [reflexivity | exact E] | assumption].
Qed.

Lemma Forall2_built_fun : forall bs l l', Forall2 built bs l -> Forall2 built bs l' -> l = l'.
Proof.
  induction bs as [|b t IH]; intros l l' H H'; inversion H; inversion H'; subst; [reflexivity|].
  f_equal; [|apply IH; assumption].
  match goal with A : built b ?x, B : built b ?y |- ?x = ?y =>
    destruct x, y, A as [A1 A2], B as [B1 B2]; cbn [fst snd] in *; congruence end.
Qed.

Lemma Forall2_length_eq : forall (A B : Type) (R : A -> B -> Prop) l l', Forall2 R l l' -> length l = length l'.
Proof. induction 1; cbn [length]; congruence. Qed.

Lemma nth_error_firstn_length : forall (A : Type) (l : list A) k x, nth_error l k = Some x -> length (firstn k l) = k.
Proof.
  intros A l k x H. apply firstn_length_le.
  assert (k < length l) by (apply nth_error_Some; congruence). lia.
Qed.

(* the lazy reader and the eager reader agree on accepted files ... *)
Theorem lazy_eager_ok : forall rows ps,
  read_rows_c rows = inr ps <-> lazy_pipelines rows = (ps, None).
Proof.
  intros rows ps. unfold read_rows_c, lazy_pipelines. rewrite lazy_arrivals_spec.
  destruct (lazy_read_cases (batches rows)) as [[l [H1 [H2 H3]]] | [k [bad [e [l [H1 [H2 [H3 [H4 H5]]]]]]]]].
  - rewrite H1, H3. cbn [fst snd]. split; intro H; [inversion H; reflexivity | inversion H; reflexivity].
  - rewrite H4, H5. cbn [fst snd]. split; intro H; discriminate H.
Qed.

(* ... and on a refused file the lazy reader has delivered the pipelines of the batches before the FIRST
   malformed batch when it raises that batch's refusal, which is the refusal the eager reader reports *)
Theorem lazy_prefix : forall rows e, read_rows_c rows = inl e ->
  exists k bad l,
    nth_error (batches rows) k = Some bad /\ create_pipeline bad = inl e /\
    Forall2 built (firstn k (batches rows)) l /\ length l = k /\
    lazy_arrivals rows = (l, Some e) /\ lazy_pipelines rows = (map snd l, Some e).
Proof.
  intros rows e H. unfold read_rows_c in H. unfold lazy_pipelines. rewrite lazy_arrivals_spec.
  destruct (lazy_read_cases (batches rows)) as [[l [H1 _]] | [k [bad [e' [l [H1 [H2 [H3 [H4 H5]]]]]]]]].
  - rewrite H1 in H. discriminate H.
  - rewrite H4 in H. inversion H; subst e'. exists k, bad, l. rewrite H5. repeat split; try assumption.
    rewrite <- (Forall2_length_eq _ _ _ _ _ H3). eapply nth_error_firstn_length; eassumption.
Qed.

Theorem lazy_raise_is_refusal : forall rows l e, lazy_arrivals rows = (l, Some e) -> read_rows_c rows = inl e.
Proof.
  intros rows l e H. rewrite lazy_arrivals_spec in H. unfold read_rows_c.
  destruct (lazy_read_cases (batches rows)) as [[l' [_ [_ H3]]] | [k [bad [e' [l' [_ [_ [_ [H4 H5]]]]]]]]].
  - rewrite H3 in H. discriminate H.
  - rewrite H5 in H. inversion H; subst. exact H4.
Qed.

Theorem lazy_never_loads_differently : forall rows l oe, lazy_arrivals rows = (l, oe) ->
  Forall2 built (firstn (length l) (batches rows)) l /\
  (oe = None -> length l = length (batches rows)) /\
  (oe <> None -> length l < length (batches rows)).
Proof.
  intros rows l oe H. rewrite lazy_arrivals_spec in H.
  destruct (lazy_read_cases (batches rows)) as [[l' [_ [H2 H3]]] | [k [bad [e' [l' [H1 [_ [H3 [_ H5]]]]]]]]].
  - rewrite H3 in H. inversion H; subst. pose proof (Forall2_length_eq _ _ _ _ _ H2) as HL.
    rewrite <- HL, firstn_all. repeat split; [assumption | congruence].
  - rewrite H5 in H. inversion H; subst.
    assert (HL : length l = k).
    { rewrite <- (Forall2_length_eq _ _ _ _ _ H3). eapply nth_error_firstn_length; eassumption. }
    rewrite HL. repeat split; [assumption | discriminate |].
    intros _. apply nth_error_Some. congruence.
Qed.

Lemma built_ids : forall bs l, Forall2 built bs l -> map fst l = map batch_pid bs.
Proof. induction 1 as [|b a bs l [H _] _ IH]; cbn [map]; congruence. Qed.

Lemma batch_ids_pid : forall rows, batch_ids rows = map batch_pid (batches rows).
Proof. reflexivity. Qed.

Theorem lazy_ids_prefix : forall rows, lazy_ids rows = firstn (length (lazy_ids rows)) (batch_ids rows).
Proof.
  intros rows. unfold lazy_ids. destruct (lazy_arrivals rows) as [l oe] eqn:E. cbn [fst].
  destruct (lazy_never_loads_differently _ _ _ E) as [H _].
  rewrite (built_ids _ _ H), batch_ids_pid, map_length, firstn_map.
  rewrite (Forall2_length_eq _ _ _ _ _ H), <- (Forall2_length_eq _ _ _ _ _ H). reflexivity.
Qed.

(* one call of next(): the outcome is decided by the current batch as soon as ONE row of the next pipeline has
   been pulled; the rows after it ([tl], arbitrary) are still in the file *)
Lemma bp_scan_same : forall same id cur rest, Forall (fun x => r_pid x = id) same ->
  bp_scan (Some id) cur (same ++ rest) = bp_scan (Some id) (cur ++ same) rest.
Proof.
  induction same as [|x same IH]; intros id cur rest H.
  - rewrite app_nil_r. reflexivity.
  - inversion H; subst. cbn [app bp_scan]. rewrite Nat.eqb_refl, IH by assumption.
    rewrite <- app_assoc. reflexivity.
Qed.

Theorem lazy_next_step : forall id cur same r tl,
  cur <> [] -> Forall (fun x => r_pid x = id) same -> r_pid r <> id ->
  bp_next (BpRun (Some id) cur (same ++ r :: tl)) =
    match create_pipeline (cur ++ same) with
    | inl e => Raise e
    | inr p => Yield (batch_pid (cur ++ same), p) (BpRun (Some (r_pid r)) [r] tl)
    end.
Proof.
  intros id cur same r tl Hc Hs Hr. cbn [bp_next]. rewrite bp_scan_same by assumption.
  cbn [bp_scan]. apply Nat.eqb_neq in Hr. rewrite Hr. reflexivity.
Qed.

Theorem lazy_next_last : forall id cur same,
  cur <> [] -> Forall (fun x => r_pid x = id) same ->
  bp_next (BpRun (Some id) cur same) =
    match create_pipeline (cur ++ same) with
    | inl e => Raise e
    | inr p => Yield (batch_pid (cur ++ same), p) BpEnd
    end.
Proof.
  intros id cur same Hc Hs. cbn [bp_next]. rewrite <- (app_nil_r same) at 1. rewrite bp_scan_same by assumption.
  cbn [bp_scan]. destruct (cur ++ same) eqn:E; [|reflexivity].
  destruct cur; [congruence | discriminate E].
Qed.

Theorem lazy_next_first : forall r rest,
  bp_next (bp_start (r :: rest)) = bp_next (BpRun (Some (r_pid r)) [r] rest) /\ bp_next (bp_start []) = Done /\
  bp_next BpEnd = Done.
Proof. intros. repeat split. Qed.

(* ------------------------------------------------------------------------------------------ *)
(* fuel *)

Lemma bp_scan_size : forall rest id cur a s', bp_scan id cur rest = Yield a s' -> bp_size s' <= length rest.
Proof.
  induction rest as [|r rest IH]; intros id cur a s' H; cbn [bp_scan] in H.
  - destruct cur; [discriminate|]. destruct (create_pipeline (r :: cur)); inversion H. cbn. lia.
  - cbn [length]. destruct id as [i|].
    + destruct (r_pid r =? i).
      * apply IH in H. lia.
      * destruct (create_pipeline cur); inversion H. cbn [bp_size]. lia.
    + apply IH in H. lia.
Qed.

Lemma bp_next_size : forall s a s', bp_next s = Yield a s' -> bp_size s' < bp_size s.
Proof.
  intros [id cur rest|] a s' H; cbn [bp_next] in H; [|discriminate].
  apply bp_scan_size in H. cbn [bp_size]. lia.
Qed.

Lemma bp_run_fuel : forall f1 f2 s, bp_size s < f1 -> bp_size s < f2 -> bp_run f1 s = bp_run f2 s.
Proof.
  induction f1 as [|f1 IH]; intros f2 s H1 H2; [lia|]. destruct f2 as [|f2]; [lia|].
  cbn [bp_run]. destruct (bp_next s) as [a s'| |e] eqn:E; try reflexivity.
  apply bp_next_size in E. rewrite (IH f2 s') by lia. reflexivity.
Qed.

Lemma bp_all_step : forall s,
  bp_all s = match bp_next s with
             | Yield a s' => let (l, oe) := bp_all s' in (a :: l, oe)
             | Done => ([], None)
             | Raise e => ([], Some e)
             end.
Proof.
  intros s. unfold bp_all at 1. cbn [bp_run]. destruct (bp_next s) as [a s'| |e] eqn:E; try reflexivity.
  apply bp_next_size in E. unfold bp_all. rewrite (bp_run_fuel (bp_size s) (S (bp_size s')) s') by lia. reflexivity.
Qed.

Lemma ba_scan_fuel : forall f1 f2 s arr cur, bp_size s < f1 -> bp_size s < f2 ->
  ba_scan f1 s arr cur = ba_scan f2 s arr cur.
Proof.
  induction f1 as [|f1 IH]; intros f2 s arr cur H1 H2; [lia|]. destruct f2 as [|f2]; [lia|].
  cbn [ba_scan]. destruct (bp_next s) as [a s'| |e] eqn:E; try reflexivity.
  apply bp_next_size in E. destruct arr as [t|].
  - destruct (Qeq_bool (pm_arr (snd a)) t); [apply IH; lia | reflexivity].
  - apply IH; lia.
Qed.

(* ------------------------------------------------------------------------------------------ *)
(* batch_by_arrival *)

(* what a consumer of batch_by_arrival sees, as a function of what batch_by_pipeline delivers *)
Fixpoint ba_spec (arr : option Q) (cur : list arrival) (l : list arrival) (oe : option refusal)
  : list (list arrival) * option refusal :=
  match l with
  | [] => match oe with
          | Some e => ([], Some e)
          | None => (match cur with [] => [] | _ :: _ => [cur] end, None)
          end
  | a :: l' =>
      match arr with
      | None => ba_spec (Some (pm_arr (snd a))) [a] l' oe
      | Some t =>
          if Qeq_bool (pm_arr (snd a)) t then ba_spec arr (cur ++ [a]) l' oe
          else let (bs, o) := ba_spec (Some (pm_arr (snd a))) [a] l' oe in (cur :: bs, o)
      end
  end.

Definition ba_from (f g : nat) (s : bp_state) (arr : option Q) (cur : list arrival) :=
  match ba_scan f s arr cur with
  | BYield b st' => let (bs, o) := ba_run g st' in (b :: bs, o)
  | BDone => ([], None)
  | BRaise e => ([], Some e)
  end.

Lemma ba_run_S : forall g s arr cur, ba_run (S g) (BaRun s arr cur) = ba_from (S (bp_size s)) g s arr cur.
Proof. reflexivity. Qed.

Lemma ba_run_end : forall g, ba_run g BaEnd = ([], None).
Proof. destruct g; reflexivity. Qed.

Lemma ba_from_spec : forall n s arr cur f g, bp_size s < n -> bp_size s < f -> bp_size s <= g ->
  ba_from f g s arr cur = ba_spec arr cur (fst (bp_all s)) (snd (bp_all s)).
Proof.
  induction n as [|n IH]; intros s arr cur f g Hn Hf Hg; [lia|].
  destruct f as [|f]; [lia|].
  unfold ba_from. cbn [ba_scan]. rewrite (bp_all_step s).
  destruct (bp_next s) as [a s'| |e] eqn:E.
  - pose proof (bp_next_size _ _ _ E) as Hs.
    destruct (bp_all s') as [l oe] eqn:EA. cbn [fst snd ba_spec].
    assert (HA : l = fst (bp_all s') /\ oe = snd (bp_all s')) by (rewrite EA; split; reflexivity).
    destruct HA as [HA1 HA2].
    destruct arr as [t|].
    + destruct (Qeq_bool (pm_arr (snd a)) t).
      * rewrite HA1, HA2. apply (IH s' (Some t) (cur ++ [a]) f g); lia.
      * destruct g as [|g]; [lia|]. rewrite ba_run_S.
        rewrite (IH s' (Some (pm_arr (snd a))) [a] (S (bp_size s')) g) by lia.
        rewrite <- HA1, <- HA2. reflexivity.
    + rewrite HA1, HA2. apply (IH s' (Some (pm_arr (snd a))) [a] f g); lia.
  - cbn [fst snd ba_spec]. destruct cur; [reflexivity|]. rewrite ba_run_end. reflexivity.
  - reflexivity.
Qed.

Lemma ba_all_spec : forall s arr cur,
  ba_all (BaRun s arr cur) = ba_spec arr cur (fst (bp_all s)) (snd (bp_all s)).
Proof.
  intros s arr cur. unfold ba_all. rewrite ba_run_S.
  apply (ba_from_spec (S (bp_size s))); cbn [ba_size]; lia.
Qed.

Lemma lazy_batches_spec : forall rows,
  lazy_batches rows = ba_spec None [] (fst (lazy_arrivals rows)) (snd (lazy_arrivals rows)).
Proof. intros rows. apply ba_all_spec. Qed.

Lemma group_loop_nonempty : forall l t cur, group_loop t cur l <> [].
Proof.
  induction l as [|a l IH]; intros t cur; cbn [group_loop]; [discriminate|].
  destruct (Qeq_bool (pm_arr (snd a)) t); [apply IH | discriminate].
Qed.

Lemma ba_spec_ok : forall l t cur, cur <> [] -> ba_spec (Some t) cur l None = (group_loop t cur l, None).
Proof.
  induction l as [|a l IH]; intros t cur Hc; cbn [ba_spec group_loop].
  - destruct cur; [congruence | reflexivity].
  - destruct (Qeq_bool (pm_arr (snd a)) t).
    + apply IH. destruct cur; discriminate.
    + rewrite IH by discriminate. reflexivity.
Qed.

Lemma ba_spec_raise : forall l t cur e,
  ba_spec (Some t) cur l (Some e) = (removelast (group_loop t cur l), Some e).
Proof.
  induction l as [|a l IH]; intros t cur e; cbn [ba_spec group_loop].
  - reflexivity.
  - destruct (Qeq_bool (pm_arr (snd a)) t).
    + apply IH.
    + rewrite IH. cbn [removelast].
      destruct (group_loop (pm_arr (snd a)) [a] l) eqn:E; [exfalso; eapply group_loop_nonempty; eassumption|].
      reflexivity.
Qed.

Theorem lazy_batches_ok : forall rows l,
  lazy_arrivals rows = (l, None) -> lazy_batches rows = (arrival_groups l, None).
Proof.
  intros rows l H. rewrite lazy_batches_spec, H. cbn [fst snd].
  destruct l as [|a l]; [reflexivity|]. cbn [ba_spec arrival_groups]. apply ba_spec_ok. discriminate.
Qed.

Theorem lazy_batches_raise : forall rows l e,
  lazy_arrivals rows = (l, Some e) -> lazy_batches rows = (removelast (arrival_groups l), Some e).
Proof.
  intros rows l e H. rewrite lazy_batches_spec, H. cbn [fst snd].
  destruct l as [|a l]; [reflexivity|]. cbn [ba_spec arrival_groups]. apply ba_spec_raise.
Qed.

(* ---- what [arrival_groups] is ---- *)
Definition arr_of (a : arrival) : Q := pm_arr (snd a).

Lemma group_loop_concat : forall l t cur, concat (group_loop t cur l) = cur ++ l.
Proof.
  induction l as [|a l IH]; intros t cur; cbn [group_loop].
  - cbn [concat]. rewrite app_nil_r. reflexivity.
  - destruct (Qeq_bool (pm_arr (snd a)) t).
    + rewrite IH, <- app_assoc. reflexivity.
    + cbn [concat]. rewrite IH. reflexivity.
Qed.

Lemma arrival_groups_concat : forall l, concat (arrival_groups l) = l.
Proof. intros [|a l]; [reflexivity|]. cbn [arrival_groups]. rewrite group_loop_concat. reflexivity. Qed.

Lemma group_loop_groups : forall l t cur g, cur <> [] -> (forall x, In x cur -> (arr_of x == t)%Q) ->
  In g (group_loop t cur l) -> g <> [] /\ exists t', forall x, In x g -> (arr_of x == t')%Q.
Proof.
  induction l as [|a l IH]; intros t cur g Hc Ht Hin; cbn [group_loop] in Hin.
  - destruct Hin as [<-|[]]. split; [assumption | exists t; assumption].
  - destruct (Qeq_bool (pm_arr (snd a)) t) eqn:E.
    + apply (IH t (cur ++ [a])); try assumption; [destruct cur; discriminate|].
      intros x Hx. apply in_app_or in Hx. destruct Hx as [Hx|[<-|[]]]; [auto|].
      apply Qeq_bool_iff. exact E.
    + destruct Hin as [<-|Hin]; [split; [assumption | exists t; assumption]|].
      apply (IH (pm_arr (snd a)) [a]); try assumption; [discriminate|].
      intros x [<-|[]]. unfold arr_of. reflexivity.
Qed.

Lemma group_loop_head : forall l t cur, (forall x, In x cur -> (arr_of x == t)%Q) ->
  exists g0 gs, group_loop t cur l = g0 :: gs /\ forall x, In x g0 -> (arr_of x == t)%Q.
Proof.
  induction l as [|a l IH]; intros t cur Ht; cbn [group_loop].
  - exists cur, []. split; [reflexivity | assumption].
  - destruct (Qeq_bool (pm_arr (snd a)) t) eqn:E.
    + apply IH. intros x Hx. apply in_app_or in Hx. destruct Hx as [Hx|[<-|[]]]; [auto|].
      apply Qeq_bool_iff. exact E.
    + exists cur, (group_loop (pm_arr (snd a)) [a] l). split; [reflexivity | assumption].
Qed.

Lemma group_loop_adjacent : forall l t cur, (forall x, In x cur -> (arr_of x == t)%Q) ->
  forall j g g', nth_error (group_loop t cur l) j = Some g -> nth_error (group_loop t cur l) (S j) = Some g' ->
  forall x y, In x g -> In y g' -> ~ (arr_of x == arr_of y)%Q.
Proof.
  induction l as [|a l IH]; intros t cur Ht j g g' Hg Hg' x y Hx Hy; cbn [group_loop] in Hg, Hg'.
  - destruct j; [discriminate Hg' | destruct j; discriminate Hg'].
  - destruct (Qeq_bool (pm_arr (snd a)) t) eqn:E.
    + apply (IH t (cur ++ [a])) with (j := j) (g := g) (g' := g'); try assumption.
      intros z Hz. apply in_app_or in Hz. destruct Hz as [Hz|[<-|[]]]; [auto|].
      apply Qeq_bool_iff. exact E.
    + assert (Ha : forall z, In z [a] -> (arr_of z == pm_arr (snd a))%Q).
      { intros z [<-|[]]. unfold arr_of. reflexivity. }
      destruct j as [|j].
      * inversion Hg; subst g. cbn [nth_error] in Hg'.
        destruct (group_loop_head l (pm_arr (snd a)) [a] Ha) as [g0 [gs [E0 H0]]].
        rewrite E0 in Hg'. inversion Hg'; subst g'.
        intro Heq. apply Qeq_bool_neq in E. apply E.
        rewrite <- (H0 y Hy), <- (Ht x Hx). symmetry. exact Heq.
      * cbn [nth_error] in Hg, Hg'.
        apply (IH (pm_arr (snd a)) [a] Ha j g g'); assumption.
Qed.

Theorem arrival_groups_partition : forall l,
  concat (arrival_groups l) = l /\
  (forall g, In g (arrival_groups l) -> g <> [] /\ exists t, forall x, In x g -> (pm_arr (snd x) == t)%Q) /\
  (forall j g g', nth_error (arrival_groups l) j = Some g -> nth_error (arrival_groups l) (S j) = Some g' ->
     forall x y, In x g -> In y g' -> ~ (pm_arr (snd x) == pm_arr (snd y))%Q).
Proof.
  intros l. split; [apply arrival_groups_concat|].
  destruct l as [|a l]; cbn [arrival_groups].
  - split; [intros g [] | intros j g g' H; destruct j; discriminate H].
  - assert (Ha : forall z, In z [a] -> (arr_of z == pm_arr (snd a))%Q).
    { intros z [<-|[]]. unfold arr_of. reflexivity. }
    split.
    + intros g Hg. apply (group_loop_groups l (pm_arr (snd a)) [a]); [discriminate | exact Ha | exact Hg].
    + apply (group_loop_adjacent l (pm_arr (snd a)) [a] Ha).
Qed.

(* the batch that was being accumulated when the exception came through is lost *)
Theorem lazy_batches_lost : forall rows l e, lazy_arrivals rows = (l, Some e) -> l <> [] ->
  exists lost, lost <> [] /\
    arrival_groups l = fst (lazy_batches rows) ++ [lost] /\
    l = concat (fst (lazy_batches rows)) ++ lost /\
    snd (lazy_batches rows) = Some e.
Proof.
  intros rows l e H Hl. rewrite (lazy_batches_raise _ _ _ H). cbn [fst snd].
  assert (Hne : arrival_groups l <> []).
  { destruct l as [|a l]; [congruence|]. apply group_loop_nonempty. }
  pose proof (app_removelast_last [] Hne) as Hsplit.
  exists (last (arrival_groups l) []). repeat split.
  - destruct (proj1 (proj2 (arrival_groups_partition l)) (last (arrival_groups l) [])) as [Hn _]; [|exact Hn].
    rewrite Hsplit at 2. apply in_or_app. right. left. reflexivity.
  - exact Hsplit.
  - rewrite <- (arrival_groups_concat l) at 1. rewrite Hsplit at 1.
    rewrite concat_app. cbn [concat]. rewrite app_nil_r. reflexivity.
Qed.

Theorem lazy_batches_concat : forall rows,
  snd (lazy_batches rows) = snd (lazy_arrivals rows) /\
  exists lost, fst (lazy_arrivals rows) = concat (fst (lazy_batches rows)) ++ lost /\
               (snd (lazy_arrivals rows) = None -> lost = []).
Proof.
  intros rows. destruct (lazy_arrivals rows) as [l [e|]] eqn:E; cbn [fst snd].
  - rewrite (lazy_batches_raise _ _ _ E). cbn [fst snd]. split; [reflexivity|].
    destruct l as [|a l].
    + exists []. split; [reflexivity | discriminate].
    + destruct (lazy_batches_lost _ _ _ E) as [lost [_ [_ [H _]]]]; [discriminate|].
      rewrite (lazy_batches_raise _ _ _ E) in H. cbn [fst] in H.
      exists lost. split; [exact H | discriminate].
  - rewrite (lazy_batches_ok _ _ E). cbn [fst snd]. split; [reflexivity|].
    exists []. rewrite app_nil_r, arrival_groups_concat. split; reflexivity.
Qed.

(* ------------------------------------------------------------------------------------------ *)
(* WorkloadTrace: one batch of look-ahead *)

Lemma ba_scan_size : forall f s arr cur b st', ba_scan f s arr cur = BYield b st' -> ba_size st' <= bp_size s.
Proof.
  induction f as [|f IH]; intros s arr cur b st' H; cbn [ba_scan] in H; [discriminate|].
  destruct (bp_next s) as [a s'| |e] eqn:E; [| |discriminate].
  - apply bp_next_size in E. destruct arr as [t|].
    + destruct (Qeq_bool (pm_arr (snd a)) t).
      * apply IH in H. lia.
      * inversion H. cbn [ba_size]. lia.
    + apply IH in H. lia.
  - destruct cur; inversion H. cbn [ba_size]. lia.
Qed.

Lemma ba_next_size : forall st b st', ba_next st = BYield b st' -> ba_size st' < ba_size st.
Proof.
  intros [s arr cur|] b st' H; cbn [ba_next] in H; [|discriminate].
  apply ba_scan_size in H. cbn [ba_size]. lia.
Qed.

Lemma ba_run_fuel : forall f1 f2 st, ba_size st < f1 -> ba_size st < f2 -> ba_run f1 st = ba_run f2 st.
Proof.
  induction f1 as [|f1 IH]; intros f2 st H1 H2; [lia|]. destruct f2 as [|f2]; [lia|].
  cbn [ba_run]. destruct (ba_next st) as [b st'| |e] eqn:E; try reflexivity.
  apply ba_next_size in E. rewrite (IH f2 st') by lia. reflexivity.
Qed.

Lemma ba_all_step : forall st,
  ba_all st = match ba_next st with
              | BYield b st' => let (l, oe) := ba_all st' in (b :: l, oe)
              | BDone => ([], None)
              | BRaise e => ([], Some e)
              end.
Proof.
  intros st. unfold ba_all at 1. cbn [ba_run]. destruct (ba_next st) as [b st'| |e] eqn:E; try reflexivity.
  apply ba_next_size in E. unfold ba_all. rewrite (ba_run_fuel (ba_size st) (S (ba_size st')) st') by lia. reflexivity.
Qed.

Lemma ba_all_length : forall n st, ba_size st < n -> length (fst (ba_all st)) <= ba_size st.
Proof.
  induction n as [|n IH]; intros st Hn; [lia|]. rewrite ba_all_step.
  destruct (ba_next st) as [b st'| |e] eqn:E; cbn [fst length]; try lia.
  apply ba_next_size in E. specialize (IH st' ltac:(lia)).
  destruct (ba_all st') as [l oe]. cbn [fst length] in *. lia.
Qed.

(* [wt_rep st rem oe]: the batches the WorkloadTrace [st] has not handed out yet, look-ahead included, are [rem],
   and its iterator ends with [oe] after them *)
Definition wt_rep (st : wt_state) (rem : list (list arrival)) (oe : option refusal) : Prop :=
  match wt_next st with
  | None => rem = [] /\ oe = None
  | Some b => exists rem', rem = b :: rem' /\ ba_all (wt_iter st) = (rem', oe)
  end.

Lemma wt_advance_spec : forall it rem oe, ba_all it = (rem, oe) ->
  match rem, oe with
  | b :: rem', _ => exists it', wt_advance it = inr {| wt_next := Some b; wt_iter := it' |} /\ ba_all it' = (rem', oe)
  | [], None => exists it', wt_advance it = inr {| wt_next := None; wt_iter := it' |}
  | [], Some e => wt_advance it = inl e
  end.
Proof.
  intros it rem oe H. rewrite ba_all_step in H. unfold wt_advance.
  destruct (ba_next it) as [b it'| |e].
  - destruct (ba_all it') as [l o] eqn:E. inversion H; subst. exists it'. split; [reflexivity | exact E].
  - inversion H; subst. exists BaEnd. reflexivity.
  - inversion H; subst. reflexivity.
Qed.

(* the leading batches that are ready *)
Fixpoint lead (ready : list arrival -> bool) (rem : list (list arrival)) : nat :=
  match rem with
  | [] => 0
  | b :: t => if ready b then S (lead ready t) else 0
  end.

Lemma lead_le : forall ready rem, lead ready rem <= length rem.
Proof. induction rem as [|b t IH]; cbn [lead length]; [lia|]. destruct (ready b); lia. Qed.

Lemma wt_loop_spec : forall rem st acc fuel oe ready, wt_rep st rem oe -> length rem < fuel ->
  (lead ready rem = length rem /\ rem <> [] /\ exists e, oe = Some e /\ wt_loop fuel ready st acc = inl e) \/
  (exists st', wt_loop fuel ready st acc = inr (acc ++ concat (firstn (lead ready rem) rem), st') /\
               wt_rep st' (skipn (lead ready rem) rem) oe).
Proof.
  induction rem as [|b rem IH]; intros st acc fuel oe ready Hrep Hf.
  - right. exists st. unfold wt_rep in Hrep. destruct fuel as [|f]; [cbn [length] in Hf; lia|].
    cbn [wt_loop lead firstn skipn concat]. rewrite app_nil_r.
    destruct (wt_next st) as [b|] eqn:E.
    + destruct Hrep as [rem' [H _]]. discriminate H.
    + split; [reflexivity|]. unfold wt_rep. rewrite E. exact Hrep.
  - destruct fuel as [|f]; [cbn [length] in Hf; lia|]. cbn [length] in Hf.
    pose proof Hrep as Hrep0. unfold wt_rep in Hrep.
    destruct (wt_next st) as [b0|] eqn:E; [|destruct Hrep as [H _]; discriminate H].
    destruct Hrep as [rem' [H1 H2]]. inversion H1; subst b0 rem'. clear H1.
    cbn [wt_loop lead]. rewrite E. destruct (ready b) eqn:R.
    + pose proof (wt_advance_spec _ _ _ H2) as HA.
      destruct rem as [|b1 rem1].
      * destruct oe as [e|].
        -- left. rewrite HA. split; [reflexivity|]. split; [discriminate|]. exists e. split; reflexivity.
        -- right. destruct HA as [it' HA]. rewrite HA. exists {| wt_next := None; wt_iter := it' |}.
           split; [|unfold wt_rep; cbn; split; reflexivity].
           cbn [lead firstn concat]. rewrite app_nil_r. destruct f; reflexivity.
      * destruct HA as [it' [HA1 HA2]]. rewrite HA1.
        assert (Hrep' : wt_rep {| wt_next := Some b1; wt_iter := it' |} (b1 :: rem1) oe).
        { unfold wt_rep. cbn [wt_next wt_iter]. exists rem1. split; [reflexivity | exact HA2]. }
        destruct (IH _ (acc ++ b) f oe ready Hrep' ltac:(lia)) as [[L1 [L2 [e [L3 L4]]]] | [st' [L1 L2]]].
        -- left. split; [cbn [length] in *; lia|]. split; [discriminate|]. exists e. split; assumption.
        -- right. exists st'. split; [|exact L2].
           rewrite L1. cbn [firstn concat]. rewrite <- app_assoc. reflexivity.
    + right. exists st. cbn [firstn skipn concat]. rewrite app_nil_r. split; [reflexivity | exact Hrep0].
Qed.

Lemma wt_rep_length : forall st rem oe, wt_rep st rem oe -> length rem < S (S (ba_size (wt_iter st))).
Proof.
  intros st rem oe H. unfold wt_rep in H. destruct (wt_next st).
  - destruct H as [rem' [-> H]]. cbn [length].
    pose proof (ba_all_length (S (ba_size (wt_iter st))) (wt_iter st) ltac:(lia)) as HL.
    rewrite H in HL. cbn [fst] in HL. lia.
  - destruct H as [-> _]. cbn [length]. lia.
Qed.

Lemma firstn_add : forall (A : Type) (l : list A) k m, firstn (k + m) l = firstn k l ++ firstn m (skipn k l).
Proof.
  induction l as [|x l IH]; intros k m.
  - rewrite !firstn_nil, skipn_nil, firstn_nil. reflexivity.
  - destruct k as [|k]; [reflexivity|]. cbn [plus firstn skipn app]. rewrite IH. reflexivity.
Qed.

Lemma wt_run_spec : forall readys st rem oe ticks oe', wt_rep st rem oe -> wt_run readys st = (ticks, oe') ->
  exists m, m <= length rem /\ concat ticks = concat (firstn m rem) /\
            forall e, oe' = Some e -> oe = Some e /\ m < length rem.
Proof.
  induction readys as [|r t IH]; intros st rem oe ticks oe' Hrep H; cbn [wt_run] in H.
  - inversion H; subst. exists 0. split; [lia|]. split; [reflexivity | discriminate].
  - unfold wt_tick in H.
    destruct (wt_loop_spec rem st [] _ oe r Hrep (wt_rep_length _ _ _ Hrep))
      as [[L1 [L2 [e [L3 L4]]]] | [st' [L1 L2]]].
    + rewrite L4 in H. inversion H; subst. exists 0. split; [lia|]. split; [reflexivity|].
      intros e' He. inversion He; subst. split; [reflexivity|]. destruct rem; [congruence | cbn [length]; lia].
    + rewrite L1 in H. destruct (wt_run t st') as [l o] eqn:E. inversion H; subst. clear H.
      destruct (IH _ _ _ _ _ L2 E) as [m [M1 [M2 M3]]].
      pose proof (lead_le r rem) as HK. rewrite skipn_length in M1.
      exists (lead r rem + m). split; [lia|]. split.
      * cbn [concat app]. rewrite M2, firstn_add, concat_app. reflexivity.
      * intros e He. destruct (M3 e He) as [M4 M5]. rewrite skipn_length in M5. split; [assumption | lia].
Qed.

(* Whatever the tick pattern: what run_one_tick has returned to the simulator, call after call, is the
   concatenation of the first m batches batch_by_arrival delivers; and if a call (or the constructor) raises, it
   raises the refusal of the file and m is smaller than the number of delivered batches (the last delivered batch
   had been appended to pipelines_to_return in the very call that raised, and is dropped with it) *)
Theorem wt_replay_prefix : forall rows readys ticks oe', wt_replay readys rows = (ticks, oe') ->
  exists m, concat ticks = concat (firstn m (fst (lazy_batches rows))) /\
            forall e, oe' = Some e ->
              snd (lazy_batches rows) = Some e /\ m <= pred (length (fst (lazy_batches rows))).
Proof.
  intros rows readys ticks oe' H. unfold wt_replay, wt_init in H. unfold lazy_batches.
  destruct (ba_all (ba_start rows)) as [bs oe] eqn:E. cbn [fst snd].
  pose proof (wt_advance_spec _ _ _ E) as HA.
  destruct bs as [|b bs].
  - destruct oe as [e|].
    + rewrite HA in H. inversion H; subst. exists 0. split; [reflexivity|].
      intros e' He. inversion He; subst. split; [reflexivity | cbn; lia].
    + destruct HA as [it' HA]. rewrite HA in H.
      assert (Hrep : wt_rep {| wt_next := None; wt_iter := it' |} [] None) by (unfold wt_rep; cbn; split; reflexivity).
      destruct (wt_run_spec _ _ _ _ _ _ Hrep H) as [m [M1 [M2 M3]]].
      exists m. split; [exact M2|]. intros e He. destruct (M3 e He) as [M4 _]. discriminate M4.
  - destruct HA as [it' [HA1 HA2]]. rewrite HA1 in H.
    assert (Hrep : wt_rep {| wt_next := Some b; wt_iter := it' |} (b :: bs) oe).
    { unfold wt_rep. cbn [wt_next wt_iter]. exists bs. split; [reflexivity | exact HA2]. }
    destruct (wt_run_spec _ _ _ _ _ _ Hrep H) as [m [M1 [M2 M3]]].
    exists m. split; [exact M2|]. intros e He. destruct (M3 e He) as [M4 M5]. split; [exact M4|].
    cbn [length pred] in *. lia.
Qed.

(* a file without refusal never makes WorkloadTrace raise *)
Theorem wt_replay_good : forall rows readys, snd (lazy_batches rows) = None -> snd (wt_replay readys rows) = None.
Proof.
  intros rows readys H. destruct (wt_replay readys rows) as [ticks [e|]] eqn:E; [|reflexivity].
  destruct (wt_replay_prefix _ _ _ _ E) as [m [_ M]]. destruct (M e eq_refl) as [M1 _]. congruence.
Qed.

(* a refused file whose batches are all due at the first call (the simulator starts late, or all arrivals fall
   into tick 0): the constructor or the first run_one_tick raises, the simulator receives NOTHING, although
   batch_by_arrival had delivered batches *)
Theorem wt_replay_all_ready : forall rows e t, snd (lazy_batches rows) = Some e ->
  wt_replay ((fun _ => true) :: t) rows = ([], Some e).
Proof.
  intros rows e t H. unfold wt_replay, wt_init. unfold lazy_batches in H.
  destruct (ba_all (ba_start rows)) as [bs oe] eqn:E. cbn [snd] in H. subst oe.
  pose proof (wt_advance_spec _ _ _ E) as HA.
  destruct bs as [|b bs]; [rewrite HA; reflexivity|].
  destruct HA as [it' [HA1 HA2]]. rewrite HA1.
  assert (Hrep : wt_rep {| wt_next := Some b; wt_iter := it' |} (b :: bs) (Some e)).
  { unfold wt_rep. cbn [wt_next wt_iter]. exists bs. split; [reflexivity | exact HA2]. }
  cbn [wt_run]. unfold wt_tick.
  destruct (wt_loop_spec (b :: bs) _ [] _ (Some e) (fun _ => true) Hrep (wt_rep_length _ _ _ Hrep))
    as [[_ [_ [e' [L3 L4]]]] | [st' [L1 L2]]].
  - rewrite L4. inversion L3; subst. reflexivity.
  - exfalso. assert (HL : forall l, lead (fun _ => true) l = length l) by (induction l; cbn [lead length]; congruence).
    rewrite HL, skipn_all in L2. unfold wt_rep in L2. destruct (wt_next st').
    + destruct L2 as [rem' [L2 _]]. discriminate L2.
    + destruct L2 as [_ L2]. discriminate L2.
Qed.

(* ------------------------------------------------------------------------------------------ *)
(* examples *)
Module LazyExamples.
Import CsvFacts.Examples.

(* [Examples.file] = diamond, single, diamond (rows 0-4, 5, 6-10), all arriving at 7/2; the first row of the THIRD
   pipeline loses its arrival time *)
Definition bad_third : list row := upd 6 (set_arr None) file.

Lemma ex_bad_third :
  read_rows_c bad_third = inl RFirstNoArrival /\
  lazy_arrivals bad_third = ([(0, diamond); (1, single)], Some RFirstNoArrival) /\
  lazy_pipelines bad_third = ([diamond; single], Some RFirstNoArrival) /\
  (* both delivered pipelines arrive at 7/2: they were still being accumulated, no arrival batch comes out *)
  lazy_batches bad_third = ([], Some RFirstNoArrival) /\
  lazy_batches file = ([[(0, diamond); (1, single); (2, diamond)]], None).
Proof. vm_compute. repeat split. Qed.

(* one-operator pipelines arriving at 1, 1, 2, 3, 3; the FOURTH has an unknown scaling law *)
Definition at_ (a : Q) : pipeline_m := {| pm_prio := pm_prio single; pm_arr := a; pm_ops := pm_ops single |}.
Definition five : list row := write_rows [at_ 1%Q; at_ 1%Q; at_ 2%Q; at_ 3%Q; at_ 3%Q].
Definition bad_fourth : list row := upd 3 (set_law 7) five.

Lemma ex_bad_fourth :
  lazy_batches five = ([[(0, at_ 1%Q); (1, at_ 1%Q)]; [(2, at_ 2%Q)]; [(3, at_ 3%Q); (4, at_ 3%Q)]], None) /\
  read_rows_c bad_fourth = inl RUnknownLaw /\
  lazy_arrivals bad_fourth = ([(0, at_ 1%Q); (1, at_ 1%Q); (2, at_ 2%Q)], Some RUnknownLaw) /\
  (* the batch of arrival 1 is delivered, the batch of arrival 2 is lost *)
  lazy_batches bad_fourth = ([[(0, at_ 1%Q); (1, at_ 1%Q)]], Some RUnknownLaw).
Proof. vm_compute. repeat split. Qed.

(* the moment of the refusal: after the second pipeline has been yielded, the next call raises although five
   more rows follow; the first call has pulled exactly the six rows 0-5 *)
Lemma ex_bad_third_steps :
  exists s1 s2,
    bp_next (bp_start bad_third) = Yield (0, diamond) s1 /\ s1 = BpRun (Some 1) (firstn 1 (skipn 5 bad_third)) (skipn 6 bad_third) /\
    bp_next s1 = Yield (1, single) s2 /\ s2 = BpRun (Some 2) (firstn 1 (skipn 6 bad_third)) (skipn 7 bad_third) /\
    bp_next s2 = Raise RFirstNoArrival.
Proof. eexists. eexists. vm_compute. repeat split. Qed.

(* WorkloadTrace over [bad_fourth]: batch_by_arrival delivers the batch of arrival 1 (pipelines 0 and 1) and then
   raises. A first call at which nothing is due returns []; the call at which the batch is due appends it, fetches
   the look-ahead, and raises: pipelines 0 and 1 never reach the simulator. The good file is handed out batch by batch. *)
Definition due (t : Q) (b : list arrival) : bool :=
  match b with a :: _ => Qle_bool (pm_arr (snd a)) t | [] => false end.
Lemma ex_trace_bad_fourth :
  wt_replay [due 0%Q; due 1%Q; due 5%Q] bad_fourth = ([[]], Some RUnknownLaw) /\
  wt_replay [due 0%Q; due 1%Q; due 5%Q] five =
    ([[]; [(0, at_ 1%Q); (1, at_ 1%Q)]; [(2, at_ 2%Q); (3, at_ 3%Q); (4, at_ 3%Q)]], None).
Proof. vm_compute. split; reflexivity. Qed.
End LazyExamples.
