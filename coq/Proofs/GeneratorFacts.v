(* Facts about the workload generator model (Model/Generator.v), for EVERY draw stream:
   the prototype ladder (total, monotone, clip), the shape of generated pipelines (query: one operator;
   otherwise a chain whose first operator is the I/O-heavy prototype and whose later operators never are),
   batch size and fresh ids over a whole run, the arrival clock (gap = next_wait + 1), the pairing bounds
   for gaps and operator counts, and the inverse-CDF reading of numpy's choice. *)
From Coq Require Import ZArith QArith Qabs Qround List Bool Arith Lia Lqa Psatz.
From Eudoxia Require Import Num.Rnd64 Model.Types Model.Timing Model.Generator Proofs.TimingFacts.
Import ListNotations.
Open Scope Q_scope.

(* ------------------------------------------------------------------------------------------ *)
(* comparisons *)

Lemma Qleb_spec a b : reflect (a <= b) (Qle_bool a b).
Proof.
  destruct (Qle_bool a b) eqn:E; constructor.
  - apply Qle_bool_iff, E.
  - intros H. apply Qle_bool_iff in H. congruence.
Qed.

Lemma Qltb_spec a b : reflect (a < b) (Qltb a b).
Proof.
  unfold Qltb. destruct (Qleb_spec b a); simpl; constructor.
  - apply Qle_not_lt, q.
  - apply Qnot_le_lt, n.
Qed.

(* ------------------------------------------------------------------------------------------ *)
(* the ladder *)

Lemma proto_idx_spec v :
  (v < -(1) /\ proto_idx v = 0%nat) \/
  (-(1) <= v /\ v < -(1#2) /\ proto_idx v = 1%nat) \/
  (-(1#2) <= v /\ v < 0 /\ proto_idx v = 2%nat) \/
  (0 <= v /\ v < 1#2 /\ proto_idx v = 3%nat) \/
  (1#2 <= v /\ v < 1 /\ proto_idx v = 4%nat) \/
  (1 <= v /\ v < 3#2 /\ proto_idx v = 5%nat) \/
  (3#2 <= v /\ proto_idx v = 6%nat).
Proof.
  unfold proto_idx, proto_of_val, ladder, first_rung, rung_test; cbn [r_lo r_hi andb].
  destruct (Qltb_spec v ((-1) # 1)) as [A0|A0]; [left; split; [lra | reflexivity]|].
  destruct (Qleb_spec ((-1) # 1) v) as [B1|B1]; [|exfalso; lra].
  destruct (Qltb_spec v ((-1) # 2)) as [A1|A1]; cbn [andb]; [right; left; repeat split; [lra | lra]|].
  destruct (Qleb_spec ((-1) # 2) v) as [B2|B2]; [|exfalso; lra].
  destruct (Qltb_spec v (0 # 1)) as [A2|A2]; cbn [andb]; [right; right; left; repeat split; lra|].
  destruct (Qleb_spec (0 # 1) v) as [B3|B3]; [|exfalso; lra].
  destruct (Qltb_spec v (1 # 2)) as [A3|A3]; cbn [andb]; [right; right; right; left; repeat split; lra|].
  destruct (Qleb_spec (1 # 2) v) as [B4|B4]; [|exfalso; lra].
  destruct (Qltb_spec v (1 # 1)) as [A4|A4]; cbn [andb]; [right; right; right; right; left; repeat split; lra|].
  destruct (Qleb_spec (1 # 1) v) as [B5|B5]; [|exfalso; lra].
  destruct (Qltb_spec v (3 # 2)) as [A5|A5]; cbn [andb];
    [right; right; right; right; right; left; repeat split; lra|].
  destruct (Qleb_spec (3 # 2) v) as [B6|B6]; [|exfalso; lra].
  right; right; right; right; right; right. split; [lra | reflexivity].
Qed.

(* the if/elif chain never falls through: every value selects one of the seven prototypes *)
Lemma proto_of_val_some v : exists i, proto_of_val v = Some i /\ (i < 7)%nat.
Proof.
  pose proof (proto_idx_spec v) as H. unfold proto_idx in H.
  destruct (proto_of_val v) as [i|].
  - exists i. split; [reflexivity|].
    destruct H as [[_ E]|[[_ [_ E]]|[[_ [_ E]]|[[_ [_ E]]|[[_ [_ E]]|[[_ [_ E]]|[_ E]]]]]]]; lia.
  - exfalso. unfold no_proto in H.
    destruct H as [[_ E]|[[_ [_ E]]|[[_ [_ E]]|[[_ [_ E]]|[[_ [_ E]]|[[_ [_ E]]|[_ E]]]]]]]; discriminate.
Qed.

Lemma proto_idx_lt7 v : (proto_idx v < 7)%nat.
Proof.
  destruct (proto_idx_spec v) as [[_ E]|[[_ [_ E]]|[[_ [_ E]]|[[_ [_ E]]|[[_ [_ E]]|[[_ [_ E]]|[_ E]]]]]]]; lia.
Qed.

Lemma proto_idx_0 v : proto_idx v = 0%nat <-> v < -(1).
Proof.
  destruct (proto_idx_spec v) as [[A E]|[[A [B E]]|[[A [B E]]|[[A [B E]]|[[A [B E]]|[[A [B E]]|[A E]]]]]]];
    rewrite E; split; intros H; try lra; try discriminate; try reflexivity.
Qed.

(* a larger value never selects a more I/O-heavy prototype *)
Lemma proto_monotone v1 v2 : v1 <= v2 -> (proto_idx v1 <= proto_idx v2)%nat.
Proof.
  intros H.
  destruct (proto_idx_spec v1) as [[A E]|[[A [B E]]|[[A [B E]]|[[A [B E]]|[[A [B E]]|[[A [B E]]|[A E]]]]]]];
  destruct (proto_idx_spec v2) as [[A' E']|[[A' [B' E']]|[[A' [B' E']]|[[A' [B' E']]|[[A' [B' E']]|[[A' [B' E']]|[A' E']]]]]]];
  rewrite E, E'; try lia; exfalso; lra.
Qed.

Lemma proto_idx_proper v1 v2 : v1 == v2 -> proto_idx v1 = proto_idx v2.
Proof.
  intros H. apply Nat.le_antisymm; apply proto_monotone; lra.
Qed.

Lemma clip_spec x : (x < -(1) /\ clip x = (-1 # 1)) \/ (-(1) <= x /\ clip x = x).
Proof.
  unfold clip, clip_consts; cbn [fst snd].
  destruct (Qltb_spec x ((-1) # 1)); [left | right]; split; try reflexivity; lra.
Qed.

Lemma clip_ge x : -(1) <= clip x.
Proof. destruct (clip_spec x) as [[A E]|[A E]]; rewrite E; lra. Qed.

Lemma clip_mono x y : x <= y -> clip x <= clip y.
Proof.
  intros H. destruct (clip_spec x) as [[A E]|[A E]], (clip_spec y) as [[A' E']|[A' E']]; rewrite E, E'; lra.
Qed.

(* generate_segment_not_heavy_io never yields the most I/O-heavy prototype *)
Lemma later_proto_range x : (1 <= proto_idx (clip x) <= 6)%nat.
Proof.
  pose proof (clip_ge x) as G. pose proof (proto_idx_lt7 (clip x)) as L.
  destruct (Nat.eq_dec (proto_idx (clip x)) 0) as [Z|Z]; [|lia].
  apply proto_idx_0 in Z. exfalso; lra.
Qed.

Lemma first_proto : proto_idx ((-2) # 1) = 0%nat.
Proof. reflexivity. Qed.

(* raising cpu_io_ratio (the mean of the draw r + z, z standard normal) never makes the prototype of a
   later operator more I/O-heavy, whatever z is ... *)
Lemma ratio_monotone r1 r2 : r1 <= r2 ->
  forall z, (proto_idx (clip (r1 + z)) <= proto_idx (clip (r2 + z)))%nat.
Proof. intros H z. apply proto_monotone, clip_mono. lra. Qed.

(* ... and for some z it makes it strictly more CPU-heavy *)
Lemma ratio_strict r1 r2 : r1 < r2 ->
  exists z, (proto_idx (clip (r1 + z)) < proto_idx (clip (r2 + z)))%nat.
Proof.
  intros H. exists (- r2).
  assert (E2 : proto_idx (clip (r2 + - r2)) = 3%nat).
  { destruct (clip_spec (r2 + - r2)) as [[A E]|[A E]]; [exfalso; lra|]. rewrite E.
    destruct (proto_idx_spec (r2 + - r2)) as [[A' E']|[[A' [B' E']]|[[A' [B' E']]|[[A' [B' E']]|[[A' [B' E']]|[[A' [B' E']]|[A' E']]]]]]];
      try exact E'; exfalso; lra. }
  rewrite E2.
  assert (L : clip (r1 + - r2) < 0).
  { destruct (clip_spec (r1 + - r2)) as [[A E]|[A E]]; rewrite E; lra. }
  destruct (proto_idx_spec (clip (r1 + - r2))) as [[A' E']|[[A' [B' E']]|[[A' [B' E']]|[[A' [B' E']]|[[A' [B' E']]|[[A' [B' E']]|[A' E']]]]]]];
    rewrite E'; try lia; exfalso; lra.
Qed.

(* with rounding: the double nearest to r + z (what numpy computes) keeps the order too *)
Lemma ratio_monotone_rnd r1 r2 : r1 <= r2 ->
  forall z, (proto_idx (clip (fadd r1 z)) <= proto_idx (clip (fadd r2 z)))%nat.
Proof.
  intros H z. apply proto_monotone, clip_mono. unfold fadd.
  apply Proofs.Rnd64Facts.rnd64_mono. lra.
Qed.

(* ------------------------------------------------------------------------------------------ *)
(* operators of one pipeline *)

Definition chain_parents (j : nat) : list nat := match j with O => [] | S j' => [j'] end.

Lemma gen_ops_some P : forall n k p ds ops ds',
  gen_ops P n k (Some p) ds = Some (ops, ds') ->
  length ops = n /\
  forall j o, nth_error ops j = Some o ->
    go_parents o = [match j with O => p | S j' => (k + j')%nat end] /\ (1 <= go_proto o <= 6)%nat.
Proof.
  induction n as [|n IH]; intros k p ds ops ds' H; simpl in H.
  - inversion H; subst. split; [reflexivity|]. intros [|j] o E; discriminate.
  - destruct ds as [|[v|mu x] ds1]; try discriminate.
    destruct (Qeq_bool mu (g_ratio P)); [|discriminate].
    destruct (gen_ops P n (S k) (Some k) ds1) as [[t ds2]|] eqn:G; [|discriminate].
    inversion H; subst. destruct (IH _ _ _ _ _ G) as [L F].
    split; [simpl; congruence|].
    intros [|j] o E; simpl in E.
    + inversion E; subst; simpl. split; [reflexivity | apply later_proto_range].
    + destruct (F _ _ E) as [Pj Rj]. split; [|exact Rj].
      rewrite Pj. destruct j; f_equal; lia.
Qed.

Lemma gen_ops_none P : forall n ds ops ds',
  gen_ops P n 0 None ds = Some (ops, ds') ->
  length ops = n /\
  forall j o, nth_error ops j = Some o ->
    go_parents o = chain_parents j /\
    match j with O => go_proto o = 0%nat | S _ => (1 <= go_proto o <= 6)%nat end.
Proof.
  intros [|n] ds ops ds' H; simpl in H.
  - inversion H; subst. split; [reflexivity|]. intros [|j] o E; discriminate.
  - destruct (gen_ops P n 1 (Some 0%nat) ds) as [[t ds2]|] eqn:G; [|discriminate].
    inversion H; subst. destruct (gen_ops_some _ _ _ _ _ _ _ G) as [L F].
    split; [simpl; congruence|].
    intros [|j] o E; simpl in E.
    + inversion E; subst; simpl. split; reflexivity.
    + destruct (F _ _ E) as [Pj Rj]. split; [|exact Rj].
      rewrite Pj. destruct j; simpl; f_equal.
Qed.

(* op_count *)
Lemma op_count_ge1 x : (1 <= op_count x)%Z.
Proof. unfold op_count. destruct (Z.ltb_spec (truncQ x) 1); lia. Qed.

(* ------------------------------------------------------------------------------------------ *)
(* well-formed pipelines *)

Definition query_op : gop := {| go_parents := []; go_proto := query_proto |}.

Definition wf_pipe (p : gpipe) : Prop :=
  (gp_prio p = query_value -> gp_ops p = [query_op]) /\
  (gp_prio p <> query_value ->
     (1 <= length (gp_ops p))%nat /\
     forall j o, nth_error (gp_ops p) j = Some o ->
       go_parents o = chain_parents j /\
       match j with O => go_proto o = 0%nat | S _ => (1 <= go_proto o <= 6)%nat end).

Lemma gen_pipeline_spec P cnt ds p ds' :
  gen_pipeline P cnt ds = Some (p, ds') ->
  gp_id p = (cnt + 1)%Z /\ wf_pipe p /\
  (exists v rest, ds = DChoice v :: rest /\ gp_prio p = v /\
     (v <> query_value -> exists mu x rest', rest = DNormal mu x :: rest' /\ mu == g_nops P /\
        Z.of_nat (length (gp_ops p)) = op_count x)).
Proof.
  unfold gen_pipeline. intros H.
  destruct ds as [|[v|mu x] ds1]; try discriminate.
  destruct (Z.eqb_spec v query_value) as [Q|Q].
  - inversion H; subst; simpl. split; [reflexivity|]. split.
    + split; simpl; intros; [reflexivity | congruence].
    + exists query_value, ds'. repeat split. intros C; congruence.
  - destruct ds1 as [|[v'|mu x] ds2]; try discriminate.
    destruct (Qeq_bool mu (g_nops P)) eqn:M; [|discriminate].
    destruct (gen_ops P (Z.to_nat (op_count x)) 0 None ds2) as [[ops ds3]|] eqn:G; [|discriminate].
    inversion H; subst; simpl.
    destruct (gen_ops_none _ _ _ _ _ G) as [L F].
    pose proof (op_count_ge1 x) as C1.
    split; [reflexivity|]. split.
    + split; simpl; intros; [congruence|]. split; [lia | exact F].
    + exists v, (DNormal mu x :: ds2). repeat split. intros _.
      exists mu, x, ds2. repeat split.
      * apply Qeq_bool_iff, M.
      * rewrite L. lia.
Qed.

Lemma pipeline_op_count P cnt ds p ds' :
  gen_pipeline P cnt ds = Some (p, ds') ->
  gp_id p = (cnt + 1)%Z /\
  exists v rest, ds = DChoice v :: rest /\ gp_prio p = v /\
    (v <> query_value -> exists mu x rest', rest = DNormal mu x :: rest' /\ mu == g_nops P /\
       Z.of_nat (length (gp_ops p)) = op_count x).
Proof. intros H. destruct (gen_pipeline_spec P cnt ds p ds' H) as [A [_ B]]. exact (conj A B). Qed.

Fixpoint zseq (start : Z) (n : nat) : list Z :=
  match n with O => [] | S n' => start :: zseq (start + 1) n' end.

Lemma zseq_app a n m : zseq a (n + m) = zseq a n ++ zseq (a + Z.of_nat n) m.
Proof.
  revert a; induction n as [|n IH]; intros a.
  - simpl. f_equal. lia.
  - cbn [plus zseq app]. rewrite IH. do 3 f_equal. lia.
Qed.

Lemma zseq_In a n x : In x (zseq a n) <-> (a <= x < a + Z.of_nat n)%Z.
Proof.
  revert a; induction n as [|n IH]; intros a; simpl zseq.
  - simpl. lia.
  - simpl In. rewrite IH. lia.
Qed.

Lemma zseq_NoDup a n : NoDup (zseq a n).
Proof.
  revert a; induction n as [|n IH]; intros a; simpl; constructor.
  - rewrite zseq_In. lia.
  - apply IH.
Qed.

Lemma zseq_nth a n i : (i < n)%nat -> nth i (zseq a n) 0%Z = (a + Z.of_nat i)%Z.
Proof.
  revert a i; induction n as [|n IH]; intros a [|i] H; simpl; try lia.
  rewrite IH by lia. lia.
Qed.

Lemma gen_batch_spec P : forall n cnt ds ps cnt' ds',
  gen_batch P n cnt ds = Some (ps, cnt', ds') ->
  length ps = n /\ cnt' = (cnt + Z.of_nat n)%Z /\
  map gp_id ps = zseq (cnt + 1) n /\ Forall wf_pipe ps.
Proof.
  induction n as [|n IH]; intros cnt ds ps cnt' ds' H; simpl in H.
  - inversion H; subst. repeat split; [lia | constructor].
  - destruct (gen_pipeline P cnt ds) as [[p ds1]|] eqn:G; [|discriminate].
    destruct (gen_batch P n (cnt + 1)%Z ds1) as [[[t c2] ds2]|] eqn:B; [|discriminate].
    inversion H; subst. destruct (IH _ _ _ _ _ B) as [L [C [I W]]].
    destruct (gen_pipeline_spec _ _ _ _ _ G) as [Ip [Wp _]].
    repeat split.
    + simpl; congruence.
    + lia.
    + simpl. rewrite Ip, I. reflexivity.
    + constructor; assumption.
Qed.

(* ------------------------------------------------------------------------------------------ *)
(* one tick, whole runs *)

Definition next_wait_of (P : gparams) (s s1 : gstate) : Prop :=
  exists mu x, gs_wait s1 = next_wait (g_wmean P) x /\ mu == inject_Z (g_wmean P).

Lemma gen_tick_spec P s b s1 :
  gen_tick P s = Some (b, s1) ->
  (gs_since s <> gs_wait s /\ b = [] /\ gs_since s1 = (gs_since s + 1)%Z /\ gs_wait s1 = gs_wait s /\
     gs_cnt s1 = gs_cnt s /\ gs_draws s1 = gs_draws s) \/
  (gs_since s = gs_wait s /\ length b = g_np P /\ gs_since s1 = 0%Z /\ next_wait_of P s s1 /\
     gs_cnt s1 = (gs_cnt s + Z.of_nat (g_np P))%Z /\
     map gp_id b = zseq (gs_cnt s + 1) (g_np P) /\ Forall wf_pipe b).
Proof.
  unfold gen_tick. intros H.
  destruct (Z.eqb_spec (gs_since s) (gs_wait s)) as [E|E].
  - right.
    destruct (gen_batch P (g_np P) (gs_cnt s) (gs_draws s)) as [[[ps c] ds]|] eqn:B; [|discriminate].
    destruct ds as [|[v|mu x] ds]; try discriminate.
    destruct (Qeq_bool mu (inject_Z (g_wmean P))) eqn:M; [|discriminate].
    inversion H; subst; simpl.
    destruct (gen_batch_spec _ _ _ _ _ _ _ B) as [L [C [I W]]].
    repeat split; try assumption.
    exists mu, x. split; [reflexivity | apply Qeq_bool_iff, M].
  - left. inversion H; subst; simpl. repeat split. exact E.
Qed.

Lemma gen_run_spec P : forall n s out s',
  gen_run P n s = Some (out, s') ->
  length out = n /\
  Forall (fun b => b = [] \/ length b = g_np P) out /\
  map gp_id (concat out) = zseq (gs_cnt s + 1) (length (concat out)) /\
  gs_cnt s' = (gs_cnt s + Z.of_nat (length (concat out)))%Z /\
  Forall wf_pipe (concat out).
Proof.
  induction n as [|n IH]; intros s out s' H; simpl in H.
  - inversion H; subst; simpl. repeat split; try constructor. lia.
  - destruct (gen_tick P s) as [[b s1]|] eqn:T; [|discriminate].
    destruct (gen_run P n s1) as [[t s2]|] eqn:R; [|discriminate].
    inversion H; subst. destruct (IH _ _ _ R) as [L [B [I [C W]]]].
    destruct (gen_tick_spec _ _ _ _ T) as [[_ [Eb [_ [_ [Ec _]]]]]|[_ [Lb [_ [_ [Ec [Ib Wb]]]]]]].
    + subst b. simpl. rewrite Ec in *. repeat split; try assumption; [congruence | constructor; auto].
    + simpl concat. rewrite app_length, map_app, zseq_app, Ib, I, Lb, Ec.
      repeat split.
      * simpl; congruence.
      * constructor; auto.
      * do 2 f_equal. lia.
      * rewrite C, Ec. lia.
      * apply Forall_app. split; assumption.
Qed.

(* ids over a whole run from the initial state are 1, 2, 3, ... in order of delivery *)
Lemma fresh_ids P n ds out s' :
  gen_run P n (gen_init ds) = Some (out, s') ->
  map gp_id (concat out) = zseq 1 (length (concat out)) /\ NoDup (map gp_id (concat out)).
Proof.
  intros H. destruct (gen_run_spec _ _ _ _ _ H) as [_ [_ [I _]]]. simpl in I.
  split; [exact I|]. rewrite I. apply zseq_NoDup.
Qed.

Lemma batch_size P n s out s' :
  gen_run P n s = Some (out, s') -> forall b, In b out -> b = [] \/ length b = g_np P.
Proof.
  intros H b Hb. destruct (gen_run_spec _ _ _ _ _ H) as [_ [B _]].
  rewrite Forall_forall in B. apply B, Hb.
Qed.

Lemma run_wf P n s out s' :
  gen_run P n s = Some (out, s') -> forall p, In p (concat out) -> wf_pipe p.
Proof.
  intros H p Hp. destruct (gen_run_spec _ _ _ _ _ H) as [_ [_ [_ [_ W]]]].
  rewrite Forall_forall in W. apply W, Hp.
Qed.

Lemma query_single_op P n s out s' :
  gen_run P n s = Some (out, s') -> forall p, In p (concat out) ->
  gp_prio p = query_value -> gp_ops p = [query_op].
Proof. intros H p Hp Q. exact (proj1 (run_wf _ _ _ _ _ H p Hp) Q). Qed.

Lemma nonquery_chain P n s out s' :
  gen_run P n s = Some (out, s') -> forall p, In p (concat out) ->
  gp_prio p <> query_value ->
  (1 <= length (gp_ops p))%nat /\
  forall j o, nth_error (gp_ops p) j = Some o -> go_parents o = chain_parents j.
Proof.
  intros H p Hp Q. destruct (proj2 (run_wf _ _ _ _ _ H p Hp) Q) as [L F].
  split; [exact L|]. intros j o E. exact (proj1 (F j o E)).
Qed.

Lemma first_op_io_heavy P n s out s' :
  gen_run P n s = Some (out, s') -> forall p, In p (concat out) ->
  gp_prio p <> query_value ->
  exists o t, gp_ops p = o :: t /\ go_proto o = 0%nat /\ go_parents o = [].
Proof.
  intros H p Hp Q. destruct (proj2 (run_wf _ _ _ _ _ H p Hp) Q) as [L F].
  destruct (gp_ops p) as [|o t] eqn:E; [simpl in L; lia|].
  exists o, t. split; [reflexivity|].
  destruct (F 0%nat o eq_refl) as [A B]. split; assumption.
Qed.

Lemma later_op_proto_ge_1 P n s out s' :
  gen_run P n s = Some (out, s') -> forall p, In p (concat out) ->
  gp_prio p <> query_value ->
  forall j o, nth_error (gp_ops p) (S j) = Some o -> (1 <= go_proto o <= 6)%nat.
Proof.
  intros H p Hp Q j o E. destruct (proj2 (run_wf _ _ _ _ _ H p Hp) Q) as [_ F].
  exact (proj2 (F (S j) o E)).
Qed.

(* every operator's segment is one of the eight documented prototypes *)
Lemma protos_documented P n s out s' :
  gen_run P n s = Some (out, s') -> forall p o, In p (concat out) -> In o (gp_ops p) ->
  (go_proto o <= 7)%nat.
Proof.
  intros H p o Hp Ho. destruct (run_wf _ _ _ _ _ H p Hp) as [WQ WN].
  destruct (Z.eq_dec (gp_prio p) query_value) as [Q|Q].
  - rewrite (WQ Q) in Ho. destruct Ho as [<-|[]]. simpl. unfold query_proto. lia.
  - destruct (WN Q) as [_ F]. apply In_nth_error in Ho. destruct Ho as [j E].
    destruct (F j o E) as [_ R]. destruct j; lia.
Qed.

(* ------------------------------------------------------------------------------------------ *)
(* the arrival clock *)

Lemma next_wait_ge P_wmean x : (1 <= P_wmean)%Z -> (1 <= next_wait P_wmean x)%Z.
Proof. intros H. unfold next_wait. destruct (Z.leb_spec (truncQ x) 0); lia. Qed.

Lemma next_wait_nonneg wmean x : (0 <= wmean)%Z -> (0 <= next_wait wmean x)%Z.
Proof. intros H. unfold next_wait. destruct (Z.leb_spec (truncQ x) 0); lia. Qed.

Definition idle (s : gstate) (k : nat) : gstate :=
  {| gs_since := gs_since s + Z.of_nat k; gs_wait := gs_wait s; gs_cnt := gs_cnt s; gs_draws := gs_draws s |}.

(* while ticks_since_last_gen < curr_waiting_ticks nothing is delivered and nothing is drawn *)
Lemma idle_run P : forall k s,
  (gs_since s + Z.of_nat k <= gs_wait s)%Z ->
  gen_run P k s = Some (repeat [] k, idle s k).
Proof.
  induction k as [|k IH]; intros s H.
  - simpl. unfold idle. destruct s; simpl. do 3 f_equal. lia.
  - cbn [gen_run]. unfold gen_tick.
    destruct (Z.eqb_spec (gs_since s) (gs_wait s)) as [E|E]; [lia|].
    rewrite IH by (simpl; lia). simpl. unfold idle; simpl. do 3 f_equal. lia.
Qed.

(* an arrival event that draws next_wait = w is followed by exactly w empty ticks, and the tick after
   them is the next arrival event: consecutive events are w + 1 ticks apart *)
Lemma gap_exact P s b s1 :
  (0 <= g_wmean P)%Z ->
  gs_since s = gs_wait s -> gen_tick P s = Some (b, s1) ->
  length b = g_np P /\
  (exists mu x, gs_wait s1 = next_wait (g_wmean P) x /\ mu == inject_Z (g_wmean P)) /\
  (0 <= gs_wait s1)%Z /\
  let w := Z.to_nat (gs_wait s1) in
  gen_run P w s1 = Some (repeat [] w, idle s1 w) /\
  gs_since (idle s1 w) = gs_wait (idle s1 w) /\
  forall b' s2, gen_tick P (idle s1 w) = Some (b', s2) -> length b' = g_np P.
Proof.
  intros Hm E T.
  destruct (gen_tick_spec _ _ _ _ T) as [[N _]|[_ [Lb [S0 [[mu [x [W M]]] _]]]]]; [congruence|].
  assert (Wn : (0 <= gs_wait s1)%Z) by (rewrite W; apply next_wait_nonneg, Hm).
  split; [exact Lb|]. split; [exists mu, x; split; assumption|]. split; [exact Wn|].
  cbv zeta. split; [apply idle_run; rewrite S0; lia|].
  assert (Ei : gs_since (idle s1 (Z.to_nat (gs_wait s1))) = gs_wait (idle s1 (Z.to_nat (gs_wait s1)))).
  { simpl. rewrite S0. lia. }
  split; [exact Ei|].
  intros b' s2 T2. destruct (gen_tick_spec _ _ _ _ T2) as [[N _]|[_ [Lb' _]]]; [congruence | exact Lb'].
Qed.

(* invariant of the clock and "no two arrival events in adjacent ticks when the mean is >= 1 tick" *)
Lemma clock_inv P n : forall s out s',
  (0 <= g_wmean P)%Z -> (0 <= gs_since s <= gs_wait s)%Z ->
  gen_run P n s = Some (out, s') -> (0 <= gs_since s' <= gs_wait s')%Z.
Proof.
  induction n as [|n IH]; intros s out s' Hm I H; simpl in H.
  - inversion H; subst; exact I.
  - destruct (gen_tick P s) as [[b s1]|] eqn:T; [|discriminate].
    destruct (gen_run P n s1) as [[t s2]|] eqn:R; [|discriminate].
    inversion H; subst. apply (IH _ _ _ Hm) in R; [exact R|].
    destruct (gen_tick_spec _ _ _ _ T) as [[N [_ [S1 [W1 _]]]]|[_ [_ [S0 [[mu [x [W M]]] _]]]]].
    + rewrite S1, W1. lia.
    + rewrite S0, W. pose proof (next_wait_nonneg (g_wmean P) x Hm). lia.
Qed.

Lemma events_not_adjacent P n : forall s out s',
  (1 <= g_wmean P)%Z -> (1 <= g_np P)%nat ->
  gen_run P n s = Some (out, s') ->
  forall i, nth i out [] <> [] -> nth (S i) out [] = [].
Proof.
  induction n as [|n IH]; intros s out s' Hm Hp H i Hi; simpl in H.
  - inversion H; subst. destruct i; reflexivity.
  - destruct (gen_tick P s) as [[b s1]|] eqn:T; [|discriminate].
    destruct (gen_run P n s1) as [[t s2]|] eqn:R; [|discriminate].
    inversion H; subst. destruct i as [|i].
    + simpl in Hi. simpl.
      destruct (gen_tick_spec _ _ _ _ T) as [[_ [Eb _]]|[_ [_ [S0 [[mu [x [W M]]] _]]]]]; [congruence|].
      destruct n as [|n]; simpl in R.
      * inversion R; subst. reflexivity.
      * destruct (gen_tick P s1) as [[b1 s3]|] eqn:T1; [|discriminate].
        destruct (gen_run P n s3) as [[t3 s4]|]; [|discriminate].
        inversion R; subst. simpl.
        destruct (gen_tick_spec _ _ _ _ T1) as [[_ [Eb1 _]]|[E1 _]]; [exact Eb1|].
        pose proof (next_wait_ge (g_wmean P) x Hm). lia.
    + simpl in Hi. change (nth (S (S i)) (b :: t) []) with (nth (S i) t []).
      exact (IH _ _ _ Hm Hp R i Hi).
Qed.

(* ------------------------------------------------------------------------------------------ *)
(* pairing: draws placed symmetrically around an integer mean *)

Lemma trunc_pair (m : Z) (d : Q) :
  1 <= inject_Z m + d -> 1 <= inject_Z m - d ->
  (1 <= truncQ (inject_Z m + d))%Z /\ (1 <= truncQ (inject_Z m - d))%Z /\
  (2 * m - 1 <= truncQ (inject_Z m + d) + truncQ (inject_Z m - d) <= 2 * m)%Z.
Proof.
  intros H1 H2.
  rewrite !truncQ_floorQ by lra. rewrite !floorQ_Qfloor.
  set (x := inject_Z m + d) in *. set (y := inject_Z m - d) in *.
  pose proof (Qfloor_le x) as X1. pose proof (Qlt_floor x) as X2.
  pose proof (Qfloor_le y) as Y1. pose proof (Qlt_floor y) as Y2.
  rewrite inject_Z_plus in X2, Y2. change (inject_Z 1) with 1 in X2, Y2.
  assert (S : x + y == inject_Z (2 * m)).
  { unfold x, y. rewrite inject_Z_mult. change (inject_Z 2) with 2. ring. }
  assert (A : (1 <= Qfloor x)%Z).
  { assert (L : inject_Z 0 < inject_Z (Qfloor x)) by (change (inject_Z 0) with 0; lra).
    rewrite <- Zlt_Qlt in L. lia. }
  assert (B : (1 <= Qfloor y)%Z).
  { assert (L : inject_Z 0 < inject_Z (Qfloor y)) by (change (inject_Z 0) with 0; lra).
    rewrite <- Zlt_Qlt in L. lia. }
  repeat split; try assumption.
  - assert (L : inject_Z (2 * m) < inject_Z (Qfloor x + Qfloor y + 2)).
    { rewrite !inject_Z_plus. change (inject_Z 2) with 2. lra. }
    rewrite <- Zlt_Qlt in L. lia.
  - assert (L : inject_Z (Qfloor x + Qfloor y) <= inject_Z (2 * m)).
    { rewrite !inject_Z_plus. lra. }
    rewrite <- Zle_Qle in L. lia.
Qed.

Definition gap_of (wmean : Z) (x : Q) : Z := (next_wait wmean x + 1)%Z.

(* two gap draws m + d and m - d, |d| <= m - 1: the two gaps sum to 2m+1 or 2m+2, i.e. the mean gap is
   within one tick of m + 1/2 ... for any draw distribution symmetric about m and supported there *)
Lemma gap_pairing (m : Z) (d : Q) :
  1 <= inject_Z m + d -> 1 <= inject_Z m - d ->
  (2 * m + 1 <= gap_of m (inject_Z m + d) + gap_of m (inject_Z m - d) <= 2 * m + 2)%Z.
Proof.
  intros H1 H2. destruct (trunc_pair m d H1 H2) as [A [B C]].
  unfold gap_of, next_wait.
  destruct (Z.leb_spec (truncQ (inject_Z m + d)) 0); [lia|].
  destruct (Z.leb_spec (truncQ (inject_Z m - d)) 0); [lia|]. lia.
Qed.

Lemma op_count_pairing (n : Z) (d : Q) :
  1 <= inject_Z n + d -> 1 <= inject_Z n - d ->
  (2 * n - 1 <= op_count (inject_Z n + d) + op_count (inject_Z n - d) <= 2 * n)%Z.
Proof.
  intros H1 H2. destruct (trunc_pair n d H1 H2) as [A [B C]].
  unfold op_count.
  destruct (Z.ltb_spec (truncQ (inject_Z n + d)) 1); [lia|].
  destruct (Z.ltb_spec (truncQ (inject_Z n - d)) 1); [lia|]. lia.
Qed.

(* ------------------------------------------------------------------------------------------ *)
(* choice as inverse CDF *)

Definition nonnegl (l : list Q) : Prop := Forall (fun p => 0 <= p) l.

Lemma sumQl_nonneg l : nonnegl l -> 0 <= sumQl l.
Proof. induction 1; simpl; lra. Qed.

Lemma nonnegl_firstn l i : nonnegl l -> nonnegl (firstn i l).
Proof.
  unfold nonnegl. intros H. revert i; induction H; intros [|i]; simpl; constructor; auto.
Qed.

Lemma cdf_nonneg l i : nonnegl l -> 0 <= cdf l i.
Proof. intros H. apply sumQl_nonneg, nonnegl_firstn, H. Qed.

Lemma cdf_cons p t i : cdf (p :: t) (S i) = p + cdf t i.
Proof. reflexivity. Qed.

Lemma cdf_S l : forall i, (i < length l)%nat -> cdf l (S i) == cdf l i + nth i l 0.
Proof.
  induction l as [|p t IH]; intros i H; simpl in H; [lia|].
  destruct i as [|i].
  - unfold cdf; simpl. destruct t; simpl; lra.
  - rewrite !cdf_cons. rewrite IH by lia. simpl nth. lra.
Qed.

Lemma cdf_mono l : nonnegl l -> forall i, cdf l i <= cdf l (S i).
Proof.
  intros H. induction H as [|p t Hp Ht IH]; intros i.
  - unfold cdf. destruct i; simpl; lra.
  - destruct i as [|i].
    + unfold cdf; simpl. destruct t; simpl; lra.
    + rewrite !cdf_cons. specialize (IH i). lra.
Qed.

Lemma cdf_all l i : (length l <= i)%nat -> cdf l i = sumQl l.
Proof. intros H. unfold cdf. rewrite firstn_all2 by exact H. reflexivity. Qed.

Lemma choice_from_ge probs : forall acc u k, (k <= choice_from probs acc u k)%nat.
Proof.
  induction probs as [|p t IH]; intros acc u k; simpl; [lia|].
  destruct (Qltb u (acc + p)); [lia|]. specialize (IH (acc + p) u (S k)). lia.
Qed.

Lemma choice_from_spec probs : nonnegl probs -> forall acc u k i,
  (i < length probs)%nat -> acc <= u ->
  (choice_from probs acc u k = (k + i)%nat <-> acc + cdf probs i <= u /\ u < acc + cdf probs (S i)).
Proof.
  induction 1 as [|p t Hp Ht IH]; intros acc u k i Hi Hu; simpl in Hi; [lia|].
  cbn [choice_from].
  destruct (Qltb_spec u (acc + p)) as [L|L].
  - destruct i as [|i].
    + split; [intros _ | intros _; lia].
      unfold cdf; simpl firstn; simpl sumQl. destruct t; simpl; lra.
    + split; [intros E; lia|]. intros [A _]. rewrite cdf_cons in A.
      pose proof (cdf_nonneg t i Ht). exfalso; lra.
  - apply Qnot_lt_le in L. destruct i as [|i].
    + split.
      * intros E. pose proof (choice_from_ge t (acc + p) u (S k)). lia.
      * intros [_ B]. exfalso. revert B. unfold cdf; simpl firstn; simpl sumQl. destruct t; simpl; lra.
    + rewrite !cdf_cons. specialize (IH (acc + p) u (S k) i).
      replace (k + S i)%nat with (S k + i)%nat by lia.
      rewrite IH; [|lia|lra]. split; intros [A B]; split; lra.
Qed.

(* the values of u that choose class i are exactly the interval [cdf i, cdf (i+1)), whose length is p_i *)
Lemma choice_measure probs u i : nonnegl probs -> (i < length probs)%nat -> 0 <= u ->
  (choice_of probs u = i <-> cdf probs i <= u /\ u < cdf probs (S i)) /\
  cdf probs (S i) - cdf probs i == nth i probs 0.
Proof.
  intros H Hi Hu. split.
  - unfold choice_of. pose proof (choice_from_spec probs H 0 u 0%nat i Hi Hu) as S.
    simpl plus in S. rewrite S. split; intros [A B]; split; lra.
  - rewrite cdf_S by exact Hi. ring.
Qed.

Lemma choice_in_range probs u : nonnegl probs -> 0 <= u -> u < sumQl probs ->
  (choice_of probs u < length probs)%nat.
Proof.
  intros H Hu Hs. unfold choice_of.
  assert (G : forall l acc k, acc <= u -> u < acc + sumQl l -> (choice_from l acc u k < k + length l)%nat).
  { induction l as [|p t IH]; intros acc k A L; cbn [sumQl choice_from length] in *; [exfalso; lra|].
    destruct (Qltb_spec u (acc + p)) as [B|B]; [lia|]. apply Qnot_lt_le in B.
    assert (L' : u < acc + p + sumQl t) by lra. specialize (IH (acc + p) (S k) B L'). lia. }
  specialize (G probs 0 0%nat). cbn [plus] in G. apply G; lra.
Qed.

(* a class with probability 0 is never chosen *)
Lemma choice_never_zero probs u i : nonnegl probs -> (i < length probs)%nat -> 0 <= u ->
  nth i probs 0 == 0 -> choice_of probs u <> i.
Proof.
  intros H Hi Hu Z E.
  destruct (choice_measure probs u i H Hi Hu) as [M L]. apply M in E. lra.
Qed.

Lemma sum_split l : forall i, (i < length l)%nat ->
  sumQl l == cdf l i + nth i l 0 + sumQl (skipn (S i) l).
Proof.
  induction l as [|p t IH]; intros i Hi; simpl in Hi; [lia|].
  destruct i as [|i].
  - unfold cdf; simpl. lra.
  - rewrite cdf_cons. change (skipn (S (S i)) (p :: t)) with (skipn (S i) t).
    change (nth (S i) (p :: t) 0) with (nth i t 0). change (sumQl (p :: t)) with (p + sumQl t).
    assert (Hi' : (i < length t)%nat) by lia. pose proof (IH i Hi') as E. lra.
Qed.

Lemma nonnegl_skipn l i : nonnegl l -> nonnegl (skipn i l).
Proof.
  unfold nonnegl. intros H. revert i; induction H; intros [|i]; simpl; try constructor; auto.
Qed.

(* a class with probability 1 (of a total of 1) is always chosen, for every u in [0, 1) *)
Lemma choice_always_one probs u i : nonnegl probs -> (i < length probs)%nat ->
  sumQl probs == 1 -> nth i probs 0 == 1 -> 0 <= u -> u < 1 -> choice_of probs u = i.
Proof.
  intros H Hi S1 P1 Hu Hl.
  destruct (choice_measure probs u i H Hi Hu) as [M L]. apply M.
  pose proof (sum_split probs i Hi) as Sp.
  pose proof (cdf_nonneg probs i H) as C0.
  pose proof (sumQl_nonneg _ (nonnegl_skipn probs (S i) H)) as R0.
  split; lra.
Qed.
