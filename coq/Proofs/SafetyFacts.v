(* C08: what can and what cannot go wrong in a run driven by a shipped scheduler.

   V1  final_stats_total, percentile99_bounds, percentile99_single, meanZ_bounds: the epilogue never
       divides by an empty sample; its only divisors are the duration, ticks_per_second and the
       length of a non-empty latency list.
   V2  naive_round_admissible / overbook_round_admissible: whatever a round of naive, starter or
       (with memory overcommit) overbook decides passes the executor's pool-range check, every pool's
       oversell check and the operator-count assertion, and contains no suspension.  The only errors
       left are raised inside container ticks ([inner_err]).
   V3  naive_step_total: naive/starter never raise.  overbook_step_err: overbook raises only its own
       assertion (a queued operator that is not assignable) or `only(r.ops)` on a multi-operator result.
   V4  single_mode_runs_to_end (and _mk_static): CLOSED LOOP for single-operator containers (the
       starter template; naive with multi_operator_containers off): with non-empty operator scripts,
       well-scoped pipelines and no pipeline arriving twice, [sim_run] reaches its last tick ([None]).
       naive_run_errors_partial / overbook_run_errors_partial: for naive with multi-operator
       containers and for overbook only the cross-round part is proved: in every round the decisions
       pass the command checks, so a run can stop only with an [inner_err] (naive) or additionally
       ESchedAssert (overbook).
       Examples.overbook_without_overcommit_refuted: overbook with allow_memory_overcommit = False
       oversells RAM in its first tick. *)
From Coq Require Import ZArith QArith Qround List Bool Arith Lia Lqa Permutation.
Import ListNotations.
From Eudoxia Require Import Num.Rnd64 Model.Types Model.Dag Model.Lifecycle Model.Container Model.Pool
  Model.Executor Model.Sched Model.Simulator
  Proofs.ListFacts Proofs.LifecycleFacts Proofs.ConserveFacts Proofs.ExecLifeFacts.
Close Scope Q_scope.
Close Scope Z_scope.

(* ------------------------------------------------------------------------------------------ *)
(* V1. the epilogue                                                                             *)
(* ------------------------------------------------------------------------------------------ *)

Lemma percentile99_nil : percentile99 [] = None.
Proof. reflexivity. Qed.
Lemma meanZ_nil : meanZ [] = None.
Proof. reflexivity. Qed.

Lemma insZ_In x y : forall l, In y (insZ x l) <-> y = x \/ In y l.
Proof.
  induction l as [|h t IH]; cbn [insZ].
  - cbn. intuition.
  - destruct (x <=? h)%Z; cbn [In]; [intuition|]. rewrite IH. intuition.
Qed.

Lemma sortZ_In y : forall l, In y (sortZ l) <-> In y l.
Proof.
  unfold sortZ. induction l as [|h t IH]; cbn [fold_right]; [reflexivity|].
  rewrite insZ_In, IH. cbn [In]. intuition.
Qed.

Lemma insZ_length x : forall l, length (insZ x l) = S (length l).
Proof.
  induction l as [|h t IH]; cbn [insZ]; [reflexivity|].
  destruct (x <=? h)%Z; cbn [length]; [reflexivity|]. rewrite IH. reflexivity.
Qed.

Lemma sortZ_length : forall l, length (sortZ l) = length l.
Proof.
  unfold sortZ. induction l as [|h t IH]; cbn [fold_right]; [reflexivity|].
  rewrite insZ_length, IH. reflexivity.
Qed.

Lemma floorQ_is_Qfloor x : floorQ x = Qfloor x.
Proof. destruct x. reflexivity. Qed.

Lemma convex_between (L H A B f : Q) :
  (L <= A <= H)%Q -> (L <= B <= H)%Q -> (0 <= f <= 1)%Q -> (L <= A + (B - A) * f <= H)%Q.
Proof.
  intros [LA AH] [LB BH] [F0 F1].
  assert (E : (A + (B - A) * f == A * (1 - f) + B * f)%Q) by ring.
  rewrite E. clear E.
  assert (G0 : (0 <= 1 - f)%Q) by lra.
  pose proof (Qmult_le_compat_r _ _ _ LA G0) as P1.
  pose proof (Qmult_le_compat_r _ _ _ AH G0) as P2.
  pose proof (Qmult_le_compat_r _ _ _ LB F0) as P3.
  pose proof (Qmult_le_compat_r _ _ _ BH F0) as P4.
  split.
  - setoid_replace L with (L * (1 - f) + L * f)%Q by ring. lra.
  - setoid_replace H with (H * (1 - f) + H * f)%Q by ring. lra.
Qed.

(* np.percentile(l, 99) of a non-empty sample exists and lies between any bounds of the sample *)
Theorem percentile99_bounds l lo hi :
  l <> [] -> (forall x, In x l -> (lo <= x <= hi)%Z) ->
  exists q, percentile99 l = Some q /\ (inject_Z lo <= q <= inject_Z hi)%Q.
Proof.
  intros Hne Hb. destruct l as [|x0 t]; [congruence|].
  unfold percentile99. set (s := sortZ (x0 :: t)).
  assert (Hs : forall x, In x s -> (lo <= x <= hi)%Z).
  { intros x Hx. apply Hb. apply (sortZ_In x (x0 :: t)). exact Hx. }
  assert (Hlen : 0 < length s) by (unfold s; rewrite sortZ_length; cbn; lia).
  cbv zeta. eexists. split; [reflexivity|].
  set (n := Z.of_nat (length s)).
  set (idx := (inject_Z (n - 1) * (99 # 100))%Q).
  assert (Hn : (1 <= n)%Z) by (unfold n; lia).
  assert (X0 : (0 <= inject_Z (n - 1))%Q).
  { change 0%Q with (inject_Z 0). rewrite <- Zle_Qle. lia. }
  assert (I0 : (0 <= idx)%Q) by (unfold idx; lra).
  assert (I1 : (idx <= inject_Z (n - 1))%Q) by (unfold idx; lra).
  rewrite floorQ_is_Qfloor.
  assert (F0 : (0 <= Qfloor idx)%Z).
  { change 0%Z with (Qfloor 0). apply Qfloor_resp_le. exact I0. }
  assert (F1 : (Qfloor idx <= n - 1)%Z).
  { rewrite <- (Qfloor_Z (n - 1)). apply Qfloor_resp_le. exact I1. }
  assert (Fr : (0 <= idx - inject_Z (Qfloor idx) <= 1)%Q).
  { pose proof (Qfloor_le idx) as A. pose proof (Qlt_floor idx) as B.
    rewrite inject_Z_plus in B. change (inject_Z 1) with 1%Q in B. split; lra. }
  set (a := nth (Z.to_nat (Qfloor idx)) s 0%Z).
  assert (Ha : (lo <= a <= hi)%Z).
  { apply Hs. apply nth_In. unfold n in F1. lia. }
  set (b := nth (Z.to_nat (Qfloor idx + 1)) s a).
  assert (Hb' : (lo <= b <= hi)%Z).
  { destruct (Nat.lt_ge_cases (Z.to_nat (Qfloor idx + 1)) (length s)) as [Lt|Ge].
    - apply Hs. apply nth_In. exact Lt.
    - unfold b. rewrite nth_overflow by exact Ge. exact Ha. }
  assert (E : (inject_Z (b - a) == inject_Z b - inject_Z a)%Q).
  { unfold Z.sub. rewrite inject_Z_plus, inject_Z_opp. ring. }
  rewrite E. apply convex_between; [| |exact Fr]; rewrite <- !Zle_Qle; lia.
Qed.

Corollary percentile99_single x : exists q, percentile99 [x] = Some q /\ (q == inject_Z x)%Q.
Proof.
  destruct (percentile99_bounds [x] x x) as [q [E [A B]]]; [discriminate| |].
  - intros y [<-|[]]. lia.
  - exists q. split; [exact E|]. apply Qle_antisym; assumption.
Qed.

Lemma sumZ_bounds l lo hi :
  (forall x, In x l -> (lo <= x <= hi)%Z) ->
  (Z.of_nat (length l) * lo <= sumZ l <= Z.of_nat (length l) * hi)%Z.
Proof.
  induction l as [|x t IH]; intros H; [cbn; lia|].
  cbn [sumZ length]. assert (Ht : forall y, In y t -> (lo <= y <= hi)%Z) by (intros; apply H; right; auto).
  specialize (IH Ht). specialize (H x (or_introl eq_refl)). nia.
Qed.

(* np.mean of a non-empty sample: the divisor is its (non-zero) length, the value lies between
   any bounds of the sample *)
Theorem meanZ_bounds l lo hi :
  l <> [] -> (forall x, In x l -> (lo <= x <= hi)%Z) ->
  exists q, meanZ l = Some q /\ (q == inject_Z (sumZ l) / inject_Z (Z.of_nat (length l)))%Q /\
            ~ (inject_Z (Z.of_nat (length l)) == 0)%Q /\ (inject_Z lo <= q <= inject_Z hi)%Q.
Proof.
  intros Hne Hb. pose proof (sumZ_bounds l lo hi Hb) as [S1 S2].
  destruct l as [|x0 t]; [congruence|]. unfold meanZ. eexists. split; [reflexivity|].
  split; [reflexivity|].
  set (n := Z.of_nat (length (x0 :: t))) in *.
  assert (Hn : (0 < n)%Z) by (unfold n; cbn [length]; lia).
  assert (Hq : (0 < inject_Z n)%Q) by (change 0%Q with (inject_Z 0); rewrite <- Zlt_Qlt; exact Hn).
  split; [intros E; rewrite E in Hq; apply (Qlt_irrefl _ Hq)|].
  split.
  - apply Qle_shift_div_l; [exact Hq|]. rewrite <- inject_Z_mult, <- Zle_Qle. lia.
  - apply Qle_shift_div_r; [exact Hq|]. rewrite <- inject_Z_mult, <- Zle_Qle. lia.
Qed.

Lemma pipeline_stats_defined tps n l :
  (l = [] -> pst_mean (pipeline_stats tps n l) = None /\ pst_p99 (pipeline_stats tps n l) = None) /\
  (l <> [] -> exists m p, pst_mean (pipeline_stats tps n l) = Some m /\
                          pst_p99 (pipeline_stats tps n l) = Some p) /\
  pst_completions (pipeline_stats tps n l) = Z.of_nat (length l).
Proof.
  split; [intros ->; split; reflexivity|]. split; [|reflexivity].
  intros Hne. destruct l as [|x t]; [congruence|].
  unfold pipeline_stats. cbn [pst_mean pst_p99]. unfold meanZ, percentile99, div_tps. eauto.
Qed.

(* [final_stats] is a total function; on the Python side the epilogue evaluates
   completed / duration, x / ticks_per_second, and np.mean / np.percentile only of non-empty lists
   (the empty case yields nan = [None], fix b15455f). *)
Theorem final_stats_total C dur s :
  exists st, final_stats C dur s = st /\
    st_throughput st = (inject_Z (st_completed st) / dur)%Q /\
    (flat_map p_tick_times (e_pools (sm_exec s)) = [] -> st_p99 st = None) /\
    (flat_map p_tick_times (e_pools (sm_exec s)) <> [] -> exists q, st_p99 st = Some q) /\
    Forall (fun ps => (pst_completions ps = 0%Z -> pst_mean ps = None /\ pst_p99 ps = None) /\
                      (pst_completions ps <> 0%Z -> exists m p, pst_mean ps = Some m /\ pst_p99 ps = Some p))
           [st_all st; st_query st; st_interactive st; st_batch st].
Proof.
  eexists. split; [reflexivity|]. unfold final_stats.
  cbn [st_throughput st_completed st_p99 st_all st_query st_interactive st_batch].
  split; [reflexivity|]. split; [intros ->; reflexivity|]. split.
  - intros Hne. destruct (flat_map p_tick_times (e_pools (sm_exec s))) as [|x t]; [congruence|].
    unfold percentile99, div_tps. eauto.
  - assert (G : forall n l, let ps := pipeline_stats (cf_tps C) n l in
                (pst_completions ps = 0%Z -> pst_mean ps = None /\ pst_p99 ps = None) /\
                (pst_completions ps <> 0%Z -> exists m p, pst_mean ps = Some m /\ pst_p99 ps = Some p)).
    { intros n l. cbv zeta. destruct (pipeline_stats_defined (cf_tps C) n l) as (A & B & D).
      rewrite D. split.
      - intros E. apply A. destruct l; [reflexivity|]. cbn [length] in E. lia.
      - intros E. apply B. intros ->. apply E. reflexivity. }
    constructor; [apply G|]. constructor; [apply G|]. constructor; [apply G|].
    constructor; [apply G|]. constructor.
Qed.

(* ------------------------------------------------------------------------------------------ *)
(* errors raised inside the container ticks                                                     *)
(* ------------------------------------------------------------------------------------------ *)

Definition inner_err (e : err) : Prop := e = EDep \/ e = ETransition \/ e = EStopIter \/ e = EOther.

Lemma inner_not_command e :
  inner_err e ->
  e <> EBadPool /\ e <> EOversellCpu /\ e <> EOversellRam /\ e <> EBadSuspend /\ e <> EOpCount /\
  e <> EBadAssignArgs /\ e <> ESchedAssert.
Proof. intros [->|[->|[->| ->]]]; repeat split; discriminate. Qed.

Lemma bind_err_inv {A B} (r : res A) (f : A -> res B) e :
  bind r f = Err e -> r = Err e \/ exists a, r = Ok a /\ f a = Err e.
Proof. destruct r as [a|e0]; cbn; intros H; [right; eauto|left; inversion H; reflexivity]. Qed.

Lemma transition_inner S w op new e : transition S w op new = Err e -> inner_err e.
Proof.
  intros H. apply transition_err in H. unfold inner_err. destruct H as [[-> _]|[-> _]]; auto.
Qed.

Lemma transition_all_inner S new : forall ops w e, transition_all S w ops new = Err e -> inner_err e.
Proof.
  induction ops as [|o t IH]; intros w e H; cbn [transition_all] in H; [discriminate|].
  apply bind_err_inv in H. destruct H as [H|[w1 [_ H]]]; [eapply transition_inner; eauto|eauto].
Qed.

Lemma csuspend_tick_inner C w c e : csuspend_tick C w c = Err e -> inner_err e.
Proof.
  unfold csuspend_tick. cbv zeta. destruct (_ =? 0)%Z; [|discriminate].
  intros H. apply bind_err_inv in H. destruct H as [H|[w1 [_ H]]]; [|discriminate].
  eapply transition_all_inner; eauto.
Qed.

Lemma tick_suspending_inner C : forall sing w e, tick_suspending C w sing = Err e -> inner_err e.
Proof.
  induction sing as [|c t IH]; intros w e H; cbn [tick_suspending] in H; [discriminate|].
  apply bind_err_inv in H. destruct H as [H|[[w1 c1] [_ H]]]; [eapply csuspend_tick_inner; eauto|].
  apply bind_err_inv in H. destruct H as [H|[[w2 t2] [_ H]]]; [eauto|discriminate].
Qed.

Lemma ctick_inner C w cons c e : ctick C w cons c = Err e -> inner_err e.
Proof.
  unfold ctick, inner_err. intros H.
  destruct (c_completed c); [discriminate|]. destruct (c_frozen c); [discriminate|].
  destruct (nth_error (c_ops c) (c_opidx c)) as [op|]; [|inversion H; auto].
  apply bind_err_inv in H. destruct H as [H|[[w1 rest] [_ H]]].
  - destruct (c_rest c); [discriminate|].
    apply bind_err_inv in H. destruct H as [H|[w1 [_ H]]]; [|discriminate].
    eapply transition_inner; eauto.
  - destruct rest as [|m rest']; [inversion H; auto|].
    destruct (set_mem C c cons m) as [c1 cons1].
    destruct (Qltb (c_ram c) m); [discriminate|].
    destruct rest' as [|m' r']; [|discriminate].
    apply bind_err_inv in H. destruct H as [H|[w2 [_ H]]]; [eapply transition_inner; eauto|].
    destruct (Nat.eqb _ _); [|discriminate].
    destruct (mark_completed C _ cons1 false). discriminate.
Qed.

Lemma tick_active_inner C : forall act w cons e, tick_active C w cons act = Err e -> inner_err e.
Proof.
  induction act as [|c t IH]; intros w cons e H; cbn [tick_active] in H; [discriminate|].
  apply bind_err_inv in H. destruct H as [H|[[[w1 cons1] c1] [_ H]]]; [eapply ctick_inner; eauto|].
  apply bind_err_inv in H. destruct H as [H|[[[w2 cons2] t2] [_ H]]]; [eauto|discriminate].
Qed.

Lemma ckill_inner C w cons c e : ckill C w cons c = Err e -> inner_err e.
Proof.
  unfold ckill, inner_err. intros H. destruct (c_completed c); [inversion H; auto|].
  apply bind_err_inv in H. destruct H as [H|[w1 [_ H]]]; [eapply transition_all_inner; eauto|].
  destruct (mark_completed C c cons true). discriminate.
Qed.

Lemma kill_over_limit_inner C : forall act w cons e, kill_over_limit C w cons act = Err e -> inner_err e.
Proof.
  induction act as [|c t IH]; intros w cons e H; cbn [kill_over_limit] in H; [discriminate|].
  apply bind_err_inv in H. destruct H as [H|[[[w1 cons1] c1] [_ H]]].
  - destruct (Qltb (c_ram c) (c_mem c)); [eapply ckill_inner; eauto|discriminate].
  - apply bind_err_inv in H. destruct H as [H|[[[w2 cons2] t2] [_ H]]]; [eauto|discriminate].
Qed.

Lemma kill_until_fits_inner C mx : forall order w cons act e,
  kill_until_fits C mx w cons act order = Err e -> inner_err e.
Proof.
  induction order as [|cid t IH]; intros w cons act e H; cbn [kill_until_fits] in H; [discriminate|].
  destruct (Qleb cons mx); [discriminate|].
  destruct (find_container cid act) as [c|]; [|inversion H; unfold inner_err; auto].
  apply bind_err_inv in H. destruct H as [H|[[[w1 cons1] c1] [_ H]]]; [eapply ckill_inner; eauto|eauto].
Qed.

Lemma oom_killer_inner C mx w cons act e : oom_killer C mx w cons act = Err e -> inner_err e.
Proof.
  unfold oom_killer. intros H.
  apply bind_err_inv in H. destruct H as [H|[[[w1 cons1] act1] [_ H]]];
    [eapply kill_over_limit_inner; eauto|].
  destruct (Qleb cons1 mx); [discriminate|]. eapply kill_until_fits_inner; eauto.
Qed.

Lemma apply_assignments_err C : forall asgs next acpu aram act e,
  apply_assignments C next acpu aram act asgs = Err e ->
  e = EOpCount /\ exists a, In a asgs /\ opcount_ok C a = false.
Proof.
  induction asgs as [|a t IH]; intros next acpu aram act e H; cbn [apply_assignments] in H;
    [discriminate|].
  destruct (opcount_ok C a) eqn:O.
  - destruct (IH _ _ _ _ _ H) as [-> [a' [Ha' Oa']]]. split; [reflexivity|]. exists a'. split; [right|]; auto.
  - inversion H. split; [reflexivity|]. exists a. split; [left; reflexivity|exact O].
Qed.

(* a pool tick without suspensions whose batch passes the oversell check and the operator-count
   assertion can fail only inside a container tick *)
Lemma pool_tick_nosusp_err C w next p asgs e :
  pool_tick C w next p [] asgs = Err e ->
  (asgs = [] \/ verify_assignments C p asgs = Ok tt) ->
  (forall a, In a asgs -> opcount_ok C a = true) ->
  inner_err e.
Proof.
  unfold pool_tick. intros H V O. cbn [bind] in H.
  apply bind_err_inv in H. destruct H as [H|[[[[next2 acpu2] aram2] act2] [_ H]]].
  - destruct asgs as [|a0 t]; [discriminate|]. destruct V as [V|V]; [discriminate|].
    rewrite V in H. cbn [bind] in H. apply apply_assignments_err in H.
    destruct H as [_ [a [Ha Oa]]]. rewrite (O a Ha) in Oa. discriminate.
  - apply bind_err_inv in H. destruct H as [H|[[w3 sing3] [_ H]]];
      [eapply tick_suspending_inner; eauto|].
    cbv zeta in H.
    apply bind_err_inv in H. destruct H as [H|[[[w4 cons4] act4] [_ H]]];
      [eapply tick_active_inner; eauto|].
    apply bind_err_inv in H. destruct H as [H|[[[w5 cons5] act5] [_ H]]];
      [eapply oom_killer_inner; eauto|discriminate].
Qed.

Definition mine_of (p : pool) (asgs : list asg) : list asg :=
  filter (fun a => (a_pool a =? Z.of_nat (p_id p))%Z) asgs.

(* the three command checks of one executor tick (no suspensions) *)
Definition checks_pass (C : cfg) (ps : list pool) (asgs : list asg) : Prop :=
  forallb (fun a => pool_in_range (length ps) (a_pool a)) asgs = true /\
  (forall p, In p ps -> mine_of p asgs = [] \/ verify_assignments C p (mine_of p asgs) = Ok tt) /\
  (forall a, In a asgs -> opcount_ok C a = true).

Lemma pools_tick_nosusp_err C asgs : forall ps w next e,
  pools_tick C w next ps [] asgs = Err e ->
  (forall p, In p ps -> mine_of p asgs = [] \/ verify_assignments C p (mine_of p asgs) = Ok tt) ->
  (forall a, In a asgs -> opcount_ok C a = true) ->
  inner_err e.
Proof.
  induction ps as [|p t IH]; intros w next e H V O; cbn [pools_tick] in H; [discriminate|].
  cbv zeta in H. cbn [filter] in H.
  apply bind_err_inv in H. destruct H as [H|[[[[w1 next1] p1] res1] [_ H]]].
  - eapply pool_tick_nosusp_err; [exact H| |].
    + apply (V p). left. reflexivity.
    + intros a Ha. apply filter_In in Ha. apply O. tauto.
  - apply bind_err_inv in H. destruct H as [H|[[[[w2 next2] t2] res2] [_ H]]]; [|discriminate].
    eapply IH; [exact H| |exact O]. intros q Hq. apply V. right. exact Hq.
Qed.

Theorem exec_tick_checked_err C s asgs e :
  exec_tick C s [] asgs = Err e -> checks_pass C (e_pools s) asgs -> inner_err e.
Proof.
  unfold exec_tick. intros H (R & V & O). cbv zeta in H. cbn [forallb andb] in H. rewrite R in H.
  cbn [negb] in H. apply bind_err_inv in H. destruct H as [H|[[[[w next] ps] res] [_ H]]];
    [|discriminate].
  eapply pools_tick_nosusp_err; eauto.
Qed.

(* ------------------------------------------------------------------------------------------ *)
(* V3 (first half, used by V2): naive and starter never raise                                   *)
(* ------------------------------------------------------------------------------------------ *)

Lemma get_ops_assignable_ok S : forall ops w,
  NoDup ops -> (forall o, In o ops -> assignable (st_of w o) = true) ->
  exists w', transition_all S w ops Assigned = Ok w'.
Proof.
  induction ops as [|o t IH]; intros w N A; cbn [transition_all]; [eauto|].
  inversion N as [|? ? No Nt]; subst.
  assert (T : transition S w o Assigned = Ok (world_after S w o Assigned)).
  { apply transition_ok. split; [apply A; left; reflexivity|]. split; [discriminate|reflexivity]. }
  rewrite T. cbn [bind]. apply IH; [exact Nt|].
  intros o' Ho'. rewrite (transition_st_other _ _ _ _ _ _ T); [apply A; right; exact Ho'|].
  intros ->. contradiction.
Qed.

Definition orders_nodup (S : static) : Prop := forall k, NoDup (pd_order (pipe_of S k)).

Lemma NoDup_filter_nat (f : nat -> bool) l : NoDup l -> NoDup (filter f l).
Proof.
  induction 1 as [|x l Hx N IH]; cbn [filter]; [constructor|].
  destruct (f x); [constructor; [|exact IH]|exact IH].
  intros Hin. apply filter_In in Hin. tauto.
Qed.

Lemma naive_ops_ok C (single : bool) w p :
  orders_nodup (cf_static C) ->
  let ops := if single then firstn 1 (get_ops (S_of C) w p assignable true)
             else get_ops (S_of C) w p assignable false in
  NoDup ops /\ (forall o, In o ops -> assignable (st_of w o) = true) /\
  (single = true -> ops <> [] -> length ops = 1).
Proof.
  intros ND. cbv zeta. unfold get_ops, S_of.
  assert (G : forall req, let l := filter (fun op => assignable (st_of w op)
                                 && (negb req || parents_complete (cf_static C) w op))
                               (pd_order (pipe_of (cf_static C) p)) in
              NoDup l /\ forall o, In o l -> assignable (st_of w o) = true).
  { intros req. cbv zeta. split; [apply NoDup_filter_nat, ND|].
    intros o Ho. apply filter_In in Ho. destruct Ho as [_ Ho]. apply andb_true_iff in Ho. tauto. }
  destruct single.
  - destruct (G true) as [N A].
    destruct (filter _ (pd_order (pipe_of (cf_static C) p))) as [|o t] eqn:F.
    + cbn. split; [constructor|]. split; [intros ? []|congruence].
    + cbn [firstn]. split; [constructor; [intros []|constructor]|]. split; [|reflexivity].
      intros o' [<-|[]]. apply A. left. reflexivity.
  - destruct (G false) as [N A]. split; [exact N|]. split; [exact A|discriminate].
Qed.

(* what one scan of the waiting queue for one pool returns *)
Definition scan_asg_ok (C : cfg) (single : bool) (pid : nat) (acpu : Z) (aram : Q) (a : asg) : Prop :=
  a_pool a = Z.of_nat pid /\ a_cpu a = acpu /\ a_ram a = aram /\ a_ops a <> [] /\
  (single = true -> length (a_ops a) = 1).

Lemma naive_scan_total C single pid acpu aram :
  orders_nodup (cf_static C) -> (acpu <=? 0)%Z = false -> Qleb aram 0%Q = false ->
  forall queue w, exists q' rq w' oa,
    naive_scan C single w pid acpu aram queue = Ok (q', rq, w', oa) /\
    (forall a, oa = Some a -> scan_asg_ok C single pid acpu aram a).
Proof.
  intros ND Hc Hr. induction queue as [|p rest IH]; intros w; cbn [naive_scan].
  - eexists _, _, _, None. split; [reflexivity|discriminate].
  - destruct (is_successful (S_of C) w p || has_failures w p); [apply IH|].
    destruct (naive_ops_ok C single w p ND) as (N & A & L1).
    destruct (if single then firstn 1 (get_ops (S_of C) w p assignable true)
              else get_ops (S_of C) w p assignable false) as [|o t] eqn:Ops.
    + destruct (IH w) as (q' & rq & w' & oa & E & Hoa). rewrite E. cbn [bind].
      eexists _, _, _, oa. split; [reflexivity|exact Hoa].
    + destruct (get_ops_assignable_ok (cf_static C) (o :: t) w N A) as [w' T].
      unfold mk_assignment. cbn [a_ops a_cpu a_ram length Nat.eqb]. rewrite Hc, Hr, T. cbn [bind].
      eexists _, _, _, (Some _). split; [reflexivity|].
      intros a Ea. inversion Ea; subst a. unfold scan_asg_ok. cbn [a_pool a_cpu a_ram a_ops].
      repeat split; try discriminate. intros Hs. apply (L1 Hs). discriminate.
Qed.

Inductive picks (single : bool) : list pool -> list asg -> Prop :=
| picks_nil : picks single [] []
| picks_skip p ps l : picks single ps l -> picks single (p :: ps) l
| picks_take p ps a l :
    picks single ps l ->
    a_pool a = Z.of_nat (p_id p) -> a_cpu a = p_avail_cpu p -> a_ram a = p_avail_ram p ->
    a_ops a <> [] -> (single = true -> length (a_ops a) = 1) ->
    picks single (p :: ps) (a :: l).

Lemma naive_pools_total C single :
  orders_nodup (cf_static C) ->
  forall ps w queue requeue acc, exists q' rq' w' news,
    naive_pools C single w ps queue requeue acc = Ok (q', rq', w', acc ++ news) /\
    picks single ps news.
Proof.
  intros ND. induction ps as [|p t IH]; intros w queue requeue acc; cbn [naive_pools].
  - eexists _, _, _, []. rewrite app_nil_r. split; [reflexivity|constructor].
  - destruct ((p_avail_cpu p <=? 0)%Z || Qleb (p_avail_ram p) 0%Q) eqn:Sk.
    + destruct (IH w queue requeue acc) as (q' & rq' & w' & news & E & P).
      eexists _, _, _, news. split; [exact E|constructor; exact P].
    + apply orb_false_iff in Sk. destruct Sk as [Hc Hr].
      destruct (naive_scan_total C single (p_id p) _ _ ND Hc Hr queue w)
        as (q1 & rq1 & w1 & oa & E & Hoa).
      rewrite E. cbn [bind]. destruct oa as [a|].
      * destruct (IH w1 q1 (requeue ++ rq1) (acc ++ [a])) as (q' & rq' & w' & news & E' & P).
        eexists _, _, _, (a :: news). rewrite <- app_assoc in E'. split; [exact E'|].
        destruct (Hoa a eq_refl) as (A1 & A2 & A3 & A4 & A5). apply picks_take; auto.
      * destruct (IH w1 q1 (requeue ++ rq1) acc) as (q' & rq' & w' & news & E' & P).
        eexists _, _, _, news. split; [exact E'|constructor; exact P].
Qed.

(* naive and the starter template never raise: their Assignment constructors always succeed *)
Theorem naive_step_total C starter s e results newp :
  orders_nodup (cf_static C) ->
  exists s' w' asgs,
    naive_step C starter s e results newp = Ok (s', w', [], asgs) /\
    (asgs = [] \/
     picks (if starter then true else negb (cf_multi C)) (e_pools e) asgs).
Proof.
  intros ND. unfold naive_step. cbv zeta.
  set (single := if starter then true else negb (cf_multi C)).
  destruct (naive_pools_total C single ND (e_pools e) (e_world e) (ss_queue s ++ newp) [] [])
    as (q' & rq' & w' & news & E & P). cbn [app] in E.
  destruct newp as [|p0 newp']; [destruct results as [|r0 results']|].
  - eexists _, _, []. split; [reflexivity|left; reflexivity].
  - rewrite E. cbn [bind]. eexists _, _, news. split; [reflexivity|right; exact P].
  - rewrite E. cbn [bind]. eexists _, _, news. split; [reflexivity|right; exact P].
Qed.

Corollary naive_step_never_raises C starter s e results newp er :
  orders_nodup (cf_static C) -> naive_step C starter s e results newp <> Err er.
Proof.
  intros ND H. destruct (naive_step_total C starter s e results newp ND) as (s' & w' & asgs & E & _).
  congruence.
Qed.

(* ------------------------------------------------------------------------------------------ *)
(* V2. one round of naive / starter is admissible                                               *)
(* ------------------------------------------------------------------------------------------ *)

Lemma picks_pools single : forall ps l, picks single ps l ->
  forall a, In a l -> exists p, In p ps /\ a_pool a = Z.of_nat (p_id p).
Proof.
  induction 1 as [|p ps l P IH|p ps a l P IH A1 A2 A3 A4 A5]; intros x Hx.
  - destruct Hx.
  - destruct (IH x Hx) as [q [Hq E]]. exists q. split; [right|]; auto.
  - destruct Hx as [<-|Hx]; [exists p; split; [left|]; auto|].
    destruct (IH x Hx) as [q [Hq E]]. exists q. split; [right|]; auto.
Qed.

Lemma picks_mine single : forall ps l, picks single ps l -> NoDup (map p_id ps) ->
  forall p, In p ps ->
    mine_of p l = [] \/
    exists a, mine_of p l = [a] /\ a_cpu a = p_avail_cpu p /\ a_ram a = p_avail_ram p.
Proof.
  induction 1 as [|p ps l P IH|p ps a l P IH A1 A2 A3 A4 A5]; intros N q Hq.
  - destruct Hq.
  - cbn [map] in N. inversion N as [|? ? Np Nps]; subst. destruct Hq as [<-|Hq]; [|apply IH; assumption].
    left. unfold mine_of.
    destruct (filter _ l) as [|x t] eqn:F; [reflexivity|].
    assert (Hx : In x (filter (fun a => (a_pool a =? Z.of_nat (p_id p))%Z) l)) by (rewrite F; left; auto).
    apply filter_In in Hx. destruct Hx as [Hx Ex]. apply Z.eqb_eq in Ex.
    destruct (picks_pools _ _ _ P x Hx) as [p' [Hp' E']]. exfalso. apply Np.
    rewrite E' in Ex. apply Nat2Z.inj in Ex. rewrite <- Ex. apply in_map. exact Hp'.
  - cbn [map] in N. inversion N as [|? ? Np Nps]; subst.
    assert (Hnone : forall q', p_id q' = p_id p ->
              filter (fun a => (a_pool a =? Z.of_nat (p_id q'))%Z) l = []).
    { intros q' Eq. destruct (filter _ l) as [|x t] eqn:F; [reflexivity|].
      assert (Hx : In x (filter (fun a => (a_pool a =? Z.of_nat (p_id q'))%Z) l)) by (rewrite F; left; auto).
      apply filter_In in Hx. destruct Hx as [Hx Ex]. apply Z.eqb_eq in Ex.
      destruct (picks_pools _ _ _ P x Hx) as [p' [Hp' E']]. exfalso. apply Np.
      rewrite E' in Ex. apply Nat2Z.inj in Ex. rewrite <- Eq, <- Ex. apply in_map. exact Hp'. }
    unfold mine_of. cbn [filter]. destruct Hq as [<-|Hq].
    + rewrite A1, Z.eqb_refl. right. exists a. rewrite (Hnone p eq_refl). auto.
    + assert (Ne : p_id q <> p_id p).
      { intros E. apply Np. rewrite <- E. apply in_map. exact Hq. }
      rewrite A1. destruct (Z.eqb_spec (Z.of_nat (p_id p)) (Z.of_nat (p_id q))) as [E|_].
      * apply Nat2Z.inj in E. congruence.
      * apply IH; assumption.
Qed.

Lemma verify_single C p a :
  a_cpu a = p_avail_cpu p -> a_ram a = p_avail_ram p -> verify_assignments C p [a] = Ok tt.
Proof.
  intros Hc Hr. apply verify_assignments_ok. cbn [map sumZ sumQ]. rewrite Hc, Hr. split; [lia|].
  intros _. lra.
Qed.

Lemma picks_opcount C (starter : bool) : forall ps l,
  picks (if starter then true else negb (cf_multi C)) ps l ->
  forall a, In a l -> opcount_ok C a = true.
Proof.
  induction 1 as [|p ps l P IH|p ps a l P IH A1 A2 A3 A4 A5]; intros x Hx.
  - destruct Hx.
  - apply IH, Hx.
  - destruct Hx as [<-|Hx]; [|apply IH, Hx]. unfold opcount_ok.
    destruct (cf_multi C) eqn:M.
    + destruct (a_ops a); [congruence|reflexivity].
    + rewrite A5; [reflexivity|]. destruct starter; reflexivity.
Qed.

Lemma pools_seq_range (ps : list pool) n p :
  map p_id ps = seq 0 n -> In p ps -> pool_in_range (length ps) (Z.of_nat (p_id p)) = true.
Proof.
  intros E Hp. assert (L : length ps = n) by (rewrite <- (map_length p_id), E, seq_length; reflexivity).
  apply (in_map p_id) in Hp. rewrite E in Hp. apply in_seq in Hp.
  unfold pool_in_range. apply andb_true_iff. split; [apply Z.leb_le|apply Z.ltb_lt]; lia.
Qed.

Lemma pools_seq_nodup (ps : list pool) n : map p_id ps = seq 0 n -> NoDup (map p_id ps).
Proof. intros ->. apply seq_NoDup. Qed.

(* the decisions of one round pass every command check of the executor *)
Theorem naive_round_checks C starter s e results newp s' w' susps asgs n :
  naive_step C starter s e results newp = Ok (s', w', susps, asgs) ->
  orders_nodup (cf_static C) ->
  map p_id (e_pools e) = seq 0 n ->
  susps = [] /\ checks_pass C (e_pools e) asgs.
Proof.
  intros H ND Hseq.
  destruct (naive_step_total C starter s e results newp ND) as (s1 & w1 & asgs1 & E & P).
  rewrite E in H. inversion H; subst. split; [reflexivity|].
  destruct P as [->|P].
  - split; [reflexivity|]. split; [intros p _; left; reflexivity|intros ? []].
  - split; [|split].
    + apply forallb_forall. intros a Ha. destruct (picks_pools _ _ _ P a Ha) as [p [Hp ->]].
      eapply pools_seq_range; eauto.
    + intros p Hp. destruct (picks_mine _ _ _ P (pools_seq_nodup _ _ Hseq) p Hp) as [M|[a [M [A2 A3]]]].
      * left. exact M.
      * right. rewrite M. apply verify_single; assumption.
    + eapply picks_opcount; eauto.
Qed.

Theorem naive_round_admissible C starter s e results newp s' w' susps asgs n er :
  naive_step C starter s e results newp = Ok (s', w', susps, asgs) ->
  orders_nodup (cf_static C) ->
  map p_id (e_pools e) = seq 0 n ->
  exec_tick C {| e_world := w'; e_pools := e_pools e; e_next := e_next e |} susps asgs = Err er ->
  inner_err er /\
  er <> EBadPool /\ er <> EOversellCpu /\ er <> EOversellRam /\ er <> EBadSuspend /\ er <> EOpCount.
Proof.
  intros H ND Hseq X. destruct (naive_round_checks _ _ _ _ _ _ _ _ _ _ _ H ND Hseq) as [-> Ck].
  assert (I : inner_err er) by (eapply exec_tick_checked_err; [exact X|exact Ck]).
  split; [exact I|]. pose proof (inner_not_command er I). tauto.
Qed.

(* ------------------------------------------------------------------------------------------ *)
(* overbook: V3 (which errors it can raise) and V2 (its decisions pass the command checks)      *)
(* ------------------------------------------------------------------------------------------ *)

Definition snap_t : Type := (nat * Z * Q)%type.
Definition snap_ids (snap : list snap_t) : list nat := map (fun x => fst (fst x)) snap.
Fixpoint cap (snap : list snap_t) (pid : nat) : Z :=
  match snap with
  | [] => 0%Z
  | (i, av, _) :: t => if Nat.eqb i pid then av else cap t pid
  end.
Definition snap_pos (snap : list snap_t) : Prop := Forall (fun x => Qleb (snd x) 0%Q = false) snap.

Lemma ob_find_pool_spec : forall snap pid mr snap',
  ob_find_pool snap = Some (pid, mr, snap') -> NoDup (snap_ids snap) ->
  In pid (snap_ids snap) /\ (1 <= cap snap pid)%Z /\ snap_ids snap' = snap_ids snap /\
  (forall q, cap snap' q = if Nat.eqb q pid then (cap snap q - 1)%Z else cap snap q) /\
  (snap_pos snap -> snap_pos snap' /\ Qleb mr 0%Q = false).
Proof.
  induction snap as [|[[i av] m] t IH]; intros pid mr snap' H N; cbn [ob_find_pool] in H; [discriminate|].
  cbn [snap_ids map fst] in N. inversion N as [|? ? Ni Nt]; subst.
  destruct (1 <=? av)%Z eqn:A.
  - inversion H; subst. apply Z.leb_le in A. cbn [snap_ids map fst cap]. rewrite Nat.eqb_refl.
    split; [left; reflexivity|]. split; [exact A|]. split; [reflexivity|]. split.
    + intros q. rewrite (Nat.eqb_sym q pid). destruct (Nat.eqb pid q); reflexivity.
    + intros P. inversion P as [|? ? P1 P2]; subst. cbn [snd] in P1. split; [constructor; assumption|exact P1].
  - destruct (ob_find_pool t) as [[[p m'] t']|] eqn:F; [|discriminate]. inversion H; subst.
    destruct (IH _ _ _ eq_refl Nt) as (I1 & I2 & I3 & I4 & I5).
    assert (Ne : i <> pid) by (intros ->; apply Ni; exact I1).
    cbn [snap_ids map fst cap]. apply Nat.eqb_neq in Ne. rewrite Ne.
    split; [right; exact I1|]. split; [exact I2|]. split; [f_equal; exact I3|]. split.
    + intros q. destruct (Nat.eqb i q) eqn:E.
      * apply Nat.eqb_eq in E. subst q. rewrite Ne. reflexivity.
      * apply I4.
    + intros P. inversion P as [|? ? P1 P2]; subst. destruct (I5 P2) as [Q1 Q2].
      split; [constructor; assumption|exact Q2].
Qed.

Definition ob_asg_ok (ids : list nat) (a : asg) : Prop :=
  length (a_ops a) = 1 /\ a_cpu a = 1%Z /\ exists pid, In pid ids /\ a_pool a = Z.of_nat pid.
Definition cntp (pid : nat) (l : list asg) : nat :=
  length (filter (fun a => (a_pool a =? Z.of_nat pid)%Z) l).

Lemma ob_mk_assignment C w op mr pr pid :
  assignable (st_of w op) = true -> Qleb mr 0%Q = false ->
  exists w', mk_assignment C w {| a_ops := [op]; a_cpu := 1%Z; a_ram := mr; a_prio := pr;
                                  a_pool := Z.of_nat pid |} = Ok w'.
Proof.
  intros A R. unfold mk_assignment. cbn [a_ops a_cpu a_ram length Nat.eqb Z.leb Z.compare].
  rewrite R. cbn [transition_all].
  assert (T : transition (cf_static C) w op Assigned = Ok (world_after (cf_static C) w op Assigned)).
  { apply transition_ok. split; [exact A|]. split; [discriminate|reflexivity]. }
  rewrite T. cbn [bind]. eauto.
Qed.

Lemma ob_assign_spec C fails : forall queue w snap acc q' w' asgs,
  ob_assign C w fails snap queue acc = Ok (q', w', asgs) -> NoDup (snap_ids snap) ->
  exists news, asgs = acc ++ news /\ Forall (ob_asg_ok (snap_ids snap)) news /\
    forall pid, cntp pid news <> 0 -> (Z.of_nat (cntp pid news) <= cap snap pid)%Z.
Proof.
  induction queue as [|op rest IH]; intros w snap acc q' w' asgs H N; cbn [ob_assign] in H.
  - inversion H; subst. exists []. rewrite app_nil_r. split; [reflexivity|]. split; [constructor|].
    intros pid Hc. exfalso. apply Hc. reflexivity.
  - destruct (max_failures <=? _)%Z; [eapply IH; eauto|].
    destruct (negb (assignable (st_of w op))); [discriminate|].
    destruct (ob_find_pool snap) as [[[pid mr] snap']|] eqn:F.
    + destruct (ob_find_pool_spec _ _ _ _ F N) as (I1 & I2 & I3 & I4 & _).
      apply bind_ok_inv in H. destruct H as [w1 [M H]].
      assert (N' : NoDup (snap_ids snap')) by (rewrite I3; exact N).
      destruct (IH _ _ _ _ _ _ H N') as (news & E & Fa & Cn).
      match type of H with ob_assign _ _ _ _ _ (acc ++ [?x]) = _ => set (a := x) in * end.
      exists (a :: news). split; [rewrite E, <- app_assoc; reflexivity|]. split.
      * constructor; [|rewrite <- I3; exact Fa].
        split; [reflexivity|]. split; [reflexivity|]. exists pid. split; [exact I1|reflexivity].
      * intros q Hq. unfold cntp in *. cbn [filter] in *. unfold a in *. cbn [a_pool] in *.
        specialize (Cn q). rewrite (I4 q) in Cn.
        destruct (Z.eqb_spec (Z.of_nat pid) (Z.of_nat q)) as [Eq|Nq].
        -- apply Nat2Z.inj in Eq. subst q. rewrite Nat.eqb_refl in Cn. cbn [length].
           destruct (length (filter (fun a0 => (a_pool a0 =? Z.of_nat pid)%Z) news)) as [|c] eqn:L.
           ++ lia.
           ++ assert (S c <> 0) by lia. specialize (Cn H0). lia.
        -- assert (Nq' : Nat.eqb q pid = false) by (apply Nat.eqb_neq; intros ->; apply Nq; reflexivity).
           rewrite Nq' in Cn. apply Cn. exact Hq.
    + inversion H; subst. exists []. rewrite app_nil_r. split; [reflexivity|]. split; [constructor|].
      intros pid Hc. exfalso. apply Hc. reflexivity.
Qed.

Lemma ob_assign_err C fails : forall queue w snap acc e,
  ob_assign C w fails snap queue acc = Err e -> NoDup (snap_ids snap) -> snap_pos snap ->
  e = ESchedAssert.
Proof.
  induction queue as [|op rest IH]; intros w snap acc e H N P; cbn [ob_assign] in H; [discriminate|].
  destruct (max_failures <=? _)%Z; [eapply IH; eauto|].
  destruct (assignable (st_of w op)) eqn:A; cbn [negb] in H; [|inversion H; reflexivity].
  destruct (ob_find_pool snap) as [[[pid mr] snap']|] eqn:F; [|discriminate].
  destruct (ob_find_pool_spec _ _ _ _ F N) as (I1 & I2 & I3 & I4 & I5). destruct (I5 P) as [P' R].
  destruct (ob_mk_assignment C w op mr (prio_of_pipe C (op_pipe (S_of C) op)) pid A R) as [w1 M].
  rewrite M in H. cbn [bind] in H. eapply IH; [exact H| |exact P']. rewrite I3. exact N.
Qed.

Lemma ob_results_err C : forall results proc fails e,
  ob_results C results proc fails = Err e ->
  e = EOther /\ exists r, In r results /\ length (r_ops r) <> 1.
Proof.
  induction results as [|r t IH]; intros proc fails e H; cbn [ob_results] in H; [discriminate|].
  destruct (r_ops r) as [|op [|op2 l]] eqn:O.
  - inversion H. split; [reflexivity|]. exists r. split; [left; reflexivity|]. rewrite O. discriminate.
  - destruct (IH _ _ _ H) as [-> [r' [Hr' L]]]. split; [reflexivity|]. exists r'. split; [right|]; auto.
  - inversion H. split; [reflexivity|]. exists r. split; [left; reflexivity|]. rewrite O. discriminate.
Qed.

Definition pool_snap (ps : list pool) : list snap_t :=
  map (fun p => (p_id p, p_avail_cpu p, p_max_ram p)) ps.

Lemma pool_snap_ids ps : snap_ids (pool_snap ps) = map p_id ps.
Proof. unfold snap_ids, pool_snap. rewrite map_map. reflexivity. Qed.

Lemma pool_snap_pos ps :
  (forall p, In p ps -> Qleb (p_max_ram p) 0%Q = false) -> snap_pos (pool_snap ps).
Proof.
  intros H. unfold snap_pos, pool_snap. apply Forall_forall. intros x Hx.
  apply in_map_iff in Hx. destruct Hx as [p [<- Hp]]. cbn [snd]. apply H, Hp.
Qed.

Lemma pool_snap_cap : forall ps p, NoDup (map p_id ps) -> In p ps ->
  cap (pool_snap ps) (p_id p) = p_avail_cpu p.
Proof.
  induction ps as [|q t IH]; intros p N Hp; [destruct Hp|].
  cbn [map] in N. inversion N as [|? ? Nq Nt]; subst. cbn [pool_snap map cap].
  destruct Hp as [->|Hp]; [rewrite Nat.eqb_refl; reflexivity|].
  destruct (Nat.eqb (p_id q) (p_id p)) eqn:E.
  - apply Nat.eqb_eq in E. exfalso. apply Nq. rewrite E. apply in_map. exact Hp.
  - apply IH; assumption.
Qed.

(* overbook raises only its own assertion (a queued operator that is no longer assignable) or
   `only(r.ops)` on a result with several operators *)
Theorem overbook_step_err C s e results newp er :
  overbook_step C s e results newp = Err er ->
  NoDup (map p_id (e_pools e)) ->
  (forall p, In p (e_pools e) -> Qleb (p_max_ram p) 0%Q = false) ->
  er = ESchedAssert \/ (er = EOther /\ exists r, In r results /\ length (r_ops r) <> 1).
Proof.
  unfold overbook_step. intros H N P. cbv zeta in H.
  assert (G : forall X : res (sstate * world * list susp * list asg),
            X = Err er ->
            X = (do pf <- ob_results C results (fold_left (fun l p => add_absent p l) newp []) (ss_fail s);
                 let '(proc, fails) := pf in
                 let queue := fold_left (fun q p => ob_enqueue (get_ops (S_of C) (e_world e) p assignable true) q)
                                        proc (ss_queue s) in
                 let snap := map (fun p => (p_id p, p_avail_cpu p, p_max_ram p)) (e_pools e) in
                 do r <- ob_assign C (e_world e) fails snap queue [];
                 let '(q', w', asgs) := r in
                 Ok ({| ss_queue := q'; ss_fail := fails; ss_q := ss_q s; ss_i := ss_i s; ss_b := ss_b s;
                        ss_suspending := ss_suspending s; ss_requeued := ss_requeued s; ss_oom := ss_oom s |},
                     w', [], asgs)) ->
            er = ESchedAssert \/ (er = EOther /\ exists r, In r results /\ length (r_ops r) <> 1)).
  { intros X HX ->. apply bind_err_inv in HX. destruct HX as [HX|[[proc fails] [_ HX]]].
    - right. eapply ob_results_err; eauto.
    - cbv zeta in HX. apply bind_err_inv in HX. destruct HX as [HX|[[[q' w'] asgs] [_ HX]]]; [|discriminate].
      left. eapply ob_assign_err; [exact HX| |].
      + change (NoDup (snap_ids (pool_snap (e_pools e)))). rewrite pool_snap_ids. exact N.
      + apply pool_snap_pos, P. }
  destruct newp as [|p0 newp']; [destruct results as [|r0 results']; [discriminate|]|];
    eapply G; try exact H; reflexivity.
Qed.

Lemma sumZ_ones (l : list asg) :
  Forall (fun a => a_cpu a = 1%Z) l -> sumZ (map a_cpu l) = Z.of_nat (length l).
Proof.
  induction 1 as [|a t Ha Ft IH]; [reflexivity|]. cbn [map sumZ length]. rewrite Ha, IH. lia.
Qed.

Theorem overbook_round_checks C s e results newp s' w' susps asgs n :
  overbook_step C s e results newp = Ok (s', w', susps, asgs) ->
  cf_overcommit C = true ->
  map p_id (e_pools e) = seq 0 n ->
  susps = [] /\ checks_pass C (e_pools e) asgs.
Proof.
  unfold overbook_step. intros H Ov Hseq. cbv zeta in H.
  pose proof (pools_seq_nodup _ _ Hseq) as N.
  assert (G : forall X : res (sstate * world * list susp * list asg),
            X = Ok (s', w', susps, asgs) ->
            X = (do pf <- ob_results C results (fold_left (fun l p => add_absent p l) newp []) (ss_fail s);
                 let '(proc, fails) := pf in
                 let queue := fold_left (fun q p => ob_enqueue (get_ops (S_of C) (e_world e) p assignable true) q)
                                        proc (ss_queue s) in
                 let snap := map (fun p => (p_id p, p_avail_cpu p, p_max_ram p)) (e_pools e) in
                 do r <- ob_assign C (e_world e) fails snap queue [];
                 let '(q', w', asgs) := r in
                 Ok ({| ss_queue := q'; ss_fail := fails; ss_q := ss_q s; ss_i := ss_i s; ss_b := ss_b s;
                        ss_suspending := ss_suspending s; ss_requeued := ss_requeued s; ss_oom := ss_oom s |},
                     w', [], asgs)) ->
            susps = [] /\ checks_pass C (e_pools e) asgs).
  { intros X HX ->. apply bind_ok_inv in HX. destruct HX as [[proc fails] [_ HX]]. cbv zeta in HX.
    apply bind_ok_inv in HX. destruct HX as [[[q1 w1] asgs1] [A HX]]. inversion HX; subst. clear HX.
    split; [reflexivity|].
    change (map (fun p => (p_id p, p_avail_cpu p, p_max_ram p)) (e_pools e)) with (pool_snap (e_pools e)) in A.
    apply ob_assign_spec in A; [|rewrite pool_snap_ids; exact N].
    destruct A as (news & E & Fa & Cn). cbn [app] in E. subst news. rewrite pool_snap_ids in Fa.
    rewrite Forall_forall in Fa. split; [|split].
    - apply forallb_forall. intros a Ha. destruct (Fa a Ha) as (_ & _ & pid & Hpid & ->).
      apply in_map_iff in Hpid. destruct Hpid as [p [<- Hp]]. eapply pools_seq_range; eauto.
    - intros p Hp. destruct (mine_of p asgs) as [|a0 t] eqn:M; [left; reflexivity|right].
      rewrite <- M. apply verify_assignments_ok. split; [|rewrite Ov; discriminate].
      rewrite sumZ_ones.
      + rewrite <- (pool_snap_cap _ _ N Hp). apply (Cn (p_id p)). unfold cntp. fold (mine_of p asgs).
        rewrite M. discriminate.
      + apply Forall_forall. intros a Ha. apply filter_In in Ha. apply Fa. tauto.
    - intros a Ha. destruct (Fa a Ha) as (L & _). unfold opcount_ok. rewrite L.
      destruct (cf_multi C); reflexivity. }
  destruct newp as [|p0 newp']; [destruct results as [|r0 results']|].
  - inversion H; subst. split; [reflexivity|]. split; [reflexivity|].
    split; [intros p _; left; reflexivity|intros ? []].
  - eapply G; [exact H|reflexivity].
  - eapply G; [exact H|reflexivity].
Qed.

Theorem overbook_round_admissible C s e results newp s' w' susps asgs n er :
  overbook_step C s e results newp = Ok (s', w', susps, asgs) ->
  cf_overcommit C = true ->
  map p_id (e_pools e) = seq 0 n ->
  exec_tick C {| e_world := w'; e_pools := e_pools e; e_next := e_next e |} susps asgs = Err er ->
  inner_err er /\
  er <> EBadPool /\ er <> EOversellCpu /\ er <> EOversellRam /\ er <> EBadSuspend /\ er <> EOpCount.
Proof.
  intros H Ov Hseq X. destruct (overbook_round_checks _ _ _ _ _ _ _ _ _ _ H Ov Hseq) as [-> Ck].
  assert (I : inner_err er) by (eapply exec_tick_checked_err; [exact X|exact Ck]).
  split; [exact I|]. pose proof (inner_not_command er I). tauto.
Qed.

(* ------------------------------------------------------------------------------------------ *)
(* V4 (partial): the per-round facts hold in every round of a run from the initial state        *)
(* ------------------------------------------------------------------------------------------ *)

Definition pools_std (np : nat) (cpu : Z) (ram : Q) (s : sim) : Prop :=
  map p_id (e_pools (sm_exec s)) = seq 0 np /\
  Forall (fun p => p_max_cpu p = cpu /\ p_max_ram p = ram) (e_pools (sm_exec s)).

Lemma pools_std_init C np cpu ram : pools_std np cpu ram (init_sim C np cpu ram).
Proof.
  unfold pools_std, init_sim, init_estate. cbn [sm_exec e_pools]. split.
  - rewrite map_map. cbn [new_pool p_id]. apply map_id.
  - apply Forall_forall. intros p Hp. apply in_map_iff in Hp. destruct Hp as [i [<- _]]. split; reflexivity.
Qed.

Lemma exec_tick_static C s ss asgs s' res np cpu ram :
  exec_tick C s ss asgs = Ok (s', res) ->
  map p_id (e_pools s) = seq 0 np /\ Forall (fun p => p_max_cpu p = cpu /\ p_max_ram p = ram) (e_pools s) ->
  map p_id (e_pools s') = seq 0 np /\ Forall (fun p => p_max_cpu p = cpu /\ p_max_ram p = ram) (e_pools s').
Proof.
  unfold exec_tick. intros H [I F]. cbv zeta in H.
  match type of H with (if ?b then _ else _) = _ => destruct b end; [discriminate|].
  apply bind_ok_inv in H. destruct H as [[[[w next] ps] res1] [E H]]. inversion H; subst.
  cbn [e_pools]. destruct (pools_tick_static _ _ _ _ _ _ _ _ _ _ E) as [A B].
  split; [rewrite A; exact I|apply B; exact F].
Qed.

Lemma record_arrivals_err tick : forall newp arr e, record_arrivals tick newp arr = Err e -> e = EOther.
Proof.
  induction newp as [|p t IH]; intros arr e H; cbn [record_arrivals] in H; [discriminate|].
  destruct (existsb _ arr); [inversion H; reflexivity|eauto].
Qed.

Lemma sim_tick_cases C a t s newp :
  match sim_tick C a t s newp with
  | Err er =>
      (er = EOther /\ record_arrivals t newp (sm_arrival s) = Err er) \/
      sched_step C a (sm_sched s) (sm_exec s) (sm_results s) newp = Err er \/
      exists ss' w' susps asgs,
        sched_step C a (sm_sched s) (sm_exec s) (sm_results s) newp = Ok (ss', w', susps, asgs) /\
        exec_tick C {| e_world := w'; e_pools := e_pools (sm_exec s); e_next := e_next (sm_exec s) |}
                  susps asgs = Err er
  | Ok (s', lg) =>
      exists ss' w' susps asgs res,
        sched_step C a (sm_sched s) (sm_exec s) (sm_results s) newp = Ok (ss', w', susps, asgs) /\
        exec_tick C {| e_world := w'; e_pools := e_pools (sm_exec s); e_next := e_next (sm_exec s) |}
                  susps asgs = Ok (sm_exec s', res)
  end.
Proof.
  unfold sim_tick, bind.
  destruct (record_arrivals t newp (sm_arrival s)) as [arr|e] eqn:Ea.
  - destruct (sched_step C a (sm_sched s) (sm_exec s) (sm_results s) newp)
      as [[[[ss' w'] susps] asgs]|e] eqn:Es.
    + destruct (exec_tick C _ susps asgs) as [[e2 results]|e] eqn:Ee.
      * cbn [sm_exec]. eexists _, _, _, _, _. split; [reflexivity|exact Ee].
      * right. right. eexists _, _, _, _. split; [reflexivity|exact Ee].
    + right. left. reflexivity.
  - left. split; [eapply record_arrivals_err; eauto|reflexivity].
Qed.

Lemma sim_tick_pools_std C a t s newp s' lg np cpu ram :
  sim_tick C a t s newp = Ok (s', lg) -> pools_std np cpu ram s -> pools_std np cpu ram s'.
Proof.
  intros H P. pose proof (sim_tick_cases C a t s newp) as X. rewrite H in X.
  destruct X as (ss' & w' & susps & asgs & res & _ & E).
  eapply exec_tick_static in E; [exact E|exact P].
Qed.

(* a run that stops early stopped in a tick that raised, from a state satisfying every invariant
   of [sim_tick] that held initially *)
Lemma sim_run_error C a (P : sim -> Prop) :
  (forall t s newp s' lg, P s -> sim_tick C a t s newp = Ok (s', lg) -> P s') ->
  forall arrivals t s sf logs er, P s -> sim_run C a t s arrivals = (sf, logs, Some er) ->
  exists t' s' newp, P s' /\ sim_tick C a t' s' newp = Err er.
Proof.
  intros Hp. induction arrivals as [|newp r IH]; intros t s sf logs er Ps H; cbn [sim_run] in H.
  - discriminate.
  - destruct (sim_tick C a t s newp) as [[s1 lg]|e] eqn:E.
    + destruct (sim_run C a (t + 1)%Z s1 r) as [[sf' logs'] e'] eqn:R. inversion H; subst.
      eapply IH; [|exact R]. eapply Hp; eauto.
    + inversion H; subst. eauto.
Qed.

(* naive and starter: in every round of a run the decisions are admissible; a run can only stop
   with an error raised inside a container tick (or a pipeline that arrives twice) *)
Theorem naive_run_errors_partial C (starter : bool) np cpu ram arrivals sf logs er :
  orders_nodup (cf_static C) ->
  sim_run C (if starter then AStarter else ANaive) 0%Z (init_sim C np cpu ram) arrivals
    = (sf, logs, Some er) ->
  inner_err er.
Proof.
  intros ND H.
  destruct (sim_run_error C _ (pools_std np cpu ram)
              (fun t s newp s' lg Ps Ht => sim_tick_pools_std _ _ _ _ _ _ _ _ _ _ Ht Ps)
              _ _ _ _ _ _ (pools_std_init C np cpu ram) H) as (t' & s' & newp & [Pi _] & E).
  pose proof (sim_tick_cases C (if starter then AStarter else ANaive) t' s' newp) as X. rewrite E in X.
  assert (Sch : sched_step C (if starter then AStarter else ANaive) (sm_sched s') (sm_exec s')
                  (sm_results s') newp
                = naive_step C starter (sm_sched s') (sm_exec s') (sm_results s') newp)
    by (destruct starter; reflexivity).
  rewrite Sch in X. destruct X as [[-> _]|[X|(ss' & w' & susps & asgs & X1 & X2)]].
  - unfold inner_err. auto.
  - exfalso. eapply naive_step_never_raises; eauto.
  - eapply naive_round_admissible; eauto.
Qed.

(* overbook with memory overcommit and positive pool RAM: additionally its own assertion *)
Theorem overbook_run_errors_partial C np cpu ram arrivals sf logs er :
  cf_overcommit C = true -> Qleb ram 0%Q = false ->
  sim_run C AOverbook 0%Z (init_sim C np cpu ram) arrivals = (sf, logs, Some er) ->
  inner_err er \/ er = ESchedAssert.
Proof.
  intros Ov Rp H.
  destruct (sim_run_error C _ (pools_std np cpu ram)
              (fun t s newp s' lg Ps Ht => sim_tick_pools_std _ _ _ _ _ _ _ _ _ _ Ht Ps)
              _ _ _ _ _ _ (pools_std_init C np cpu ram) H) as (t' & s' & newp & [Pi Pm] & E).
  pose proof (sim_tick_cases C AOverbook t' s' newp) as X. rewrite E in X. cbn [sched_step] in X.
  destruct X as [[-> _]|[X|(ss' & w' & susps & asgs & X1 & X2)]].
  - left. unfold inner_err. auto.
  - apply overbook_step_err in X.
    + destruct X as [->|[-> _]]; [right; reflexivity|left; unfold inner_err; auto].
    + eapply pools_seq_nodup; eauto.
    + intros p Hp. rewrite Forall_forall in Pm. destruct (Pm p Hp) as [_ ->]. exact Rp.
  - left. eapply overbook_round_admissible; eauto.
Qed.

(* ------------------------------------------------------------------------------------------ *)
(* V4: the closed loop in single-operator mode (starter; naive without multi-operator            *)
(* containers): the run reaches its last tick                                                    *)
(* ------------------------------------------------------------------------------------------ *)
From Eudoxia Require Import Proofs.OomFacts.

Ltac cproj := cbn [tick_elapsed with_pos dead c_id c_ops c_cpu c_ram c_prio c_opidx c_rest c_frozen c_mem
                   c_can_suspend c_completed c_error c_ticks c_susp_left].
Ltac cproj_in H := cbn [tick_elapsed with_pos dead c_id c_ops c_cpu c_ram c_prio c_opidx c_rest c_frozen c_mem
                   c_can_suspend c_completed c_error c_ticks c_susp_left] in H.

Section ClosedLoop.
Variable C : cfg.
Let St := cf_static C.
Hypothesis Hscript : forall op cpu, cf_script C op cpu <> [].

Definition mono_w (w w' : world) : Prop :=
  length (w_st w') = length (w_st w) /\ forall o, st_of w o = Completed -> st_of w' o = Completed.

Lemma mono_w_refl w : mono_w w w.
Proof. split; auto. Qed.
Lemma mono_w_trans a b c : mono_w a b -> mono_w b c -> mono_w a c.
Proof. intros [L1 M1] [L2 M2]. split; [congruence|auto]. Qed.

Lemma steps_in_mono w w' : steps_in St w w' -> mono_w w w'.
Proof.
  intros H. apply steps_in_steps in H. split; [apply (steps_length St), H|].
  intros o Ho. eapply completed_final; eauto.
Qed.

Lemma transition_mono w op new w' : transition St w op new = Ok w' -> mono_w w w'.
Proof.
  intros T. split; [eapply transition_length; eauto|]. intros o Ho. eapply completed_stays_step; eauto.
Qed.

Lemma parents_complete_mono w w' o :
  mono_w w w' -> parents_complete St w o = true -> parents_complete St w' o = true.
Proof. intros [_ M] H. rewrite parents_complete_spec in *. intros p Hp. apply M, H, Hp. Qed.

(* a container of the single-operator mode, between two ticks *)
Definition runnable (w : world) (c : container) : Prop :=
  c_completed c = false /\ c_frozen c = false /\ Qltb (c_ram c) 0%Q = false /\
  exists o, c_ops c = [o] /\ c_opidx c = 0 /\ o < length (w_st w) /\ parents_complete St w o = true /\
    match c_rest c with
    | None => st_of w o = Assigned
    | Some r => st_of w o = Running /\ r <> []
    end.
(* ... one that kill("OOM") accepts *)
Definition killable (w : world) (c : container) : Prop :=
  c_completed c = false /\ Qltb (c_ram c) 0%Q = false /\
  exists o, c_ops c = [o] /\ c_opidx c = 0 /\ o < length (w_st w) /\
    (st_of w o = Assigned \/ st_of w o = Running).
Definition finished (c : container) : Prop :=
  c_completed c = true /\ Qltb (c_ram c) (c_mem c) = false.
(* after its tick: done, or still running, or frozen over its limit (then it is killable) *)
Definition after (w : world) (c : container) : Prop :=
  finished c \/ (killable w c /\ (Qltb (c_ram c) (c_mem c) = false -> runnable w c)).
Definition settled (w : world) (c : container) : Prop := finished c \/ runnable w c.

Lemma runnable_killable w c : runnable w c -> killable w c.
Proof.
  intros (Hc & _ & Hr & o & Ho & Hi & Hl & _ & Hs). split; [exact Hc|]. split; [exact Hr|].
  exists o. repeat split; auto. destruct (c_rest c); [right; apply Hs|left; exact Hs].
Qed.

Lemma runnable_stable w w' c :
  mono_w w w' -> (forall o, In o (c_ops c) -> st_of w' o = st_of w o) -> runnable w c -> runnable w' c.
Proof.
  intros M F (Hc & Hf & Hr & o & Ho & Hi & Hl & Hp & Hs).
  split; [exact Hc|]. split; [exact Hf|]. split; [exact Hr|]. exists o.
  assert (E : st_of w' o = st_of w o) by (apply F; rewrite Ho; left; reflexivity).
  split; [exact Ho|]. split; [exact Hi|]. split; [destruct M as [L _]; rewrite L; exact Hl|].
  split; [eapply parents_complete_mono; eauto|]. rewrite E. exact Hs.
Qed.

Lemma killable_stable w w' c :
  mono_w w w' -> (forall o, In o (c_ops c) -> st_of w' o = st_of w o) -> killable w c -> killable w' c.
Proof.
  intros M F (Hc & Hr & o & Ho & Hi & Hl & Hs). split; [exact Hc|]. split; [exact Hr|]. exists o.
  assert (E : st_of w' o = st_of w o) by (apply F; rewrite Ho; left; reflexivity).
  split; [exact Ho|]. split; [exact Hi|]. split; [destruct M as [L _]; rewrite L; exact Hl|].
  rewrite E. exact Hs.
Qed.

Lemma after_stable w w' c :
  mono_w w w' -> (forall o, In o (c_ops c) -> st_of w' o = st_of w o) -> after w c -> after w' c.
Proof.
  intros M F [H|[K R]]; [left; exact H|right]. split; [eapply killable_stable; eauto|].
  intros Q. eapply runnable_stable; eauto.
Qed.

Lemma settled_stable w w' c :
  mono_w w w' -> (forall o, In o (c_ops c) -> st_of w' o = st_of w o) -> settled w c -> settled w' c.
Proof. intros M F [H|H]; [left; exact H|right; eapply runnable_stable; eauto]. Qed.

(* ---- one container tick ---- *)
Definition ctick_tail (w1 : world) (cons : Q) (c : container) (o : nat) (m : Q) (rest' : list Q)
  : res (world * Q * container) :=
  let '(c1, cons1) := set_mem C c cons m in
  if Qltb (c_ram c) m then
    Ok (w1, cons1, tick_elapsed (with_pos c1 (c_opidx c) (Some (m :: rest')) true (c_can_suspend c)))
  else
    match rest' with
    | _ :: _ => Ok (w1, cons1, tick_elapsed (with_pos c1 (c_opidx c) (Some rest') false false))
    | [] =>
        do w2 <- transition (cf_static C) w1 o Completed;
        let idx' := S (c_opidx c) in
        if Nat.eqb idx' (length (c_ops c)) then
          let '(c2, cons2) := mark_completed C (with_pos c1 idx' None false false) cons1 false in
          Ok (w2, cons2, tick_elapsed c2)
        else Ok (w2, cons1, tick_elapsed (with_pos c1 idx' None false true))
    end.

Lemma ctick_tail_ok w1 cons c o m rest' :
  c_completed c = false -> Qltb (c_ram c) 0%Q = false -> c_ops c = [o] -> c_opidx c = 0 ->
  o < length (w_st w1) -> st_of w1 o = Running -> parents_complete St w1 o = true ->
  exists w' cons' c', ctick_tail w1 cons c o m rest' = Ok (w', cons', c') /\ after w' c'.
Proof.
  intros Hc Hr Ho Hi Hl Hs Hp. unfold ctick_tail, set_mem.
  destruct (Qltb (c_ram c) m) eqn:Q.
  - eexists _, _, _. split; [reflexivity|]. right. split.
    + split; [exact Hc|]. split; [exact Hr|]. exists o. cproj. auto.
    + cproj. intros X. congruence.
  - destruct rest' as [|m' r''].
    + assert (T : transition (cf_static C) w1 o Completed = Ok (world_after (cf_static C) w1 o Completed)).
      { apply transition_ok. rewrite Hs. split; [reflexivity|]. split; [discriminate|reflexivity]. }
      rewrite T. cbn [bind]. cbv zeta. rewrite Hi, Ho. cbn [length Nat.eqb].
      unfold mark_completed, set_mem. cproj.
      eexists _, _, _. split; [reflexivity|]. left. split; [reflexivity|]. cproj. exact Hr.
    + eexists _, _, _. split; [reflexivity|]. right. split.
      * split; [exact Hc|]. split; [exact Hr|]. exists o. cproj. auto.
      * intros _. split; [exact Hc|]. split; [reflexivity|]. split; [exact Hr|]. exists o. cproj.
        repeat split; auto. discriminate.
Qed.

Lemma ctick_runnable w cons c :
  runnable w c -> exists w' cons' c', ctick C w cons c = Ok (w', cons', c') /\ after w' c'.
Proof.
  intros (Hc & Hf & Hr & o & Ho & Hi & Hl & Hp & Hs). unfold ctick. rewrite Hc, Hf.
  assert (N : nth_error (c_ops c) (c_opidx c) = Some o) by (rewrite Ho, Hi; reflexivity).
  rewrite N. destruct (c_rest c) as [r|] eqn:Hrest.
  - destruct Hs as [Hs Hne]. cbn [bind]. destruct r as [|m rest']; [congruence|].
    apply (ctick_tail_ok w cons c o m rest'); assumption.
  - assert (T : transition (cf_static C) w o Running = Ok (world_after (cf_static C) w o Running)).
    { apply transition_ok. rewrite Hs. split; [reflexivity|]. split; [intros _; exact Hp|reflexivity]. }
    rewrite T. cbn [bind]. pose proof (transition_mono _ _ _ _ T) as M.
    destruct (cf_script C o (c_cpu c)) as [|m rest'] eqn:Sc; [exfalso; eapply Hscript; eauto|].
    apply (ctick_tail_ok _ cons c o m rest'); try assumption.
    + destruct M as [L _]. rewrite L. exact Hl.
    + apply (transition_st_same _ _ _ _ _ T Hl).
    + eapply parents_complete_mono; eauto.
Qed.

Lemma ckill_killable w cons c :
  killable w c -> exists w' cons' c', ckill C w cons c = Ok (w', cons', c') /\ finished c'.
Proof.
  intros (Hc & Hr & o & Ho & Hi & Hl & Hs). unfold ckill. rewrite Hc, Hi, Ho. cbn [skipn transition_all].
  assert (T : transition (cf_static C) w o Failed = Ok (world_after (cf_static C) w o Failed)).
  { apply transition_ok. split; [destruct Hs as [-> | ->]; reflexivity|]. split; [discriminate|reflexivity]. }
  rewrite T. cbn [bind]. unfold mark_completed, set_mem.
  eexists _, _, _. split; [reflexivity|]. split; [reflexivity|]. cproj. exact Hr.
Qed.

(* ---- ownership and range of such containers ---- *)
Lemma own_killable w c : killable w c -> own c = c_ops c.
Proof. intros (Hc & _ & o & Ho & Hi & _). unfold own. rewrite Hc, Hi. reflexivity. Qed.

Lemma own_finished c : finished c -> own c = [].
Proof. intros [Hc _]. unfold own. rewrite Hc. reflexivity. Qed.

Lemma after_stable_own w w' c :
  mono_w w w' -> (forall o, In o (own c) -> st_of w' o = st_of w o) -> after w c -> after w' c.
Proof.
  intros M F A. pose proof A as A0. destruct A as [H|[K R]]; [left; exact H|].
  eapply after_stable; eauto. rewrite <- (own_killable _ _ K). exact F.
Qed.

Lemma settled_stable_own w w' c :
  mono_w w w' -> (forall o, In o (own c) -> st_of w' o = st_of w o) -> settled w c -> settled w' c.
Proof.
  intros M F A. pose proof A as A0. destruct A as [H|R]; [left; exact H|].
  eapply settled_stable; eauto. rewrite <- (own_killable _ _ (runnable_killable _ _ R)). exact F.
Qed.

Lemma Step_frame w O w' O' : Step w O w' O' -> forall o, ~ In o O -> st_of w' o = st_of w o.
Proof. intros (_ & F & _). exact F. Qed.

Lemma NoDup_app_disj (l1 l2 : list nat) x : NoDup (l1 ++ l2) -> In x l1 -> ~ In x l2.
Proof. intros N H1 H2. apply ConserveFacts.NoDup_app_inv in N. destruct N as (_ & _ & D). eapply D; eauto. Qed.

Lemma NoDup_app_l (l1 l2 : list nat) : NoDup (l1 ++ l2) -> NoDup l1.
Proof. intros N. apply ConserveFacts.NoDup_app_inv in N. tauto. Qed.
Lemma NoDup_app_r (l1 l2 : list nat) : NoDup (l1 ++ l2) -> NoDup l2.
Proof. intros N. apply ConserveFacts.NoDup_app_inv in N. tauto. Qed.

Lemma own_in_owns c l o : In c l -> In o (own c) -> In o (owns l).
Proof. intros Hc Ho. unfold owns. apply in_flat_map. exists c. auto. Qed.

(* ---- phase 4 ---- *)
Lemma tick_active_total : forall act w cons,
  wlen St w -> conts_in_range St act -> NoDup (owns act) -> Forall (runnable w) act ->
  exists w' cons' act', tick_active C w cons act = Ok (w', cons', act') /\ Forall (after w') act'.
Proof.
  induction act as [|c t IH]; intros w cons L R N F; cbn [tick_active].
  - eexists _, _, _. split; [reflexivity|constructor].
  - inversion F as [|? ? Fc Ft]; subst. inversion R as [|? ? Rc Rt]; subst. rewrite owns_cons in N.
    destruct (ctick_runnable w cons c Fc) as (w1 & cons1 & c1 & E1 & A1).
    destruct (ctick_steps_in _ _ _ _ _ _ _ E1 Rc L) as [S1 O1].
    pose proof (steps_in_mono _ _ S1) as M1. pose proof (steps_in_wlen _ _ _ S1 L) as L1.
    pose proof (Step_frame _ _ _ _ (ctick_own _ _ _ _ _ _ _ E1)) as F1.
    assert (Ft1 : Forall (runnable w1) t).
    { rewrite Forall_forall in *. intros x Hx. eapply runnable_stable; [exact M1| |apply Ft, Hx].
      intros o Ho. apply F1. intros Hin.
      rewrite <- (own_killable _ _ (runnable_killable _ _ (Ft x Hx))) in Ho.
      eapply NoDup_app_disj; [exact N|exact Hin|]. eapply own_in_owns; eauto. }
    destruct (IH w1 cons1 L1 Rt (NoDup_app_r _ _ N) Ft1) as (w2 & cons2 & t2 & E2 & A2).
    rewrite E1. cbn [bind]. rewrite E2. cbn [bind]. eexists _, _, _. split; [reflexivity|].
    constructor; [|exact A2].
    destruct (tick_active_steps_in _ _ _ _ _ _ _ E2 Rt L1) as [S2 _].
    pose proof (Step_frame _ _ _ _ (tick_active_own _ _ _ _ _ _ _ E2)) as F2.
    eapply after_stable_own; [apply steps_in_mono; exact S2| |exact A1].
    intros o Ho. apply F2. intros Hin.
    assert (Ho' : In o (own c)).
    { destruct (ctick_own _ _ _ _ _ _ _ E1) as (Ms & _). eapply msub_In; eauto. }
    eapply NoDup_app_disj; eauto.
Qed.

(* ---- phase 5, step 1 ---- *)
Lemma kill_over_limit_total : forall act w cons,
  wlen St w -> conts_in_range St act -> NoDup (owns act) -> Forall (after w) act ->
  exists w' cons' act', kill_over_limit C w cons act = Ok (w', cons', act') /\ Forall (settled w') act'.
Proof.
  induction act as [|c t IH]; intros w cons L R N F; cbn [kill_over_limit].
  - eexists _, _, _. split; [reflexivity|constructor].
  - inversion F as [|? ? Fc Ft]; subst. inversion R as [|? ? Rc Rt]; subst. rewrite owns_cons in N.
    assert (X : exists w1 cons1 c1,
               (if Qltb (c_ram c) (c_mem c) then ckill C w cons c else Ok (w, cons, c)) = Ok (w1, cons1, c1) /\
               settled w1 c1 /\ mono_w w w1 /\ wlen St w1 /\
               (forall o, ~ In o (own c) -> st_of w1 o = st_of w o) /\ msub (own c1) (own c)).
    { destruct (Qltb (c_ram c) (c_mem c)) eqn:Q.
      - destruct Fc as [[_ Fq]|[K _]]; [congruence|].
        destruct (ckill_killable w cons c K) as (w1 & cons1 & c1 & E1 & Fin).
        destruct (ckill_steps_in _ _ _ _ _ _ _ E1 Rc L) as [S1 _].
        destruct (ckill_own _ _ _ _ _ _ _ E1) as [St1 Ow].
        exists w1, cons1, c1. split; [exact E1|]. split; [left; exact Fin|].
        split; [apply steps_in_mono; exact S1|]. split; [eapply steps_in_wlen; eauto|].
        split; [apply (Step_frame _ _ _ _ St1)|]. rewrite Ow. apply msub_nil.
      - exists w, cons, c. split; [reflexivity|]. split.
        + destruct Fc as [Fin|[_ Rn]]; [left; exact Fin|right; apply Rn; exact Q].
        + split; [apply mono_w_refl|]. split; [exact L|]. split; [reflexivity|apply msub_refl]. }
    destruct X as (w1 & cons1 & c1 & E1 & A1 & M1 & L1 & F1 & Ms1).
    assert (Ft1 : Forall (after w1) t).
    { rewrite Forall_forall in *. intros x Hx. eapply after_stable_own; [exact M1| |apply Ft, Hx].
      intros o Ho. apply F1. intros Hin. eapply NoDup_app_disj; [exact N|exact Hin|].
      eapply own_in_owns; eauto. }
    destruct (IH w1 cons1 L1 Rt (NoDup_app_r _ _ N) Ft1) as (w2 & cons2 & t2 & E2 & A2).
    rewrite E1. cbn [bind]. rewrite E2. cbn [bind]. eexists _, _, _. split; [reflexivity|].
    constructor; [|exact A2].
    destruct (kill_over_limit_steps_in _ _ _ _ _ _ _ E2 Rt L1) as [S2 _].
    pose proof (Step_frame _ _ _ _ (kill_over_limit_own _ _ _ _ _ _ _ E2)) as F2.
    eapply settled_stable_own; [apply steps_in_mono; exact S2| |exact A1].
    intros o Ho. apply F2. intros Hin.
    assert (Ho' : In o (own c)) by (eapply msub_In; eauto).
    eapply NoDup_app_disj; eauto.
Qed.

(* ---- phase 5, step 2 ---- *)
Lemma owns_kill_when_msub p : forall act, msub (owns (map (kill_when p) act)) (owns act).
Proof.
  induction act as [|c t IH]; [apply msub_refl|]. cbn [map]. rewrite !owns_cons.
  assert (msub (own (kill_when p c)) (own c)).
  { unfold kill_when. destruct (p c); [|apply msub_refl]. unfold own. cproj. apply msub_nil. }
  msub_tac.
Qed.

Lemma kill_when_ops p act : map c_ops (map (kill_when p) act) = map c_ops act.
Proof.
  rewrite map_map. apply map_ext. intros c. unfold kill_when. destruct (p c); reflexivity.
Qed.

Lemma owns_disjoint : forall act x y o,
  NoDup (owns act) -> In x act -> In y act -> x <> y -> In o (own x) -> ~ In o (own y).
Proof.
  induction act as [|c t IH]; intros x y o N Hx Hy Ne Ho Ho'; [destruct Hx|].
  rewrite owns_cons in N. destruct Hx as [<-|Hx], Hy as [<-|Hy].
  - congruence.
  - eapply NoDup_app_disj; [exact N|exact Ho|]. eapply own_in_owns; eauto.
  - eapply NoDup_app_disj; [exact N|exact Ho'|]. eapply own_in_owns; eauto.
  - eapply (IH x y o); eauto. eapply NoDup_app_r; eauto.
Qed.

Lemma kill_until_fits_total mx : forall order act w cons,
  wlen St w -> conts_in_range St act -> NoDup (owns act) -> NoDup (map c_id act) ->
  Forall (settled w) act -> NoDup order ->
  (forall cid, In cid order -> exists c, In c act /\ c_id c = cid /\ c_completed c = false) ->
  exists w' cons' act', kill_until_fits C mx w cons act order = Ok (w', cons', act') /\
                        Forall (settled w') act'.
Proof.
  induction order as [|cid t IH]; intros act w cons L R N Ni F No Hv; cbn [kill_until_fits].
  - eexists _, _, _. split; [reflexivity|exact F].
  - destruct (Qleb cons mx); [eexists _, _, _; split; [reflexivity|exact F]|].
    destruct (Hv cid (or_introl eq_refl)) as (c & Hc & Hid & Hnc).
    assert (Fc : find_container cid act = Some c) by (rewrite <- Hid; apply find_container_in; assumption).
    rewrite Fc. rewrite Forall_forall in F.
    assert (Rn : runnable w c).
    { destruct (F c Hc) as [[X _]|X]; [congruence|exact X]. }
    pose proof (runnable_killable _ _ Rn) as K.
    destruct (ckill_killable w cons c K) as (w1 & cons1 & c1 & E1 & Fin).
    assert (Rc : ops_in_range St (c_ops c)).
    { unfold conts_in_range in R. rewrite Forall_forall in R. apply R, Hc. }
    destruct (ckill_steps_in _ _ _ _ _ _ _ E1 Rc L) as [S1 _].
    destruct (ckill_own _ _ _ _ _ _ _ E1) as [St1 _].
    pose proof (ckill_ok _ _ _ _ _ _ _ E1) as (_ & Ed & _ & _). subst c1.
    rewrite E1. cbn [bind]. rewrite (replace_container_spec cid c act Ni Fc).
    apply NoDup_cons_iff in No. destruct No as [Ncid Nt].
    apply IH.
    + eapply steps_in_wlen; eauto.
    + eapply conts_in_range_map; [|exact R]. apply kill_when_ops.
    + eapply msub_NoDup; [apply owns_kill_when_msub|exact N].
    + unfold kill_if. rewrite map_kill_when_ids. exact Ni.
    + apply Forall_forall. intros y Hy. apply in_map_iff in Hy. destruct Hy as [x [<- Hx]].
      destruct (Nat.eq_dec (c_id x) cid) as [E|Ne].
      * assert (x = c) by (eapply NoDup_ids_inj; eauto; congruence). subst x.
        rewrite kill_if_hit by (left; symmetry; exact E). left. exact Fin.
      * rewrite kill_if_miss by (intros [X|[]]; congruence).
        eapply settled_stable_own; [apply steps_in_mono; exact S1| |apply F, Hx].
        intros o Ho. apply (Step_frame _ _ _ _ St1).
        eapply owns_disjoint; eauto. intros ->. congruence.
    + exact Nt.
    + intros cid' Hcid'. destruct (Hv cid' (or_intror Hcid')) as (c' & Hc' & Hid' & Hnc').
      exists c'. split; [|auto]. apply in_map_iff. exists c'. split; [|exact Hc'].
      apply kill_if_miss. intros [X|[]]. apply Ncid. congruence.
Qed.

Lemma oom_killer_total mx w cons act :
  wlen St w -> conts_in_range St act -> NoDup (owns act) -> NoDup (map c_id act) ->
  Forall (after w) act ->
  exists w' cons' act', oom_killer C mx w cons act = Ok (w', cons', act') /\ Forall (settled w') act'.
Proof.
  intros L R N Ni F. unfold oom_killer.
  destruct (kill_over_limit_total act w cons L R N F) as (w1 & cons1 & act1 & E1 & A1).
  rewrite E1. cbn [bind]. destruct (Qleb cons1 mx); [eexists _, _, _; split; [reflexivity|exact A1]|].
  destruct (kill_over_limit_steps_in _ _ _ _ _ _ _ E1 R L) as [S1 O1].
  destruct (kill_over_limit_own _ _ _ _ _ _ _ E1) as (Ms & _).
  pose proof (kill_over_limit_spec _ _ _ _ _ _ _ E1) as (Ea & _ & _).
  apply kill_until_fits_total.
  - eapply steps_in_wlen; eauto.
  - eapply conts_in_range_map; eauto.
  - eapply msub_NoDup; eauto.
  - rewrite Ea, map_kill_when_ids. exact Ni.
  - exact A1.
  - apply victims_order_NoDup. rewrite Ea, map_kill_when_ids. exact Ni.
  - intros cid Hcid. apply victims_order_not_completed in Hcid.
    destruct Hcid as (c & H1 & H2 & H3 & _). exists c. auto.
Qed.

(* ---- one pool ---- *)
Lemma bind_ok {A B} (r : res A) (f : A -> res B) a b : r = Ok a -> f a = Ok b -> bind r f = Ok b.
Proof. intros -> H. exact H. Qed.

Fixpoint news (next : nat) (asgs : list asg) : list container :=
  match asgs with
  | [] => []
  | a :: t => new_container next (a_ops a) (a_cpu a) (a_ram a) (a_prio a) :: news (S next) t
  end.

Lemma apply_assignments_ok : forall asgs next acpu aram act,
  (forall a, In a asgs -> opcount_ok C a = true) ->
  exists acpu' aram',
    apply_assignments C next acpu aram act asgs = Ok (next + length asgs, acpu', aram', act ++ news next asgs).
Proof.
  induction asgs as [|a t IH]; intros next acpu aram act O; cbn [apply_assignments news length].
  - eexists _, _. rewrite Nat.add_0_r, app_nil_r. reflexivity.
  - rewrite (O a (or_introl eq_refl)).
    destruct (IH (S next) (acpu - a_cpu a)%Z (aram - a_ram a)%Q
                 (act ++ [new_container next (a_ops a) (a_cpu a) (a_ram a) (a_prio a)])) as (x & y & E).
    { intros a' Ha'. apply O. right. exact Ha'. }
    rewrite E. eexists _, _. rewrite <- app_assoc. cbn [app].
    replace (S next + length t) with (next + S (length t)) by lia. reflexivity.
Qed.

Lemma news_ids : forall asgs next, map c_id (news next asgs) = seq next (length asgs).
Proof. induction asgs as [|a t IH]; intros next; [reflexivity|]. cbn [news map length seq]. rewrite IH. reflexivity. Qed.
Lemma news_owns : forall asgs next, owns (news next asgs) = aops asgs.
Proof.
  induction asgs as [|a t IH]; intros next; [reflexivity|]. cbn [news]. rewrite owns_cons, IH. reflexivity.
Qed.

Definition asg_ready (w : world) (a : asg) : Prop :=
  Qleb (a_ram a) 0%Q = false /\
  exists o, a_ops a = [o] /\ o < length (w_st w) /\ st_of w o = Assigned /\ parents_complete St w o = true.

Lemma Qleb_Qltb_0 a : Qleb a 0%Q = false -> Qltb a 0%Q = false.
Proof.
  unfold Qleb, Qltb. intros H. apply Qle_bool_false in H.
  assert (X : Qle_bool 0 a = true) by (apply Qle_bool_iff, Qlt_le_weak, H). rewrite X. reflexivity.
Qed.

Lemma news_runnable w : forall asgs next, Forall (asg_ready w) asgs -> Forall (runnable w) (news next asgs).
Proof.
  induction asgs as [|a t IH]; intros next F; [constructor|]. inversion F as [|? ? Fa Ft]; subst.
  cbn [news]. constructor; [|apply IH; exact Ft].
  destruct Fa as (Hr & o & Ho & Hl & Hs & Hp). unfold runnable, new_container. cproj.
  split; [reflexivity|]. split; [reflexivity|]. split; [apply Qleb_Qltb_0; exact Hr|].
  exists o. auto.
Qed.

Lemma runnable_in_range w c : wlen St w -> runnable w c -> ops_in_range St (c_ops c).
Proof.
  intros L (_ & _ & _ & o & Ho & _ & Hl & _). rewrite Ho. constructor; [|constructor].
  unfold wlen in L. rewrite <- L. exact Hl.
Qed.

Definition pool_inv (w : world) (next : nat) (p : pool) : Prop :=
  p_suspending p = [] /\ Forall (runnable w) (p_active p) /\ ids_ok next p.

Lemma pool_inv_live w next p : pool_inv w next p -> pool_live p.
Proof.
  intros (Hs & Fa & _). split; [|rewrite Hs; constructor].
  eapply Forall_impl; [|exact Fa]. intros c (Hc & _). exact Hc.
Qed.

Lemma pool_inv_ok w next p : wlen St w -> pool_inv w next p -> pool_ok St p.
Proof.
  intros L (Hs & Fa & _). split; [|rewrite Hs; constructor].
  eapply Forall_impl; [|exact Fa]. intros c. apply runnable_in_range. exact L.
Qed.

Lemma pool_tick_total w next p asgs :
  wlen St w -> pool_inv w next p -> Forall (asg_ready w) asgs ->
  NoDup (pown p ++ aops asgs) ->
  (asgs = [] \/ verify_assignments C p asgs = Ok tt) ->
  (forall a, In a asgs -> opcount_ok C a = true) ->
  exists w' next' p' res,
    pool_tick C w next p [] asgs = Ok (w', next', p', res) /\ pool_inv w' next' p'.
Proof.
  intros L (Hs & Fa & Hi) Fr N V O.
  set (act2 := p_active p ++ news next asgs).
  destruct (apply_assignments_ok asgs next (p_avail_cpu p) (p_avail_ram p) (p_active p) O)
    as (acpu2 & aram2 & Ea).
  assert (E2 : exists next2 acpu2' aram2',
             match asgs with
             | [] => Ok (next, p_avail_cpu p, p_avail_ram p, p_active p)
             | _ => do _ <- verify_assignments C p asgs;
                    apply_assignments C next (p_avail_cpu p) (p_avail_ram p) (p_active p) asgs
             end = Ok (next2, acpu2', aram2', act2)).
  { destruct asgs as [|a0 t].
    - unfold act2. cbn [news]. rewrite app_nil_r. eauto.
    - destruct V as [V|V]; [discriminate|]. rewrite V. cbn [bind]. rewrite Ea. eauto. }
  destruct E2 as (next2 & acpu2' & aram2' & E2).
  assert (F2 : Forall (runnable w) act2).
  { unfold act2. apply Forall_app. split; [exact Fa|apply news_runnable; exact Fr]. }
  assert (R2 : conts_in_range St act2).
  { eapply Forall_impl; [|exact F2]. intros c. apply runnable_in_range. exact L. }
  assert (N2 : NoDup (owns act2)).
  { unfold act2. rewrite owns_app, news_owns. unfold pown in N. rewrite Hs in N. cbn [owns flat_map] in N.
    rewrite app_nil_r in N. exact N. }
  assert (I2 : NoDup (map c_id act2)).
  { unfold act2. rewrite map_app, news_ids. destruct Hi as [Nl Bl]. unfold live in Nl, Bl.
    rewrite Hs, app_nil_r in Nl, Bl. apply ConserveFacts.NoDup_app_intro; [exact Nl|apply seq_NoDup|].
    intros x Hx Hq. apply in_seq in Hq. apply in_map_iff in Hx. destruct Hx as [c [<- Hc]].
    specialize (Bl c Hc). lia. }
  destruct (tick_active_total act2 w (p_consumed p) L R2 N2 F2) as (w4 & cons4 & act4 & E4 & A4).
  destruct (tick_active_steps_in _ _ _ _ _ _ _ E4 R2 L) as [S4 O4].
  pose proof (steps_in_wlen _ _ _ S4 L) as L4.
  assert (R4 : conts_in_range St act4) by (eapply conts_in_range_map; eauto).
  assert (N4 : NoDup (owns act4)).
  { destruct (tick_active_own _ _ _ _ _ _ _ E4) as (Ms & _). eapply msub_NoDup; eauto. }
  assert (I4 : NoDup (map c_id act4)).
  { rewrite ids_keys, (tick_active_keys _ _ _ _ _ _ _ E4), <- ids_keys. exact I2. }
  destruct (oom_killer_total (p_max_ram p) w4 cons4 act4 L4 R4 N4 I4 A4) as (w5 & cons5 & act5 & E5 & A5).
  assert (E : exists p' res,
            pool_tick C w next p [] asgs = Ok (w5, next2, p', res) /\
            p_suspending p' = [] /\ p_active p' = filter (fun c => negb (c_completed c)) act5).
  { eexists _, _. split.
    - unfold pool_tick. eapply bind_ok; [reflexivity|]. cbv beta iota.
      eapply bind_ok; [exact E2|]. cbv beta iota.
      eapply bind_ok; [rewrite Hs; reflexivity|]. cbv beta iota zeta.
      eapply bind_ok; [exact E4|]. cbv beta iota.
      eapply bind_ok; [exact E5|]. cbv beta iota. reflexivity.
    - cbn [upd_pool p_suspending p_active filter]. split; reflexivity. }
  destruct E as (p' & res & E & Hs' & Ha').
  exists w5, next2, p', res. split; [exact E|]. split; [exact Hs'|]. split.
  - rewrite Ha'. apply Forall_forall. intros x Hx. apply filter_In in Hx. destruct Hx as [Hx Hc].
    rewrite Forall_forall in A5. destruct (A5 x Hx) as [[X _]|X]; [rewrite X in Hc; discriminate|exact X].
  - apply (pool_tick_ids _ _ _ _ _ _ _ _ _ _ E Hi).
Qed.

(* ---- all pools ---- *)
Definition rel (asgs : list asg) (ps : list pool) : list asg := flat_map (fun q => mine_of q asgs) ps.

Lemma aops_app l1 l2 : aops (l1 ++ l2) = aops l1 ++ aops l2.
Proof. unfold aops. apply flat_map_app. Qed.

Lemma asg_ready_stable w w' a :
  mono_w w w' -> (forall o, In o (a_ops a) -> st_of w' o = st_of w o) -> asg_ready w a -> asg_ready w' a.
Proof.
  intros M F (Hr & o & Ho & Hl & Hs & Hp). split; [exact Hr|]. exists o.
  assert (E : st_of w' o = st_of w o) by (apply F; rewrite Ho; left; reflexivity).
  split; [exact Ho|]. split; [destruct M as [Lm _]; rewrite Lm; exact Hl|].
  split; [rewrite E; exact Hs|eapply parents_complete_mono; eauto].
Qed.

Lemma asg_ready_range w a : wlen St w -> asg_ready w a -> ops_in_range St (a_ops a).
Proof.
  intros L (_ & o & Ho & Hl & _). rewrite Ho. constructor; [|constructor]. unfold wlen in L. rewrite <- L. exact Hl.
Qed.

Lemma pool_inv_stable w next w' next' q :
  mono_w w w' -> next <= next' -> (forall o, In o (pown q) -> st_of w' o = st_of w o) ->
  pool_inv w next q -> pool_inv w' next' q.
Proof.
  intros M Ln F (Hs & Fa & Hi). split; [exact Hs|]. split; [|eapply ids_ok_mono; eauto].
  rewrite Forall_forall in *. intros c Hc. eapply runnable_stable; [exact M| |apply Fa, Hc].
  intros o Ho. apply F. unfold pown. apply in_or_app. left.
  rewrite <- (own_killable _ _ (runnable_killable _ _ (Fa c Hc))) in Ho. eapply own_in_owns; eauto.
Qed.

Lemma in_step_source asgs : forall t o,
  In o (flat_map (fun q => pown q ++ aops (mine q asgs)) t) -> In o (flat_map pown t ++ aops (rel asgs t)).
Proof.
  induction t as [|q t IH]; intros o H; [destruct H|]. cbn [flat_map] in H. unfold rel. cbn [flat_map].
  rewrite aops_app. apply in_app_or in H. destruct H as [H|H].
  - apply in_app_or in H. destruct H as [H|H].
    + apply in_or_app. left. apply in_or_app. left. exact H.
    + apply in_or_app. right. apply in_or_app. left. exact H.
  - specialize (IH o H). apply in_app_or in IH. destruct IH as [X|X].
    + apply in_or_app. left. apply in_or_app. right. exact X.
    + apply in_or_app. right. apply in_or_app. right. exact X.
Qed.

Lemma pools_tick_total asgs : forall ps w next,
  wlen St w -> Forall (pool_inv w next) ps ->
  Forall (asg_ready w) (rel asgs ps) ->
  (forall a, In a asgs -> ops_in_range St (a_ops a)) ->
  NoDup (flat_map pown ps ++ aops (rel asgs ps)) ->
  (forall p, In p ps -> mine_of p asgs = [] \/ verify_assignments C p (mine_of p asgs) = Ok tt) ->
  (forall a, In a asgs -> opcount_ok C a = true) ->
  exists w' next' ps' res,
    pools_tick C w next ps [] asgs = Ok (w', next', ps', res) /\
    Forall (pool_inv w' next') ps' /\ next <= next'.
Proof.
  induction ps as [|p t IH]; intros w next L F Fr RA N V O.
  - cbn [pools_tick]. eexists _, _, _, _. split; [reflexivity|]. split; [constructor|lia].
  - inversion F as [|? ? Fp Ft]; subst. unfold rel in Fr, N. cbn [flat_map] in Fr, N. fold (rel asgs t) in Fr, N.
    apply Forall_app in Fr. destruct Fr as [Frp Frt]. rewrite aops_app in N.
    assert (N' : NoDup ((pown p ++ aops (mine_of p asgs)) ++ (flat_map pown t ++ aops (rel asgs t)))).
    { eapply Permutation_NoDup; [|exact N]. rewrite <- !app_assoc. apply Permutation_app_head.
      rewrite !app_assoc. apply Permutation_app_tail. apply Permutation_app_comm. }
    destruct (pool_tick_total w next p (mine_of p asgs) L Fp Frp (NoDup_app_l _ _ N')
                (V p (or_introl eq_refl))) as (w1 & next1 & p1 & res1 & E1 & PI1).
    { intros a Ha. apply filter_In in Ha. apply O. tauto. }
    destruct (pool_tick_own _ _ _ _ _ _ _ _ _ _ E1 (pool_inv_live _ _ _ Fp)) as [St1 [Lv1 _]].
    assert (RAp : forall a, In a (mine_of p asgs) -> ops_in_range St (a_ops a)).
    { intros a Ha. apply filter_In in Ha. apply RA. tauto. }
    destruct (pool_tick_steps_in _ _ _ _ _ _ _ _ _ _ E1 L (pool_inv_ok _ _ _ L Fp) RAp) as [S1 Ok1].
    pose proof (steps_in_mono _ _ S1) as M1. pose proof (steps_in_wlen _ _ _ S1 L) as L1.
    destruct Fp as (Hsp & Fap & Hip).
    destruct (pool_tick_ids _ _ _ _ _ _ _ _ _ _ E1 Hip) as (_ & Hn1 & _).
    assert (Ln1 : next <= next1) by lia.
    assert (F1 : forall o, In o (flat_map pown t ++ aops (rel asgs t)) -> st_of w1 o = st_of w o).
    { intros o Ho. apply (Step_frame _ _ _ _ St1). intros Hin. eapply NoDup_app_disj; eauto. }
    assert (Ft1 : Forall (pool_inv w1 next1) t).
    { rewrite Forall_forall in *. intros q Hq. eapply pool_inv_stable; [exact M1|exact Ln1| |apply Ft, Hq].
      intros o Ho. apply F1. apply in_or_app. left. apply in_flat_map. exists q. auto. }
    assert (Frt1 : Forall (asg_ready w1) (rel asgs t)).
    { rewrite Forall_forall in *. intros a Ha. eapply asg_ready_stable; [exact M1| |apply Frt, Ha].
      intros o Ho. apply F1. apply in_or_app. right. unfold aops. apply in_flat_map. exists a. auto. }
    destruct (IH w1 next1 L1 Ft1 Frt1 RA (NoDup_app_r _ _ N')) as (w2 & next2 & t2 & res2 & E2 & PI2 & Ln2).
    { intros q Hq. apply V. right. exact Hq. }
    { exact O. }
    cbn [pools_tick]. cbv zeta. cbn [filter]. unfold mine_of in E1. rewrite E1. cbn [bind].
    rewrite E2. cbn [bind]. eexists _, _, _, _. split; [reflexivity|]. split; [|lia].
    constructor; [|exact PI2].
    assert (Lt1 : Forall pool_live t).
    { eapply Forall_impl; [|exact Ft1]. intros q. apply pool_inv_live. }
    destruct (pools_tick_own _ _ _ _ _ _ _ _ _ _ E2 Lt1) as [St2 _].
    assert (Okt1 : Forall (pool_ok St) t).
    { eapply Forall_impl; [|exact Ft1]. intros q. apply pool_inv_ok. exact L1. }
    destruct (pools_tick_steps_in _ _ _ _ _ _ _ _ _ _ E2 L1 Okt1 RA) as [S2 _].
    eapply pool_inv_stable; [apply steps_in_mono; exact S2|exact Ln2| |exact PI1].
    intros o Ho. apply (Step_frame _ _ _ _ St2). intros Hin. apply in_step_source in Hin.
    destruct St1 as (Ms1 & _). eapply NoDup_app_disj; [exact N'| |exact Hin].
    eapply msub_In; eauto.
Qed.

(* ---- the scheduler phase in single-operator mode ---- *)
Hypothesis Horders : orders_nodup St.
Hypothesis Hrange : forall k o, In o (pd_order (pipe_of St k)) -> o < length (s_ops St).

Lemma naive_scan_single_inv pid acpu aram : forall queue w q' rq w' oa,
  naive_scan C true w pid acpu aram queue = Ok (q', rq, w', oa) ->
  match oa with
  | None => w' = w
  | Some a =>
      exists o k, a_ops a = [o] /\ In o (pd_order (pipe_of St k)) /\ assignable (st_of w o) = true /\
        parents_complete St w o = true /\ a_ram a = aram /\ mk_assignment C w a = Ok w'
  end.
Proof.
  induction queue as [|p rest IH]; intros w q' rq w' oa H; cbn [naive_scan] in H.
  - inversion H; subst. reflexivity.
  - destruct (is_successful (S_of C) w p || has_failures w p); [eapply IH; eauto|].
    cbv iota in H.
    destruct (get_ops (S_of C) w p assignable true) as [|o l] eqn:G; cbn [firstn] in H.
    + inv_bind H r E. destruct r as [[[q1 rq1] w1] a1]. inversion H; subst. eapply IH; eauto.
    + inv_bind H w1 E. inversion H; subst. exists o, p. cbn [a_ops a_ram].
      assert (Hin : In o (get_ops (S_of C) w p assignable true)) by (rewrite G; left; reflexivity).
      unfold get_ops in Hin. apply filter_In in Hin. destruct Hin as [Hin Hb].
      apply andb_true_iff in Hb. destruct Hb as [Hb1 Hb2]. cbn [negb orb] in Hb2.
      repeat split; auto.
Qed.

Inductive spicks : world -> list pool -> list asg -> world -> Prop :=
| sp_nil w : spicks w [] [] w
| sp_skip w p ps l w' : spicks w ps l w' -> spicks w (p :: ps) l w'
| sp_take w p ps a l w1 w' o k :
    a_ops a = [o] -> In o (pd_order (pipe_of St k)) -> assignable (st_of w o) = true ->
    parents_complete St w o = true -> Qleb (a_ram a) 0%Q = false ->
    mk_assignment C w a = Ok w1 -> spicks w1 ps l w' -> spicks w (p :: ps) (a :: l) w'.

Lemma spicks_none : forall ps w, spicks w ps [] w.
Proof. induction ps as [|p t IH]; intros w; [constructor|apply sp_skip, IH]. Qed.

Lemma naive_pools_spicks : forall ps w queue requeue acc q' rq' w' asgs,
  naive_pools C true w ps queue requeue acc = Ok (q', rq', w', asgs) ->
  exists news, asgs = acc ++ news /\ spicks w ps news w'.
Proof.
  induction ps as [|p t IH]; intros w queue requeue acc q' rq' w' asgs H; cbn [naive_pools] in H.
  - inversion H; subst. exists []. rewrite app_nil_r. split; [reflexivity|constructor].
  - destruct ((p_avail_cpu p <=? 0)%Z || Qleb (p_avail_ram p) 0%Q) eqn:Sk.
    + destruct (IH _ _ _ _ _ _ _ _ H) as (news & E & P). exists news. split; [exact E|apply sp_skip, P].
    + apply orb_false_iff in Sk. destruct Sk as [_ Hr].
      inv_bind H r E. destruct r as [[[q1 rq1] w1] oa].
      apply naive_scan_single_inv in E. destruct oa as [a|].
      * destruct E as (o & k & A1 & A2 & A3 & A4 & A5 & A6).
        destruct (IH _ _ _ _ _ _ _ _ H) as (news & En & P). exists (a :: news).
        split; [rewrite En, <- app_assoc; reflexivity|].
        eapply sp_take; eauto. rewrite A5. exact Hr.
      * subst w1. destruct (IH _ _ _ _ _ _ _ _ H) as (news & En & P). exists news.
        split; [exact En|apply sp_skip, P].
Qed.

Lemma transition_all_assigned_frame x : forall ops w w1,
  transition_all St w ops Assigned = Ok w1 -> assignable (st_of w x) = false -> st_of w1 x = st_of w x.
Proof.
  induction ops as [|o t IH]; intros w w1 H A; cbn [transition_all] in H.
  - inversion H. reflexivity.
  - inv_bind H w0 E. pose proof E as E0. apply transition_ok in E0. destruct E0 as [V _].
    assert (Ne : x <> o) by (intros ->; unfold assignable in A; congruence).
    pose proof (transition_st_other _ _ _ _ _ _ E Ne) as F0.
    rewrite (IH _ _ H); [exact F0|]. rewrite F0. exact A.
Qed.

Lemma mk_assignment_frame w a w1 x :
  mk_assignment C w a = Ok w1 -> assignable (st_of w x) = false -> st_of w1 x = st_of w x.
Proof.
  unfold mk_assignment. intros H.
  destruct (Nat.eqb (length (a_ops a)) 0); [discriminate|].
  destruct (Z.leb (a_cpu a) 0); [discriminate|].
  destruct (Qleb (a_ram a) 0); [discriminate|].
  eapply transition_all_assigned_frame; eauto.
Qed.

Lemma spicks_facts : forall w ps l w', spicks w ps l w' -> wlen St w ->
  wlen St w' /\ mono_w w w' /\ mk_assignments C w l = Ok w' /\ Forall (asg_ready w') l /\
  (forall x, assignable (st_of w x) = false -> st_of w' x = st_of w x) /\
  (forall a, In a l -> ops_in_range St (a_ops a)).
Proof.
  induction 1 as [w|w p ps l w' P IH|w p ps a l w1 w' o k A1 A2 A3 A4 A5 A6 P IH]; intros L.
  - split; [exact L|]. split; [apply mono_w_refl|]. split; [reflexivity|]. split; [constructor|].
    split; [reflexivity|intros ? []].
  - apply IH, L.
  - assert (Ro : o < length (s_ops St)) by (eapply Hrange; eauto).
    assert (Ra : ops_in_range St (a_ops a)) by (rewrite A1; constructor; [exact Ro|constructor]).
    pose proof (mk_assignment_steps_in _ _ _ _ A6 Ra L) as S1.
    pose proof (steps_in_wlen _ _ _ S1 L) as L1. pose proof (steps_in_mono _ _ S1) as M1.
    destruct (IH L1) as (L' & M' & E' & F' & Fr' & R').
    split; [exact L'|]. split; [eapply mono_w_trans; eauto|]. split.
    { cbn [mk_assignments]. rewrite A6. cbn [bind]. exact E'. }
    split; [|split].
    + constructor; [|exact F']. split; [exact A5|]. exists o. split; [exact A1|].
      split; [unfold wlen in L'; rewrite L'; exact Ro|]. split.
      * assert (S1o : st_of w1 o = Assigned).
        { pose proof A6 as X. unfold mk_assignment in X.
          destruct (Nat.eqb (length (a_ops a)) 0); [discriminate|].
          destruct (Z.leb (a_cpu a) 0); [discriminate|].
          destruct (Qleb (a_ram a) 0); [discriminate|].
          rewrite A1 in X. cbn [transition_all] in X. inv_bind X w0 E0. inversion X; subst.
          apply (transition_st_same _ _ _ _ _ E0). unfold wlen in L. rewrite L. exact Ro. }
        rewrite (Fr' o); [exact S1o|]. rewrite S1o. reflexivity.
      * eapply parents_complete_mono; [|exact A4]. eapply mono_w_trans; eauto.
    + intros x Hx. pose proof (mk_assignment_frame _ _ _ x A6 Hx) as F1.
      rewrite (Fr' x); [exact F1|]. rewrite F1. exact Hx.
    + intros a' [<-|Ha']; [exact Ra|apply R', Ha'].
Qed.

(* ---- the invariant of the loop and one whole tick ---- *)
Definition loop_inv (np : nat) (e : estate) : Prop :=
  inv C e /\ own_inv e /\ Forall (pool_inv (e_world e) (e_next e)) (e_pools e) /\
  map p_id (e_pools e) = seq 0 np.

Lemma loop_inv_init np cpu ram : loop_inv np (init_estate C np cpu ram).
Proof.
  split; [apply inv_init|]. split; [apply own_inv_init|]. split.
  - unfold init_estate. cbn [e_pools e_world e_next]. apply Forall_forall. intros p Hp.
    apply in_map_iff in Hp. destruct Hp as [i [<- _]]. split; [reflexivity|]. split; [constructor|].
    split; [constructor|intros ? []].
  - unfold init_estate. cbn [e_pools]. rewrite map_map. cbn [new_pool p_id]. apply map_id.
Qed.

Lemma cnt_rel x asgs : forall ps,
  cnt x (flat_map pown ps ++ aops (rel asgs ps))
  = cnt x (flat_map (fun p => pown p ++ aops (mine p asgs)) ps).
Proof.
  induction ps as [|p t IH]; [reflexivity|]. unfold rel in *. cbn [flat_map].
  rewrite aops_app, !cnt_app in *. unfold mine_of, mine in *. lia.
Qed.

Lemma rel_incl asgs ps a : In a (rel asgs ps) -> In a asgs.
Proof.
  unfold rel. intros H. apply in_flat_map in H. destruct H as [q [_ H]]. apply filter_In in H. tauto.
Qed.

Section Tick.
Variable starter : bool.
Hypothesis Hsingle : (if starter then true else negb (cf_multi C)) = true.

Lemma naive_step_spicks s e results newp s' w' susps asgs :
  naive_step C starter s e results newp = Ok (s', w', susps, asgs) ->
  susps = [] /\ spicks (e_world e) (e_pools e) asgs w'.
Proof.
  unfold naive_step. cbv zeta. rewrite Hsingle. intros H.
  assert (G : forall X : res (list nat * list nat * world * list asg),
            (do r <- X; let '(q, rq, w'0, asgs0) := r in Ok (with_queue s (q ++ rq), w'0, [], asgs0))
              = Ok (s', w', susps, asgs) ->
            X = naive_pools C true (e_world e) (e_pools e) (ss_queue s ++ newp) [] [] ->
            susps = [] /\ spicks (e_world e) (e_pools e) asgs w').
  { intros X HX EX. subst X. inv_bind HX r E. destruct r as [[[q rq] w1] asgs1]. inversion HX; subst.
    apply naive_pools_spicks in E. destruct E as (news & -> & P). cbn [app]. split; [reflexivity|exact P]. }
  destruct newp as [|p0 newp']; [destruct results as [|r0 results']|].
  - inversion H; subst. split; [reflexivity|apply spicks_none].
  - eapply G; [exact H|reflexivity].
  - eapply G; [exact H|reflexivity].
Qed.

Lemma naive_tick_ok np s e results newp :
  loop_inv np e ->
  exists s' w' asgs e2 res,
    naive_step C starter s e results newp = Ok (s', w', [], asgs) /\
    exec_tick C {| e_world := w'; e_pools := e_pools e; e_next := e_next e |} [] asgs = Ok (e2, res) /\
    loop_inv np e2.
Proof.
  intros (Iv & Ow & Pi & Hseq). destruct Iv as [L Rg]. pose proof Ow as (Nid & Plv & [Ns Ab]).
  destruct (naive_step_total C starter s e results newp Horders) as (s' & w' & asgs & E & _).
  destruct (naive_step_spicks _ _ _ _ _ _ _ _ E) as [_ P].
  destruct (spicks_facts _ _ _ _ P L) as (L' & M' & Emk & Fr & Frame & Ra).
  destruct (naive_round_checks _ _ _ _ _ _ _ _ _ _ _ E Horders Hseq) as [_ (Ck1 & Ck2 & Ck3)].
  (* the pools in the world the scheduler leaves *)
  assert (Pi' : Forall (pool_inv w' (e_next e)) (e_pools e)).
  { rewrite Forall_forall in *. intros q Hq. eapply pool_inv_stable; [exact M'|apply le_n| |apply Pi, Hq].
    intros o Ho. apply Frame. assert (B : busy (st_of (e_world e) o)).
    { apply Ab. unfold sown. apply in_flat_map. exists q. auto. }
    apply busy_not_assignable in B. exact B. }
  assert (Frel : Forall (asg_ready w') (rel asgs (e_pools e))).
  { rewrite Forall_forall in *. intros a Ha. apply Fr. eapply rel_incl; eauto. }
  assert (Nrel : NoDup (flat_map pown (e_pools e) ++ aops (rel asgs (e_pools e)))).
  { destruct (mk_assignments_good _ _ _ _ _ Emk Ra L (conj Ns Ab)) as [Ng _].
    eapply msub_NoDup; [|exact Ng]. intros x. rewrite cnt_rel.
    apply (pending_msub (e_pools e) asgs Nid x). }
  destruct (pools_tick_total asgs (e_pools e) w' (e_next e) L' Pi' Frel Ra Nrel Ck2 Ck3)
    as (w2 & next2 & ps2 & res & Ept & Pi2 & _).
  set (e2 := {| e_world := w2; e_pools := ps2; e_next := next2 |}).
  assert (Eex : exec_tick C {| e_world := w'; e_pools := e_pools e; e_next := e_next e |} [] asgs
                = Ok (e2, res)).
  { unfold exec_tick. cbv zeta. cbn [e_pools e_world e_next forallb andb]. rewrite Ck1. cbn [negb].
    rewrite Ept. reflexivity. }
  assert (Est : exec_step C e [] asgs = Ok (e2, res)).
  { unfold exec_step. rewrite Emk. cbn [bind]. exact Eex. }
  exists s', w', asgs, e2, res. split; [exact E|]. split; [exact Eex|].
  destruct (exec_step_steps_in _ _ _ _ _ _ Est (conj L Rg) Ra) as [_ Iv2].
  split; [exact Iv2|]. split; [eapply exec_step_own_inv; eauto; split; assumption|].
  split; [exact Pi2|]. cbn [e2 e_pools].
  destruct (pools_tick_static _ _ _ _ _ _ _ _ _ _ Ept) as [Ids _]. rewrite Ids. exact Hseq.
Qed.

Lemma record_arrivals_ok t : forall newp arr,
  NoDup newp -> (forall p, In p newp -> ~ In p (map fst arr)) ->
  record_arrivals t newp arr = Ok (arr ++ map (fun p => (p, t)) newp).
Proof.
  induction newp as [|p r IH]; intros arr N D; cbn [record_arrivals map].
  - rewrite app_nil_r. reflexivity.
  - inversion N as [|? ? Np Nr]; subst.
    destruct (existsb (fun x => Nat.eqb (fst x) p) arr) eqn:Ex.
    + exfalso. apply existsb_exists in Ex. destruct Ex as [[a0 t0] [Hin Heq]]. cbn in Heq.
      apply Nat.eqb_eq in Heq. subst a0. apply (D p (or_introl eq_refl)).
      apply in_map_iff. exists (p, t0). auto.
    + rewrite IH; [rewrite <- app_assoc; reflexivity|exact Nr|].
      intros q Hq Hin. rewrite map_app in Hin. apply in_app_or in Hin. destruct Hin as [Hin|Hin].
      * apply (D q (or_intror Hq) Hin).
      * cbn in Hin. destruct Hin as [<-|[]]. contradiction.
Qed.

Definition the_algo : algo := if starter then AStarter else ANaive.

Lemma sim_tick_total np t s newp :
  loop_inv np (sm_exec s) -> NoDup newp -> (forall p, In p newp -> ~ In p (map fst (sm_arrival s))) ->
  exists s' lg, sim_tick C the_algo t s newp = Ok (s', lg) /\ loop_inv np (sm_exec s') /\
                sm_arrival s' = sm_arrival s ++ map (fun p => (p, t)) newp.
Proof.
  intros Li N D.
  destruct (naive_tick_ok np (sm_sched s) (sm_exec s) (sm_results s) newp Li)
    as (ss' & w' & asgs & e2 & res & E1 & E2 & Li2).
  unfold sim_tick. rewrite (record_arrivals_ok t newp (sm_arrival s) N D). cbn [bind].
  assert (Sch : sched_step C the_algo (sm_sched s) (sm_exec s) (sm_results s) newp
                = naive_step C starter (sm_sched s) (sm_exec s) (sm_results s) newp)
    by (unfold the_algo; destruct starter; reflexivity).
  rewrite Sch, E1. cbn [bind]. rewrite E2. cbn [bind].
  eexists _, _. split; [reflexivity|]. cbn [sm_exec sm_arrival]. split; [exact Li2|reflexivity].
Qed.

Lemma sim_run_total np : forall arrivals t s,
  loop_inv np (sm_exec s) -> NoDup (concat arrivals) ->
  (forall p, In p (concat arrivals) -> ~ In p (map fst (sm_arrival s))) ->
  exists sf logs, sim_run C the_algo t s arrivals = (sf, logs, None).
Proof.
  induction arrivals as [|newp r IH]; intros t s Li N D; cbn [sim_run].
  - eauto.
  - cbn [concat] in N, D. apply ConserveFacts.NoDup_app_inv in N. destruct N as (N1 & N2 & N3).
    destruct (sim_tick_total np t s newp Li N1) as (s1 & lg & E & Li1 & Ea).
    { intros p Hp. apply D. apply in_or_app. left. exact Hp. }
    rewrite E. destruct (IH (t + 1)%Z s1 Li1 N2) as (sf & logs & R).
    { intros p Hp Hin. rewrite Ea, map_app, map_map in Hin. cbn [fst] in Hin. rewrite map_id in Hin.
      apply in_app_or in Hin. destruct Hin as [Hin|Hin].
      - apply (D p); [apply in_or_app; right; exact Hp|exact Hin].
      - apply (N3 p Hin Hp). }
    rewrite R. eauto.
Qed.

End Tick.
End ClosedLoop.

(* V4: with single-operator containers (the starter template; naive when multi_operator_containers
   is off), non-empty operator scripts, well-scoped pipelines and a workload in which no pipeline
   arrives twice, the run reaches its last tick: no scheduler decision is refused and no container
   tick raises. *)
Theorem single_mode_runs_to_end C (starter : bool) np cpu ram arrivals :
  (forall op c, cf_script C op c <> []) ->
  orders_nodup (cf_static C) ->
  (forall k o, In o (pd_order (pipe_of (cf_static C) k)) -> o < length (s_ops (cf_static C))) ->
  (if starter then true else negb (cf_multi C)) = true ->
  NoDup (concat arrivals) ->
  exists sf logs,
    sim_run C (if starter then AStarter else ANaive) 0%Z (init_sim C np cpu ram) arrivals
    = (sf, logs, None) /\ length logs = length arrivals.
Proof.
  intros Hs Ho Hr Hm Na.
  destruct (sim_run_total C Hs Ho Hr starter Hm np arrivals 0%Z (init_sim C np cpu ram)) as (sf & logs & R).
  - apply loop_inv_init.
  - exact Na.
  - intros p _ [].
  - exists sf, logs. split; [exact R|].
    clear -R. unfold the_algo in R. revert R. generalize (init_sim C np cpu ram) as s. generalize 0%Z as t.
    revert sf logs. induction arrivals as [|newp r IH]; intros sf logs t s R; cbn [sim_run] in R.
    + inversion R. reflexivity.
    + destruct (sim_tick C _ t s newp) as [[s1 lg]|e]; [|discriminate].
      destruct (sim_run C _ (t + 1)%Z s1 r) as [[sf' logs'] e'] eqn:R'. inversion R; subst.
      cbn [length]. f_equal. eapply IH; eauto.
Qed.

(* the two well-scopedness hypotheses hold for every static description built by [mk_static] from
   well-formed DAGs (the only way the harness builds one) *)
From Eudoxia Require Proofs.DagProof.

Lemma mk_ops_length : forall ps k, length (mk_ops k ps) = list_sum (map pd_n ps).
Proof.
  induction ps as [|p t IH]; intros k; [reflexivity|]. cbn [mk_ops map list_sum].
  rewrite app_length, opdefs_of_length, IH. reflexivity.
Qed.

Lemma mk_pipes_in : forall l first p, In p (mk_pipes first l) ->
  exists pr g, In (pr, g) l /\ p = mk_pdef (pd_first p) pr g /\
               pd_first p + length g <= first + list_sum (map pd_n (mk_pipes first l)).
Proof.
  induction l as [|[pr g] t IH]; intros first p Hp; [destruct Hp|].
  cbn [mk_pipes] in *. cbn [map list_sum]. destruct Hp as [<-|Hp].
  - exists pr, g. split; [left; reflexivity|]. split; [reflexivity|].
    unfold pd_n at 1. unfold mk_pdef at 1 2. cbn [pd_first pd_dag].
    change (list_sum (?a :: ?x)) with (a + list_sum x). lia.
  - destruct (IH _ _ Hp) as (pr' & g' & Hin & E & Le). exists pr', g'.
    split; [right; exact Hin|]. split; [exact E|].
    unfold pd_n at 1. unfold mk_pdef at 1. cbn [pd_dag].
    change (list_sum (?a :: ?x)) with (a + list_sum x). lia.
Qed.

Lemma mk_static_pipe l k :
  dags_wf l ->
  pd_order (pipe_of (mk_static l) k) = [] \/
  exists f g, wf_dag g /\ pd_order (pipe_of (mk_static l) k) = map (fun i => f + i) (iterate g) /\
                 f + length g <= length (s_ops (mk_static l)).
Proof.
  intros W. unfold pipe_of, mk_static. cbn [s_pipes s_ops].
  destruct (Nat.lt_ge_cases k (length (mk_pipes 0 l))) as [Lt|Ge].
  - right. pose proof (nth_In _ dummy_pipe Lt) as Hin.
    destruct (mk_pipes_in _ _ _ Hin) as (pr & g & Hl & E & Le).
    exists (pd_first (nth k (mk_pipes 0 l) dummy_pipe)), g. split.
    + unfold dags_wf in W. rewrite Forall_forall in W. apply (W (pr, g) Hl).
    + split; [rewrite E at 1; reflexivity|]. rewrite mk_ops_length. lia.
  - left. rewrite nth_overflow by exact Ge. reflexivity.
Qed.

Lemma mk_static_orders_nodup l : dags_wf l -> orders_nodup (mk_static l).
Proof.
  intros W k. destruct (mk_static_pipe l k W) as [->|(f & g & Wg & -> & _)]; [constructor|].
  apply FinFun.Injective_map_NoDup; [intros a b; lia|].
  eapply Permutation_NoDup; [apply Permutation_sym, DagProof.dag_iter_perm; exact Wg|].
  unfold nodes. apply seq_NoDup.
Qed.

Lemma mk_static_orders_in_range l : dags_wf l ->
  forall k o, In o (pd_order (pipe_of (mk_static l) k)) -> o < length (s_ops (mk_static l)).
Proof.
  intros W k o Ho. destruct (mk_static_pipe l k W) as [E|(f & g & Wg & E & Le)];
    rewrite E in Ho; [destruct Ho|].
  apply in_map_iff in Ho. destruct Ho as [i [<- Hi]].
  apply (Permutation_in _ (DagProof.dag_iter_perm g Wg)) in Hi. apply DagProof.In_nodes in Hi. lia.
Qed.

Corollary single_mode_runs_to_end_mk_static C l (starter : bool) np cpu ram arrivals :
  cf_static C = mk_static l -> dags_wf l ->
  (forall op c, cf_script C op c <> []) ->
  (if starter then true else negb (cf_multi C)) = true ->
  NoDup (concat arrivals) ->
  exists sf logs,
    sim_run C (if starter then AStarter else ANaive) 0%Z (init_sim C np cpu ram) arrivals
    = (sf, logs, None) /\ length logs = length arrivals.
Proof.
  intros E W Hs Hm Na. apply single_mode_runs_to_end; auto; rewrite E.
  - apply mk_static_orders_nodup, W.
  - apply mk_static_orders_in_range, W.
Qed.

(* ------------------------------------------------------------------------------------------ *)
(* Examples                                                                                     *)
(* ------------------------------------------------------------------------------------------ *)
Module Examples.

Example ex_percentile_single : exists q, percentile99 [7%Z] = Some q /\ (q == 7 # 1)%Q.
Proof. eexists. split; [vm_compute; reflexivity|]. reflexivity. Qed.

(* np.percentile([1, 4], 99) = 1 + 3 * 0.99 = 3.97 *)
Example ex_percentile_two : exists q, percentile99 [4%Z; 1%Z] = Some q /\ (q == 397 # 100)%Q.
Proof. eexists. split; [vm_compute; reflexivity|]. reflexivity. Qed.

Example ex_mean : exists q, meanZ [1%Z; 4%Z] = Some q /\ (q == 5 # 2)%Q.
Proof. eexists. split; [vm_compute; reflexivity|]. reflexivity. Qed.

(* two single-operator pipelines arrive together; one pool with 4 CPUs and 8 GB *)
Definition exS : static := mk_static [(Batch, [[]]); (Query, [[]])].
Definition exC (over : bool) : cfg :=
  {| cf_static := exS; cf_script := fun _ _ => [1%Q; 1%Q]; cf_tps := 10%Z; cf_overcommit := over;
     cf_multi := true; cf_rnd := fun x => x |}.
Definition ex_arrivals : list (list nat) := [[0; 1]; []; []; []; []; []].

Lemma exS_orders : orders_nodup exS.
Proof.
  intros [|[|k]]; vm_compute.
  - constructor; [intros []|constructor].
  - constructor; [intros []|constructor].
  - destruct k; constructor.
Qed.

(* naive, starter: the run reaches its last tick *)
Example ex_naive_runs :
  snd (sim_run (exC false) ANaive 0%Z (init_sim (exC false) 1 4%Z 8%Q) ex_arrivals) = None /\
  snd (sim_run (exC false) AStarter 0%Z (init_sim (exC false) 1 4%Z 8%Q) ex_arrivals) = None.
Proof. split; vm_compute; reflexivity. Qed.

(* the round theorems are not vacuous: the first round of naive issues an assignment that passes
   the checks *)
Example ex_naive_round :
  exists s' w' asgs,
    naive_step (exC false) false init_sstate (init_estate (exC false) 1 4%Z 8%Q) [] [0; 1]
      = Ok (s', w', [], asgs) /\ length asgs = 1 /\
    checks_pass (exC false) (e_pools (init_estate (exC false) 1 4%Z 8%Q)) asgs.
Proof.
  destruct (naive_step (exC false) false init_sstate (init_estate (exC false) 1 4%Z 8%Q) [] [0; 1])
    as [[[[s' w'] susps] asgs]|e] eqn:E; [|vm_compute in E; discriminate].
  pose proof E as E0.
  apply (naive_round_checks _ _ _ _ _ _ _ _ _ _ 1) in E0; [|apply exS_orders|reflexivity].
  destruct E0 as [-> Ck]. exists s', w', asgs. split; [reflexivity|]. split; [|exact Ck].
  vm_compute in E. inversion E. reflexivity.
Qed.

(* overbook with memory overcommit: reaches the last tick *)
Example ex_overbook_runs :
  snd (sim_run (exC true) AOverbook 0%Z (init_sim (exC true) 1 4%Z 8%Q) ex_arrivals) = None.
Proof. vm_compute. reflexivity. Qed.

(* FINDING (documented by a warning in overbook_init): overbook gives every container the pool's
   whole RAM, so with the default allow_memory_overcommit = False the second assignment to a pool
   oversells it and the run stops in its first tick with "Overallocated RAM in assignment". *)
Example overbook_without_overcommit_refuted :
  sim_run (exC false) AOverbook 0%Z (init_sim (exC false) 1 4%Z 8%Q) ex_arrivals
  = (init_sim (exC false) 1 4%Z 8%Q, [], Some EOversellRam).
Proof. vm_compute. reflexivity. Qed.

Lemma wf_single : wf_dag [[]].
Proof.
  intros j Hj. cbn in Hj. assert (j = 0) by lia. subst. split; [constructor|intros ? []].
Qed.
Lemma ex_dags_wf : dags_wf [(Batch, [[]]); (Query, [[]])].
Proof. constructor; [exact wf_single|]. constructor; [exact wf_single|]. constructor. Qed.

(* V4 applies: starter (any container mode) and naive with single-operator containers *)
Example ex_single_mode_total (over : bool) :
  exists sf logs,
    sim_run (exC over) AStarter 0%Z (init_sim (exC over) 1 4%Z 8%Q) ex_arrivals = (sf, logs, None) /\
    length logs = 6.
Proof.
  apply (single_mode_runs_to_end_mk_static (exC over) [(Batch, [[]]); (Query, [[]])] true).
  - reflexivity.
  - apply ex_dags_wf.
  - intros op c. discriminate.
  - reflexivity.
  - cbn. repeat constructor; cbn; intuition discriminate.
Qed.

End Examples.

