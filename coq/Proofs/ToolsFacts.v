(* C20: facts about Model/Tools.v.
   A. the documented snap rule in exact arithmetic (snap_exact) and the executable snap with the
      identity rounding;
   B. the float-faithful snap for an arbitrary rounding: post-conditions of the two loops, grid points
      are fixed, idempotence; fuel is sufficient on the domain (relative error 2^-53);
   C. jitter: bounds, stable ascending sort, frame;
   D. the seed plumbing of sensitivity-sample. *)
From Coq Require Import ZArith QArith Qabs Qround List Bool Arith Lia Lqa Psatz
  Sorting.Sorted Sorting.Permutation.
From Coq Require String FinFun.
From Eudoxia Require Import Num.Rnd64 Model.Tools Proofs.Rnd64Facts Proofs.TimingFacts.
Import ListNotations.
Open Scope Q_scope.

Local Notation u53 := (1 # 9007199254740992).

(* ---------- small helpers ---------- *)

Lemma Qle_bool_false' a b : Qle_bool a b = false <-> b < a.
Proof.
  split.
  - intros H. apply Qnot_le_lt. intros L. apply Qle_bool_iff in L. congruence.
  - intros H. destruct (Qle_bool a b) eqn:E; [|reflexivity].
    apply Qle_bool_iff in E. exfalso. exact (Qlt_not_le _ _ H E).
Qed.

Lemma floorQ_spec x : inject_Z (floorQ x) <= x /\ x < inject_Z (floorQ x) + 1.
Proof.
  rewrite floorQ_Qfloor. split; [apply Qfloor_le|].
  pose proof (Qlt_floor x) as H. rewrite inject_Z_plus in H. exact H.
Qed.

Lemma floorQ_unique x k : inject_Z k <= x -> x < inject_Z k + 1 -> floorQ x = k.
Proof.
  intros A B. destruct (floorQ_spec x) as [C D].
  assert (L1 : inject_Z k < inject_Z (floorQ x + 1)) by (rewrite inject_Z_plus; change (inject_Z 1) with 1; lra).
  assert (L2 : inject_Z (floorQ x) < inject_Z (k + 1)) by (rewrite inject_Z_plus; change (inject_Z 1) with 1; lra).
  rewrite <- Zlt_Qlt in L1, L2. lia.
Qed.

Lemma floorQ_inject k : floorQ (inject_Z k) = k.
Proof. apply floorQ_unique; lra. Qed.

Lemma inject_Z_succ k : inject_Z (k + 1) == inject_Z k + 1.
Proof. rewrite inject_Z_plus. reflexivity. Qed.

Lemma inject_Z_pred k : inject_Z (k - 1) == inject_Z k - 1.
Proof. unfold Z.sub. rewrite inject_Z_plus. reflexivity. Qed.

Lemma inject_Z_nonneg k : (0 <= k)%Z -> 0 <= inject_Z k.
Proof. intros H. change 0 with (inject_Z 0). rewrite <- Zle_Qle. exact H. Qed.

Lemma inject_Z_nonpos k : (k <= 0)%Z -> inject_Z k <= 0.
Proof. intros H. change 0 with (inject_Z 0). rewrite <- Zle_Qle. exact H. Qed.

(* ====================================================================== *)
(* A. exact arithmetic                                                    *)
(* ====================================================================== *)

Section Exact.
Variable tps : Z.
Hypothesis Htps : (0 < tps)%Z.

Let T := inject_Z tps.
Let HT : 0 < T := inject_Z_pos tps Htps.

Lemma snap_exact_mul a : snap_exact tps a * T == inject_Z (floorQ (a * T)).
Proof. unfold snap_exact. fold T. field. pose proof HT. lra. Qed.

Lemma snap_le a : snap_exact tps a <= a.
Proof.
  destruct (floorQ_spec (a * T)) as [A _]. pose proof (snap_exact_mul a) as E. pose proof HT.
  set (s := snap_exact tps a) in *. nra.
Qed.

Lemma snap_lt_tick a : a - snap_exact tps a < 1 / T.
Proof.
  destruct (floorQ_spec (a * T)) as [_ B]. pose proof (snap_exact_mul a) as E. pose proof HT as HT'.
  set (s := snap_exact tps a) in *.
  apply Qlt_shift_div_l; [exact HT'|]. nra.
Qed.

Lemma snap_grid_fixed a k : a == inject_Z k / T -> snap_exact tps a == a.
Proof.
  intros Ha. pose proof HT as HT'.
  assert (E : a * T == inject_Z k) by (rewrite Ha; field; lra).
  unfold snap_exact. fold T. rewrite (floorQ_comp _ _ E), floorQ_inject. symmetry. exact Ha.
Qed.

Lemma snap_idem a : snap_exact tps (snap_exact tps a) == snap_exact tps a.
Proof. apply (snap_grid_fixed _ (floorQ (a * T))). reflexivity. Qed.

(* the result is the largest grid point not above a *)
Lemma snap_exact_greatest a k : inject_Z k / T <= a -> inject_Z k / T <= snap_exact tps a.
Proof.
  intros H. pose proof HT as HT'.
  assert (H' : inject_Z k <= a * T).
  { apply (Qmult_le_r _ _ T HT') in H. assert (E : inject_Z k / T * T == inject_Z k) by (field; lra). lra. }
  destruct (floorQ_spec (a * T)) as [_ B].
  assert (L : inject_Z k < inject_Z (floorQ (a * T) + 1)) by (rewrite inject_Z_succ; lra).
  rewrite <- Zlt_Qlt in L. assert (L' : (k <= floorQ (a * T))%Z) by lia. rewrite Zle_Qle in L'.
  unfold snap_exact. fold T. unfold Qdiv. apply Qmult_le_compat_r; [exact L'|].
  apply Qlt_le_weak, Qinv_lt_0_compat, HT'.
Qed.
End Exact.

(* ====================================================================== *)
(* B. the executable snap                                                 *)
(* ====================================================================== *)

Section Loops.
Variable rnd : Q -> Q.

(* post-condition of the first loop *)
Lemma snap_up_post fuel tps o t t' :
  snap_up rnd fuel tps o t = Some t' -> (t <= t')%Z /\ o < boundary rnd tps (t' + 1).
Proof.
  revert t. induction fuel as [|f IH]; intros t H; [discriminate|].
  cbn [snap_up] in H. destruct (Qle_bool (boundary rnd tps (t + 1)) o) eqn:E.
  - destruct (IH _ H) as [A B]. split; [lia | exact B].
  - inversion H; subst. split; [lia|]. apply Qle_bool_false'. exact E.
Qed.

(* ... and of the second, which keeps the first one's *)
Lemma snap_down_post fuel tps o t t' :
  o < boundary rnd tps (t + 1) ->
  snap_down rnd fuel tps o t = Some t' ->
  (t' <= t)%Z /\ boundary rnd tps t' <= o /\ o < boundary rnd tps (t' + 1).
Proof.
  revert t. induction fuel as [|f IH]; intros t Hup H; [discriminate|].
  cbn [snap_down] in H. destruct (Qle_bool (boundary rnd tps t) o) eqn:E.
  - inversion H; subst. split; [lia|]. split; [apply Qle_bool_iff; exact E | exact Hup].
  - apply Qle_bool_false' in E.
    assert (Hup' : o < boundary rnd tps (t - 1 + 1)) by (replace (t - 1 + 1)%Z with t by lia; exact E).
    destruct (IH _ Hup' H) as (A & B & C). split; [lia|]. split; assumption.
Qed.

(* IF the search returns a tick, it is a tick whose float boundary is not above the original and
   whose successor's boundary is above it. No assumption on the rounding. *)
Theorem snap_tick_post tps o t :
  snap_tick rnd tps o = Some t -> boundary rnd tps t <= o /\ o < boundary rnd tps (t + 1).
Proof.
  unfold snap_tick. destruct (snap_up rnd snap_fuel tps o (snap_start rnd tps o)) as [t1|] eqn:U; [|discriminate].
  intros D. destruct (snap_up_post _ _ _ _ _ U) as [_ P].
  destruct (snap_down_post _ _ _ _ _ P D) as (_ & A & B). split; assumption.
Qed.

Theorem snap_val_le tps o v : snap_val rnd tps o = Some v -> v <= o.
Proof.
  unfold snap_val. destruct (snap_tick rnd tps o) as [t|] eqn:E; [|discriminate].
  cbn. intros H; inversion H; subst. apply (snap_tick_post _ _ _ E).
Qed.

Theorem snap_val_next tps o v :
  snap_val rnd tps o = Some v ->
  exists t, v = boundary rnd tps t /\ boundary rnd tps t <= o /\ o < boundary rnd tps (t + 1).
Proof.
  unfold snap_val. destruct (snap_tick rnd tps o) as [t|] eqn:E; [|discriminate].
  cbn. intros H; inversion H; subst. exists t. split; [reflexivity|]. apply (snap_tick_post _ _ _ E).
Qed.

(* the file: rows, their order and every other cell are kept; blank cells stay blank *)
Lemma snap_file_frame {R : Type} tps (rows out : list (option Q * R)) :
  snap_file rnd tps rows = Some out ->
  length out = length rows /\ map snd out = map snd rows /\
  Forall2 (fun r r' => match fst r with
                       | None => fst r' = None
                       | Some o => exists v, fst r' = Some v /\ snap_val rnd tps o = Some v
                       end) rows out.
Proof.
  revert out. induction rows as [|r t IH]; intros out H.
  - cbn in H. inversion H; subst. repeat split; constructor.
  - cbn [snap_file] in H. destruct (snap_row rnd tps r) as [r'|] eqn:Er; [|discriminate].
    destruct (snap_file rnd tps t) as [t'|] eqn:Et; [|discriminate].
    inversion H; subst. destruct (IH _ eq_refl) as (L & M & F).
    assert (Hr : snd r' = snd r /\ match fst r with
                       | None => fst r' = None
                       | Some o => exists v, fst r' = Some v /\ snap_val rnd tps o = Some v
                       end).
    { unfold snap_row in Er. destruct r as [[o|] x]; cbn in *.
      - destruct (snap_val rnd tps o) as [v|] eqn:Ev; [|discriminate]. inversion Er; subst. cbn.
        split; [reflexivity|]. exists v. split; reflexivity.
      - inversion Er; subst. cbn. split; reflexivity. }
    destruct Hr as [Hs Hf]. cbn [length map]. rewrite L, M, Hs. repeat split. constructor; assumption.
Qed.

Section Mono.
Variable tps : Z.
Hypothesis Htps : (0 < tps)%Z.
Hypothesis Hmono : forall x y, x <= y -> rnd x <= rnd y.

Lemma boundary_mono j k : (j <= k)%Z -> boundary rnd tps j <= boundary rnd tps k.
Proof.
  intros H. unfold boundary. apply Hmono. unfold Qdiv. apply Qmult_le_compat_r.
  - rewrite <- Zle_Qle. exact H.
  - apply Qlt_le_weak, Qinv_lt_0_compat, inject_Z_pos, Htps.
Qed.

(* a value that is a float boundary is left where it is *)
Theorem snap_tick_grid k t :
  snap_tick rnd tps (boundary rnd tps k) = Some t -> boundary rnd tps t == boundary rnd tps k.
Proof.
  intros H. destruct (snap_tick_post _ _ _ H) as [A B].
  apply Qle_antisym; [exact A|].
  apply boundary_mono.
  destruct (Z_lt_le_dec t k) as [L|L]; [|exact L]. exfalso.
  assert (L' : (t + 1 <= k)%Z) by lia. pose proof (boundary_mono _ _ L'). lra.
Qed.

Theorem snap_val_grid_fixed k v :
  snap_val rnd tps (boundary rnd tps k) = Some v -> v == boundary rnd tps k.
Proof.
  unfold snap_val. destruct (snap_tick rnd tps (boundary rnd tps k)) as [t|] eqn:E; [|discriminate].
  cbn. intros H; inversion H; subst. apply snap_tick_grid. exact E.
Qed.

(* snapping twice equals snapping once *)
Theorem snap_val_idem o v v' :
  snap_val rnd tps o = Some v -> snap_val rnd tps v = Some v' -> v' == v.
Proof.
  intros H1 H2. destruct (snap_val_next _ _ _ H1) as (t & -> & _ & _).
  apply snap_val_grid_fixed. exact H2.
Qed.
End Mono.

(* ---------- the fuel suffices (relative error 2^-53, original * tps < 2^50) ---------- *)
Section Fuel.
Variable tps : Z.
Hypothesis Htps : (0 < tps)%Z.
Hypothesis Herr : forall x, Qabs (rnd x - x) <= Qabs x * u53.

Let T := inject_Z tps.
Let HT : 0 < T := inject_Z_pos tps Htps.

Lemma rnd0 : rnd 0 == 0.
Proof.
  pose proof (Herr 0) as H. change (Qabs 0) with 0 in H.
  apply Qabs_Qle_condition in H. destruct H as [A B]. lra.
Qed.

Lemma boundary_rel k : (0 <= k)%Z ->
  inject_Z k / T * (1 - u53) <= boundary rnd tps k /\ boundary rnd tps k <= inject_Z k / T * (1 + u53).
Proof.
  intros Hk. unfold boundary. fold T. apply (rnd_rel rnd Herr).
  apply Qle_shift_div_l; [exact HT|]. pose proof (inject_Z_nonneg k Hk). lra.
Qed.

Lemma boundary_nonpos k : (k <= 0)%Z -> boundary rnd tps k <= 0.
Proof.
  intros Hk. unfold boundary. fold T.
  assert (Hx : inject_Z k / T <= 0).
  { apply Qle_shift_div_r; [exact HT|]. pose proof (inject_Z_nonpos k Hk). lra. }
  pose proof (Herr (inject_Z k / T)) as H. rewrite (Qabs_neg _ Hx) in H.
  apply Qabs_Qle_condition in H. destruct H as [A B].
  set (x := inject_Z k / T) in *. set (r := rnd x) in *.
  assert (r <= x + (- x) * u53) by lra. nra.
Qed.

Variable o : Q.
Hypothesis Ho : 0 <= o.
Hypothesis Hsmall : o * T <= inject_Z (2 ^ 50).

Let x := o * T.
Let t0 := snap_start rnd tps o.

Lemma x_nonneg : 0 <= x.
Proof. unfold x. pose proof HT. nra. Qed.

Lemma t0_bounds : x * (1 - u53) - 1 < inject_Z t0 /\ inject_Z t0 <= x * (1 + u53) /\ (0 <= t0)%Z.
Proof.
  unfold t0, snap_start. fold T. fold x.
  destruct (rnd_rel rnd Herr x x_nonneg) as [A B].
  destruct (floorQ_spec (rnd x)) as [C D].
  split; [lra|]. split; [lra|].
  apply floorQ_nonneg. pose proof x_nonneg. nra.
Qed.

Lemma o_eq : o == x / T.
Proof. unfold x. field. pose proof HT. lra. Qed.

Lemma x_small : x * (4 # 9007199254740992) <= 1 # 2.
Proof. fold x in Hsmall. change (inject_Z (2 ^ 50)) with (1125899906842624 # 1) in Hsmall. lra. Qed.

(* the boundary two above the start is above the original *)
Lemma above_t0_2 : o < boundary rnd tps (t0 + 2).
Proof.
  destruct t0_bounds as (A & B & C).
  assert (Hk : (0 <= t0 + 2)%Z) by lia.
  destruct (boundary_rel _ Hk) as [L _].
  eapply Qlt_le_trans; [|exact L].
  rewrite o_eq. rewrite inject_Z_plus. change (inject_Z 2) with 2.
  unfold Qdiv. rewrite <- Qmult_assoc, (Qmult_comm (/ T)), Qmult_assoc.
  apply Qmult_lt_compat_r; [apply Qinv_lt_0_compat, HT|].
  pose proof x_small. pose proof x_nonneg. set (z := inject_Z t0) in *. nra.
Qed.

(* the boundary one below the start is not above the original *)
Lemma below_t0_1 : boundary rnd tps (t0 - 1) <= o.
Proof.
  destruct t0_bounds as (A & B & C).
  destruct (Z.eq_dec t0 0) as [E|E].
  - eapply Qle_trans; [apply boundary_nonpos; lia | exact Ho].
  - assert (Hk : (0 <= t0 - 1)%Z) by lia.
    destruct (boundary_rel _ Hk) as [_ U].
    eapply Qle_trans; [exact U|].
    rewrite o_eq. rewrite inject_Z_pred.
    unfold Qdiv. rewrite <- Qmult_assoc, (Qmult_comm (/ T)), Qmult_assoc.
    apply Qmult_le_compat_r; [|apply Qlt_le_weak, Qinv_lt_0_compat, HT].
    pose proof x_small. pose proof x_nonneg. set (z := inject_Z t0) in *. nra.
Qed.

Lemma snap_up_total : exists t1, snap_up rnd snap_fuel tps o t0 = Some t1 /\ (t1 = t0 \/ (t1 = t0 + 1)%Z /\ boundary rnd tps t1 <= o).
Proof.
  unfold snap_fuel. cbn [snap_up].
  destruct (Qle_bool (boundary rnd tps (t0 + 1)) o) eqn:E1.
  - replace (t0 + 1 + 1)%Z with (t0 + 2)%Z by lia.
    pose proof above_t0_2 as H. apply Qle_bool_false' in H. rewrite H.
    exists (t0 + 1)%Z. split; [reflexivity|]. right. split; [reflexivity|]. apply Qle_bool_iff. exact E1.
  - exists t0. split; [reflexivity|]. left. reflexivity.
Qed.

Theorem snap_tick_total : exists t, snap_tick rnd tps o = Some t.
Proof.
  unfold snap_tick. fold t0. destruct snap_up_total as (t1 & -> & [-> | [-> Hle]]).
  - unfold snap_fuel. cbn [snap_down].
    destruct (Qle_bool (boundary rnd tps t0) o); [eexists; reflexivity|].
    pose proof below_t0_1 as H. apply Qle_bool_iff in H. rewrite H. eexists; reflexivity.
  - unfold snap_fuel. cbn [snap_down]. apply Qle_bool_iff in Hle. rewrite Hle. eexists; reflexivity.
Qed.

Theorem snap_val_total : exists v, snap_val rnd tps o = Some v.
Proof. unfold snap_val. destruct snap_tick_total as [t ->]. eexists; reflexivity. Qed.
End Fuel.
End Loops.

(* ---------- the identity rounding: the executable snap IS the documented rule ---------- *)
Lemma snap_id_exact tps a : (0 < tps)%Z ->
  exists v, snap_val (fun x => x) tps a = Some v /\ v == snap_exact tps a.
Proof.
  intros Htps. pose proof (inject_Z_pos tps Htps) as HT.
  unfold snap_val, snap_tick, snap_start, snap_fuel. cbv beta.
  set (t0 := floorQ (a * inject_Z tps)).
  destruct (floorQ_spec (a * inject_Z tps)) as [A B]. fold t0 in A, B.
  assert (Hb : forall k, boundary (fun x => x) tps k == inject_Z k / inject_Z tps) by (intros; reflexivity).
  assert (U : Qle_bool (boundary (fun x => x) tps (t0 + 1)) a = false).
  { apply Qle_bool_false'. rewrite Hb, inject_Z_succ. apply Qlt_shift_div_l; [exact HT | lra]. }
  assert (D : Qle_bool (boundary (fun x => x) tps t0) a = true).
  { apply Qle_bool_iff. rewrite Hb. apply Qle_shift_div_r; [exact HT | lra]. }
  cbn [snap_up]. rewrite U. cbn [snap_down]. rewrite D. cbn [option_map].
  eexists. split; [reflexivity|]. rewrite Hb. reflexivity.
Qed.

(* ---------- instances for rnd64 ---------- *)
Theorem snap64_le tps o v : snap_val rnd64 tps o = Some v -> v <= o.
Proof. exact (snap_val_le rnd64 tps o v). Qed.

Theorem snap64_next tps o v : snap_val rnd64 tps o = Some v ->
  exists t, v = boundary rnd64 tps t /\ boundary rnd64 tps t <= o /\ o < boundary rnd64 tps (t + 1).
Proof. exact (snap_val_next rnd64 tps o v). Qed.

Theorem snap64_grid_fixed tps k v : (0 < tps)%Z ->
  snap_val rnd64 tps (boundary rnd64 tps k) = Some v -> v == boundary rnd64 tps k.
Proof. intros H. exact (snap_val_grid_fixed rnd64 tps H rnd64_mono k v). Qed.

Theorem snap64_idem tps o v v' : (0 < tps)%Z ->
  snap_val rnd64 tps o = Some v -> snap_val rnd64 tps v = Some v' -> v' == v.
Proof. intros H. exact (snap_val_idem rnd64 tps H rnd64_mono o v v'). Qed.

Theorem snap64_total tps o : (0 < tps)%Z -> 0 <= o -> o * inject_Z tps <= inject_Z (2 ^ 50) ->
  exists v, snap_val rnd64 tps o = Some v.
Proof. intros H. exact (snap_val_total rnd64 tps H rnd64_err o). Qed.

(* one tick in float terms is 1/tps up to the two rounding errors *)
Theorem snap64_lt_tick tps o v : (0 < tps)%Z -> 0 <= o ->
  snap_val rnd64 tps o = Some v ->
  o - v < 1 / inject_Z tps + (2 * o + 1 / inject_Z tps) * (2 # 9007199254740992).
Proof.
  intros Htps Ho H. pose proof (inject_Z_pos tps Htps) as HT.
  destruct (snap64_next _ _ _ H) as (t & -> & A & B).
  destruct (Z_lt_le_dec t 0) as [Lt|Lt].
  - (* t < 0: boundary (t+1) <= 0 <= o, impossible *)
    exfalso. assert (L : (t + 1 <= 0)%Z) by lia.
    pose proof (boundary_nonpos rnd64 tps Htps rnd64_err _ L). lra.
  - assert (L1 : (0 <= t + 1)%Z) by lia.
    destruct (boundary_rel rnd64 tps Htps rnd64_err _ Lt) as [Lo _].
    destruct (boundary_rel rnd64 tps Htps rnd64_err _ L1) as [_ Hi].
    rewrite inject_Z_succ in Hi.
    set (b0 := boundary rnd64 tps t) in *. set (b1 := boundary rnd64 tps (t + 1)) in *.
    set (T := inject_Z tps) in *.
    assert (E : (inject_Z t + 1) / T == inject_Z t / T + 1 / T) by (field; lra).
    rewrite E in Hi. set (g := inject_Z t / T) in *. set (w := 1 / T) in *.
    assert (Hw : 0 < w) by (apply Qlt_shift_div_l; lra).
    assert (Hg : 0 <= g).
    { apply Qle_shift_div_l; [lra|]. pose proof (inject_Z_nonneg t Lt). lra. }
    (* g * (1 - u) <= b0 <= o, so g <= o / (1 - u) <= o * (1 + 2u) *)
    nra.
Qed.

(* ====================================================================== *)
(* C. jitter                                                              *)
(* ====================================================================== *)

Lemma jitter_bound_exact a d delta : 0 <= d -> d <= delta ->
  0 <= jitter_arrival (fun x => x) a d - a /\ jitter_arrival (fun x => x) a d - a <= delta.
Proof. intros A B. unfold jitter_arrival. split; lra. Qed.

Lemma jitter_bound_float (rnd : Q -> Q) a d delta :
  (forall x y, x <= y -> rnd x <= rnd y) -> rnd a == a -> 0 <= d -> d <= delta ->
  a <= jitter_arrival rnd a d /\ jitter_arrival rnd a d <= rnd (a + delta).
Proof.
  intros Hm Ha A B. unfold jitter_arrival. split.
  - rewrite <- Ha at 1. apply Hm. lra.
  - apply Hm. lra.
Qed.

Lemma jitter64_bound_float a d delta : rnd64 a == a -> 0 <= d -> d <= delta ->
  a <= jitter_arrival rnd64 a d /\ jitter_arrival rnd64 a d <= rnd64 (a + delta).
Proof. exact (jitter_bound_float rnd64 a d delta rnd64_mono). Qed.

Section Sort.
Context {P : Type}.
Definition asc (a b : Q * P) : Prop := fst a <= fst b.
Definition keyis (k : Q) (z : Q * P) : bool := Qeq_bool (fst z) k.

Lemma sort_pipes_cons (x : Q * P) l : sort_pipes (x :: l) = insert_pipe x (sort_pipes l).
Proof. reflexivity. Qed.

Lemma insert_pipe_perm (x : Q * P) l : Permutation (insert_pipe x l) (x :: l).
Proof.
  induction l as [|y t IH]; [apply Permutation_refl|].
  cbn [insert_pipe]. destruct (Qle_bool (fst x) (fst y)).
  - apply Permutation_refl.
  - eapply perm_trans; [apply perm_skip; exact IH | apply perm_swap].
Qed.

Lemma sort_pipes_perm (l : list (Q * P)) : Permutation (sort_pipes l) l.
Proof.
  induction l as [|x t IH]; [apply Permutation_refl|].
  rewrite sort_pipes_cons. eapply perm_trans; [apply insert_pipe_perm|]. apply perm_skip. exact IH.
Qed.

Lemma insert_pipe_sorted (x : Q * P) l : StronglySorted asc l -> StronglySorted asc (insert_pipe x l).
Proof.
  induction l as [|y t IH]; intros S.
  - cbn. constructor; constructor.
  - cbn [insert_pipe]. destruct (Qle_bool (fst x) (fst y)) eqn:E.
    + apply Qle_bool_iff in E. constructor; [exact S|].
      inversion S as [|y' t' St Fy]; subst. constructor; [exact E|].
      rewrite Forall_forall in Fy |- *. intros z Hz. specialize (Fy z Hz).
      unfold asc in *. eapply Qle_trans; eauto.
    + apply Qle_bool_false' in E.
      inversion S as [|y' t' St Fy]; subst. constructor; [apply IH; exact St|].
      apply (Permutation_Forall (Permutation_sym (insert_pipe_perm x t))).
      constructor; [|exact Fy]. unfold asc. apply Qlt_le_weak. exact E.
Qed.

Lemma sort_pipes_sorted (l : list (Q * P)) : StronglySorted asc (sort_pipes l).
Proof.
  induction l as [|x t IH]; [constructor|].
  rewrite sort_pipes_cons. apply insert_pipe_sorted. exact IH.
Qed.

Lemma insert_pipe_filter k (x : Q * P) l :
  filter (keyis k) (insert_pipe x l) = filter (keyis k) (x :: l).
Proof.
  induction l as [|y t IH]; [reflexivity|].
  cbn [insert_pipe]. destruct (Qle_bool (fst x) (fst y)) eqn:E; [reflexivity|].
  cbn [filter]. rewrite IH. cbn [filter].
  destruct (keyis k x) eqn:Kx; destruct (keyis k y) eqn:Ky; try reflexivity.
  exfalso. unfold keyis in *. apply Qeq_bool_iff in Kx. apply Qeq_bool_iff in Ky.
  apply Qle_bool_false' in E. lra.
Qed.

Lemma sort_pipes_filter k (l : list (Q * P)) : filter (keyis k) (sort_pipes l) = filter (keyis k) l.
Proof.
  induction l as [|x t IH]; [reflexivity|].
  rewrite sort_pipes_cons, insert_pipe_filter. cbn [filter]. rewrite IH. reflexivity.
Qed.

Lemma filter_app_cons_inv' {A} (p : A -> bool) l : forall a x b,
  filter p l = a ++ x :: b ->
  exists l1 l2, l = l1 ++ x :: l2 /\ filter p l1 = a /\ filter p l2 = b.
Proof.
  induction l as [|h t IH]; intros a x b H.
  - destruct a; discriminate H.
  - cbn [filter] in H. destruct (p h) eqn:Ph.
    + destruct a as [|a0 a].
      * cbn in H. inversion H; subst. exists [], t. cbn. auto.
      * cbn in H. inversion H as [[E0 E1]]. subst a0.
        destruct (IH _ _ _ E1) as (l1 & l2 & El & F1 & F2).
        exists (h :: l1), l2. cbn [filter app]. rewrite Ph, F1, El. auto.
    + destruct (IH _ _ _ H) as (l1 & l2 & El & F1 & F2).
      exists (h :: l1), l2. cbn [filter app]. rewrite Ph, El. auto.
Qed.

Lemma sort_pipes_stable (l l1 l2 l3 : list (Q * P)) x y :
  fst x == fst y -> l = l1 ++ x :: l2 ++ y :: l3 ->
  exists m1 m2 m3, sort_pipes l = m1 ++ x :: m2 ++ y :: m3.
Proof.
  intros Exy El.
  pose proof (sort_pipes_filter (fst x) l) as F.
  assert (Kx : keyis (fst x) x = true) by (apply Qeq_bool_iff; reflexivity).
  assert (Ky : keyis (fst x) y = true) by (apply Qeq_bool_iff; symmetry; exact Exy).
  rewrite El in F at 2.
  rewrite filter_app in F. cbn [filter] in F. rewrite Kx in F.
  rewrite filter_app in F. cbn [filter] in F. rewrite Ky in F.
  apply filter_app_cons_inv' in F. destruct F as (m1 & m' & Es & _ & F2).
  apply filter_app_cons_inv' in F2. destruct F2 as (m2 & m3 & Em & _ & _).
  exists m1, m2, m3. rewrite Es, Em. reflexivity.
Qed.

Variable rnd : Q -> Q.

Theorem jitter_sorted (l : list (Q * Q * P)) :
  StronglySorted (fun a b : Q * P => fst a <= fst b) (jitter_pipes rnd l).
Proof. apply sort_pipes_sorted. Qed.

Theorem jitter_perm (l : list (Q * Q * P)) : Permutation (jitter_pipes rnd l) (map (jitter_one rnd) l).
Proof. apply sort_pipes_perm. Qed.

Theorem jitter_stable (l l1 l2 l3 : list (Q * Q * P)) x y :
  fst (jitter_one rnd x) == fst (jitter_one rnd y) -> l = l1 ++ x :: l2 ++ y :: l3 ->
  exists m1 m2 m3, jitter_pipes rnd l = m1 ++ jitter_one rnd x :: m2 ++ jitter_one rnd y :: m3.
Proof.
  intros E El. unfold jitter_pipes.
  apply (sort_pipes_stable _ (map (jitter_one rnd) l1) (map (jitter_one rnd) l2) (map (jitter_one rnd) l3)); [exact E|].
  rewrite El, map_app. cbn [map]. rewrite map_app. reflexivity.
Qed.

(* every pipeline is kept, exactly once, with its payload (its rows) untouched *)
Theorem jitter_frame (l : list (Q * Q * P)) :
  Permutation (map snd (jitter_pipes rnd l)) (map snd l) /\ length (jitter_pipes rnd l) = length l.
Proof.
  pose proof (jitter_perm l) as H. split.
  - eapply perm_trans; [apply Permutation_map; exact H|].
    rewrite map_map. cbn. apply Permutation_refl.
  - rewrite (Permutation_length H). apply map_length.
Qed.
End Sort.

(* the file: the rows of a pipeline are written contiguously, in their order, with every cell but the
   first row's arrival unchanged; the number of rows is kept *)
Lemma emit_pipe_rows {R : Type} (p : Q * list R) : map snd (emit_pipe p) = snd p.
Proof.
  destruct p as [a [|r t]]; [reflexivity|]. cbn. f_equal. rewrite map_map. cbn. apply map_id.
Qed.

Lemma emit_pipe_cells {R : Type} (p : Q * list R) :
  map fst (emit_pipe p) = match snd p with [] => [] | _ :: t => Some (fst p) :: map (fun _ => None) t end.
Proof. destruct p as [a [|r t]]; [reflexivity|]. cbn. f_equal. rewrite map_map. reflexivity. Qed.

Theorem jitter_file_rows {R : Type} (rnd : Q -> Q) (l : list (Q * Q * list R)) :
  map snd (jitter_file rnd l) = concat (map snd (jitter_pipes rnd l)) /\
  Permutation (map snd (jitter_pipes rnd l)) (map snd l) /\
  length (jitter_file rnd l) = length (concat (map snd l)).
Proof.
  assert (E : map snd (jitter_file rnd l) = concat (map snd (jitter_pipes rnd l))).
  { unfold jitter_file. induction (jitter_pipes rnd l) as [|p t IH]; [reflexivity|].
    cbn [flat_map map concat]. rewrite map_app, emit_pipe_rows, IH. reflexivity. }
  split; [exact E|]. destruct (jitter_frame rnd l) as [Pm _]. split; [exact Pm|].
  rewrite <- (map_length snd), E.
  clear E. revert Pm. generalize (map snd (jitter_pipes rnd l)) (map snd l). intros a b Pm.
  induction Pm as [| x a b _ IH | x y a | a b c _ IH1 _ IH2].
  - reflexivity.
  - cbn [concat]. rewrite !app_length, IH. reflexivity.
  - cbn [concat]. rewrite !app_length. lia.
  - congruence.
Qed.

(* ====================================================================== *)
(* D. seeds                                                               *)
(* ====================================================================== *)

Lemma dict_get_set k v d : dict_get k (dict_set k v d) = Some v.
Proof.
  induction d as [|[k' v'] t IH]; cbn.
  - rewrite String.eqb_refl. reflexivity.
  - destruct (String.eqb k k') eqn:E; cbn; rewrite ?String.eqb_refl, ?E; [reflexivity | exact IH].
Qed.

Theorem sample_seed params start i : seed_used params start i = Some (start + i)%Z.
Proof. unfold seed_used, generator_seed, task_seed. apply dict_get_set. Qed.

Theorem sample_seed_distinct params start i j : i <> j -> seed_used params start i <> seed_used params start j.
Proof. intros H. rewrite !sample_seed. intros E. inversion E. lia. Qed.

Theorem sample_seeds_spec params start n :
  sample_seeds params start n = map (fun i => Some (start + Z.of_nat i)%Z) (seq 0 n) /\ NoDup (sample_seeds params start n).
Proof.
  assert (E : sample_seeds params start n = map (fun i => Some (start + Z.of_nat i)%Z) (seq 0 n)).
  { unfold sample_seeds. apply map_ext. intros i. apply sample_seed. }
  split; [exact E|]. rewrite E.
  apply FinFun.Injective_map_NoDup; [|apply seq_NoDup].
  intros a b H. inversion H. lia.
Qed.
