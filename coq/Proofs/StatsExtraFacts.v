(* C06, the three gaps of the audit (AUDIT_A.md, C06):

   1. p99_refines_recount      st_p99 of the returned statistics is percentile99 of the container run lengths
                               recounted from the event log alone ([rc_run_lengths], Model/StatsExtra.v): the
                               recorded container_tick_times are a permutation of the recount, one entry per
                               reported result (successful or failed)
   2. failure_counts           failure_error_counts (Model/StatsExtra.v) is {} when nothing failed and
                               {OOM: failures} otherwise, [failures] being st_failures of the statistics
   3. uncontended_latency_sim  naive, multi-operator containers, one pool: the only pipeline of a run, arriving
                               in tick t0, whose operators fit the pool, is recorded complete in tick
                               t0 + total - 1 (total = sum of the script lengths; the container is created and
                               ticked in the arrival tick), latency total - 1 ticks *)
From Coq Require Import ZArith QArith List Bool Arith Lia Lqa Permutation.
Import ListNotations.
From Eudoxia Require Import Num.Rnd64 Model.Types Model.Dag Model.Lifecycle Model.Container Model.Pool
  Model.Executor Model.Sched Model.Simulator Model.StatsExtra
  Proofs.ListFacts Proofs.LifecycleFacts Proofs.ConserveFacts Proofs.ExecLifeFacts
  Proofs.ContainerRunFacts Proofs.StatsFacts.
From Eudoxia Require Proofs.LedgerFacts Proofs.NaiveFacts Proofs.SafetyFacts Proofs.ClosedLoopFacts
  Proofs.PriorityPoolRunFacts Proofs.SimReachFacts.
Close Scope Q_scope.
Close Scope Z_scope.

Ltac bind_inv H x E :=
  apply bind_ok_inv in H; destruct H as [x [E H]]; cbv beta in H.

(* ------------------------------------------------------------------------------------------ *)
(* 1. container run lengths                                                                     *)
(* ------------------------------------------------------------------------------------------ *)

(* ---- one container: every tick of a live container advances _ticks_elapsed by one ---- *)

Lemma set_mem_idt C c cons m c1 cons1 :
  set_mem C c cons m = (c1, cons1) -> c_id c1 = c_id c /\ c_ticks c1 = c_ticks c.
Proof. unfold set_mem. intros H. inversion H. split; reflexivity. Qed.

Lemma mark_completed_idt C c cons e c1 cons1 :
  mark_completed C c cons e = (c1, cons1) -> c_id c1 = c_id c /\ c_ticks c1 = c_ticks c.
Proof.
  unfold mark_completed. destruct (set_mem C c cons 0%Q) as [c0 cons0] eqn:E.
  apply set_mem_idt in E. intros H. inversion H. subst. exact E.
Qed.

Lemma ctick_idt C w cons c w' cons' c' :
  c_completed c = false -> ctick C w cons c = Ok (w', cons', c') ->
  c_id c' = c_id c /\ c_ticks c' = (c_ticks c + 1)%Z.
Proof.
  unfold ctick. intros Hc. rewrite Hc.
  destruct (c_frozen c); [intros H; inversion H; split; reflexivity|].
  destruct (nth_error (c_ops c) (c_opidx c)) as [op|]; [|discriminate].
  intros H. bind_inv H wr E. destruct wr as [w1 rest].
  destruct rest as [|m rest']; [discriminate|].
  destruct (set_mem C c cons m) as [c1 cons1] eqn:Sm. apply set_mem_idt in Sm. destruct Sm as [S1 S2].
  destruct (Qltb (c_ram c) m).
  - inversion H. subst. cbn [tick_elapsed with_pos c_id c_ticks]. rewrite S1, S2. split; reflexivity.
  - destruct rest' as [|m' rest''].
    + bind_inv H w2 E2. destruct (Nat.eqb (S (c_opidx c)) (length (c_ops c))).
      * destruct (mark_completed C (with_pos c1 (S (c_opidx c)) None false false) cons1 false)
          as [c2 cons2] eqn:M.
        apply mark_completed_idt in M. destruct M as [M1 M2]. cbn [with_pos c_id c_ticks] in M1, M2.
        inversion H. subst. cbn [tick_elapsed c_id c_ticks]. rewrite M1, M2, S1, S2. split; reflexivity.
      * inversion H. subst. cbn [tick_elapsed with_pos c_id c_ticks]. rewrite S1, S2. split; reflexivity.
    + inversion H. subst. cbn [tick_elapsed with_pos c_id c_ticks]. rewrite S1, S2. split; reflexivity.
Qed.

Lemma ckill_idt C w cons c w' cons' c' :
  ckill C w cons c = Ok (w', cons', c') -> c_id c' = c_id c /\ c_ticks c' = c_ticks c.
Proof.
  unfold ckill. destruct (c_completed c); [discriminate|]. intros H. bind_inv H w1 E.
  destruct (mark_completed C c cons true) as [c1 cons1] eqn:M. apply mark_completed_idt in M.
  inversion H; subst. exact M.
Qed.

(* (id, ticks elapsed) *)
Definition idt (c : container) : nat * Z := (c_id c, c_ticks c).
Definition idt1 (c : container) : nat * Z := (c_id c, (c_ticks c + 1)%Z).

Lemma tick_active_idt C : forall act w cons w' cons' act',
  Forall (fun c => c_completed c = false) act ->
  tick_active C w cons act = Ok (w', cons', act') -> map idt act' = map idt1 act.
Proof.
  induction act as [|c t IH]; intros w cons w' cons' act' F H; cbn [tick_active] in H.
  - inversion H. reflexivity.
  - bind_inv H r E. destruct r as [[w1 cons1] c1].
    bind_inv H rt E2. destruct rt as [[w2 cons2] t2]. inversion H. subst.
    inversion F as [|? ? Fc Ft]; subst.
    cbn [map]. f_equal.
    + destruct (ctick_idt _ _ _ _ _ _ _ Fc E) as [A B]. unfold idt, idt1. rewrite A, B. reflexivity.
    + eapply IH; eauto.
Qed.

Lemma kill_over_limit_idt C : forall act w cons w' cons' act',
  kill_over_limit C w cons act = Ok (w', cons', act') -> map idt act' = map idt act.
Proof.
  induction act as [|c t IH]; intros w cons w' cons' act' H; cbn [kill_over_limit] in H.
  - inversion H. reflexivity.
  - bind_inv H r E. destruct r as [[w1 cons1] c1].
    bind_inv H rt E2. destruct rt as [[w2 cons2] t2]. inversion H. subst.
    cbn [map]. f_equal.
    + destruct (Qltb (c_ram c) (c_mem c)).
      * destruct (ckill_idt _ _ _ _ _ _ _ E) as [A B]. unfold idt. rewrite A, B. reflexivity.
      * inversion E. reflexivity.
    + eapply IH; eauto.
Qed.

Lemma replace_container_idt c c' cid : forall l,
  find_container cid l = Some c -> idt c' = idt c ->
  map idt (replace_container c' l) = map idt l.
Proof.
  intros l F K. pose proof (find_container_some _ _ _ F) as [_ Hid].
  assert (Hid' : c_id c' = c_id c) by (unfold idt in K; inversion K; reflexivity).
  revert F. induction l as [|x t IH]; intros F; [discriminate|].
  unfold find_container in F. cbn [find] in F. cbn [replace_container].
  destruct (Nat.eqb (c_id x) cid) eqn:Ex.
  - inversion F. subst x. rewrite Hid', Nat.eqb_refl. cbn [map]. rewrite K. reflexivity.
  - rewrite Hid', Hid, Ex. cbn [map]. f_equal. apply IH. exact F.
Qed.

Lemma kill_until_fits_idt C mx : forall order w cons act w' cons' act',
  kill_until_fits C mx w cons act order = Ok (w', cons', act') -> map idt act' = map idt act.
Proof.
  induction order as [|cid t IH]; intros w cons act w' cons' act' H; cbn [kill_until_fits] in H.
  - inversion H. reflexivity.
  - destruct (Qleb cons mx); [inversion H; reflexivity|].
    destruct (find_container cid act) as [c|] eqn:F; [|discriminate].
    bind_inv H r E. destruct r as [[w1 cons1] c1].
    apply IH in H. rewrite H. eapply replace_container_idt; eauto.
    destruct (ckill_idt _ _ _ _ _ _ _ E) as [A B]. unfold idt. rewrite A, B. reflexivity.
Qed.

Lemma oom_killer_idt C mx w cons act w' cons' act' :
  oom_killer C mx w cons act = Ok (w', cons', act') -> map idt act' = map idt act.
Proof.
  unfold oom_killer. intros H. bind_inv H r E. destruct r as [[w1 cons1] act1].
  apply kill_over_limit_idt in E.
  destruct (Qleb cons1 mx).
  - inversion H. subst. exact E.
  - apply kill_until_fits_idt in H. congruence.
Qed.

(* the containers phase 2 creates: fresh, ids [next, next + length asgs) *)
Lemma apply_assignments_news C : forall asgs next acpu aram act next' acpu' aram' act',
  apply_assignments C next acpu aram act asgs = Ok (next', acpu', aram', act') ->
  next' = next + length asgs /\
  exists news, act' = act ++ news /\
    Forall (fun c => c_completed c = false /\ c_ticks c = 0%Z /\ next <= c_id c < next') news.
Proof.
  induction asgs as [|a t IH]; intros next acpu aram act next' acpu' aram' act' H;
    cbn [apply_assignments] in H.
  - inversion H. subst. split; [cbn; lia|]. exists []. rewrite app_nil_r. split; [reflexivity|constructor].
  - destruct (opcount_ok C a); [|discriminate].
    apply IH in H. destruct H as [H1 [news [H2 H3]]]. split; [cbn [length]; lia|].
    exists (new_container next (a_ops a) (a_cpu a) (a_ram a) (a_prio a) :: news).
    split; [rewrite H2, <- app_assoc; reflexivity|].
    constructor.
    + cbn [new_container c_completed c_ticks c_id]. repeat split; lia.
    + eapply Forall_impl; [|exact H3]. cbn beta. intros c (A & B & D). repeat split; auto; lia.
Qed.

(* One pool tick against an expectation [f : container id -> ticks elapsed after this tick]. *)
Lemma pool_tick_times C (f : nat -> Z) w next p ss asgs w' next' p' res :
  pool_tick C w next p ss asgs = Ok (w', next', p', res) ->
  (forall c, In c (p_active p) -> c_completed c = false /\ (c_ticks c + 1)%Z = f (c_id c)) ->
  (forall id, next <= id < next + length asgs -> f id = 1%Z) ->
  next' = next + length asgs /\ p_id p' = p_id p /\
  p_tick_times p' = p_tick_times p ++ map (fun r => f (r_cid r)) res /\
  (forall c, In c (p_active p') -> c_completed c = false /\ c_ticks c = f (c_id c)).
Proof.
  intros H Hold Hnew. unfold pool_tick in H.
  bind_inv H r1 E1. change (phase1 C w p ss = Ok r1) in E1.
  destruct r1 as [[[w1 act1] sing1] cons1]. cbv beta iota in H.
  bind_inv H r2 E2. destruct r2 as [[[next2 acpu2] aram2] act2]. cbv beta iota in H.
  bind_inv H r3 E3. destruct r3 as [w3 sing3]. cbv beta iota in H. cbv zeta in H.
  bind_inv H r4 E4. destruct r4 as [[w4 cons4] act4]. cbv beta iota in H.
  bind_inv H r5 E5. destruct r5 as [[w5 cons5] act5]. cbv beta iota in H.
  injection H as Hw Hn Hp Hr. subst w5 p' res next2.
  apply phase1_spec in E1. destruct E1 as [I1 _].
  assert (X2 : next' = next + length asgs /\
               exists news, act2 = act1 ++ news /\
                 Forall (fun c => c_completed c = false /\ c_ticks c = 0%Z /\ next <= c_id c < next') news).
  { destruct asgs as [|a0 t0].
    - inversion E2; subst. split; [cbn; lia|]. exists []. rewrite app_nil_r. split; [reflexivity|constructor].
    - bind_inv E2 u V. eapply apply_assignments_news; eauto. }
  destruct X2 as [N2 [news [A2 F2]]].
  (* every container ticked in this tick now shows f of its id *)
  assert (P2 : forall c, In c act2 -> c_completed c = false /\ (c_ticks c + 1)%Z = f (c_id c)).
  { intros c Hc. rewrite A2 in Hc. apply in_app_or in Hc. destruct Hc as [Hc|Hc].
    - apply Hold, I1, Hc.
    - rewrite Forall_forall in F2. destruct (F2 c Hc) as (A & B & D). split; [exact A|].
      rewrite B, Hnew by lia. reflexivity. }
  assert (F4 : Forall (fun c => c_completed c = false) act2).
  { apply Forall_forall. intros c Hc. apply P2, Hc. }
  apply (tick_active_idt _ _ _ _ _ _ _ F4) in E4. apply oom_killer_idt in E5.
  assert (P5 : forall c, In c act5 -> c_ticks c = f (c_id c)).
  { intros c Hc. apply (in_map idt) in Hc. rewrite E5, E4 in Hc. apply in_map_iff in Hc.
    destruct Hc as [c2 [Ec Hc2]]. unfold idt, idt1 in Ec. injection Ec as Ei Et.
    destruct (P2 c2 Hc2) as [_ B]. rewrite <- Et, <- Ei. exact B. }
  split; [exact N2|]. cbn [upd_pool p_id p_tick_times p_active]. split; [reflexivity|]. split.
  - f_equal. rewrite map_map. cbn [result_of r_cid]. apply map_ext_in. intros c Hc.
    apply filter_In in Hc. apply P5, Hc.
  - intros c Hc. apply filter_In in Hc. destruct Hc as [Hc Hn]. split; [|apply P5, Hc].
    apply negb_true_iff in Hn. exact Hn.
Qed.

(* all pools *)
Lemma pools_tick_times C (f : nat -> Z) ss asgs : forall ps w next w' next' ps' res,
  pools_tick C w next ps ss asgs = Ok (w', next', ps', res) ->
  (forall p c, In p ps -> In c (p_active p) -> c_completed c = false /\ (c_ticks c + 1)%Z = f (c_id c)) ->
  (forall id, next <= id < next + list_sum (map (fun p => length (LedgerFacts.routed a_pool p asgs)) ps) ->
     f id = 1%Z) ->
  next' = next + list_sum (map (fun p => length (LedgerFacts.routed a_pool p asgs)) ps) /\
  map p_id ps' = map p_id ps /\
  Permutation (flat_map p_tick_times ps') (flat_map p_tick_times ps ++ map (fun r => f (r_cid r)) res) /\
  (forall p c, In p ps' -> In c (p_active p) -> c_completed c = false /\ c_ticks c = f (c_id c)).
Proof.
  induction ps as [|p t IH]; intros w next w' next' ps' res H Hold Hnew.
  - cbn in H. inversion H; subst. cbn. split; [lia|]. split; [reflexivity|]. split; [constructor|].
    intros ? ? [].
  - cbn [pools_tick] in H. cbv zeta in H.
    bind_inv H r1 E1. destruct r1 as [[[w1 next1] p1] res1]. cbv beta iota in H.
    bind_inv H r2 E2. destruct r2 as [[[w2 next2] t2] res2]. cbv beta iota in H.
    inversion H; subst. clear H.
    cbn [map] in Hnew. rewrite LedgerFacts.list_sum_cons in Hnew. unfold LedgerFacts.routed at 1 in Hnew.
    apply (pool_tick_times C f) in E1.
    + destruct E1 as (N1 & Id1 & T1 & A1).
      apply IH in E2.
      * destruct E2 as (N2 & Id2 & T2 & A2).
        cbn [map]. rewrite LedgerFacts.list_sum_cons. unfold LedgerFacts.routed at 1.
        split; [lia|]. split; [rewrite Id1, Id2; reflexivity|]. split.
        -- cbn [flat_map]. rewrite T1, map_app, <- !app_assoc. apply Permutation_app_head.
           eapply perm_trans; [apply Permutation_app_head; exact T2|].
           rewrite !app_assoc. apply Permutation_app_tail. apply Permutation_app_comm.
        -- intros q c [<-|Hq] Hc; [apply A1, Hc|eapply A2; eauto].
      * intros q c Hq Hc. apply (Hold q c); [right; exact Hq|exact Hc].
      * intros id Hid. apply Hnew. lia.
    + intros c Hc. apply (Hold p c); [left; reflexivity|exact Hc].
    + intros id Hid. apply Hnew. lia.
Qed.

Lemma exec_tick_times C (f : nat -> Z) s ss asgs s' res :
  exec_tick C s ss asgs = Ok (s', res) ->
  LedgerFacts.pools_wf (e_pools s) ->
  (forall p c, In p (e_pools s) -> In c (p_active p) ->
     c_completed c = false /\ (c_ticks c + 1)%Z = f (c_id c)) ->
  (forall id, e_next s <= id < e_next s + length asgs -> f id = 1%Z) ->
  e_next s' = e_next s + length asgs /\ LedgerFacts.pools_wf (e_pools s') /\
  Permutation (flat_map p_tick_times (e_pools s'))
              (flat_map p_tick_times (e_pools s) ++ map (fun r => f (r_cid r)) res) /\
  (forall p c, In p (e_pools s') -> In c (p_active p) -> c_completed c = false /\ c_ticks c = f (c_id c)).
Proof.
  intros H WF Hold Hnew.
  pose proof (LedgerFacts.exec_tick_ok_in_range _ _ _ _ _ H) as [_ Ra].
  pose proof (LedgerFacts.routing_count a_pool (e_pools s) asgs WF Ra) as RC.
  unfold exec_tick in H. cbv zeta in H.
  match type of H with (if ?b then _ else _) = _ => destruct b end; [discriminate|].
  bind_inv H r E. destruct r as [[[w next] ps] res1]. cbv beta iota in H. inversion H; subst.
  cbn [e_next e_pools].
  apply (pools_tick_times C f) in E; [|exact Hold|rewrite RC; exact Hnew].
  rewrite RC in E. destruct E as (N & Ids & P & A).
  split; [exact N|]. split; [|split; [exact P|exact A]].
  unfold LedgerFacts.pools_wf in *. rewrite Ids, WF.
  rewrite <- (map_length p_id ps), Ids, map_length. reflexivity.
Qed.

(* ---- the birth tick read from the log ---- *)

(* [birth] agrees with the log [logs] whose first tick is [t] and before which [base] containers existed *)
Fixpoint births_ok (birth : nat -> Z) (t : Z) (base : nat) (logs : list tick_log) : Prop :=
  match logs with
  | [] => True
  | lg :: r =>
      (forall id, base <= id < base + length (tl_asgs lg) -> birth id = t) /\
      births_ok birth (t + 1)%Z (base + length (tl_asgs lg)) r
  end.

Lemma births_ok_ext b1 b2 : forall logs t base,
  (forall id, base <= id -> b1 id = b2 id) -> births_ok b1 t base logs -> births_ok b2 t base logs.
Proof.
  induction logs as [|lg r IH]; intros t base E H; [exact I|].
  cbn [births_ok] in *. destruct H as [H1 H2]. split.
  - intros id Hid. rewrite <- E by lia. apply H1, Hid.
  - eapply IH; [|exact H2]. intros id Hid. apply E. lia.
Qed.

Lemma rc_birth_from_ok : forall logs t base, births_ok (rc_birth_from t base logs) t base logs.
Proof.
  induction logs as [|lg r IH]; intros t base; [exact I|].
  cbn [births_ok]. split.
  - intros id Hid. cbn [rc_birth_from]. cbv zeta.
    replace (id <? base + length (tl_asgs lg)) with true; [reflexivity|].
    symmetry. apply Nat.ltb_lt. lia.
  - eapply births_ok_ext; [|apply IH]. intros id Hid. cbn [rc_birth_from]. cbv zeta.
    replace (id <? base + length (tl_asgs lg)) with false; [reflexivity|].
    symmetry. apply Nat.ltb_ge. lia.
Qed.

(* ---- the run ---- *)

Definition times_of (s : sim) : list Z := flat_map p_tick_times (e_pools (sm_exec s)).

Definition ages_ok (birth : nat -> Z) (t : Z) (s : sim) : Prop :=
  forall p c, In p (e_pools (sm_exec s)) -> In c (p_active p) ->
    c_completed c = false /\ c_ticks c = (t - birth (c_id c))%Z.

Lemma sim_tick_times C a birth t s newp s1 lg :
  sim_tick C a t s newp = Ok (s1, lg) ->
  LedgerFacts.pools_wf (e_pools (sm_exec s)) -> ages_ok birth t s ->
  (forall id, e_next (sm_exec s) <= id < e_next (sm_exec s) + length (tl_asgs lg) -> birth id = t) ->
  e_next (sm_exec s1) = e_next (sm_exec s) + length (tl_asgs lg) /\
  LedgerFacts.pools_wf (e_pools (sm_exec s1)) /\ ages_ok birth (t + 1)%Z s1 /\
  Permutation (times_of s1)
              (times_of s ++ map (fun x => (t - birth (r_cid x) + 1)%Z) (tl_results lg)).
Proof.
  intros H WF Ag Hb. apply sim_tick_inv in H.
  destruct H as (ss' & w' & e2 & _ & He & _ & _ & _ & Hx & _). subst e2.
  apply (exec_tick_times C (fun id => (t + 1 - birth id)%Z)) in He; cbn [e_pools e_next] in *.
  - destruct He as (N & WF1 & P & A). split; [exact N|]. split; [exact WF1|]. split; [exact A|].
    unfold times_of. eapply perm_trans; [exact P|]. apply Permutation_app_head.
    erewrite map_ext; [apply Permutation_refl|]. intros x. cbv beta. lia.
  - exact WF.
  - intros p c Hp Hc. destruct (Ag p c Hp Hc) as [A B]. split; [exact A|]. rewrite B. lia.
  - intros id Hid. rewrite (Hb id Hid). lia.
Qed.

(* any run (also one that stops at an error): the recorded times are the old ones plus the recount *)
Lemma sim_run_times C a birth : forall arrivals t s sf logs e,
  sim_run C a t s arrivals = (sf, logs, e) ->
  LedgerFacts.pools_wf (e_pools (sm_exec s)) -> ages_ok birth t s ->
  births_ok birth t (e_next (sm_exec s)) logs ->
  Permutation (times_of sf) (times_of s ++ rc_run_lengths_from birth t logs).
Proof.
  induction arrivals as [|newp r IH]; intros t s sf logs e H WF Ag Hb; cbn [sim_run] in H.
  - inversion H; subst. cbn [rc_run_lengths_from]. rewrite app_nil_r. apply Permutation_refl.
  - destruct (sim_tick C a t s newp) as [[s1 lg]|e1] eqn:E.
    + destruct (sim_run C a (t + 1)%Z s1 r) as [[sf' logs'] e'] eqn:R.
      inversion H; subst. cbn [births_ok] in Hb. destruct Hb as [Hb1 Hb2].
      destruct (sim_tick_times _ _ _ _ _ _ _ _ E WF Ag Hb1) as (N & WF1 & Ag1 & P1).
      rewrite <- N in Hb2. specialize (IH _ _ _ _ _ R WF1 Ag1 Hb2).
      cbn [rc_run_lengths_from]. eapply perm_trans; [exact IH|].
      rewrite app_assoc. apply Permutation_app_tail. exact P1.
    + inversion H; subst. cbn [rc_run_lengths_from]. rewrite app_nil_r. apply Permutation_refl.
Qed.

Lemma times_init C np cpu ram : times_of (init_sim C np cpu ram) = [].
Proof.
  unfold times_of, init_sim, init_estate. cbn [sm_exec e_pools].
  induction (seq 0 np) as [|x l IH]; [reflexivity|]. cbn [map flat_map new_pool p_tick_times app]. exact IH.
Qed.

Lemma ages_init C np cpu ram birth t : ages_ok birth t (init_sim C np cpu ram).
Proof.
  intros p c Hp Hc. unfold init_sim, init_estate in Hp. cbn [sm_exec e_pools] in Hp.
  apply in_map_iff in Hp. destruct Hp as [i [<- _]]. destruct Hc.
Qed.

(* the recorded container_tick_times of a run are, up to order, the run lengths recounted from its log *)
Theorem tick_times_recount C a np cpu ram arrivals s logs e :
  sim_run C a 0%Z (init_sim C np cpu ram) arrivals = (s, logs, e) ->
  Permutation (flat_map p_tick_times (e_pools (sm_exec s))) (rc_run_lengths logs).
Proof.
  intros H.
  pose proof (sim_run_times C a (rc_birth logs) _ _ _ _ _ _ H (LedgerFacts.pools_wf_init C np cpu ram)
                (ages_init C np cpu ram _ _)) as P.
  rewrite times_init in P. apply P. cbn [init_sim sm_exec init_estate e_next]. apply rc_birth_from_ok.
Qed.

Lemma rc_run_lengths_length birth : forall logs t,
  length (rc_run_lengths_from birth t logs) = length (rc_results logs).
Proof.
  induction logs as [|lg r IH]; intros t; [reflexivity|].
  cbn [rc_run_lengths_from]. unfold rc_results. cbn [map concat]. rewrite !app_length, map_length.
  f_equal. apply IH.
Qed.

Theorem p99_refines_recount C a np cpu ram arrivals s logs e :
  sim_run C a 0%Z (init_sim C np cpu ram) arrivals = (s, logs, e) ->
  forall dur : Q,
  st_p99 (final_stats C dur s) = div_tps (cf_tps C) (percentile99 (rc_run_lengths logs)) /\
  Permutation (flat_map p_tick_times (e_pools (sm_exec s))) (rc_run_lengths logs) /\
  length (rc_run_lengths logs) = length (rc_results logs).
Proof.
  intros H dur. pose proof (tick_times_recount _ _ _ _ _ _ _ _ _ H) as P.
  split; [|split; [exact P|apply rc_run_lengths_length]].
  unfold final_stats. cbn [st_p99]. f_equal. apply percentile99_perm. exact P.
Qed.

(* the same for the entry point [sim_main] (refusals before the first tick, the zero-RAM epilogue) *)
Theorem p99_refines_recount_main C a np cpu ram arrivals s logs e :
  sim_main C a np cpu ram arrivals = (s, logs, e) ->
  forall dur : Q,
  st_p99 (final_stats C dur s) = div_tps (cf_tps C) (percentile99 (rc_run_lengths logs)) /\
  Permutation (flat_map p_tick_times (e_pools (sm_exec s))) (rc_run_lengths logs) /\
  length (rc_run_lengths logs) = length (rc_results logs).
Proof.
  unfold sim_main. cbv zeta. intros H.
  assert (G : exists arr e', sim_run C a 0%Z (init_sim C np cpu ram) arr = (s, logs, e')).
  { destruct (negb (pool_count_ok a np)).
    - inversion H; subst. exists [], None. reflexivity.
    - destruct (total_ram_zero np ram); [|exists arrivals, e; exact H].
      destruct arrivals as [|newp r].
      + inversion H; subst. exists [], None. reflexivity.
      + destruct (sim_tick C a 0%Z (init_sim C np cpu ram) newp) as [[s1 lg]|e1] eqn:E.
        * inversion H; subst. exists [newp], None. cbn [sim_run]. rewrite E. reflexivity.
        * inversion H; subst. exists [], None. reflexivity. }
  destruct G as (arr & e' & G). intros dur. eapply p99_refines_recount; eauto.
Qed.

(* ------------------------------------------------------------------------------------------ *)
(* 2. failure_error_counts                                                                      *)
(* ------------------------------------------------------------------------------------------ *)

Lemma fec_fold_one : forall (l : list result) v,
  fold_left (fun d r => fec_incr (result_error_code r) d) l [(oom_code, v)]
  = [(oom_code, (v + Z.of_nat (length l))%Z)].
Proof.
  induction l as [|r t IH]; intros v.
  - cbn. rewrite Z.add_0_r. reflexivity.
  - cbn [fold_left]. unfold result_error_code at 2. cbn [fec_incr]. rewrite Nat.eqb_refl, IH.
    cbn [length]. do 2 f_equal. lia.
Qed.

Lemma failure_counts_recount logs :
  failure_error_counts logs =
  if (rc_failures logs =? 0)%Z then [] else [(oom_code, rc_failures logs)].
Proof.
  unfold failure_error_counts, rc_failures, rc_results.
  destruct (filter r_err (concat (map tl_results logs))) as [|r t]; [reflexivity|].
  cbn [fold_left]. unfold result_error_code at 2. cbn [fec_incr]. rewrite fec_fold_one.
  destruct (Z.of_nat (length (r :: t)) =? 0)%Z eqn:E; [apply Z.eqb_eq in E; cbn [length] in E; lia|].
  do 2 f_equal. cbn [length]. lia.
Qed.

Lemma run_failures C a : forall arrivals t s sf logs e,
  sim_run C a t s arrivals = (sf, logs, e) -> sm_nfail sf = (sm_nfail s + rc_failures logs)%Z.
Proof.
  induction arrivals as [|newp r IH]; intros t s sf logs e H; cbn [sim_run] in H.
  - inversion H; subst. unfold rc_failures, rc_results. cbn. lia.
  - destruct (sim_tick C a t s newp) as [[s1 lg]|e1] eqn:E.
    + destruct (sim_run C a (t + 1)%Z s1 r) as [[sf' logs'] e'] eqn:R.
      inversion H; subst. rewrite (IH _ _ _ _ _ R). apply sim_tick_inv in E.
      destruct E as (_ & _ & _ & _ & _ & _ & _ & _ & _ & _ & _ & _ & _ & _ & _ & _ & H4).
      rewrite H4. unfold rc_failures, rc_results. cbn [map concat]. rewrite filter_length_app. lia.
    + inversion H; subst. unfold rc_failures, rc_results. cbn. lia.
Qed.

Theorem failure_counts C a np cpu ram arrivals s logs e :
  sim_run C a 0%Z (init_sim C np cpu ram) arrivals = (s, logs, e) ->
  forall dur : Q,
  let failures := st_failures (final_stats C dur s) in
  failure_error_counts logs = if (failures =? 0)%Z then [] else [(1, failures)].
Proof.
  intros H dur. cbv zeta. unfold final_stats. cbn [st_failures].
  rewrite (run_failures _ _ _ _ _ _ _ _ H). cbn [init_sim sm_nfail Z.add].
  apply failure_counts_recount.
Qed.

Theorem failure_counts_main C a np cpu ram arrivals s logs e :
  sim_main C a np cpu ram arrivals = (s, logs, e) ->
  forall dur : Q,
  let failures := st_failures (final_stats C dur s) in
  failure_error_counts logs = if (failures =? 0)%Z then [] else [(1, failures)].
Proof.
  unfold sim_main. cbv zeta. intros H.
  assert (G : exists arr e', sim_run C a 0%Z (init_sim C np cpu ram) arr = (s, logs, e')).
  { destruct (negb (pool_count_ok a np)).
    - inversion H; subst. exists [], None. reflexivity.
    - destruct (total_ram_zero np ram); [|exists arrivals, e; exact H].
      destruct arrivals as [|newp r].
      + inversion H; subst. exists [], None. reflexivity.
      + destruct (sim_tick C a 0%Z (init_sim C np cpu ram) newp) as [[s1 lg]|e1] eqn:E.
        * inversion H; subst. exists [newp], None. cbn [sim_run]. rewrite E. reflexivity.
        * inversion H; subst. exists [], None. reflexivity. }
  destruct G as (arr & e' & G). intros dur. exact (failure_counts _ _ _ _ _ _ _ _ _ G dur).
Qed.

(* ------------------------------------------------------------------------------------------ *)
(* 3. an uncontended pipeline, at the level of the simulator loop                               *)
(* ------------------------------------------------------------------------------------------ *)

(* ---- generic pieces ---- *)

Lemma filter_nothing {A} (f : A -> bool) l : (forall x, In x l -> f x = false) -> filter f l = [].
Proof.
  induction l as [|x t IH]; intros H; [reflexivity|]. cbn [filter].
  rewrite (H x (or_introl eq_refl)). apply IH. intros y Hy. apply H. right. exact Hy.
Qed.

Lemma sim_tick_assemble C a t s newp arr ss' w' susps asgs e2 results :
  record_arrivals t newp (sm_arrival s) = Ok arr ->
  sched_step C a (sm_sched s) (sm_exec s) (sm_results s) newp = Ok (ss', w', susps, asgs) ->
  exec_tick C {| e_world := w'; e_pools := e_pools (sm_exec s); e_next := e_next (sm_exec s) |} susps asgs
    = Ok (e2, results) ->
  sim_tick C a t s newp =
  Ok (let outstanding := fold_left (fun l p => add_absent p l) newp (sm_outstanding s) in
      let fin := match results with
                 | [] => []
                 | _ => filter (fun p => is_successful (cf_static C) (e_world e2) p) outstanding
                 end in
      ({| sm_exec := e2; sm_sched := ss'; sm_results := results;
          sm_outstanding := filter (fun p => negb (memb p fin)) outstanding;
          sm_arrival := arr;
          sm_lat := sm_lat s ++ map (fun p => (pd_prio (pipe_of (cf_static C) p), (t - arrival_of p arr)%Z)) fin;
          sm_created := (sm_created s + Z.of_nat (length newp))%Z;
          sm_nasg := (sm_nasg s + Z.of_nat (length asgs))%Z;
          sm_nsusp := (sm_nsusp s + Z.of_nat (length susps))%Z;
          sm_nfail := (sm_nfail s + Z.of_nat (length (filter r_err results)))%Z |},
       {| tl_new := newp; tl_susp := susps; tl_asgs := asgs; tl_results := results; tl_finished := fin |})).
Proof.
  intros A B D. unfold sim_tick. rewrite A. cbn [bind]. rewrite B. cbn [bind]. rewrite D. reflexivity.
Qed.

(* the executor with a single pool (id 0) and no suspension *)
Lemma exec_tick_one C w next p asgs w' next' p' res :
  p_id p = 0 -> (forall a, In a asgs -> a_pool a = 0%Z) ->
  pool_tick C w next p [] asgs = Ok (w', next', p', res) ->
  exec_tick C {| e_world := w; e_pools := [p]; e_next := next |} [] asgs
  = Ok ({| e_world := w'; e_pools := [p']; e_next := next' |}, res).
Proof.
  intros Hid Ha H. unfold exec_tick. cbn [e_pools length forallb e_world e_next].
  assert (R : forallb (fun a => pool_in_range 1 (a_pool a)) asgs = true).
  { apply forallb_forall. intros a Ia. rewrite (Ha a Ia). reflexivity. }
  rewrite R. cbn [andb negb pools_tick filter]. rewrite Hid.
  rewrite (ConserveFacts.filter_all (fun a => (a_pool a =? Z.of_nat 0)%Z) asgs)
    by (intros a Ia; rewrite (Ha a Ia); reflexivity).
  rewrite H. cbn [bind]. rewrite app_nil_r. reflexivity.
Qed.

(* a pool without live containers and without commands does nothing *)
Lemma pool_tick_idle C w next p :
  p_active p = [] -> p_suspending p = [] -> pool_tick C w next p [] [] = Ok (w, next, p, []).
Proof.
  intros Ha Hs. unfold pool_tick. rewrite Ha, Hs.
  cbn [bind tick_suspending tick_active filter map sumZ fold_left oom_killer kill_over_limit].
  destruct (Qleb (p_consumed p) (p_max_ram p));
    cbn [bind kill_until_fits victims_order filter map sort_desc fold_right sumZ fold_left length Z.of_nat];
    rewrite !Z.add_0_r, !app_nil_r; destruct p; cbn in *; subst; reflexivity.
Qed.

(* the first tick of a pool that receives its only container *)
Lemma pool_tick_first C w next p a w' cons' c' :
  p_active p = [] -> p_suspending p = [] ->
  verify_assignments C p [a] = Ok tt -> opcount_ok C a = true ->
  ctick C w (p_consumed p) (new_container next (a_ops a) (a_cpu a) (a_ram a) (a_prio a)) = Ok (w', cons', c') ->
  Qltb (c_ram c') (c_mem c') = false -> Qleb cons' (p_max_ram p) = true ->
  exists p',
    pool_tick C w next p [] [a] = Ok (w', S next, p', map (result_of (p_id p)) (filter c_completed [c'])) /\
    p_active p' = filter (fun c => negb (c_completed c)) [c'] /\ p_suspending p' = [] /\
    (c_completed c' = false -> p_consumed p' = cons') /\
    p_max_ram p' = p_max_ram p /\ p_id p' = p_id p.
Proof.
  intros Ha Hs Hv Ho Ht Hm Hc. unfold pool_tick. rewrite Ha, Hs, Hv.
  cbn [bind apply_assignments]. rewrite Ho. cbn [app tick_suspending tick_active bind]. rewrite Ht. cbn [bind].
  unfold oom_killer. cbn [kill_over_limit]. rewrite Hm. cbn [bind]. rewrite Hc.
  eexists. split; [reflexivity|]. cbn [upd_pool p_active p_suspending p_consumed p_max_ram p_id filter].
  split; [reflexivity|]. split; [reflexivity|]. split; [|split; reflexivity].
  intros Hf. rewrite Hf. reflexivity.
Qed.

Lemma In_firstn_nth {A} (d : A) : forall (l : list A) i x, In x (firstn i l) -> exists j, j < i /\ nth j l d = x.
Proof.
  induction l as [|h t IH]; intros i x H; [rewrite firstn_nil in H; destruct H|].
  destruct i as [|i]; [destruct H|]. cbn [firstn] in H. destruct H as [<-|H].
  - exists 0. split; [lia|reflexivity].
  - destruct (IH i x H) as (j & Hj & E). exists (S j). split; [lia|exact E].
Qed.

Lemma transition_all_length S : forall ops w new w',
  transition_all S w ops new = Ok w' -> length (w_st w') = length (w_st w).
Proof.
  induction ops as [|o t IH]; intros w new w' H; cbn [transition_all] in H.
  - inversion H. reflexivity.
  - bind_inv H w1 E. rewrite (IH _ _ _ H). eapply transition_length; eauto.
Qed.

(* the histogram invariant in every state of a run (as in AuditExamplesA, which comes later) *)
Lemma steps_in_hist_ok S w w' :
  NaiveFacts.static_ok S -> ClosedLoopFacts.ops_known S ->
  steps_in S w w' -> NaiveFacts.hist_ok S w -> NaiveFacts.hist_ok S w'.
Proof.
  intros SO Cov H. induction H as [|w op new w' w'' Lt T _ IH]; intros Hh; [exact Hh|].
  apply IH. eapply NaiveFacts.transition_hist; eauto. apply Cov.
  destruct Hh as (Len & _). rewrite <- Len. exact Lt.
Qed.

Lemma sim_reach_hist_ok C a l np cpu ram t s :
  cf_static C = mk_static l -> dags_wf l ->
  PriorityPoolRunFacts.sim_reach C a 0%Z (init_sim C np cpu ram) t s ->
  NaiveFacts.hist_ok (cf_static C) (e_world (sm_exec s)).
Proof.
  intros E W R. pose proof (SimReachFacts.sim_reach_exec_r C a l np cpu ram t s E W R) as Rx.
  destruct (reach_steps_in C _ _ Rx (inv_init C np cpu ram)) as [SI _].
  eapply steps_in_hist_ok; [| |exact SI|].
  - rewrite E. apply NaiveFacts.static_ok_mk_static. exact W.
  - rewrite E. apply ClosedLoopFacts.mk_static_ops_known. exact W.
  - apply NaiveFacts.hist_ok_init.
Qed.

Lemma naive_scan_assign C w pid acpu aram p rest ops w1 :
  is_successful (S_of C) w p = false -> has_failures w p = false ->
  get_ops (S_of C) w p assignable false = ops -> ops <> [] ->
  mk_assignment C w {| a_ops := ops; a_cpu := acpu; a_ram := aram; a_prio := prio_of_pipe C p;
                       a_pool := Z.of_nat pid |} = Ok w1 ->
  naive_scan C false w pid acpu aram (p :: rest)
  = Ok (rest, [p], w1, Some {| a_ops := ops; a_cpu := acpu; a_ram := aram; a_prio := prio_of_pipe C p;
                              a_pool := Z.of_nat pid |}).
Proof.
  intros H1 H2 H3 H4 H5. cbn [naive_scan]. rewrite H1, H2. cbn [orb]. rewrite H3.
  destruct ops as [|o r]; [contradiction|]. rewrite H5. reflexivity.
Qed.

(* a queue of finished pipelines yields no assignment *)
Lemma naive_scan_done C single w pid acpu aram : forall q,
  (forall p, In p q -> is_successful (S_of C) w p = true) ->
  naive_scan C single w pid acpu aram q = Ok ([], [], w, None).
Proof.
  induction q as [|p r IH]; intros H; [reflexivity|]. cbn [naive_scan].
  rewrite (H p (or_introl eq_refl)). cbn [orb]. apply IH. intros x Hx. apply H. right. exact Hx.
Qed.

Lemma sim_run_app C a : forall l1 l2 t s,
  sim_run C a t s (l1 ++ l2) =
  match sim_run C a t s l1 with
  | (s1, logs1, None) =>
      let '(sf, logs2, e) := sim_run C a (t + Z.of_nat (length l1))%Z s1 l2 in (sf, logs1 ++ logs2, e)
  | (s1, logs1, Some e) => (s1, logs1, Some e)
  end.
Proof.
  induction l1 as [|x r IH]; intros l2 t s.
  - cbn [app sim_run length Z.of_nat]. rewrite Z.add_0_r.
    destruct (sim_run C a t s l2) as [[sf logs2] e]. reflexivity.
  - cbn [app sim_run]. destruct (sim_tick C a t s x) as [[s1 lg]|e1]; [|reflexivity].
    rewrite IH. destruct (sim_run C a (t + 1)%Z s1 r) as [[s2 logs1] [e|]]; [reflexivity|].
    replace (t + 1 + Z.of_nat (length r))%Z with (t + Z.of_nat (length (x :: r)))%Z
      by (cbn [length]; lia).
    destruct (sim_run C a (t + Z.of_nat (length (x :: r)))%Z s2 l2) as [[sf logs2] e]. reflexivity.
Qed.

Lemma map_repeat_c {A B} (f : A -> B) x n : map f (repeat x n) = repeat (f x) n.
Proof. induction n as [|n IH]; [reflexivity|]. cbn [repeat map]. rewrite IH. reflexivity. Qed.

Section UncontendedSim.
Variable C : cfg.
Variable l : list (prio * dag).
Variables (cpu : Z) (ram : Q) (k t0 : nat).
Hypothesis HS : cf_static C = mk_static l.
Hypothesis HW : dags_wf l.
Hypothesis Hmulti : cf_multi C = true.
Hypothesis Ex : forall x, (cf_rnd C x == x)%Q.
Hypothesis Hcpu : (0 < cpu)%Z.
Hypothesis Hram : (0 < ram)%Q.
Let St := cf_static C.
Let ops := pd_order (pipe_of St k).
Hypothesis Hops : ops <> [].
Hypothesis Hne : forall i, i < length ops -> scr C ops cpu i <> [].
Hypothesis Hfit : all_fit C ops cpu ram.
Let T := total C ops cpu.
Let pr := pd_prio (pipe_of St k).
Let w0 := init_world St.
Let s0 := init_sim C 1 cpu ram.
Let a0 : asg := {| a_ops := ops; a_cpu := cpu; a_ram := ram; a_prio := prio_of_pipe C k; a_pool := Z.of_nat 0 |}.
Let w1 : world := match mk_assignment C w0 a0 with Ok w => w | Err _ => w0 end.
Let c0 := new_container 0 ops cpu ram pr.
Let r0 : result := {| r_cid := 0; r_ops := ops; r_cpu := cpu; r_ram := ram; r_prio := pr; r_pool := 0; r_err := false |}.

Lemma us_SK : NaiveFacts.static_ok St.
Proof. unfold St. rewrite HS. apply NaiveFacts.static_ok_mk_static. exact HW. Qed.

Lemma us_ops_pos : 0 < length ops.
Proof. destruct ops; [contradiction|cbn; lia]. Qed.

Lemma us_T_pos : 0 < T.
Proof.
  unfold T, total. pose proof (off_lt C ops cpu Hne 0 (length ops) us_ops_pos (le_n _)) as H.
  cbn [off] in H. exact H.
Qed.

Lemma us_assign : mk_assignment C w0 a0 = Ok w1.
Proof.
  unfold w1. destruct (mk_assignment C w0 a0) as [w|e] eqn:E; [reflexivity|exfalso].
  unfold mk_assignment in E. cbn [a0 a_ops a_cpu a_ram] in E.
  replace (length ops =? 0) with false in E by (symmetry; apply Nat.eqb_neq; pose proof us_ops_pos; lia).
  replace (cpu <=? 0)%Z with false in E by (symmetry; apply Z.leb_gt; exact Hcpu).
  replace (Qleb ram 0) with false in E.
  2:{ symmetry. unfold Qleb. destruct (Qle_bool ram 0) eqn:Q; [|reflexivity].
      apply Qle_bool_iff in Q. lra. }
  destruct (SafetyFacts.get_ops_assignable_ok (cf_static C) ops w0) as [w' Hw'].
  - apply us_SK.
  - intros o _. unfold w0. rewrite NaiveFacts.st_of_init. reflexivity.
  - rewrite Hw' in E. discriminate.
Qed.

Lemma us_w1_assigned o : In o ops -> st_of w1 o = Assigned.
Proof.
  intros Ho. pose proof us_assign as E. apply NaiveFacts.mk_assignment_transition_all in E.
  destruct E as [_ E]. cbn [a0 a_ops] in E. eapply transition_all_set; eauto.
  unfold w0, init_world. cbn [w_st]. rewrite repeat_length.
  destruct us_SK as [_ SO]. destruct (SO _ _ Ho) as (_ & R & _). exact R.
Qed.

Lemma us_w1_range o : In o ops -> o < length (w_st w1).
Proof.
  intros Ho. pose proof us_assign as E. apply NaiveFacts.mk_assignment_transition_all in E.
  destruct E as [_ E]. rewrite (transition_all_length _ _ _ _ _ E).
  unfold w0, init_world. cbn [w_st]. rewrite repeat_length.
  destruct us_SK as [_ SO]. destruct (SO _ _ Ho) as (_ & R & _). exact R.
Qed.

Lemma us_deps : forall i, i < length ops -> forall p, In p (op_parents (cf_static C) (nth i ops 0)) ->
  st_of w1 p = Completed \/ exists j, j < i /\ nth j ops 0 = p.
Proof.
  intros i Hi p Hp. right.
  assert (TP : ClosedLoopFacts.order_topo St).
  { unfold St. rewrite HS. apply ClosedLoopFacts.mk_static_order_topo. exact HW. }
  assert (E : ops = firstn i ops ++ nth i ops 0 :: skipn (S i) ops).
  { rewrite <- (firstn_skipn i ops) at 1. f_equal. apply skipn_cons_nth. exact Hi. }
  apply (In_firstn_nth 0 ops i p). eapply TP; [exact E|exact Hp].
Qed.

(* the container after [t] ticks (StatsFacts.run_at with the fresh pool) *)
Lemma us_run_at t : 0 < t <= T ->
  exists w cons c,
    cticks C t w1 0%Q c0 = Ok (w, cons, c) /\
    c_error c = false /\ (c_completed c = true <-> t = T) /\
    (c_mem c <= ram)%Q /\ (cons <= ram)%Q /\
    (t = T -> forall i, i < length ops -> st_of w (nth i ops 0) = Completed).
Proof.
  intros Ht.
  exact (StatsFacts.run_at C 0 ops cpu ram pr w1 (new_pool 0 cpu ram) Ex us_w1_assigned
           (proj1 us_SK k) us_w1_range us_deps Hne Hfit us_ops_pos (Qlt_le_weak _ _ Hram)
           ltac:(cbn [new_pool p_consumed p_max_ram]; lra) t Ht).
Qed.

Lemma us_not_successful0 : is_successful St w0 k = false.
Proof.
  destruct (is_successful St w0 k) eqn:E; [exfalso|reflexivity].
  destruct (NaiveFacts.hist_ok_init St) as (_ & _ & _ & Cn).
  assert (Ck : StatsFacts.counts_ok St w0 k) by (intros a; exact (Cn k a)).
  pose proof (proj1 (StatsFacts.never_while_unfinished St w0 k Ck) E) as E'.
  fold ops in E'. destruct ops as [|o r]; [contradiction|].
  specialize (E' o (or_introl eq_refl)). unfold w0 in E'. rewrite NaiveFacts.st_of_init in E'. discriminate.
Qed.

Lemma us_no_failures0 : has_failures w0 k = false.
Proof.
  unfold has_failures. destruct (NaiveFacts.hist_ok_init St) as (_ & _ & _ & Cn).
  assert (Ck : StatsFacts.counts_ok St w0 k) by (intros a; exact (Cn k a)).
  fold w0 in Ck. rewrite (Ck Failed), filter_nothing; [reflexivity|].
  intros o _. unfold w0. rewrite NaiveFacts.st_of_init. reflexivity.
Qed.

Lemma us_sched_arrive :
  sched_step C ANaive init_sstate (sm_exec s0) [] [k] = Ok (with_queue init_sstate [k], w1, [], [a0]).
Proof.
  unfold sched_step, naive_step, s0.
  cbn [init_sim sm_exec init_estate e_world e_pools seq map ss_queue init_sstate app].
  rewrite Hmulti. cbn [negb naive_pools new_pool p_avail_cpu p_avail_ram p_id].
  replace (cpu <=? 0)%Z with false by (symmetry; apply Z.leb_gt; exact Hcpu).
  replace (Qleb ram 0) with false.
  2:{ symmetry. unfold Qleb. destruct (Qle_bool ram 0) eqn:Q; [|reflexivity]. apply Qle_bool_iff in Q. lra. }
  cbn [orb].
  rewrite (naive_scan_assign C (init_world (cf_static C)) 0 cpu ram k [] ops w1).
  - reflexivity.
  - exact us_not_successful0.
  - exact us_no_failures0.
  - unfold get_ops. apply ConserveFacts.filter_all. intros o _.
    rewrite NaiveFacts.st_of_init. reflexivity.
  - exact Hops.
  - exact us_assign.
Qed.


Definition idle_log : tick_log :=
  {| tl_new := []; tl_susp := []; tl_asgs := []; tl_results := []; tl_finished := [] |}.

Lemma us_idle t : sim_tick C ANaive t s0 [] = Ok (s0, idle_log).
Proof.
  assert (Ee : exec_tick C {| e_world := e_world (sm_exec s0); e_pools := e_pools (sm_exec s0);
                              e_next := e_next (sm_exec s0) |} [] []
               = Ok (sm_exec s0, [])).
  { unfold s0. cbn [init_sim sm_exec init_estate e_world e_pools e_next seq map].
    apply exec_tick_one; [reflexivity|intros a []|]. apply pool_tick_idle; reflexivity. }
  rewrite (sim_tick_assemble C ANaive t s0 [] (sm_arrival s0) (sm_sched s0) (e_world (sm_exec s0)) [] []
             (sm_exec s0) []); [|reflexivity|reflexivity|exact Ee].
  unfold s0. cbn. reflexivity.
Qed.

Lemma us_reach0 : forall n, PriorityPoolRunFacts.sim_reach C ANaive 0%Z s0 (Z.of_nat n) s0.
Proof.
  induction n as [|n IH]; [constructor|].
  rewrite Nat2Z.inj_succ, <- Z.add_1_r. econstructor; [exact IH|apply us_idle].
Qed.

Definition running (i : nat) (s : sim) : Prop :=
  exists w cons c p,
    cticks C i w1 0%Q c0 = Ok (w, cons, c) /\ c_completed c = false /\ skey c = skey c0 /\
    sm_exec s = {| e_world := w; e_pools := [p]; e_next := 1 |} /\
    p_active p = [c] /\ p_suspending p = [] /\ p_consumed p = cons /\ p_max_ram p = ram /\ p_id p = 0 /\
    sm_results s = [] /\ sm_outstanding s = [k] /\ sm_arrival s = [(k, Z.of_nat t0)] /\ sm_lat s = [] /\
    (forall q, In q (ss_queue (sm_sched s)) -> q = k) /\
    PriorityPoolRunFacts.sim_reach C ANaive 0%Z s0 (Z.of_nat (t0 + i)) s.

Definition finished (s : sim) : Prop :=
  exists w p,
    sm_exec s = {| e_world := w; e_pools := [p]; e_next := 1 |} /\
    p_active p = [] /\ p_suspending p = [] /\ p_id p = 0 /\
    is_successful St w k = true /\
    (forall q, In q (ss_queue (sm_sched s)) -> q = k) /\
    sm_outstanding s = [] /\ sm_arrival s = [(k, Z.of_nat t0)] /\ sm_lat s = [(pr, Z.of_nat (T - 1))].

Definition after (i : nat) (s : sim) (lg : tick_log) : Prop :=
  (i < T -> running i s /\ tl_results lg = [] /\ tl_finished lg = []) /\
  (i = T -> finished s /\ tl_results lg = [r0] /\ tl_finished lg = [k]).

(* what the loop makes of a tick in which the only container went from i to i + 1 ticks *)
Lemma us_sweep i t w' cons' c' p' ss' newp asgs x1 x2 x3 x4 :
  S i <= T -> t = Z.of_nat (t0 + i) ->
  cticks C (S i) w1 0%Q c0 = Ok (w', cons', c') ->
  c_error c' = false -> (c_completed c' = true <-> S i = T) -> skey c' = skey c0 ->
  p_active p' = filter (fun c => negb (c_completed c)) [c'] -> p_suspending p' = [] ->
  (c_completed c' = false -> p_consumed p' = cons') -> p_max_ram p' = ram -> p_id p' = 0 ->
  (forall q, In q (ss_queue ss') -> q = k) ->
  forall s' lg,
  s' = (let results := map (result_of 0) (filter c_completed [c']) in
        let fin := match results with
                   | [] => []
                   | _ => filter (fun p => is_successful (cf_static C) w' p) [k]
                   end in
        {| sm_exec := {| e_world := w'; e_pools := [p']; e_next := 1 |}; sm_sched := ss';
           sm_results := results;
           sm_outstanding := filter (fun p => negb (memb p fin)) [k];
           sm_arrival := [(k, Z.of_nat t0)];
           sm_lat := [] ++ map (fun p => (pd_prio (pipe_of (cf_static C) p),
                                          (t - arrival_of p [(k, Z.of_nat t0)])%Z)) fin;
           sm_created := x1; sm_nasg := x2; sm_nsusp := x3; sm_nfail := x4 |}) ->
  lg = (let results := map (result_of 0) (filter c_completed [c']) in
        let fin := match results with
                   | [] => []
                   | _ => filter (fun p => is_successful (cf_static C) w' p) [k]
                   end in
        {| tl_new := newp; tl_susp := []; tl_asgs := asgs; tl_results := results; tl_finished := fin |}) ->
  PriorityPoolRunFacts.sim_reach C ANaive 0%Z s0 (t + 1)%Z s' ->
  after (S i) s' lg.
Proof.
  intros Hi Et Hct Her Hcp Hk Ha Hs Hc Hmx Hid Hq s' lg Es El Hr.
  destruct (c_completed c') eqn:Cc.
  - (* the completing tick *)
    assert (ET : S i = T) by (apply Hcp; reflexivity).
    assert (Suc : is_successful (cf_static C) w' k = true).
    { pose proof (sim_reach_hist_ok C ANaive l 1 cpu ram _ _ HS HW Hr) as (_ & _ & _ & Cn).
      rewrite Es in Cn. cbn [sm_exec e_world] in Cn.
      assert (Ck : StatsFacts.counts_ok (cf_static C) w' k) by (intros a; exact (Cn k a)).
      apply (proj2 (StatsFacts.never_while_unfinished _ _ _ Ck)). intros o Ho.
      destruct (us_run_at (S i) ltac:(lia)) as (w2 & cons2 & c2 & Hct2 & _ & _ & _ & _ & Hdone).
      rewrite Hct in Hct2. injection Hct2 as <- <- <-.
      destruct (In_nth _ _ 0 Ho) as (j & Hj & <-). apply (Hdone ET j Hj). }
    assert (Er : result_of 0 c' = r0).
    { unfold result_of, r0. unfold skey in Hk. cbn [c0 new_container c_id c_ops c_cpu c_ram c_prio] in Hk.
      injection Hk as -> -> -> -> ->. rewrite Her. reflexivity. }
    cbn [filter map] in Es, El. rewrite Cc in Es, El. cbn [map] in Es, El. rewrite Er in Es, El.
    cbn [filter] in Es, El. rewrite Suc in Es, El.
    cbn [filter memb existsb map app] in Es. rewrite Nat.eqb_refl in Es. cbn [orb negb] in Es.
    cbn [arrival_of] in Es. rewrite Nat.eqb_refl in Es.
    split; [intros; lia|]. intros _. split; [|subst lg; split; reflexivity].
    assert (Ha' : p_active p' = []) by (rewrite Ha; cbn [filter]; rewrite Cc; reflexivity).
    exists w', p'. subst s'. cbn [sm_exec sm_sched sm_outstanding sm_arrival sm_lat].
    repeat split; auto. f_equal. f_equal. fold St. fold pr. f_equal. lia.
  - (* the container goes on *)
    assert (NT : S i <> T) by (intros X; apply Hcp in X; discriminate).
    cbn [filter map] in Es, El. rewrite Cc in Es, El. cbn [map filter memb existsb negb app] in Es, El.
    split; [|intros; lia]. intros _. split; [|subst lg; split; reflexivity].
    assert (Ha' : p_active p' = [c']) by (rewrite Ha; cbn [filter]; rewrite Cc; reflexivity).
    exists w', cons', c', p'. subst s'. cbn [sm_exec sm_results sm_outstanding sm_arrival sm_lat sm_sched].
    replace (Z.of_nat (t0 + S i)) with (t + 1)%Z by lia.
    repeat split; auto.
Qed.

Lemma us_c_ram c : skey c = skey c0 -> c_ram c = ram /\ c_id c = 0.
Proof.
  unfold skey. cbn [c0 new_container c_id c_ops c_cpu c_ram c_prio]. intros H. injection H as -> _ _ -> _.
  split; reflexivity.
Qed.

(* the arrival tick: the scheduler hands the whole pool to the pipeline, the container runs its first tick *)
Lemma us_arrive :
  exists s1 lg, sim_tick C ANaive (Z.of_nat t0) s0 [k] = Ok (s1, lg) /\ tl_new lg = [k] /\ after 1 s1 lg.
Proof.
  pose proof us_T_pos as TP.
  destruct (us_run_at 1 ltac:(lia)) as (w' & cons' & c' & Hct & Her & Hcp & Hmem & Hcons & _).
  assert (Hct1 : ctick C w1 0%Q c0 = Ok (w', cons', c')).
  { rewrite run_S_last in Hct. cbn [cticks] in Hct. exact Hct. }
  pose proof (ctick_skey _ _ _ _ _ _ _ Hct1) as Hk. destruct (us_c_ram c' Hk) as [Hcr _].
  destruct (pool_tick_first C w1 0 (new_pool 0 cpu ram) a0 w' cons' c') as (p' & Hpt & Ha' & Hs' & Hc' & Hmx' & Hid');
    [reflexivity|reflexivity| | |exact Hct1| | |].
  { unfold verify_assignments. cbn [new_pool p_avail_cpu p_avail_ram map sumZ sumQ a0 a_cpu a_ram].
    replace (cpu <? cpu + 0)%Z with false by (symmetry; apply Z.ltb_ge; lia).
    replace (Qltb ram (ram + 0)) with false by (symmetry; apply cr_Qltb_false; lra).
    rewrite andb_false_r. reflexivity. }
  { unfold opcount_ok. rewrite Hmulti. cbn [a0 a_ops]. apply Nat.leb_le. pose proof us_ops_pos. lia. }
  { rewrite Hcr. apply cr_Qltb_false. exact Hmem. }
  { cbn [new_pool p_max_ram]. apply Qle_bool_iff. exact Hcons. }
  cbn [new_pool p_id p_max_ram] in Hpt, Hmx', Hid'.
  apply exec_tick_one in Hpt; [|reflexivity|intros a [<-|[]]; reflexivity].
  pose proof (sim_tick_assemble C ANaive (Z.of_nat t0) s0 [k] [(k, Z.of_nat t0)] _ _ _ _ _ _
                eq_refl us_sched_arrive Hpt) as Etick.
  eexists _, _. split; [exact Etick|]. split; [reflexivity|].
  eapply (us_sweep 0 (Z.of_nat t0) w' cons' c' p' (with_queue init_sstate [k]) [k] [a0]);
    try reflexivity; try eassumption.
  - f_equal. lia.
  - cbn [with_queue ss_queue]. intros q [<-|[]]. reflexivity.
  - econstructor; [apply us_reach0|exact Etick].
Qed.

(* a later tick of the run of the container: no arrival, no result before, the scheduler does nothing *)
Lemma us_step i s : running i s -> S i <= T ->
  exists s' lg, sim_tick C ANaive (Z.of_nat (t0 + i)) s [] = Ok (s', lg) /\ tl_new lg = [] /\ after (S i) s' lg.
Proof.
  intros (w & cons & c & p & Hct & Hnc & Hk & He & Ha & Hs & Hcons & Hmx & Hid & Hres & Hout & Harr & Hlat
          & Hq & Hr) Hi.
  pose proof us_T_pos as TP.
  destruct (us_run_at (S i) ltac:(lia)) as (w' & cons' & c' & Hct' & Her & Hcp & Hmem & Hcons' & _).
  pose proof Hct' as Hct1. rewrite run_S_last, Hct in Hct1.
  assert (Hk' : skey c' = skey c0) by (rewrite (ctick_skey _ _ _ _ _ _ _ Hct1); exact Hk).
  destruct (us_c_ram c' Hk') as [Hcr _].
  rewrite <- Hcons in Hct1.
  destruct (pool_tick_single C w 1 p c w' cons' c' Ha Hs Hct1) as (p' & Hpt & Ha' & Hs' & Hc' & Hmx' & Hid').
  { rewrite Hcr. apply cr_Qltb_false. exact Hmem. }
  { rewrite Hmx. apply Qle_bool_iff. exact Hcons'. }
  rewrite Hid in Hpt, Hid'. rewrite Hmx in Hmx'.
  apply exec_tick_one in Hpt; [|exact Hid|intros a []].
  destruct s as [se ss sres sout sarr slat x1 x2 x3 x4].
  cbn [sm_exec sm_sched sm_results sm_outstanding sm_arrival sm_lat] in *. subst se sres sout sarr slat.
  pose proof (sim_tick_assemble C ANaive (Z.of_nat (t0 + i))
                {| sm_exec := {| e_world := w; e_pools := [p]; e_next := 1 |}; sm_sched := ss; sm_results := [];
                   sm_outstanding := [k]; sm_arrival := [(k, Z.of_nat t0)]; sm_lat := [];
                   sm_created := x1; sm_nasg := x2; sm_nsusp := x3; sm_nfail := x4 |}
                [] [(k, Z.of_nat t0)] ss w [] [] _ _ eq_refl eq_refl Hpt) as Etick.
  eexists _, _. split; [exact Etick|]. split; [reflexivity|].
  eapply (us_sweep i (Z.of_nat (t0 + i)) w' cons' c' p' ss [] []);
    try reflexivity; try eassumption.
  replace (Z.of_nat (t0 + i) + 1)%Z with (Z.of_nat (t0 + i) + 1)%Z by reflexivity.
  econstructor; [exact Hr|exact Etick].
Qed.

(* after the completion: nothing is left to schedule, the pool is empty *)
Lemma us_sched_post ss w p results :
  is_successful St w k = true -> (forall q, In q (ss_queue ss) -> q = k) ->
  exists ss', sched_step C ANaive ss {| e_world := w; e_pools := [p]; e_next := 1 |} results [] = Ok (ss', w, [], [])
              /\ (forall q, In q (ss_queue ss') -> q = k).
Proof.
  intros Suc Hq. unfold sched_step, naive_step. cbn [e_world e_pools].
  destruct results as [|r rs]; [exists ss; split; [reflexivity|exact Hq]|].
  cbn [naive_pools]. rewrite app_nil_r.
  destruct ((p_avail_cpu p <=? 0)%Z || Qleb (p_avail_ram p) 0).
  - cbn [bind]. eexists. split; [reflexivity|]. cbn [with_queue ss_queue]. rewrite app_nil_r. exact Hq.
  - rewrite naive_scan_done.
    + cbn [bind naive_pools app]. eexists. split; [reflexivity|]. cbn [with_queue ss_queue]. intros q [].
    + intros q Hin. rewrite (Hq q Hin). exact Suc.
Qed.

Lemma us_post t s : finished s ->
  exists s' lg, sim_tick C ANaive t s [] = Ok (s', lg) /\ finished s' /\
                tl_new lg = [] /\ tl_results lg = [] /\ tl_finished lg = [].
Proof.
  intros (w & p & He & Ha & Hs & Hid & Suc & Hq & Hout & Harr & Hlat).
  destruct s as [se ss sres sout sarr slat x1 x2 x3 x4].
  cbn [sm_exec sm_sched sm_results sm_outstanding sm_arrival sm_lat] in *. subst se sout sarr slat.
  destruct (us_sched_post ss w p sres Suc Hq) as (ss' & Esch & Hq').
  pose proof (exec_tick_one C w 1 p [] w 1 p [] Hid ltac:(intros a []) (pool_tick_idle C w 1 p Ha Hs)) as Eex.
  pose proof (sim_tick_assemble C ANaive t
                {| sm_exec := {| e_world := w; e_pools := [p]; e_next := 1 |}; sm_sched := ss; sm_results := sres;
                   sm_outstanding := []; sm_arrival := [(k, Z.of_nat t0)]; sm_lat := [(pr, Z.of_nat (T - 1))];
                   sm_created := x1; sm_nasg := x2; sm_nsusp := x3; sm_nfail := x4 |}
                [] [(k, Z.of_nat t0)] ss' w [] [] _ _ eq_refl Esch Eex) as Etick.
  eexists _, _. split; [exact Etick|]. split; [|split; [reflexivity|split; reflexivity]].
  exists w, p. cbn. repeat split; auto.
Qed.

(* ---- the run, segment by segment ---- *)

Lemma us_seg_idle : forall n t, sim_run C ANaive t s0 (repeat [] n) = (s0, repeat idle_log n, None).
Proof.
  induction n as [|n IH]; intros t; [reflexivity|].
  cbn [repeat sim_run]. rewrite us_idle, IH. reflexivity.
Qed.

Lemma us_seg_run : forall m i s, running i s -> i + S m = T ->
  exists sf logs,
    sim_run C ANaive (Z.of_nat (t0 + i)) s (repeat [] (S m)) = (sf, logs, None) /\ finished sf /\
    map tl_new logs = repeat [] (S m) /\
    map tl_results logs = repeat [] m ++ [[r0]] /\ map tl_finished logs = repeat [] m ++ [[k]].
Proof.
  induction m as [|m IH]; intros i s Hrun Hi.
  - destruct (us_step i s Hrun ltac:(lia)) as (s' & lg & Et & Hn & _ & Hfin).
    destruct (Hfin ltac:(lia)) as (F & R & Fi).
    exists s', [lg]. cbn [repeat sim_run]. rewrite Et. cbn [map app]. rewrite Hn, R, Fi. repeat split; auto.
  - destruct (us_step i s Hrun ltac:(lia)) as (s' & lg & Et & Hn & Hgo & _).
    destruct (Hgo ltac:(lia)) as (Run' & R & Fi).
    destruct (IH (S i) s' Run' ltac:(lia)) as (sf & logs & Er & F & L1 & L2 & L3).
    exists sf, (lg :: logs). change (repeat [] (S (S m))) with (@nil nat :: repeat [] (S m)).
    cbn [sim_run]. rewrite Et.
    replace (Z.of_nat (t0 + i) + 1)%Z with (Z.of_nat (t0 + S i)) by lia. rewrite Er.
    split; [reflexivity|]. split; [exact F|]. cbn [map]. rewrite Hn, R, Fi, L1, L2, L3.
    repeat split; reflexivity.
Qed.

Lemma us_seg_post : forall n t s, finished s ->
  exists sf logs,
    sim_run C ANaive t s (repeat [] n) = (sf, logs, None) /\ finished sf /\
    map tl_new logs = repeat [] n /\ map tl_results logs = repeat [] n /\ map tl_finished logs = repeat [] n.
Proof.
  induction n as [|n IH]; intros t s F.
  - exists s, []. repeat split; auto.
  - destruct (us_post t s F) as (s' & lg & Et & F' & A & B & D).
    destruct (IH (t + 1)%Z s' F') as (sf & logs & Er & Ff & L1 & L2 & L3).
    exists sf, (lg :: logs). cbn [repeat sim_run]. rewrite Et, Er. cbn [map]. rewrite A, B, D, L1, L2, L3.
    repeat split; auto.
Qed.

Lemma us_seg_arrival :
  exists sf logs,
    sim_run C ANaive (Z.of_nat t0) s0 ([k] :: repeat [] (T - 1)) = (sf, logs, None) /\ finished sf /\
    map tl_new logs = [k] :: repeat [] (T - 1) /\
    map tl_results logs = repeat [] (T - 1) ++ [[r0]] /\ map tl_finished logs = repeat [] (T - 1) ++ [[k]].
Proof.
  pose proof us_T_pos as TP.
  destruct us_arrive as (s1 & lg & Et & Hn & Hgo & Hfin).
  destruct (T - 1) as [|m] eqn:Em.
  - destruct (Hfin ltac:(lia)) as (F & R & Fi). exists s1, [lg]. cbn [repeat sim_run]. rewrite Et.
    cbn [map app]. rewrite Hn, R, Fi. repeat split; auto.
  - destruct (Hgo ltac:(lia)) as (Run & R & Fi).
    destruct (us_seg_run m 1 s1 Run ltac:(lia)) as (sf & logs & Er & F & L1 & L2 & L3).
    exists sf, (lg :: logs). cbn [sim_run]. rewrite Et.
    replace (Z.of_nat t0 + 1)%Z with (Z.of_nat (t0 + 1)) by lia. rewrite Er.
    split; [reflexivity|]. split; [exact F|]. cbn [map]. rewrite Hn, R, Fi, L1, L2, L3.
    repeat split; reflexivity.
Qed.

Theorem us_main n : T - 1 <= n ->
  exists s logs,
    sim_run C ANaive 0%Z s0 (repeat [] t0 ++ [k] :: repeat [] n) = (s, logs, None) /\
    map tl_new logs = repeat [] t0 ++ [k] :: repeat [] n /\
    map tl_results logs = repeat [] (t0 + (T - 1)) ++ [r0] :: repeat [] (n - (T - 1)) /\
    map tl_finished logs = repeat [] (t0 + (T - 1)) ++ [k] :: repeat [] (n - (T - 1)) /\
    sm_arrival s = [(k, Z.of_nat t0)] /\ sm_lat s = [(pr, Z.of_nat (T - 1))].
Proof.
  intros Hn.
  destruct us_seg_arrival as (s1 & logs1 & E1 & F1 & A1 & B1 & D1).
  destruct (us_seg_post (n - (T - 1)) (Z.of_nat t0 + Z.of_nat (length ([k] :: repeat [] (T - 1))))%Z s1 F1)
    as (s2 & logs2 & E2 & F2 & A2 & B2 & D2).
  exists s2, (repeat idle_log t0 ++ logs1 ++ logs2).
  replace n with ((T - 1) + (n - (T - 1))) at 1 2 by lia.
  rewrite repeat_app. change ([k] :: repeat [] (T - 1) ++ repeat [] (n - (T - 1)))
    with (([k] :: repeat [] (T - 1)) ++ repeat [] (n - (T - 1))).
  rewrite sim_run_app, us_seg_idle, repeat_length, Z.add_0_l, sim_run_app, E1, E2.
  split; [reflexivity|].
  rewrite !map_app, A1, A2, B1, B2, D1, D2.
  rewrite !map_repeat_c. cbn [idle_log tl_new tl_results tl_finished].
  destruct F2 as (w & p & _ & _ & _ & _ & _ & _ & _ & Harr & Hlat).
  split; [reflexivity|].
  split; [rewrite repeat_app, <- !app_assoc; reflexivity|].
  split; [rewrite repeat_app, <- !app_assoc; reflexivity|]. split; assumption.
Qed.
End UncontendedSim.

Lemma percentile99_single x : exists q, percentile99 [x] = Some q /\ (q == inject_Z x)%Q.
Proof.
  unfold percentile99. cbn [sortZ fold_right insZ length].
  replace (floorQ (inject_Z (Z.of_nat 1 - 1) * (99 # 100))) with 0%Z by (vm_compute; reflexivity).
  cbn [Z.to_nat Z.add nth Pos.to_nat Pos.iter_op Nat.add]. eexists. split; [reflexivity|].
  rewrite Z.sub_diag. change (inject_Z 0) with 0%Q. ring.
Qed.

Lemma meanZ_single x : exists q, meanZ [x] = Some q /\ (q == inject_Z x)%Q.
Proof.
  unfold meanZ. cbn [sumZ length]. eexists. split; [reflexivity|].
  rewrite Z.add_0_r. change (inject_Z (Z.of_nat 1)) with 1%Q. field.
Qed.

Lemma div_tps_some tps o x : (exists q, o = Some q /\ (q == x)%Q) ->
  exists q, div_tps tps o = Some q /\ (q == x / inject_Z tps)%Q.
Proof.
  intros (q & -> & E). cbn [div_tps]. eexists. split; [reflexivity|]. rewrite E. reflexivity.
Qed.

(* naive, multi-operator containers, one pool: the only pipeline of the run, arriving in tick t0, whose
   operators' demands never exceed the pool's RAM, gets the whole pool in its arrival tick; its container is
   ticked from that same tick on and reports success in tick t0 + total - 1, in which the pipeline is recorded
   as finished; no other tick has a result. Its latency is total - 1 ticks, and the latency statistics are
   that number / ticks_per_second. *)
Theorem uncontended_latency_sim C l cpu ram k t0 n :
  cf_static C = mk_static l -> dags_wf l -> cf_multi C = true ->
  (forall x, (cf_rnd C x == x)%Q) ->
  (0 < cpu)%Z -> (0 < ram)%Q ->
  let ops := pd_order (pipe_of (cf_static C) k) in
  let pr := pd_prio (pipe_of (cf_static C) k) in
  let total := total C ops cpu in
  ops <> [] -> (forall i, i < length ops -> scr C ops cpu i <> []) -> all_fit C ops cpu ram ->
  total - 1 <= n ->
  let r := {| r_cid := 0; r_ops := ops; r_cpu := cpu; r_ram := ram; r_prio := pr; r_pool := 0;
              r_err := false |} in
  exists s logs,
    sim_run C ANaive 0%Z (init_sim C 1 cpu ram) (repeat [] t0 ++ [k] :: repeat [] n) = (s, logs, None) /\
    map tl_new logs = repeat [] t0 ++ [k] :: repeat [] n /\
    map tl_results logs = repeat [] (t0 + (total - 1)) ++ [r] :: repeat [] (n - (total - 1)) /\
    map tl_finished logs = repeat [] (t0 + (total - 1)) ++ [k] :: repeat [] (n - (total - 1)) /\
    sm_arrival s = [(k, Z.of_nat t0)] /\ sm_lat s = [(pr, Z.of_nat (total - 1))] /\
    forall dur : Q,
      let st := final_stats C dur s in
      st_all st = pipeline_stats (cf_tps C) 1 [Z.of_nat (total - 1)] /\
      (exists m p, pst_mean (st_all st) = Some m /\ pst_p99 (st_all st) = Some p /\
                   (m == inject_Z (Z.of_nat (total - 1)) / inject_Z (cf_tps C))%Q /\
                   (p == inject_Z (Z.of_nat (total - 1)) / inject_Z (cf_tps C))%Q).
Proof.
  intros HS HW Hm Ex Hc Hr ops pr total Hops Hne Hfit Hn r.
  destruct (us_main C l cpu ram k t0 HS HW Hm Ex Hc Hr Hops Hne Hfit n Hn)
    as (s & logs & E & A & B & D & Harr & Hlat).
  exists s, logs. repeat (split; [assumption|]).
  intros dur st.
  assert (Eall : st_all st = pipeline_stats (cf_tps C) 1 [Z.of_nat (total - 1)]).
  { unfold st, final_stats. cbn [st_all]. rewrite Harr. unfold lat_of. rewrite Hlat. cbn [filter fst snd map length].
    fold pr. destruct pr; reflexivity. }
  split; [exact Eall|]. rewrite Eall. unfold pipeline_stats. cbn [pst_mean pst_p99].
  destruct (div_tps_some (cf_tps C) _ _ (meanZ_single (Z.of_nat (total - 1)))) as (m & Em & Qm).
  destruct (div_tps_some (cf_tps C) _ _ (percentile99_single (Z.of_nat (total - 1)))) as (p & Ep & Qp).
  exists m, p. repeat split; assumption.
Qed.

(* ------------------------------------------------------------------------------------------ *)
(* Examples (non-vacuity)                                                                       *)
(* ------------------------------------------------------------------------------------------ *)

Module StatsExtraExamples.

(* pipeline 0 (Query): one operator, two ticks at 1 GB. pipeline 1 (Batch): the chain 1 -> 2; operator 1
   takes three ticks at 1 GB, operator 2 asks for 1 GB, then for 100 GB (more than the pool has).
   One pool of 4 CPUs / 8 GB, 10 ticks per second, naive with multi-operator containers. *)
Definition xl : list (prio * dag) := [(Query, [[]]); (Batch, [[]; [0]])].
Definition xC : cfg :=
  {| cf_static := mk_static xl;
     cf_script := fun op _ => if Nat.eqb op 0 then [1%Q; 1%Q]
                              else if Nat.eqb op 1 then [1%Q; 1%Q; 1%Q] else [1%Q; 100%Q];
     cf_tps := 10%Z; cf_overcommit := false; cf_multi := true; cf_rnd := fun x => x |}.
Definition x_arrivals : list (list nat) := [[0]; [1]; []; []; []; []; []; []; []; []].
Definition x_out : sim * list tick_log * option err :=
  Eval vm_compute in sim_run xC ANaive 0%Z (init_sim xC 1 4%Z 8%Q) x_arrivals.
Definition x_s : sim := fst (fst x_out).
Definition x_logs : list tick_log := snd (fst x_out).

Example x_run : sim_run xC ANaive 0%Z (init_sim xC 1 4%Z 8%Q) x_arrivals = (x_s, x_logs, None).
Proof. vm_compute. reflexivity. Qed.

(* the recount: the query's container is created in tick 0 and reports success in tick 1 (2 ticks); the
   batch container is created in tick 2 (the pool was taken before), and is killed in tick 6, the fifth tick
   of its run (5 ticks, a failure). *)
Example x_recount :
  map (fun lg => length (tl_asgs lg)) x_logs = [1; 0; 1; 0; 0; 0; 0; 0; 0; 0] /\
  map (fun lg => map (fun r => (r_cid r, r_err r)) (tl_results lg)) x_logs
    = [[]; [(0, false)]; []; []; []; []; [(1, true)]; []; []; []] /\
  map (rc_birth x_logs) [0; 1] = [0%Z; 2%Z] /\
  rc_run_lengths x_logs = [2%Z; 5%Z] /\
  flat_map p_tick_times (e_pools (sm_exec x_s)) = [2%Z; 5%Z] /\
  failure_error_counts x_logs = [(1, 1%Z)] /\
  st_failures (final_stats xC 1%Q x_s) = 1%Z.
Proof. vm_compute. repeat split; reflexivity. Qed.

(* p99 of [2; 5] = 2 + 3 * 0.99 = 4.97 ticks = 0.497 s *)
Example x_p99 :
  st_p99 (final_stats xC 1%Q x_s) = div_tps 10%Z (percentile99 [2%Z; 5%Z]) /\
  option_map Qred (st_p99 (final_stats xC 1%Q x_s)) = Some (497 # 1000)%Q.
Proof.
  split; [|vm_compute; reflexivity].
  destruct (p99_refines_recount _ _ _ _ _ _ _ _ _ x_run 1%Q) as (H & _).
  destruct x_recount as (_ & _ & _ & R & _). rewrite H, R. reflexivity.
Qed.

Example x_failure_counts :
  failure_error_counts x_logs = [(1, st_failures (final_stats xC 1%Q x_s))].
Proof.
  pose proof (failure_counts _ _ _ _ _ _ _ _ _ x_run 1%Q) as H. cbv zeta in H. rewrite H.
  destruct x_recount as (_ & _ & _ & _ & _ & _ & ->). reflexivity.
Qed.

(* a run without failures: the dict is empty *)
Example x_no_failure : failure_error_counts (firstn 5 x_logs) = [].
Proof. vm_compute. reflexivity. Qed.

(* ---- the uncontended pipeline: pipeline 1 of a fitting variant arrives alone in tick 2 ---- *)
Definition uC : cfg :=
  {| cf_static := mk_static xl;
     cf_script := fun op _ => if Nat.eqb op 1 then [1%Q; 2%Q; 1%Q] else [3%Q; 8%Q];
     cf_tps := 10%Z; cf_overcommit := false; cf_multi := true; cf_rnd := fun x => x |}.
Definition u_arrivals : list (list nat) := [[]; []; [1]; []; []; []; []; []; []].
Definition u_out : sim * list tick_log * option err :=
  Eval vm_compute in sim_run uC ANaive 0%Z (init_sim uC 1 4%Z 8%Q) u_arrivals.
Definition u_s : sim := fst (fst u_out).
Definition u_logs : list tick_log := snd (fst u_out).

Lemma xl_wf : dags_wf xl.
Proof.
  unfold dags_wf, xl.
  apply Forall_cons; [|apply Forall_cons; [|apply Forall_nil]];
    cbn [snd]; intros j Hj; cbn [length] in Hj;
    (destruct j as [|[|j]]; try lia); cbn;
    (split; [repeat constructor; cbn; intuition lia | intros p Hp; intuition lia]).
Qed.

(* the hypotheses of [uncontended_latency_sim] hold here: total = 3 + 2 = 5 ticks, arrival in tick 2,
   completion in tick 2 + 5 - 1 = 6, latency 4 ticks = 0.4 s *)
Example u_applies :
  exists s logs,
    sim_run uC ANaive 0%Z (init_sim uC 1 4%Z 8%Q) u_arrivals = (s, logs, None) /\
    map tl_finished logs = [[]; []; []; []; []; []; [1]; []; []] /\
    map (fun lg => map (fun r => (r_ops r, r_err r)) (tl_results lg)) logs
      = [[]; []; []; []; []; []; [([1; 2], false)]; []; []] /\
    sm_lat s = [(Batch, 4%Z)] /\
    st_all (final_stats uC 1%Q s) = pipeline_stats 10%Z 1%Z [4%Z].
Proof.
  destruct (uncontended_latency_sim uC xl 4%Z 8%Q 1 2 6 eq_refl xl_wf eq_refl) as
    (s & logs & E & _ & R & F & _ & L & St).
  - intros x. reflexivity.
  - reflexivity.
  - reflexivity.
  - discriminate.
  - intros i Hi. cbn in Hi. destruct i as [|[|i]]; [discriminate|discriminate|lia].
  - intros k j Hk Hj. cbn in Hk.
    destruct k as [|[|k]]; [| |lia]; cbn in Hj |- *;
      (destruct j as [|[|[|j]]]; try lia); cbn; unfold Qle; cbn; lia.
  - cbn. lia.
  - exists s, logs. split; [exact E|]. split; [exact F|]. split; [rewrite <- (map_map tl_results (map (fun r => (r_ops r, r_err r)))), R; reflexivity|].
    split; [exact L|]. destruct (St 1%Q) as [A _]. exact A.
Qed.

Example u_computed :
  sim_run uC ANaive 0%Z (init_sim uC 1 4%Z 8%Q) u_arrivals = (u_s, u_logs, None) /\
  map tl_finished u_logs = [[]; []; []; []; []; []; [1]; []; []] /\
  sm_lat u_s = [(Batch, 4%Z)] /\
  option_map Qred (pst_mean (st_all (final_stats uC 1%Q u_s))) = Some (2 # 5)%Q.
Proof. vm_compute. repeat split; reflexivity. Qed.

End StatsExtraExamples.
