(* C12 / C16 at run level: pipelines of equal priority receive their FIRST container in arrival order, for
   the two class-queue schedulers ([priority_step], [priority_pool_step]) in the closed loop of the
   simulator.

   The argument is the same for both policies and is kept apart from the worlds as far as possible:

     1. [gscan]: what both queue scans ([pp_scan], [pr_scan]) have in common -- a prefix of the class queue
        leaves; every scanned job gets an assignment with exactly its operators, except that jobs which
        carry retry statistics may be dropped.
     2. a ghost set [sv] ("served": the pipelines that have received a container so far).  A job "is new"
        when it holds an operator of a pipeline outside [sv].  The round lemma [round_fifo] is pure list
        combinatorics: if the new jobs of every class queue are the arrival jobs of the waiting (arrived,
        never served) pipelines of that class in arrival order, then the scans serve, class by class, an
        arrival-ordered prefix of the waiting pipelines, and the queues that are left have the same shape
        with respect to the enlarged set.
     3. the executor only moves operator lists around ([pools_tick_ops]): every container and every result
        carries the operator list of a container the pool had or of an assignment of the tick.
     4. the invariants [pp_ginv] / [pr_ginv] along [sim_hist] (the reachable states together with the logs
        of the ticks that led to them; [sv] is read off the logs).  For priority-pool nothing ever returns
        to PENDING, so "never served" coincides with "all operators PENDING" ([fresh]) and the ghost set
        disappears from the statements; for priority a preempted container hands its operators back as
        PENDING, so the statements speak of the logs. *)
From Coq Require Import ZArith QArith List Bool Arith Lia Lqa Permutation.
Import ListNotations.
From Eudoxia Require Import Num.Rnd64 Model.Types Model.Dag Model.Lifecycle Model.Container Model.Pool
  Model.Executor Model.Sched Model.Simulator
  Proofs.ListFacts Proofs.LifecycleFacts Proofs.ConserveFacts Proofs.ExecLifeFacts Proofs.LedgerFacts
  Proofs.NaiveFacts Proofs.SafetyFacts Proofs.ClosedLoopFacts Proofs.PriorityFacts Proofs.PriorityPoolFacts
  Proofs.PriorityPoolRunFacts Proofs.PriorityPoolClassFacts Proofs.PriorityRunFacts Proofs.SimReachFacts
  Proofs.NaiveRunFacts.
Close Scope Q_scope.
Close Scope Z_scope.

(* ------------------------------------------------------------------------------------------ *)
(* 0. lists                                                                                     *)
(* ------------------------------------------------------------------------------------------ *)

Lemma filter_firstn_skipn {A} (f : A -> bool) : forall n (l : list A),
  filter f (firstn n l) = firstn (length (filter f (firstn n l))) (filter f l) /\
  filter f (skipn n l) = skipn (length (filter f (firstn n l))) (filter f l).
Proof.
  induction n as [|n IH]; intros l; [cbn; auto|].
  destruct l as [|x t]; [cbn; auto|]. cbn [firstn skipn filter].
  destruct (IH t) as [I1 I2]. destruct (f x); cbn [length firstn skipn]; [|auto].
  split; [f_equal; exact I1|exact I2].
Qed.

Lemma firstn_map' {A B} (f : A -> B) : forall n l, firstn n (map f l) = map f (firstn n l).
Proof. induction n as [|n IH]; intros [|x t]; cbn; [reflexivity..|]. rewrite IH. reflexivity. Qed.

Lemma skipn_map' {A B} (f : A -> B) : forall n l, skipn n (map f l) = map f (skipn n l).
Proof. induction n as [|n IH]; intros [|x t]; cbn; try reflexivity. apply IH. Qed.

Lemma NoDup_firstn_skipn_disj {A} : forall n (l : list A) x,
  NoDup l -> In x (firstn n l) -> In x (skipn n l) -> False.
Proof.
  intros n l x N H1 H2. rewrite <- (firstn_skipn n l) in N. apply NoDup_app_inv in N.
  destruct N as (_ & _ & D). exact (D x H1 H2).
Qed.

(* removing, by membership, the first [m] elements of a duplicate-free list leaves the rest *)
Lemma filter_not_firstn (l : list nat) m :
  NoDup l -> filter (fun x => negb (memb x (firstn m l))) l = skipn m l.
Proof.
  intros N. set (f := fun x => negb (memb x (firstn m l))).
  transitivity (filter f (firstn m l ++ skipn m l)); [rewrite firstn_skipn; reflexivity|].
  rewrite filter_app. unfold f.
  rewrite (PriorityPoolFacts.filter_none _ (firstn m l)), (PriorityPoolFacts.filter_all _ (skipn m l)); [reflexivity| |].
  - intros x Hx. apply negb_true_iff. apply memb_false. intros H1.
    exact (NoDup_firstn_skipn_disj m l x N H1 Hx).
  - intros x Hx. apply negb_false_iff. apply memb_In. exact Hx.
Qed.

Lemma Forall2_map_l {A B D} (R : B -> D -> Prop) (f : A -> B) : forall l m,
  Forall2 R (map f l) m <-> Forall2 (fun x y => R (f x) y) l m.
Proof.
  induction l as [|x t IH]; intros m; split; intros H; cbn [map] in *.
  - inversion H; constructor.
  - inversion H; constructor.
  - inversion H; subst. constructor; [assumption|apply IH; assumption].
  - inversion H; subst. constructor; [assumption|apply IH; assumption].
Qed.

Lemma Forall2_In_l' {A B} (R : A -> B -> Prop) l m x :
  Forall2 R l m -> In x l -> exists y, In y m /\ R x y.
Proof.
  induction 1 as [|a b t1 t2 Rab _ IH]; intros Hx; [destruct Hx|].
  destruct Hx as [<-|Hx]; [exists b; split; [left; reflexivity|exact Rab]|].
  destruct (IH Hx) as (y & Hy & Ry). exists y. split; [right; exact Hy|exact Ry].
Qed.

Lemma Forall2_app' {A B} (R : A -> B -> Prop) l1 l2 m1 m2 :
  Forall2 R l1 m1 -> Forall2 R l2 m2 -> Forall2 R (l1 ++ l2) (m1 ++ m2).
Proof. induction 1; intros H2; cbn [app]; [exact H2|constructor; auto]. Qed.

Lemma filter_filter_sub {A} (f g : A -> bool) l :
  (forall x, In x l -> g x = true -> f x = true) -> filter g (filter f l) = filter g l.
Proof.
  induction l as [|h t IH]; intros I; cbn [filter]; [reflexivity|].
  assert (It : forall x, In x t -> g x = true -> f x = true) by (intros x Hx; apply I; right; exact Hx).
  destruct (f h) eqn:Fh; cbn [filter].
  - rewrite (IH It). reflexivity.
  - destruct (g h) eqn:Gh; [rewrite (I h (or_introl eq_refl) Gh) in Fh; discriminate|exact (IH It)].
Qed.

Lemma filter_ext_in' {A} (f g : A -> bool) l :
  (forall x, In x l -> f x = g x) -> filter f l = filter g l.
Proof.
  induction l as [|h t IH]; intros E; cbn [filter]; [reflexivity|].
  rewrite (E h (or_introl eq_refl)), IH; [reflexivity|]. intros x Hx. apply E. right. exact Hx.
Qed.

Lemma In_firstn' {A} (x : A) n : forall l, In x (firstn n l) -> In x l.
Proof. intros l H. rewrite <- (firstn_skipn n l). apply in_or_app. left. exact H. Qed.
Lemma In_skipn' {A} (x : A) n : forall l, In x (skipn n l) -> In x l.
Proof. intros l H. rewrite <- (firstn_skipn n l). apply in_or_app. right. exact H. Qed.

(* ------------------------------------------------------------------------------------------ *)
(* 1. what the two queue scans have in common                                                   *)
(* ------------------------------------------------------------------------------------------ *)

Inductive gscan (C : cfg) : world -> list job -> nat -> world -> list asg -> Prop :=
| gs_stop w q : gscan C w q 0 w []
| gs_skip w j rest n w' asgs :
    j_retry j <> None -> gscan C w rest n w' asgs -> gscan C w (j :: rest) (S n) w' asgs
| gs_start w j rest a w1 n w' asgs :
    a_ops a = j_ops j -> a_prio a = j_prio j -> mk_assignment C w a = Ok w1 ->
    gscan C w1 rest n w' asgs -> gscan C w (j :: rest) (S n) w' (a :: asgs).

Lemma pp_rel_gscan C pid w x queue oom n x' w' asgs oom' :
  pp_rel C pid w x queue oom n x' w' asgs oom' -> gscan C w queue n w' asgs.
Proof.
  induction 1 as [w x oom|w x j rest oom H1 H2|w x j rest oom n x' w' asgs oom' H1 H2 Dr _ IH
                 |w x j rest oom a w1 n x' w' asgs oom' H1 H2 Dr Ea M _ IH].
  - constructor.
  - constructor.
  - apply gs_skip; [|exact IH]. unfold pp_drop in Dr. destruct (j_retry j); [discriminate|discriminate Dr].
  - eapply gs_start; [| |exact M|exact IH]; subst a; reflexivity.
Qed.

Lemma pr_rel_gscan C w st queue oom n st' w' asgs oom' :
  pr_rel C w st queue oom n st' w' asgs oom' -> gscan C w queue n w' asgs.
Proof.
  induction 1 as [w st oom|w st j rest oom M
                 |w st j rest oom pid n st' w' asgs oom' M NF _ IH
                 |w st j rest oom pid n st' w' asgs oom' M NF CU _ IH
                 |w st j rest oom pid a w1 n st' w' asgs oom' M NF CU Ea MA _ IH].
  - constructor.
  - constructor.
  - apply gs_skip; [|exact IH]. unfold pr_nofit in NF. destruct (j_retry j); [discriminate|discriminate NF].
  - apply gs_skip; [|exact IH]. unfold pr_cut in CU. destruct (j_retry j); [discriminate|discriminate CU].
  - eapply gs_start; [| |exact MA|exact IH]; subst a; reflexivity.
Qed.

Lemma gscan_n_le C w q n w' asgs : gscan C w q n w' asgs -> n <= length q.
Proof. induction 1; cbn [length]; lia. Qed.

Lemma gscan_asteps C w q n w' asgs : gscan C w q n w' asgs -> asteps (cf_static C) w w'.
Proof.
  induction 1 as [w q|w j rest n w' asgs _ _ IH|w j rest a w1 n w' asgs _ _ M _ IH]; [constructor|exact IH|].
  eapply asteps_trans; [eapply mk_assignment_asteps; exact M|exact IH].
Qed.

(* every assignment was made from a scanned job *)
Lemma gscan_from C w q n w' asgs a :
  gscan C w q n w' asgs -> In a asgs ->
  exists j, In j (firstn n q) /\ a_ops a = j_ops j /\ a_prio a = j_prio j.
Proof.
  induction 1 as [w q|w j rest n w' asgs _ _ IH|w j rest a0 w1 n w' asgs E1 E2 M _ IH]; intros Ha.
  - destruct Ha.
  - destruct (IH Ha) as (j0 & Hj0 & R). exists j0. split; [right; exact Hj0|exact R].
  - destruct Ha as [<-|Ha].
    + exists j. split; [left; reflexivity|auto].
    + destruct (IH Ha) as (j0 & Hj0 & R). exists j0. split; [right; exact Hj0|exact R].
Qed.

(* for a test [h] on operator lists that only jobs without retry statistics pass: the assignments passing
   the test are, in order, those of the scanned jobs passing it *)
Lemma gscan_match C (h : list nat -> bool) w q n w' asgs :
  gscan C w q n w' asgs ->
  (forall j, In j (firstn n q) -> h (j_ops j) = true -> j_retry j = None) ->
  Forall2 (fun j a => a_ops a = j_ops j /\ a_prio a = j_prio j)
          (filter (fun j => h (j_ops j)) (firstn n q)) (filter (fun a => h (a_ops a)) asgs).
Proof.
  induction 1 as [w q|w j rest n w' asgs R _ IH|w j rest a w1 n w' asgs E1 E2 M _ IH]; intros Hn.
  - constructor.
  - cbn [firstn filter]. destruct (h (j_ops j)) eqn:Hj.
    + exfalso. apply R. apply Hn; [left; reflexivity|exact Hj].
    + apply IH. intros j0 Hj0. apply Hn. right. exact Hj0.
  - cbn [firstn filter]. rewrite E1.
    assert (IH' := IH (fun j0 Hj0 => Hn j0 (or_intror Hj0))).
    destruct (h (j_ops j)); [constructor; [auto|exact IH']|exact IH'].
Qed.

(* the operators the scan has put into containers are not PENDING afterwards *)
Lemma gscan_assigned C w q n w' asgs a o :
  gscan C w q n w' asgs -> In a asgs -> In o (a_ops a) -> o < length (w_st w) -> st_of w' o <> Pending.
Proof.
  induction 1 as [w q|w j rest n w' asgs _ _ IH|w j rest a0 w1 n w' asgs E1 E2 M R IH]; intros Ha Ho L.
  - destruct Ha.
  - apply IH; assumption.
  - pose proof (mk_assignment_asteps _ _ _ _ M) as A1.
    destruct Ha as [<-|Ha].
    + intros P. apply gscan_asteps in R. apply (asteps_pending_back _ _ _ o R) in P.
      apply mk_assignment_transition_all in M. destruct M as [_ T].
      rewrite (transition_all_set _ _ _ _ _ T o Ho L) in P. discriminate.
    + apply IH; [exact Ha|exact Ho|]. rewrite (asteps_length _ _ _ A1). exact L.
Qed.

(* a pipeline none of whose operators is put into a container keeps them PENDING *)
Lemma gscan_fresh_frame C w q n w' asgs k :
  gscan C w q n w' asgs ->
  (forall a o, In a asgs -> In o (a_ops a) -> ~ In o (pd_order (pipe_of (S_of C) k))) ->
  fresh C w k -> fresh C w' k.
Proof.
  induction 1 as [w q|w j rest n w' asgs _ _ IH|w j rest a w1 n w' asgs E1 E2 M _ IH]; intros D F.
  - exact F.
  - apply IH; assumption.
  - apply IH; [intros a0 o Ha0; apply D; right; exact Ha0|].
    intros o Ho. apply mk_assignment_transition_all in M. destruct M as [_ T].
    rewrite (transition_all_frame _ _ _ _ _ T o); [apply F; exact Ho|].
    intros Hin. exact (D a o (or_introl eq_refl) Hin Ho).
Qed.

(* ------------------------------------------------------------------------------------------ *)
(* 2. the served set; one round, without worlds                                                 *)
(* ------------------------------------------------------------------------------------------ *)

Section Round.
Variable C : cfg.
Local Notation St := (cf_static C).

Definition cls (k : nat) : prio := prio_of_pipe C k.
(* the job filed when pipeline [k] arrives (both policies, multi-operator containers) *)
Definition arrival_job (k : nat) : job := PriorityPoolFacts.new_job C k.

Definition unsv (sv : list nat) (k : nat) : bool := negb (memb k sv).
(* an operator list with an operator of a pipeline that was never served *)
Definition ops_new (sv : list nat) (ops : list nat) : bool := existsb (fun o => unsv sv (op_pipe St o)) ops.
Definition jnew (sv : list nat) (j : job) : bool := ops_new sv (j_ops j).
Definition anew (sv : list nat) (a : asg) : bool := ops_new sv (a_ops a).
(* an operator list made of operators of served pipelines *)
Definition ops_served (sv : list nat) (ops : list nat) : Prop := forall o, In o ops -> In (op_pipe St o) sv.
(* the arrived pipelines of class [c] still waiting for their first container, in arrival order *)
Definition waiting (sv : list nat) (c : prio) (A : list nat) : list nat :=
  filter (fun k => unsv sv k && prio_eqb (cls k) c) A.

Lemma ops_new_false sv ops : ops_new sv ops = false <-> ops_served sv ops.
Proof.
  unfold ops_new, ops_served. split.
  - intros H o Ho. destruct (memb (op_pipe St o) sv) eqn:E; [apply memb_In; exact E|].
    assert (X : existsb (fun o => unsv sv (op_pipe St o)) ops = true); [|congruence].
    apply existsb_exists. exists o. split; [exact Ho|]. unfold unsv. rewrite E. reflexivity.
  - intros H. destruct (existsb _ ops) eqn:E; [|reflexivity]. apply existsb_exists in E.
    destruct E as (o & Ho & U). unfold unsv in U. apply negb_true_iff in U. apply memb_false in U.
    exfalso. apply U. apply H. exact Ho.
Qed.

Lemma ops_new_true sv ops : ops_new sv ops = true <-> exists o, In o ops /\ ~ In (op_pipe St o) sv.
Proof.
  unfold ops_new. rewrite existsb_exists. split; intros (o & Ho & U); exists o; (split; [exact Ho|]).
  - unfold unsv in U. apply negb_true_iff in U. apply memb_false in U. exact U.
  - unfold unsv. apply negb_true_iff. apply memb_false. exact U.
Qed.

Lemma ops_new_mono sv sv' ops : incl sv sv' -> ops_new sv' ops = true -> ops_new sv ops = true.
Proof.
  intros I H. apply ops_new_true in H. destruct H as (o & Ho & U). apply ops_new_true.
  exists o. split; [exact Ho|]. intros X. apply U. apply I. exact X.
Qed.

Lemma unsv_true sv k : unsv sv k = true <-> ~ In k sv.
Proof. unfold unsv. rewrite negb_true_iff. apply memb_false. Qed.

Hypothesis Hbelong : forall k o, In o (pd_order (pipe_of St k)) -> op_pipe St o = k.

Lemma arrival_job_new sv k :
  pd_order (pipe_of St k) <> [] -> jnew sv (arrival_job k) = unsv sv k.
Proof.
  intros N. unfold jnew, arrival_job, PriorityPoolFacts.new_job. cbn [j_ops]. change (S_of C) with St.
  destruct (unsv sv k) eqn:U.
  - apply ops_new_true. destruct (pd_order (pipe_of St k)) as [|o t] eqn:E; [congruence|].
    exists o. split; [left; reflexivity|]. rewrite (Hbelong k o) by (rewrite E; left; reflexivity).
    apply unsv_true. exact U.
  - apply ops_new_false. intros o Ho. rewrite (Hbelong k o Ho). unfold unsv in U.
    apply negb_false_iff in U. apply memb_In. exact U.
Qed.

Lemma waiting_In sv c A k : In k (waiting sv c A) <-> In k A /\ ~ In k sv /\ cls k = c.
Proof.
  unfold waiting. rewrite filter_In, andb_true_iff, unsv_true, PriorityPoolFacts.prio_eqb_eq. tauto.
Qed.

Lemma waiting_NoDup sv c A : NoDup A -> NoDup (waiting sv c A).
Proof. intros N. unfold waiting. apply SafetyFacts.NoDup_filter_nat. exact N. Qed.

(* one class: the scan of its queue *)
Section OneClass.
Variable sv : list nat.
Variable A : list nat.
Variable c : prio.
Variable q : list job.
Hypothesis HA : NoDup A.
Hypothesis Hops : forall k, In k A -> pd_order (pipe_of St k) <> [].
Hypothesis Hq : filter (jnew sv) q = map arrival_job (waiting sv c A).

Variable w w' : world.
Variable n : nat.
Variable asgs : list asg.
Hypothesis Hscan : gscan C w q n w' asgs.

Definition served_count : nat := length (filter (jnew sv) (firstn n q)).
Definition served_now : list nat := firstn served_count (waiting sv c A).

Lemma scanned_new : filter (jnew sv) (firstn n q) = map arrival_job served_now.
Proof.
  unfold served_now. rewrite <- firstn_map', <- Hq. apply (filter_firstn_skipn (jnew sv) n q).
Qed.

Lemma left_new : filter (jnew sv) (skipn n q) = map arrival_job (skipn served_count (waiting sv c A)).
Proof. rewrite <- skipn_map', <- Hq. apply (filter_firstn_skipn (jnew sv) n q). Qed.

Lemma new_is_arrival j : In j q -> jnew sv j = true -> exists k, In k (waiting sv c A) /\ j = arrival_job k.
Proof.
  intros Hj Jn. assert (X : In j (filter (jnew sv) q)) by (apply filter_In; auto).
  rewrite Hq in X. apply in_map_iff in X. destruct X as (k & <- & Hk). exists k. auto.
Qed.

(* the first containers of the class: one per served pipeline, in order, holding the whole pipeline *)
Lemma served_asgs :
  Forall2 (fun k a => a_ops a = pd_order (pipe_of St k) /\ a_prio a = cls k) served_now (filter (anew sv) asgs).
Proof.
  pose proof (gscan_match C (ops_new sv) _ _ _ _ _ Hscan) as M.
  assert (Hn : forall j, In j (firstn n q) -> ops_new sv (j_ops j) = true -> j_retry j = None).
  { intros j Hj Jn. destruct (new_is_arrival j (In_firstn' _ _ _ Hj) Jn) as (k & _ & ->). reflexivity. }
  specialize (M Hn). change (fun j => ops_new sv (j_ops j)) with (jnew sv) in M.
  rewrite scanned_new in M. apply Forall2_map_l in M. exact M.
Qed.

(* every other assignment of the scan holds operators of served pipelines only *)
Lemma other_asgs a : In a asgs -> anew sv a = false -> ops_served sv (a_ops a).
Proof. intros _ H. apply ops_new_false. exact H. Qed.

Lemma asg_pipes a o :
  In a asgs -> In o (a_ops a) -> In (op_pipe St o) sv \/ In (op_pipe St o) served_now.
Proof.
  intros Ha Ho. destruct (anew sv a) eqn:E.
  - right. assert (X : In a (filter (anew sv) asgs)) by (apply filter_In; auto).
    destruct (NaiveRunFacts.Forall2_In_r _ _ _ _ served_asgs X) as (k & Hk & Eo & _).
    rewrite Eo in Ho. rewrite (Hbelong k o Ho). exact Hk.
  - left. apply (other_asgs a Ha E). exact Ho.
Qed.

Lemma served_now_has k : In k served_now -> exists a, In a asgs /\ a_ops a = pd_order (pipe_of St k) /\ a_prio a = cls k.
Proof.
  intros Hk. destruct (Forall2_In_l' _ _ _ _ served_asgs Hk) as (a & Ha & R).
  apply filter_In in Ha. exists a. split; [apply Ha|exact R].
Qed.

End OneClass.
End Round.

Lemma filter_filter_and {A} (f g : A -> bool) l : filter g (filter f l) = filter (fun x => f x && g x) l.
Proof.
  induction l as [|h t IH]; cbn [filter]; [reflexivity|].
  destruct (f h); cbn [filter andb]; [destruct (g h); rewrite IH; reflexivity|exact IH].
Qed.

Lemma filter_map_comm {A B} (f : A -> B) (g : B -> bool) l : filter g (map f l) = map f (filter (fun x => g (f x)) l).
Proof.
  induction l as [|h t IH]; cbn [map filter]; [reflexivity|].
  destruct (g (f h)); cbn [map]; rewrite IH; reflexivity.
Qed.

(* the three scans of a round *)
Section ThreeScans.
Variable C : cfg.
Local Notation St := (cf_static C).
Hypothesis Hbelong : forall k o, In o (pd_order (pipe_of St k)) -> op_pipe St o = k.
Variable sv : list nat.
Variable A : list nat.
Variable pre : prio -> list job.
Hypothesis HA : NoDup A.
Hypothesis Hops : forall k, In k A -> pd_order (pipe_of St k) <> [].
Hypothesis Hpre : forall c, filter (jnew C sv) (pre c) = map (arrival_job C) (waiting C sv c A).
Variable nn : prio -> nat.

Definition srv (c : prio) : list nat := served_now C sv A c (pre c) (nn c).

Variable sv' : list nat.
Hypothesis Hsv' : forall k, In k sv' <-> In k sv \/ exists c, In k (srv c).

Lemma srv_In c k : In k (srv c) -> In k A /\ ~ In k sv /\ cls C k = c.
Proof. intros H. apply In_firstn' in H. apply waiting_In in H. exact H. Qed.

Lemma sv_incl : incl sv sv'.
Proof. intros k Hk. apply Hsv'. left. exact Hk. Qed.

Lemma unsv_split c k :
  cls C k = c -> unsv sv' k = unsv sv k && negb (memb k (srv c)).
Proof.
  intros Ec. destruct (unsv sv' k) eqn:U.
  - apply unsv_true in U. symmetry. apply andb_true_iff. split.
    + apply unsv_true. intros X. apply U. apply Hsv'. left. exact X.
    + apply negb_true_iff. apply memb_false. intros X. apply U. apply Hsv'. right. exists c. exact X.
  - unfold unsv in U. apply negb_false_iff in U. apply memb_In in U. apply Hsv' in U.
    symmetry. apply andb_false_iff. destruct U as [U|(c' & U)].
    + left. unfold unsv. apply negb_false_iff. apply memb_In. exact U.
    + right. apply negb_false_iff. apply memb_In.
      destruct (srv_In c' k U) as (_ & _ & E). rewrite Ec in E. subst c'. exact U.
Qed.

Lemma waiting_after c : waiting C sv' c A = skipn (served_count C sv (pre c) (nn c)) (waiting C sv c A).
Proof.
  rewrite <- (filter_not_firstn (waiting C sv c A)) by (apply waiting_NoDup; exact HA).
  unfold waiting at 3. rewrite filter_filter_and. unfold waiting at 1. apply filter_ext_in'.
  intros k _. destruct (prio_eqb (cls C k) c) eqn:E.
  - apply PriorityPoolFacts.prio_eqb_eq in E. rewrite (unsv_split c k E). rewrite !andb_true_r. reflexivity.
  - rewrite !andb_false_r. reflexivity.
Qed.

Lemma waiting_split c : waiting C sv c A = srv c ++ waiting C sv' c A.
Proof. rewrite waiting_after. unfold srv, served_now. symmetry. apply firstn_skipn. Qed.

Lemma queue_after c :
  filter (jnew C sv') (skipn (nn c) (pre c)) = map (arrival_job C) (waiting C sv' c A).
Proof.
  rewrite <- (filter_filter_sub (jnew C sv) (jnew C sv')).
  2:{ intros j _ Hj. eapply ops_new_mono; [exact sv_incl|exact Hj]. }
  rewrite (left_new C sv A c (pre c) (Hpre c) (nn c)). rewrite filter_map_comm, <- waiting_after.
  f_equal. apply PriorityPoolFacts.filter_all. intros k Hk.
  assert (Hk' := Hk). apply waiting_In in Hk'. destruct Hk' as (Ia & Ns & _).
  rewrite (arrival_job_new C Hbelong sv' k (Hops k Ia)). apply unsv_true. exact Ns.
Qed.

End ThreeScans.

(* ------------------------------------------------------------------------------------------ *)
(* 3. the executor moves operator lists around                                                  *)
(* ------------------------------------------------------------------------------------------ *)

(* any property of operator lists that the assignments of the tick and the containers of the pools have is
   a property of the containers (active, suspending, suspended) and results after the tick *)
Lemma pools_tick_ops (P : list nat -> Prop) C ss asgs : forall ps w next w' next' ps' res,
  pools_tick C w next ps ss asgs = Ok (w', next', ps', res) ->
  (forall a, In a asgs -> P (a_ops a)) ->
  (forall p c, In p ps -> In c (pool_conts p) -> P (c_ops c)) ->
  (forall p' c', In p' ps' -> In c' (pool_conts p') -> P (c_ops c')) /\
  (forall r, In r res -> P (r_ops r)).
Proof.
  induction ps as [|p t IH]; intros w next w' next' ps' res H Pa Pc; cbn [pools_tick] in H.
  - inversion H; subst. split; [intros p' c' []|intros r []].
  - cbv zeta in H.
    apply bind_ok_inv in H. destruct H as [[[[w1 next1] p1] res1] [E1 H]].
    apply bind_ok_inv in H. destruct H as [[[[w2 next2] t2] res2] [E2 H]]. inversion H; subst. clear H.
    destruct (IH _ _ _ _ _ _ E2 Pa (fun q c Hq => Pc q c (or_intror Hq))) as (I1 & I2).
    assert (New : forall c, In c (new_containers next
                                   (filter (fun a => (a_pool a =? Z.of_nat (p_id p))%Z) asgs)) -> P (c_ops c)).
    { intros c Hc. destruct (new_containers_In _ _ _ Hc) as (a & Ha & Eo & _).
      apply filter_In in Ha. rewrite Eo. apply Pa. apply Ha. }
    split.
    + intros p' c' [<-|Hp'] Hc'; [|eapply I1; eauto].
      destruct (pool_tick_origin _ _ _ _ _ _ _ _ _ _ E1 c' Hc') as (c & [Hc|Hc] & (_ & So & _)).
      * rewrite So. apply (Pc p c (or_introl eq_refl) Hc).
      * rewrite So. apply New. exact Hc.
    + intros r Hr. apply in_app_or in Hr. destruct Hr as [Hr|Hr]; [|apply I2; exact Hr].
      destruct (result_of_one_container _ _ _ _ _ _ _ _ _ _ _ E1 Hr) as (_ & c & Hc & _ & Ro & _).
      rewrite Ro. destruct Hc as [Hc|Hc]; [|apply New; exact Hc].
      apply (Pc p c (or_introl eq_refl)). unfold pool_conts. apply in_or_app. left. exact Hc.
Qed.

(* the world: the executor never takes an operator out of PENDING *)
Lemma exec_keeps_fresh C w w' k : PriorityPoolRunFacts.xsteps (cf_static C) w w' -> fresh C w k -> fresh C w' k.
Proof.
  intros X F o Ho. rewrite (xsteps_assignable_frame _ _ _ o X); [apply F; exact Ho|].
  rewrite (F o Ho). reflexivity.
Qed.

(* ------------------------------------------------------------------------------------------ *)
(* 4. reachable states with the logs that led to them                                           *)
(* ------------------------------------------------------------------------------------------ *)

Inductive sim_hist (C : cfg) (a : algo) : Z -> sim -> Z -> sim -> list tick_log -> Prop :=
| sh_here t s : sim_hist C a t s t s []
| sh_step t0 s0 t s logs newp s' lg :
    sim_hist C a t0 s0 t s logs -> sim_tick C a t s newp = Ok (s', lg) ->
    sim_hist C a t0 s0 (t + 1)%Z s' (logs ++ [lg]).

Lemma sim_hist_reach C a t0 s0 t s logs : sim_hist C a t0 s0 t s logs -> sim_reach C a t0 s0 t s.
Proof. induction 1; [constructor|econstructor; eauto]. Qed.

Lemma sim_reach_hist C a t0 s0 t s : sim_reach C a t0 s0 t s -> exists logs, sim_hist C a t0 s0 t s logs.
Proof.
  induction 1 as [t s|t0 s0 t s newp s' lg _ [logs IH] T]; [exists []; constructor|].
  exists (logs ++ [lg]). econstructor; eauto.
Qed.

Lemma sim_hist_front C a t0 s0 newp s1 lg t s logs :
  sim_tick C a t0 s0 newp = Ok (s1, lg) -> sim_hist C a (t0 + 1)%Z s1 t s logs ->
  sim_hist C a t0 s0 t s (lg :: logs).
Proof.
  intros T R. remember (t0 + 1)%Z as t1 eqn:Et. revert T.
  induction R as [t1 s1|t1 s1 t s logs np s' lg' R IH T']; intros T.
  - subst t1. apply (sh_step C a t0 s0 t0 s0 [] newp s1 lg); [constructor|exact T].
  - change (lg :: logs ++ [lg']) with ((lg :: logs) ++ [lg']). econstructor; [apply IH; assumption|exact T'].
Qed.

(* a run: the state it ends in, with the logs it returns *)
Lemma sim_run_hist C a : forall arrivals t s sf logs oe,
  sim_run C a t s arrivals = (sf, logs, oe) ->
  sim_hist C a t s (t + Z.of_nat (length logs))%Z sf logs.
Proof.
  induction arrivals as [|newp r IH]; intros t s sf logs oe H; cbn [sim_run] in H.
  - inversion H; subst. cbn [length]. rewrite Z.add_0_r. constructor.
  - destruct (sim_tick C a t s newp) as [[s1 lg]|e] eqn:E.
    + destruct (sim_run C a (t + 1)%Z s1 r) as [[sf' logs'] e'] eqn:R. inversion H; subst.
      apply IH in R. eapply sim_hist_front; [exact E|].
      replace (t + Z.of_nat (length (lg :: logs')))%Z with (t + 1 + Z.of_nat (length logs'))%Z
        by (cbn [length]; lia).
      exact R.
    + inversion H; subst. cbn [length]. rewrite Z.add_0_r. constructor.
Qed.

(* ------------------------------------------------------------------------------------------ *)
(* 5. the invariant shared by the two policies, and one tick                                    *)
(* ------------------------------------------------------------------------------------------ *)

Section Loop.
Variable C : cfg.
Local Notation St := (cf_static C).
Hypothesis SK : static_ok St.

Lemma Hbelong : forall k o, In o (pd_order (pipe_of St k)) -> op_pipe St o = k.
Proof. intros k o Ho. destruct SK as [_ SO]. apply (SO k o Ho). Qed.

(* the pipelines that receive a container in a tick / in the ticks logged so far *)
Definition log_pipes (lg : tick_log) : list nat := flat_map (fun a => map (op_pipe St) (a_ops a)) (tl_asgs lg).
Definition served_pipes (logs : list tick_log) : list nat := flat_map log_pipes logs.

Lemma log_pipes_In lg k :
  In k (log_pipes lg) <-> exists a o, In a (tl_asgs lg) /\ In o (a_ops a) /\ op_pipe St o = k.
Proof.
  unfold log_pipes. rewrite in_flat_map. split.
  - intros (a & Ha & Hk). apply in_map_iff in Hk. destruct Hk as (o & E & Ho). exists a, o. auto.
  - intros (a & o & Ha & Ho & E). exists a. split; [exact Ha|]. apply in_map_iff. exists o. auto.
Qed.

Lemma served_pipes_app l1 l2 : served_pipes (l1 ++ l2) = served_pipes l1 ++ served_pipes l2.
Proof. unfold served_pipes. apply flat_map_app. Qed.

Definition ginv (sv : list nat) (s : sim) : Prop :=
  NoDup (arrived s) /\ incl sv (arrived s) /\
  (forall k, ~ In k sv -> fresh C (wof s) k) /\
  (forall c, filter (jnew C sv) (queue_of (sm_sched s) c) = map (arrival_job C) (waiting C sv c (arrived s))) /\
  (forall p c, In p (e_pools (sm_exec s)) -> In c (pool_conts p) -> ops_served C sv (c_ops c)) /\
  (forall r, In r (sm_results s) -> ops_served C sv (r_ops r)).

Lemma ginv_init np cpu ram : ginv [] (init_sim C np cpu ram).
Proof.
  unfold ginv, arrived, wof. cbn [init_sim sm_arrival sm_sched sm_exec sm_results map].
  split; [constructor|]. split; [intros x []|]. split; [|split; [|split]].
  - intros k _ o _. cbn [init_estate e_world]. apply st_of_init.
  - intros c. destruct c; reflexivity.
  - intros p c Hp Hc. cbn [init_estate e_pools] in Hp. apply in_map_iff in Hp. destruct Hp as (i & <- & _).
    destruct Hc.
  - intros r [].
Qed.

(* the operators of queued jobs belong to arrived pipelines *)
Lemma ginv_queued sv s c j o :
  ginv sv s -> In j (queue_of (sm_sched s) c) -> In o (j_ops j) -> In (op_pipe St o) (arrived s).
Proof.
  intros (_ & Iv & _ & Gq & _) Hj Ho. destruct (jnew C sv j) eqn:E.
  - assert (X : In j (filter (jnew C sv) (queue_of (sm_sched s) c))) by (apply filter_In; auto).
    rewrite Gq in X. apply in_map_iff in X. destruct X as (k & <- & Hk). apply waiting_In in Hk.
    cbn [arrival_job PriorityPoolFacts.new_job j_ops] in Ho. rewrite (Hbelong k o Ho). apply Hk.
  - apply Iv. apply (proj1 (ops_new_false C sv (j_ops j)) E). exact Ho.
Qed.

(* one tick, given what the round of either policy looks like: the class queues [pre] the scans start
   from (with the shape of the invariant, arrivals included), the three scans, the queues that are left *)
Section Tick.
Variable sv : list nat.
Variable t : Z.
Variable s s' : sim.
Variable newp : list nat.
Variable lg : tick_log.
Variable a : algo.
Hypothesis G : ginv sv s.
Hypothesis T : sim_tick C a t s newp = Ok (s', lg).
Hypothesis Hops : forall k, In k (arrived s') -> pd_order (pipe_of St k) <> [].
Variable pre : prio -> list job.
Variable nn : prio -> nat.
Variable w1 w2 w3 : world.
Variable a1 a2 a3 : list asg.
Variable ss' : sstate.
Variable susps : list susp.
Hypothesis Hsched : sched_step C a (sm_sched s) (sm_exec s) (sm_results s) newp = Ok (ss', w3, susps, a1 ++ a2 ++ a3).
Hypothesis Hpre : forall c, filter (jnew C sv) (pre c) = map (arrival_job C) (waiting C sv c (arrived s ++ newp)).
Hypothesis S1 : gscan C (wof s) (pre Query) (nn Query) w1 a1.
Hypothesis S2 : gscan C w1 (pre Interactive) (nn Interactive) w2 a2.
Hypothesis S3 : gscan C w2 (pre Batch) (nn Batch) w3 a3.
Hypothesis Hleft : forall c, queue_of ss' c = skipn (nn c) (pre c).

Local Notation A := (arrived s ++ newp).
Local Notation srv' := (srv C sv A pre nn).

Lemma tick_facts :
  arrived s' = A /\ NoDup A /\ sm_sched s' = ss' /\ tl_asgs lg = a1 ++ a2 ++ a3 /\
  exec_tick C {| e_world := w3; e_pools := e_pools (sm_exec s); e_next := e_next (sm_exec s) |}
            susps (a1 ++ a2 ++ a3) = Ok (sm_exec s', sm_results s').
Proof.
  destruct G as (Na & _). pose proof T as T0. apply PriorityPoolRunFacts.sim_tick_ok_inv in T0.
  destruct T0 as (arr & ss0 & w0 & su0 & as0 & e2 & res & Ra & Sch & Rest).
  rewrite Hsched in Sch. injection Sch as <- <- <- <-.
  destruct Rest as (Ex & E1 & E2 & E3 & E4 & _ & _ & E7 & _).
  assert (Ar : arrived s' = A).
  { unfold arrived. rewrite E4. apply record_arrivals_fst in Ra. exact Ra. }
  split; [exact Ar|]. split.
  - rewrite <- Ar. unfold arrived. rewrite E4. eapply record_arrivals_nodup; [exact Ra|exact Na].
  - split; [exact E2|]. split; [exact E7|]. rewrite E1, E3. exact Ex.
Qed.

Lemma HopsA k : In k A -> pd_order (pipe_of St k) <> [].
Proof. intros Hk. apply Hops. rewrite (proj1 tick_facts). exact Hk. Qed.

(* the pipelines of the tick's assignments: served before, or served first in this tick *)
Lemma tick_pipes a0 o :
  In a0 (a1 ++ a2 ++ a3) -> In o (a_ops a0) -> In (op_pipe St o) sv \/ exists c, In (op_pipe St o) (srv' c).
Proof.
  destruct tick_facts as (_ & NA & _).
  intros Ha Ho. apply in_app_or in Ha. destruct Ha as [Ha|Ha]; [|apply in_app_or in Ha; destruct Ha as [Ha|Ha]].
  - destruct (asg_pipes C Hbelong sv A Query (pre Query) (Hpre Query) _ _ _ _ S1 a0 o Ha Ho) as [X|X];
      [left; exact X|right; exists Query; exact X].
  - destruct (asg_pipes C Hbelong sv A Interactive (pre Interactive) (Hpre Interactive) _ _ _ _ S2 a0 o Ha Ho) as [X|X];
      [left; exact X|right; exists Interactive; exact X].
  - destruct (asg_pipes C Hbelong sv A Batch (pre Batch) (Hpre Batch) _ _ _ _ S3 a0 o Ha Ho) as [X|X];
      [left; exact X|right; exists Batch; exact X].
Qed.

Lemma srv_has c k : In k (srv' c) ->
  exists a0, In a0 (a1 ++ a2 ++ a3) /\ a_ops a0 = pd_order (pipe_of St k) /\ a_prio a0 = cls C k.
Proof.
  intros Hk. destruct c.
  - destruct (served_now_has C sv A Query (pre Query) (Hpre Query) _ _ _ _ S1 k Hk) as (a0 & Ha & R).
    exists a0. split; [apply in_or_app; left; exact Ha|exact R].
  - destruct (served_now_has C sv A Interactive (pre Interactive) (Hpre Interactive) _ _ _ _ S2 k Hk) as (a0 & Ha & R).
    exists a0. split; [apply in_or_app; right; apply in_or_app; left; exact Ha|exact R].
  - destruct (served_now_has C sv A Batch (pre Batch) (Hpre Batch) _ _ _ _ S3 k Hk) as (a0 & Ha & R).
    exists a0. split; [apply in_or_app; right; apply in_or_app; right; exact Ha|exact R].
Qed.

Lemma sv_after k : In k (sv ++ log_pipes lg) <-> In k sv \/ exists c, In k (srv' c).
Proof.
  destruct tick_facts as (_ & _ & _ & El & _).
  rewrite in_app_iff, log_pipes_In, El. split.
  - intros [X|(a0 & o & Ha & Ho & <-)]; [left; exact X|]. apply (tick_pipes a0 o Ha Ho).
  - intros [X|(c & Hk)]; [left; exact X|]. right.
    destruct (srv_has c k Hk) as (a0 & Ha & Eo & _).
    assert (Ik : In k A) by (apply (srv_In C sv A pre nn c k Hk)).
    destruct (pd_order (pipe_of St k)) as [|o tl] eqn:E; [exfalso; exact (HopsA k Ik E)|].
    exists a0, o. split; [exact Ha|]. split; [rewrite Eo; left; reflexivity|].
    apply Hbelong. rewrite E. left. reflexivity.
Qed.

Lemma tick_ginv : ginv (sv ++ log_pipes lg) s'.
Proof.
  destruct tick_facts as (Ar & NA & Es & El & Ex).
  pose proof G as (Na & Iv & Fr & Gq & Gc & Gr).
  assert (Inc : incl sv (sv ++ log_pipes lg)) by (intros x Hx; apply in_or_app; left; exact Hx).
  assert (Pa : forall a0, In a0 (a1 ++ a2 ++ a3) -> ops_served C (sv ++ log_pipes lg) (a_ops a0)).
  { intros a0 Ha o Ho. apply sv_after. exact (tick_pipes a0 o Ha Ho). }
  unfold ginv. rewrite Ar. split; [exact NA|]. split; [|split; [|split]].
  - intros k Hk. apply sv_after in Hk. destruct Hk as [Hk|(c & Hk)].
    + apply in_or_app. left. apply Iv. exact Hk.
    + apply (srv_In C sv A pre nn c k Hk).
  - (* never served: still PENDING *)
    intros k Nk.
    assert (F0 : fresh C (wof s) k) by (apply Fr; intros X; apply Nk; apply Inc; exact X).
    assert (D : forall a0 o, In a0 (a1 ++ a2 ++ a3) -> In o (a_ops a0) -> ~ In o (pd_order (pipe_of (S_of C) k))).
    { intros a0 o Ha Ho Hin. apply Nk. rewrite <- (Hbelong k o Hin). apply (Pa a0 Ha o Ho). }
    assert (F1 : fresh C w1 k).
    { eapply gscan_fresh_frame; [exact S1| |exact F0]. intros a0 o Ha. apply D. apply in_or_app. left. exact Ha. }
    assert (F2 : fresh C w2 k).
    { eapply gscan_fresh_frame; [exact S2| |exact F1]. intros a0 o Ha. apply D.
      apply in_or_app. right. apply in_or_app. left. exact Ha. }
    assert (F3 : fresh C w3 k).
    { eapply gscan_fresh_frame; [exact S3| |exact F2]. intros a0 o Ha. apply D.
      apply in_or_app. right. apply in_or_app. right. exact Ha. }
    apply exec_tick_xsteps in Ex. cbn [e_world] in Ex. eapply exec_keeps_fresh; [exact Ex|exact F3].
  - intros c. rewrite Es, Hleft.
    apply (queue_after C Hbelong sv A pre NA HopsA Hpre nn (sv ++ log_pipes lg) sv_after c).
  - apply exec_tick_ok_inv in Ex. destruct Ex as (_ & _ & Ex). cbn [e_world e_next e_pools] in Ex.
    apply (pools_tick_ops (ops_served C (sv ++ log_pipes lg))) in Ex; [exact Ex|exact Pa|].
    intros p c Hp Hc o Ho. apply Inc. apply (Gc p c Hp Hc o Ho).
Qed.

(* the first containers of the tick *)
Lemma tick_first :
  (forall c, waiting C sv c (arrived s') = srv' c ++ waiting C (sv ++ log_pipes lg) c (arrived s')) /\
  Forall2 (fun k a0 => a_ops a0 = pd_order (pipe_of St k) /\ a_prio a0 = cls C k)
          (srv' Query ++ srv' Interactive ++ srv' Batch) (filter (anew C sv) (tl_asgs lg)).
Proof.
  destruct tick_facts as (Ar & NA & Es & El & Ex). rewrite Ar. split.
  - intros c. apply (waiting_split C sv A pre NA nn (sv ++ log_pipes lg) sv_after c).
  - rewrite El, !filter_app. apply Forall2_app'; [|apply Forall2_app'].
    + apply (served_asgs C sv A Query (pre Query) (Hpre Query) _ _ _ _ S1).
    + apply (served_asgs C sv A Interactive (pre Interactive) (Hpre Interactive) _ _ _ _ S2).
    + apply (served_asgs C sv A Batch (pre Batch) (Hpre Batch) _ _ _ _ S3).
Qed.

End Tick.
End Loop.

(* ------------------------------------------------------------------------------------------ *)
(* 6. the queues a round starts from                                                            *)
(* ------------------------------------------------------------------------------------------ *)

Section Pre.
Variable C : cfg.
Local Notation St := (cf_static C).
Hypothesis SK : static_ok St.

(* the arrival jobs of a batch of new pipelines, sorted into class [c] *)
Lemma new_part sv c newp :
  (forall k, In k newp -> ~ In k sv /\ pd_order (pipe_of St k) <> []) ->
  filter (jnew C sv) (filter (fun j => prio_eqb (j_prio j) c) (map (arrival_job C) newp))
  = map (arrival_job C) (waiting C sv c newp).
Proof.
  induction newp as [|k t IH]; intros H; [reflexivity|].
  assert (IH' := IH (fun k0 Hk0 => H k0 (or_intror Hk0))). destruct (H k (or_introl eq_refl)) as [Nk Ok].
  cbn [map filter]. unfold waiting. cbn [filter]. fold (waiting C sv c t).
  change (j_prio (arrival_job C k)) with (cls C k).
  assert (U : unsv sv k = true) by (apply unsv_true; exact Nk). rewrite U. cbn [andb].
  destruct (prio_eqb (cls C k) c); [|exact IH'].
  cbn [filter map]. rewrite (arrival_job_new C (Hbelong C SK) sv k Ok), U. f_equal. exact IH'.
Qed.

(* jobs made of operators of served pipelines are not new *)
Lemma served_part sv (f : job -> bool) l :
  (forall j, In j l -> ops_served C sv (j_ops j)) -> filter (jnew C sv) (filter f l) = [].
Proof.
  intros H. apply PriorityPoolFacts.filter_none. intros j Hj. apply filter_In in Hj. destruct Hj as [Hj _].
  apply ops_new_false. apply H. exact Hj.
Qed.

Lemma ops_served_sub sv ops ops' : incl ops' ops -> ops_served C sv ops -> ops_served C sv ops'.
Proof. intros I H o Ho. apply H. apply I. exact Ho. Qed.

Lemma not_completed_incl w ops : incl (not_completed_ops w ops) ops.
Proof. intros o Ho. unfold not_completed_ops in Ho. apply filter_In in Ho. apply Ho. Qed.

Lemma waiting_app sv c l1 l2 : waiting C sv c (l1 ++ l2) = waiting C sv c l1 ++ waiting C sv c l2.
Proof. unfold waiting. apply filter_app. Qed.

(* priority-pool: queued, then the arrivals, then the retries of the failed containers *)
Lemma pp_pre_shape sv s newp lq c :
  ginv C sv s -> NoDup (arrived s ++ newp) ->
  (forall k, In k newp -> pd_order (pipe_of St k) <> []) ->
  (forall j, In j lq -> ops_served C sv (j_ops j)) ->
  filter (jnew C sv) (pp_pre C (sm_sched s) (sm_exec s) (sm_results s) newp lq c)
  = map (arrival_job C) (waiting C sv c (arrived s ++ newp)).
Proof.
  intros (Na & Iv & _ & Gq & _ & Gr) NA Hn Hl. unfold pp_pre.
  rewrite filter_app, Gq, waiting_app, map_app. f_equal.
  unfold PriorityPoolFacts.is_class. rewrite !filter_app.
  change (map (PriorityPoolFacts.new_job C) newp) with (map (arrival_job C) newp).
  rewrite new_part.
  2:{ intros k Hk. split; [|apply Hn; exact Hk]. intros X. apply NoDup_app_inv in NA.
      destruct NA as (_ & _ & D). exact (D k (Iv k X) Hk). }
  rewrite !served_part; [rewrite !app_nil_r; reflexivity|exact Hl|].
  intros j Hj. apply in_map_iff in Hj. destruct Hj as (r & <- & Hr). apply filter_In in Hr.
  cbn [fail_job j_ops]. eapply ops_served_sub; [apply not_completed_incl|]. apply Gr. apply Hr.
Qed.

End Pre.

(* ------------------------------------------------------------------------------------------ *)
(* 7. priority-pool                                                                            *)
(* ------------------------------------------------------------------------------------------ *)

Lemma existsb_ext' {A} (f g : A -> bool) l : (forall x, f x = g x) -> existsb f l = existsb g l.
Proof. intros E. induction l as [|h t IH]; cbn [existsb]; [reflexivity|]. rewrite E, IH. reflexivity. Qed.

Section PPLoop.
Variable C : cfg.
Local Notation St := (cf_static C).
Hypothesis SK : static_ok St.

(* nothing returns to PENDING under priority-pool: served = not fresh *)
Definition pp_ginv (sv : list nat) (s : sim) : Prop :=
  ginv C sv s /\ length (w_st (wof s)) = length (s_ops St) /\ (forall k, In k sv -> ~ fresh C (wof s) k).

Definition pclass (n1 n2 n3 : nat) (c : prio) : nat :=
  match c with Query => n1 | Interactive => n2 | Batch => n3 end.

Lemma pp_tick sv t s newp s' lg :
  pp_ginv sv s -> cls_inv C s -> sim_tick C APriorityPool t s newp = Ok (s', lg) ->
  (forall k, In k (arrived s') -> pd_order (pipe_of St k) <> []) ->
  pp_ginv (sv ++ log_pipes C lg) s' /\
  exists served : prio -> list nat,
    (forall c, waiting C sv c (arrived s') = served c ++ waiting C (sv ++ log_pipes C lg) c (arrived s')) /\
    Forall2 (fun k a0 => a_ops a0 = pd_order (pipe_of St k) /\ a_prio a0 = cls C k)
            (served Query ++ served Interactive ++ served Batch) (filter (anew C sv) (tl_asgs lg)).
Proof.
  intros (G & Len & Nf) (Sp & _) T Hops.
  pose proof T as T0. apply PriorityPoolRunFacts.sim_tick_ok_inv in T0.
  destruct T0 as (arr & ss' & w' & susps & asgs & e2 & res & Ra & Sch & _ & _ & _ & _ & E4 & _).
  assert (Ar : arrived s' = arrived s ++ newp).
  { unfold arrived. rewrite E4. apply record_arrivals_fst in Ra. exact Ra. }
  assert (NA : NoDup (arrived s ++ newp)).
  { rewrite <- Ar. unfold arrived. rewrite E4. eapply record_arrivals_nodup; [exact Ra|apply G]. }
  pose proof Sch as Sch0. cbn [sched_step] in Sch0. apply pp_step_inv in Sch0.
  destruct Sch0 as (m & lq & n1 & n2 & n3 & x0a & x0b & x1a & w1 & w2 & a1 & a2 & a3 & o1 & o2 & H).
  destruct H as (_ & Lq & _ & R1 & R2 & R3 & _ & Ea & Eq & Ei & Eb & _). subst asgs.
  apply pp_rel_gscan in R1. apply pp_rel_gscan in R2. apply pp_rel_gscan in R3.
  set (pre := pp_pre C (sm_sched s) (sm_exec s) (sm_results s) newp lq) in *.
  assert (Hpre : forall c, filter (jnew C sv) (pre c) = map (arrival_job C) (waiting C sv c (arrived s ++ newp))).
  { intros c. apply pp_pre_shape; [exact SK|exact G|exact NA| |].
    - intros k Hk. apply Hops. rewrite Ar. apply in_or_app. right. exact Hk.
    - intros j Hj. exfalso. destruct (Lq j Hj) as (p & c0 & Hp & Hc & _).
      rewrite (proj2 (Sp p Hp)) in Hc. exact Hc. }
  assert (Hleft : forall c, queue_of ss' c = skipn (pclass n1 n2 n3 c) (pre c)).
  { intros c. destruct c; cbn [queue_of pclass]; assumption. }
  change (e_world (sm_exec s)) with (wof s) in R1.
  pose proof (tick_ginv C SK sv t s s' newp lg _ G T Hops pre (pclass n1 n2 n3) w1 w2 w' a1 a2 a3 ss' susps
                Sch Hpre R1 R2 R3 Hleft) as G'.
  pose proof (tick_first C SK sv t s s' newp lg _ G T Hops pre (pclass n1 n2 n3) w1 w2 w' a1 a2 a3 ss' susps
                Sch Hpre R1 R2 R3) as F.
  pose proof (sv_after C SK sv t s s' newp lg _ G T Hops pre (pclass n1 n2 n3) w1 w2 w' a1 a2 a3 ss' susps
                Sch Hpre R1 R2 R3) as SA.
  destruct (tick_facts C sv t s s' newp lg _ G T w' a1 a2 a3 ss' susps Sch) as (_ & _ & _ & _ & Ex).
  split; [|exists (srv C sv (arrived s ++ newp) pre (pclass n1 n2 n3)); exact F].
  (* the worlds of the tick *)
  pose proof (gscan_asteps _ _ _ _ _ _ R1) as A1. pose proof (gscan_asteps _ _ _ _ _ _ R2) as A2.
  pose proof (gscan_asteps _ _ _ _ _ _ R3) as A3.
  pose proof (exec_tick_xsteps _ _ _ _ _ _ Ex) as X. cbn [e_world] in X. change (e_world (sm_exec s')) with (wof s') in X.
  apply exec_tick_ok_inv in Ex. destruct Ex as (_ & _ & Ex). cbn [e_world e_next e_pools] in Ex.
  assert (L1 : length (w_st w1) = length (s_ops St)) by (rewrite (asteps_length _ _ _ A1); exact Len).
  assert (L2 : length (w_st w2) = length (s_ops St)) by (rewrite (asteps_length _ _ _ A2); exact L1).
  assert (Pb : forall o, st_of w' o <> Pending -> st_of (wof s') o <> Pending).
  { intros o Ho P. apply Ho.
    assert (Es : susps = []) by (eapply pp_never_suspends; exact Sch). rewrite Es in Ex.
    apply (pools_tick_pending _ _ _ _ _ _ _ _ _ o Ex (fun p Hp => proj1 (Sp p Hp))). exact P. }
  split; [exact G'|]. split.
  - rewrite (xsteps_length _ _ _ X), (asteps_length _ _ _ A3). exact L2.
  - intros k Hk F0. apply SA in Hk. destruct Hk as [Hk|(c & Hk)].
    + apply (Nf k Hk). intros o Ho. specialize (F0 o Ho).
      assert (P3 : st_of w' o = Pending).
      { destruct (ostate_eqb (st_of w' o) Pending) eqn:E; [apply ostate_eqb_eq; exact E|].
        exfalso. apply ostate_eqb_neq in E. exact (Pb o E F0). }
      eapply asteps_pending_back; [exact A1|]. eapply asteps_pending_back; [exact A2|].
      eapply asteps_pending_back; [exact A3|exact P3].
    + destruct (srv_has C sv s newp pre (pclass n1 n2 n3) w1 w2 w' a1 a2 a3 Hpre R1 R2 R3 c k Hk) as (a0 & Ha & Eo & _).
      assert (Ik : In k (arrived s ++ newp)) by (apply (srv_In C sv _ pre _ c k Hk)).
      destruct (pd_order (pipe_of St k)) as [|o tl] eqn:E; [apply (Hops k); [rewrite Ar; exact Ik|exact E]|].
      assert (Io : In o (pd_order (pipe_of St k))) by (rewrite E; left; reflexivity).
      assert (Lo : o < length (s_ops St)) by (destruct SK as [_ SO]; apply (SO k o Io)).
      assert (Oa : In o (a_ops a0)) by (rewrite Eo; left; reflexivity).
      apply (Pb o); [|apply F0; exact Io].
      apply in_app_or in Ha. destruct Ha as [Ha|Ha]; [|apply in_app_or in Ha; destruct Ha as [Ha|Ha]].
      * intros P. apply (asteps_pending_back _ _ _ o A3) in P. apply (asteps_pending_back _ _ _ o A2) in P.
        revert P. eapply gscan_assigned; [exact R1|exact Ha|exact Oa|]. rewrite Len. exact Lo.
      * intros P. apply (asteps_pending_back _ _ _ o A3) in P.
        revert P. eapply gscan_assigned; [exact R2|exact Ha|exact Oa|]. rewrite L1. exact Lo.
      * eapply gscan_assigned; [exact R3|exact Ha|exact Oa|]. rewrite L2. exact Lo.
Qed.

Lemma pp_ginv_init np cpu ram : pp_ginv [] (init_sim C np cpu ram).
Proof.
  split; [apply ginv_init|]. split; [|intros k []].
  unfold wof. cbn [init_sim sm_exec init_estate e_world init_world w_st]. apply repeat_length.
Qed.

Lemma pp_hist np cpu ram t s logs :
  sim_hist C APriorityPool 0%Z (init_sim C np cpu ram) t s logs ->
  (forall k, In k (arrived s) -> pd_order (pipe_of St k) <> []) ->
  pp_ginv (served_pipes C logs) s.
Proof.
  remember (init_sim C np cpu ram) as s0 eqn:E0. remember 0%Z as t0 eqn:Et.
  induction 1 as [t s|t0 s0 t s logs newp s' lg R IH T]; intros HS.
  - subst s. apply pp_ginv_init.
  - specialize (IH E0 Et).
    assert (Ar : arrived s' = arrived s ++ newp).
    { apply PriorityPoolRunFacts.sim_tick_ok_inv in T.
      destruct T as (arr & ss' & w' & susps & asgs & e2 & res & Ra & _ & _ & _ & _ & _ & E4 & _).
      unfold arrived. rewrite E4. apply record_arrivals_fst in Ra. exact Ra. }
    assert (HS0 : forall k, In k (arrived s) -> pd_order (pipe_of St k) <> []).
    { intros k Hk. apply HS. rewrite Ar. apply in_or_app. left. exact Hk. }
    subst s0 t0. pose proof (sim_hist_reach _ _ _ _ _ _ _ R) as Rr.
    pose proof (cls_inv_reach C np cpu ram t s (Hbelong C SK) Rr) as CI.
    rewrite served_pipes_app. unfold served_pipes at 2. cbn [flat_map]. rewrite app_nil_r.
    apply (pp_tick _ _ _ _ _ _ (IH HS0) CI T HS).
Qed.

(* in a state of the invariant: never served = all operators PENDING *)
Lemma pp_unsv_fresh sv s k : pp_ginv sv s -> unsv sv k = freshb C (wof s) k.
Proof.
  intros ((_ & _ & Fr & _) & _ & Nf). destruct (unsv sv k) eqn:U.
  - symmetry. apply freshb_spec. apply Fr. apply unsv_true. exact U.
  - unfold unsv in U. apply negb_false_iff in U. apply memb_In in U. symmetry.
    destruct (freshb C (wof s) k) eqn:F; [|reflexivity]. apply freshb_spec in F. exfalso. exact (Nf k U F).
Qed.

(* a job, an assignment holding an operator of a fresh pipeline *)
Definition ops_fresh (w : world) (ops : list nat) : bool := existsb (fun o => freshb C w (op_pipe St o)) ops.
(* the fresh arrived pipelines of a class, in arrival order *)
Definition fresh_of (w : world) (c : prio) (A : list nat) : list nat :=
  filter (fun k => freshb C w k && prio_eqb (prio_of_pipe C k) c) A.

Lemma pp_ops_new sv s ops : pp_ginv sv s -> ops_new C sv ops = ops_fresh (wof s) ops.
Proof. intros G. unfold ops_new, ops_fresh. apply existsb_ext'. intros o. apply (pp_unsv_fresh sv s _ G). Qed.

Lemma pp_waiting sv s c A : pp_ginv sv s -> waiting C sv c A = fresh_of (wof s) c A.
Proof.
  intros G. unfold waiting, fresh_of. apply filter_ext. intros k. rewrite (pp_unsv_fresh sv s k G). reflexivity.
Qed.

End PPLoop.

(* a prefix of a duplicate-free list keeps the order of the list *)
Lemma prefix_before (F pre rest : list nat) k1 k2 :
  NoDup F -> F = pre ++ rest -> before F k1 k2 -> In k2 pre -> before pre k1 k2.
Proof.
  intros N E B H2. rewrite E in B, N. apply NoDup_app_inv in N. destruct N as (_ & _ & D).
  apply before_app_cases in B. destruct B as [B|[[_ B]|B]]; [exact B| |].
  - exfalso. exact (D k2 H2 B).
  - exfalso. apply before_In in B. exact (D k2 H2 (proj2 B)).
Qed.

Lemma mk_static_SK C l : cf_static C = mk_static l -> dags_wf l -> static_ok (cf_static C).
Proof. intros E W. rewrite E. apply static_ok_mk_static. exact W. Qed.

Lemma map_pipe_arrival C l : map j_pipe (map (arrival_job C) l) = l.
Proof. rewrite map_map. cbn [arrival_job PriorityPoolFacts.new_job j_pipe]. apply map_id. Qed.

(* run level, states (priority-pool): in every class queue the jobs that hold an operator of a fresh pipeline
   are exactly the arrival jobs (all operators of the pipeline, no retry statistics) of the fresh arrived
   pipelines of that class, in arrival order; pipelines that have not arrived are fresh *)
Theorem pp_run_fifo C l np cpu ram t s :
  cf_static C = mk_static l -> dags_wf l ->
  sim_reach C APriorityPool 0%Z (init_sim C np cpu ram) t s ->
  (forall k, In k (arrived s) -> pd_order (pipe_of (cf_static C) k) <> []) ->
  (forall c, filter (fun j => ops_fresh C (wof s) (j_ops j)) (queue_of (sm_sched s) c)
             = map (arrival_job C) (fresh_of C (wof s) c (arrived s))) /\
  (forall c, map j_pipe (filter (fun j => ops_fresh C (wof s) (j_ops j)) (queue_of (sm_sched s) c))
             = fresh_of C (wof s) c (arrived s)) /\
  (forall k, ~ In k (arrived s) -> fresh C (wof s) k) /\
  NoDup (arrived s).
Proof.
  intros E W R HS. pose proof (mk_static_SK C l E W) as SK.
  destruct (sim_reach_hist _ _ _ _ _ _ R) as [logs H].
  pose proof (pp_hist C SK np cpu ram t s logs H HS) as G.
  assert (Q : forall c, filter (fun j => ops_fresh C (wof s) (j_ops j)) (queue_of (sm_sched s) c)
                        = map (arrival_job C) (fresh_of C (wof s) c (arrived s))).
  { intros c. rewrite <- (pp_waiting C _ s c _ G). pose proof G as ((_ & _ & _ & Gq & _) & _).
    rewrite <- Gq. apply filter_ext. intros j. symmetry. apply (pp_ops_new C _ s _ G). }
  split; [exact Q|]. split; [intros c; rewrite Q; apply map_pipe_arrival|].
  destruct G as ((Na & Iv & Fr & _) & _). split; [|exact Na].
  intros k Nk. apply Fr. intros X. apply Nk. apply Iv. exact X.
Qed.

(* run level, ticks (priority-pool): class by class, the pipelines that receive their first container in a
   tick are an arrival-ordered prefix of the fresh pipelines of the class (arrivals of the tick included);
   their containers are, in this order, the assignments of the tick that hold an operator of a fresh pipeline,
   each with all operators of its pipeline. So no pipeline gets its first container while an earlier pipeline
   of its class is still fresh, and within a tick first containers are handed out in arrival order *)
Theorem pp_run_fifo_tick C l np cpu ram t s newp s' lg :
  cf_static C = mk_static l -> dags_wf l ->
  sim_reach C APriorityPool 0%Z (init_sim C np cpu ram) t s ->
  sim_tick C APriorityPool t s newp = Ok (s', lg) ->
  (forall k, In k (arrived s') -> pd_order (pipe_of (cf_static C) k) <> []) ->
  exists served : prio -> list nat,
    (forall c, fresh_of C (wof s) c (arrived s') = served c ++ fresh_of C (wof s') c (arrived s')) /\
    Forall2 (fun k a => a_ops a = pd_order (pipe_of (cf_static C) k) /\ a_prio a = prio_of_pipe C k)
            (served Query ++ served Interactive ++ served Batch)
            (filter (fun a => ops_fresh C (wof s) (a_ops a)) (tl_asgs lg)) /\
    (forall c k, In k (served c) ->
       In k (arrived s') /\ prio_of_pipe C k = c /\ fresh C (wof s) k /\ ~ fresh C (wof s') k) /\
    (forall l1 k1 l2 k2, arrived s' = l1 ++ k1 :: l2 -> In k2 l2 ->
       prio_of_pipe C k1 = prio_of_pipe C k2 -> fresh C (wof s) k1 -> In k2 (served (prio_of_pipe C k2)) ->
       exists s1 s2, served (prio_of_pipe C k2) = s1 ++ k1 :: s2 /\ In k2 s2).
Proof.
  intros E W R T HS. pose proof (mk_static_SK C l E W) as SK.
  destruct (sim_reach_hist _ _ _ _ _ _ R) as [logs H].
  assert (Ar : arrived s' = arrived s ++ newp).
  { pose proof T as T0. apply PriorityPoolRunFacts.sim_tick_ok_inv in T0.
    destruct T0 as (arr & ss' & w' & susps & asgs & e2 & res & Ra & _ & _ & _ & _ & _ & E4 & _).
    unfold arrived. rewrite E4. apply record_arrivals_fst in Ra. exact Ra. }
  assert (HS0 : forall k, In k (arrived s) -> pd_order (pipe_of (cf_static C) k) <> []).
  { intros k Hk. apply HS. rewrite Ar. apply in_or_app. left. exact Hk. }
  pose proof (pp_hist C SK np cpu ram t s logs H HS0) as G.
  pose proof (cls_inv_reach C np cpu ram t s (Hbelong C SK) R) as CI.
  destruct (pp_tick C SK _ t s newp s' lg G CI T HS) as (G' & served & P1 & P2).
  assert (Q1 : forall c, fresh_of C (wof s) c (arrived s') = served c ++ fresh_of C (wof s') c (arrived s')).
  { intros c. rewrite <- (pp_waiting C _ s c _ G), <- (pp_waiting C _ s' c _ G'). apply P1. }
  assert (N' : NoDup (arrived s')) by (apply G').
  assert (NF : forall c, NoDup (fresh_of C (wof s) c (arrived s'))).
  { intros c. unfold fresh_of. apply SafetyFacts.NoDup_filter_nat. exact N'. }
  exists served. split; [exact Q1|]. split; [|split].
  - rewrite (filter_ext _ (anew C (served_pipes C logs))); [exact P2|].
    intros a. symmetry. apply (pp_ops_new C _ s _ G).
  - intros c k Hk.
    assert (Hf : In k (fresh_of C (wof s) c (arrived s'))) by (rewrite Q1; apply in_or_app; left; exact Hk).
    unfold fresh_of in Hf. apply filter_In in Hf. destruct Hf as [Ia Hb]. apply andb_true_iff in Hb.
    destruct Hb as [Fb Cb]. apply freshb_spec in Fb. apply PriorityPoolFacts.prio_eqb_eq in Cb.
    split; [exact Ia|]. split; [exact Cb|]. split; [exact Fb|]. intros F'.
    specialize (NF c). rewrite Q1 in NF. apply NoDup_app_inv in NF. destruct NF as (_ & _ & D).
    apply (D k Hk). unfold fresh_of. apply filter_In. split; [exact Ia|]. apply andb_true_iff. split.
    + apply freshb_spec. exact F'.
    + apply PriorityPoolFacts.prio_eqb_eq. exact Cb.
  - intros l1 k1 l2 k2 Ea I2 Ec F1 S2. set (c := prio_of_pipe C k2) in *.
    assert (B : before (arrived s') k1 k2) by (exists l1, l2; auto).
    assert (Hf2 : In k2 (fresh_of C (wof s) c (arrived s'))) by (rewrite Q1; apply in_or_app; left; exact S2).
    unfold fresh_of in Hf2. apply filter_In in Hf2. destruct Hf2 as [_ Hb2].
    assert (Hb1 : freshb C (wof s) k1 && prio_eqb (prio_of_pipe C k1) c = true).
    { apply andb_true_iff. split; [apply freshb_spec; exact F1|apply PriorityPoolFacts.prio_eqb_eq; exact Ec]. }
    pose proof (before_filter (fun k => freshb C (wof s) k && prio_eqb (prio_of_pipe C k) c) _ _ _ B Hb1 Hb2) as BF. fold (fresh_of C (wof s) c (arrived s')) in BF.
    destruct (prefix_before _ _ _ k1 k2 (NF c) (Q1 c) BF S2) as (s1 & s2 & Es & Is). exists s1, s2. auto.
Qed.

(* ------------------------------------------------------------------------------------------ *)
(* 8. priority: the jobs filed in a round (multi-operator containers)                           *)
(* ------------------------------------------------------------------------------------------ *)

Lemma add_absent_notin x : forall l, ~ In x l -> add_absent x l = l ++ [x].
Proof.
  induction l as [|y t IH]; intros N; cbn [add_absent app]; [reflexivity|].
  destruct (Nat.eqb x y) eqn:E; [apply Nat.eqb_eq in E; subst; exfalso; apply N; left; reflexivity|].
  rewrite IH; [reflexivity|]. intros H. apply N. right. exact H.
Qed.

Lemma add_absent_cases x l : add_absent x l = l \/ add_absent x l = l ++ [x].
Proof.
  induction l as [|y t IH]; cbn [add_absent app]; [right; reflexivity|].
  destruct (Nat.eqb x y); [left; reflexivity|]. destruct IH as [->| ->]; [left|right]; reflexivity.
Qed.

Lemma fold_add_new : forall newp acc, NoDup (acc ++ newp) ->
  fold_left (fun l p => add_absent p l) newp acc = acc ++ newp.
Proof.
  induction newp as [|k t IH]; intros acc N; cbn [fold_left]; [rewrite app_nil_r; reflexivity|].
  assert (Nk : ~ In k acc).
  { apply NoDup_app_inv in N. destruct N as (_ & _ & D). intros X. apply (D k X). left. reflexivity. }
  rewrite (add_absent_notin k acc Nk). rewrite IH; [rewrite <- app_assoc; reflexivity|].
  rewrite <- app_assoc. exact N.
Qed.

Lemma fold_add_ops (S : static) : forall ops acc, exists ext,
  fold_left (fun l' o => add_absent (op_pipe S o) l') ops acc = acc ++ ext /\
  forall p, In p ext -> exists o, In o ops /\ p = op_pipe S o.
Proof.
  induction ops as [|o t IH]; intros acc; cbn [fold_left].
  - exists []. split; [rewrite app_nil_r; reflexivity|intros p []].
  - destruct (add_absent_cases (op_pipe S o) acc) as [-> | ->].
    + destruct (IH acc) as (ext & E & P). exists ext. split; [exact E|].
      intros p Hp. destruct (P p Hp) as (o' & Ho' & Ep). exists o'. split; [right; exact Ho'|exact Ep].
    + destruct (IH (acc ++ [op_pipe S o])) as (ext & E & P). exists (op_pipe S o :: ext). split.
      * rewrite E, <- app_assoc. reflexivity.
      * intros p [<-|Hp]; [exists o; split; [left; reflexivity|reflexivity]|].
        destruct (P p Hp) as (o' & Ho' & Ep). exists o'. split; [right; exact Ho'|exact Ep].
Qed.

Lemma fold_add_results (S : static) : forall results acc, exists ext,
  fold_left (fun l r => fold_left (fun l' o => add_absent (op_pipe S o) l') (r_ops r) l) results acc = acc ++ ext /\
  forall p, In p ext -> exists r o, In r results /\ In o (r_ops r) /\ p = op_pipe S o.
Proof.
  induction results as [|r t IH]; intros acc; cbn [fold_left].
  - exists []. split; [rewrite app_nil_r; reflexivity|intros p []].
  - destruct (fold_add_ops S (r_ops r) acc) as (e1 & E1 & P1). rewrite E1.
    destruct (IH (acc ++ e1)) as (e2 & E2 & P2). exists (e1 ++ e2). split; [rewrite E2, app_assoc; reflexivity|].
    intros p Hp. apply in_app_or in Hp. destruct Hp as [Hp|Hp].
    + destruct (P1 p Hp) as (o & Ho & Ep). exists r, o. split; [left; reflexivity|auto].
    + destruct (P2 p Hp) as (r0 & o & Hr & Ho & Ep). exists r0, o. split; [right; exact Hr|auto].
Qed.

Section PRJobs.
Variable C : cfg.
Local Notation St := (cf_static C).
Hypothesis SK : static_ok St.
Hypothesis Hmulti : cf_multi C = true.

(* the jobs [pr_new_jobs] files for one pipeline *)
Definition pr_job_of (w : world) (already : list nat) (ri : list (nat * retry)) (p : nat) : list job :=
  let ops0 := if cf_multi C then get_ops (S_of C) w p assignable false
              else get_ops (S_of C) w p assignable true in
  let ops := filter (fun o => negb (memb o already)) ops0 in
  match ops with
  | [] => []
  | o :: _ =>
      if cf_multi C then
        [{| j_prio := prio_of_pipe C p; j_pipe := p; j_ops := ops; j_retry := assoc_find o ri |}]
      else
        map (fun o' => {| j_prio := prio_of_pipe C p; j_pipe := p; j_ops := [o'];
                          j_retry := assoc_find o' ri |}) ops
  end.

Lemma pr_job_of_ops w already ri p j : In j (pr_job_of w already ri p) -> incl (j_ops j) (pd_order (pipe_of St p)).
Proof.
  unfold pr_job_of. cbv zeta. rewrite Hmulti. intros H.
  destruct (filter _ (get_ops (S_of C) w p assignable false)) as [|o t] eqn:E; [destruct H|].
  destruct H as [<-|[]]. cbn [j_ops]. rewrite <- E. intros x Hx. apply filter_In in Hx. destruct Hx as [Hx _].
  unfold get_ops in Hx. apply filter_In in Hx. apply Hx.
Qed.

Lemma pr_job_of_new w already ri k :
  fresh C w k -> pd_order (pipe_of St k) <> [] ->
  (forall o, In o (pd_order (pipe_of St k)) -> ~ In o already) ->
  (forall o, In o (pd_order (pipe_of St k)) -> assoc_find o ri = None) ->
  pr_job_of w already ri k = [arrival_job C k].
Proof.
  intros F N Na Nr. unfold pr_job_of. cbv zeta. rewrite Hmulti.
  assert (E0 : get_ops (S_of C) w k assignable false = pd_order (pipe_of St k)).
  { unfold get_ops. apply PriorityPoolFacts.filter_all. intros o Ho. rewrite (F o Ho). reflexivity. }
  rewrite E0. rewrite PriorityPoolFacts.filter_all.
  2:{ intros o Ho. apply negb_true_iff. apply memb_false. apply Na. exact Ho. }
  unfold arrival_job, PriorityPoolFacts.new_job. change (S_of C) with St.
  destruct (pd_order (pipe_of St k)) as [|o t] eqn:E; [congruence|].
  rewrite (Nr o (or_introl eq_refl)). reflexivity.
Qed.

Lemma flat_map_single {A B} (f : A -> list B) (g : A -> B) l :
  (forall x, In x l -> f x = [g x]) -> flat_map f l = map g l.
Proof.
  induction l as [|h t IH]; intros H; cbn [flat_map map]; [reflexivity|].
  rewrite (H h (or_introl eq_refl)), IH; [reflexivity|]. intros x Hx. apply H. right. exact Hx.
Qed.

(* the jobs of a round: the arrival jobs of the new pipelines, in arrival order, then jobs for pipelines that
   have results -- made of operators of served pipelines *)
Lemma pr_jobs_shape sv s newp :
  ginv C sv s -> NoDup (arrived s ++ newp) ->
  (forall k, In k newp -> pd_order (pipe_of St k) <> []) ->
  exists rest,
    pr_jobs C (sm_sched s) (sm_exec s) (sm_results s) newp = map (arrival_job C) newp ++ rest /\
    forall j, In j rest -> ops_served C sv (j_ops j).
Proof.
  intros G NA Hn. pose proof G as (Na & Iv & Fr & Gq & Gc & Gr).
  assert (Dj : forall k, In k newp -> ~ In k (arrived s)).
  { intros k Hk X. apply NoDup_app_inv in NA. destruct NA as (_ & _ & D). exact (D k X Hk). }
  assert (Shape : exists rest,
            pr_new_jobs C (wof s) (sm_sched s) (sm_results s) newp = map (arrival_job C) newp ++ rest /\
            forall j, In j rest -> ops_served C sv (j_ops j)).
  { unfold pr_new_jobs. cbv zeta.
    fold (pr_job_of (wof s) (queued_ops (sm_sched s)) (retry_info (wof s) (sm_results s))).
    rewrite (fold_add_new newp []) by (cbn [app]; apply NoDup_app_inv in NA; apply NA). cbn [app].
    destruct (fold_add_results (S_of C) (sm_results s) newp) as (ext & -> & Pe).
    rewrite flat_map_app. eexists. split; [f_equal|].
    - apply flat_map_single. intros k Hk. apply pr_job_of_new.
      + apply Fr. intros X. apply (Dj k Hk). apply Iv. exact X.
      + apply Hn. exact Hk.
      + intros o Ho Hq. apply (Dj k Hk). rewrite <- (Hbelong C SK k o Ho).
        unfold queued_ops in Hq. rewrite !in_app_iff, !in_flat_map in Hq.
        destruct Hq as [(j & Hj & Hoj)|[(j & Hj & Hoj)|(j & Hj & Hoj)]].
        * apply (ginv_queued C SK sv s Query j o G Hj Hoj).
        * apply (ginv_queued C SK sv s Interactive j o G Hj Hoj).
        * apply (ginv_queued C SK sv s Batch j o G Hj Hoj).
      + intros o Ho. destruct (assoc_find o (retry_info (wof s) (sm_results s))) as [rs|] eqn:Ef; [|reflexivity].
        exfalso. apply retry_info_from_err in Ef. destruct Ef as (r & Hr & _ & _ & Hor).
        apply (Dj k Hk). apply Iv. rewrite <- (Hbelong C SK k o Ho). apply (Gr r Hr o Hor).
    - intros j Hj. apply in_flat_map in Hj. destruct Hj as (p & Hp & Hj).
      destruct (Pe p Hp) as (r & o & Hr & Ho & ->). intros o' Ho'.
      apply pr_job_of_ops in Hj. rewrite (Hbelong C SK _ o' (Hj o' Ho')). apply (Gr r Hr o Ho). }
  unfold pr_jobs. change (e_world (sm_exec s)) with (wof s).
  destruct newp as [|k t]; [destruct (sm_results s) as [|r tr] eqn:Er|]; [|exact Shape|exact Shape].
  exists []. split; [reflexivity|intros j []].
Qed.

(* the queue of class [c] when the scans of a priority round start *)
Lemma pr_pre_shape sv s newp lq c :
  ginv C sv s -> NoDup (arrived s ++ newp) ->
  (forall k, In k newp -> pd_order (pipe_of St k) <> []) ->
  (forall j, In j lq -> ops_served C sv (j_ops j)) ->
  filter (jnew C sv) (pr_pre C (sm_sched s) (sm_exec s) (sm_results s) newp lq c)
  = map (arrival_job C) (waiting C sv c (arrived s ++ newp)).
Proof.
  intros G NA Hn Hl. destruct (pr_jobs_shape sv s newp G NA Hn) as (rest & Ej & Pr).
  pose proof G as (Na & Iv & _ & Gq & _). unfold pr_pre. rewrite Ej.
  rewrite filter_app, Gq, waiting_app, map_app. f_equal.
  unfold PriorityFacts.is_class. rewrite !filter_app.
  rewrite (new_part C SK).
  2:{ intros k Hk. split; [|apply Hn; exact Hk]. intros X. apply NoDup_app_inv in NA.
      destruct NA as (_ & _ & D). exact (D k (Iv k X) Hk). }
  rewrite !served_part; [rewrite !app_nil_r; reflexivity|exact Hl|exact Pr].
Qed.

End PRJobs.

(* ------------------------------------------------------------------------------------------ *)
(* 9. priority: the loop                                                                        *)
(* ------------------------------------------------------------------------------------------ *)

(* the noted map after a round is a part of the map noted in the round *)
Lemma pr_step_suspending C s e results newp s' w' susps asgs m :
  priority_step C s e results newp = Ok (s', w', susps, asgs) ->
  note_suspending_pools C (e_world e) (e_pools e) (ss_suspending s) = Ok m ->
  forall kv, In kv (ss_suspending s') -> In kv m.
Proof.
  intros H NS0. unfold priority_step in H. cbv zeta in H.
  fold (pr_jobs C s e results newp) in H.
  assert (JP : forall j, In j (pr_jobs C s e results newp) -> prio_of_pipe C (j_pipe j) = j_prio j).
  { intros j Hj. unfold pr_jobs in Hj. symmetry.
    destruct newp as [|k newp]; [destruct results as [|r results]; [destruct Hj|]|];
      eapply pr_new_jobs_prio; eauto. }
  pose proof (fold_push_queue (fun j => prio_of_pipe C (j_pipe j)) (pr_jobs C s e results newp) s JP) as N.
  cbv zeta in N.
  set (s1 := fold_left _ (pr_jobs C s e results newp) s) in *.
  destruct N as [_ [N2 _]]. rewrite N2, NS0 in H. unfold bind at 1 in H. cbv beta iota in H.
  match type of H with
  | bind ?r _ = Ok _ => destruct r as [s3|?] eqn:RQ; [unfold bind at 1 in H; cbv beta iota in H|discriminate H]
  end.
  apply pr_requeue_pools_spec in RQ.
  destruct RQ as [lq [_ [_ [_ [_ [_ [R6 _]]]]]]]. cbn [ss_suspending] in R6.
  match type of H with
  | bind ?r _ = Ok _ => destruct r as [[[[[n1 st1] w1] a1] o1]|?]; [unfold bind at 1 in H; cbv beta iota in H|discriminate H]
  end.
  match type of H with
  | bind ?r _ = Ok _ => destruct r as [[[[[n2 st2] w2] a2] o2]|?]; [unfold bind at 1 in H; cbv beta iota in H|discriminate H]
  end.
  match type of H with
  | bind ?r _ = Ok _ => destruct r as [[[[[n3 st3] w3] a3] o3]|?]; [unfold bind at 1 in H; cbv beta iota in H|discriminate H]
  end.
  injection H as Hs _ _ _. subst s'. cbn [ss_suspending]. exact R6.
Qed.

Section PRLoop.
Variable C : cfg.
Local Notation St := (cf_static C).
Hypothesis SK : static_ok St.
Hypothesis Hmulti : cf_multi C = true.

(* jobs noted for suspending containers are made of operators of served pipelines *)
Definition pr_ginv (sv : list nat) (s : sim) : Prop :=
  ginv C sv s /\ (forall kv, In kv (ss_suspending (sm_sched s)) -> ops_served C sv (j_ops (snd kv))).

Lemma pr_ginv_init np cpu ram : pr_ginv [] (init_sim C np cpu ram).
Proof. split; [apply ginv_init|intros kv []]. Qed.

Lemma pr_tick sv t s newp s' lg :
  pr_ginv sv s -> sim_tick C APriority t s newp = Ok (s', lg) ->
  (forall k, In k (arrived s') -> pd_order (pipe_of St k) <> []) ->
  pr_ginv (sv ++ log_pipes C lg) s' /\
  exists served : prio -> list nat,
    (forall c, waiting C sv c (arrived s') = served c ++ waiting C (sv ++ log_pipes C lg) c (arrived s')) /\
    Forall2 (fun k a0 => a_ops a0 = pd_order (pipe_of St k) /\ a_prio a0 = cls C k)
            (served Query ++ served Interactive ++ served Batch) (filter (anew C sv) (tl_asgs lg)).
Proof.
  intros (G & Gn) T Hops.
  pose proof T as T0. apply PriorityPoolRunFacts.sim_tick_ok_inv in T0.
  destruct T0 as (arr & ss' & w' & susps & asgs & e2 & res & Ra & Sch & _ & _ & E2 & _ & E4 & _).
  assert (Ar : arrived s' = arrived s ++ newp).
  { unfold arrived. rewrite E4. apply record_arrivals_fst in Ra. exact Ra. }
  assert (NA : NoDup (arrived s ++ newp)).
  { rewrite <- Ar. unfold arrived. rewrite E4. eapply record_arrivals_nodup; [exact Ra|apply G]. }
  pose proof Sch as Sch0. cbn [sched_step] in Sch0. pose proof Sch0 as Sch1. apply pr_step_inv in Sch0.
  destruct Sch0 as (m & lq & n1 & n2 & n3 & st1 & st2 & st3 & w1 & w2 & a1 & a2 & a3 & o1 & o2 & H).
  destruct H as (NS & Lq & _ & _ & _ & R1 & R2 & R3 & Ea & Eq & Ei & Eb & _). subst asgs.
  apply pr_rel_gscan in R1. apply pr_rel_gscan in R2. apply pr_rel_gscan in R3.
  pose proof G as (_ & _ & _ & _ & Gc & _).
  (* the noted map *)
  assert (Hm : forall kv, In kv m -> ops_served C sv (j_ops (snd kv))).
  { intros kv Hkv. destruct (note_suspending_pools_spec _ _ _ _ _ NS kv Hkv) as [X|(p & c & Hp & Hc & _ & Nj)].
    - apply Gn. exact X.
    - apply noted_job_fields in Nj. destruct Nj as (-> & _). eapply ops_served_sub; [apply not_completed_incl|].
      apply (Gc p c Hp). unfold pool_conts. rewrite !in_app_iff. auto. }
  assert (Hl : forall j, In j lq -> ops_served C sv (j_ops j)).
  { intros j Hj. destruct (Lq j Hj) as (p & c & Hp & Hc & _ & [X|(j0 & J0 & ->)]).
    - apply (Hm (c_id c, j) X).
    - apply job_of_container_fields in J0. destruct J0 as (E0 & _). cbn [job_with_pipe j_ops]. rewrite E0.
      eapply ops_served_sub; [apply not_completed_incl|].
      apply (Gc p c Hp). unfold pool_conts. rewrite !in_app_iff. auto. }
  set (pre := pr_pre C (sm_sched s) (sm_exec s) (sm_results s) newp lq) in *.
  assert (Hpre : forall c, filter (jnew C sv) (pre c) = map (arrival_job C) (waiting C sv c (arrived s ++ newp))).
  { intros c. apply pr_pre_shape; [exact SK|exact Hmulti|exact G|exact NA| |exact Hl].
    intros k Hk. apply Hops. rewrite Ar. apply in_or_app. right. exact Hk. }
  assert (Hleft : forall c, queue_of ss' c = skipn (pclass n1 n2 n3 c) (pre c)).
  { intros c. destruct c; cbn [queue_of pclass]; assumption. }
  change (e_world (sm_exec s)) with (wof s) in R1.
  pose proof (tick_ginv C SK sv t s s' newp lg _ G T Hops pre (pclass n1 n2 n3) w1 w2 w' a1 a2 a3 ss' susps
                Sch Hpre R1 R2 R3 Hleft) as G'.
  pose proof (tick_first C SK sv t s s' newp lg _ G T Hops pre (pclass n1 n2 n3) w1 w2 w' a1 a2 a3 ss' susps
                Sch Hpre R1 R2 R3) as F.
  split; [|exists (srv C sv (arrived s ++ newp) pre (pclass n1 n2 n3)); exact F].
  split; [exact G'|]. rewrite E2. intros kv Hkv o Ho. apply in_or_app. left.
  apply (Hm kv (pr_step_suspending _ _ _ _ _ _ _ _ _ _ Sch1 NS kv Hkv) o Ho).
Qed.

Lemma pr_hist np cpu ram t s logs :
  sim_hist C APriority 0%Z (init_sim C np cpu ram) t s logs ->
  (forall k, In k (arrived s) -> pd_order (pipe_of St k) <> []) ->
  pr_ginv (served_pipes C logs) s.
Proof.
  remember (init_sim C np cpu ram) as s0 eqn:E0. remember 0%Z as t0 eqn:Et.
  induction 1 as [t s|t0 s0 t s logs newp s' lg R IH T]; intros HS.
  - subst s. apply pr_ginv_init.
  - specialize (IH E0 Et).
    assert (Ar : arrived s' = arrived s ++ newp).
    { apply PriorityPoolRunFacts.sim_tick_ok_inv in T.
      destruct T as (arr & ss' & w' & susps & asgs & e2 & res & Ra & _ & _ & _ & _ & _ & E4 & _).
      unfold arrived. rewrite E4. apply record_arrivals_fst in Ra. exact Ra. }
    assert (HS0 : forall k, In k (arrived s) -> pd_order (pipe_of St k) <> []).
    { intros k Hk. apply HS. rewrite Ar. apply in_or_app. left. exact Hk. }
    rewrite served_pipes_app. unfold served_pipes at 2. cbn [flat_map]. rewrite app_nil_r.
    apply (pr_tick _ _ _ _ _ _ (IH HS0) T HS).
Qed.

End PRLoop.

(* what [served_pipes] means: pipeline [k] has an operator in an assignment of one of the logged ticks *)
Lemma served_pipes_In C logs k :
  In k (served_pipes C logs) <->
  exists lg a o, In lg logs /\ In a (tl_asgs lg) /\ In o (a_ops a) /\ op_pipe (cf_static C) o = k.
Proof.
  unfold served_pipes. rewrite in_flat_map. split.
  - intros (lg & Hl & Hk). apply log_pipes_In in Hk. destruct Hk as (a & o & Ha & Ho & E). exists lg, a, o. auto.
  - intros (lg & a & o & Hl & Ha & Ho & E). exists lg. split; [exact Hl|]. apply log_pipes_In. exists a, o. auto.
Qed.

(* run level, states (priority, multi-operator containers). [logs]: the ticks that led to [s]. In every class
   queue the jobs that hold an operator of a pipeline which has never received a container are exactly the
   arrival jobs (all operators of the pipeline, no retry statistics) of the arrived, never served pipelines of
   that class, in arrival order; a pipeline that was never served has all its operators PENDING *)
Theorem priority_run_fifo C l np cpu ram t s logs :
  cf_static C = mk_static l -> dags_wf l -> cf_multi C = true ->
  sim_hist C APriority 0%Z (init_sim C np cpu ram) t s logs ->
  (forall k, In k (arrived s) -> pd_order (pipe_of (cf_static C) k) <> []) ->
  (forall c, filter (jnew C (served_pipes C logs)) (queue_of (sm_sched s) c)
             = map (arrival_job C) (waiting C (served_pipes C logs) c (arrived s))) /\
  (forall c, map j_pipe (filter (jnew C (served_pipes C logs)) (queue_of (sm_sched s) c))
             = waiting C (served_pipes C logs) c (arrived s)) /\
  (forall k, ~ In k (served_pipes C logs) -> fresh C (wof s) k) /\
  incl (served_pipes C logs) (arrived s) /\ NoDup (arrived s).
Proof.
  intros E W M H HS. pose proof (mk_static_SK C l E W) as SK.
  destruct (pr_hist C SK M np cpu ram t s logs H HS) as ((Na & Iv & Fr & Gq & _) & _).
  split; [exact Gq|]. split; [intros c; rewrite Gq; apply map_pipe_arrival|]. auto.
Qed.

(* run level, ticks (priority, multi-operator containers): class by class, the pipelines that receive their
   first container in a tick are an arrival-ordered prefix of the arrived pipelines of the class that had never
   been served (arrivals of the tick included); their containers are, in this order, the assignments of the tick
   that hold an operator of a never-served pipeline, each with all operators of its pipeline. Re-queued work
   (suspended or failed containers) belongs to served pipelines and does not count *)
Theorem priority_run_fifo_tick C l np cpu ram t s logs newp s' lg :
  cf_static C = mk_static l -> dags_wf l -> cf_multi C = true ->
  sim_hist C APriority 0%Z (init_sim C np cpu ram) t s logs ->
  sim_tick C APriority t s newp = Ok (s', lg) ->
  (forall k, In k (arrived s') -> pd_order (pipe_of (cf_static C) k) <> []) ->
  exists served : prio -> list nat,
    (forall c, waiting C (served_pipes C logs) c (arrived s')
               = served c ++ waiting C (served_pipes C (logs ++ [lg])) c (arrived s')) /\
    Forall2 (fun k a => a_ops a = pd_order (pipe_of (cf_static C) k) /\ a_prio a = prio_of_pipe C k)
            (served Query ++ served Interactive ++ served Batch)
            (filter (anew C (served_pipes C logs)) (tl_asgs lg)) /\
    (forall c k, In k (served c) ->
       In k (arrived s') /\ prio_of_pipe C k = c /\ ~ In k (served_pipes C logs) /\ In k (log_pipes C lg)) /\
    (forall l1 k1 l2 k2, arrived s' = l1 ++ k1 :: l2 -> In k2 l2 ->
       prio_of_pipe C k1 = prio_of_pipe C k2 -> ~ In k1 (served_pipes C logs) ->
       In k2 (served (prio_of_pipe C k2)) ->
       exists s1 s2, served (prio_of_pipe C k2) = s1 ++ k1 :: s2 /\ In k2 s2).
Proof.
  intros E W M H T HS. pose proof (mk_static_SK C l E W) as SK.
  assert (Ar : arrived s' = arrived s ++ newp).
  { pose proof T as T0. apply PriorityPoolRunFacts.sim_tick_ok_inv in T0.
    destruct T0 as (arr & ss' & w' & susps & asgs & e2 & res & Ra & _ & _ & _ & _ & _ & E4 & _).
    unfold arrived. rewrite E4. apply record_arrivals_fst in Ra. exact Ra. }
  assert (HS0 : forall k, In k (arrived s) -> pd_order (pipe_of (cf_static C) k) <> []).
  { intros k Hk. apply HS. rewrite Ar. apply in_or_app. left. exact Hk. }
  pose proof (pr_hist C SK M np cpu ram t s logs H HS0) as G.
  destruct (pr_tick C SK M _ t s newp s' lg G T HS) as (G' & served & P1 & P2).
  set (sv := served_pipes C logs) in *.
  assert (Esv : served_pipes C (logs ++ [lg]) = sv ++ log_pipes C lg).
  { rewrite served_pipes_app. unfold served_pipes at 2. cbn [flat_map]. rewrite app_nil_r. reflexivity. }
  rewrite Esv.
  assert (N' : NoDup (arrived s')) by (apply G').
  assert (NF : forall c, NoDup (waiting C sv c (arrived s'))) by (intros c; apply waiting_NoDup; exact N').
  exists served. split; [exact P1|]. split; [exact P2|]. split.
  - intros c k Hk.
    assert (Hf : In k (waiting C sv c (arrived s'))) by (rewrite P1; apply in_or_app; left; exact Hk).
    apply waiting_In in Hf. destruct Hf as (Ia & Ns & Ec). split; [exact Ia|]. split; [exact Ec|]. split; [exact Ns|].
    destruct (in_dec Nat.eq_dec k (sv ++ log_pipes C lg)) as [X|X].
    + apply in_app_or in X. destruct X as [X|X]; [contradiction|exact X].
    + exfalso. specialize (NF c). rewrite P1 in NF. apply NoDup_app_inv in NF. destruct NF as (_ & _ & D).
      apply (D k Hk). apply waiting_In. auto.
  - intros l1 k1 l2 k2 Ea I2 Ec N1 S2. set (c := prio_of_pipe C k2) in *.
    assert (B : before (arrived s') k1 k2) by (exists l1, l2; auto).
    assert (Hf2 : In k2 (waiting C sv c (arrived s'))) by (rewrite P1; apply in_or_app; left; exact S2).
    unfold waiting in Hf2. apply filter_In in Hf2. destruct Hf2 as [_ Hb2].
    assert (Hb1 : unsv sv k1 && prio_eqb (cls C k1) c = true).
    { apply andb_true_iff. split; [apply unsv_true; exact N1|apply PriorityPoolFacts.prio_eqb_eq; exact Ec]. }
    pose proof (before_filter (fun k => unsv sv k && prio_eqb (cls C k) c) _ _ _ B Hb1 Hb2) as BF.
    fold (waiting C sv c (arrived s')) in BF.
    destruct (prefix_before _ _ _ k1 k2 (NF c) (P1 c) BF S2) as (s1 & s2 & Es & Is). exists s1, s2. auto.
Qed.

(* ------------------------------------------------------------------------------------------ *)
(* 10. the same in terms of the logs of a run only                                              *)
(* ------------------------------------------------------------------------------------------ *)

Lemma sim_hist_split C a t0 s0 t s logs : sim_hist C a t0 s0 t s logs ->
  forall pre lg post, logs = pre ++ lg :: post ->
  exists t1 s1 newp s2, sim_hist C a t0 s0 t1 s1 pre /\ sim_tick C a t1 s1 newp = Ok (s2, lg).
Proof.
  induction 1 as [t s|t0 s0 t s logs newp s' lg' R IH T]; intros pre lg post E.
  - destruct pre; discriminate.
  - destruct (rev post) as [|x rp] eqn:Er.
    + assert (post = []) by (rewrite <- (rev_involutive post), Er; reflexivity). subst post.
      change (pre ++ [lg]) with (pre ++ [lg]) in E. apply app_inj_tail in E. destruct E as [-> ->].
      exists t, s, newp, s'. auto.
    + assert (Ep : post = rev rp ++ [x]) by (rewrite <- (rev_involutive post), Er; reflexivity).
      rewrite Ep in E. change (pre ++ lg :: rev rp ++ [x]) with (pre ++ (lg :: rev rp) ++ [x]) in E.
      rewrite app_assoc in E. apply app_inj_tail in E. destruct E as [E _].
      exact (IH pre lg (rev rp) E).
Qed.

Lemma sim_hist_arrived C a np cpu ram t s logs :
  sim_hist C a 0%Z (init_sim C np cpu ram) t s logs -> arrived s = flat_map tl_new logs.
Proof.
  remember (init_sim C np cpu ram) as s0 eqn:E0. remember 0%Z as t0 eqn:Et.
  induction 1 as [t s|t0 s0 t s logs newp s' lg R IH T]; [subst s; reflexivity|].
  apply PriorityPoolRunFacts.sim_tick_ok_inv in T.
  destruct T as (arr & ss' & w' & susps & asgs & e2 & res & Ra & _ & _ & _ & _ & _ & E4 & E5 & _).
  rewrite flat_map_app. cbn [flat_map]. rewrite app_nil_r, E5, <- (IH E0 Et).
  unfold arrived. rewrite E4. apply record_arrivals_fst in Ra. exact Ra.
Qed.

Lemma sim_run_new_incl C a : forall arrivals t s sf logs oe,
  sim_run C a t s arrivals = (sf, logs, oe) -> incl (flat_map tl_new logs) (concat arrivals).
Proof.
  induction arrivals as [|newp r IH]; intros t s sf logs oe H; cbn [sim_run] in H.
  - inversion H; subst. intros x [].
  - destruct (sim_tick C a t s newp) as [[s1 lg]|e] eqn:E.
    + destruct (sim_run C a (t + 1)%Z s1 r) as [[sf' logs'] e'] eqn:R. inversion H; subst.
      apply PriorityPoolRunFacts.sim_tick_ok_inv in E.
      destruct E as (arr & ss' & w' & susps & asgs & e2 & res & _ & _ & _ & _ & _ & _ & _ & E5 & _).
      cbn [flat_map concat]. rewrite E5. intros x Hx. apply in_app_or in Hx. apply in_or_app.
      destruct Hx as [Hx|Hx]; [left; exact Hx|right; exact (IH _ _ _ _ _ R x Hx)].
    + inversion H; subst. intros x [].
Qed.

(* every tick of every run of the priority policy (multi-operator containers), read off the logs: with the
   arrival order [A] up to and including the tick, and "served" meaning "holds a container in an earlier log" *)
Theorem priority_logs_fifo C l np cpu ram arrivals sf logs oe :
  cf_static C = mk_static l -> dags_wf l -> cf_multi C = true ->
  sim_run C APriority 0%Z (init_sim C np cpu ram) arrivals = (sf, logs, oe) ->
  (forall k, In k (concat arrivals) -> pd_order (pipe_of (cf_static C) k) <> []) ->
  forall pre lg post, logs = pre ++ lg :: post ->
  exists served : prio -> list nat,
    (forall c, waiting C (served_pipes C pre) c (flat_map tl_new (pre ++ [lg]))
               = served c ++ waiting C (served_pipes C (pre ++ [lg])) c (flat_map tl_new (pre ++ [lg]))) /\
    Forall2 (fun k a => a_ops a = pd_order (pipe_of (cf_static C) k) /\ a_prio a = prio_of_pipe C k)
            (served Query ++ served Interactive ++ served Batch)
            (filter (anew C (served_pipes C pre)) (tl_asgs lg)).
Proof.
  intros E W M H HS pre lg post El.
  pose proof (sim_run_hist _ _ _ _ _ _ _ _ H) as Hh.
  destruct (sim_hist_split _ _ _ _ _ _ _ Hh pre lg post El) as (t1 & s1 & newp & s2 & H1 & T).
  assert (H2 : sim_hist C APriority 0%Z (init_sim C np cpu ram) (t1 + 1)%Z s2 (pre ++ [lg]))
    by (econstructor; eauto).
  pose proof (sim_hist_arrived _ _ _ _ _ _ _ _ H2) as A2.
  assert (HS2 : forall k, In k (arrived s2) -> pd_order (pipe_of (cf_static C) k) <> []).
  { intros k Hk. apply HS. apply (sim_run_new_incl _ _ _ _ _ _ _ _ H). rewrite A2 in Hk. rewrite El.
    rewrite in_flat_map in Hk. destruct Hk as (x & Hx & Hk). apply in_flat_map. exists x. split; [|exact Hk].
    apply in_app_or in Hx. apply in_or_app. destruct Hx as [Hx|[<-|[]]]; [left; exact Hx|right; left; reflexivity]. }
  destruct (priority_run_fifo_tick C l np cpu ram t1 s1 pre newp s2 lg E W M H1 T HS2) as (served & P1 & P2 & _).
  exists served. rewrite <- A2. split; [exact P1|exact P2].
Qed.

(* ------------------------------------------------------------------------------------------ *)
(* Examples                                                                                    *)
(* ------------------------------------------------------------------------------------------ *)
Module FifoExamples.

(* three batch pipelines of one operator each; operator 0 runs for three ticks, the others for one. Pools of
   1 CPU / 1 GB: a container takes its whole pool. Pipeline 0 arrives in tick 0 and fills the batch pool;
   pipelines 2 and 1 arrive, in this order, in tick 1 and wait; the pool is free again for the round of tick 3,
   which serves pipeline 2, tick 4 serves pipeline 1 *)
Definition Lf : list (prio * dag) := [(Batch, [[]]); (Batch, [[]]); (Batch, [[]])].
Definition Cf : cfg :=
  {| cf_static := mk_static Lf;
     cf_script := fun op _ => if Nat.eqb op 0 then [(1 # 2)%Q; (1 # 2)%Q; (1 # 2)%Q] else [(1 # 2)%Q];
     cf_tps := 10%Z; cf_overcommit := false; cf_multi := true; cf_rnd := fun q => q |}.

Lemma Lf_wf : dags_wf Lf.
Proof.
  assert (W : wf_dag [[]]).
  { intros j Hj. cbn in Hj. assert (j = 0) by lia. subst. split; [constructor|intros ? []]. }
  unfold dags_wf, Lf. apply Forall_cons; [exact W|apply Forall_cons; [exact W|apply Forall_cons; [exact W|apply Forall_nil]]].
Qed.

Definition arrs3 : list (list nat) := [[0]; [2; 1]; []].

Lemma has_ops k : In k [0; 2; 1] -> pd_order (pipe_of (cf_static Cf) k) <> [].
Proof. intros [<-|[<-|[<-|[]]]]; vm_compute; discriminate. Qed.

Definition dummy_log : tick_log :=
  {| tl_new := []; tl_susp := []; tl_asgs := []; tl_results := []; tl_finished := [] |}.

(* priority-pool, two pools *)
Definition pp_init : sim := init_sim Cf 2 1%Z 1%Q.
Definition pp_run := sim_run Cf APriorityPool 0%Z pp_init arrs3.
Definition pp_s3 : sim := Eval vm_compute in fst (fst pp_run).
Definition pp_logs3 : list tick_log := Eval vm_compute in snd (fst pp_run).
Definition pp_tk := sim_tick Cf APriorityPool 3%Z pp_s3 [].
Definition pp_s4 : sim := Eval vm_compute in match pp_tk with Ok (s, _) => s | Err _ => pp_s3 end.
Definition pp_lg4 : tick_log := Eval vm_compute in match pp_tk with Ok (_, lg) => lg | Err _ => dummy_log end.

Lemma pp_run_eq : sim_run Cf APriorityPool 0%Z pp_init arrs3 = (pp_s3, pp_logs3, None).
Proof. vm_compute. reflexivity. Qed.

Lemma pp_reach3 : sim_reach Cf APriorityPool 0%Z (init_sim Cf 2 1%Z 1%Q) 3%Z pp_s3.
Proof. exact (sim_run_reach_exact _ _ _ _ _ _ _ _ pp_run_eq). Qed.

Lemma pp_tick_eq : sim_tick Cf APriorityPool 3%Z pp_s3 [] = Ok (pp_s4, pp_lg4).
Proof. vm_compute. reflexivity. Qed.

Lemma pp_arrived4 : arrived pp_s4 = [0; 2; 1].
Proof. vm_compute. reflexivity. Qed.

Lemma pp_has_ops4 : forall k, In k (arrived pp_s4) -> pd_order (pipe_of (cf_static Cf) k) <> [].
Proof. rewrite pp_arrived4. exact has_ops. Qed.

(* what the run looks like around tick 3 *)
Lemma pp_view :
  map j_pipe (ss_b (sm_sched pp_s3)) = [2; 1] /\
  fresh_of Cf (wof pp_s3) Batch (arrived pp_s4) = [2; 1] /\
  fresh_of Cf (wof pp_s4) Batch (arrived pp_s4) = [1] /\
  map a_ops (tl_asgs pp_lg4) = [[2]] /\
  map (fun lg => (tl_new lg, map a_ops (tl_asgs lg))) pp_logs3 = [([0], [[0]]); ([2; 1], []); ([], [])].
Proof. vm_compute. repeat split; reflexivity. Qed.

(* priority, one pool *)
Definition pr_init : sim := init_sim Cf 1 1%Z 1%Q.
Definition pr_run := sim_run Cf APriority 0%Z pr_init arrs3.
Definition pr_s3 : sim := Eval vm_compute in fst (fst pr_run).
Definition pr_logs3 : list tick_log := Eval vm_compute in snd (fst pr_run).
Definition pr_tk := sim_tick Cf APriority 3%Z pr_s3 [].
Definition pr_s4 : sim := Eval vm_compute in match pr_tk with Ok (s, _) => s | Err _ => pr_s3 end.
Definition pr_lg4 : tick_log := Eval vm_compute in match pr_tk with Ok (_, lg) => lg | Err _ => dummy_log end.

Lemma pr_run_eq : sim_run Cf APriority 0%Z pr_init arrs3 = (pr_s3, pr_logs3, None).
Proof. vm_compute. reflexivity. Qed.

Lemma pr_hist3 : sim_hist Cf APriority 0%Z (init_sim Cf 1 1%Z 1%Q) 3%Z pr_s3 pr_logs3.
Proof. exact (sim_run_hist _ _ _ _ _ _ _ _ pr_run_eq). Qed.

Lemma pr_tick_eq : sim_tick Cf APriority 3%Z pr_s3 [] = Ok (pr_s4, pr_lg4).
Proof. vm_compute. reflexivity. Qed.

Lemma pr_arrived4 : arrived pr_s4 = [0; 2; 1].
Proof. vm_compute. reflexivity. Qed.

Lemma pr_has_ops4 : forall k, In k (arrived pr_s4) -> pd_order (pipe_of (cf_static Cf) k) <> [].
Proof. rewrite pr_arrived4. exact has_ops. Qed.

Lemma pr_view :
  map j_pipe (ss_b (sm_sched pr_s3)) = [2; 1] /\
  served_pipes Cf pr_logs3 = [0] /\
  waiting Cf (served_pipes Cf pr_logs3) Batch (arrived pr_s4) = [2; 1] /\
  waiting Cf (served_pipes Cf (pr_logs3 ++ [pr_lg4])) Batch (arrived pr_s4) = [1] /\
  map a_ops (tl_asgs pr_lg4) = [[2]].
Proof. vm_compute. repeat split; reflexivity. Qed.

(* the hypotheses of the run-level theorems hold on these runs ... *)
Lemma pp_hypotheses :
  cf_static Cf = mk_static Lf /\ dags_wf Lf /\
  sim_reach Cf APriorityPool 0%Z (init_sim Cf 2 1%Z 1%Q) 3%Z pp_s3 /\
  sim_tick Cf APriorityPool 3%Z pp_s3 [] = Ok (pp_s4, pp_lg4) /\
  (forall k, In k (arrived pp_s3) -> pd_order (pipe_of (cf_static Cf) k) <> []) /\
  (forall k, In k (arrived pp_s4) -> pd_order (pipe_of (cf_static Cf) k) <> []).
Proof.
  split; [reflexivity|]. split; [exact Lf_wf|]. split; [exact pp_reach3|]. split; [exact pp_tick_eq|].
  split; [|exact pp_has_ops4]. replace (arrived pp_s3) with [0; 2; 1] by (vm_compute; reflexivity). exact has_ops.
Qed.

Lemma pr_hypotheses :
  cf_static Cf = mk_static Lf /\ dags_wf Lf /\ cf_multi Cf = true /\
  sim_hist Cf APriority 0%Z (init_sim Cf 1 1%Z 1%Q) 3%Z pr_s3 pr_logs3 /\
  sim_tick Cf APriority 3%Z pr_s3 [] = Ok (pr_s4, pr_lg4) /\
  (forall k, In k (arrived pr_s3) -> pd_order (pipe_of (cf_static Cf) k) <> []) /\
  (forall k, In k (arrived pr_s4) -> pd_order (pipe_of (cf_static Cf) k) <> []).
Proof.
  split; [reflexivity|]. split; [exact Lf_wf|]. split; [reflexivity|]. split; [exact pr_hist3|].
  split; [exact pr_tick_eq|].
  split; [|exact pr_has_ops4]. replace (arrived pr_s3) with [0; 2; 1] by (vm_compute; reflexivity). exact has_ops.
Qed.

(* ... and the theorems, applied to them: in tick 3 pipeline 2 -- which arrived before pipeline 1 -- and only
   pipeline 2 receives its first container, and it is the assignment [[2]] of the tick *)
Lemma pp_applied :
  exists served : prio -> list nat,
    served Batch = [2] /\
    Forall2 (fun k a => a_ops a = pd_order (pipe_of (cf_static Cf) k) /\ a_prio a = prio_of_pipe Cf k)
            (served Query ++ served Interactive ++ served Batch)
            (filter (fun a => ops_fresh Cf (wof pp_s3) (a_ops a)) (tl_asgs pp_lg4)).
Proof.
  destruct (pp_run_fifo_tick Cf Lf 2 1%Z 1%Q 3%Z pp_s3 [] pp_s4 pp_lg4 eq_refl Lf_wf pp_reach3 pp_tick_eq
              pp_has_ops4) as (served & P1 & P2 & _).
  exists served. split; [|exact P2]. specialize (P1 Batch). destruct pp_view as (_ & V1 & V2 & _).
  rewrite V1, V2 in P1. apply (app_inv_tail [1]). symmetry. exact P1.
Qed.

Lemma pr_applied :
  exists served : prio -> list nat,
    served Batch = [2] /\
    Forall2 (fun k a => a_ops a = pd_order (pipe_of (cf_static Cf) k) /\ a_prio a = prio_of_pipe Cf k)
            (served Query ++ served Interactive ++ served Batch)
            (filter (anew Cf (served_pipes Cf pr_logs3)) (tl_asgs pr_lg4)).
Proof.
  destruct (priority_run_fifo_tick Cf Lf 1 1%Z 1%Q 3%Z pr_s3 pr_logs3 [] pr_s4 pr_lg4 eq_refl Lf_wf eq_refl
              pr_hist3 pr_tick_eq pr_has_ops4) as (served & P1 & P2 & _).
  exists served. split; [|exact P2]. specialize (P1 Batch). destruct pr_view as (_ & _ & V1 & V2 & _).
  rewrite V1, V2 in P1. apply (app_inv_tail [1]). symmetry. exact P1.
Qed.

(* the whole run of five ticks, for the statement over logs *)
Definition arrs5 : list (list nat) := [[0]; [2; 1]; []; []; []].
Definition pr_run5 := sim_run Cf APriority 0%Z pr_init arrs5.
Definition pr_s5 : sim := Eval vm_compute in fst (fst pr_run5).
Definition pr_lg5 : tick_log := Eval vm_compute in nth 4 (snd (fst pr_run5)) dummy_log.

Lemma pr_logs_hypotheses :
  sim_run Cf APriority 0%Z (init_sim Cf 1 1%Z 1%Q) arrs5 = (pr_s5, pr_logs3 ++ pr_lg4 :: [pr_lg5], None) /\
  (forall k, In k (concat arrs5) -> pd_order (pipe_of (cf_static Cf) k) <> []) /\
  map (fun lg => (tl_new lg, map a_ops (tl_asgs lg))) (pr_logs3 ++ pr_lg4 :: [pr_lg5])
    = [([0], [[0]]); ([2; 1], []); ([], []); ([], [[2]]); ([], [[1]])].
Proof.
  split; [vm_compute; reflexivity|]. split; [|vm_compute; reflexivity].
  replace (concat arrs5) with [0; 2; 1] by reflexivity. exact has_ops.
Qed.

End FifoExamples.
