(* C11: the out-of-memory killer of a pool (Model/Pool.v, phase 5).
   A. the stable descending sort and the candidate order;
   B. the kill loops: who is killed, in which order, when it stops, that no kill was superfluous;
   C. closed examples.
   Everything holds for an arbitrary [C : cfg], in particular for an arbitrary rounding [cf_rnd C]:
   [score C c] is the number the code computes. *)
From Coq Require Import ZArith QArith Qabs List Bool Arith Lia Lqa Sorting.Sorted Sorting.Permutation.
Import ListNotations.
Close Scope Q_scope.
From Eudoxia Require Import Num.Rnd64 Model.Types Model.Dag Model.Lifecycle Model.Container Model.Pool
  Proofs.ListFacts Proofs.LifecycleFacts.

(* ---------- boolean comparisons ---------- *)

Lemma Qltb_true a b : Qltb a b = true <-> (a < b)%Q.
Proof.
  unfold Qltb. rewrite negb_true_iff. split.
  - intros H. apply Qnot_le_lt. intros L. apply Qle_bool_iff in L. congruence.
  - intros H. destruct (Qle_bool b a) eqn:E; [|reflexivity].
    apply Qle_bool_iff in E. exfalso. exact (Qlt_not_le _ _ H E).
Qed.

Lemma Qltb_false a b : Qltb a b = false <-> (b <= a)%Q.
Proof.
  unfold Qltb. rewrite negb_false_iff. apply Qle_bool_iff.
Qed.

Lemma Qle_bool_false a b : Qle_bool a b = false <-> (b < a)%Q.
Proof.
  split.
  - intros H. apply Qnot_le_lt. intros L. apply Qle_bool_iff in L. congruence.
  - intros H. destruct (Qle_bool a b) eqn:E; [|reflexivity].
    apply Qle_bool_iff in E. exfalso. exact (Qlt_not_le _ _ H E).
Qed.

(* ====================================================================== *)
(* A. sorting                                                             *)
(* ====================================================================== *)

(* descending, ties allowed *)
Definition desc (a b : Q * nat) : Prop := (fst b <= fst a)%Q.

Lemma sort_desc_cons x l : sort_desc (x :: l) = insert_desc x (sort_desc l).
Proof. reflexivity. Qed.

Lemma insert_desc_perm x l : Permutation (insert_desc x l) (x :: l).
Proof.
  induction l as [|y t IH]; [apply Permutation_refl|].
  cbn [insert_desc]. destruct (Qltb (fst x) (fst y)).
  - eapply perm_trans; [apply perm_skip; exact IH | apply perm_swap].
  - apply Permutation_refl.
Qed.

Theorem sort_desc_perm l : Permutation (sort_desc l) l.
Proof.
  induction l as [|x t IH]; [apply Permutation_refl|].
  rewrite sort_desc_cons. eapply perm_trans; [apply insert_desc_perm|].
  apply perm_skip. exact IH.
Qed.

Lemma insert_desc_sorted x l :
  StronglySorted desc l -> StronglySorted desc (insert_desc x l).
Proof.
  induction l as [|y t IH]; intros S.
  - cbn. constructor; constructor.
  - cbn [insert_desc]. destruct (Qltb (fst x) (fst y)) eqn:E.
    + inversion S as [|y' t' St Fy]; subst. constructor; [apply IH; exact St|].
      apply (Permutation_Forall (Permutation_sym (insert_desc_perm x t))).
      constructor; [|exact Fy].
      apply Qltb_true in E. unfold desc. apply Qlt_le_weak. exact E.
    + apply Qltb_false in E. constructor; [exact S|].
      inversion S as [|y' t' St Fy]; subst. constructor; [exact E|].
      rewrite Forall_forall in Fy |- *. intros z Hz. specialize (Fy z Hz).
      unfold desc in *. eapply Qle_trans; eauto.
Qed.

Theorem sort_desc_sorted l :
  StronglySorted (fun a b => (fst b <= fst a)%Q) (sort_desc l).
Proof.
  change (StronglySorted desc (sort_desc l)).
  induction l as [|x t IH]; [constructor|].
  rewrite sort_desc_cons. apply insert_desc_sorted. exact IH.
Qed.

(* stability, first form: the elements with a given key keep their order *)
Definition keyis (k : Q) (z : Q * nat) : bool := Qeq_bool (fst z) k.

Lemma insert_desc_filter k x l :
  filter (keyis k) (insert_desc x l) = filter (keyis k) (x :: l).
Proof.
  induction l as [|y t IH]; [reflexivity|].
  cbn [insert_desc]. destruct (Qltb (fst x) (fst y)) eqn:E; [|reflexivity].
  cbn [filter]. rewrite IH. cbn [filter].
  destruct (keyis k x) eqn:Kx; destruct (keyis k y) eqn:Ky; try reflexivity.
  exfalso. unfold keyis in *. apply Qeq_bool_iff in Kx. apply Qeq_bool_iff in Ky.
  apply Qltb_true in E. lra.
Qed.

Theorem sort_desc_filter k l :
  filter (fun z => Qeq_bool (fst z) k) (sort_desc l) = filter (fun z => Qeq_bool (fst z) k) l.
Proof.
  change (filter (keyis k) (sort_desc l) = filter (keyis k) l).
  induction l as [|x t IH]; [reflexivity|].
  rewrite sort_desc_cons, insert_desc_filter. cbn [filter]. rewrite IH. reflexivity.
Qed.

Lemma filter_app_cons_inv {A} (p : A -> bool) l : forall a x b,
  filter p l = a ++ x :: b ->
  exists l1 l2, l = l1 ++ x :: l2 /\ filter p l1 = a /\ filter p l2 = b.
Proof.
  induction l as [|h t IH]; intros a x b H.
  - destruct a; discriminate H.
  - cbn [filter] in H. destruct (p h) eqn:Ph.
    + destruct a as [|a0 a].
      * cbn in H. inversion H; subst. exists [], t. cbn. auto.
      * cbn in H. inversion H as [[E0 E1]]. subst a0.
        destruct (IH _ _ _ E1) as (l1 & l2 & El & F1 & F2).
        exists (h :: l1), l2. cbn [filter app]. rewrite Ph, F1, El. auto.
    + destruct (IH _ _ _ H) as (l1 & l2 & El & F1 & F2).
      exists (h :: l1), l2. cbn [filter app]. rewrite Ph, El. auto.
Qed.

(* stability, general form *)
Theorem sort_desc_stable l l1 l2 l3 x y :
  (fst x == fst y)%Q -> l = l1 ++ x :: l2 ++ y :: l3 ->
  exists m1 m2 m3, sort_desc l = m1 ++ x :: m2 ++ y :: m3.
Proof.
  intros Exy El.
  pose proof (sort_desc_filter (fst x) l) as F.
  change (filter (keyis (fst x)) (sort_desc l) = filter (keyis (fst x)) l) in F.
  assert (Kx : keyis (fst x) x = true) by (apply Qeq_bool_iff; reflexivity).
  assert (Ky : keyis (fst x) y = true) by (apply Qeq_bool_iff; symmetry; exact Exy).
  rewrite El in F at 2.
  rewrite filter_app in F. cbn [filter] in F. rewrite Kx in F.
  rewrite filter_app in F. cbn [filter] in F. rewrite Ky in F.
  apply filter_app_cons_inv in F. destruct F as (m1 & m' & Es & _ & F2).
  apply filter_app_cons_inv in F2. destruct F2 as (m2 & m3 & Em & _ & _).
  exists m1, m2, m3. rewrite Es, Em. reflexivity.
Qed.

(* a sorted list cut in two: everything in the front dominates everything in the back *)
Lemma StronglySorted_app_inv {A} (R : A -> A -> Prop) l1 l2 :
  StronglySorted R (l1 ++ l2) -> forall a b, In a l1 -> In b l2 -> R a b.
Proof.
  induction l1 as [|h t IH]; intros S a b Ha Hb; [destruct Ha|].
  cbn in S. inversion S as [|h' t' St Fh]; subst.
  destruct Ha as [->|Ha].
  - rewrite Forall_forall in Fh. apply Fh. apply in_or_app. right. exact Hb.
  - apply IH; assumption.
Qed.

(* ---------- the candidate order ---------- *)

Lemma scorable_spec c :
  scorable c = true <-> c_completed c = false /\ (0 < c_mem c)%Q.
Proof.
  unfold scorable. rewrite andb_true_iff, negb_true_iff, Qltb_true. reflexivity.
Qed.

Definition scored (C : cfg) (act : list container) : list (Q * nat) :=
  sort_desc (map (fun c => (score C c, c_id c)) (filter scorable act)).

Lemma victims_order_scored C act : victims_order C act = map snd (scored C act).
Proof. reflexivity. Qed.

Lemma scored_In C act q id :
  In (q, id) (scored C act) <->
  exists c, In c act /\ scorable c = true /\ c_id c = id /\ q = score C c.
Proof.
  unfold scored. split.
  - intros H. apply (Permutation_in _ (sort_desc_perm _)) in H.
    apply in_map_iff in H. destruct H as [c [E H]]. inversion E; subst.
    apply filter_In in H. exists c. tauto.
  - intros [c [H [S [E ->]]]].
    apply (Permutation_in _ (Permutation_sym (sort_desc_perm _))).
    apply in_map_iff. exists c. subst. split; [reflexivity|]. apply filter_In. auto.
Qed.

(* "containers that finished in that tick or use no memory are never chosen" -- and all others are
   candidates *)
Theorem victims_order_scorable C act id :
  In id (victims_order C act) <->
  exists c, In c act /\ scorable c = true /\ c_id c = id.
Proof.
  rewrite victims_order_scored, in_map_iff. split.
  - intros [[q i] [E H]]. cbn in E. subst i. apply scored_In in H.
    destruct H as [c [H1 [H2 [H3 _]]]]. exists c. auto.
  - intros [c [H1 [H2 H3]]]. exists (score C c, id). split; [reflexivity|].
    apply scored_In. exists c. auto.
Qed.

Corollary victims_order_not_completed C act id :
  In id (victims_order C act) ->
  exists c, In c act /\ c_id c = id /\ c_completed c = false /\ (0 < c_mem c)%Q.
Proof.
  intros H. apply victims_order_scorable in H. destruct H as [c [H1 [H2 H3]]].
  apply scorable_spec in H2. exists c. tauto.
Qed.

Lemma NoDup_map_filter {A B} (f : A -> B) (p : A -> bool) l :
  NoDup (map f l) -> NoDup (map f (filter p l)).
Proof.
  induction l as [|h t IH]; intros H; [constructor|].
  cbn in H. inversion H as [|x l' Hn Ht]; subst. cbn [filter].
  destruct (p h); [|apply IH; exact Ht].
  cbn [map]. constructor; [|apply IH; exact Ht].
  intros Hin. apply Hn. apply in_map_iff in Hin. destruct Hin as [z [E Hz]].
  apply filter_In in Hz. apply in_map_iff. exists z. tauto.
Qed.

Lemma victims_order_NoDup C act : NoDup (map c_id act) -> NoDup (victims_order C act).
Proof.
  intros H. unfold victims_order.
  eapply Permutation_NoDup.
  - apply Permutation_sym. apply Permutation_map. apply sort_desc_perm.
  - rewrite map_map. cbn [snd]. apply NoDup_map_filter. exact H.
Qed.

(* ====================================================================== *)
(* B. the kill loops                                                      *)
(* ====================================================================== *)

(* what kill("OOM") leaves of a container: memory 0, completed, error recorded *)
Definition dead (c : container) : container :=
  {| c_id := c_id c; c_ops := c_ops c; c_cpu := c_cpu c; c_ram := c_ram c; c_prio := c_prio c;
     c_opidx := c_opidx c; c_rest := c_rest c; c_frozen := c_frozen c; c_mem := 0%Q;
     c_can_suspend := c_can_suspend c; c_completed := true; c_error := true;
     c_ticks := c_ticks c; c_susp_left := c_susp_left c |}.

(* the pool's consumed memory after the kill of [c] (two float operations) *)
Definition cons_after (C : cfg) (cons : Q) (c : container) : Q :=
  cf_rnd C (cons + cf_rnd C (0 - c_mem c))%Q.

Lemma ckill_ok C w cons c w' cons' c' :
  ckill C w cons c = Ok (w', cons', c') ->
  c_completed c = false /\ c' = dead c /\ cons' = cons_after C cons c /\
  transition_all (cf_static C) w (skipn (c_opidx c) (c_ops c)) Failed = Ok w'.
Proof.
  unfold ckill. destruct (c_completed c) eqn:Hc; [discriminate|].
  unfold bind. destruct (transition_all _ _ _ _) as [w1|e] eqn:T; [|discriminate].
  unfold mark_completed, set_mem. intros H. inversion H; subst.
  repeat split; reflexivity.
Qed.

Lemma ckill_completed_err C w cons c : c_completed c = true -> ckill C w cons c = Err EOther.
Proof. intros H. unfold ckill. rewrite H. reflexivity. Qed.

(* 8. with exact arithmetic a kill lowers the consumed memory by exactly the victim's usage *)
Theorem ckill_exact C w cons c w' cons' c' :
  (forall x, (cf_rnd C x == x)%Q) ->
  ckill C w cons c = Ok (w', cons', c') ->
  (cons' == cons - c_mem c)%Q /\ (c_mem c' == 0)%Q.
Proof.
  intros Ex H. apply ckill_ok in H. destruct H as (_ & -> & -> & _).
  split; [|reflexivity]. unfold cons_after. rewrite Ex. rewrite Ex. ring.
Qed.

(* a list of containers in which those selected by [p] have been killed *)
Definition kill_when (p : container -> bool) (c : container) : container :=
  if p c then dead c else c.
Definition kill_if (ids : list nat) : container -> container :=
  kill_when (fun c => memb (c_id c) ids).

Lemma kill_when_id p c : c_id (kill_when p c) = c_id c.
Proof. unfold kill_when. destruct (p c); reflexivity. Qed.

Lemma map_kill_when_ids p act : map c_id (map (kill_when p) act) = map c_id act.
Proof. rewrite map_map. apply map_ext. intros c. apply kill_when_id. Qed.

Lemma kill_when_other p c : p c = false -> kill_when p c = c.
Proof. intros H. unfold kill_when. rewrite H. reflexivity. Qed.

Lemma kill_when_hit p c :
  p c = true ->
  kill_when p c = dead c /\ c_completed (kill_when p c) = true /\ c_error (kill_when p c) = true
  /\ c_mem (kill_when p c) = 0%Q.
Proof. intros H. unfold kill_when. rewrite H. repeat split; reflexivity. Qed.

Lemma map_kill_if_nil act : map (kill_if []) act = act.
Proof. rewrite <- (map_id act) at 2. apply map_ext. intros c. reflexivity. Qed.

Lemma kill_if_compose cid ids c :
  kill_if ids (kill_if [cid] c) = kill_if (cid :: ids) c.
Proof.
  unfold kill_if, kill_when, memb. cbn [existsb].
  destruct (Nat.eqb (c_id c) cid) eqn:E; cbn [orb].
  - cbn [c_id dead]. destruct (existsb (Nat.eqb (c_id c)) ids); reflexivity.
  - reflexivity.
Qed.

Lemma in_map_kill_when_alive p act v :
  In v (map (kill_when p) act) -> c_completed v = false -> In v act /\ p v = false.
Proof.
  intros H Hc. apply in_map_iff in H. destruct H as [x [E Hx]].
  unfold kill_when in E. destruct (p x) eqn:Px.
  - subst v. discriminate Hc.
  - subst v. auto.
Qed.

(* lookups by id *)
Lemma find_container_some cid act c :
  find_container cid act = Some c -> In c act /\ c_id c = cid.
Proof.
  unfold find_container. intros H. apply find_some in H. destruct H as [H1 H2].
  apply Nat.eqb_eq in H2. auto.
Qed.

Lemma find_container_in act c :
  NoDup (map c_id act) -> In c act -> find_container (c_id c) act = Some c.
Proof.
  unfold find_container. induction act as [|h t IH]; intros ND H; [destruct H|].
  cbn in ND. inversion ND as [|x l Hn Ht]; subst.
  cbn [find]. destruct H as [->|H].
  - rewrite Nat.eqb_refl. reflexivity.
  - destruct (Nat.eqb (c_id h) (c_id c)) eqn:E.
    + exfalso. apply Nat.eqb_eq in E. apply Hn. rewrite E. apply in_map. exact H.
    + apply IH; assumption.
Qed.

Lemma NoDup_ids_inj act a b :
  NoDup (map c_id act) -> In a act -> In b act -> c_id a = c_id b -> a = b.
Proof.
  intros ND Ha Hb E.
  pose proof (find_container_in act a ND Ha) as Fa.
  pose proof (find_container_in act b ND Hb) as Fb.
  rewrite E in Fa. congruence.
Qed.

Lemma map_kill_if_absent cid l :
  (forall x, In x l -> c_id x <> cid) -> map (kill_if [cid]) l = l.
Proof.
  intros H. rewrite <- (map_id l) at 2. apply map_ext_in. intros x Hx.
  apply kill_when_other. cbn. apply H in Hx. apply Nat.eqb_neq in Hx. rewrite Hx. reflexivity.
Qed.

Lemma replace_container_spec cid c act :
  NoDup (map c_id act) -> find_container cid act = Some c ->
  replace_container (dead c) act = map (kill_if [cid]) act.
Proof.
  intros ND F. pose proof (find_container_some _ _ _ F) as [_ Hid]. subst cid.
  revert ND F. unfold find_container.
  induction act as [|h t IH]; intros ND F; [reflexivity|].
  cbn in ND. inversion ND as [|x l Hn Ht]; subst.
  cbn [find] in F. cbn [replace_container map]. cbn [c_id dead].
  destruct (Nat.eqb (c_id h) (c_id c)) eqn:E.
  - inversion F; subst h.
    rewrite map_kill_if_absent.
    + unfold kill_if, kill_when. cbn. rewrite Nat.eqb_refl. reflexivity.
    + intros x Hx Ex. apply Hn. rewrite <- Ex. apply in_map. exact Hx.
  - rewrite (IH Ht F). f_equal. symmetry. apply kill_when_other. cbn. rewrite E. reflexivity.
Qed.

(* the consumed values seen immediately before each kill *)
Fixpoint kill_trace (C : cfg) (cons : Q) (vs : list container) : list Q :=
  match vs with
  | [] => []
  | c :: t => cons :: kill_trace C (cons_after C cons c) t
  end.

(* ---------- 5. the pool-level loop kills a prefix of the order ---------- *)

Theorem kill_until_fits_prefix C max : forall order w cons act w' cons' act',
  NoDup (map c_id act) ->
  kill_until_fits C max w cons act order = Ok (w', cons', act') ->
  exists k vs,
    k <= length order /\
    map c_id vs = firstn k order /\
    NoDup (firstn k order) /\
    Forall (fun c => In c act /\ c_completed c = false) vs /\
    act' = map (kill_if (firstn k order)) act /\
    cons' = fold_left (cons_after C) vs cons /\
    Forall (fun q => Qle_bool q max = false) (kill_trace C cons vs) /\
    (k = length order \/ Qle_bool cons' max = true).
Proof.
  induction order as [|cid t IH]; intros w cons act w' cons' act' ND H.
  - cbn in H. inversion H; subst. exists 0, []. cbn [firstn map fold_left kill_trace length].
    repeat split; auto; try constructor. symmetry. apply map_kill_if_nil.
  - cbn [kill_until_fits] in H. destruct (Qleb cons max) eqn:Q.
    + inversion H; subst. exists 0, []. cbn [firstn map fold_left kill_trace length].
      repeat split; auto; try constructor; try lia. symmetry. apply map_kill_if_nil.
    + destruct (find_container cid act) as [c|] eqn:F; [|discriminate].
      unfold bind in H. destruct (ckill C w cons c) as [[[w1 cons1] c1]|e] eqn:K; [|discriminate].
      apply ckill_ok in K. destruct K as (Hc & -> & -> & _).
      rewrite (replace_container_spec cid c act ND F) in H.
      apply IH in H; [|unfold kill_if; rewrite map_kill_when_ids; exact ND].
      destruct H as (k & vs & Hk & Hids & Hnd & Hvs & Hact & Hcons & Htr & Hstop).
      pose proof (find_container_some _ _ _ F) as [Hin Hid].
      assert (Halive : forall v, In v vs -> In v act /\ c_id v <> cid).
      { intros v Hv. rewrite Forall_forall in Hvs. destruct (Hvs v Hv) as [Hm Hvc].
        destruct (in_map_kill_when_alive _ _ _ Hm Hvc) as [Ha Hp]. split; [exact Ha|].
        cbn in Hp. apply orb_false_iff in Hp. destruct Hp as [Hp _].
        apply Nat.eqb_neq. exact Hp. }
      exists (S k), (c :: vs). cbn [firstn map fold_left kill_trace length].
      split; [lia|]. split; [rewrite Hid, Hids; reflexivity|].
      split.
      { constructor; [|exact Hnd]. intros Hi. rewrite <- Hids in Hi.
        apply in_map_iff in Hi. destruct Hi as [v [Ev Hv]].
        destruct (Halive v Hv) as [_ Hne]. contradiction. }
      split.
      { constructor; [auto|]. rewrite Forall_forall in Hvs |- *. intros v Hv.
        split; [apply Halive; exact Hv | apply Hvs; exact Hv]. }
      split.
      { rewrite Hact, map_map. apply map_ext. intros x. apply kill_if_compose. }
      split; [exact Hcons|].
      split; [constructor; [exact Q | exact Htr]|].
      destruct Hstop as [->|Hs]; [left; reflexivity | right; exact Hs].
Qed.

Lemma kill_if_hit ids c : In (c_id c) ids -> kill_if ids c = dead c.
Proof. intros H. apply memb_In in H. unfold kill_if. apply (kill_when_hit _ c H). Qed.

Lemma kill_if_miss ids c : ~ In (c_id c) ids -> kill_if ids c = c.
Proof. intros H. apply memb_false in H. unfold kill_if. apply kill_when_other. exact H. Qed.

Corollary kill_until_fits_ids C max order w cons act w' cons' act' :
  NoDup (map c_id act) ->
  kill_until_fits C max w cons act order = Ok (w', cons', act') ->
  map c_id act' = map c_id act.
Proof.
  intros ND H. destruct (kill_until_fits_prefix _ _ _ _ _ _ _ _ _ ND H)
    as (k & vs & _ & _ & _ & _ & -> & _).
  unfold kill_if. apply map_kill_when_ids.
Qed.

(* "no kill that was not needed", first instance: nothing happens when the usage already fits *)
Lemma kill_until_fits_fits C max w cons act order :
  Qle_bool cons max = true -> kill_until_fits C max w cons act order = Ok (w, cons, act).
Proof. intros H. destruct order; cbn; [reflexivity|]. unfold Qleb. rewrite H. reflexivity. Qed.

(* ---------- the set of containers killed between two lists ---------- *)

Definition was_killed (act : list container) (c' : container) : bool :=
  c_completed c' && c_error c' &&
  match find_container (c_id c') act with
  | Some c => negb (c_completed c)
  | None => false
  end.
Definition ids_killed (act act' : list container) : list nat :=
  map c_id (filter (was_killed act) act').

Lemma ids_killed_spec act act' id :
  NoDup (map c_id act) ->
  (In id (ids_killed act act') <->
   exists c c', In c act /\ c_id c = id /\ c_completed c = false /\
                In c' act' /\ c_id c' = id /\ c_completed c' = true /\ c_error c' = true).
Proof.
  intros ND. unfold ids_killed. rewrite in_map_iff. split.
  - intros [c' [E H]]. apply filter_In in H. destruct H as [Hin Hw].
    unfold was_killed in Hw. apply andb_true_iff in Hw. destruct Hw as [Hw H3].
    apply andb_true_iff in Hw. destruct Hw as [H1 H2].
    destruct (find_container (c_id c') act) as [c|] eqn:F; [|discriminate].
    apply find_container_some in F. destruct F as [Fin Fid]. apply negb_true_iff in H3.
    exists c, c'. subst id. repeat split; auto.
  - intros (c & c' & H1 & H2 & H3 & H4 & H5 & H6 & H7). exists c'. split; [exact H5|].
    apply filter_In. split; [exact H4|].
    unfold was_killed. rewrite H6, H7, H5, <- H2.
    rewrite (find_container_in act c ND H1). rewrite H3. reflexivity.
Qed.

Lemma ids_killed_kill_when p act id :
  NoDup (map c_id act) ->
  (forall c, In c act -> p c = true -> c_completed c = false) ->
  (In id (ids_killed act (map (kill_when p) act)) <->
   exists c, In c act /\ c_id c = id /\ p c = true).
Proof.
  intros ND Hp. rewrite (ids_killed_spec _ _ _ ND). split.
  - intros (c & c' & H1 & H2 & H3 & H4 & H5 & H6 & H7).
    apply in_map_iff in H4. destruct H4 as [x [Ex Hx]].
    assert (Exc : x = c).
    { apply (NoDup_ids_inj act); auto. rewrite <- (kill_when_id p x), Ex. congruence. }
    subst x. exists c. split; [exact H1|]. split; [exact H2|].
    destruct (p c) eqn:Pc; [reflexivity|].
    rewrite (kill_when_other _ _ Pc) in Ex. subst c'. congruence.
  - intros (c & H1 & H2 & H3). exists c, (kill_when p c).
    destruct (kill_when_hit p c H3) as (_ & K2 & K3 & _).
    repeat split; auto.
    + apply in_map. exact H1.
    + rewrite kill_when_id. exact H2.
Qed.

Lemma ids_killed_kill_if ids act id :
  NoDup (map c_id act) ->
  (forall i, In i ids -> exists c, In c act /\ c_id c = i /\ c_completed c = false) ->
  (In id (ids_killed act (map (kill_if ids) act)) <-> In id ids).
Proof.
  intros ND Hids. unfold kill_if. rewrite ids_killed_kill_when; [|exact ND|].
  - split.
    + intros (c & H1 & H2 & H3). apply memb_In in H3. subst id. exact H3.
    + intros H. destruct (Hids id H) as (c & H1 & H2 & H3). exists c.
      split; [exact H1|]. split; [exact H2|]. apply memb_In. rewrite H2. exact H.
  - intros c Hc Hm. apply memb_In in Hm. destruct (Hids _ Hm) as (c0 & H1 & H2 & H3).
    assert (E : c0 = c) by (apply (NoDup_ids_inj act); auto). subst c0. exact H3.
Qed.

(* the killed ids of the pool-level loop are exactly a prefix of the order *)
Corollary kill_until_fits_killed C max order w cons act w' cons' act' :
  NoDup (map c_id act) ->
  kill_until_fits C max w cons act order = Ok (w', cons', act') ->
  exists k, k <= length order /\
    (forall id, In id (ids_killed act act') <-> In id (firstn k order)) /\
    (forall c, In c act -> ~ In (c_id c) (firstn k order) -> In c act') /\
    map c_id act' = map c_id act /\
    (k = length order \/ Qle_bool cons' max = true) /\
    (0 < k -> Qle_bool cons max = false).
Proof.
  intros ND H. destruct (kill_until_fits_prefix _ _ _ _ _ _ _ _ _ ND H)
    as (k & vs & Hk & Hids & Hnd & Hvs & Hact & Hcons & Htr & Hstop).
  exists k. split; [exact Hk|]. split.
  { intros id. rewrite Hact. apply ids_killed_kill_if; [exact ND|].
    intros i Hi. rewrite <- Hids in Hi. apply in_map_iff in Hi. destruct Hi as [v [Ev Hv]].
    rewrite Forall_forall in Hvs. destruct (Hvs v Hv) as [Ha Hc]. exists v. auto. }
  split.
  { intros c Hc Hn. rewrite Hact. rewrite <- (kill_if_miss _ _ Hn). apply in_map. exact Hc. }
  split; [rewrite Hact; apply map_kill_when_ids|].
  split; [exact Hstop|].
  intros Hpos. destruct vs as [|v vs'].
  - cbn in Hids. destruct k; [lia|]. destruct order; cbn in *; [lia | discriminate].
  - cbn in Htr. inversion Htr; assumption.
Qed.

(* ---------- 7. step 1: the containers over their own limit ---------- *)

Definition over_limit (c : container) : bool := Qltb (c_ram c) (c_mem c).

Lemma over_limit_spec c : over_limit c = true <-> (c_ram c < c_mem c)%Q.
Proof. apply Qltb_true. Qed.

Theorem kill_over_limit_spec C : forall act w cons w' cons' act',
  kill_over_limit C w cons act = Ok (w', cons', act') ->
  act' = map (kill_when over_limit) act /\
  Forall (fun c => over_limit c = true -> c_completed c = false) act /\
  cons' = fold_left (cons_after C) (filter over_limit act) cons.
Proof.
  induction act as [|c t IH]; intros w cons w' cons' act' H.
  - cbn in H. inversion H; subst. cbn. auto.
  - cbn [kill_over_limit] in H. unfold bind in H.
    change (Qltb (c_ram c) (c_mem c)) with (over_limit c) in H.
    destruct (over_limit c) eqn:O.
    + destruct (ckill C w cons c) as [[[w1 cons1] c1]|e] eqn:K; [|discriminate].
      destruct (kill_over_limit C w1 cons1 t) as [[[w2 cons2] t']|e] eqn:R; [|discriminate].
      inversion H; subst. apply ckill_ok in K. destruct K as (Hc & -> & -> & _).
      apply IH in R. destruct R as (-> & HF & ->).
      cbn [map filter]. rewrite O. rewrite (proj1 (kill_when_hit over_limit c O)). cbn [fold_left].
      repeat split; auto.
    + destruct (kill_over_limit C w cons t) as [[[w2 cons2] t']|e] eqn:R; [|discriminate].
      inversion H; subst. apply IH in R. destruct R as (-> & HF & ->).
      cbn [map filter]. rewrite O. rewrite (kill_when_other over_limit c O).
      repeat split; auto. constructor; [intros Ho; congruence | exact HF].
Qed.

Corollary kill_over_limit_killed C act w cons w' cons' act' :
  NoDup (map c_id act) ->
  kill_over_limit C w cons act = Ok (w', cons', act') ->
  (forall id, In id (ids_killed act act') <->
              exists c, In c act /\ c_id c = id /\ (c_ram c < c_mem c)%Q) /\
  (forall c, In c act -> (c_ram c < c_mem c)%Q -> c_completed c = false) /\
  (forall c, In c act -> (c_mem c <= c_ram c)%Q -> In c act') /\
  map c_id act' = map c_id act.
Proof.
  intros ND H. apply kill_over_limit_spec in H. destruct H as (-> & HF & _).
  rewrite Forall_forall in HF.
  split; [|split; [|split]].
  - intros id. rewrite ids_killed_kill_when; [|exact ND|].
    + split; intros (c & H1 & H2 & H3); exists c; (split; [exact H1|]); (split; [exact H2|]);
        apply over_limit_spec; exact H3.
    + intros c Hc Ho. apply HF; assumption.
  - intros c Hc Ho. apply HF; [exact Hc|]. apply over_limit_spec. exact Ho.
  - intros c Hc Hle. apply Qltb_false in Hle.
    rewrite <- (kill_when_other over_limit c Hle). apply in_map. exact Hc.
  - apply map_kill_when_ids.
Qed.

(* ---------- 6. the victims are the top of the order ---------- *)

Theorem victims_are_top C act k v s :
  NoDup (map c_id act) ->
  In v act -> In (c_id v) (firstn k (victims_order C act)) ->
  In s act -> scorable s = true -> ~ In (c_id s) (firstn k (victims_order C act)) ->
  (score C s <= score C v)%Q.
Proof.
  intros ND Hv Hvk Hs Ss Hsk.
  rewrite victims_order_scored, firstn_map in Hvk, Hsk.
  assert (S : StronglySorted desc (scored C act)) by apply sort_desc_sorted.
  rewrite <- (firstn_skipn k) in S.
  apply in_map_iff in Hvk. destruct Hvk as [[q i] [Ei Hq]]. cbn in Ei. subst i.
  assert (Hq' : In (q, c_id v) (scored C act)).
  { rewrite <- (firstn_skipn k). apply in_or_app. left. exact Hq. }
  apply scored_In in Hq'. destruct Hq' as (c & Hc & _ & Eid & Eq).
  assert (E : c = v) by (apply (NoDup_ids_inj act); auto). subst c q.
  assert (Hs' : In (score C s, c_id s) (scored C act)).
  { apply scored_In. exists s. auto. }
  rewrite <- (firstn_skipn k) in Hs'. apply in_app_or in Hs'. destruct Hs' as [Hs'|Hs'].
  - exfalso. apply Hsk. apply in_map_iff. exists (score C s, c_id s). auto.
  - exact (StronglySorted_app_inv desc _ _ S _ _ Hq Hs').
Qed.

Corollary no_survivor_above_victim C act k v s :
  NoDup (map c_id act) ->
  In v act -> In (c_id v) (firstn k (victims_order C act)) ->
  In s act -> scorable s = true -> ~ In (c_id s) (firstn k (victims_order C act)) ->
  ~ (score C v < score C s)%Q.
Proof.
  intros ND Hv Hvk Hs Ss Hsk Hlt.
  exact (Qlt_not_le _ _ Hlt (victims_are_top C act k v s ND Hv Hvk Hs Ss Hsk)).
Qed.

(* ---------- 7. the whole killer ---------- *)

Theorem no_pool_kill_when_fits C max w cons act w1 cons1 act1 :
  kill_over_limit C w cons act = Ok (w1, cons1, act1) ->
  Qle_bool cons1 max = true ->
  oom_killer C max w cons act = Ok (w1, cons1, act1).
Proof.
  intros H Q. unfold oom_killer, bind. rewrite H. unfold Qleb. rewrite Q. reflexivity.
Qed.

Lemma oom_killer_inv C max w cons act w' cons' act' :
  oom_killer C max w cons act = Ok (w', cons', act') ->
  exists w1 cons1 act1,
    kill_over_limit C w cons act = Ok (w1, cons1, act1) /\
    kill_until_fits C max w1 cons1 act1 (victims_order C act1) = Ok (w', cons', act').
Proof.
  unfold oom_killer, bind. intros H.
  destruct (kill_over_limit C w cons act) as [[[w1 cons1] act1]|e] eqn:K; [|discriminate].
  exists w1, cons1, act1. split; [reflexivity|].
  destruct (Qleb cons1 max) eqn:Q; [|exact H].
  rewrite kill_until_fits_fits by exact Q. exact H.
Qed.

(* C11 *)
Theorem oom_killer_spec C max w cons act w' cons' act' :
  NoDup (map c_id act) ->
  oom_killer C max w cons act = Ok (w', cons', act') ->
  exists w1 cons1 act1 k vs,
    (* step 1: exactly the containers over their own limit *)
    kill_over_limit C w cons act = Ok (w1, cons1, act1) /\
    act1 = map (kill_when over_limit) act /\
    (* step 2: the first k of the candidate order, in that order *)
    k <= length (victims_order C act1) /\
    map c_id vs = firstn k (victims_order C act1) /\
    act' = map (kill_if (firstn k (victims_order C act1))) act1 /\
    (forall id, In id (ids_killed act1 act') <-> In id (firstn k (victims_order C act1))) /\
    (* victims had not finished and used memory *)
    Forall (fun v => In v act1 /\ scorable v = true) vs /\
    (* no candidate with a strictly higher score survives a victim *)
    (forall v s, In v vs -> In s act1 -> scorable s = true ->
                 ~ In (c_id s) (ids_killed act1 act') ->
                 (score C s <= score C v)%Q /\ ~ (score C v < score C s)%Q) /\
    (* every kill was needed, and the loop stops as soon as the usage fits *)
    cons' = fold_left (cons_after C) vs cons1 /\
    Forall (fun q => Qle_bool q max = false) (kill_trace C cons1 vs) /\
    (k = length (victims_order C act1) \/ Qle_bool cons' max = true).
Proof.
  intros ND H. apply oom_killer_inv in H. destruct H as (w1 & cons1 & act1 & K1 & K2).
  pose proof (kill_over_limit_spec _ _ _ _ _ _ _ K1) as (E1 & _ & _).
  assert (ND1 : NoDup (map c_id act1)) by (rewrite E1, map_kill_when_ids; exact ND).
  destruct (kill_until_fits_prefix _ _ _ _ _ _ _ _ _ ND1 K2)
    as (k & vs & Hk & Hids & Hnd & Hvs & Hact & Hcons & Htr & Hstop).
  rewrite Forall_forall in Hvs.
  assert (Hkilled : forall id, In id (ids_killed act1 act') <->
                               In id (firstn k (victims_order C act1))).
  { intros id. rewrite Hact. apply ids_killed_kill_if; [exact ND1|].
    intros i Hi. rewrite <- Hids in Hi. apply in_map_iff in Hi. destruct Hi as [v [Ev Hv]].
    destruct (Hvs v Hv) as [Ha Hc]. exists v. auto. }
  assert (Hin : forall v, In v vs -> In (c_id v) (firstn k (victims_order C act1))).
  { intros v Hv. rewrite <- Hids. apply in_map. exact Hv. }
  exists w1, cons1, act1, k, vs.
  split; [exact K1|]. split; [exact E1|]. split; [exact Hk|]. split; [exact Hids|].
  split; [exact Hact|]. split; [exact Hkilled|].
  split.
  { apply Forall_forall. intros v Hv. destruct (Hvs v Hv) as [Ha Hc]. split; [exact Ha|].
    assert (Ho : In (c_id v) (victims_order C act1)).
    { rewrite <- (firstn_skipn k). apply in_or_app. left. apply Hin. exact Hv. }
    apply victims_order_scorable in Ho. destruct Ho as (c & H1 & H2 & H3).
    assert (E : c = v) by (apply (NoDup_ids_inj act1); auto). subst c. exact H2. }
  split.
  { intros v s Hv Hs Ss Hns. destruct (Hvs v Hv) as [Ha _].
    assert (Hns' : ~ In (c_id s) (firstn k (victims_order C act1))).
    { intros Hi. apply Hns. apply Hkilled. exact Hi. }
    split.
    - exact (victims_are_top C act1 k v s ND1 Ha (Hin v Hv) Hs Ss Hns').
    - exact (no_survivor_above_victim C act1 k v s ND1 Ha (Hin v Hv) Hs Ss Hns'). }
  split; [exact Hcons|]. split; [exact Htr|]. exact Hstop.
Qed.

(* ---------- 8. exact arithmetic: the consumed memory after the kills ---------- *)

Lemma cons_after_exact C :
  (forall x, (cf_rnd C x == x)%Q) ->
  forall vs cons, (fold_left (cons_after C) vs cons == cons - sumQ (map c_mem vs))%Q.
Proof.
  intros Ex. induction vs as [|v t IH]; intros cons; cbn [fold_left map sumQ].
  - ring.
  - rewrite IH. unfold cons_after. rewrite Ex. rewrite Ex. ring.
Qed.

(* with exact arithmetic every kill of the pool-level loop happened while the remaining usage
   (initial usage minus the memory of the earlier victims) still exceeded the pool *)
Lemma kill_trace_exact C :
  (forall x, (cf_rnd C x == x)%Q) ->
  forall vs cons max,
  Forall (fun q => Qle_bool q max = false) (kill_trace C cons vs) ->
  forall j, j < length vs -> (max < cons - sumQ (map c_mem (firstn j vs)))%Q.
Proof.
  intros Ex. induction vs as [|v t IH]; intros cons max HF j Hj; cbn in Hj; [lia|].
  cbn [kill_trace] in HF. inversion HF as [|q l Hq Ht]; subst.
  destruct j as [|j].
  - cbn. apply Qle_bool_false in Hq. lra.
  - cbn [firstn map sumQ]. assert (Hj' : j < length t) by lia.
    specialize (IH _ _ Ht j Hj'). unfold cons_after in IH.
    rewrite Ex in IH. rewrite Ex in IH. lra.
Qed.

(* ====================================================================== *)
(* C. closed examples (exact arithmetic)                                  *)
(* ====================================================================== *)

Module Examples.

(* five one-operator pipelines; operator i belongs to container i *)
Definition exS : static :=
  mk_static [(Batch, [[]]); (Batch, [[]]); (Batch, [[]]); (Batch, [[]]); (Batch, [[]])].

Definition exC : cfg :=
  {| cf_static := exS; cf_script := fun _ _ => [1%Q]; cf_tps := 10%Z;
     cf_overcommit := true; cf_multi := false; cf_rnd := fun x => x |}.

(* all operators Running, so that the Failed transitions of a kill are accepted *)
Definition exW : world :=
  match transition_all exS (init_world exS) [0; 1; 2; 3; 4] Assigned with
  | Ok w1 => match transition_all exS w1 [0; 1; 2; 3; 4] Running with
             | Ok w2 => w2
             | Err _ => init_world exS
             end
  | Err _ => init_world exS
  end.

Example exW_running : map (st_of exW) [0; 1; 2; 3; 4] = [Running; Running; Running; Running; Running].
Proof. vm_compute. reflexivity. Qed.

Definition mkc (id : nat) (ram mem : Q) (completed : bool) : container :=
  {| c_id := id; c_ops := [id]; c_cpu := 1%Z; c_ram := ram; c_prio := Batch; c_opidx := 0;
     c_rest := Some [mem]; c_frozen := false; c_mem := mem; c_can_suspend := false;
     c_completed := completed; c_error := false; c_ticks := 1%Z; c_susp_left := 0%Z |}.

(* scores: c0 4*(4/8) = 2, c1 2*(2/2) = 2 (a tie), c2 6*(6/6) = 6; c3 uses no memory, c4 has
   finished in this tick *)
Definition exAct : list container :=
  [mkc 0 8 4 false; mkc 1 2 2 false; mkc 2 6 6 false; mkc 3 4 0 false; mkc 4 4 0 true].

Example ex_scores : map (fun c => Qred (score exC c)) exAct = [2; 2; 6; 0; 0]%Q.
Proof. vm_compute. reflexivity. Qed.

Example ex_tie : Qeq_bool (score exC (mkc 0 8 4 false)) (score exC (mkc 1 2 2 false)) = true.
Proof. vm_compute. reflexivity. Qed.

(* highest score first; the tie keeps the list order (0 before 1); 3 and 4 are no candidates *)
Example ex_order : victims_order exC exAct = [2; 0; 1].
Proof. vm_compute. reflexivity. Qed.

Definition summary (r : res (world * Q * list container)) : option (Q * list (nat * bool * bool)) :=
  match r with
  | Ok (_, q, act) => Some (Qred q, map (fun c => (c_id c, c_completed c, c_error c)) act)
  | Err _ => None
  end.

(* usage 12 in a pool of 3: container 2 goes (6 left, still too much), then container 0 (2 left,
   fits); container 1 survives although its score equals that of container 0 *)
Example ex_loop :
  summary (kill_until_fits exC 3 exW 12 exAct (victims_order exC exAct)) =
  Some (2%Q, [(0, true, true); (1, false, false); (2, true, true); (3, false, false); (4, true, false)]).
Proof. vm_compute. reflexivity. Qed.

Example ex_loop_killed :
  match kill_until_fits exC 3 exW 12 exAct (victims_order exC exAct) with
  | Ok (_, _, act') => ids_killed exAct act'
  | Err _ => []
  end = [0; 2].
Proof. vm_compute. reflexivity. Qed.

(* usage 12 in a pool of 8: one kill is enough *)
Example ex_loop_one :
  summary (kill_until_fits exC 8 exW 12 exAct (victims_order exC exAct)) =
  Some (6%Q, [(0, false, false); (1, false, false); (2, true, true); (3, false, false); (4, true, false)]).
Proof. vm_compute. reflexivity. Qed.

(* usage 12 in a pool of 1: every candidate goes, containers 3 and 4 are not touched *)
Example ex_loop_all :
  summary (kill_until_fits exC 1 exW 12 exAct (victims_order exC exAct)) =
  Some (0%Q, [(0, true, true); (1, true, true); (2, true, true); (3, false, false); (4, true, false)]).
Proof. vm_compute. reflexivity. Qed.

(* the whole killer: container 3 now exceeds its own limit (3 > 1) *)
Definition exAct2 : list container :=
  [mkc 0 8 4 false; mkc 1 2 2 false; mkc 2 6 6 false; mkc 3 1 3 false; mkc 4 4 0 true].

Example ex_step1 :
  summary (kill_over_limit exC exW 15 exAct2) =
  Some (12%Q, [(0, false, false); (1, false, false); (2, false, false); (3, true, true); (4, true, false)]).
Proof. vm_compute. reflexivity. Qed.

(* pool of 3: step 1 kills 3 (12 left), step 2 kills 2 and 0 *)
Example ex_oom :
  summary (oom_killer exC 3 exW 15 exAct2) =
  Some (2%Q, [(0, true, true); (1, false, false); (2, true, true); (3, true, true); (4, true, false)]).
Proof. vm_compute. reflexivity. Qed.

Example ex_oom_killed :
  match oom_killer exC 3 exW 15 exAct2 with
  | Ok (_, _, act') => ids_killed exAct2 act'
  | Err _ => []
  end = [0; 2; 3].
Proof. vm_compute. reflexivity. Qed.

(* pool of 12: after step 1 the usage fits, nobody else is killed *)
Example ex_oom_fits :
  summary (oom_killer exC 12 exW 15 exAct2) =
  Some (12%Q, [(0, false, false); (1, false, false); (2, false, false); (3, true, true); (4, true, false)]).
Proof. vm_compute. reflexivity. Qed.

(* the hypotheses of the theorems hold here *)
Example ex_nodup : NoDup (map c_id exAct2).
Proof. cbn. repeat constructor; cbn; intuition discriminate. Qed.

End Examples.

