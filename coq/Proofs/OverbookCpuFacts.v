(* C18 at run level, CPU side (audit point P9): under overbook a pool never runs more containers than it
   has CPUs.

   Per round, [ob_cpu_bound] (Proofs/OverbookFacts.v) bounds the containers a pool receives by its free
   CPUs, and C03 (Proofs/ConserveFacts.v) conserves CPUs over arbitrary executor histories. Here the two
   are joined in the closed loop [sim_tick C AOverbook]: for every simulator state reachable from
   [init_sim] and every pool

     - nothing is suspending and nothing has ever been suspended (overbook emits no suspension),
     - every active container holds exactly one CPU (overbook assigns [a_cpu = 1], a container keeps
       its allocation),
     - free CPUs + number of active containers = CPUs of the pool, and the free CPUs are not negative,

   hence [length (p_active p) <= cpu].

   Structure: 1. one pool tick without suspensions, opened once; 2. the pool invariant [ob_cpu_pool]
   and its preservation by [pool_tick], [pools_tick] and [sim_tick C AOverbook]; 3. reachable-state and
   run forms; 4. a run in which the bound is attained while operators wait. *)
From Coq Require Import ZArith QArith List Bool Arith Lia Permutation.
Import ListNotations.
From Eudoxia Require Import Num.Rnd64 Model.Types Model.Dag Model.Lifecycle Model.Container Model.Pool
  Model.Executor Model.Sched Model.Simulator
  Proofs.ListFacts Proofs.ConserveFacts Proofs.OverbookFacts Proofs.PriorityPoolRunFacts
  Proofs.OverbookRunFacts.
Close Scope Q_scope.
Close Scope Z_scope.

(* ------------------------------------------------------------------------------------------ *)
(* 0. small facts                                                                               *)
(* ------------------------------------------------------------------------------------------ *)

Definition one_cpu (c : container) : Prop := c_cpu c = 1%Z.

Lemma one_cpu_sum l : Forall one_cpu l -> sumZ (map c_cpu l) = Z.of_nat (length l).
Proof.
  induction 1 as [|c t Hc _ IH]; [reflexivity|].
  cbn [map sumZ length]. rewrite IH, Hc. lia.
Qed.

Lemma Forall_filter_sub {A} (P : A -> Prop) (f : A -> bool) l : Forall P l -> Forall P (filter f l).
Proof.
  intros H. apply Forall_forall. intros x Hx. apply filter_In in Hx.
  rewrite Forall_forall in H. apply H. tauto.
Qed.

Lemma sum_cpu_split (l : list container) :
  sumZ (map c_cpu l) =
  (sumZ (map c_cpu (filter c_completed l)) + sumZ (map c_cpu (filter not_completed l)))%Z.
Proof.
  induction l as [|c t IH]; [reflexivity|].
  cbn [filter map sumZ]. unfold not_completed at 1.
  destruct (c_completed c); cbn [negb map sumZ]; lia.
Qed.

(* the CPU allocations of a list of containers are read off its keys *)
Lemma keys_one_cpu act act0 next asgs :
  keys act = keys act0 ++ new_keys next asgs ->
  Forall one_cpu act0 -> Forall (fun a => a_cpu a = 1%Z) asgs -> Forall one_cpu act.
Proof.
  intros K F0 Fa.
  assert (E : map c_cpu act = map c_cpu act0 ++ map a_cpu asgs).
  { rewrite (cpus_keys act), K, map_app, <- cpus_keys, new_keys_cpus. reflexivity. }
  apply (Forall_map c_cpu (fun z => z = 1%Z)). rewrite E. apply Forall_app. split.
  - apply Forall_map. exact F0.
  - apply Forall_map. exact Fa.
Qed.

(* ------------------------------------------------------------------------------------------ *)
(* 1. one pool tick without suspensions and with nothing suspending                             *)
(* ------------------------------------------------------------------------------------------ *)

(* [act5]: the active containers after the assignments, the tick and the killer, before the harvest.
   Key for key they are the containers active before plus the new ones. *)
Lemma pool_tick_quiet_shape C w next p asgs w' next' p' res :
  pool_tick C w next p [] asgs = Ok (w', next', p', res) ->
  p_suspending p = [] ->
  exists act5,
    keys act5 = keys (p_active p) ++ new_keys next asgs /\
    p_active p' = filter not_completed act5 /\
    p_suspending p' = [] /\ p_suspended p' = p_suspended p /\
    p_avail_cpu p' = (p_avail_cpu p - sumZ (map a_cpu asgs)
                      + sumZ (map c_cpu (filter c_completed act5)))%Z /\
    (asgs <> [] -> verify_assignments C p asgs = Ok tt) /\
    next' = next + length asgs /\
    p_max_cpu p' = p_max_cpu p.
Proof.
  intros H Sg. unfold pool_tick in H.
  inv_bind H r1 E1. destruct r1 as [[[w1 act1] sing1] cons1]. cbv beta iota in H.
  inversion E1; subst w1 act1 sing1 cons1. clear E1.
  inv_bind H r2 E2. change (phase2 C next p (p_active p) asgs = Ok r2) in E2.
  destruct r2 as [[[next2 acpu2] aram2] act2]. cbv beta iota in H.
  rewrite Sg in H.
  inv_bind H r3 E3. destruct r3 as [w3 sing3]. cbv beta iota in H.
  cbn [tick_suspending] in E3. inversion E3; subst w3 sing3. clear E3.
  cbv zeta in H. cbn [filter map sumZ fold_left] in H.
  inv_bind H r4 E4. destruct r4 as [[w4 cons4] act4]. cbv beta iota in H.
  inv_bind H r5 E5. destruct r5 as [[w5 cons5] act5]. cbv beta iota in H.
  injection H as Hw Hn Hp Hr.
  apply phase2_spec in E2. destruct E2 as [N2 [A2 [_ [K2 V2]]]].
  apply tick_active_keys in E4. apply oom_killer_keys in E5.
  exists act5. subst p' next'. cbn [p_active p_suspending p_suspended p_avail_cpu p_max_cpu upd_pool].
  split; [congruence|]. split; [reflexivity|]. split; [reflexivity|].
  split; [apply app_nil_r|]. split; [rewrite A2; lia|]. split; [exact V2|]. split; [exact N2|].
  reflexivity.
Qed.

(* ------------------------------------------------------------------------------------------ *)
(* 2. the invariant                                                                             *)
(* ------------------------------------------------------------------------------------------ *)

(* a pool of capacity [cpu] under overbook. The last clause reads "free CPUs are not negative" when
   [0 <= cpu]; a pool built with a negative CPU count never gets a container (its free count stays
   negative and every batch is refused), so the bound needs no hypothesis on [cpu]. *)
Definition ob_cpu_pool (cpu : Z) (p : pool) : Prop :=
  p_suspending p = [] /\ p_suspended p = [] /\
  Forall one_cpu (p_active p) /\
  p_max_cpu p = cpu /\
  cpu_conserved p /\
  ((0 <= p_avail_cpu p)%Z \/ p_active p = []).

Definition ob_cpu_inv (cpu : Z) (s : sim) : Prop := Forall (ob_cpu_pool cpu) (e_pools (sm_exec s)).

Lemma pool_tick_ob_cpu C cpu w next p asgs w' next' p' res :
  pool_tick C w next p [] asgs = Ok (w', next', p', res) ->
  ob_cpu_pool cpu p -> Forall (fun a => a_cpu a = 1%Z) asgs ->
  ob_cpu_pool cpu p' /\ next <= next'.
Proof.
  intros H (Sg & Sd & F1 & Mx & Cv & Nn) Fa.
  destruct (pool_tick_quiet_shape _ _ _ _ _ _ _ _ _ H Sg)
    as (act5 & K5 & Ea & Sg' & Sd' & Av & V & Nx & Mx').
  assert (F5 : Forall one_cpu act5) by (eapply keys_one_cpu; eauto).
  assert (S5 : sumZ (map c_cpu act5)
               = (sumZ (map c_cpu (p_active p)) + sumZ (map a_cpu asgs))%Z).
  { rewrite (cpus_keys act5), K5, map_app, sumZ_app, <- cpus_keys, new_keys_cpus. reflexivity. }
  pose proof (sum_cpu_split act5) as Sp.
  assert (Fin : (0 <= sumZ (map c_cpu (filter c_completed act5)))%Z).
  { rewrite one_cpu_sum by (apply Forall_filter_sub; exact F5). lia. }
  unfold cpu_conserved, live in Cv. rewrite Sg, app_nil_r in Cv.
  split; [|lia].
  split; [exact Sg'|]. split; [congruence|].
  split; [rewrite Ea; apply Forall_filter_sub; exact F5|]. split; [congruence|]. split.
  - unfold cpu_conserved, live. rewrite Sg', app_nil_r, Ea, Mx', Av. lia.
  - destruct asgs as [|a t].
    + cbn [map sumZ new_keys] in Av, K5. rewrite app_nil_r in K5.
      destruct Nn as [Nn|Nn]; [left; lia|]. right.
      rewrite Nn in K5. apply map_eq_nil in K5. rewrite Ea, K5. reflexivity.
    + assert (Hne : a :: t <> []) by discriminate.
      specialize (V Hne). apply verify_assignments_ok in V. destruct V as [V _]. left. lia.
Qed.

(* one tick of the closed loop: the round emits no suspension and only one-CPU assignments, the
   executor runs every pool with its share of them *)
Lemma ob_tick_cpu C cpu t s newp s' lg :
  sim_tick C AOverbook t s newp = Ok (s', lg) -> ob_cpu_inv cpu s -> ob_cpu_inv cpu s'.
Proof.
  intros T I. apply sim_tick_ok_inv in T.
  destruct T as (arr & ss' & w' & susps & asgs & e2 & res & _ & Es & Ee & X1 & _).
  unfold sched_step in Es.
  pose proof (ob_no_suspend _ _ _ _ _ _ _ _ _ Es) as Su. subst susps.
  assert (Fa : Forall (fun a => a_cpu a = 1%Z) asgs).
  { apply Forall_forall. intros a Ha.
    destruct (ob_shape _ _ _ _ _ _ _ _ _ Es a Ha) as (o & p & wk & _ & E & _). exact E. }
  apply exec_tick_ok_inv in Ee. destruct Ee as (_ & _ & Ee). cbn [e_world e_next e_pools] in Ee.
  unfold ob_cpu_inv in *. rewrite X1.
  eapply (pools_tick_inv C (fun _ p => ob_cpu_pool cpu p) [] asgs) in Ee; [apply Ee | | | exact I].
  - intros n m p _ Hp. exact Hp.
  - intros w0 next p w1 next1 p1 res1 Hp Ht. cbn [mine_s filter] in Ht.
    eapply pool_tick_ob_cpu; [exact Ht | exact Hp|]. unfold mine_a. apply Forall_filter_sub. exact Fa.
Qed.

Lemma ob_init_cpu C np cpu ram : ob_cpu_inv cpu (init_sim C np cpu ram).
Proof.
  unfold ob_cpu_inv, init_sim, init_estate. cbn [sm_exec e_pools].
  apply Forall_forall. intros p Hp. apply in_map_iff in Hp. destruct Hp as (i & <- & _).
  unfold ob_cpu_pool, cpu_conserved, live, new_pool.
  cbn [p_suspending p_suspended p_active p_max_cpu p_avail_cpu app map sumZ].
  split; [reflexivity|]. split; [reflexivity|]. split; [constructor|]. split; [reflexivity|].
  split; [lia | right; reflexivity].
Qed.

(* ------------------------------------------------------------------------------------------ *)
(* 3. reachable states and whole runs                                                           *)
(* ------------------------------------------------------------------------------------------ *)

Lemma ob_cpu_inv_reach C np cpu ram t s :
  sim_reach C AOverbook 0%Z (init_sim C np cpu ram) t s -> ob_cpu_inv cpu s.
Proof.
  intros R. refine (sim_reach_inv C AOverbook (ob_cpu_inv cpu) _ _ _ _ _ R (ob_init_cpu _ _ _ _)).
  intros t1 s1 newp s2 lg I T. eapply ob_tick_cpu; eauto.
Qed.

(* the sharp form: in every state of a run of overbook, in every pool, nothing is suspending or
   suspended, every container holds exactly one CPU, and the number of containers is the number of
   allocated CPUs = capacity - free, with 0 <= free *)
Theorem ob_containers_eq_allocated C np cpu ram t s :
  (0 <= cpu)%Z ->
  sim_reach C AOverbook 0%Z (init_sim C np cpu ram) t s ->
  forall p, In p (e_pools (sm_exec s)) ->
    p_suspending p = [] /\ p_suspended p = [] /\
    (forall c, In c (p_active p) -> c_cpu c = 1%Z) /\
    p_max_cpu p = cpu /\
    Z.of_nat (length (p_active p)) = (cpu - p_avail_cpu p)%Z /\
    (0 <= p_avail_cpu p <= cpu)%Z.
Proof.
  intros Hc R p Hp. apply ob_cpu_inv_reach in R. unfold ob_cpu_inv in R.
  rewrite Forall_forall in R. destruct (R p Hp) as (Sg & Sd & F1 & Mx & Cv & Nn).
  unfold cpu_conserved, live in Cv. rewrite Sg, app_nil_r, (one_cpu_sum _ F1), Mx in Cv.
  split; [exact Sg|]. split; [exact Sd|].
  split; [rewrite Forall_forall in F1; exact F1|]. split; [exact Mx|].
  split; [lia|]. destruct Nn as [Nn|Nn]; [lia|]. rewrite Nn in Cv. cbn [length] in Cv. lia.
Qed.

(* the bound holds whatever the CPU count the pools were built with ([Z.to_nat] of a negative count
   is 0: such a pool never runs a container) *)
Theorem ob_containers_le_cpus_any C np cpu ram t s :
  sim_reach C AOverbook 0%Z (init_sim C np cpu ram) t s ->
  forall p, In p (e_pools (sm_exec s)) -> length (p_active p) <= Z.to_nat cpu.
Proof.
  intros R p Hp. apply ob_cpu_inv_reach in R. unfold ob_cpu_inv in R.
  rewrite Forall_forall in R. destruct (R p Hp) as (Sg & Sd & F1 & Mx & Cv & Nn).
  unfold cpu_conserved, live in Cv. rewrite Sg, app_nil_r, (one_cpu_sum _ F1), Mx in Cv.
  destruct Nn as [Nn|Nn]; [lia|]. rewrite Nn. cbn [length]. lia.
Qed.

(* P9: a pool never runs more containers than it has CPUs *)
Theorem ob_containers_le_cpus C np cpu ram t s :
  (0 <= cpu)%Z ->
  sim_reach C AOverbook 0%Z (init_sim C np cpu ram) t s ->
  forall p, In p (e_pools (sm_exec s)) -> length (p_active p) <= Z.to_nat cpu.
Proof. intros _. apply ob_containers_le_cpus_any. Qed.

(* run forms: [sf] is the state in which the run ended, normally or at the tick that raised *)
Theorem ob_containers_le_cpus_run C np cpu ram arrivals sf logs oe :
  (0 <= cpu)%Z ->
  sim_run C AOverbook 0%Z (init_sim C np cpu ram) arrivals = (sf, logs, oe) ->
  forall p, In p (e_pools (sm_exec sf)) -> length (p_active p) <= Z.to_nat cpu.
Proof.
  intros Hc H. apply sim_run_reach in H. destruct H as [t R]. eapply ob_containers_le_cpus; eauto.
Qed.

Theorem ob_containers_eq_allocated_run C np cpu ram arrivals sf logs oe :
  (0 <= cpu)%Z ->
  sim_run C AOverbook 0%Z (init_sim C np cpu ram) arrivals = (sf, logs, oe) ->
  forall p, In p (e_pools (sm_exec sf)) ->
    p_suspending p = [] /\ p_suspended p = [] /\
    (forall c, In c (p_active p) -> c_cpu c = 1%Z) /\
    p_max_cpu p = cpu /\
    Z.of_nat (length (p_active p)) = (cpu - p_avail_cpu p)%Z /\
    (0 <= p_avail_cpu p <= cpu)%Z.
Proof.
  intros Hc H. apply sim_run_reach in H. destruct H as [t R].
  eapply ob_containers_eq_allocated; eauto.
Qed.

(* ------------------------------------------------------------------------------------------ *)
(* 4. non-vacuity: the bound is attained while operators wait                                   *)
(* ------------------------------------------------------------------------------------------ *)

Module OverbookCpuExample.
Import OverbookRunExample.

(* the pipelines of [OverbookRunExample.Lx] (pipeline 0: operators 0, 1 and their child 2; pipeline 1:
   operators 3, 4); every operator runs three ticks at 1 GB, so nothing is killed. One pool with
   2 CPUs and 8 GB. Both pipelines arrive in tick 0: operators 0 and 1 get the two CPUs, 3 and 4 wait. *)
Definition Cy : cfg :=
  {| cf_static := mk_static Lx; cf_script := fun _ _ => [1%Q; 1%Q; 1%Q]; cf_tps := 10%Z;
     cf_overcommit := true; cf_multi := false; cf_rnd := fun q => q |}.
Definition s0y : sim := init_sim Cy 1 2%Z 8%Q.
Definition run_y (arrivals : list (list nat)) := sim_run Cy AOverbook 0%Z s0y arrivals.
Definition s1y : sim := fst (fst (run_y [[0; 1]])).
Definition s2y : sim := fst (fst (run_y [[0; 1]; []])).
Definition s4y : sim := fst (fst (run_y [[0; 1]; []; []; []])).

(* (containers running, CPUs of the pool, free CPUs) per pool *)
Definition cpu_view (s : sim) : list (nat * Z * Z) :=
  map (fun p => (length (p_active p), p_max_cpu p, p_avail_cpu p)) (e_pools (sm_exec s)).

Lemma run_y_eq l : run_y l = (fst (fst (run_y l)), snd (fst (run_y l)), snd (run_y l)).
Proof. destruct (run_y l) as [[a b] c]. reflexivity. Qed.

(* the states are states of the run, the run raises nothing *)
Lemma run_y_reach l : exists t, sim_reach Cy AOverbook 0%Z s0y t (fst (fst (run_y l))).
Proof.
  apply (sim_run_reach Cy AOverbook l 0%Z s0y _ (snd (fst (run_y l))) (snd (run_y l))).
  apply run_y_eq.
Qed.

Example ex_reach :
  (exists t, sim_reach Cy AOverbook 0%Z s0y t s1y) /\
  (exists t, sim_reach Cy AOverbook 0%Z s0y t s2y) /\
  (exists t, sim_reach Cy AOverbook 0%Z s0y t s4y) /\
  snd (run_y [[0; 1]; []; []; []]) = None.
Proof.
  split; [exact (run_y_reach [[0; 1]])|].
  split; [exact (run_y_reach [[0; 1]; []])|].
  split; [exact (run_y_reach [[0; 1]; []; []; []])|].
  vm_compute. reflexivity.
Qed.

(* after ticks 0 and 1 the pool runs as many containers as it has CPUs (the bound is attained), no CPU is
   free, and the ready operators 3 and 4 wait in the queue. Operators 0 and 1 complete in tick 2; the
   round of tick 3 gives their CPUs to 3 and 4, the pool is full again and operator 2 (now ready) waits. *)
Example ex_bound_attained :
  cpu_view s1y = [(2, 2%Z, 0%Z)] /\ ss_queue (sm_sched s1y) = [3; 4] /\
  map (st_of (e_world (sm_exec s1y))) [0; 1; 2; 3; 4] = [Running; Running; Pending; Pending; Pending] /\
  cpu_view s2y = [(2, 2%Z, 0%Z)] /\ ss_queue (sm_sched s2y) = [3; 4] /\
  cpu_view s4y = [(2, 2%Z, 0%Z)] /\ ss_queue (sm_sched s4y) = [2] /\
  map (st_of (e_world (sm_exec s4y))) [0; 1; 2; 3; 4] = [Completed; Completed; Pending; Running; Running].
Proof. vm_compute. repeat split. Qed.

(* the theorem applies to the run, and its bound [Z.to_nat 2] is met with equality by the pool of [s1y] *)
Lemma run_y_bound l :
  forall p, In p (e_pools (sm_exec (fst (fst (run_y l))))) -> length (p_active p) <= Z.to_nat 2.
Proof.
  apply (ob_containers_le_cpus_run Cy 1 2%Z 8%Q l _ (snd (fst (run_y l))) (snd (run_y l))); [lia|].
  apply run_y_eq.
Qed.

Definition p1y : pool := hd (new_pool 0 0%Z 0%Q) (e_pools (sm_exec s1y)).

Example ex_theorem_applies :
  (forall p, In p (e_pools (sm_exec s1y)) -> length (p_active p) <= Z.to_nat 2) /\
  In p1y (e_pools (sm_exec s1y)) /\ length (p_active p1y) = Z.to_nat 2.
Proof.
  split; [exact (run_y_bound [[0; 1]])|].
  vm_compute. split; [left|]; reflexivity.
Qed.

End OverbookCpuExample.
