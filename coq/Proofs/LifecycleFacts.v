(* Facts about the operator state machine (Model/Lifecycle.v): the table, frames, finality,
   the dependency invariant, and the counts histogram — for every history of requests. *)
From Coq Require Import List Arith Lia Bool ZArith.
Import ListNotations.
From Eudoxia Require Import Model.Types Model.Dag Model.Shapes Model.Lifecycle Proofs.ListFacts.

(* ---------- the table ---------- *)

Definition documented_edges : list (ostate * ostate) :=
  [ (Pending, Assigned); (Assigned, Running); (Running, Completed);
    (Assigned, Failed); (Running, Failed); (Failed, Assigned);
    (Assigned, Suspending); (Suspending, Pending) ].

Lemma valid_iff_documented a b : valid a b = true <-> In (a, b) documented_edges.
Proof.
  destruct a, b; cbn; split; intros H; try reflexivity; try discriminate;
    try (repeat (destruct H as [H|H]; [discriminate H|]); destruct H);
    tauto.
Qed.

Lemma completed_no_successor b : valid Completed b = false.
Proof. destruct b; reflexivity. Qed.

Lemma valid_to_running a : valid a Running = true -> a = Assigned.
Proof. destruct a; cbn; intros H; try discriminate; reflexivity. Qed.

Lemma valid_to_completed a : valid a Completed = true -> a = Running.
Proof. destruct a; cbn; intros H; try discriminate; reflexivity. Qed.

(* ---------- check_transition / transition ---------- *)

Lemma check_transition_ok S w op new :
  check_transition S w op new = Ok tt <->
  valid (st_of w op) new = true /\ (new = Running -> parents_complete S w op = true).
Proof.
  unfold check_transition, check_prog, run_ck, parents_complete.
  destruct (valid (st_of w op) new) eqn:V; cbn [negb].
  - destruct (ostate_eqb new Running) eqn:E; cbn [andb].
    + apply ostate_eqb_eq in E. subst new.
      destruct (forallb _ _) eqn:F; cbn [negb]; split; intros H; try discriminate; auto.
      destruct H as [_ H]. specialize (H eq_refl). discriminate.
    + apply ostate_eqb_neq in E.
      split; [intros _; split; [reflexivity | intros ->; congruence] | reflexivity].
  - split; [discriminate | intros [H _]; discriminate].
Qed.

Lemma check_transition_err S w op new e :
  check_transition S w op new = Err e ->
  (e = ETransition /\ valid (st_of w op) new = false) \/
  (e = EDep /\ new = Running /\ valid (st_of w op) new = true /\ parents_complete S w op = false).
Proof.
  unfold check_transition, check_prog, run_ck, parents_complete.
  destruct (valid (st_of w op) new) eqn:V; cbn [negb].
  - destruct (ostate_eqb new Running) eqn:E; cbn [andb].
    + apply ostate_eqb_eq in E. subst new.
      destruct (forallb _ _) eqn:F; cbn [negb]; intros H; inversion H. right. auto.
    + discriminate.
  - intros H; inversion H. left. auto.
Qed.

Lemma check_transition_unit S w op new u : check_transition S w op new = Ok u -> u = tt.
Proof. destruct u. reflexivity. Qed.

Definition world_after (S : static) (w : world) (op : nat) (new : ostate) : world :=
  let old := st_of w op in
  let k := op_pipe S op in
  {| w_st := set_nth (w_st w) op new;
     w_cnt := set_nth (w_cnt w) k (bump (bump (nth k (w_cnt w) []) old (-1)) new 1) |}.

Lemma transition_ok S w op new w' :
  transition S w op new = Ok w' <->
  valid (st_of w op) new = true /\ (new = Running -> parents_complete S w op = true)
  /\ w' = world_after S w op new.
Proof.
  unfold transition, bind.
  destruct (check_transition S w op new) as [[]|e] eqn:C.
  - apply check_transition_ok in C. destruct C as [V P]. split.
    + intros H. inversion H. auto.
    + intros [_ [_ ->]]. reflexivity.
  - split; [discriminate|]. intros [V [P _]].
    assert (check_transition S w op new = Ok tt) by (apply check_transition_ok; auto). congruence.
Qed.

(* a refused request: which test refused it. (The model has no world to return for a refusal: the
   history continues from the old one, see [life_steps].) *)
Lemma transition_err S w op new e :
  transition S w op new = Err e ->
  (e = ETransition /\ valid (st_of w op) new = false) \/
  (e = EDep /\ new = Running /\ valid (st_of w op) new = true /\ parents_complete S w op = false).
Proof.
  unfold transition, bind.
  destruct (check_transition S w op new) as [[]|e'] eqn:C; [discriminate|].
  intros H; inversion H; subst. eapply check_transition_err; eauto.
Qed.

(* frame: an accepted request changes exactly that operator *)
Lemma transition_st_same S w op new w' :
  transition S w op new = Ok w' -> op < length (w_st w) -> st_of w' op = new.
Proof.
  intros H L. apply transition_ok in H. destruct H as [_ [_ ->]].
  unfold st_of, world_after; cbn. apply nth_set_nth_same. exact L.
Qed.

Lemma transition_st_other S w op new w' o :
  transition S w op new = Ok w' -> o <> op -> st_of w' o = st_of w o.
Proof.
  intros H L. apply transition_ok in H. destruct H as [_ [_ ->]].
  unfold st_of, world_after; cbn. apply nth_set_nth_other. auto.
Qed.

Lemma transition_length S w op new w' :
  transition S w op new = Ok w' -> length (w_st w') = length (w_st w).
Proof.
  intros H. apply transition_ok in H. destruct H as [_ [_ ->]]. cbn. apply set_nth_length.
Qed.

(* completion is final: no accepted request has a Completed source *)
Lemma transition_source_not_completed S w op new w' :
  transition S w op new = Ok w' -> st_of w op <> Completed.
Proof.
  intros H E. apply transition_ok in H. destruct H as [V _]. rewrite E, completed_no_successor in V.
  discriminate.
Qed.

Lemma completed_stays_step S w op new w' o :
  transition S w op new = Ok w' -> st_of w o = Completed -> st_of w' o = Completed.
Proof.
  intros H E. destruct (Nat.eq_dec o op) as [->|N].
  - exfalso. eapply transition_source_not_completed; eauto.
  - erewrite transition_st_other; eauto.
Qed.

(* ---------- histories: the reflexive-transitive closure of accepted requests ---------- *)

Inductive steps (S : static) : world -> world -> Prop :=
| steps_refl w : steps S w w
| steps_cons w op new w' w'' :
    transition S w op new = Ok w' -> steps S w' w'' -> steps S w w''.

Lemma steps_trans S a b c : steps S a b -> steps S b c -> steps S a c.
Proof. induction 1; intros; auto. econstructor; eauto. Qed.

Lemma steps_one S w op new w' : transition S w op new = Ok w' -> steps S w w'.
Proof. intros. econstructor; eauto. constructor. Qed.

Lemma completed_final S w w' o :
  steps S w w' -> st_of w o = Completed -> st_of w' o = Completed.
Proof. induction 1; intros; auto. apply IHsteps. eapply completed_stays_step; eauto. Qed.

Lemma steps_length S w w' : steps S w w' -> length (w_st w') = length (w_st w).
Proof. induction 1; auto. rewrite IHsteps. eapply transition_length; eauto. Qed.

Lemma transition_all_steps S ops : forall w new w',
  transition_all S w ops new = Ok w' -> steps S w w'.
Proof.
  induction ops as [|o t IH]; cbn; intros w new w' H.
  - inversion H. constructor.
  - unfold bind in H. destruct (transition S w o new) eqn:T; [|discriminate].
    econstructor; eauto.
Qed.

(* ---------- the dependency invariant ---------- *)

Definition started (a : ostate) : Prop := a = Running \/ a = Completed.

Definition DepInv (S : static) (w : world) : Prop :=
  forall op, started (st_of w op) -> forall p, In p (op_parents S op) -> st_of w p = Completed.

(* parents differ from the operator itself (they are earlier operators) *)
Definition irreflexive_parents (S : static) : Prop :=
  forall op, ~ In op (op_parents S op).

Lemma parents_complete_spec S w op :
  parents_complete S w op = true <-> forall p, In p (op_parents S op) -> st_of w p = Completed.
Proof.
  unfold parents_complete. rewrite forallb_forall. split; intros H p Hp.
  - apply ostate_eqb_eq. auto.
  - apply ostate_eqb_eq. auto.
Qed.

Lemma DepInv_step S w op new w' :
  irreflexive_parents S -> op < length (w_st w) ->
  DepInv S w -> transition S w op new = Ok w' -> DepInv S w'.
Proof.
  intros Irr L Inv T o So p Hp.
  pose proof T as T0. apply transition_ok in T. destruct T as [V [P _]].
  destruct (Nat.eq_dec o op) as [->|No].
  - (* the operator that moved *)
    rewrite (transition_st_same _ _ _ _ _ T0 L) in So.
    assert (Npo : p <> op) by (intros ->; apply (Irr op); exact Hp).
    rewrite (transition_st_other _ _ _ _ _ _ T0 Npo).
    destruct So as [->| ->].
    + apply (proj1 (parents_complete_spec S w op) (P eq_refl)). exact Hp.
    + apply valid_to_completed in V. apply (Inv op); [left; exact V | exact Hp].
  - rewrite (transition_st_other _ _ _ _ _ _ T0 No) in So.
    pose proof (Inv o So p Hp) as Cp.
    eapply completed_stays_step; eauto.
Qed.

Lemma DepInv_init S : DepInv S (init_world S).
Proof.
  intros op [H|H] p _; exfalso; unfold st_of, init_world in H; cbn in H;
    destruct (Nat.lt_ge_cases op (length (s_ops S))) as [L|L].
  - rewrite nth_repeat in H. discriminate.
  - rewrite nth_overflow in H by (rewrite repeat_length; lia). discriminate.
  - rewrite nth_repeat in H. discriminate.
  - rewrite nth_overflow in H by (rewrite repeat_length; lia). discriminate.
Qed.

(* requests on unknown operators: [set_nth] beyond the end changes nothing, and the state read
   is the default Pending; the invariant is therefore stated for in-range requests, which is what
   every caller in the model issues. *)
Inductive steps_in (S : static) : world -> world -> Prop :=
| stepsi_refl w : steps_in S w w
| stepsi_cons w op new w' w'' :
    op < length (w_st w) -> transition S w op new = Ok w' -> steps_in S w' w'' -> steps_in S w w''.

Lemma steps_in_steps S w w' : steps_in S w w' -> steps S w w'.
Proof. induction 1; [constructor | econstructor; eauto]. Qed.

Lemma steps_in_trans S a b c : steps_in S a b -> steps_in S b c -> steps_in S a c.
Proof. induction 1; intros; auto. econstructor; eauto. Qed.

Theorem dep_inv S w w' :
  irreflexive_parents S -> DepInv S w -> steps_in S w w' -> DepInv S w'.
Proof.
  intros Irr I H. induction H; auto. apply IHsteps_in. eapply DepInv_step; eauto.
Qed.

(* the start of an operator with an unfinished parent is refused *)
Lemma bad_start_rejected S w op p :
  In p (op_parents S op) -> st_of w p <> Completed ->
  exists e, transition S w op Running = Err e.
Proof.
  intros Hp Hn. destruct (transition S w op Running) eqn:T; [|eauto].
  apply transition_ok in T. destruct T as [_ [P _]]. specialize (P eq_refl).
  rewrite parents_complete_spec in P. specialize (P p Hp). contradiction.
Qed.

Lemma bad_start_rejected_dep S w op p :
  st_of w op = Assigned -> In p (op_parents S op) -> st_of w p <> Completed ->
  transition S w op Running = Err EDep.
Proof.
  intros Ha Hp Hn. destruct (transition S w op Running) eqn:T.
  - apply transition_ok in T. destruct T as [_ [P _]]. specialize (P eq_refl).
    rewrite parents_complete_spec in P. specialize (P p Hp). contradiction.
  - apply transition_err in T. destruct T as [[-> V]|[-> _]]; [|reflexivity].
    rewrite Ha in V. discriminate.
Qed.
