(* Float-faithful bounds (cf_rnd = rnd64) for C04 and C11.
   A. one incremental update  c' = rnd (c + rnd (new - old))  and sequences of them: the drift between
      the tracked value and the exact sum after k updates;
   B. Python's compensated sum() (py_sum, Neumaier) with rounding: error of a reconcile;
   C. the pool model: drift of p_consumed over ticks in which no container leaves, reconcile ticks;
   D. the OOM score  rnd (m * rnd (m / r)): order faithfulness with an explicit relative gap;
   E. closed numeric examples.
   A, B and C only use the relative error bound of the rounding ([rel_rnd]: |rnd x - x| <= |x| * 2^-53,
   which rnd64 satisfies: rnd64_err); D also uses monotonicity (rnd64_mono). *)
From Coq Require Import ZArith QArith Qabs List Bool Arith Lia Lqa Psatz Sorting.Sorted Sorting.Permutation.
Import ListNotations.
Close Scope Q_scope.
Close Scope Z_scope.
From Eudoxia Require Import Num.Rnd64 Model.Types Model.Dag Model.Lifecycle Model.Container Model.Pool
  Proofs.ListFacts Proofs.Rnd64Facts Proofs.LifecycleFacts Proofs.OomFacts Proofs.MemoryFacts.
Local Open Scope Q_scope.

(* ====================================================================== *)
(* 0. preliminaries                                                       *)
(* ====================================================================== *)

(* the unit roundoff of binary64 *)
Definition u53 : Q := 1 # 9007199254740992.

(* a rounding with relative error at most 2^-53 *)
Definition rel_rnd (rnd : Q -> Q) : Prop := forall x, Qabs (rnd x - x) <= Qabs x * u53.

Lemma rel_rnd_rnd64 : rel_rnd rnd64.
Proof. intros x. apply rnd64_err. Qed.

Lemma rel_rnd_ext (rnd : Q -> Q) : (forall x, rnd x == rnd64 x) -> rel_rnd rnd.
Proof. intros E x. rewrite (E x). apply rnd64_err. Qed.

Lemma rel_rnd_id (rnd : Q -> Q) : (forall x, rnd x == x) -> rel_rnd rnd.
Proof.
  intros E x. rewrite (E x). setoid_replace (x - x) with 0 by ring. cbn [Qabs Z.abs Qnum Qden].
  apply Qmult_le_0_compat; [apply Qabs_nonneg | unfold u53; lra].
Qed.

Lemma Qabs_bnd x : - Qabs x <= x /\ x <= Qabs x.
Proof.
  split; [|apply Qle_Qabs]. pose proof (Qle_Qabs (- x)) as H. rewrite Qabs_opp in H. lra.
Qed.

Lemma Qabs_le_iff x y : Qabs x <= y <-> - y <= x /\ x <= y.
Proof. apply Qabs_Qle_condition. Qed.

(* |z| <= b in the context as two linear facts; a goal |z| <= b as two linear goals *)
Ltac abs_hyp H := apply Qabs_le_iff in H; destruct H as [? ?].
Ltac abs_goal := apply Qabs_le_iff; split.
Ltac abs_atom z := pose proof (Qabs_bnd z) as [? ?]; pose proof (Qabs_nonneg z).

(* natural numbers as rationals *)
Definition nQ (k : nat) : Q := inject_Z (Z.of_nat k).

Lemma nQ_S k : nQ (S k) == nQ k + 1.
Proof. unfold nQ. rewrite Nat2Z.inj_succ, <- Z.add_1_r, inject_Z_plus. reflexivity. Qed.

Lemma nQ_0 : nQ 0 == 0.
Proof. reflexivity. Qed.

Lemma nQ_nonneg k : 0 <= nQ k.
Proof. unfold nQ. change 0 with (inject_Z 0). rewrite <- Zle_Qle. lia. Qed.

Lemma nQ_le a b : (a <= b)%nat -> nQ a <= nQ b.
Proof. intros H. unfold nQ. rewrite <- Zle_Qle. lia. Qed.

Lemma nQ_add a b : nQ (a + b) == nQ a + nQ b.
Proof. unfold nQ. rewrite Nat2Z.inj_add, inject_Z_plus. reflexivity. Qed.

Lemma nQ_leZ k z : (Z.of_nat k <= z)%Z -> nQ k <= inject_Z z.
Proof. intros H. unfold nQ. rewrite <- Zle_Qle. exact H. Qed.

Lemma Qmult_le_nonneg_l z x y : 0 <= z -> x <= y -> z * x <= z * y.
Proof. intros Hz H. rewrite (Qmult_comm z x), (Qmult_comm z y). apply Qmult_le_compat_r; assumption. Qed.

Definition sumabs (l : list Q) : Q := sumQ (map Qabs l).

Lemma sumabs_nonneg l : 0 <= sumabs l.
Proof.
  unfold sumabs. apply sumQ_nonneg. intros x Hx. apply in_map_iff in Hx.
  destruct Hx as (y & <- & _). apply Qabs_nonneg.
Qed.

Lemma sumQ_abs_le l : Qabs (sumQ l) <= sumabs l.
Proof.
  unfold sumabs. induction l as [|x t IH]; cbn [map sumQ]; [apply Qabs_le_iff; lra|].
  eapply Qle_trans; [apply Qabs_triangle|]. lra.
Qed.

Lemma sumabs_bound M l : (forall x, In x l -> Qabs x <= M) -> sumabs l <= nQ (length l) * M.
Proof.
  unfold sumabs. induction l as [|x t IH]; intros H.
  - cbn [map sumQ length]. change (nQ 0) with 0. lra.
  - cbn [map sumQ length]. rewrite nQ_S.
    assert (H1 : Qabs x <= M) by (apply H; left; reflexivity).
    assert (H2 : sumQ (map Qabs t) <= nQ (length t) * M) by (apply IH; intros y Hy; apply H; right; exact Hy).
    lra.
Qed.

(* ====================================================================== *)
(* A. incremental updates                                                 *)
(* ====================================================================== *)

(* set_current_memory_usage as seen by the pool: consumed += new - old, two float operations *)
Definition upd (rnd : Q -> Q) (c old new : Q) : Q := rnd (c + rnd (new - old)).

(* (1 + 2^-53)^k *)
Fixpoint pw (k : nat) : Q := match k with O => 1 | S k' => (1 + u53) * pw k' end.

(* the drift bound after k updates: start error D0, G bounds (exact sum + 2 values (1 + 2^-53)) *)
Definition dbound (D0 G : Q) (k : nat) : Q := pw k * D0 + (pw k - 1) * G.

Lemma pw_ge1 k : 1 <= pw k.
Proof. induction k as [|k IH]; cbn [pw]; [lra|]. unfold u53 in *. nra. Qed.

Lemma pw_S_le k : pw k <= pw (S k).
Proof. pose proof (pw_ge1 k). cbn [pw]. unfold u53. nra. Qed.

Lemma pw_mono a b : (a <= b)%nat -> pw a <= pw b.
Proof.
  induction 1 as [|b H IH]; [lra|]. eapply Qle_trans; [exact IH | apply pw_S_le].
Qed.

Lemma dbound_S D0 G k : dbound D0 G (S k) == (1 + u53) * dbound D0 G k + u53 * G.
Proof. unfold dbound. cbn [pw]. ring. Qed.

Lemma dbound_0 D0 G : dbound D0 G 0 == D0.
Proof. unfold dbound. cbn [pw]. ring. Qed.

Lemma dbound_mono D0 G a b : 0 <= D0 -> 0 <= G -> (a <= b)%nat -> dbound D0 G a <= dbound D0 G b.
Proof.
  intros HD HG H. pose proof (pw_mono a b H) as P. unfold dbound.
  assert (pw a * D0 <= pw b * D0) by (apply Qmult_le_compat_r; assumption).
  assert ((pw a - 1) * G <= (pw b - 1) * G) by (apply Qmult_le_compat_r; [lra | assumption]).
  lra.
Qed.

Lemma dbound_nonneg D0 G k : 0 <= D0 -> 0 <= G -> 0 <= dbound D0 G k.
Proof.
  intros HD HG. pose proof (pw_ge1 k). unfold dbound.
  assert (0 <= pw k * D0) by (apply Qmult_le_0_compat; lra).
  assert (0 <= (pw k - 1) * G) by (apply Qmult_le_0_compat; lra).
  lra.
Qed.

(* (1 + 2^-53)^k <= 1 + k 2^-52 for k <= 2^52 *)
Lemma pw_lin k : (Z.of_nat k <= 4503599627370496)%Z -> pw k <= 1 + nQ k * (1 # 4503599627370496).
Proof.
  induction k as [|k IH]; intros Hk.
  - cbn [pw]. change (nQ 0) with 0. lra.
  - assert (Hk' : (Z.of_nat k <= 4503599627370496)%Z) by lia.
    specialize (IH Hk'). pose proof (nQ_leZ k _ Hk') as Hq. pose proof (nQ_nonneg k).
    cbn [pw]. rewrite nQ_S. unfold u53.
    change (inject_Z 4503599627370496) with (4503599627370496 # 1) in Hq. nra.
Qed.

(* the linear form of the drift bound *)
Lemma dbound_lin D0 G k : 0 <= D0 -> 0 <= G -> (Z.of_nat k <= 4503599627370496)%Z ->
  dbound D0 G k <= D0 * (1 + nQ k * (1 # 4503599627370496)) + nQ k * G * (1 # 4503599627370496).
Proof.
  intros HD HG Hk. pose proof (pw_lin k Hk) as P. unfold dbound.
  assert (pw k * D0 <= (1 + nQ k * (1 # 4503599627370496)) * D0) by (apply Qmult_le_compat_r; assumption).
  assert ((pw k - 1) * G <= (nQ k * (1 # 4503599627370496)) * G) by (apply Qmult_le_compat_r; [lra | assumption]).
  lra.
Qed.

Section Updates.
Variable rnd : Q -> Q.
Hypothesis RR : rel_rnd rnd.

(* one update: e is the exact value tracked by c, D the drift so far, M bounds the two memory values,
   S bounds the new exact value *)
Lemma upd_step c e old new D M S :
  Qabs (c - e) <= D -> Qabs old <= M -> Qabs new <= M -> Qabs (e + (new - old)) <= S ->
  Qabs (upd rnd c old new - (e + (new - old))) <= (1 + u53) * D + u53 * (S + 2 * M + 2 * M * u53).
Proof.
  intros HD Ho Hn HS. unfold upd.
  pose proof (RR (new - old)) as R1. set (rd := rnd (new - old)) in *.
  pose proof (RR (c + rd)) as R2. set (r := rnd (c + rd)) in *.
  abs_hyp HD. abs_hyp Ho. abs_hyp Hn. abs_hyp HS.
  assert (A1 : Qabs (new - old) <= 2 * M) by (abs_goal; lra).
  assert (B1 : Qabs (rd - (new - old)) <= 2 * M * u53).
  { eapply Qle_trans; [exact R1|]. apply Qmult_le_compat_r; [exact A1 | unfold u53; lra]. }
  abs_hyp B1.
  assert (A2 : Qabs (c + rd) <= D + S + 2 * M * u53) by (abs_goal; lra).
  assert (B2 : Qabs (r - (c + rd)) <= (D + S + 2 * M * u53) * u53).
  { eapply Qle_trans; [exact R2|]. apply Qmult_le_compat_r; [exact A2 | unfold u53; lra]. }
  abs_hyp B2. unfold u53 in *. abs_goal; lra.
Qed.

(* the same with the drift bound indexed by the number of updates *)
Lemma upd_step_dbound c e old new D0 M S G k :
  S + 2 * M + 2 * M * u53 <= G ->
  Qabs (c - e) <= dbound D0 G k -> Qabs old <= M -> Qabs new <= M -> Qabs (e + (new - old)) <= S ->
  Qabs (upd rnd c old new - (e + (new - old))) <= dbound D0 G (Datatypes.S k).
Proof.
  intros HG HD Ho Hn HS. rewrite dbound_S.
  eapply Qle_trans; [exact (upd_step _ _ _ _ _ _ _ HD Ho Hn HS)|]. unfold u53 in *. lra.
Qed.

(* a sequence of updates (old, new) *)
Fixpoint run_f (c : Q) (l : list (Q * Q)) : Q :=
  match l with [] => c | (o, n) :: t => run_f (upd rnd c o n) t end.
Fixpoint run_e (e : Q) (l : list (Q * Q)) : Q :=
  match l with [] => e | (o, n) :: t => run_e (e + (n - o)) t end.
(* all values bounded by M, every exact value along the way by S *)
Fixpoint steps_ok (M S e : Q) (l : list (Q * Q)) : Prop :=
  match l with
  | [] => True
  | (o, n) :: t => Qabs o <= M /\ Qabs n <= M /\ Qabs (e + (n - o)) <= S /\ steps_ok M S (e + (n - o)) t
  end.

Lemma drift_seq_dbound M S G D0 : S + 2 * M + 2 * M * u53 <= G ->
  forall l c e k, steps_ok M S e l -> Qabs (c - e) <= dbound D0 G k ->
  Qabs (run_f c l - run_e e l) <= dbound D0 G (k + length l).
Proof.
  intros HG. induction l as [|[o n] t IH]; intros c e k Hok HD.
  - cbn [run_f run_e length]. rewrite Nat.add_0_r. exact HD.
  - cbn [run_f run_e length]. destruct Hok as (Ho & Hn & HS & Hok).
    rewrite Nat.add_succ_r, <- Nat.add_succ_l. apply IH; [exact Hok|].
    exact (upd_step_dbound _ _ _ _ _ _ _ _ _ HG HD Ho Hn HS).
Qed.

(* T1, abstract form: k = length l updates from a value with error at most D0 *)
Theorem drift_seq M S D0 l c e :
  0 <= M -> 0 <= S -> 0 <= D0 ->
  (Z.of_nat (length l) <= 4503599627370496)%Z ->
  steps_ok M S e l -> Qabs (c - e) <= D0 ->
  Qabs (run_f c l - run_e e l) <=
    D0 * (1 + nQ (length l) * (1 # 4503599627370496)) +
    nQ (length l) * (S + 3 * M) * (1 # 4503599627370496).
Proof.
  intros HM HS HD Hk Hok H0.
  assert (HG : S + 2 * M + 2 * M * u53 <= S + 3 * M) by (unfold u53; lra).
  assert (H0' : Qabs (c - e) <= dbound D0 (S + 3 * M) 0) by (rewrite dbound_0; exact H0).
  pose proof (drift_seq_dbound M S _ D0 HG l c e 0%nat Hok H0') as H. cbn [Nat.add] in H.
  eapply Qle_trans; [exact H|]. apply dbound_lin; [exact HD | lra | exact Hk].
Qed.

End Updates.

(* ====================================================================== *)
(* D. the OOM score with its two float operations                         *)
(* ====================================================================== *)

(* consumption_percent = consumption_gb / allocation; score = consumption_gb * consumption_percent *)
Definition score_f (m r : Q) : Q := rnd64 (m * rnd64 (m / r)).
(* the same number in exact arithmetic *)
Definition score_e (m r : Q) : Q := m * (m / r).
Definition score_x (c : container) : Q := score_e (c_mem c) (c_ram c).

(* relative gaps: 2/(2^53-1) keeps the order (weakly), 5 * 2^-53 keeps it strictly *)
Definition gap_weak : Q := 2 # 9007199254740991.
Definition gap_strict : Q := 5 # 9007199254740992.

Lemma score_float C c :
  (forall x, cf_rnd C x == rnd64 x) -> score C c == score_f (c_mem c) (c_ram c).
Proof.
  intros E. unfold score, score_f. rewrite (E _). apply rnd64_proper.
  apply Qmult_comp; [reflexivity | apply E].
Qed.

Lemma rnd64_rel_nonneg x : 0 <= x -> x * (1 - u53) <= rnd64 x /\ rnd64 x <= x * (1 + u53).
Proof.
  intros Hx. pose proof (rnd64_err x) as H. rewrite (Qabs_pos x Hx) in H.
  fold u53 in H. abs_hyp H. unfold u53 in *. split; lra.
Qed.

Lemma Qdiv_pos a b : 0 < a -> 0 < b -> 0 < a / b.
Proof. intros Ha Hb. apply Qlt_shift_div_l; [exact Hb | lra]. Qed.

Lemma score_e_pos m r : 0 < m -> 0 < r -> 0 < score_e m r.
Proof.
  intros Hm Hr. unfold score_e. pose proof (Qdiv_pos m r Hm Hr).
  apply Qmult_lt_0_compat; assumption.
Qed.

(* the product before the last rounding is within one rounding of the exact score *)
Lemma score_inner m r : 0 < m -> 0 < r ->
  score_e m r * (1 - u53) <= m * rnd64 (m / r) /\ m * rnd64 (m / r) <= score_e m r * (1 + u53) /\
  0 <= m * rnd64 (m / r).
Proof.
  intros Hm Hr. pose proof (Qdiv_pos m r Hm Hr) as Hq.
  destruct (rnd64_rel_nonneg (m / r)) as [L U]; [lra|].
  assert (L' : m * (m / r * (1 - u53)) <= m * rnd64 (m / r)) by (apply Qmult_le_nonneg_l; [lra | exact L]).
  assert (U' : m * rnd64 (m / r) <= m * (m / r * (1 + u53))) by (apply Qmult_le_nonneg_l; [lra | exact U]).
  unfold score_e. split; [|split].
  - eapply Qle_trans; [|exact L']. apply Qle_lteq. right. ring.
  - eapply Qle_trans; [exact U'|]. apply Qle_lteq. right. ring.
  - eapply Qle_trans; [|exact L'].
    apply Qmult_le_0_compat; [lra|]. apply Qmult_le_0_compat; [lra | unfold u53; lra].
Qed.

Lemma score_f_bounds m r : 0 < m -> 0 < r ->
  score_e m r * ((1 - u53) * (1 - u53)) <= score_f m r /\
  score_f m r <= score_e m r * ((1 + u53) * (1 + u53)).
Proof.
  intros Hm Hr. destruct (score_inner m r Hm Hr) as (L & U & N).
  destruct (rnd64_rel_nonneg _ N) as [L2 U2]. fold (score_f m r) in L2, U2.
  pose proof (score_e_pos m r Hm Hr). unfold u53 in *. split; nra.
Qed.

(* T2: scores whose exact values are apart by the relative gap 2/(2^53-1) are not reordered *)
Theorem score_order_weak m1 r1 m2 r2 :
  0 < m1 -> 0 < r1 -> 0 < m2 -> 0 < r2 ->
  score_e m1 r1 * (1 + gap_weak) <= score_e m2 r2 -> score_f m1 r1 <= score_f m2 r2.
Proof.
  intros Hm1 Hr1 Hm2 Hr2 H. unfold score_f. apply rnd64_mono.
  destruct (score_inner m1 r1 Hm1 Hr1) as (_ & U & _).
  destruct (score_inner m2 r2 Hm2 Hr2) as (L & _ & _).
  unfold gap_weak, u53 in *. lra.
Qed.

(* ... and with the gap 5 * 2^-53 the float scores are strictly ordered *)
Theorem score_order_strict m1 r1 m2 r2 :
  0 < m1 -> 0 < r1 -> 0 < m2 -> 0 < r2 ->
  score_e m1 r1 * (1 + gap_strict) <= score_e m2 r2 -> score_f m1 r1 < score_f m2 r2.
Proof.
  intros Hm1 Hr1 Hm2 Hr2 H.
  destruct (score_f_bounds m1 r1 Hm1 Hr1) as (_ & U).
  destruct (score_f_bounds m2 r2 Hm2 Hr2) as (L & _).
  pose proof (score_e_pos m1 r1 Hm1 Hr1).
  unfold gap_strict, u53 in *. lra.
Qed.

(* exact monotonicity facts: same allocation, more memory -> the float score does not decrease;
   same memory, larger allocation -> it does not increase *)
Theorem score_f_mono_mem m1 m2 r : 0 <= m1 -> m1 <= m2 -> 0 < r -> score_f m1 r <= score_f m2 r.
Proof.
  intros H1 H12 Hr. unfold score_f. apply rnd64_mono.
  assert (Hi : 0 <= / r) by (apply Qinv_le_0_compat; lra).
  assert (Hd : m1 / r <= m2 / r) by (unfold Qdiv; apply Qmult_le_compat_r; assumption).
  assert (Hd0 : 0 <= m1 / r) by (unfold Qdiv; apply Qmult_le_0_compat; assumption).
  pose proof (rnd64_mono _ _ Hd) as Hq. pose proof (rnd64_nonneg _ Hd0) as Hq0.
  eapply Qle_trans; [apply (Qmult_le_nonneg_l m1 _ _ H1 Hq)|].
  apply Qmult_le_compat_r; [exact H12 | lra].
Qed.

Theorem score_f_anti_ram m r1 r2 : 0 <= m -> 0 < r1 -> r1 <= r2 -> score_f m r2 <= score_f m r1.
Proof.
  intros Hm H1 H12. unfold score_f. apply rnd64_mono. apply Qmult_le_nonneg_l; [exact Hm|].
  apply rnd64_mono. apply Qle_shift_div_r; [lra|].
  assert (Hd0 : 0 <= m / r1).
  { unfold Qdiv. apply Qmult_le_0_compat; [exact Hm | apply Qinv_le_0_compat; lra]. }
  assert (E : m == m / r1 * r1) by (field; lra).
  rewrite E at 1. apply Qmult_le_nonneg_l; assumption.
Qed.

(* a candidate of the pool-level loop (after step 1) has a positive allocation *)
Lemma scorable_after_step1 act s :
  In s (map (kill_when over_limit) act) -> scorable s = true -> 0 < c_mem s /\ 0 < c_ram s.
Proof.
  intros Hs Ss. apply scorable_spec in Ss. destruct Ss as [Hc Hm].
  destruct (in_map_kill_when_alive _ _ _ Hs Hc) as [_ Ho].
  apply Qltb_false in Ho. split; [exact Hm | lra].
Qed.

(* C11 in the float-faithful model: no candidate survives a victim while its exact score is larger by
   more than the relative gap 5 * 2^-53 *)
Theorem float_no_survivor_clearly_above C max w cons act w' cons' act' :
  (forall x, cf_rnd C x == rnd64 x) ->
  NoDup (map c_id act) ->
  oom_killer C max w cons act = Ok (w', cons', act') ->
  exists w1 cons1 act1,
    kill_over_limit C w cons act = Ok (w1, cons1, act1) /\
    forall v s, In v act1 -> In s act1 -> scorable s = true ->
      In (c_id v) (ids_killed act1 act') -> ~ In (c_id s) (ids_killed act1 act') ->
      0 < score_x v /\ score_x s < score_x v * (1 + gap_strict).
Proof.
  intros E ND H.
  destruct (oom_killer_spec _ _ _ _ _ _ _ _ ND H)
    as (w1 & cons1 & act1 & k & vs & K1 & E1 & _ & Hids & _ & Hkilled & Hvs & Htop & _).
  exists w1, cons1, act1. split; [exact K1|].
  intros v s Hv Hs Ss Hvk Hsk.
  assert (ND1 : NoDup (map c_id act1)) by (rewrite E1, map_kill_when_ids; exact ND).
  apply Hkilled in Hvk. rewrite <- Hids in Hvk. apply in_map_iff in Hvk.
  destruct Hvk as (v' & Eid & Hv').
  rewrite Forall_forall in Hvs. destruct (Hvs v' Hv') as [Hv'1 Sv].
  assert (Ev : v' = v) by (apply (NoDup_ids_inj act1); auto). subst v'.
  destruct (Htop v s Hv' Hs Ss Hsk) as [Hle _].
  rewrite E1 in Hv, Hs.
  destruct (scorable_after_step1 _ _ Hv Sv) as [Mv Rv].
  destruct (scorable_after_step1 _ _ Hs Ss) as [Ms Rs].
  split; [apply score_e_pos; assumption|].
  apply Qnot_le_lt. intros Hgap.
  pose proof (score_order_strict _ _ _ _ Mv Rv Ms Rs Hgap) as Hlt.
  rewrite (score_float C s E), (score_float C v E) in Hle. lra.
Qed.

(* the candidate order itself: a candidate whose exact score is larger by the gap comes first *)
Lemma sorted_desc_before (l : list (Q * nat)) : StronglySorted desc l ->
  forall a b, In a l -> In b l -> fst b < fst a ->
  exists l1 l2 l3, l = l1 ++ a :: l2 ++ b :: l3.
Proof.
  induction 1 as [|x t St IH Fx]; intros a b Ha Hb Hlt; [destruct Ha|].
  rewrite Forall_forall in Fx.
  destruct Ha as [->|Ha].
  - destruct Hb as [->|Hb]; [lra|].
    apply in_split in Hb. destruct Hb as (l2 & l3 & ->). exists [], l2, l3. reflexivity.
  - destruct Hb as [->|Hb].
    + specialize (Fx a Ha). unfold desc in Fx. lra.
    + destruct (IH a b Ha Hb Hlt) as (l1 & l2 & l3 & ->). exists (x :: l1), l2, l3. reflexivity.
Qed.

Theorem float_order_clearly_above_first C act v s :
  (forall x, cf_rnd C x == rnd64 x) ->
  In v act -> In s act -> scorable v = true -> scorable s = true ->
  0 < c_ram v -> 0 < c_ram s ->
  score_x v * (1 + gap_strict) <= score_x s ->
  exists l1 l2 l3, victims_order C act = l1 ++ c_id s :: l2 ++ c_id v :: l3.
Proof.
  intros E Hv Hs Sv Ss Rv Rs Hgap.
  pose proof (proj1 (scorable_spec v) Sv) as [_ Mv].
  pose proof (proj1 (scorable_spec s) Ss) as [_ Ms].
  pose proof (score_order_strict _ _ _ _ Mv Rv Ms Rs Hgap) as Hlt.
  rewrite <- (score_float C s E), <- (score_float C v E) in Hlt.
  assert (Iv : In (score C v, c_id v) (scored C act)) by (apply scored_In; exists v; auto).
  assert (Is : In (score C s, c_id s) (scored C act)) by (apply scored_In; exists s; auto).
  assert (St : StronglySorted desc (scored C act)) by apply sort_desc_sorted.
  destruct (sorted_desc_before _ St _ _ Is Iv Hlt) as (l1 & l2 & l3 & El).
  exists (map snd l1), (map snd l2), (map snd l3).
  rewrite victims_order_scored, El, map_app. cbn [map snd]. rewrite map_app. reflexivity.
Qed.

(* ====================================================================== *)
(* B. Python's sum() (Neumaier) with rounding                             *)
(* ====================================================================== *)

(* The analysis uses only the relative error of each rounding. It does not use the exactness of the
   error-free transformation (f - t) + x, so the compensation is credited with one rounding error per
   item (|x| 2^-53) instead of none; the result is still independent of the number of items:
   |py_sum l - sum l| <= 2^-53 (|sum l| + (1 + 2^-10) sum |l_i|)   for up to 2^20 items. *)

Definition NN : Q := 1048576.                 (* 2^20 *)
Definition KK : Q := 4 * NN + 8.

(* f, c: the state of the loop; s, a: exact sum and sum of absolute values of the items consumed;
   b: the sum of the values a took; j: the number of items consumed *)
Definition ninv (f c s a b : Q) (j : nat) : Prop :=
  Qabs s <= a /\ a <= b /\ b <= nQ j * a /\
  Qabs c <= 4 * u53 * b /\
  Qabs (f + c - s) <= u53 * a + KK * u53 * u53 * b.

Section Neumaier.
Variable rnd : Q -> Q.
Hypothesis RR : rel_rnd rnd.

Lemma RR_le x B : Qabs x <= B -> Qabs (rnd x - x) <= B * u53.
Proof.
  intros H. eapply Qle_trans; [apply RR|]. apply Qmult_le_compat_r; [exact H | unfold u53; lra].
Qed.

(* the arithmetic of one step, both branches: d1..d4 are the four rounding errors *)
Lemma neumaier_arith f c s a b x ax j d1 d2 d3 d4 :
  ninv f c s a b j -> nQ j <= NN - 1 ->
  - ax <= x -> x <= ax ->
  Qabs d1 <= (a + ax) * (1 + (1 # 1073741824)) * u53 ->
  Qabs d2 <= (ax + Qabs d1) * u53 ->
  Qabs d3 <= (Qabs d1 + Qabs d2) * u53 ->
  Qabs d4 <= (Qabs c + (Qabs d1 + Qabs d2 + Qabs d3)) * u53 ->
  ninv (f + x + d1) (c + (- d1 + d2 + d3) + d4) (s + x) (a + ax) (b + (a + ax)) (S j).
Proof.
  intros (Is & Iab & Ib & Ic & Ie) Hj Hx1 Hx2 H1 H2 H3 H4.
  assert (Hbn : b <= (NN - 1) * a).
  { eapply Qle_trans; [exact Ib|]. apply Qmult_le_compat_r; [exact Hj|].
    pose proof (Qabs_nonneg s). lra. }
  assert (Hja : nQ j * a <= nQ j * (a + ax)).
  { apply Qmult_le_nonneg_l; [apply nQ_nonneg | lra]. }
  pose proof (Qabs_nonneg s) as Hs0.
  pose proof (Qabs_nonneg c) as Hc0.
  pose proof (Qabs_nonneg d1) as Hd10. pose proof (Qabs_nonneg d2) as Hd20.
  pose proof (Qabs_nonneg d3) as Hd30.
  unfold ninv. rewrite nQ_S.
  set (A1 := Qabs d1) in *. set (A2 := Qabs d2) in *. set (A3 := Qabs d3) in *.
  set (AC := Qabs c) in *.
  assert (Hd1 := Qabs_bnd d1). assert (Hd2 := Qabs_bnd d2). assert (Hd3 := Qabs_bnd d3).
  assert (Hcb := Qabs_bnd c). fold A1 in Hd1. fold A2 in Hd2. fold A3 in Hd3. fold AC in Hcb.
  destruct Hd1, Hd2, Hd3, Hcb.
  abs_hyp Is. abs_hyp Ie. abs_hyp H4.
  unfold KK, NN, u53 in *.
  split; [abs_goal; lra|]. split; [lra|]. split; [lra|].
  split; abs_goal; lra.
Qed.

(* one step of the loop keeps the invariant *)
Lemma neumaier_step_inv f c s a b j x f' c' :
  ninv f c s a b j -> nQ j <= NN - 1 ->
  neumaier_step rnd (f, c) x = (f', c') ->
  ninv f' c' (s + x) (a + Qabs x) (b + (a + Qabs x)) (S j).
Proof.
  intros I Hj Hst. pose proof I as (Is & Iab & Ib & Ic & Ie).
  assert (Hbn : b <= (NN - 1) * a).
  { eapply Qle_trans; [exact Ib|]. apply Qmult_le_compat_r; [exact Hj|].
    pose proof (Qabs_nonneg s). lra. }
  destruct (Qabs_bnd x) as [Hx1 Hx2]. pose proof (Qabs_nonneg x) as Hx0.
  set (ax := Qabs x) in *.
  (* |f| and |f + x| *)
  assert (Hf : Qabs f <= a * (1 + (1 # 1073741824))).
  { pose proof (Qabs_nonneg s). abs_hyp Is. abs_hyp Ic. abs_hyp Ie.
    unfold KK, NN, u53 in *. abs_goal; lra. }
  assert (Hfx : Qabs (f + x) <= (a + ax) * (1 + (1 # 1073741824))).
  { abs_hyp Hf. abs_goal; lra. }
  unfold neumaier_step in Hst.
  set (t := rnd (f + x)) in *. set (d1 := t - (f + x)).
  assert (H1 : Qabs d1 <= (a + ax) * (1 + (1 # 1073741824)) * u53) by (apply RR_le; exact Hfx).
  destruct (Qabs_bnd d1) as [Hd1a Hd1b].
  destruct (Qleb (Qabs x) (Qabs f)) eqn:Br.
  - (* |x| <= |f| *)
    set (y1 := rnd (f - t)) in *. set (d2 := y1 - (f - t)).
    set (y2 := rnd (y1 + x)) in *. set (d3 := y2 - (y1 + x)).
    set (d4 := rnd (c + y2) - (c + y2)).
    assert (H2 : Qabs d2 <= (ax + Qabs d1) * u53).
    { apply RR_le. unfold d1 in *. abs_goal; lra. }
    destruct (Qabs_bnd d2) as [Hd2a Hd2b].
    assert (H3 : Qabs d3 <= (Qabs d1 + Qabs d2) * u53).
    { apply RR_le. unfold d2, d1 in *. abs_goal; lra. }
    destruct (Qabs_bnd d3) as [Hd3a Hd3b].
    assert (H4 : Qabs d4 <= (Qabs c + (Qabs d1 + Qabs d2 + Qabs d3)) * u53).
    { apply RR_le. destruct (Qabs_bnd c). unfold d3, d2, d1 in *. abs_goal; lra. }
    pose proof (neumaier_arith f c s a b x ax j d1 d2 d3 d4 I Hj Hx1 Hx2 H1 H2 H3 H4) as R.
    inversion Hst; subst f' c'.
    destruct R as (R1 & R2 & R3 & R4 & R5). unfold ninv.
    split; [exact R1|]. split; [exact R2|]. split; [exact R3|].
    assert (Et : t == f + x + d1) by (unfold d1; ring).
    assert (Ec : rnd (c + y2) == c + (- d1 + d2 + d3) + d4) by (unfold d4, d3, d2, d1; ring).
    split.
    + rewrite Ec. exact R4.
    + rewrite Et, Ec. exact R5.
  - (* |f| < |x| *)
    assert (Hfx' : Qabs f <= ax).
    { unfold Qleb in Br. apply Qle_bool_false in Br. fold ax in Br. lra. }
    set (y1 := rnd (x - t)) in *. set (d2 := y1 - (x - t)).
    set (y2 := rnd (y1 + f)) in *. set (d3 := y2 - (y1 + f)).
    set (d4 := rnd (c + y2) - (c + y2)).
    assert (H2 : Qabs d2 <= (ax + Qabs d1) * u53).
    { apply RR_le. abs_hyp Hfx'. unfold d1 in *. abs_goal; lra. }
    destruct (Qabs_bnd d2) as [Hd2a Hd2b].
    assert (H3 : Qabs d3 <= (Qabs d1 + Qabs d2) * u53).
    { apply RR_le. unfold d2, d1 in *. abs_goal; lra. }
    destruct (Qabs_bnd d3) as [Hd3a Hd3b].
    assert (H4 : Qabs d4 <= (Qabs c + (Qabs d1 + Qabs d2 + Qabs d3)) * u53).
    { apply RR_le. destruct (Qabs_bnd c). unfold d3, d2, d1 in *. abs_goal; lra. }
    pose proof (neumaier_arith f c s a b x ax j d1 d2 d3 d4 I Hj Hx1 Hx2 H1 H2 H3 H4) as R.
    inversion Hst; subst f' c'.
    destruct R as (R1 & R2 & R3 & R4 & R5). unfold ninv.
    split; [exact R1|]. split; [exact R2|]. split; [exact R3|].
    assert (Et : t == f + x + d1) by (unfold d1; ring).
    assert (Ec : rnd (c + y2) == c + (- d1 + d2 + d3) + d4) by (unfold d4, d3, d2, d1; ring).
    split.
    + rewrite Ec. exact R4.
    + rewrite Et, Ec. exact R5.
Qed.

Lemma neumaier_fold_inv : forall t f c s a b j f' c',
  ninv f c s a b j -> (Z.of_nat (j + length t) <= 1048576)%Z ->
  fold_left (neumaier_step rnd) t (f, c) = (f', c') ->
  exists b', ninv f' c' (s + sumQ t) (a + sumabs t) b' (j + length t).
Proof.
  induction t as [|x t IH]; intros f c s a b j f' c' I Hn H.
  - cbn in H. inversion H; subst. exists b. cbn [sumQ length]. unfold sumabs. cbn [map sumQ].
    rewrite Nat.add_0_r. destruct I as (I1 & I2 & I3 & I4 & I5). unfold ninv.
    setoid_replace (s + 0) with s by ring. setoid_replace (a + 0) with a by ring. auto.
  - cbn [fold_left] in H.
    destruct (neumaier_step rnd (f, c) x) as [f1 c1] eqn:St.
    cbn [length] in Hn.
    assert (Hj : nQ j <= NN - 1).
    { unfold NN. assert (Hz : (Z.of_nat j <= 1048575)%Z) by lia.
      apply nQ_leZ in Hz. change (inject_Z 1048575) with (1048575 # 1) in Hz. lra. }
    pose proof (neumaier_step_inv _ _ _ _ _ _ _ _ _ I Hj St) as I1.
    assert (Hn' : (Z.of_nat (S j + length t) <= 1048576)%Z) by (rewrite Nat.add_succ_l, <- Nat.add_succ_r; exact Hn).
    destruct (IH f1 c1 (s + x) (a + Qabs x) (b + (a + Qabs x)) (S j) f' c' I1 Hn' H) as (b' & I').
    exists b'.
    cbn [sumQ length]. unfold sumabs in *. cbn [map sumQ].
    rewrite Nat.add_succ_r, <- Nat.add_succ_l.
    destruct I' as (J1 & J2 & J3 & J4 & J5). unfold ninv.
    setoid_replace (s + (x + sumQ t)) with (s + x + sumQ t) by ring.
    setoid_replace (a + (Qabs x + sumQ (map Qabs t))) with (a + Qabs x + sumQ (map Qabs t)) by ring.
    auto.
Qed.

(* the error of a reconcile: at most 2^20 items *)
Theorem py_sum_error l :
  (Z.of_nat (length l) <= 1048576)%Z ->
  Qabs (py_sum rnd l - sumQ l) <= (Qabs (sumQ l) + (1025 # 1024) * sumabs l) * u53.
Proof.
  intros Hn. destruct l as [|x t].
  - cbn [py_sum sumQ]. unfold sumabs. cbn [map sumQ]. apply Qabs_le_iff. unfold u53. cbn. lra.
  - unfold py_sum.
    destruct (fold_left (neumaier_step rnd) t (x, 0)) as [f c] eqn:F.
    assert (I0 : ninv x 0 x (Qabs x) (Qabs x) 1).
    { unfold ninv. pose proof (Qabs_nonneg x). change (nQ 1) with 1.
      split; [lra|]. split; [lra|]. split; [lra|].
      split; [apply Qabs_le_iff; unfold u53; lra|].
      apply Qabs_le_iff. unfold KK, NN, u53. lra. }
    cbn [length] in Hn.
    destruct (neumaier_fold_inv t x 0 x (Qabs x) (Qabs x) 1%nat f c I0) as (b & I); [lia | exact F |].
    destruct I as (Is & Iab & Ib & Ic & Ie).
    assert (Ea : Qabs x + sumabs t == sumabs (x :: t)) by (unfold sumabs; cbn [map sumQ]; ring).
    assert (Es : x + sumQ t == sumQ (x :: t)) by (cbn [sumQ]; ring).
    rewrite Ea, Es in *. set (a := sumabs (x :: t)) in *. set (s := sumQ (x :: t)) in *.
    assert (Hjn : nQ (1 + length t) <= NN).
    { unfold NN. assert (Hz : (Z.of_nat (1 + length t) <= 1048576)%Z) by lia.
      apply nQ_leZ in Hz. change (inject_Z 1048576) with (1048576 # 1) in Hz. lra. }
    assert (Hbn : b <= NN * a).
    { eapply Qle_trans; [exact Ib|]. apply Qmult_le_compat_r; [exact Hjn|].
      pose proof (Qabs_nonneg s). lra. }
    pose proof (Qabs_nonneg s) as Hs0. destruct (Qabs_bnd s) as [Hs1 Hs2].
    set (AS := Qabs s) in *.
    destruct (Qeqb c 0) eqn:Ec.
    + unfold Qeqb in Ec. apply Qeq_bool_iff in Ec. rewrite Ec in Ie.
      abs_hyp Ie. unfold KK, NN, u53 in *. abs_goal; lra.
    + pose proof (RR (f + c)) as R. set (r := rnd (f + c)) in *.
      assert (Hfc : Qabs (f + c) <= AS + (u53 * a + KK * u53 * u53 * b)).
      { abs_hyp Ie. abs_goal; lra. }
      assert (R' : Qabs (r - (f + c)) <= (AS + (u53 * a + KK * u53 * u53 * b)) * u53).
      { eapply Qle_trans; [exact R|]. apply Qmult_le_compat_r; [exact Hfc | unfold u53; lra]. }
      abs_hyp R'. abs_hyp Ie. unfold KK, NN, u53 in *. abs_goal; lra.
Qed.

(* items that are all non-negative: a relative error of at most 3 * 2^-53 *)
Corollary py_sum_error_nonneg l :
  (Z.of_nat (length l) <= 1048576)%Z -> (forall x, In x l -> 0 <= x) ->
  Qabs (py_sum rnd l - sumQ l) <= sumQ l * (3 # 9007199254740992).
Proof.
  intros Hn Hp. pose proof (py_sum_error l Hn) as H.
  assert (Ea : sumabs l == sumQ l).
  { unfold sumabs. clear - Hp. induction l as [|x t IH]; cbn [map sumQ]; [reflexivity|].
    rewrite IH by (intros y Hy; apply Hp; right; exact Hy).
    rewrite Qabs_pos by (apply Hp; left; reflexivity). reflexivity. }
  assert (H0 : 0 <= sumQ l) by (apply sumQ_nonneg; exact Hp).
  rewrite Ea, (Qabs_pos _ H0) in H. unfold u53 in H. lra.
Qed.

(* The single-rounding bound. [comp_exact f c l]: along the loop the compensation absorbs the rounding
   error of every addition f + x exactly (the three roundings that update c commit no error). Then f + c is
   the exact sum at every step and the result is one rounding of it. For binary64 the first two of the three
   roundings are always exact (the error of a float addition is a float; not proved here), the third is
   exact as long as the accumulated errors fit one float. *)
Fixpoint comp_exact (f c : Q) (l : list Q) : Prop :=
  match l with
  | [] => True
  | x :: t =>
      c + (f + x - fst (neumaier_step rnd (f, c) x)) == snd (neumaier_step rnd (f, c) x) /\
      comp_exact (fst (neumaier_step rnd (f, c) x)) (snd (neumaier_step rnd (f, c) x)) t
  end.

Lemma comp_exact_fold : forall t f c f' c',
  comp_exact f c t -> fold_left (neumaier_step rnd) t (f, c) = (f', c') ->
  f' + c' == f + c + sumQ t.
Proof.
  induction t as [|x t IH]; intros f c f' c' H F.
  - cbn in F. inversion F; subst. cbn [sumQ]. ring.
  - cbn [fold_left] in F. cbn [comp_exact] in H. destruct H as [H1 H2].
    destruct (neumaier_step rnd (f, c) x) as [f1 c1]. cbn [fst snd] in H1, H2.
    rewrite (IH _ _ _ _ H2 F). cbn [sumQ]. rewrite <- H1. ring.
Qed.

Theorem py_sum_error_comp_exact x t :
  comp_exact x 0 t ->
  Qabs (py_sum rnd (x :: t) - sumQ (x :: t)) <= Qabs (sumQ (x :: t)) * u53.
Proof.
  intros H. unfold py_sum.
  destruct (fold_left (neumaier_step rnd) t (x, 0)) as [f c] eqn:F.
  pose proof (comp_exact_fold _ _ _ _ _ H F) as E.
  assert (Es : f + c == sumQ (x :: t)) by (cbn [sumQ]; rewrite E; ring).
  pose proof (Qabs_nonneg (sumQ (x :: t))) as Hs0.
  destruct (Qeqb c 0) eqn:Ec.
  - unfold Qeqb in Ec. apply Qeq_bool_iff in Ec. rewrite Ec in Es.
    assert (E0 : f - sumQ (x :: t) == 0) by (rewrite <- Es; ring).
    rewrite E0. apply Qabs_le_iff. unfold u53. split; lra.
  - rewrite <- Es. apply RR.
Qed.

End Neumaier.

(* ====================================================================== *)
(* C. the pool: drift of p_consumed                                       *)
(* ====================================================================== *)

Local Notation SM l := (sumQ (map c_mem l)).

(* every memory demand of every script is at most M in absolute value *)
Definition script_bd (C : cfg) (M : Q) : Prop :=
  forall op cpus m, In m (cf_script C op cpus) -> Qabs m <= M.

(* the current usage of a container and every usage still to come of its operator in progress *)
Definition cbd (M : Q) (c : container) : Prop :=
  Qabs (c_mem c) <= M /\ forall r, c_rest c = Some r -> forall m, In m r -> Qabs m <= M.

(* the constant of the drift bound for at most n containers with values up to M: it bounds the exact
   sum (n M) plus the two values of an update (2 M (1 + 2^-53)) *)
Definition GG (n : nat) (M : Q) : Q := (nQ n + 3) * M.

(* finished containers of a list *)
Definition ncomp (l : list container) : nat := length (filter c_completed l).

Lemma ncomp_cons c l : ncomp (c :: l) = (Nat.b2n (c_completed c) + ncomp l)%nat.
Proof. unfold ncomp. cbn [filter]. destruct (c_completed c); reflexivity. Qed.

Lemma ncomp_app l1 l2 : ncomp (l1 ++ l2) = (ncomp l1 + ncomp l2)%nat.
Proof. unfold ncomp. rewrite filter_app, app_length. reflexivity. Qed.

Lemma SM_app l1 l2 : SM (l1 ++ l2) == SM l1 + SM l2.
Proof. rewrite map_app. apply sumQ_app. Qed.

Lemma SM_abs M l : Forall (cbd M) l -> Qabs (SM l) <= nQ (length l) * M.
Proof.
  intros H. eapply Qle_trans; [apply sumQ_abs_le|].
  rewrite <- (map_length c_mem l). apply sumabs_bound.
  intros x Hx. apply in_map_iff in Hx. destruct Hx as (c & <- & Hc).
  rewrite Forall_forall in H. exact (proj1 (H c Hc)).
Qed.

Lemma find_replace_split cid act c :
  find_container cid act = Some c ->
  exists l1 l2, act = l1 ++ c :: l2 /\ replace_container (dead c) act = l1 ++ dead c :: l2.
Proof.
  intros F. pose proof (find_container_some _ _ _ F) as [_ Hid]. subst cid.
  revert F. unfold find_container. induction act as [|h t IH]; intros F; [discriminate|].
  cbn [find] in F. cbn [replace_container]. cbn [c_id dead].
  destruct (Nat.eqb (c_id h) (c_id c)).
  - inversion F; subst h. exists [], t. split; reflexivity.
  - destruct (IH F) as (l1 & l2 & E1 & E2). exists (h :: l1), l2. cbn [app]. rewrite <- E1, E2.
    split; reflexivity.
Qed.

Lemma replace_container_length c' l : length (replace_container c' l) = length l.
Proof.
  induction l as [|h t IH]; [reflexivity|]. cbn [replace_container].
  destruct (Nat.eqb (c_id h) (c_id c')); cbn [length]; [reflexivity | rewrite IH; reflexivity].
Qed.

Lemma kill_until_fits_length C max : forall order w cons act w' cons' act',
  kill_until_fits C max w cons act order = Ok (w', cons', act') -> length act' = length act.
Proof.
  induction order as [|cid t IH]; intros w cons act w' cons' act' H.
  - cbn in H. inversion H; subst. reflexivity.
  - cbn [kill_until_fits] in H. destruct (Qleb cons max).
    + inversion H; subst. reflexivity.
    + destruct (find_container cid act) as [c|]; [|discriminate].
      destruct (ckill C w cons c) as [[[w1 cons1] c1]|e]; [|discriminate].
      cbn [bind] in H. apply IH in H. rewrite H. apply replace_container_length.
Qed.

Lemma oom_killer_length C max w cons act w' cons' act' :
  oom_killer C max w cons act = Ok (w', cons', act') -> length act' = length act.
Proof.
  intros H. apply oom_killer_inv in H. destruct H as (w1 & cons1 & act1 & K1 & K2).
  apply kill_until_fits_length in K2. apply kill_over_limit_spec in K1. destruct K1 as (-> & _).
  rewrite K2. apply map_length.
Qed.

Lemma tick_active_length C act w cons w' cons' act' :
  tick_active C w cons act = Ok (w', cons', act') -> length act' = length act.
Proof.
  intros H. apply tick_active_ids in H. rewrite <- (map_length c_id act'), H. apply map_length.
Qed.

Section PoolDrift.
Variable C : cfg.
Variable M : Q.
Variable n : nat.
Variable D0 : Q.
Hypothesis RR : rel_rnd (cf_rnd C).
Hypothesis HM : 0 <= M.
Hypothesis HD0 : 0 <= D0.
Hypothesis SB : script_bd C M.

Let DB (k : nat) : Q := dbound D0 (GG n M) k.

Lemma GG_nonneg : 0 <= GG n M.
Proof. unfold GG. pose proof (nQ_nonneg n). apply Qmult_le_0_compat; lra. Qed.

Lemma DB_mono a b : (a <= b)%nat -> DB a <= DB b.
Proof. apply dbound_mono; [exact HD0 | apply GG_nonneg]. Qed.

Lemma zero_bd : Qabs 0 <= M.
Proof. apply Qabs_le_iff. lra. Qed.

(* one update of a container whose companions sum to R *)
Lemma upd_R c R old new k :
  Qabs R <= nQ n * M - M -> Qabs old <= M -> Qabs new <= M ->
  Qabs (c - (R + old)) <= DB k ->
  Qabs (upd (cf_rnd C) c old new - (R + new)) <= DB (S k).
Proof.
  intros HR Ho Hn HD.
  assert (HS : Qabs (R + old + (new - old)) <= nQ n * M).
  { abs_hyp HR. abs_hyp Hn. abs_goal; lra. }
  assert (HG : nQ n * M + 2 * M + 2 * M * u53 <= GG n M) by (unfold GG, u53; lra).
  pose proof (upd_step_dbound (cf_rnd C) RR c (R + old) old new D0 M (nQ n * M) (GG n M) k HG HD Ho Hn HS) as H.
  setoid_replace (R + new) with (R + old + (new - old)) by ring. exact H.
Qed.

Lemma ctick_rel_cbd q c q' c' : ctick_rel C q c q' c' -> cbd M c -> cbd M c'.
Proof.
  intros (_ & _ & [H|H]) [N1 N2].
  - destruct H as (_ & Em & Er & _). unfold cbd. rewrite Em, Er. split; assumption.
  - destruct H as (_ & m & rest & Hsrc & Hrest & Hmem).
    assert (Hall : forall x, In x (m :: rest) -> Qabs x <= M).
    { destruct Hsrc as [E|[op E]].
      - apply N2. exact E.
      - intros x Hx. apply (SB op (c_cpu c)). rewrite E. exact Hx. }
    split.
    + destruct Hmem as [(-> & _)|(-> & _)]; [apply Hall; left; reflexivity | apply zero_bd].
    + intros r Er x Hx. destruct Hrest as [E|[E|E]]; rewrite E in Er.
      * inversion Er; subst. apply Hall. exact Hx.
      * inversion Er; subst. apply Hall. right. exact Hx.
      * discriminate.
Qed.

(* one resume of a container: at most one update, two when it finishes *)
Lemma ctick_rel_drift cons c cons' c' R k :
  ctick_rel C cons c cons' c' -> cbd M c -> Qabs R <= nQ n * M - M ->
  Qabs (cons - (R + c_mem c)) <= DB k ->
  exists k', Qabs (cons' - (R + c_mem c')) <= DB k' /\
             (k' + Nat.b2n (c_completed c) <= k + 1 + Nat.b2n (c_completed c'))%nat.
Proof.
  intros Rel B HR HD. pose proof (ctick_rel_cbd _ _ _ _ Rel B) as B'.
  destruct B as [Bm Br]. destruct B' as [Bm' _].
  destruct Rel as (_ & _ & [H|H]).
  - destruct H as (-> & Em & _ & Ec & _). exists k. rewrite Em, Ec. split; [exact HD | lia].
  - destruct H as (Hc & m & rest & Hsrc & _ & Hmem).
    assert (Hm : Qabs m <= M).
    { destruct Hsrc as [E|[op E]].
      - apply (Br _ E). left. reflexivity.
      - apply (SB op (c_cpu c)). rewrite E. left. reflexivity. }
    destruct Hmem as [(Em & Ecs & Ec' & _)|(Em & Ecs & Ec' & _)].
    + exists (S k). rewrite Em, Ecs, Hc, Ec'. split; [|cbn; lia].
      exact (upd_R cons R (c_mem c) m k HR Bm Hm HD).
    + exists (S (S k)). rewrite Em, Ecs, Hc, Ec'. split; [|cbn; lia].
      pose proof (upd_R cons R (c_mem c) m k HR Bm Hm HD) as H1.
      exact (upd_R _ R m 0 (S k) HR Hm zero_bd H1).
Qed.

(* the sum of the other containers of a list of at most n *)
Lemma rest_bound (done t : list container) (c : container) :
  Forall (cbd M) (done ++ c :: t) -> (length (done ++ c :: t) <= n)%nat ->
  Qabs (SM done + SM t) <= nQ n * M - M.
Proof.
  intros HF HL. apply Forall_app in HF. destruct HF as [F1 F2]. inversion F2 as [|x l Fc Ft]; subst.
  assert (F : Forall (cbd M) (done ++ t)) by (apply Forall_app; split; assumption).
  pose proof (SM_abs M _ F) as H. rewrite SM_app in H.
  rewrite app_length in HL. cbn [length] in HL.
  assert (HL' : (S (length (done ++ t)) <= n)%nat) by (rewrite app_length; lia).
  apply nQ_le in HL'. rewrite nQ_S in HL'.
  assert (nQ (length (done ++ t)) * M <= (nQ n - 1) * M) by (apply Qmult_le_compat_r; [lra | exact HM]).
  lra.
Qed.

Lemma SM_mid (done t : list container) (c : container) : SM (done ++ c :: t) == (SM done + SM t) + c_mem c.
Proof. rewrite SM_app. cbn [map sumQ]. ring. Qed.

Lemma Forall_mid (done t : list container) (c c1 : container) :
  Forall (cbd M) (done ++ c :: t) -> cbd M c1 -> Forall (cbd M) (done ++ c1 :: t).
Proof.
  intros HF H1. apply Forall_app in HF. destruct HF as [F1 F2]. inversion F2; subst.
  apply Forall_app. split; [exact F1|]. constructor; assumption.
Qed.

Lemma Forall_mid_in (done t : list container) (c : container) :
  Forall (cbd M) (done ++ c :: t) -> cbd M c.
Proof.
  intros HF. apply Forall_app in HF. destruct HF as [_ F2]. inversion F2; subst. assumption.
Qed.

(* phase 4: the active containers, one after the other *)
Lemma tick_active_drift : forall act done w cons w' cons' act' k,
  tick_active C w cons act = Ok (w', cons', act') ->
  Forall (cbd M) (done ++ act) -> (length (done ++ act) <= n)%nat ->
  Qabs (cons - SM (done ++ act)) <= DB k ->
  Forall (cbd M) (done ++ act') /\
  exists k', Qabs (cons' - SM (done ++ act')) <= DB k' /\
             (k' + ncomp act <= k + length act + ncomp act')%nat.
Proof.
  induction act as [|c t IH]; intros done w cons w' cons' act' k H HF HL HD.
  - cbn in H. inversion H; subst. split; [exact HF|]. exists k. split; [exact HD | cbn; lia].
  - cbn [tick_active] in H.
    destruct (ctick C w cons c) as [[[w1 cons1] c1]|e] eqn:K; [|discriminate].
    cbn [bind] in H.
    destruct (tick_active C w1 cons1 t) as [[[w2 cons2] t']|e] eqn:Rt; [|discriminate].
    cbn [bind] in H. inversion H; subst w2 cons2 act'. clear H.
    apply ctick_rel_ok in K.
    pose proof (rest_bound done t c HF HL) as HR.
    pose proof (Forall_mid_in _ _ _ HF) as Bc.
    pose proof (ctick_rel_cbd _ _ _ _ K Bc) as Bc1.
    rewrite SM_mid in HD.
    destruct (ctick_rel_drift _ _ _ _ _ _ K Bc HR HD) as (k1 & HD1 & Hk1).
    assert (HF1 : Forall (cbd M) ((done ++ [c1]) ++ t)).
    { rewrite <- app_assoc. cbn [app]. exact (Forall_mid _ _ _ _ HF Bc1). }
    assert (HL1 : (length ((done ++ [c1]) ++ t) <= n)%nat).
    { rewrite <- app_assoc. cbn [app]. rewrite app_length in *. cbn [length] in *. exact HL. }
    assert (HD1' : Qabs (cons1 - SM ((done ++ [c1]) ++ t)) <= DB k1).
    { rewrite <- app_assoc. cbn [app]. rewrite SM_mid. exact HD1. }
    destruct (IH _ _ _ _ _ _ _ Rt HF1 HL1 HD1') as (HF2 & k2 & HD2 & Hk2).
    rewrite <- app_assoc in HF2, HD2. cbn [app] in HF2, HD2.
    split; [exact HF2|]. exists k2. split; [exact HD2|].
    rewrite !ncomp_cons. cbn [length]. lia.
Qed.

(* one kill: one update *)
Lemma kill_drift cons c R k :
  cbd M c -> Qabs R <= nQ n * M - M -> Qabs (cons - (R + c_mem c)) <= DB k ->
  Qabs (cons_after C cons c - (R + c_mem (dead c))) <= DB (S k) /\ cbd M (dead c).
Proof.
  intros [Bm Br] HR HD. split.
  - exact (upd_R cons R (c_mem c) 0 k HR Bm zero_bd HD).
  - split; [apply zero_bd | exact Br].
Qed.

(* phase 5, step 1 *)
Lemma kill_over_limit_drift : forall act done w cons w' cons' act' k,
  kill_over_limit C w cons act = Ok (w', cons', act') ->
  Forall (cbd M) (done ++ act) -> (length (done ++ act) <= n)%nat ->
  Qabs (cons - SM (done ++ act)) <= DB k ->
  Forall (cbd M) (done ++ act') /\
  exists k', Qabs (cons' - SM (done ++ act')) <= DB k' /\ (k' + ncomp act <= k + ncomp act')%nat.
Proof.
  induction act as [|c t IH]; intros done w cons w' cons' act' k H HF HL HD.
  - cbn in H. inversion H; subst. split; [exact HF|]. exists k. split; [exact HD | cbn; lia].
  - cbn [kill_over_limit] in H.
    destruct (if Qltb (c_ram c) (c_mem c) then ckill C w cons c else Ok (w, cons, c))
      as [[[w1 cons1] c1]|e] eqn:K; [|discriminate].
    cbn [bind] in H.
    destruct (kill_over_limit C w1 cons1 t) as [[[w2 cons2] t']|e] eqn:Rt; [|discriminate].
    cbn [bind] in H. inversion H; subst w2 cons2 act'. clear H.
    pose proof (rest_bound done t c HF HL) as HR.
    pose proof (Forall_mid_in _ _ _ HF) as Bc.
    rewrite SM_mid in HD.
    assert (Hstep : exists k1, Qabs (cons1 - ((SM done + SM t) + c_mem c1)) <= DB k1 /\ cbd M c1 /\
                               (k1 + Nat.b2n (c_completed c) <= k + Nat.b2n (c_completed c1))%nat).
    { destruct (Qltb (c_ram c) (c_mem c)).
      - apply ckill_ok in K. destruct K as (Hc & -> & -> & _).
        destruct (kill_drift _ _ _ _ Bc HR HD) as [H1 H2]. exists (S k).
        split; [exact H1|]. split; [exact H2|]. rewrite Hc. cbn. lia.
      - inversion K; subst. exists k. split; [exact HD|]. split; [exact Bc | lia]. }
    destruct Hstep as (k1 & HD1 & Bc1 & Hk1).
    assert (HF1 : Forall (cbd M) ((done ++ [c1]) ++ t)).
    { rewrite <- app_assoc. cbn [app]. exact (Forall_mid _ _ _ _ HF Bc1). }
    assert (HL1 : (length ((done ++ [c1]) ++ t) <= n)%nat).
    { rewrite <- app_assoc. cbn [app]. rewrite app_length in *. cbn [length] in *. exact HL. }
    assert (HD1' : Qabs (cons1 - SM ((done ++ [c1]) ++ t)) <= DB k1).
    { rewrite <- app_assoc. cbn [app]. rewrite SM_mid. exact HD1. }
    destruct (IH _ _ _ _ _ _ _ Rt HF1 HL1 HD1') as (HF2 & k2 & HD2 & Hk2).
    rewrite <- app_assoc in HF2, HD2. cbn [app] in HF2, HD2.
    split; [exact HF2|]. exists k2. split; [exact HD2|].
    rewrite !ncomp_cons. lia.
Qed.

(* phase 5, step 2 *)
Lemma kill_until_fits_drift max : forall order w cons act w' cons' act' k,
  kill_until_fits C max w cons act order = Ok (w', cons', act') ->
  Forall (cbd M) act -> (length act <= n)%nat ->
  Qabs (cons - SM act) <= DB k ->
  Forall (cbd M) act' /\
  exists k', Qabs (cons' - SM act') <= DB k' /\ (k' + ncomp act <= k + ncomp act')%nat.
Proof.
  induction order as [|cid t IH]; intros w cons act w' cons' act' k H HF HL HD.
  - cbn in H. inversion H; subst. split; [exact HF|]. exists k. split; [exact HD | lia].
  - cbn [kill_until_fits] in H. destruct (Qleb cons max).
    + inversion H; subst. split; [exact HF|]. exists k. split; [exact HD | lia].
    + destruct (find_container cid act) as [c|] eqn:F; [|discriminate].
      destruct (ckill C w cons c) as [[[w1 cons1] c1]|e] eqn:K; [|discriminate].
      cbn [bind] in H. apply ckill_ok in K. destruct K as (Hc & -> & -> & _).
      destruct (find_replace_split _ _ _ F) as (l1 & l2 & Ea & Er).
      rewrite Er in H. subst act.
      pose proof (rest_bound l1 l2 c HF HL) as HR.
      pose proof (Forall_mid_in _ _ _ HF) as Bc.
      rewrite SM_mid in HD.
      destruct (kill_drift _ _ _ _ Bc HR HD) as [H1 H2].
      assert (HF1 : Forall (cbd M) (l1 ++ dead c :: l2)) by exact (Forall_mid _ _ _ _ HF H2).
      assert (HL1 : (length (l1 ++ dead c :: l2) <= n)%nat).
      { rewrite app_length in *. cbn [length] in *. exact HL. }
      rewrite <- SM_mid in H1.
      destruct (IH _ _ _ _ _ _ _ H HF1 HL1 H1) as (HF2 & k2 & HD2 & Hk2).
      split; [exact HF2|]. exists k2. split; [exact HD2|].
      rewrite ncomp_app, ncomp_cons in *. rewrite Hc. cbn [c_completed dead Nat.b2n] in Hk2.
      cbn [Nat.b2n]. lia.
Qed.

(* phases 4 and 5 together: from the usage before the containers run to the usage after the killer *)
Lemma tick_core_drift max w3 cons1 act2 w4 cons4 act4 w5 cons5 act5 k :
  tick_active C w3 cons1 act2 = Ok (w4, cons4, act4) ->
  oom_killer C max w4 cons4 act4 = Ok (w5, cons5, act5) ->
  Forall (cbd M) act2 -> (length act2 <= n)%nat ->
  Qabs (cons1 - SM act2) <= DB k ->
  Forall (cbd M) act5 /\ length act5 = length act2 /\
  exists k', Qabs (cons5 - SM act5) <= DB k' /\
             (k' + ncomp act2 <= k + length act2 + ncomp act5)%nat.
Proof.
  intros P4 P5 HF HL HD.
  pose proof (tick_active_length _ _ _ _ _ _ _ P4) as L4.
  pose proof (oom_killer_length _ _ _ _ _ _ _ _ P5) as L5.
  destruct (tick_active_drift act2 [] _ _ _ _ _ k P4 HF HL HD) as (HF4 & k4 & HD4 & Hk4).
  cbn [app] in HF4, HD4.
  apply oom_killer_inv in P5. destruct P5 as (w1 & c1 & a1 & K1 & K2).
  assert (HL4 : (length act4 <= n)%nat) by lia.
  destruct (kill_over_limit_drift act4 [] _ _ _ _ _ k4 K1 HF4 HL4 HD4) as (HF1 & k1 & HD1 & Hk1).
  cbn [app] in HF1, HD1.
  assert (HL1 : (length a1 <= n)%nat).
  { apply kill_over_limit_spec in K1. destruct K1 as (-> & _). rewrite map_length. exact HL4. }
  destruct (kill_until_fits_drift _ _ _ _ _ _ _ _ k1 K2 HF1 HL1 HD1) as (HF5 & k5 & HD5 & Hk5).
  split; [exact HF5|]. split; [lia|]. exists k5. split; [exact HD5 | lia].
Qed.

(* a tick in which nobody is suspended and nobody finishes or is killed: every running container
   contributes at most one update *)
Theorem quiet_tick_drift w next p asgs w' next' p' k :
  pool_tick C w next p [] asgs = Ok (w', next', p', []) ->
  Forall (cbd M) (p_active p) -> (length (p_active p') <= n)%nat ->
  Qabs (p_consumed p - SM (p_active p)) <= DB k ->
  Forall (cbd M) (p_active p') /\
  Qabs (p_consumed p' - SM (p_active p')) <= DB (k + length (p_active p')).
Proof.
  intros H HF HL HD. apply pool_tick_view in H. destruct H.
  cbn in tv_p1. inversion tv_p1; subst w1 act1 sing1 cons1. clear tv_p1.
  apply phase2_spec in tv_p2. destruct tv_p2 as (_ & _ & _ & news & -> & _ & _ & Hnew).
  symmetry in tv_res. apply map_eq_nil in tv_res.
  rewrite tv_res in tv_consumed. rewrite (filter_nil_neg _ _ tv_res) in tv_active.
  rewrite tv_active in *. rewrite tv_consumed.
  assert (HF2 : Forall (cbd M) (p_active p ++ news)).
  { apply Forall_app. split; [exact HF|]. rewrite Forall_forall in Hnew |- *. intros c Hc.
    destruct (Hnew c Hc) as (Em & Er & _). split; [rewrite Em; apply zero_bd|].
    intros r E. rewrite Er in E. discriminate. }
  assert (HD2 : Qabs (p_consumed p - SM (p_active p ++ news)) <= DB k).
  { rewrite SM_app, (news_mem_zero _ Hnew). setoid_replace (SM (p_active p) + 0) with (SM (p_active p)) by ring.
    exact HD. }
  pose proof (tick_active_length _ _ _ _ _ _ _ tv_p4) as L4.
  pose proof (oom_killer_length _ _ _ _ _ _ _ _ tv_p5) as L5.
  assert (HL2 : (length (p_active p ++ news) <= n)%nat) by lia.
  destruct (tick_core_drift _ _ _ _ _ _ _ _ _ _ k tv_p4 tv_p5 HF2 HL2 HD2) as (HF5 & _ & k5 & HD5 & Hk5).
  split; [exact HF5|].
  eapply Qle_trans; [exact HD5|]. apply DB_mono.
  unfold ncomp in Hk5 at 2. rewrite tv_res in Hk5. cbn [length] in Hk5. lia.
Qed.

(* any tick keeps the values bounded *)
Lemma tick_cbd w next p ss asgs w' next' p' res :
  pool_tick C w next p ss asgs = Ok (w', next', p', res) ->
  Forall (cbd M) (p_active p) -> Forall (cbd M) (p_active p').
Proof.
  intros H HF. apply pool_tick_view in H. destruct H.
  apply phase1_spec in tv_p1. destruct tv_p1 as (Hincl & _ & _ & _).
  apply phase2_spec in tv_p2. destruct tv_p2 as (_ & _ & _ & news & -> & _ & _ & Hnew).
  apply tick_active_rel in tv_p4. rewrite tv_active.
  rewrite Forall_forall in HF, Hnew |- *. intros c' Hc'. apply filter_In in Hc'.
  destruct Hc' as [Hc' Hn]. apply negb_true_iff in Hn.
  destruct (oom_killer_alive _ _ _ _ _ _ _ _ tv_p5 c' Hc' Hn) as [H4 _].
  destruct (Forall2_in_r _ _ _ tv_p4 c' H4) as (c & Hc & q & q' & R).
  apply (ctick_rel_cbd _ _ _ _ R).
  apply in_app_or in Hc. destruct Hc as [Hc|Hc].
  - apply HF. apply Hincl. exact Hc.
  - destruct (Hnew c Hc) as (Em & Er & _). split; [rewrite Em; apply zero_bd|].
    intros r E. rewrite Er in E. discriminate.
Qed.

End PoolDrift.

(* ---------- reconciles ---------- *)

(* the error of a reconcile of at most n <= 2^20 containers with values up to M *)
Definition EE (n : nat) (M : Q) : Q := 3 * nQ n * M * u53.

Lemma EE_nonneg n M : 0 <= M -> 0 <= EE n M.
Proof.
  intros HM. unfold EE. pose proof (nQ_nonneg n).
  assert (0 <= nQ n * M) by (apply Qmult_le_0_compat; assumption). unfold u53. lra.
Qed.

Theorem reconcile_error C act :
  rel_rnd (cf_rnd C) -> (Z.of_nat (length act) <= 1048576)%Z ->
  Qabs (reconcile C act - SM act) <= (Qabs (SM act) + (1025 # 1024) * sumabs (map c_mem act)) * u53.
Proof.
  intros RR Hn. unfold reconcile. apply py_sum_error; [exact RR | rewrite map_length; exact Hn].
Qed.

Lemma reconcile_error_bd C M n act :
  rel_rnd (cf_rnd C) -> 0 <= M -> (Z.of_nat n <= 1048576)%Z ->
  Forall (cbd M) act -> (length act <= n)%nat ->
  Qabs (reconcile C act - SM act) <= EE n M.
Proof.
  intros RR HM Hn HF HL.
  assert (Hn' : (Z.of_nat (length act) <= 1048576)%Z) by lia.
  eapply Qle_trans; [apply (reconcile_error C act RR Hn')|].
  assert (H1 : sumabs (map c_mem act) <= nQ (length act) * M).
  { rewrite <- (map_length c_mem act). apply sumabs_bound.
    intros x Hx. apply in_map_iff in Hx. destruct Hx as (c & <- & Hc).
    rewrite Forall_forall in HF. exact (proj1 (HF c Hc)). }
  pose proof (sumQ_abs_le (map c_mem act)) as H2.
  assert (H3 : nQ (length act) * M <= nQ n * M).
  { apply Qmult_le_compat_r; [apply nQ_le; exact HL | exact HM]. }
  pose proof (Qabs_nonneg (SM act)) as H4.
  unfold EE, u53. lra.
Qed.

Lemma phase1_susp C w p s t w1 act1 sing1 cons1 :
  phase1 C w p (s :: t) = Ok (w1, act1, sing1, cons1) ->
  cons1 = reconcile C act1 /\ incl act1 (p_active p).
Proof.
  intros H. pose proof (phase1_spec _ _ _ _ _ _ _ _ H) as (Hi & _). split; [|exact Hi].
  unfold phase1 in H. destruct (verify_suspends (p_active p) (s :: t)); [|discriminate].
  cbn [bind] in H.
  destruct (apply_suspends C w (p_active p) (p_suspending p) (s :: t)) as [[[w2 act] sing]|e]; [|discriminate].
  cbn [bind] in H. inversion H; reflexivity.
Qed.

(* a tick in which a container leaves the running set (it is suspended, finishes or is killed): the
   usage is recomputed; whatever the drift was before, afterwards it is the error of one reconcile plus
   at most one update per container that is still running *)
Theorem reset_tick_drift C M n w next p ss asgs w' next' p' res :
  rel_rnd (cf_rnd C) -> 0 <= M -> script_bd C M -> (Z.of_nat n <= 1048576)%Z ->
  pool_tick C w next p ss asgs = Ok (w', next', p', res) ->
  ss <> [] \/ res <> [] ->
  Forall (cbd M) (p_active p) -> (length (p_active p') <= n)%nat ->
  Forall (cbd M) (p_active p') /\
  (res <> [] -> p_consumed p' = reconcile C (p_active p') /\
                Qabs (p_consumed p' - SM (p_active p')) <= EE n M) /\
  Qabs (p_consumed p' - SM (p_active p')) <= dbound (EE n M) (GG n M) (length (p_active p')).
Proof.
  intros RR HM SB Hn H Hreset HF HL.
  pose proof (tick_cbd C M HM SB _ _ _ _ _ _ _ _ _ H HF) as HF'.
  pose proof (EE_nonneg n M HM) as HE. pose proof (GG_nonneg M n HM) as HG.
  split; [exact HF'|].
  apply pool_tick_view in H. destruct H.
  assert (Hres : res <> [] -> p_consumed p' = reconcile C (p_active p') /\
                 Qabs (p_consumed p' - SM (p_active p')) <= EE n M).
  { intros Hr. assert (E : p_consumed p' = reconcile C (p_active p')).
    { rewrite tv_consumed, tv_active. destruct (filter c_completed act5); [|reflexivity].
      exfalso. apply Hr. rewrite tv_res. reflexivity. }
    split; [exact E|]. rewrite E. apply reconcile_error_bd; assumption. }
  split; [exact Hres|].
  destruct res as [|r0 res'].
  - (* nobody finished: somebody was suspended *)
    destruct Hreset as [Hs|Hr]; [|congruence].
    destruct ss as [|s t]; [congruence|].
    apply phase1_susp in tv_p1. destruct tv_p1 as [-> Hincl].
    apply phase2_spec in tv_p2. destruct tv_p2 as (_ & _ & _ & news & -> & _ & _ & Hnew).
    symmetry in tv_res. apply map_eq_nil in tv_res.
    rewrite tv_res in tv_consumed. rewrite (filter_nil_neg _ _ tv_res) in tv_active.
    rewrite tv_active in *. rewrite tv_consumed.
    assert (HF1 : Forall (cbd M) act1).
    { rewrite Forall_forall in HF |- *. intros c Hc. apply HF. apply Hincl. exact Hc. }
    assert (HF2 : Forall (cbd M) (act1 ++ news)).
    { apply Forall_app. split; [exact HF1|]. rewrite Forall_forall in Hnew |- *. intros c Hc.
      destruct (Hnew c Hc) as (Em & Er & _). split; [rewrite Em; apply Qabs_le_iff; lra|].
      intros r E. rewrite Er in E. discriminate. }
    pose proof (tick_active_length _ _ _ _ _ _ _ tv_p4) as L4.
    pose proof (oom_killer_length _ _ _ _ _ _ _ _ tv_p5) as L5.
    assert (HL2 : (length (act1 ++ news) <= n)%nat) by lia.
    assert (HL1 : (length act1 <= n)%nat) by (rewrite app_length in HL2; lia).
    assert (HD2 : Qabs (reconcile C act1 - SM (act1 ++ news)) <= dbound (EE n M) (GG n M) 0).
    { rewrite dbound_0, SM_app, (news_mem_zero _ Hnew).
      setoid_replace (SM act1 + 0) with (SM act1) by ring.
      apply reconcile_error_bd; assumption. }
    destruct (tick_core_drift C M n (EE n M) RR HM SB _ _ _ _ _ _ _ _ _ _ 0%nat tv_p4 tv_p5 HF2 HL2 HD2)
      as (_ & _ & k5 & HD5 & Hk5).
    eapply Qle_trans; [exact HD5|]. apply dbound_mono; [exact HE | exact HG |].
    unfold ncomp in Hk5 at 2. rewrite tv_res in Hk5. cbn [length] in Hk5. lia.
  - destruct Hres as [_ Hb]; [discriminate|].
    eapply Qle_trans; [exact Hb|]. rewrite <- (dbound_0 (EE n M) (GG n M)) at 1.
    apply dbound_mono; [exact HE | exact HG | lia].
Qed.

(* ---------- any number of ticks ---------- *)

(* [pool_run C n p k p']: p' is reached from p by pool ticks, every pool on the way has at most n running
   containers, and k counts the container-ticks since the last tick in which a container left the running
   set (or since p): the number of incremental updates p_consumed has received since it was last
   recomputed. *)
Inductive pool_run (C : cfg) (n : nat) : pool -> nat -> pool -> Prop :=
| pr_refl p : pool_run C n p 0 p
| pr_quiet p k p1 w next asgs w' next' p' :
    pool_run C n p k p1 ->
    pool_tick C w next p1 [] asgs = Ok (w', next', p', []) ->
    (length (p_active p') <= n)%nat ->
    pool_run C n p (k + length (p_active p')) p'
| pr_reset p k p1 w next ss asgs w' next' p' res :
    pool_run C n p k p1 ->
    pool_tick C w next p1 ss asgs = Ok (w', next', p', res) ->
    ss <> [] \/ res <> [] ->
    (length (p_active p') <= n)%nat ->
    pool_run C n p (length (p_active p')) p'.

Theorem pool_run_dbound C M n p k p' :
  rel_rnd (cf_rnd C) -> 0 <= M -> script_bd C M -> (Z.of_nat n <= 1048576)%Z ->
  pool_run C n p k p' ->
  Forall (cbd M) (p_active p) ->
  Qabs (p_consumed p - SM (p_active p)) <= EE n M ->
  Forall (cbd M) (p_active p') /\
  Qabs (p_consumed p' - SM (p_active p')) <= dbound (EE n M) (GG n M) k.
Proof.
  intros RR HM SB Hn Run HF H0. pose proof (EE_nonneg n M HM) as HE.
  induction Run as [p | p k p1 w next asgs w' next' p' Run IH T HL
                      | p k p1 w next ss asgs w' next' p' res Run IH T Hreset HL].
  - split; [exact HF|]. rewrite dbound_0. exact H0.
  - destruct (IH HF H0) as [HF1 HD1].
    exact (quiet_tick_drift C M n (EE n M) RR HM HE SB _ _ _ _ _ _ _ k T HF1 HL HD1).
  - destruct (IH HF H0) as [HF1 _].
    destruct (reset_tick_drift C M n _ _ _ _ _ _ _ _ _ RR HM SB Hn T Hreset HF1 HL) as (A & _ & B).
    split; assumption.
Qed.

(* T1 for the pool model, linear form *)
Theorem float_drift_bound C M n p k p' :
  (forall x, cf_rnd C x == rnd64 x) -> 0 <= M -> script_bd C M ->
  (Z.of_nat n <= 1048576)%Z -> (Z.of_nat k <= 4503599627370496)%Z ->
  pool_run C n p k p' ->
  Forall (cbd M) (p_active p) ->
  Qabs (p_consumed p - SM (p_active p)) <= EE n M ->
  Qabs (p_consumed p' - SM (p_active p')) <=
    EE n M * (1 + nQ k * (1 # 4503599627370496)) + nQ k * ((nQ n + 3) * M) * (1 # 4503599627370496).
Proof.
  intros E HM SB Hn Hk Run HF H0.
  destruct (pool_run_dbound C M n p k p' (rel_rnd_ext _ E) HM SB Hn Run HF H0) as [_ H].
  eapply Qle_trans; [exact H|].
  apply dbound_lin; [apply EE_nonneg; exact HM | apply GG_nonneg; exact HM | exact Hk].
Qed.

(* ... and a simpler, slightly weaker form: (k + 3) (n + 3) M 2^-52 *)
Corollary float_drift_bound_simple C M n p k p' :
  (forall x, cf_rnd C x == rnd64 x) -> 0 <= M -> script_bd C M ->
  (Z.of_nat n <= 1048576)%Z -> (Z.of_nat k <= 4503599627370496)%Z ->
  pool_run C n p k p' ->
  Forall (cbd M) (p_active p) ->
  Qabs (p_consumed p - SM (p_active p)) <= EE n M ->
  Qabs (p_consumed p' - SM (p_active p')) <=
    (nQ k + 3) * ((nQ n + 3) * M) * (1 # 4503599627370496).
Proof.
  intros E HM SB Hn Hk Run HF H0.
  eapply Qle_trans; [exact (float_drift_bound C M n p k p' E HM SB Hn Hk Run HF H0)|].
  pose proof (nQ_nonneg n) as Hn0. pose proof (nQ_nonneg k) as Hk0.
  pose proof (nQ_leZ k _ Hk) as Hkq. change (inject_Z 4503599627370496) with (4503599627370496 # 1) in Hkq.
  assert (HnM : 0 <= nQ n * M) by (apply Qmult_le_0_compat; assumption).
  assert (HE : EE n M * (nQ k * (1 # 4503599627370496)) <= EE n M).
  { rewrite <- (Qmult_1_r (EE n M)) at 2. apply Qmult_le_nonneg_l; [apply EE_nonneg; exact HM | lra]. }
  assert (HkG : 0 <= nQ k * ((nQ n + 3) * M)).
  { apply Qmult_le_0_compat; [exact Hk0|]. apply Qmult_le_0_compat; lra. }
  unfold EE, u53 in *. lra.
Qed.

(* the tolerance of the harness monitor: 1e-6 GB is justified whenever (k + 3) (n + 3) M <= 4503599627
   (= floor (2^52 / 10^6)) *)
Corollary float_drift_tolerance C M n p k p' :
  (forall x, cf_rnd C x == rnd64 x) -> 0 <= M -> script_bd C M ->
  (Z.of_nat n <= 1048576)%Z -> (Z.of_nat k <= 4503599627370496)%Z ->
  pool_run C n p k p' ->
  Forall (cbd M) (p_active p) ->
  Qabs (p_consumed p - SM (p_active p)) <= EE n M ->
  (nQ k + 3) * ((nQ n + 3) * M) <= 4503599627 ->
  Qabs (p_consumed p' - SM (p_active p')) <= 1 # 1000000.
Proof.
  intros E HM SB Hn Hk Run HF H0 Hsz.
  eapply Qle_trans; [exact (float_drift_bound_simple C M n p k p' E HM SB Hn Hk Run HF H0)|]. lra.
Qed.

Lemma mul3_le a b c A B Cc :
  0 <= a -> a <= A -> 0 <= b -> b <= B -> 0 <= c -> c <= Cc -> a * (b * c) <= A * (B * Cc).
Proof.
  intros. assert (b * c <= B * Cc).
  { eapply Qle_trans; [apply (Qmult_le_compat_r b B c); assumption|].
    apply Qmult_le_nonneg_l; [lra | assumption]. }
  assert (0 <= b * c) by (apply Qmult_le_0_compat; assumption).
  eapply Qle_trans; [apply (Qmult_le_compat_r a A (b * c)); assumption|].
  apply Qmult_le_nonneg_l; [lra | assumption].
Qed.

(* numeric instances.
   (a) the scale of the harness (pools up to 512 GB, at most 16 running containers per pool): 1e-6 GB holds
       for 400000 container-ticks between two reconciles;
   (b) 1024 GB values, 1000 containers: 1e-6 GB holds for 4380 container-ticks between two reconciles;
   (c) the same with 10^6 container-ticks: the bound is 2.3e-4 GB. *)
Section Numeric.
Variables (C : cfg) (M : Q) (n k : nat) (p p' : pool).
Hypothesis E : forall x, cf_rnd C x == rnd64 x.
Hypothesis HM : 0 <= M.
Hypothesis SB : script_bd C M.
Hypothesis Run : pool_run C n p k p'.
Hypothesis HF : Forall (cbd M) (p_active p).
Hypothesis H0 : Qabs (p_consumed p - SM (p_active p)) <= EE n M.

Lemma numeric_generic (Mx : Q) (nx kx : Z) (bound : Q) :
  M <= Mx -> (Z.of_nat n <= nx)%Z -> (Z.of_nat k <= kx)%Z ->
  (nx <= 1048576)%Z -> (kx <= 4503599627370496)%Z ->
  (inject_Z kx + 3) * ((inject_Z nx + 3) * Mx) * (1 # 4503599627370496) <= bound ->
  Qabs (p_consumed p' - SM (p_active p')) <= bound.
Proof.
  intros HMx Hn Hk Hnx Hkx Hb.
  assert (Hn' : (Z.of_nat n <= 1048576)%Z) by lia.
  assert (Hk' : (Z.of_nat k <= 4503599627370496)%Z) by lia.
  eapply Qle_trans; [exact (float_drift_bound_simple C M n p k p' E HM SB Hn' Hk' Run HF H0)|].
  eapply Qle_trans; [|exact Hb].
  apply Qmult_le_compat_r; [|lra].
  pose proof (nQ_nonneg n). pose proof (nQ_nonneg k).
  pose proof (nQ_leZ n _ Hn). pose proof (nQ_leZ k _ Hk).
  apply mul3_le; lra.
Qed.

Theorem drift_harness_scale :
  M <= 512 -> (Z.of_nat n <= 16)%Z -> (Z.of_nat k <= 400000)%Z ->
  Qabs (p_consumed p' - SM (p_active p')) <= 1 # 1000000.
Proof.
  intros HMx Hn Hk. apply (numeric_generic 512 16 400000); try lia; try assumption.
  apply Qle_bool_iff. vm_compute. reflexivity.
Qed.

Theorem drift_large_scale_tolerance :
  M <= 1024 -> (Z.of_nat n <= 1000)%Z -> (Z.of_nat k <= 4380)%Z ->
  Qabs (p_consumed p' - SM (p_active p')) <= 1 # 1000000.
Proof.
  intros HMx Hn Hk. apply (numeric_generic 1024 1000 4380); try lia; try assumption.
  apply Qle_bool_iff. vm_compute. reflexivity.
Qed.

Theorem drift_large_scale_million :
  M <= 1024 -> (Z.of_nat n <= 1000)%Z -> (Z.of_nat k <= 1000000)%Z ->
  Qabs (p_consumed p' - SM (p_active p')) <= 23 # 100000.
Proof.
  intros HMx Hn Hk. apply (numeric_generic 1024 1000 1000000); try lia; try assumption.
  apply Qle_bool_iff. vm_compute. reflexivity.
Qed.

End Numeric.

(* ---------- the statements for rnd64 itself and for the float-faithful configuration ---------- *)

Corollary rnd64_drift_seq M S D0 l c e :
  0 <= M -> 0 <= S -> 0 <= D0 ->
  (Z.of_nat (length l) <= 4503599627370496)%Z ->
  steps_ok M S e l -> Qabs (c - e) <= D0 ->
  Qabs (run_f rnd64 c l - run_e e l) <=
    D0 * (1 + nQ (length l) * (1 # 4503599627370496)) +
    nQ (length l) * (S + 3 * M) * (1 # 4503599627370496).
Proof. exact (drift_seq rnd64 rel_rnd_rnd64 M S D0 l c e). Qed.

Corollary rnd64_py_sum_error l :
  (Z.of_nat (length l) <= 1048576)%Z ->
  Qabs (py_sum rnd64 l - sumQ l) <= (Qabs (sumQ l) + (1025 # 1024) * sumabs l) * u53.
Proof. exact (py_sum_error rnd64 rel_rnd_rnd64 l). Qed.

Corollary rnd64_py_sum_error_nonneg l :
  (Z.of_nat (length l) <= 1048576)%Z -> (forall x, In x l -> 0 <= x) ->
  Qabs (py_sum rnd64 l - sumQ l) <= sumQ l * (3 # 9007199254740992).
Proof. exact (py_sum_error_nonneg rnd64 rel_rnd_rnd64 l). Qed.

Corollary rnd64_py_sum_error_comp_exact x t :
  comp_exact rnd64 x 0 t ->
  Qabs (py_sum rnd64 (x :: t) - sumQ (x :: t)) <= Qabs (sumQ (x :: t)) * u53.
Proof. exact (py_sum_error_comp_exact rnd64 rel_rnd_rnd64 x t). Qed.

(* a tick in which a container finishes or is killed ends with a reconcile: the reported usage IS
   Python's sum() of the usages of the containers still running, whose error is bounded *)
Theorem float_reconcile_tick C w next p ss asgs w' next' p' res :
  (forall x, cf_rnd C x == rnd64 x) ->
  pool_tick C w next p ss asgs = Ok (w', next', p', res) -> res <> [] ->
  (Z.of_nat (length (p_active p')) <= 1048576)%Z ->
  p_consumed p' = py_sum (cf_rnd C) (map c_mem (p_active p')) /\
  Qabs (p_consumed p' - SM (p_active p')) <=
    (Qabs (SM (p_active p')) + (1025 # 1024) * sumabs (map c_mem (p_active p'))) * u53 /\
  ((forall c, In c (p_active p') -> 0 <= c_mem c) ->
   Qabs (p_consumed p' - SM (p_active p')) <= SM (p_active p') * (3 # 9007199254740992)).
Proof.
  intros E H Hr Hn. apply pool_tick_view in H. destruct H.
  assert (Ec : p_consumed p' = reconcile C (p_active p')).
  { rewrite tv_consumed, tv_active. destruct (filter c_completed act5); [|reflexivity].
    exfalso. apply Hr. rewrite tv_res. reflexivity. }
  split; [exact Ec|]. rewrite Ec. split.
  - apply reconcile_error; [apply rel_rnd_ext; exact E | exact Hn].
  - intros Hp. unfold reconcile. apply py_sum_error_nonneg.
    + apply rel_rnd_ext. exact E.
    + rewrite map_length. exact Hn.
    + intros x Hx. apply in_map_iff in Hx. destruct Hx as (c & <- & Hc). apply Hp. exact Hc.
Qed.

(* a new pool starts with no drift *)
Lemma new_pool_start id cpu ram n M : 0 <= M ->
  Forall (cbd M) (p_active (new_pool id cpu ram)) /\
  Qabs (p_consumed (new_pool id cpu ram) - SM (p_active (new_pool id cpu ram))) <= EE n M.
Proof.
  intros HM. split; [constructor|]. cbn [new_pool p_consumed p_active map sumQ].
  pose proof (EE_nonneg n M HM). apply Qabs_le_iff. lra.
Qed.

(* ====================================================================== *)
(* E. closed examples (cf_rnd = rnd64)                                    *)
(* ====================================================================== *)

Module FloatExamples.

(* the binary64 numbers 0.1 0.2 0.3 0.4 0.7 *)
Definition d01 : Q := 3602879701896397 # 36028797018963968.
Definition d02 : Q := 3602879701896397 # 18014398509481984.
Definition d03 : Q := 5404319552844595 # 18014398509481984.
Definition d04 : Q := 3602879701896397 # 9007199254740992.
Definition d07 : Q := 3152519739159347 # 4503599627370496.

Example decimals_are_floats :
  map (fun x => Qeq_bool (rnd64 x) x) [d01; d02; d03; d04; d07] = [true; true; true; true; true] /\
  map rnd64 [1 # 10; 2 # 10; 3 # 10; 4 # 10; 7 # 10] = [d01; d02; d03; d04; d07].
Proof. split; vm_compute; reflexivity. Qed.

(* --- A: three updates 0 -> 0.1, 0 -> 0.7, 0.1 -> 0.2 from zero: the tracked value is off by 2^-54 ... *)
Definition ex_updates : list (Q * Q) := [(0, d01); (0, d07); (d01, d02)].

Example ex_updates_drift :
  Qred (run_f rnd64 0 ex_updates - run_e 0 ex_updates) = (-1) # 18014398509481984.
Proof. vm_compute. reflexivity. Qed.

Example ex_updates_ok : steps_ok 1 1 0 ex_updates.
Proof. cbn [steps_ok ex_updates]. repeat split; apply Qle_bool_iff; vm_compute; reflexivity. Qed.

(* ... which is within the bound of the theorem, 3 * (1 + 3) * 2^-52 *)
Example ex_updates_bound :
  Qabs (run_f rnd64 0 ex_updates - run_e 0 ex_updates) <= 3 * (1 + 3 * 1) * (1 # 4503599627370496).
Proof.
  assert (H : Qabs (0 - 0) <= 0) by (apply Qle_bool_iff; vm_compute; reflexivity).
  pose proof (drift_seq rnd64 rel_rnd_rnd64 1 1 0 ex_updates 0 0) as B.
  cbn [length ex_updates] in B. change (nQ 3) with 3 in B.
  assert (Hl : (Z.of_nat 3 <= 4503599627370496)%Z) by (cbn; lia).
  assert (B' := B ltac:(lra) ltac:(lra) ltac:(lra) Hl ex_updates_ok H).
  eapply Qle_trans; [exact B'|]. lra.
Qed.

(* --- B: sum([0.1, 0.2, 0.3]) is 0.6, the exact sum of the three binary64 numbers is not *)
Example ex_py_sum :
  Qred (py_sum rnd64 [d01; d02; d03]) = 5404319552844595 # 9007199254740992 /\
  Qred (py_sum rnd64 [d01; d02; d03] - sumQ [d01; d02; d03]) = (-1) # 36028797018963968 /\
  Qabs (py_sum rnd64 [d01; d02; d03] - sumQ [d01; d02; d03]) <= sumQ [d01; d02; d03] * (3 # 9007199254740992).
Proof.
  split; [vm_compute; reflexivity|]. split; [vm_compute; reflexivity|].
  apply (py_sum_error_nonneg rnd64 rel_rnd_rnd64); [cbn; lia|].
  intros x Hx. cbn in Hx. destruct Hx as [<-|[<-|[<-|[]]]]; unfold d01, d02, d03; lra.
Qed.

Example ex_py_sum_comp_exact : comp_exact rnd64 d01 0 [d02; d03].
Proof. vm_compute. repeat split. Qed.

(* --- C: a pool of the float-faithful model. Two one-operator pipelines; operator 0 uses 0.1 0.2 0.3 0.3 GB
   in its four ticks, operator 1 uses 0.7 0.1 0.4 0.4 0.4 GB in its five ticks *)
Definition exS : static := mk_static [(Batch, [[]]); (Batch, [[]])].

Definition exF : cfg :=
  {| cf_static := exS;
     cf_script := fun op _ => if Nat.eqb op 0 then [d01; d02; d03; d03] else [d07; d01; d04; d04; d04];
     cf_tps := 10%Z; cf_overcommit := false; cf_multi := false; cf_rnd := rnd64 |}.

Lemma exF_float : forall x, cf_rnd exF x == rnd64 x.
Proof. intros x. reflexivity. Qed.

Lemma exF_bd : script_bd exF 1.
Proof.
  intros op cpus m H. cbn in H. destruct (Nat.eqb op 0); cbn in H;
    repeat (destruct H as [<-|H]; [apply Qle_bool_iff; vm_compute; reflexivity|]); destruct H.
Qed.

Definition a0 : asg := {| a_ops := [0%nat]; a_cpu := 1%Z; a_ram := 4; a_prio := Batch; a_pool := 0%Z |}.
Definition a1 : asg := {| a_ops := [1%nat]; a_cpu := 1%Z; a_ram := 3; a_prio := Batch; a_pool := 0%Z |}.

Definition w0 : world :=
  match transition_all exS (init_world exS) [0%nat; 1%nat] Assigned with
  | Ok w => w
  | Err _ => init_world exS
  end.

Definition pstate : Type := world * nat * pool * list result.

Definition tick (st : pstate) (asgs : list asg) : pstate :=
  match st with
  | (w, next, p, _) =>
      match pool_tick exF w next p [] asgs with
      | Ok r => r
      | Err _ => st
      end
  end.

Definition st0 : pstate := (w0, 0%nat, new_pool 0 4%Z 10, []).
Definition st1 : pstate := Eval vm_compute in tick st0 [a0; a1].
Definition st2 : pstate := Eval vm_compute in tick st1 [].
Definition st3 : pstate := Eval vm_compute in tick st2 [].
Definition st4 : pstate := Eval vm_compute in tick st3 [].
Definition pl (st : pstate) : pool := snd (fst st).

Lemma tick1 : pool_tick exF w0 0 (pl st0) [] [a0; a1] = Ok st1.
Proof. vm_compute. reflexivity. Qed.
Lemma tick2 : pool_tick exF (fst (fst (fst st1))) (snd (fst (fst st1))) (pl st1) [] [] = Ok st2.
Proof. vm_compute. reflexivity. Qed.
Lemma tick3 : pool_tick exF (fst (fst (fst st2))) (snd (fst (fst st2))) (pl st2) [] [] = Ok st3.
Proof. vm_compute. reflexivity. Qed.
Lemma tick4 : pool_tick exF (fst (fst (fst st3))) (snd (fst (fst st3))) (pl st3) [] [] = Ok st4.
Proof. vm_compute. reflexivity. Qed.

(* reported usage, exact sum of the running containers, their difference, after each tick: the drift
   is -2^-55, -3 * 2^-55, -2^-54 over the three quiet ticks; in the fourth tick container 0 finishes
   and the usage is recomputed: no difference *)
Definition usage (st : pstate) : Q * Q * Q :=
  let p := pl st in
  (Qred (p_consumed p), Qred (SM (p_active p)), Qred (p_consumed p - SM (p_active p))).

Example ex_usages :
  map usage [st1; st2; st3; st4] =
  [(7205759403792793 # 9007199254740992, 28823037615171173 # 36028797018963968, (-1) # 36028797018963968);
   (2702159776422297 # 9007199254740992, 10808639105689191 # 36028797018963968, (-3) # 36028797018963968);
   (3152519739159347 # 4503599627370496, 12610078956637389 # 18014398509481984, (-1) # 18014398509481984);
   (d04, d04, 0)].
Proof. vm_compute. reflexivity. Qed.

Example ex_results : map (fun st => length (snd st)) [st1; st2; st3; st4] = [0; 0; 0; 1]%nat.
Proof. vm_compute. reflexivity. Qed.

Lemma pool_run_eq C n p k k' p' : pool_run C n p k p' -> k = k' -> pool_run C n p k' p'.
Proof. intros H <-. exact H. Qed.

Lemma st_split (st : pstate) : st = (fst (fst (fst st)), snd (fst (fst st)), pl st, snd st).
Proof. destruct st as [[[w nx] p] r]. reflexivity. Qed.

(* three quiet ticks with two running containers: six updates since the start *)
Example ex_run3 : pool_run exF 2 (pl st0) 6 (pl st3).
Proof.
  assert (R1 : pool_run exF 2 (pl st0) (0 + length (p_active (pl st1))) (pl st1)).
  { eapply pr_quiet; [apply pr_refl | | vm_compute; lia].
    rewrite tick1. rewrite (st_split st1) at 1. reflexivity. }
  assert (R2 : pool_run exF 2 (pl st0) (0 + length (p_active (pl st1)) + length (p_active (pl st2))) (pl st2)).
  { eapply pr_quiet; [exact R1 | | vm_compute; lia].
    rewrite tick2. rewrite (st_split st2) at 1. reflexivity. }
  eapply pool_run_eq.
  - eapply pr_quiet; [exact R2 | | vm_compute; lia].
    rewrite tick3. rewrite (st_split st3) at 1. reflexivity.
  - vm_compute. reflexivity.
Qed.

(* the fourth tick recomputes the usage: one running container left, the count restarts *)
Example ex_run4 : pool_run exF 2 (pl st0) 1 (pl st4).
Proof.
  eapply pool_run_eq.
  - eapply pr_reset; [exact ex_run3 | | right | vm_compute; lia].
    + rewrite tick4. rewrite (st_split st4) at 1. reflexivity.
    + vm_compute. discriminate.
  - vm_compute. reflexivity.
Qed.

(* the general theorem applied to the example: |drift| <= (6 + 3) (2 + 3) 2^-52, and the drift is not zero *)
Example ex_pool_drift :
  ~ p_consumed (pl st3) - SM (p_active (pl st3)) == 0 /\
  Qabs (p_consumed (pl st3) - SM (p_active (pl st3))) <= (6 + 3) * ((2 + 3) * 1) * (1 # 4503599627370496).
Proof.
  split.
  - intros H. apply Qeq_bool_iff in H. vm_compute in H. discriminate.
  - assert (HF : Forall (cbd 1) (p_active (pl st0))) by constructor.
    assert (H0 : Qabs (p_consumed (pl st0) - SM (p_active (pl st0))) <= EE 2 1)
      by (apply Qle_bool_iff; vm_compute; reflexivity).
    assert (HM : 0 <= 1) by lra.
    pose proof (float_drift_bound_simple exF 1 2 (pl st0) 6 (pl st3) exF_float HM exF_bd) as B.
    change (nQ 6) with 6 in B. change (nQ 2) with 2 in B.
    apply B; [cbn; lia | cbn; lia | exact ex_run3 | exact HF | exact H0].
Qed.

(* --- D: two candidates whose exact scores differ by less than the gap and whose float scores are in
   the opposite order: A uses 46.96208577139648 of 140 GB, B uses 17.75 of 20 GB *)
Definition mA : Q := 6609325999393827 # 140737488355328.
Definition mB : Q := 71 # 4.

Example ex_swap :
  score_e mA 140 < score_e mB 20 /\ score_f mB 20 < score_f mA 140 /\
  score_e mB 20 < score_e mA 140 * (1 + gap_weak).
Proof. repeat split; vm_compute; reflexivity. Qed.

Example ex_swap_scores :
  (Qred (score_f mA 140), Qred (score_f mB 20)) =
  (4434110492495053 # 281474976710656, 8868220984990105 # 562949953421312).
Proof. vm_compute. reflexivity. Qed.

Definition mkc (id : nat) (ram mem : Q) : container :=
  {| c_id := id; c_ops := [id]; c_cpu := 1%Z; c_ram := ram; c_prio := Batch; c_opidx := 0;
     c_rest := Some [mem]; c_frozen := false; c_mem := mem; c_can_suspend := false;
     c_completed := false; c_error := false; c_ticks := 1%Z; c_susp_left := 0%Z |}.

(* B is first in the list and has the larger exact score; the float-faithful killer takes A first, the
   exact-arithmetic one B *)
Example ex_swap_order :
  victims_order exF [mkc 1 20 mB; mkc 0 140 mA] = [0; 1]%nat /\
  victims_order OomFacts.Examples.exC [mkc 1 20 mB; mkc 0 140 mA] = [1; 0]%nat.
Proof. split; vm_compute; reflexivity. Qed.

(* two candidates apart by more than the gap (scores 2 and 6): the general theorem gives the order *)
Example ex_clear_order :
  exists l1 l2 l3, victims_order exF [mkc 0 8 4; mkc 1 6 6] = l1 ++ 1%nat :: l2 ++ 0%nat :: l3.
Proof.
  apply (float_order_clearly_above_first exF _ (mkc 0 8 4) (mkc 1 6 6) exF_float);
    try (cbn; tauto); try reflexivity; try (cbn; lra).
  apply Qle_bool_iff. vm_compute. reflexivity.
Qed.

End FloatExamples.
