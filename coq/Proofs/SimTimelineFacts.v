(* C05 over WHOLE SIMULATION RUNS: the timeline of a container.

   Proofs/ContainerRunFacts.v describes a container ticked alone in an isolated world ([cticks]);
   Proofs/SimCorollaryFacts.v shows that one simulator tick gives a running container one [ctick].
   This file composes the two over the ticks of a run of any shipped scheduler.

   A. [cstep]: the container component of [ctick] is a function of the container alone (the world and the
      pool counter only decide whether the tick raises); [csteps C n c] is n such steps; whenever the isolated
      run [cticks C n w cons c] succeeds its container is [csteps C n c].
   B. the pure timeline of a fresh container [new_container id ops cpu ram pr] (no world, no hypothesis on
      dependencies): position by position as long as the demands fit, completion exactly at [total], the
      freeze at the first demand above the allocation.
   C. one simulator tick, for a container that enters the tick's active phase (running and not suspended by
      the tick, or created by an assignment of the tick): the exhaustive list of outcomes [tick_outcome].
   D. many ticks: [sim_timeline_reach] (a dichotomy over [sim_reach]: still running with state [csteps], or the
      first tick in which it left, with the reason) and [sim_run_timeline] (over [sim_run] and its logs: the
      state and the outcome in tick m when the ticks before were quiet).
   E. the predicted ticks: success reported in exactly tick t0 + total - 1 and not earlier, own-limit OOM
      reported in exactly tick t0 + off k + j and not earlier. *)
From Coq Require Import ZArith QArith List Bool Arith Lia Lqa Permutation.
Import ListNotations.
From Eudoxia Require Import Num.Rnd64 Model.Types Model.Dag Model.Lifecycle Model.Container Model.Pool
  Model.Executor Model.Sched Model.Simulator
  Proofs.ListFacts Proofs.LifecycleFacts Proofs.OomFacts Proofs.ConserveFacts Proofs.ExecLifeFacts
  Proofs.MemoryFacts Proofs.LedgerFacts Proofs.SuspendFacts Proofs.SafetyFacts
  Proofs.PriorityPoolRunFacts Proofs.PriorityRunFacts Proofs.SimReachFacts Proofs.ContainerRunFacts
  Proofs.SimCorollaryFacts.
Close Scope Q_scope.
Close Scope Z_scope.

(* ------------------------------------------------------------------------------------------ *)
(* A. the container component of [ctick]                                                        *)
(* ------------------------------------------------------------------------------------------ *)

(* [ctick] without the world and without the pool counter (where [ctick] raises, [cstep] is the identity) *)
Definition cstep (C : cfg) (c : container) : container :=
  if c_completed c then c
  else if c_frozen c then tick_elapsed c
  else
    match nth_error (c_ops c) (c_opidx c) with
    | None => c
    | Some op =>
        let rest := match c_rest c with Some r => r | None => cf_script C op (c_cpu c) end in
        match rest with
        | [] => c
        | m :: rest' =>
            let c1 := fst (set_mem C c 0%Q m) in
            if Qltb (c_ram c) m then
              tick_elapsed (with_pos c1 (c_opidx c) (Some rest) true (c_can_suspend c))
            else
              match rest' with
              | _ :: _ => tick_elapsed (with_pos c1 (c_opidx c) (Some rest') false false)
              | [] =>
                  let idx' := S (c_opidx c) in
                  if Nat.eqb idx' (length (c_ops c)) then
                    tick_elapsed (fst (mark_completed C (with_pos c1 idx' None false false) 0%Q false))
                  else tick_elapsed (with_pos c1 idx' None false true)
              end
        end
    end.

Fixpoint csteps (C : cfg) (n : nat) (c : container) : container :=
  match n with O => c | S n' => csteps C n' (cstep C c) end.

(* world independence: whatever the world and the counter, a tick that does not raise yields [cstep] *)
Theorem ctick_cstep C w cons c w1 cons1 c1 :
  ctick C w cons c = Ok (w1, cons1, c1) -> c1 = cstep C c.
Proof.
  unfold ctick, cstep. intros H.
  destruct (c_completed c); [inversion H; reflexivity|].
  destruct (c_frozen c); [inversion H; reflexivity|].
  destruct (nth_error (c_ops c) (c_opidx c)) as [op|]; [|discriminate].
  destruct (c_rest c) as [r|].
  - cbn [bind] in H.
    destruct r as [|m r']; [discriminate|].
    unfold set_mem in H |- *. cbn [fst].
    destruct (Qltb (c_ram c) m); [inversion H; reflexivity|].
    destruct r' as [|m' r'']; [|inversion H; reflexivity].
    destruct (transition (cf_static C) w op Completed) as [w2|]; [|discriminate]. cbn [bind] in H.
    destruct (Nat.eqb (S (c_opidx c)) (length (c_ops c))).
    + unfold mark_completed, set_mem in H |- *. cbn [fst]. inversion H; reflexivity.
    + inversion H; reflexivity.
  - destruct (transition (cf_static C) w op Running) as [w'|]; [|discriminate]. cbn [bind] in H.
    destruct (cf_script C op (c_cpu c)) as [|m r']; [discriminate|].
    unfold set_mem in H |- *. cbn [fst].
    destruct (Qltb (c_ram c) m); [inversion H; reflexivity|].
    destruct r' as [|m' r'']; [|inversion H; reflexivity].
    destruct (transition (cf_static C) w' op Completed) as [w2|]; [|discriminate]. cbn [bind] in H.
    destruct (Nat.eqb (S (c_opidx c)) (length (c_ops c))).
    + unfold mark_completed, set_mem in H |- *. cbn [fst]. inversion H; reflexivity.
    + inversion H; reflexivity.
Qed.

(* two ticks of the same container in different worlds / with different counters agree on the container *)
Corollary ctick_container_indep C w cons w' cons' c w1 cons1 c1 w1' cons1' c1' :
  ctick C w cons c = Ok (w1, cons1, c1) -> ctick C w' cons' c = Ok (w1', cons1', c1') -> c1 = c1'.
Proof. intros H H'. rewrite (ctick_cstep _ _ _ _ _ _ _ H), (ctick_cstep _ _ _ _ _ _ _ H'). reflexivity. Qed.

Lemma csteps_add C a b c : csteps C (a + b) c = csteps C b (csteps C a c).
Proof. revert c. induction a as [|a IH]; intros c; [reflexivity|]. cbn [plus csteps]. apply IH. Qed.

Lemma csteps_S_last C n c : csteps C (S n) c = cstep C (csteps C n c).
Proof. replace (S n) with (n + 1) by lia. rewrite csteps_add. reflexivity. Qed.

(* the isolated run of Proofs/ContainerRunFacts.v, when it succeeds, ends in [csteps] *)
Theorem cticks_csteps C : forall n w cons c w' cons' c',
  cticks C n w cons c = Ok (w', cons', c') -> c' = csteps C n c.
Proof.
  induction n as [|n IH]; intros w cons c w' cons' c' H; cbn [cticks csteps] in *.
  - inversion H; reflexivity.
  - destruct (ctick C w cons c) as [[[w1 cons1] c1]|e] eqn:K; [|discriminate].
    rewrite <- (ctick_cstep _ _ _ _ _ _ _ K). eapply IH; eauto.
Qed.

Lemma cstep_static C c :
  c_id (cstep C c) = c_id c /\ c_ops (cstep C c) = c_ops c /\ c_cpu (cstep C c) = c_cpu c /\
  c_ram (cstep C c) = c_ram c /\ c_prio (cstep C c) = c_prio c.
Proof.
  unfold cstep.
  destruct (c_completed c); [auto|]. destruct (c_frozen c); [cbn; auto|].
  destruct (nth_error _ _); [|auto].
  destruct (match c_rest c with Some r => r | None => _ end) as [|m r']; [auto|].
  unfold set_mem, mark_completed. cbn [fst].
  destruct (Qltb _ _); [cbn; auto|]. destruct r'; [|cbn; auto].
  destruct (Nat.eqb _ _); cbn; auto.
Qed.

Lemma csteps_static C n : forall c,
  c_id (csteps C n c) = c_id c /\ c_ops (csteps C n c) = c_ops c /\ c_cpu (csteps C n c) = c_cpu c /\
  c_ram (csteps C n c) = c_ram c /\ c_prio (csteps C n c) = c_prio c.
Proof.
  induction n as [|n IH]; intros c; cbn [csteps]; [auto|].
  destruct (IH (cstep C c)) as (A1 & A2 & A3 & A4 & A5). destruct (cstep_static C c) as (B1 & B2 & B3 & B4 & B5).
  repeat split; congruence.
Qed.

Lemma cstep_completed C c : c_completed c = true -> cstep C c = c.
Proof. intros H. unfold cstep. rewrite H. reflexivity. Qed.

Lemma csteps_completed C n : forall c, c_completed c = true -> csteps C n c = c.
Proof.
  induction n as [|n IH]; intros c H; cbn [csteps]; [reflexivity|]. rewrite (cstep_completed C c H). apply IH, H.
Qed.

(* ------------------------------------------------------------------------------------------ *)
(* B. the pure timeline of a fresh container                                                    *)
(* ------------------------------------------------------------------------------------------ *)

Section PureTimeline.
Variable C : cfg.
Variable id : nat.
Variable ops : list nat.
Variable cpu : Z.
Variable ram : Q.
Variable pr : prio.

Local Notation mk := (ContainerRunFacts.mk id ops cpu ram pr).
Local Notation c0 := (new_container id ops cpu ram pr).
Local Notation scr := (scr C ops cpu).
Local Notation L := (L C ops cpu).
Local Notation off := (off C ops cpu).
Local Notation total := (total C ops cpu).

Lemma cstep_mid k m m' r mem cs T :
  k < length ops -> (m <= ram)%Q ->
  cstep C (mk k (Some (m :: m' :: r)) false mem cs false false T)
  = mk k (Some (m' :: r)) false m false false false (T + 1)%Z.
Proof.
  intros Hk Hm. unfold cstep. cbn [ContainerRunFacts.mk c_completed c_frozen c_ops c_opidx c_rest].
  rewrite (nth_error_ops ops k Hk). unfold set_mem. cbn [fst ContainerRunFacts.mk c_ram c_mem].
  rewrite (cr_Qltb_false _ _ Hm). reflexivity.
Qed.

Lemma cstep_oom k m r mem cs T :
  k < length ops -> (ram < m)%Q ->
  cstep C (mk k (Some (m :: r)) false mem cs false false T)
  = mk k (Some (m :: r)) true m cs false false (T + 1)%Z.
Proof.
  intros Hk Hm. unfold cstep. cbn [ContainerRunFacts.mk c_completed c_frozen c_ops c_opidx c_rest].
  rewrite (nth_error_ops ops k Hk). unfold set_mem. cbn [fst ContainerRunFacts.mk c_ram c_mem].
  rewrite (cr_Qltb_true _ _ Hm). reflexivity.
Qed.

Lemma cstep_last_nonfinal k m mem cs T :
  S k < length ops -> (m <= ram)%Q ->
  cstep C (mk k (Some [m]) false mem cs false false T) = mk (S k) None false m true false false (T + 1)%Z.
Proof.
  intros Hk Hm. unfold cstep. cbn [ContainerRunFacts.mk c_completed c_frozen c_ops c_opidx c_rest].
  rewrite (nth_error_ops ops k) by lia. unfold set_mem. cbn [fst ContainerRunFacts.mk c_ram c_mem].
  rewrite (cr_Qltb_false _ _ Hm).
  replace (S k =? length ops) with false by (symmetry; apply Nat.eqb_neq; lia). reflexivity.
Qed.

Lemma cstep_last_final k m mem cs T :
  S k = length ops -> (m <= ram)%Q ->
  cstep C (mk k (Some [m]) false mem cs false false T) = mk (S k) None false 0%Q false true false (T + 1)%Z.
Proof.
  intros Hk Hm. unfold cstep. cbn [ContainerRunFacts.mk c_completed c_frozen c_ops c_opidx c_rest].
  rewrite (nth_error_ops ops k) by lia. unfold set_mem. cbn [fst ContainerRunFacts.mk c_ram c_mem].
  rewrite (cr_Qltb_false _ _ Hm).
  replace (S k =? length ops) with true by (symmetry; apply Nat.eqb_eq; exact Hk). reflexivity.
Qed.

Hypothesis Hne : forall k, k < length ops -> scr k <> [].

Lemma cstep_first k mem cs T :
  k < length ops ->
  cstep C (mk k None false mem cs false false T) = cstep C (mk k (Some (scr k)) false mem cs false false T).
Proof.
  intros Hk. unfold cstep. cbn [ContainerRunFacts.mk c_completed c_frozen c_ops c_opidx c_rest c_cpu].
  rewrite (nth_error_ops ops k Hk). fold (scr k).
  pose proof (Hne k Hk) as N. destruct (scr k) as [|m r]; [congruence|]. reflexivity.
Qed.

Lemma cstep_frozen k rest mem cs T :
  cstep C (mk k rest true mem cs false false T) = mk k rest true mem cs false false (T + 1)%Z.
Proof. reflexivity. Qed.

Lemma csteps_frozen n : forall k rest mem cs T,
  csteps C n (mk k rest true mem cs false false T) = mk k rest true mem cs false false (T + Z.of_nat n)%Z.
Proof.
  induction n as [|n IH]; intros k rest mem cs T.
  - cbn [csteps]. rewrite Z.add_0_r. reflexivity.
  - cbn [csteps]. rewrite cstep_frozen, IH. f_equal. lia.
Qed.

(* i ticks inside operator k whose remaining script is r, all demands fit *)
Lemma csteps_some k : k < length ops -> forall i r mem cs T,
  i < length r -> (forall i', i' < i -> (nth i' r 0 <= ram)%Q) ->
  exists mem' cs',
    csteps C i (mk k (Some r) false mem cs false false T)
    = mk k (Some (skipn i r)) false mem' cs' false false (T + Z.of_nat i)%Z.
Proof.
  intros Hk. induction i as [|i IH]; intros r mem cs T Hi Hfit.
  - exists mem, cs. cbn [csteps skipn]. rewrite Z.add_0_r. reflexivity.
  - destruct r as [|m [|m' r]]; cbn [length] in Hi; try lia.
    assert (Hm : (m <= ram)%Q) by (apply (Hfit 0); lia).
    destruct (IH (m' :: r) m false (T + 1)%Z) as (mem' & cs' & Hr).
    { cbn [length]. lia. }
    { intros i' Hi'. apply (Hfit (S i')). lia. }
    exists mem', cs'. cbn [csteps]. rewrite (cstep_mid _ _ _ _ _ _ _ Hk Hm), Hr.
    cbn [skipn]. f_equal. lia.
Qed.

(* the container after tick j (0-based) of operator k, at container time T' *)
Definition cpost (k j : nat) (T' : Z) : container :=
  if S j <? L k then mk k (Some (skipn (S j) (scr k))) false (nth j (scr k) 0%Q) false false false T'
  else if S k <? length ops then mk (S k) None false (nth j (scr k) 0%Q) true false false T'
  else mk (S k) None false 0%Q false true false T'.

Lemma c_op_run k mem cs T j :
  k < length ops -> j < L k -> (forall j', j' <= j -> (nth j' (scr k) 0 <= ram)%Q) ->
  csteps C (S j) (mk k None false mem cs false false T) = cpost k j (T + Z.of_nat (S j))%Z.
Proof.
  intros Hk Hj Hfit.
  assert (E0 : csteps C (S j) (mk k None false mem cs false false T)
               = csteps C (S j) (mk k (Some (scr k)) false mem cs false false T)).
  { cbn [csteps]. rewrite (cstep_first _ _ _ _ Hk). reflexivity. }
  rewrite E0, csteps_S_last.
  destruct (csteps_some k Hk j (scr k) mem cs T Hj) as (mem1 & cs1 & Hr).
  { intros i' Hi'. apply Hfit. lia. }
  rewrite Hr. rewrite (skipn_cons_nth (scr k) j 0%Q Hj).
  assert (Hm : (nth j (scr k) 0 <= ram)%Q) by (apply Hfit; lia).
  assert (HT : (T + Z.of_nat j + 1 = T + Z.of_nat (S j))%Z) by lia.
  assert (Hlen : length (skipn (S j) (scr k)) = L k - S j) by apply skipn_length.
  unfold cpost.
  destruct (skipn (S j) (scr k)) as [|m' r'] eqn:Esk; cbn [length] in Hlen.
  - replace (S j <? L k) with false by (symmetry; apply Nat.ltb_ge; lia).
    destruct (Nat.eq_dec (S k) (length ops)) as [Hfin|Hnf].
    + replace (S k <? length ops) with false by (symmetry; apply Nat.ltb_ge; lia).
      rewrite (cstep_last_final _ _ _ _ _ Hfin Hm), HT. reflexivity.
    + replace (S k <? length ops) with true by (symmetry; apply Nat.ltb_lt; lia).
      assert (Hk' : S k < length ops) by lia.
      rewrite (cstep_last_nonfinal _ _ _ _ _ Hk' Hm), HT. reflexivity.
  - replace (S j <? L k) with true by (symmetry; apply Nat.ltb_lt; lia).
    rewrite (cstep_mid _ _ _ _ _ _ _ Hk Hm), HT. reflexivity.
Qed.

Lemma c_boundary k : k < length ops ->
  (forall k' j', k' < k -> j' < L k' -> (nth j' (scr k') 0 <= ram)%Q) ->
  exists mem cs, csteps C (off k) c0 = mk k None false mem cs false false (Z.of_nat (off k)).
Proof.
  induction k as [|k IH]; intros Hk Hfit.
  - exists 0%Q, false. reflexivity.
  - destruct IH as (mem & cs & Hr); [lia | intros; apply Hfit; lia |].
    assert (Hk0 : k < length ops) by lia.
    pose proof (L_pos C ops cpu Hne k Hk0) as HL.
    pose proof (c_op_run k mem cs (Z.of_nat (off k)) (L k - 1) Hk0 ltac:(lia)) as Hr'.
    replace (S (L k - 1)) with (L k) in Hr' by lia.
    cbn [ContainerRunFacts.off]. rewrite csteps_add, Hr, Hr'; [|intros; apply Hfit; lia].
    unfold cpost. replace (S (L k - 1) <? L k) with false by (symmetry; apply Nat.ltb_ge; lia).
    replace (S k <? length ops) with true by (symmetry; apply Nat.ltb_lt; lia).
    eexists _, _. f_equal. lia.
Qed.

(* the timeline by position, as long as the demands fit (no world, no hypothesis on dependencies) *)
Theorem csteps_position k j :
  k < length ops -> j < L k ->
  (forall k' j', before C ops cpu k (S j) k' j' -> (nth j' (scr k') 0 <= ram)%Q) ->
  csteps C (off k + S j) c0 = cpost k j (Z.of_nat (off k + S j)).
Proof.
  intros Hk Hj Hfit.
  destruct (c_boundary k Hk) as (mem & cs & Hr).
  { intros k' j' Hk' Hj'. apply Hfit. left. split; assumption. }
  rewrite csteps_add, Hr, c_op_run; [f_equal; lia|exact Hk|exact Hj|].
  intros j' Hj'. apply Hfit. right. split; [reflexivity|lia].
Qed.

(* the freeze: the first demand above the allocation *)
Theorem csteps_oom k j :
  k < length ops -> j < L k -> (ram < nth j (scr k) 0)%Q ->
  (forall k' j', before C ops cpu k j k' j' -> (nth j' (scr k') 0 <= ram)%Q) ->
  exists cs, forall n,
    csteps C (off k + S j + n) c0
    = mk k (Some (skipn j (scr k))) true (nth j (scr k) 0%Q) cs false false (Z.of_nat (off k + S j + n)).
Proof.
  intros Hk Hj Hoom Hfit.
  destruct (c_boundary k Hk) as (mem & cs & Hr).
  { intros k' j' Hk' Hj'. apply Hfit. left. split; assumption. }
  destruct (csteps_some k Hk j (scr k) mem cs (Z.of_nat (off k)) Hj) as (mem1 & cs1 & Hr1).
  { intros i' Hi'. apply Hfit. right. split; [reflexivity|exact Hi']. }
  exists cs1. intros n.
  rewrite !csteps_add, Hr.
  assert (E0 : csteps C (S j) (mk k None false mem cs false false (Z.of_nat (off k)))
               = csteps C (S j) (mk k (Some (scr k)) false mem cs false false (Z.of_nat (off k)))).
  { cbn [csteps]. rewrite (cstep_first _ _ _ _ Hk). reflexivity. }
  rewrite E0, csteps_S_last, Hr1. rewrite (skipn_cons_nth (scr k) j 0%Q Hj).
  rewrite (cstep_oom _ _ _ _ _ _ Hk Hoom), csteps_frozen. f_equal. lia.
Qed.

(* ---- by time ---- *)

Lemma total_pos : 0 < length ops -> 0 < total.
Proof.
  intros H. unfold ContainerRunFacts.total.
  pose proof (off_lt C ops cpu Hne 0 (length ops) H (le_n _)) as X. cbn [ContainerRunFacts.off] in X. lia.
Qed.

(* success: before [total] the container is unfinished and within its allocation; at [total] (and ever
   after) it is completed without error *)
Theorem csteps_success :
  all_fit C ops cpu ram -> 0 < length ops ->
  (forall t, 0 < t < total ->
     c_completed (csteps C t c0) = false /\ (c_mem (csteps C t c0) <= ram)%Q) /\
  (forall n, csteps C (total + n) c0 = mk (length ops) None false 0%Q false true false (Z.of_nat total)).
Proof.
  intros Hfit Hops.
  assert (Hb : forall k j k' j', k < length ops -> j < L k -> before C ops cpu k (S j) k' j' ->
                 (nth j' (scr k') 0 <= ram)%Q).
  { intros k j k' j' Hk Hj [[A1 A2] | [-> A2]]; apply Hfit; auto; lia. }
  split.
  - intros t Ht. destruct (locate C ops cpu t ltac:(lia)) as (k & j & Hk & Hj & ->).
    rewrite (csteps_position k j Hk Hj (fun k' j' => Hb k j k' j' Hk Hj)).
    pose proof (pos_total C ops cpu Hne k j Hk Hj) as PT.
    unfold cpost. destruct (S j <? L k) eqn:E1.
    + cbn [ContainerRunFacts.mk c_completed c_mem]. split; [reflexivity|apply Hfit; assumption].
    + apply Nat.ltb_ge in E1. destruct (S k <? length ops) eqn:E2.
      * cbn [ContainerRunFacts.mk c_completed c_mem]. split; [reflexivity|apply Hfit; assumption].
      * apply Nat.ltb_ge in E2. exfalso. assert (X : off k + S j = total) by (apply PT; lia). lia.
  - intros n. pose proof (total_pos Hops) as TP.
    destruct (locate C ops cpu total ltac:(lia)) as (k & j & Hk & Hj & E).
    symmetry in E. pose proof (proj1 (pos_total C ops cpu Hne k j Hk Hj) E) as [E1 E2].
    rewrite csteps_add. rewrite <- E at 1.
    rewrite (csteps_position k j Hk Hj (fun k' j' => Hb k j k' j' Hk Hj)).
    unfold cpost. replace (S j <? L k) with false by (symmetry; apply Nat.ltb_ge; lia).
    replace (S k <? length ops) with false by (symmetry; apply Nat.ltb_ge; lia).
    rewrite csteps_completed by reflexivity. rewrite E, E2. reflexivity.
Qed.

(* own-limit OOM at position (k, j), the first demand above the allocation: before T = off k + S j the
   container is unfinished and within its allocation; from T on it is frozen above its allocation *)
Theorem csteps_oom_time k j :
  k < length ops -> j < L k -> (ram < nth j (scr k) 0)%Q ->
  (forall k' j', before C ops cpu k j k' j' -> (nth j' (scr k') 0 <= ram)%Q) ->
  let T := off k + S j in
  (forall t, 0 < t < T ->
     c_completed (csteps C t c0) = false /\ (c_mem (csteps C t c0) <= ram)%Q) /\
  (forall n, c_completed (csteps C (T + n) c0) = false /\ c_frozen (csteps C (T + n) c0) = true /\
             c_mem (csteps C (T + n) c0) = nth j (scr k) 0%Q /\ c_opidx (csteps C (T + n) c0) = k /\
             c_ticks (csteps C (T + n) c0) = Z.of_nat (T + n)).
Proof.
  intros Hk Hj Hoom Hfit T. split.
  - intros t Ht.
    assert (Ht' : 0 < t <= total).
    { pose proof (pos_le_total C ops cpu k j Hk Hj). unfold T in Ht. lia. }
    destruct (locate C ops cpu t Ht') as (k' & j' & Hk' & Hj' & ->).
    assert (Hbef : before C ops cpu k j k' j').
    { unfold before. destruct (lt_eq_lt_dec k' k) as [[Hlt | ->] | Hgt].
      - left. split; assumption.
      - right. split; [reflexivity|]. unfold T in Ht. lia.
      - exfalso. pose proof (off_le C ops cpu (S k) k' ltac:(lia)) as X.
        cbn [ContainerRunFacts.off] in X. unfold T in Ht. lia. }
    assert (Hb : forall k2 j2, before C ops cpu k' (S j') k2 j2 -> (nth j2 (scr k2) 0 <= ram)%Q).
    { intros k2 j2 [[A1 A2] | [-> A2]].
      - apply Hfit. destruct Hbef as [[B1 B2] | [-> B2]]; left; split; auto; lia.
      - apply Hfit. destruct Hbef as [[B1 B2] | [-> B2]]; [left; split; auto; lia|right; split; auto; lia]. }
    rewrite (csteps_position k' j' Hk' Hj' Hb).
    assert (Hm : (nth j' (scr k') 0 <= ram)%Q) by (apply Hfit; exact Hbef).
    unfold cpost. destruct (S j' <? L k') eqn:E1.
    + cbn [ContainerRunFacts.mk c_completed c_mem]. split; [reflexivity|exact Hm].
    + apply Nat.ltb_ge in E1. destruct (S k' <? length ops) eqn:E2.
      * cbn [ContainerRunFacts.mk c_completed c_mem]. split; [reflexivity|exact Hm].
      * apply Nat.ltb_ge in E2. exfalso.
        destruct Hbef as [[B1 B2] | [-> B2]]; lia.
  - destruct (csteps_oom k j Hk Hj Hoom Hfit) as (cs & Hr). intros n. unfold T. rewrite Hr.
    cbn [ContainerRunFacts.mk c_completed c_frozen c_mem c_opidx c_ticks]. auto.
Qed.
End PureTimeline.

(* ------------------------------------------------------------------------------------------ *)
(* C. one simulator tick                                                                        *)
(* ------------------------------------------------------------------------------------------ *)

Lemma new_containers_of asgs : forall next x, In x asgs ->
  exists id, next <= id /\
    In (new_container id (a_ops x) (a_cpu x) (a_ram x) (a_prio x)) (new_containers next asgs).
Proof.
  induction asgs as [|a t IH]; intros next x Hx; [destruct Hx|]. cbn [new_containers].
  destruct Hx as [->|Hx].
  - exists next. split; [lia|left; reflexivity].
  - destruct (IH (S next) x Hx) as (id & L1 & Hin). exists id. split; [lia|right; exact Hin].
Qed.

(* pool level. [c] enters the active phase of the tick: it was running and no command of the tick suspends
   it, or an assignment of the tick creates it. It is ticked once ([cstep]); then exactly one of: it has
   finished and is reported; it is above its own allocation and is reported as failed; it is within its
   allocation and the pool-level loop of the killer takes it (reported as failed); it runs on. *)
Lemma pool_tick_outcome C w next p ss asgs w' next' p' res c :
  pool_tick C w next p ss asgs = Ok (w', next', p', res) ->
  MemoryFacts.ids_ok next p ->
  (In c (p_active p) /\ ~ In (c_id c) (map su_cid ss)) \/ In c (new_containers next asgs) ->
  (exists wa ca wb cb, ctick C wa ca c = Ok (wb, cb, cstep C c)) /\
  ((c_completed (cstep C c) = true /\ In (result_of (p_id p) (cstep C c)) res)
   \/ (c_completed (cstep C c) = false /\ (c_ram (cstep C c) < c_mem (cstep C c))%Q /\
       In (result_of (p_id p) (dead (cstep C c))) res)
   \/ (c_completed (cstep C c) = false /\ (c_mem (cstep C c) <= c_ram (cstep C c))%Q /\
       In (result_of (p_id p) (dead (cstep C c))) res)
   \/ (c_completed (cstep C c) = false /\ (c_mem (cstep C c) <= c_ram (cstep C c))%Q /\
       In (cstep C c) (p_active p'))).
Proof.
  intros H I Hc. apply MemoryFacts.pool_tick_view in H. destruct H.
  destruct (act4_ids _ _ _ _ _ _ _ _ _ _ _ _ _ _ _ _ _ _ I tv_p1 tv_p2 tv_p4) as (_ & ND & _).
  assert (H2 : In c act2).
  { apply LedgerFacts.phase2_spec in tv_p2. destruct tv_p2 as (_ & -> & _). apply in_or_app.
    destruct Hc as [[Hc Hn]|Hc]; [left|right; exact Hc].
    unfold MemoryFacts.phase1 in tv_p1. destruct ss as [|s0 t0]; [inversion tv_p1; subst; exact Hc|].
    sbok tv_p1 u V. sbok tv_p1 r1 A. destruct r1 as [[wa acta] singa]. inversion tv_p1; subst.
    eapply apply_suspends_keeps; eauto. }
  pose proof (tick_active_spec _ _ _ _ _ _ _ tv_p4) as (_ & _ & F2).
  destruct (Forall2_in_l' _ _ _ F2 _ H2) as (c1 & H4 & wa & ca & wb & cb & _ & K & _).
  pose proof (ctick_cstep _ _ _ _ _ _ _ K) as E1. subst c1.
  split; [exists wa, ca, wb, cb; exact K|].
  set (c1 := cstep C c) in *.
  destruct (oom_killer_spec _ _ _ _ _ _ _ _ ND tv_p5)
    as (wk & consk & actk & k & vs & K1 & Ek & _ & Hids & E5 & _ & Hvs & _).
  pose proof (kill_over_limit_spec _ _ _ _ _ _ _ K1) as (_ & Hover & _).
  rewrite Forall_forall in Hover, Hvs.
  assert (NDk : NoDup (map c_id actk)) by (rewrite Ek, map_kill_when_ids; exact ND).
  set (ck := kill_when over_limit c1).
  assert (Hck : In ck actk) by (rewrite Ek; apply in_map; exact H4).
  set (c5 := kill_if (firstn k (victims_order C actk)) ck).
  assert (H5 : In c5 act5) by (rewrite E5; apply in_map; exact Hck).
  assert (Hres : c_completed c5 = true -> In (result_of (p_id p) c5) res).
  { intros Ht. rewrite tv_res. apply in_map. apply filter_In. split; assumption. }
  destruct (over_limit c1) eqn:O.
  - (* above its own allocation *)
    pose proof (Hover c1 H4 O) as Hc0.
    assert (E5' : c5 = dead c1).
    { unfold c5, ck, kill_if, kill_when. rewrite O. destruct (memb _ _); reflexivity. }
    right. left. split; [exact Hc0|]. split; [apply over_limit_spec; exact O|].
    rewrite <- E5'. apply Hres. rewrite E5'. reflexivity.
  - assert (Eck : ck = c1) by (unfold ck; apply kill_when_other; exact O).
    apply Qltb_false in O.
    destruct (memb (c_id c1) (firstn k (victims_order C actk))) eqn:M.
    + (* a victim of the pool-level loop *)
      assert (E5' : c5 = dead c1).
      { unfold c5. rewrite Eck. apply kill_if_hit. apply memb_In. exact M. }
      apply memb_In in M. rewrite <- Hids in M.
      apply in_map_iff in M. destruct M as (v & Ev & Hv). destruct (Hvs v Hv) as [Hin Sc].
      assert (Evc : v = c1).
      { apply (NoDup_ids_inj actk); auto. rewrite <- Eck. exact Hck. }
      subst v. apply scorable_spec in Sc. destruct Sc as [Sc _].
      right. right. left. split; [exact Sc|]. split; [exact O|].
      rewrite <- E5'. apply Hres. rewrite E5'. reflexivity.
    + assert (E5' : c5 = c1).
      { unfold c5. rewrite Eck. apply kill_if_miss. apply memb_false. exact M. }
      destruct (c_completed c1) eqn:Cc.
      * left. split; [reflexivity|]. rewrite <- E5'. apply Hres. rewrite E5'. exact Cc.
      * right. right. right. split; [reflexivity|]. split; [exact O|].
        rewrite tv_active. apply filter_In. split; [rewrite <- E5'; exact H5|]. rewrite Cc. reflexivity.
Qed.

(* simulator level: what a tick (log [lg], state after it [s']) does to a container of pool [i] whose state
   after the tick's [ctick] is [c1] *)
Definition tick_outcome (s' : sim) (lg : tick_log) (i : nat) (c1 : container) : Prop :=
  (* it has finished by itself and is reported *)
  (c_completed c1 = true /\ In (result_of i c1) (tl_results lg))
  (* it is above its own allocation: killed and reported as failed *)
  \/ (c_completed c1 = false /\ (c_ram c1 < c_mem c1)%Q /\ In (result_of i (dead c1)) (tl_results lg))
  (* it is within its allocation and the pool-level loop of the killer takes it *)
  \/ (c_completed c1 = false /\ (c_mem c1 <= c_ram c1)%Q /\ In (result_of i (dead c1)) (tl_results lg))
  (* it runs on: in the running list of its pool after the tick, and no result of the tick carries its id *)
  \/ (c_completed c1 = false /\ (c_mem c1 <= c_ram c1)%Q /\
      (exists p', nth_error (e_pools (sm_exec s')) i = Some p' /\ In c1 (p_active p')) /\
      forall r, In r (tl_results lg) -> r_cid r <> c_id c1).

Section SimTick.
Variable C : cfg.
Variable a : algo.
Variables (np : nat) (cpu : Z) (ram : Q).

Lemma sim_reach_pool_id t s i p :
  sim_reach C a 0%Z (init_sim C np cpu ram) t s ->
  nth_error (e_pools (sm_exec s)) i = Some p -> p_id p = i.
Proof.
  intros R Hi. destruct (sim_reach_hist _ _ _ _ _ _ _ R) as [h RH].
  apply ledger_wf_reach in RH. destruct RH as [WF _]. unfold pools_wf in WF.
  pose proof (map_nth_error p_id _ _ Hi) as X. rewrite WF in X.
  assert (Li : i < length (e_pools (sm_exec s))) by (apply nth_error_Some; congruence).
  rewrite (nth_error_nth' (seq 0 (length (e_pools (sm_exec s)))) 0) in X by (rewrite seq_length; exact Li).
  rewrite seq_nth in X by exact Li. inversion X. reflexivity.
Qed.

(* a container in a pool after a tick has no result in that tick *)
Lemma sim_tick_present_no_result t s newp s' lg i p' c :
  sim_reach C a 0%Z (init_sim C np cpu ram) t s ->
  sim_tick C a t s newp = Ok (s', lg) ->
  nth_error (e_pools (sm_exec s')) i = Some p' -> In c (p_active p') ->
  forall r, In r (tl_results lg) -> r_cid r <> c_id c.
Proof.
  intros R T Hi Hc r Hr E. destruct (sim_reach_hist _ _ _ _ _ _ _ R) as [h RH].
  destruct (sim_tick_exec_step _ _ _ _ _ _ _ T) as [X _].
  pose proof (rh_step _ _ _ _ _ _ _ _ RH X) as RH'.
  apply (present_not_in_results _ _ _ _ _ _ p' c RH' (nth_error_In _ _ Hi)).
  - unfold pool_conts. apply in_or_app. left. exact Hc.
  - rewrite <- E. apply in_map. apply in_or_app. right. exact Hr.
Qed.

Lemma sim_tick_outcome_gen t s newp s' lg i p c :
  sim_reach C a 0%Z (init_sim C np cpu ram) t s ->
  sim_tick C a t s newp = Ok (s', lg) ->
  nth_error (e_pools (sm_exec s)) i = Some p ->
  (forall n, e_next (sm_exec s) <= n ->
     (In c (p_active p) /\ ~ In (c_id c) (map su_cid (mine_s p (tl_susp lg)))) \/
     In c (new_containers n (mine_a p (tl_asgs lg)))) ->
  (exists wa ca wb cb, ctick C wa ca c = Ok (wb, cb, cstep C c)) /\ tick_outcome s' lg i (cstep C c).
Proof.
  intros R T Hi Hc.
  pose proof (sim_reach_pool_id _ _ _ _ R Hi) as Ep.
  destruct (sim_tick_pool_at _ _ _ _ _ _ _ _ _ T Hi) as (w0 & p' & res & M & Hi' & Hinc & P).
  destruct P as (w & n & w' & n' & Ln & _ & _ & PT). cbn [fst snd] in PT.
  pose proof (reach_ids_ok _ _ _ _ _ (sim_reach_memory C a np cpu ram t s R)) as J.
  rewrite Forall_forall in J.
  pose proof (MemoryFacts.ids_ok_mono _ _ p Ln (J p (nth_error_In _ _ Hi))) as I.
  destruct (pool_tick_outcome _ _ _ _ _ _ _ _ _ _ _ PT I (Hc n Ln)) as [K O]. rewrite Ep in O.
  split; [exact K|]. unfold tick_outcome.
  destruct O as [(A1 & A2)|[(A1 & A2 & A3)|[(A1 & A2 & A3)|(A1 & A2 & A3)]]].
  - left. split; [exact A1|apply Hinc; exact A2].
  - right. left. split; [exact A1|]. split; [exact A2|apply Hinc; exact A3].
  - right. right. left. split; [exact A1|]. split; [exact A2|apply Hinc; exact A3].
  - right. right. right. split; [exact A1|]. split; [exact A2|]. split; [exists p'; split; assumption|].
    eapply sim_tick_present_no_result; eauto.
Qed.

(* a running container that no command of the tick suspends (a command for its id AND its pool) *)
Theorem sim_tick_active_outcome t s newp s' lg i p c :
  sim_reach C a 0%Z (init_sim C np cpu ram) t s ->
  sim_tick C a t s newp = Ok (s', lg) ->
  nth_error (e_pools (sm_exec s)) i = Some p -> In c (p_active p) ->
  (forall su, In su (tl_susp lg) -> su_cid su = c_id c -> su_pool su <> Z.of_nat i) ->
  (exists wa ca wb cb, ctick C wa ca c = Ok (wb, cb, cstep C c)) /\ tick_outcome s' lg i (cstep C c).
Proof.
  intros R T Hi Hc Hq. pose proof (sim_reach_pool_id _ _ _ _ R Hi) as Ep.
  eapply sim_tick_outcome_gen; eauto. intros n _. left. split; [exact Hc|].
  intros X. apply in_map_iff in X. destruct X as (su & E & Hsu). apply filter_In in Hsu.
  destruct Hsu as [Hsu B]. apply Z.eqb_eq in B. rewrite Ep in B. exact (Hq su Hsu E B).
Qed.

(* a container created by an assignment of the tick: it gets a fresh id and its first [ctick] in this tick *)
Theorem sim_tick_created_outcome t s newp s' lg i x :
  sim_reach C a 0%Z (init_sim C np cpu ram) t s ->
  sim_tick C a t s newp = Ok (s', lg) ->
  In x (tl_asgs lg) -> a_pool x = Z.of_nat i ->
  exists id, e_next (sm_exec s) <= id /\
    let c0 := new_container id (a_ops x) (a_cpu x) (a_ram x) (a_prio x) in
    (exists wa ca wb cb, ctick C wa ca c0 = Ok (wb, cb, cstep C c0)) /\ tick_outcome s' lg i (cstep C c0).
Proof.
  intros R T Hx Ei.
  destruct (sim_tick_exec_step _ _ _ _ _ _ _ T) as [X _].
  unfold exec_step in X. sbok X w0 M.
  apply exec_tick_ok_inv in X. cbn [e_world e_pools e_next] in X. destruct X as (_ & B2 & _).
  rewrite forallb_forall in B2. specialize (B2 x Hx). unfold pool_in_range in B2.
  apply andb_true_iff in B2. destruct B2 as [_ B2]. apply Z.ltb_lt in B2.
  assert (Li : i < length (e_pools (sm_exec s))) by lia.
  destruct (nth_error (e_pools (sm_exec s)) i) as [p|] eqn:Hi; [|apply nth_error_None in Hi; lia].
  pose proof (sim_reach_pool_id _ _ _ _ R Hi) as Ep.
  assert (Hmine : In x (mine_a p (tl_asgs lg))).
  { apply filter_In. split; [exact Hx|]. apply Z.eqb_eq. rewrite Ep. exact Ei. }
  (* the id depends on the counter the pool tick starts with: take it from the tick itself *)
  destruct (sim_tick_pool_at _ _ _ _ _ _ _ _ _ T Hi) as (w0' & p' & res & M' & Hi' & Hinc & P).
  destruct P as (w & n & w' & n' & Ln & _ & _ & PT). cbn [fst snd] in PT.
  destruct (new_containers_of _ n x Hmine) as (id & Lid & Hin).
  exists id. split; [lia|]. cbv zeta.
  set (c0 := new_container id (a_ops x) (a_cpu x) (a_ram x) (a_prio x)) in *.
  pose proof (reach_ids_ok _ _ _ _ _ (sim_reach_memory C a np cpu ram t s R)) as J.
  rewrite Forall_forall in J.
  pose proof (MemoryFacts.ids_ok_mono _ _ p Ln (J p (nth_error_In _ _ Hi))) as I.
  destruct (pool_tick_outcome _ _ _ _ _ _ _ _ _ _ c0 PT I (or_intror Hin)) as [K O]. rewrite Ep in O.
  split; [exact K|]. unfold tick_outcome.
  destruct O as [(A1 & A2)|[(A1 & A2 & A3)|[(A1 & A2 & A3)|(A1 & A2 & A3)]]].
  - left. split; [exact A1|apply Hinc; exact A2].
  - right. left. split; [exact A1|]. split; [exact A2|apply Hinc; exact A3].
  - right. right. left. split; [exact A1|]. split; [exact A2|apply Hinc; exact A3].
  - right. right. right. split; [exact A1|]. split; [exact A2|]. split; [exists p'; split; assumption|].
    eapply sim_tick_present_no_result; eauto.
Qed.

End SimTick.

(* ------------------------------------------------------------------------------------------ *)
(* D. many ticks                                                                                *)
(* ------------------------------------------------------------------------------------------ *)

Lemma dead_id c : c_id (dead c) = c_id c.
Proof. reflexivity. Qed.

Lemma susp_dec (l : list susp) (i id : nat) :
  (exists su, In su l /\ su_cid su = id /\ su_pool su = Z.of_nat i) \/
  (forall su, In su l -> su_cid su = id -> su_pool su <> Z.of_nat i).
Proof.
  induction l as [|h t IH]; [right; intros su []|].
  destruct IH as [(su & A & B)|IH]; [left; exists su; split; [right; exact A|exact B]|].
  destruct (Nat.eq_dec (su_cid h) id) as [E1|N1].
  - destruct (Z.eq_dec (su_pool h) (Z.of_nat i)) as [E2|N2].
    + left. exists h. split; [left; reflexivity|]. split; assumption.
    + right. intros su [<-|Hsu] E; [exact N2|apply IH; assumption].
  - right. intros su [<-|Hsu] E; [contradiction|apply IH; assumption].
Qed.

(* how a running container in state [c] leaves the running list in a tick with log [lg] *)
Definition leaves (C : cfg) (lg : tick_log) (i : nat) (c : container) : Prop :=
  (* a suspension command of the tick names it (C10_sim_accepted: it is moved to the suspending list) *)
  (exists su, In su (tl_susp lg) /\ su_cid su = c_id c /\ su_pool su = Z.of_nat i)
  (* this tick's [ctick] finishes it: reported, successful iff it had no error *)
  \/ (c_completed (cstep C c) = true /\ In (result_of i (cstep C c)) (tl_results lg))
  (* this tick's [ctick] takes it above its own allocation: killed, reported as failed *)
  \/ (c_completed (cstep C c) = false /\ (c_ram (cstep C c) < c_mem (cstep C c))%Q /\
      In (result_of i (dead (cstep C c))) (tl_results lg))
  (* within its allocation, victim of the pool-level loop of the killer: reported as failed *)
  \/ (c_completed (cstep C c) = false /\ (c_mem (cstep C c) <= c_ram (cstep C c))%Q /\
      In (result_of i (dead (cstep C c))) (tl_results lg)).

Section SimTimeline.
Variable C : cfg.
Variable a : algo.
Variables (np : nat) (cpu : Z) (ram : Q).

(* the dichotomy, for every path of the simulator: j ticks after a state in which [c] runs in pool [i] it
   still runs there, in state [csteps C j c] (one [ctick] per simulator tick), or there is a FIRST tick
   t + m (m < j) in which it left the running list: until then it ran ([csteps C m c] in the state before
   that tick), and that tick suspended it, finished it, or killed it *)
Theorem sim_timeline_reach t s t' s' i p c :
  sim_reach C a 0%Z (init_sim C np cpu ram) t s ->
  sim_reach C a t s t' s' ->
  nth_error (e_pools (sm_exec s)) i = Some p -> In c (p_active p) ->
  (exists p', nth_error (e_pools (sm_exec s')) i = Some p' /\ In (csteps C (Z.to_nat (t' - t)) c) (p_active p'))
  \/
  (exists m sa newp sb lg pa,
     (Z.of_nat m < t' - t)%Z /\
     sim_reach C a t s (t + Z.of_nat m)%Z sa /\ sim_tick C a (t + Z.of_nat m)%Z sa newp = Ok (sb, lg) /\
     sim_reach C a (t + Z.of_nat m + 1)%Z sb t' s' /\
     nth_error (e_pools (sm_exec sa)) i = Some pa /\ In (csteps C m c) (p_active pa) /\
     leaves C lg i (csteps C m c)).
Proof.
  intros R0 R Hi Hc. revert R0.
  induction R as [t s|t s t1 s1 newp s' lg R IH T]; intros R0.
  - left. exists p. split; [exact Hi|]. replace (Z.to_nat (t - t)) with 0 by lia. exact Hc.
  - pose proof (sim_reach_le _ _ _ _ _ _ R) as [Lt _].
    pose proof (sim_reach_trans _ _ _ _ _ _ _ _ R0 R) as R1.
    destruct (IH Hi R0) as [(p1 & Hi1 & Hc1)|(m & sa & np' & sb & lg' & pa & A1 & A2 & A3 & A4 & A5 & A6 & A7)].
    + set (j := Z.to_nat (t1 - t)) in *.
      assert (Ej : (t1 = t + Z.of_nat j)%Z) by (unfold j; lia).
      destruct (susp_dec (tl_susp lg) i (c_id (csteps C j c))) as [Hs|Hq].
      * right. exists j, s1, newp, s', lg, p1. split; [lia|]. rewrite <- Ej.
        split; [exact R|]. split; [exact T|]. split; [constructor|]. split; [exact Hi1|]. split; [exact Hc1|].
        left. exact Hs.
      * destruct (sim_tick_active_outcome C a np cpu ram _ _ _ _ _ _ _ _ R1 T Hi1 Hc1 Hq) as [_ O].
        assert (ES : csteps C (Z.to_nat (t1 + 1 - t)) c = cstep C (csteps C j c)).
        { replace (Z.to_nat (t1 + 1 - t)) with (S j) by (unfold j; lia). apply csteps_S_last. }
        destruct O as [O|[O|[O|(O1 & O2 & O3 & _)]]].
        -- right. exists j, s1, newp, s', lg, p1. split; [lia|]. rewrite <- Ej.
           split; [exact R|]. split; [exact T|]. split; [constructor|]. split; [exact Hi1|]. split; [exact Hc1|].
           right. left. exact O.
        -- right. exists j, s1, newp, s', lg, p1. split; [lia|]. rewrite <- Ej.
           split; [exact R|]. split; [exact T|]. split; [constructor|]. split; [exact Hi1|]. split; [exact Hc1|].
           right. right. left. exact O.
        -- right. exists j, s1, newp, s', lg, p1. split; [lia|]. rewrite <- Ej.
           split; [exact R|]. split; [exact T|]. split; [constructor|]. split; [exact Hi1|]. split; [exact Hc1|].
           right. right. right. exact O.
        -- left. rewrite ES. exact O3.
    + right. exists m, sa, np', sb, lg', pa. split; [lia|]. split; [exact A2|]. split; [exact A3|].
      split; [econstructor; [exact A4|exact T]|]. split; [exact A5|]. split; [exact A6|exact A7].
Qed.

(* the same along [sim_run], whose logs name the ticks: if no result of the first m ticks carries the id of
   [c] and no suspension command of the first m + 1 ticks names it, then [c] is ticked in each of these ticks:
   before tick m (counted from the start of this run) it runs in state [csteps C m c], and tick m has one of the
   four outcomes for [csteps C (S m) c] *)
Theorem sim_run_timeline : forall arrivals t s sf logs oe i p c,
  sim_reach C a 0%Z (init_sim C np cpu ram) t s ->
  sim_run C a t s arrivals = (sf, logs, oe) ->
  nth_error (e_pools (sm_exec s)) i = Some p -> In c (p_active p) ->
  forall m lg, nth_error logs m = Some lg ->
    (forall m' lg', m' < m -> nth_error logs m' = Some lg' ->
       forall r, In r (tl_results lg') -> r_cid r <> c_id c) ->
    (forall m' lg', m' <= m -> nth_error logs m' = Some lg' ->
       forall su, In su (tl_susp lg') -> su_cid su = c_id c -> su_pool su <> Z.of_nat i) ->
    exists sa newp sb pa,
      sim_reach C a t s (t + Z.of_nat m)%Z sa /\ sim_tick C a (t + Z.of_nat m)%Z sa newp = Ok (sb, lg) /\
      nth_error (e_pools (sm_exec sa)) i = Some pa /\ In (csteps C m c) (p_active pa) /\
      tick_outcome sb lg i (csteps C (S m) c).
Proof.
  induction arrivals as [|newp rest IH]; intros t s sf logs oe i p c R0 H Hi Hc m lg Hm Hres Hsus;
    cbn [sim_run] in H.
  - inversion H; subst. destruct m; discriminate.
  - destruct (sim_tick C a t s newp) as [[s1 lg1]|e] eqn:T; [|inversion H; subst; destruct m; discriminate].
    destruct (sim_run C a (t + 1)%Z s1 rest) as [[sf' logs'] e'] eqn:R'. inversion H; subst sf logs oe.
    assert (Hq0 : forall su, In su (tl_susp lg1) -> su_cid su = c_id c -> su_pool su <> Z.of_nat i).
    { apply (Hsus 0 lg1); [lia|reflexivity]. }
    destruct (sim_tick_active_outcome C a np cpu ram _ _ _ _ _ _ _ _ R0 T Hi Hc Hq0) as [_ O].
    destruct m as [|m].
    + cbn [nth_error] in Hm. inversion Hm; subst lg1.
      exists s, newp, s1, p. replace (t + Z.of_nat 0)%Z with t by lia.
      split; [constructor|]. split; [exact T|]. split; [exact Hi|]. split; [exact Hc|exact O].
    + cbn [nth_error] in Hm.
      destruct (cstep_static C c) as (Eid & _).
      assert (Hn0 : forall r, In r (tl_results lg1) -> r_cid r <> c_id c).
      { apply (Hres 0 lg1); [lia|reflexivity]. }
      destruct O as [(_ & O)|[(_ & _ & O)|[(_ & _ & O)|(_ & _ & (p1 & Hi1 & Hc1) & _)]]];
        try (exfalso; apply (Hn0 _ O); cbn [result_of r_cid]; rewrite ?dead_id; exact Eid).
      assert (R1 : sim_reach C a 0%Z (init_sim C np cpu ram) (t + 1)%Z s1) by (econstructor; eauto).
      destruct (IH _ _ _ _ _ i p1 (cstep C c) R1 R' Hi1 Hc1 m lg Hm) as (sa & np' & sb & pa & B1 & B2 & B3 & B4 & B5).
      { intros m' lg' Lm Hl. rewrite Eid. apply (Hres (S m') lg'); [lia|exact Hl]. }
      { intros m' lg' Lm Hl. rewrite Eid. apply (Hsus (S m') lg'); [lia|exact Hl]. }
      exists sa, np', sb, pa.
      replace (t + Z.of_nat (S m))%Z with (t + 1 + Z.of_nat m)%Z by lia.
      split; [eapply sim_reach_front; eauto|]. split; [exact B2|]. split; [exact B3|]. split; [exact B4|exact B5].
Qed.

End SimTimeline.

(* ------------------------------------------------------------------------------------------ *)
(* D'. the age invariant: every running container of every state of every run is its own fresh    *)
(*     container after [c_ticks] steps -- its whole state is a function of its assignment and age *)
(* ------------------------------------------------------------------------------------------ *)

Definition fresh_of (c : container) : container :=
  new_container (c_id c) (c_ops c) (c_cpu c) (c_ram c) (c_prio c).

Definition aged (C : cfg) (c : container) : Prop :=
  c_completed c = false /\ (0 <= c_ticks c)%Z /\ c = csteps C (Z.to_nat (c_ticks c)) (fresh_of c).

Lemma ctick_ticks C w cons c w1 cons1 c1 :
  ctick C w cons c = Ok (w1, cons1, c1) -> c_completed c = false -> c_ticks c1 = (c_ticks c + 1)%Z.
Proof.
  unfold ctick. intros H Hc. rewrite Hc in H.
  destruct (c_frozen c); [inversion H; reflexivity|].
  destruct (nth_error (c_ops c) (c_opidx c)) as [op|]; [|discriminate].
  destruct (c_rest c) as [r|].
  - cbn [bind] in H.
    destruct r as [|m r']; [discriminate|].
    unfold set_mem in H.
    destruct (Qltb (c_ram c) m); [inversion H; reflexivity|].
    destruct r' as [|m' r'']; [|inversion H; reflexivity].
    destruct (transition (cf_static C) w op Completed) as [w2|]; [|discriminate]. cbn [bind] in H.
    destruct (Nat.eqb (S (c_opidx c)) (length (c_ops c))).
    + unfold mark_completed, set_mem in H. inversion H; reflexivity.
    + inversion H; reflexivity.
  - destruct (transition (cf_static C) w op Running) as [w'|]; [|discriminate]. cbn [bind] in H.
    destruct (cf_script C op (c_cpu c)) as [|m r']; [discriminate|].
    unfold set_mem in H.
    destruct (Qltb (c_ram c) m); [inversion H; reflexivity|].
    destruct r' as [|m' r'']; [|inversion H; reflexivity].
    destruct (transition (cf_static C) w' op Completed) as [w2|]; [|discriminate]. cbn [bind] in H.
    destruct (Nat.eqb (S (c_opidx c)) (length (c_ops c))).
    + unfold mark_completed, set_mem in H. inversion H; reflexivity.
    + inversion H; reflexivity.
Qed.

Lemma fresh_of_cstep C c : fresh_of (cstep C c) = fresh_of c.
Proof. destruct (cstep_static C c) as (A1 & A2 & A3 & A4 & A5). unfold fresh_of. congruence. Qed.

Lemma aged_step C w cons c w1 cons1 c1 :
  ctick C w cons c = Ok (w1, cons1, c1) -> aged C c -> c_completed c1 = false -> aged C c1.
Proof.
  intros K (A1 & A2 & A3) Hc1. pose proof (ctick_ticks _ _ _ _ _ _ _ K A1) as Et.
  pose proof (ctick_cstep _ _ _ _ _ _ _ K) as E1.
  split; [exact Hc1|]. split; [lia|].
  rewrite Et. replace (Z.to_nat (c_ticks c + 1)) with (S (Z.to_nat (c_ticks c))) by lia.
  rewrite csteps_S_last. rewrite E1 at 1. rewrite E1, fresh_of_cstep, <- A3. reflexivity.
Qed.

Lemma aged_new n asgs c : In c (new_containers n asgs) -> forall C, aged C c.
Proof.
  revert n. induction asgs as [|x t IH]; intros n H C; [destruct H|]. cbn [new_containers] in H.
  destruct H as [<-|H]; [|eapply IH; eauto].
  split; [reflexivity|]. split; [cbn; lia|]. reflexivity.
Qed.

(* every container running after a pool tick was ticked in it: it ran before, or the tick created it *)
Lemma pool_tick_active_origin C w next p ss asgs w' next' p' res c' :
  pool_tick C w next p ss asgs = Ok (w', next', p', res) -> In c' (p_active p') ->
  c_completed c' = false /\
  exists c2 wa ca wb cb, (In c2 (p_active p) \/ In c2 (new_containers next asgs)) /\
    ctick C wa ca c2 = Ok (wb, cb, c').
Proof.
  intros H Hc. apply MemoryFacts.pool_tick_view in H. destruct H.
  rewrite tv_active in Hc. apply filter_In in Hc. destruct Hc as [H5 Hn]. apply negb_true_iff in Hn.
  split; [exact Hn|].
  destruct (MemoryFacts.oom_killer_alive _ _ _ _ _ _ _ _ tv_p5 c' H5 Hn) as [H4 _].
  pose proof (tick_active_spec _ _ _ _ _ _ _ tv_p4) as (_ & _ & F2).
  destruct (Forall2_In_right _ _ _ _ F2 H4) as (c2 & H2 & wa & ca & wb & cb & _ & K & _).
  exists c2, wa, ca, wb, cb. split; [|exact K].
  apply LedgerFacts.phase2_spec in tv_p2. destruct tv_p2 as (_ & -> & _).
  apply in_app_or in H2. destruct H2 as [H2|H2]; [left|right; exact H2].
  apply MemoryFacts.phase1_spec in tv_p1. destruct tv_p1 as (Hincl & _). apply Hincl. exact H2.
Qed.

Theorem sim_reach_aged C a np cpu ram t s :
  sim_reach C a 0%Z (init_sim C np cpu ram) t s ->
  forall p, In p (e_pools (sm_exec s)) -> forall c, In c (p_active p) -> aged C c.
Proof.
  intros R.
  apply (sim_reach_inv C a (fun s => forall p, In p (e_pools (sm_exec s)) -> forall c, In c (p_active p) -> aged C c))
    with (2 := R).
  - intros t1 s1 newp s' lg P T p' Hp' c' Hc'.
    destruct (sim_tick_pools _ _ _ _ _ _ _ T) as (w0 & xs & M & F & E1 & E2 & _).
    rewrite E1 in Hp'. apply in_map_iff in Hp'. destruct Hp' as (x & <- & Hx).
    destruct (Forall2_in_r' _ _ _ F _ Hx) as (i & p & A1 & A2 & (w & n & w' & n' & _ & _ & _ & PT)).
    destruct (pool_tick_active_origin _ _ _ _ _ _ _ _ _ _ _ PT Hc') as (Hn & c2 & wa & ca & wb & cb & Ho & K).
    eapply aged_step; [exact K| |exact Hn].
    destruct Ho as [Ho|Ho]; [eapply P; [eapply nth_error_In; eauto|exact Ho]|eapply aged_new; eauto].
  - unfold init_sim, init_estate. cbn [sm_exec e_pools]. intros p Hp c Hc.
    apply in_map_iff in Hp. destruct Hp as (i & <- & _). destruct Hc.
Qed.

(* ------------------------------------------------------------------------------------------ *)
(* E. the predicted ticks                                                                       *)
(* ------------------------------------------------------------------------------------------ *)

Lemma csteps_no_ops C n : forall c, c_ops c = [] -> c_completed c = false -> c_frozen c = false ->
  csteps C n c = c.
Proof.
  induction n as [|n IH]; intros c E Hc Hf; cbn [csteps]; [reflexivity|].
  assert (X : cstep C c = c).
  { unfold cstep. rewrite Hc, Hf, E. destruct (c_opidx c); reflexivity. }
  rewrite X. apply IH; assumption.
Qed.

(* a running container that is ticked without an exception has operators *)
Lemma aged_ticked_ops C c wa ca wb cb c1 :
  aged C c -> ctick C wa ca c = Ok (wb, cb, c1) -> 0 < length (c_ops c).
Proof.
  intros (A1 & A2 & A3) K. destruct (c_ops c) as [|o t] eqn:E; [exfalso|cbn; lia].
  assert (X : c = fresh_of c).
  { rewrite A3 at 1. apply csteps_no_ops; unfold fresh_of; cbn; [exact E|reflexivity|reflexivity]. }
  rewrite X in K. unfold ctick, fresh_of in K. cbn [new_container c_completed c_frozen c_ops c_opidx] in K.
  rewrite E in K. cbn in K. discriminate.
Qed.

Section Predicted.
Variable C : cfg.
Variable a : algo.
Variables (np : nat) (cpu : Z) (ram : Q).

(* while [csteps] says "unfinished and within the allocation", a container that no command suspends and
   that is not reported as failed is not reported at all *)
Lemma quiet_prefix arrivals t s sf logs oe i p c M :
  sim_reach C a 0%Z (init_sim C np cpu ram) t s ->
  sim_run C a t s arrivals = (sf, logs, oe) ->
  nth_error (e_pools (sm_exec s)) i = Some p -> In c (p_active p) ->
  (forall m, m < M -> c_completed (csteps C (S m) c) = false /\
                      (c_mem (csteps C (S m) c) <= c_ram c)%Q) ->
  (forall m lg, m < M -> nth_error logs m = Some lg ->
     forall su, In su (tl_susp lg) -> su_cid su = c_id c -> su_pool su <> Z.of_nat i) ->
  (forall m lg, m < M -> nth_error logs m = Some lg ->
     forall r, In r (tl_results lg) -> r_cid r = c_id c -> r_err r = false) ->
  forall m lg, m < M -> nth_error logs m = Some lg -> forall r, In r (tl_results lg) -> r_cid r <> c_id c.
Proof.
  intros R0 H Hi Hc Hpure Hsus Hnf m.
  induction m as [m IHm] using (well_founded_induction lt_wf). intros lg Lm Hl.
  destruct (sim_run_timeline C a np cpu ram _ _ _ _ _ _ _ _ _ R0 H Hi Hc m lg Hl)
    as (sa & newp & sb & pa & _ & _ & _ & _ & O).
  { intros m' lg' L' Hl'. apply (IHm m' L' lg'); [lia|exact Hl']. }
  { intros m' lg' L' Hl'. apply (Hsus m' lg'); [lia|exact Hl']. }
  destruct (Hpure m Lm) as [P1 P2].
  destruct (csteps_static C (S m) c) as (Eid & _ & _ & Eram & _).
  destruct O as [(O1 & _)|[(_ & O2 & _)|[(_ & _ & O3)|(_ & _ & _ & O4)]]].
  - congruence.
  - exfalso. rewrite Eram in O2. exact (Qlt_not_le _ _ O2 P2).
  - exfalso. pose proof (Hnf m lg Lm Hl _ O3) as X. cbn [result_of r_cid r_err dead c_id c_error] in X.
    specialize (X Eid). discriminate.
  - intros r Hr. rewrite <- Eid. apply O4. exact Hr.
Qed.

(* SUCCESS. [c] runs in pool [i] in a state of a run; the demands of its operators (run with its CPUs) never
   exceed its allocation. Its age is [c_ticks c] < total. If in the following ticks no suspension command names
   it and no result reports it as failed (the pool-level loop of the OOM killer did not take it), then the
   tick number total - age - 1 of the continuation (0-based: for a container created in tick t0, one tick old in
   the state after that tick, this is simulator tick t0 + total - 1) reports its success, and no earlier tick
   reports anything about it. *)
Theorem sim_success_tick arrivals t s sf logs oe i p c :
  sim_reach C a 0%Z (init_sim C np cpu ram) t s ->
  sim_run C a t s arrivals = (sf, logs, oe) ->
  nth_error (e_pools (sm_exec s)) i = Some p -> In c (p_active p) ->
  let ops := c_ops c in
  let n := total C ops (c_cpu c) in
  let age := Z.to_nat (c_ticks c) in
  (forall k, k < length ops -> scr C ops (c_cpu c) k <> []) ->
  all_fit C ops (c_cpu c) (c_ram c) ->
  forall lgn, nth_error logs (n - age - 1) = Some lgn ->
  (forall m lg, m <= n - age - 1 -> nth_error logs m = Some lg ->
     forall su, In su (tl_susp lg) -> su_cid su = c_id c -> su_pool su <> Z.of_nat i) ->
  (forall m lg, m < n - age - 1 -> nth_error logs m = Some lg ->
     forall r, In r (tl_results lg) -> r_cid r = c_id c -> r_err r = false) ->
  age < n /\
  In {| r_cid := c_id c; r_ops := ops; r_cpu := c_cpu c; r_ram := c_ram c; r_prio := c_prio c;
        r_pool := i; r_err := false |} (tl_results lgn) /\
  (forall m lg, m < n - age - 1 -> nth_error logs m = Some lg ->
     forall r, In r (tl_results lg) -> r_cid r <> c_id c).
Proof.
  intros R0 H Hi Hc ops n age Hne Hfit lgn Hl Hsus Hnf.
  pose proof (sim_reach_aged C a np cpu ram t s R0 p (nth_error_In _ _ Hi) c Hc) as Ag.
  destruct Ag as (A1 & A2 & A3). fold age in A3.
  assert (Efresh : fresh_of c = new_container (c_id c) ops (c_cpu c) (c_ram c) (c_prio c)) by reflexivity.
  (* the first tick of the continuation ticks c: it has operators *)
  assert (Hops : 0 < length ops).
  { assert (L0 : exists lg0, nth_error logs 0 = Some lg0).
    { destruct logs as [|lg0 tl]; [destruct (n - age - 1); discriminate|]. exists lg0. reflexivity. }
    destruct L0 as [lg0 Hl0].
    destruct (sim_run_timeline C a np cpu ram _ _ _ _ _ _ _ _ _ R0 H Hi Hc 0 lg0 Hl0)
      as (sa & newp & sb & pa & Ra & Ta & Hia & Hca & _).
    { intros m' lg' L'. lia. }
    { intros m' lg' L' Hl'. apply (Hsus m' lg'); [lia|exact Hl']. }
    replace (t + Z.of_nat 0)%Z with t in Ra by lia.
    destruct (sim_reach_le _ _ _ _ _ _ Ra) as [_ Eq]. rewrite (Eq eq_refl) in *.
    assert (Hq0 : forall su, In su (tl_susp lg0) -> su_cid su = c_id c -> su_pool su <> Z.of_nat i).
    { apply (Hsus 0 lg0); [lia|exact Hl0]. }
    replace (t + Z.of_nat 0)%Z with t in Ta by lia.
    cbn [csteps] in Hca. rewrite Hi in Hia. inversion Hia; subst pa.
    destruct (sim_tick_active_outcome C a np cpu ram _ _ _ _ _ _ _ _ R0 Ta Hi Hc Hq0)
      as [(wa & ca & wb & cb & K) _].
    eapply aged_ticked_ops; [|exact K]. split; [exact A1|]. split; [exact A2|exact A3]. }
  destruct (csteps_success C (c_id c) ops (c_cpu c) (c_ram c) (c_prio c) Hne Hfit Hops) as [S1 S2].
  fold n in S1, S2. rewrite <- Efresh in S1, S2.
  assert (Lage : age < n).
  { destruct (le_lt_dec n age) as [Le|Lt]; [exfalso|exact Lt].
    specialize (S2 (age - n)). replace (n + (age - n)) with age in S2 by lia.
    rewrite <- A3 in S2. rewrite S2 in A1. discriminate. }
  split; [exact Lage|].
  assert (Est : forall m, csteps C (S m) c = csteps C (age + S m) (fresh_of c)).
  { intros m. rewrite csteps_add, <- A3. reflexivity. }
  assert (Hquiet : forall m lg, m < n - age - 1 -> nth_error logs m = Some lg ->
                     forall r, In r (tl_results lg) -> r_cid r <> c_id c).
  { eapply (quiet_prefix arrivals t s sf logs oe i p c (n - age - 1)); eauto.
    - intros m Lm. rewrite Est. apply S1. lia.
    - intros m lg Lm. apply Hsus. lia. }
  split; [|exact Hquiet].
  destruct (sim_run_timeline C a np cpu ram _ _ _ _ _ _ _ _ _ R0 H Hi Hc (n - age - 1) lgn Hl Hquiet Hsus)
    as (sa & newp & sb & pa & _ & _ & _ & _ & O).
  rewrite Est in O. replace (age + S (n - age - 1)) with (n + 0) in O by lia. rewrite S2 in O.
  destruct O as [(_ & O)|[(O & _)|[(O & _)|(O & _)]]]; try discriminate.
  exact O.
Qed.

(* OWN-LIMIT OOM. The demand of tick j of operator k is the first above the allocation: isolated, the container
   freezes after T = off k + S j ticks (C05_oom). In a run, under the same two conditions as above, tick number
   T - age - 1 of the continuation reports it as failed, and no earlier tick reports anything about it. *)
Theorem sim_oom_tick arrivals t s sf logs oe i p c k j :
  sim_reach C a 0%Z (init_sim C np cpu ram) t s ->
  sim_run C a t s arrivals = (sf, logs, oe) ->
  nth_error (e_pools (sm_exec s)) i = Some p -> In c (p_active p) ->
  let ops := c_ops c in
  let T := off C ops (c_cpu c) k + S j in
  let age := Z.to_nat (c_ticks c) in
  (forall k, k < length ops -> scr C ops (c_cpu c) k <> []) ->
  k < length ops -> j < L C ops (c_cpu c) k ->
  (c_ram c < nth j (scr C ops (c_cpu c) k) 0)%Q ->
  (forall k' j', before C ops (c_cpu c) k j k' j' -> (nth j' (scr C ops (c_cpu c) k') 0 <= c_ram c)%Q) ->
  forall lgn, nth_error logs (T - age - 1) = Some lgn ->
  (forall m lg, m <= T - age - 1 -> nth_error logs m = Some lg ->
     forall su, In su (tl_susp lg) -> su_cid su = c_id c -> su_pool su <> Z.of_nat i) ->
  (forall m lg, m < T - age - 1 -> nth_error logs m = Some lg ->
     forall r, In r (tl_results lg) -> r_cid r = c_id c -> r_err r = false) ->
  age < T /\
  In {| r_cid := c_id c; r_ops := ops; r_cpu := c_cpu c; r_ram := c_ram c; r_prio := c_prio c;
        r_pool := i; r_err := true |} (tl_results lgn) /\
  (forall m lg, m < T - age - 1 -> nth_error logs m = Some lg ->
     forall r, In r (tl_results lg) -> r_cid r <> c_id c).
Proof.
  intros R0 H Hi Hc ops T age Hne Hk Hj Hoom Hfit lgn Hl Hsus Hnf.
  pose proof (sim_reach_aged C a np cpu ram t s R0 p (nth_error_In _ _ Hi) c Hc) as Ag.
  destruct Ag as (A1 & A2 & A3). fold age in A3.
  assert (Efresh : fresh_of c = new_container (c_id c) ops (c_cpu c) (c_ram c) (c_prio c)) by reflexivity.
  destruct (csteps_oom_time C (c_id c) ops (c_cpu c) (c_ram c) (c_prio c) Hne k j Hk Hj Hoom Hfit) as [S1 S2].
  fold T in S1, S2. rewrite <- Efresh in S1, S2.
  assert (Lage : age < T).
  { destruct (le_lt_dec T age) as [Le|Lt]; [exfalso|exact Lt].
    destruct (S2 (age - T)) as (_ & _ & Em & _). replace (T + (age - T)) with age in Em by lia.
    rewrite <- A3 in Em.
    destruct (C04_sim_within_alloc C a np cpu ram t s R0 p (nth_error_In _ _ Hi) c Hc) as [W _].
    rewrite Em in W. exact (Qlt_not_le _ _ Hoom W). }
  split; [exact Lage|].
  assert (Est : forall m, csteps C (S m) c = csteps C (age + S m) (fresh_of c)).
  { intros m. rewrite csteps_add, <- A3. reflexivity. }
  assert (Hquiet : forall m lg, m < T - age - 1 -> nth_error logs m = Some lg ->
                     forall r, In r (tl_results lg) -> r_cid r <> c_id c).
  { eapply (quiet_prefix arrivals t s sf logs oe i p c (T - age - 1)); eauto.
    - intros m Lm. rewrite Est. apply S1. lia.
    - intros m lg Lm. apply Hsus. lia. }
  split; [|exact Hquiet].
  destruct (sim_run_timeline C a np cpu ram _ _ _ _ _ _ _ _ _ R0 H Hi Hc (T - age - 1) lgn Hl Hquiet Hsus)
    as (sa & newp & sb & pa & _ & _ & _ & _ & O).
  rewrite Est in O. replace (age + S (T - age - 1)) with (T + 0) in O by lia.
  destruct (S2 0) as (B1 & _ & B3 & _).
  destruct (csteps_static C (T + 0) (fresh_of c)) as (E1 & E2 & E3 & E4 & E5).
  set (c1 := csteps C (T + 0) (fresh_of c)) in *.
  assert (Over : (c_ram c1 < c_mem c1)%Q).
  { rewrite E4, B3. exact Hoom. }
  destruct O as [(O & _)|[(_ & _ & O)|[(_ & O & _)|(_ & O & _)]]].
  - congruence.
  - unfold result_of in O. cbn [dead c_id c_ops c_cpu c_ram c_prio c_error] in O.
    rewrite E1, E2, E3, E4, E5 in O. exact O.
  - exfalso. exact (Qlt_not_le _ _ Over O).
  - exfalso. exact (Qlt_not_le _ _ Over O).
Qed.

End Predicted.

(* ------------------------------------------------------------------------------------------ *)
(* F. from the assignment: created in tick t0, success reported in tick t0 + total - 1          *)
(* ------------------------------------------------------------------------------------------ *)

Section Created.
Variable C : cfg.
Variable a : algo.
Variables (np : nat) (cpu : Z) (ram : Q).

(* [logs] are the logs of a continuation of a run whose first tick (simulator tick t0, log [lg0]) carries the
   assignment [x] for pool [i]. There is a container for it: fresh id, the operators / CPUs / RAM / priority of
   [x], first [ctick] in tick t0 itself (with one of the four outcomes). If all demands fit the allocation and
   in ticks t0 .. t0 + total - 2 no result reports the container as failed and in ticks t0 + 1 .. t0 + total - 1 no
   suspension command names it, its success is in the results of tick t0 + total - 1 (index total - 1 of [logs])
   and no earlier tick reports anything about it. *)
Theorem sim_created_success_tick arrivals t0 s sf logs oe lg0 x i :
  sim_reach C a 0%Z (init_sim C np cpu ram) t0 s ->
  sim_run C a t0 s arrivals = (sf, logs, oe) ->
  nth_error logs 0 = Some lg0 -> In x (tl_asgs lg0) -> a_pool x = Z.of_nat i ->
  let ops := a_ops x in
  let n := total C ops (a_cpu x) in
  (forall k, k < length ops -> scr C ops (a_cpu x) k <> []) ->
  all_fit C ops (a_cpu x) (a_ram x) ->
  exists id s1 newp,
    e_next (sm_exec s) <= id /\ sim_tick C a t0 s newp = Ok (s1, lg0) /\
    tick_outcome s1 lg0 i (cstep C (new_container id ops (a_cpu x) (a_ram x) (a_prio x))) /\
    0 < n /\
    forall lgn, nth_error logs (n - 1) = Some lgn ->
      (forall m lg, 0 < m <= n - 1 -> nth_error logs m = Some lg ->
         forall su, In su (tl_susp lg) -> su_cid su = id -> su_pool su <> Z.of_nat i) ->
      (forall m lg, m < n - 1 -> nth_error logs m = Some lg ->
         forall r, In r (tl_results lg) -> r_cid r = id -> r_err r = false) ->
      In {| r_cid := id; r_ops := ops; r_cpu := a_cpu x; r_ram := a_ram x; r_prio := a_prio x;
            r_pool := i; r_err := false |} (tl_results lgn) /\
      (forall m lg, m < n - 1 -> nth_error logs m = Some lg ->
         forall r, In r (tl_results lg) -> r_cid r <> id).
Proof.
  intros R0 H Hl0 Hx Ei ops n Hne Hfit.
  destruct arrivals as [|newp rest]; cbn [sim_run] in H; [inversion H; subst; discriminate|].
  destruct (sim_tick C a t0 s newp) as [[s1 lg1]|e] eqn:T; [|inversion H; subst; discriminate].
  destruct (sim_run C a (t0 + 1)%Z s1 rest) as [[sf' logs'] e'] eqn:R'. inversion H; subst sf logs oe.
  cbn [nth_error] in Hl0. inversion Hl0; subst lg1.
  destruct (sim_tick_created_outcome C a np cpu ram _ _ _ _ _ i x R0 T Hx Ei) as (id & Lid & K & O).
  cbv zeta in K, O. fold ops in K, O.
  set (c0 := new_container id ops (a_cpu x) (a_ram x) (a_prio x)) in *.
  exists id, s1, newp. split; [exact Lid|]. split; [exact T|]. split; [exact O|].
  destruct K as (wa & ca & wb & cb & K).
  assert (Ag0 : aged C c0) by (split; [reflexivity|]; split; [cbn; lia|reflexivity]).
  assert (Hops : 0 < length ops) by (exact (aged_ticked_ops _ _ _ _ _ _ _ Ag0 K)).
  pose proof (total_pos C ops (a_cpu x) Hne Hops) as Hn. fold n in Hn.
  split; [exact Hn|].
  intros lgn Hln Hsus Hnf.
  destruct (csteps_success C id ops (a_cpu x) (a_ram x) (a_prio x) Hne Hfit Hops) as [S1 S2].
  fold n in S1, S2. fold c0 in S1, S2.
  destruct (cstep_static C c0) as (E1 & E2 & E3 & E4 & E5).
  cbn [c0 new_container c_id c_ops c_cpu c_ram c_prio] in E1, E2, E3, E4, E5. fold c0 in E1, E2, E3, E4, E5.
  destruct (Nat.eq_dec n 1) as [N1|N1].
  - (* finished in the tick that created it *)
    rewrite N1 in Hln. cbn [Nat.sub nth_error] in Hln. inversion Hln; subst lgn.
    split; [|intros m lg Lm; lia].
    specialize (S2 0). rewrite N1 in S2. cbn [plus csteps] in S2. rewrite S2 in O.
    destruct O as [(_ & O)|[(O & _)|[(O & _)|(O & _)]]]; try discriminate. exact O.
  - (* it runs on after its first tick *)
    destruct (S1 1 ltac:(lia)) as [P1 P2]. cbn [csteps] in P1, P2.
    assert (Hn0 : forall r, In r (tl_results lg0) -> r_cid r = id -> r_err r = false).
    { apply (Hnf 0 lg0); [lia|reflexivity]. }
    destruct O as [(O & _)|[(_ & O & _)|[(_ & _ & O)|(_ & _ & (p1 & Hi1 & Hc1) & O4)]]].
    + congruence.
    + exfalso. rewrite E4 in O. exact (Qlt_not_le _ _ O P2).
    + exfalso. pose proof (Hn0 _ O) as X. cbn [result_of r_cid r_err dead c_id c_error] in X.
      specialize (X E1). discriminate.
    + assert (R1 : sim_reach C a 0%Z (init_sim C np cpu ram) (t0 + 1)%Z s1) by (econstructor; eauto).
      pose proof (ctick_ticks _ _ _ _ _ _ _ K eq_refl) as Et. cbn [c0 new_container c_ticks] in Et. fold c0 in Et.
      pose proof (sim_success_tick C a np cpu ram rest (t0 + 1)%Z s1 sf' logs' e' i p1 (cstep C c0) R1 R' Hi1 Hc1) as X.
      cbv zeta in X. rewrite E1, E2, E3, E4, E5, Et in X. fold n in X.
      replace (Z.to_nat (0 + 1)) with 1 in X by lia.
      assert (Hln' : nth_error logs' (n - 1 - 1) = Some lgn).
      { replace (n - 1) with (S (n - 1 - 1)) in Hln by lia. exact Hln. }
      destruct (X Hne Hfit lgn Hln') as (_ & X2 & X3).
      { intros m lg Lm Hl. apply (Hsus (S m) lg); [lia|exact Hl]. }
      { intros m lg Lm Hl. apply (Hnf (S m) lg); [lia|exact Hl]. }
      split; [exact X2|].
      intros m lg Lm Hl. destruct m as [|m].
      * cbn [nth_error] in Hl. inversion Hl; subst lg. intros r Hr. rewrite <- E1. apply O4. exact Hr.
      * cbn [nth_error] in Hl. apply (X3 m lg); [lia|exact Hl].
Qed.

End Created.

(* ------------------------------------------------------------------------------------------ *)
(* Examples (non-vacuity): the run of StatsExtraExamples (naive, one pool of 4 CPUs / 8 GB).     *)
(* Container 0 ([0], scripts of 2 ticks) is created in tick 0 and reports success in tick 1 =    *)
(* 0 + 2 - 1. Container 1 ([1; 2], scripts [1;1;1] and [1;100] GB, 8 GB) is created in tick 2;   *)
(* the first demand above 8 GB is tick j = 1 of operator k = 1, T = 3 + 2 = 5: it is reported as  *)
(* failed in tick 6 = 2 + 5 - 1.                                                                  *)
(* ------------------------------------------------------------------------------------------ *)
Module SimTimelineExamples.
Import SimCorExamples.

(* (the configuration of StatsExtraFacts.StatsExtraExamples) pipeline 0 (Query): one operator, two ticks at
   1 GB. pipeline 1 (Batch): the chain 1 -> 2; operator 1 takes three ticks at 1 GB, operator 2 asks for 1 GB,
   then for 100 GB. 10 ticks per second, naive with multi-operator containers. *)
Definition xl : list (prio * dag) := [(Query, [[]]); (Batch, [[]; [0]])].
Definition xC : cfg :=
  {| cf_static := mk_static xl;
     cf_script := fun op _ => if Nat.eqb op 0 then [1%Q; 1%Q]
                              else if Nat.eqb op 1 then [1%Q; 1%Q; 1%Q] else [1%Q; 100%Q];
     cf_tps := 10%Z; cf_overcommit := false; cf_multi := true; cf_rnd := fun x => x |}.
Definition x0 : sim := init_sim xC 1 4%Z 8%Q.
Definition x1 : sim := ok_state x0 (sim_tick xC ANaive 0%Z x0 [0]).
Definition x2 : sim := ok_state x1 (sim_tick xC ANaive 1%Z x1 [1]).
Definition x3 : sim := ok_state x2 (sim_tick xC ANaive 2%Z x2 []).
Definition x_rest : list (list nat) := [[]; []; []; []; []; []; []].
Definition x_cont : sim * list tick_log * option err :=
  Eval vm_compute in sim_run xC ANaive 3%Z x3 x_rest.
Definition xf : sim := fst (fst x_cont).
Definition xlogs : list tick_log := snd (fst x_cont).
Definition xp3 : pool := Eval vm_compute in hd (new_pool 0 0%Z 0%Q) (e_pools (sm_exec x3)).
Definition xc1 : container := Eval vm_compute in hd (new_container 0 [] 0%Z 0%Q Batch) (p_active xp3).

Lemma x_tick0 : exists lg, sim_tick xC ANaive 0%Z x0 [0] = Ok (x1, lg).
Proof. eexists. vm_compute. reflexivity. Qed.
Lemma x_tick1 : exists lg, sim_tick xC ANaive 1%Z x1 [1] = Ok (x2, lg).
Proof. eexists. vm_compute. reflexivity. Qed.
Lemma x_tick2 : exists lg, sim_tick xC ANaive 2%Z x2 [] = Ok (x3, lg).
Proof. eexists. vm_compute. reflexivity. Qed.

Lemma x_reach3 : sim_reach xC ANaive 0%Z (init_sim xC 1 4%Z 8%Q) 3%Z x3.
Proof.
  destruct x_tick0 as [lg0 T0]. destruct x_tick1 as [lg1 T1]. destruct x_tick2 as [lg2 T2].
  exact (sr_step xC ANaive 0%Z x0 2%Z x2 [] x3 lg2
          (sr_step xC ANaive 0%Z x0 1%Z x1 [1] x2 lg1
            (sr_step xC ANaive 0%Z x0 0%Z x0 [0] x1 lg0 (sr_here xC ANaive 0%Z x0) T0) T1) T2).
Qed.

Lemma x_cont_run : sim_run xC ANaive 3%Z x3 x_rest = (xf, xlogs, None).
Proof. vm_compute. reflexivity. Qed.

Lemma x_pool3 : nth_error (e_pools (sm_exec x3)) 0 = Some xp3.
Proof. vm_compute. reflexivity. Qed.
Lemma x_active3 : In xc1 (p_active xp3).
Proof. left. reflexivity. Qed.

(* the container: id 1, operators [1; 2], 4 CPUs, 8 GB, one tick old *)
Example x_c1_facts :
  (c_id xc1, c_ops xc1, c_cpu xc1, Qred (c_ram xc1), c_ticks xc1) = (1, [1; 2], 4%Z, 8%Q, 1%Z) /\
  map (fun k => scr xC (c_ops xc1) (c_cpu xc1) k) [0; 1] = [[1%Q; 1%Q; 1%Q]; [1%Q; 100%Q]] /\
  off xC (c_ops xc1) (c_cpu xc1) 1 + 2 = 5.
Proof. vm_compute. repeat split; reflexivity. Qed.

(* the continuation (ticks 3 .. 9): no suspension, the only result is the failure of container 1 in tick 6 *)
Example x_cont_facts :
  map (fun lg => (tl_susp lg, map (fun r => (r_cid r, r_err r)) (tl_results lg))) xlogs
  = [([], []); ([], []); ([], []); ([], [(1, true)]); ([], []); ([], []); ([], [])].
Proof. vm_compute. reflexivity. Qed.

Lemma x_ne : forall k, k < length (c_ops xc1) -> scr xC (c_ops xc1) (c_cpu xc1) k <> [].
Proof. intros [|[|k]] Hk; [discriminate|discriminate|cbn in Hk; lia]. Qed.

Lemma x_before : forall k' j', before xC (c_ops xc1) (c_cpu xc1) 1 1 k' j' ->
  (nth j' (scr xC (c_ops xc1) (c_cpu xc1) k') 0 <= c_ram xc1)%Q.
Proof.
  intros k' j' [[A1 A2]|[-> A2]].
  - assert (k' = 0) by lia. subst k'. change (L xC (c_ops xc1) (c_cpu xc1) 0) with 3 in A2.
    destruct j' as [|[|[|j']]]; try lia; vm_compute; discriminate.
  - assert (j' = 0) by lia. subst j'. vm_compute. discriminate.
Qed.

Lemma x_no_susp : forall m lg, nth_error xlogs m = Some lg -> tl_susp lg = [].
Proof.
  intros m lg H. assert (X : In (tl_susp lg) (map tl_susp xlogs)) by (apply in_map; eapply nth_error_In; eauto).
  assert (E : map tl_susp xlogs = [[]; []; []; []; []; []; []]) by (vm_compute; reflexivity).
  rewrite E in X. repeat (destruct X as [X|X]; [symmetry; exact X|]). destruct X.
Qed.

Lemma x_no_early_result : forall m lg, m < 3 -> nth_error xlogs m = Some lg -> tl_results lg = [].
Proof.
  intros m lg Lm H.
  assert (E : map tl_results (firstn 3 xlogs) = [[]; []; []]) by (vm_compute; reflexivity).
  assert (X : In (tl_results lg) (map tl_results (firstn 3 xlogs))).
  { apply in_map. destruct (nth_error_split _ _ H) as (l1 & l2 & E1 & E2).
    rewrite E1. rewrite firstn_app. apply in_or_app. right.
    replace (3 - length l1) with (S (2 - m)) by lia. cbn [firstn]. left. reflexivity. }
  rewrite E in X. repeat (destruct X as [X|X]; [symmetry; exact X|]). destruct X.
Qed.

(* [sim_oom_tick] applies: the failure of container 1 is in the results of continuation tick 5 - 1 - 1 = 3
   (simulator tick 6), and nothing about it is reported before *)
Example x_oom_applies :
  exists lgn, nth_error xlogs 3 = Some lgn /\
    In {| r_cid := c_id xc1; r_ops := c_ops xc1; r_cpu := c_cpu xc1; r_ram := c_ram xc1; r_prio := c_prio xc1;
          r_pool := 0; r_err := true |} (tl_results lgn) /\
    (forall m lg, m < 3 -> nth_error xlogs m = Some lg -> forall r, In r (tl_results lg) -> r_cid r <> c_id xc1).
Proof.
  destruct (nth_error xlogs 3) as [lgn|] eqn:E; [|vm_compute in E; discriminate].
  exists lgn. split; [reflexivity|].
  assert (Hoom : (c_ram xc1 < nth 1 (scr xC (c_ops xc1) (c_cpu xc1) 1) 0)%Q) by (vm_compute; reflexivity).
  destruct (sim_oom_tick xC ANaive 1 4%Z 8%Q x_rest 3%Z x3 xf xlogs None 0 xp3 xc1 1 1
              x_reach3 x_cont_run x_pool3 x_active3 x_ne ltac:(cbn; lia) ltac:(cbn; lia) Hoom x_before lgn E)
    as (_ & A & B).
  - intros m lg _ Hl su Hsu. rewrite (x_no_susp m lg Hl) in Hsu. destruct Hsu.
  - intros m lg Lm Hl r Hr. change (off xC (c_ops xc1) (c_cpu xc1) 1 + 2 - Z.to_nat (c_ticks xc1) - 1) with 3 in Lm.
    rewrite (x_no_early_result m lg Lm Hl) in Hr. destruct Hr.
  - split; [exact A|exact B].
Qed.

(* ---- success, from the assignment: container 0 of the same run, created in tick 0 ---- *)
Definition x_arrivals : list (list nat) := [[0]; [1]; []; []; []; []; []; []; []; []].
Definition x_out : sim * list tick_log * option err :=
  Eval vm_compute in sim_run xC ANaive 0%Z (init_sim xC 1 4%Z 8%Q) x_arrivals.
Definition x_s : sim := fst (fst x_out).
Definition x_logs : list tick_log := snd (fst x_out).
Lemma x_run : sim_run xC ANaive 0%Z (init_sim xC 1 4%Z 8%Q) x_arrivals = (x_s, x_logs, None).
Proof. vm_compute. reflexivity. Qed.
Definition x_lg0 : tick_log := Eval vm_compute in ok_log (sim_tick xC ANaive 0%Z x0 [0]).
Definition x_asg0 : asg := Eval vm_compute in hd {| a_ops := []; a_cpu := 0%Z; a_ram := 0%Q; a_prio := Batch; a_pool := 0%Z |} (tl_asgs x_lg0).

Lemma x_log0 : nth_error x_logs 0 = Some x_lg0.
Proof. vm_compute. reflexivity. Qed.
Lemma x_asg0_in : In x_asg0 (tl_asgs x_lg0).
Proof. left. reflexivity. Qed.

Example x_asg0_facts :
  (a_ops x_asg0, a_cpu x_asg0, Qred (a_ram x_asg0), a_pool x_asg0) = ([0], 4%Z, 8%Q, 0%Z) /\
  total xC (a_ops x_asg0) (a_cpu x_asg0) = 2 /\
  map (fun lg => (tl_susp lg, map (fun r => (r_cid r, r_ops r, r_err r)) (tl_results lg))) (firstn 2 x_logs)
  = [([], []); ([], [(0, [0], false)])].
Proof. vm_compute. repeat split; reflexivity. Qed.

Lemma x_ne0 : forall k, k < length (a_ops x_asg0) -> scr xC (a_ops x_asg0) (a_cpu x_asg0) k <> [].
Proof. intros [|k] Hk; [discriminate|cbn in Hk; lia]. Qed.

Lemma x_fit0 : all_fit xC (a_ops x_asg0) (a_cpu x_asg0) (a_ram x_asg0).
Proof.
  intros k j Hk Hj. assert (k = 0) by (cbn in Hk; lia). subst k.
  change (L xC (a_ops x_asg0) (a_cpu x_asg0) 0) with 2 in Hj.
  destruct j as [|[|j]]; try lia; vm_compute; discriminate.
Qed.

(* [sim_created_success_tick] applies: the success is in the results of tick 0 + 2 - 1 = 1 *)
Example x_success_applies :
  exists id lgn, nth_error x_logs 1 = Some lgn /\
    In {| r_cid := id; r_ops := a_ops x_asg0; r_cpu := a_cpu x_asg0; r_ram := a_ram x_asg0;
          r_prio := a_prio x_asg0; r_pool := 0; r_err := false |} (tl_results lgn).
Proof.
  destruct (sim_created_success_tick xC ANaive 1 4%Z 8%Q x_arrivals 0%Z x0 x_s x_logs None x_lg0 x_asg0 0
              (sr_here xC ANaive 0%Z x0) x_run x_log0 x_asg0_in eq_refl
              x_ne0 x_fit0) as (id & s1 & newp & _ & _ & _ & _ & X).
  destruct (nth_error x_logs 1) as [lgn|] eqn:E; [|vm_compute in E; discriminate].
  exists id, lgn. split; [reflexivity|].
  assert (Es : forall m lg, nth_error x_logs m = Some lg -> m <= 1 -> tl_susp lg = []).
  { intros m lg H Lm. destruct m as [|[|m]]; [| |lia]; vm_compute in H; inversion H; reflexivity. }
  assert (Er : forall lg, nth_error x_logs 0 = Some lg -> tl_results lg = []).
  { intros lg H. vm_compute in H. inversion H; reflexivity. }
  change (total xC (a_ops x_asg0) (a_cpu x_asg0)) with 2 in X.
  destruct (X lgn E) as [A _].
  - intros m lg Lm Hl su Hsu. rewrite (Es m lg Hl ltac:(cbn in Lm; lia)) in Hsu. destruct Hsu.
  - intros m lg Lm Hl r Hr. assert (m = 0) by (cbn in Lm; lia). subst m. rewrite (Er lg Hl) in Hr. destruct Hr.
  - exact A.
Qed.

End SimTimelineExamples.
