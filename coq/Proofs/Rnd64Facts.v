(* Standard-model facts about rnd64 (IEEE binary64 round-to-nearest-even on rationals). *)
From Coq Require Import ZArith QArith Lia Lqa.
From Coq Require Import Qpower Qabs Qreduction.
From Eudoxia Require Import Num.Rnd64.

(* ------------------------------------------------------------------ *)
(* Part 1: integer core                                                *)
(* ------------------------------------------------------------------ *)
Open Scope Z_scope.

Lemma rne_half a b : 0 < b -> 2 * Z.abs (rne a b * b - a) <= b.
Proof.
  intros Hb. unfold rne.
  pose proof (Z.div_mod a b ltac:(lia)) as Hdm.
  pose proof (Z.mod_pos_bound a b Hb) as Hr.
  set (q := a / b) in *. set (r := a mod b) in *.
  destruct (2 * r <? b) eqn:E1; [apply Z.ltb_lt in E1; nia|].
  apply Z.ltb_ge in E1.
  destruct (b <? 2 * r) eqn:E2; [apply Z.ltb_lt in E2; nia|].
  apply Z.ltb_ge in E2.
  destruct (Z.even q); nia.
Qed.

Lemma rne_exact a b k : 0 < b -> a = k * b -> rne a b = k.
Proof.
  intros Hb ->. unfold rne. rewrite Z.div_mul, Z.mod_mul by lia.
  replace (2 * 0 <? b) with true; [reflexivity|]. symmetry. apply Z.ltb_lt. lia.
Qed.

Lemma rne_mono a a' b : 0 < b -> a <= a' -> rne a b <= rne a' b.
Proof.
  intros Hb Hle.
  pose proof (rne_half a b Hb) as H1. pose proof (rne_half a' b Hb) as H2.
  destruct (Z_le_gt_dec (rne a b) (rne a' b)) as [H|H]; [exact H|exfalso].
  assert (Hgap : rne a b = rne a' b + 1 /\ a = a' /\ 2 * (rne a b * b - a) = b) by nia.
  destruct Hgap as [Hq [Heq _]]. subst a'. lia.
Qed.

Lemma rne_scale a b k : 0 < b -> 0 < k -> rne (k * a) (k * b) = rne a b.
Proof.
  intros Hb Hk. unfold rne.
  rewrite Z.div_mul_cancel_l by lia. rewrite Z.mul_mod_distr_l by lia.
  pose proof (Z.mod_pos_bound a b Hb) as Hr.
  set (q := a / b). set (r := a mod b) in *.
  assert (E1 : (2 * (k * r) <? k * b) = (2 * r <? b)).
  { destruct (Z.ltb_spec (2 * r) b); destruct (Z.ltb_spec (2 * (k * r)) (k * b)); try reflexivity; nia. }
  assert (E2 : (k * b <? 2 * (k * r)) = (b <? 2 * r)).
  { destruct (Z.ltb_spec b (2 * r)); destruct (Z.ltb_spec (k * b) (2 * (k * r))); try reflexivity; nia. }
  rewrite E1, E2. reflexivity.
Qed.

Lemma rne_ratio a b a' b' : 0 < b -> 0 < b' -> a * b' = a' * b -> rne a b = rne a' b'.
Proof.
  intros Hb Hb' H.
  rewrite <- (rne_scale a b b' Hb Hb'). rewrite <- (rne_scale a' b' b Hb' Hb).
  f_equal; lia.
Qed.

Lemma rne_mono_ratio a b a' b' : 0 < b -> 0 < b' -> a * b' <= a' * b -> rne a b <= rne a' b'.
Proof.
  intros Hb Hb' H.
  rewrite <- (rne_scale a b b' Hb Hb'). rewrite <- (rne_scale a' b' b Hb' Hb).
  replace (b * b') with (b' * b) by lia.
  apply rne_mono; nia.
Qed.

Lemma rne_ge a b k : 0 < b -> k * b <= a -> k <= rne a b.
Proof.
  intros Hb H. rewrite <- (rne_exact (k * b) b k Hb eq_refl). apply rne_mono; assumption.
Qed.

Lemma rne_le a b k : 0 < b -> a <= k * b -> rne a b <= k.
Proof.
  intros Hb H. rewrite <- (rne_exact (k * b) b k Hb eq_refl). apply rne_mono; assumption.
Qed.

Lemma sc_pos n d s : 0 < n -> 0 < d -> let '(a,b) := sc n d s in 0 < a /\ 0 < b.
Proof.
  intros Hn Hd. unfold sc. destruct (0 <=? s) eqn:E.
  - apply Z.leb_le in E. split; [lia|]. apply Z.mul_pos_pos; [lia|]. apply Z.pow_pos_nonneg; lia.
  - apply Z.leb_gt in E. split; [|lia]. apply Z.mul_pos_pos; [lia|]. apply Z.pow_pos_nonneg; lia.
Qed.

Lemma pow2_succ s : 0 <= s -> 2 ^ (s + 1) = 2 * 2 ^ s.
Proof. intros. replace (s + 1) with (Z.succ s) by lia. apply Z.pow_succ_r. lia. Qed.

Lemma sc_shift n d s : 0 < n -> 0 < d ->
  let '(a,b) := sc n d s in let '(a',b') := sc n d (s - 1) in 2 * a * b' = a' * b.
Proof.
  intros Hn Hd. unfold sc.
  destruct (0 <=? s) eqn:E; destruct (0 <=? s - 1) eqn:E'.
  - apply Z.leb_le in E, E'. pose proof (pow2_succ (s - 1) E') as H.
    replace (s - 1 + 1) with s in H by lia. rewrite H. ring.
  - apply Z.leb_le in E. apply Z.leb_gt in E'. assert (s = 0) by lia. subst.
    replace (- (0 - 1)) with 1 by lia. rewrite Z.pow_1_r, Z.pow_0_r. ring.
  - apply Z.leb_gt in E. apply Z.leb_le in E'. lia.
  - apply Z.leb_gt in E, E'. pose proof (pow2_succ (- s) ltac:(lia)) as H.
    replace (- (s - 1)) with (- s + 1) by lia. rewrite H. ring.
Qed.

Lemma sc_norm0 n d : 0 < n -> 0 < d ->
  let e0 := Z.log2 n - Z.log2 d in
  let '(a,b) := sc n d (e0 - 52) in 2 ^ 51 * b < a /\ a < 2 ^ 53 * b.
Proof.
  intros Hn Hd e0.
  pose proof (Z.log2_spec n Hn) as [Hn1 Hn2]. pose proof (Z.log2_spec d Hd) as [Hd1 Hd2].
  pose proof (Z.log2_nonneg n) as Ln. pose proof (Z.log2_nonneg d) as Ld.
  set (ln := Z.log2 n) in *. set (ld := Z.log2 d) in *.
  replace (Z.succ ln) with (ln + 1) in Hn2 by lia. replace (Z.succ ld) with (ld + 1) in Hd2 by lia.
  rewrite pow2_succ in Hn2, Hd2 by lia.
  unfold sc. subst e0. destruct (0 <=? ln - ld - 52) eqn:E.
  - apply Z.leb_le in E.
    assert (Hp : 2 ^ ln = 2 ^ ld * 2 ^ (ln - ld - 52) * 2 ^ 52).
    { rewrite <- !Z.pow_add_r by lia. f_equal. lia. }
    set (P := 2 ^ (ln - ld - 52)) in *. assert (0 < P) by (apply Z.pow_pos_nonneg; lia).
    set (A := 2 ^ ld) in *. assert (0 < A) by (apply Z.pow_pos_nonneg; lia).
    change (2 ^ 51) with 2251799813685248. change (2 ^ 53) with 9007199254740992.
    change (2 ^ 52) with 4503599627370496 in Hp.
    split; nia.
  - apply Z.leb_gt in E.
    replace (- (ln - ld - 52)) with (52 + ld - ln) by lia.
    assert (Hp : 2 ^ ln * 2 ^ (52 + ld - ln) = 2 ^ ld * 2 ^ 52).
    { rewrite <- !Z.pow_add_r by lia. f_equal. lia. }
    set (P := 2 ^ (52 + ld - ln)) in *. assert (0 < P) by (apply Z.pow_pos_nonneg; lia).
    set (A := 2 ^ ld) in *. set (B := 2 ^ ln) in *.
    change (2 ^ 51) with 2251799813685248. change (2 ^ 53) with 9007199254740992.
    change (2 ^ 52) with 4503599627370496 in Hp.
    split; nia.
Qed.

(* characterisation of rnd_pos: normalised scaling and nearest-even mantissa *)
Lemma rnd_pos_spec n d m e : 0 < n -> 0 < d -> rnd_pos n d = (m, e) ->
  let '(a, b) := sc n d e in
  0 < a /\ 0 < b /\ 2 ^ 52 * b <= a /\ a < 2 ^ 53 * b /\ m = rne a b.
Proof.
  intros Hn Hd. unfold rnd_pos.
  set (e0 := Z.log2 n - Z.log2 d).
  pose proof (sc_norm0 n d Hn Hd) as Hnorm. fold e0 in Hnorm. cbv zeta in Hnorm.
  pose proof (sc_shift n d (e0 - 52) Hn Hd) as Hsh.
  pose proof (sc_pos n d (e0 - 52) Hn Hd) as Hp0.
  pose proof (sc_pos n d (e0 - 52 - 1) Hn Hd) as Hp1.
  destruct (sc n d (e0 - 52)) as [a0 b0] eqn:E0.
  destruct Hnorm as [Hlo Hhi]. destruct Hp0 as [Ha0 Hb0].
  change (2 ^ 51) with 2251799813685248 in Hlo. change (2 ^ 53) with 9007199254740992 in Hhi.
  change (2 ^ 52) with 4503599627370496.
  destruct (a0 / b0 <? 4503599627370496) eqn:Ecmp.
  - apply Z.ltb_lt in Ecmp.
    assert (Hlt : a0 < 4503599627370496 * b0).
    { destruct (Z_lt_le_dec a0 (4503599627370496 * b0)) as [H|H]; [exact H|exfalso].
      pose proof (Z.div_le_lower_bound a0 b0 4503599627370496 Hb0 ltac:(lia)). lia. }
    replace (e0 - 1 - 52) with (e0 - 52 - 1) by lia.
    destruct (sc n d (e0 - 52 - 1)) as [a b] eqn:E1.
    intros Heq. inversion Heq; subst m e. clear Heq. rewrite E1.
    destruct Hp1 as [Ha Hb].
    change (2 ^ 53) with 9007199254740992.
    repeat split; try assumption; nia.
  - apply Z.ltb_ge in Ecmp.
    assert (Hge : 4503599627370496 * b0 <= a0).
    { pose proof (Z.mul_div_le a0 b0 Hb0). nia. }
    rewrite E0. intros Heq. inversion Heq; subst m e. clear Heq. rewrite E0.
    change (2 ^ 53) with 9007199254740992.
    repeat split; try assumption; nia.
Qed.

(* ------------------------------------------------------------------ *)
(* Part 2: powers of two in Q                                          *)
(* ------------------------------------------------------------------ *)
Open Scope Q_scope.

Definition p2 (e : Z) : Q := Qpower 2 e.

Lemma p2_pos e : 0 < p2 e.
Proof. apply Qpower_0_lt. reflexivity. Qed.

Lemma p2_add a b : p2 (a + b) == p2 a * p2 b.
Proof. apply Qpower_plus. discriminate. Qed.

Lemma p2_succ e : p2 (e + 1) == 2 * p2 e.
Proof. rewrite p2_add. change (p2 1) with 2. ring. Qed.

Lemma p2_opp e : p2 (- e) * p2 e == 1.
Proof. rewrite <- p2_add. replace (- e + e)%Z with 0%Z by lia. reflexivity. Qed.

Lemma p2_Z e : (0 <= e)%Z -> inject_Z (2 ^ e) == p2 e.
Proof. intros H. apply (Zpower_Qpower 2 e H). Qed.

Lemma p2_le a b : (a <= b)%Z -> p2 a <= p2 b.
Proof. intros H. apply Qpower_le_compat_l; [exact H | discriminate]. Qed.

Lemma p2_lt2 a b : (a < b)%Z -> 2 * p2 a <= p2 b.
Proof. intros H. rewrite <- p2_succ. apply p2_le. lia. Qed.

Lemma sc_Q n d s a b : (0 < n)%Z -> (0 < d)%Z -> sc n d s = (a, b) ->
  inject_Z a * inject_Z d * p2 s == inject_Z n * inject_Z b.
Proof.
  intros Hn Hd. unfold sc. destruct (0 <=? s)%Z eqn:E; intros H; inversion H; subst a b; clear H.
  - apply Z.leb_le in E. rewrite inject_Z_mult, (p2_Z s E). ring.
  - apply Z.leb_gt in E. rewrite inject_Z_mult, (p2_Z (- s)) by lia.
    pose proof (p2_opp s) as Ho.
    transitivity (inject_Z n * inject_Z d * (p2 (- s) * p2 s)); [ring | rewrite Ho; ring].
Qed.

Lemma pow2Q_p2 m e : pow2Q m e == inject_Z m * p2 e.
Proof.
  unfold pow2Q. destruct (0 <=? e)%Z eqn:E.
  - apply Z.leb_le in E. rewrite inject_Z_mult, (p2_Z e E). reflexivity.
  - apply Z.leb_gt in E.
    assert (Hpos : (0 < 2 ^ (- e))%Z) by (apply Z.pow_pos_nonneg; lia).
    rewrite Qmake_Qdiv. rewrite Z2Pos.id by exact Hpos.
    rewrite (p2_Z (- e)) by lia.
    pose proof (p2_opp e) as Ho. pose proof (p2_pos e) as P1. pose proof (p2_pos (- e)) as P2.
    field_simplify_eq; [ | intro Hz; rewrite Hz in P2; discriminate ].
    rewrite <- Qmult_assoc, Ho. ring.
Qed.

(* ------------------------------------------------------------------ *)
(* Part 3: the positive-side rounding function and its specification   *)
(* ------------------------------------------------------------------ *)

Definition rp (x : Q) : Q :=
  let '(m, e) := rnd_pos (Qnum x) (Zpos (Qden x)) in inject_Z m * p2 e.

Lemma Qnum_pos x : 0 < x <-> (0 < Qnum x)%Z.
Proof. unfold Qlt; simpl. rewrite Z.mul_1_r. reflexivity. Qed.

Lemma Qnum_neg x : x < 0 <-> (Qnum x < 0)%Z.
Proof. unfold Qlt; simpl. rewrite Z.mul_1_r. reflexivity. Qed.

Lemma Qnum_zero x : x == 0 <-> Qnum x = 0%Z.
Proof. unfold Qeq; simpl. rewrite Z.mul_1_r. reflexivity. Qed.

Lemma rnd64_pos x : 0 < x -> rnd64 x == rp x.
Proof.
  intros H. apply Qnum_pos in H. unfold rnd64, rp.
  destruct (Z.eqb_spec (Qnum x) 0) as [H0|H0]; [lia|].
  rewrite Z.abs_eq by lia.
  destruct (rnd_pos (Qnum x) (Z.pos (Qden x))) as [m e].
  destruct (Z.ltb_spec (Qnum x) 0) as [H1|H1]; [lia|].
  rewrite Qred_correct. apply pow2Q_p2.
Qed.

Lemma rnd64_neg x : x < 0 -> rnd64 x == - rp (- x).
Proof.
  intros H. apply Qnum_neg in H. unfold rnd64, rp.
  destruct (Z.eqb_spec (Qnum x) 0) as [H0|H0]; [lia|].
  rewrite Z.abs_neq by lia.
  change (Qnum (- x)) with (- Qnum x)%Z. change (Qden (- x)) with (Qden x).
  destruct (rnd_pos (- Qnum x) (Z.pos (Qden x))) as [m e].
  destruct (Z.ltb_spec (Qnum x) 0) as [H1|H1]; [|lia].
  rewrite Qred_correct. rewrite pow2Q_p2. reflexivity.
Qed.

Lemma rnd64_zero x : x == 0 -> rnd64 x = 0.
Proof.
  intros H. apply Qnum_zero in H. unfold rnd64. rewrite H. reflexivity.
Qed.

Lemma Q_num_den x : x * inject_Z (Zpos (Qden x)) == inject_Z (Qnum x).
Proof. destruct x as [n p]. unfold Qeq; simpl. rewrite Pos.mul_1_r. ring. Qed.

Lemma rp_spec x : 0 < x -> exists m e a b,
  rp x = inject_Z m * p2 e /\ (0 < a)%Z /\ (0 < b)%Z /\
  (4503599627370496 * b <= a)%Z /\ (a < 9007199254740992 * b)%Z /\ m = rne a b /\
  inject_Z a * p2 e == x * inject_Z b.
Proof.
  intros H. apply Qnum_pos in H. unfold rp.
  destruct (rnd_pos (Qnum x) (Z.pos (Qden x))) as [m e] eqn:E.
  pose proof (rnd_pos_spec _ _ m e H (Pos2Z.is_pos (Qden x)) E) as S.
  destruct (sc (Qnum x) (Z.pos (Qden x)) e) as [a b] eqn:Es.
  destruct S as (Ha & Hb & Hlo & Hhi & Hm).
  change (2 ^ 52)%Z with 4503599627370496%Z in Hlo.
  change (2 ^ 53)%Z with 9007199254740992%Z in Hhi.
  exists m, e, a, b. repeat split; try assumption.
  pose proof (sc_Q _ _ _ _ _ H (Pos2Z.is_pos (Qden x)) Es) as Hq.
  rewrite <- (Q_num_den x) in Hq.
  apply (Qmult_inj_r _ _ (inject_Z (Z.pos (Qden x)))); [discriminate|].
  rewrite <- Qmult_assoc, (Qmult_comm (p2 e)), Qmult_assoc, Hq. ring.
Qed.

(* consequences of the specification, in Q *)
Lemma norm_Q a b e x : (0 < b)%Z ->
  (4503599627370496 * b <= a)%Z -> (a < 9007199254740992 * b)%Z ->
  inject_Z a * p2 e == x * inject_Z b ->
  4503599627370496 * p2 e <= x /\ x < 9007199254740992 * p2 e.
Proof.
  intros Hb Hlo Hhi Hq.
  rewrite Zle_Qle, inject_Z_mult in Hlo. rewrite Zlt_Qlt, inject_Z_mult in Hhi.
  rewrite Zlt_Qlt in Hb.
  change (inject_Z 4503599627370496) with 4503599627370496 in Hlo.
  change (inject_Z 9007199254740992) with 9007199254740992 in Hhi.
  change (inject_Z 0) with 0 in Hb.
  pose proof (p2_pos e) as HP.
  set (A := inject_Z a) in *. set (B := inject_Z b) in *. set (P := p2 e) in *.
  split.
  - apply (Qmult_le_r _ _ B Hb). rewrite <- Hq.
    setoid_replace (4503599627370496 * P * B) with (4503599627370496 * B * P) by ring.
    apply Qmult_le_r; assumption.
  - apply (Qmult_lt_r _ _ B Hb). rewrite <- Hq.
    setoid_replace (9007199254740992 * P * B) with (9007199254740992 * B * P) by ring.
    apply Qmult_lt_r; assumption.
Qed.

Ltac zq H := repeat (rewrite inject_Z_mult in H || rewrite inject_Z_plus in H || rewrite inject_Z_opp in H).

Lemma half_Q a b e x : (0 < b)%Z ->
  inject_Z a * p2 e == x * inject_Z b ->
  2 * Qabs (inject_Z (rne a b) * p2 e - x) <= p2 e.
Proof.
  intros Hb Hq. pose proof (rne_half a b Hb) as Hh.
  set (m := rne a b) in *.
  assert (H1 : (- b <= 2 * (m * b - a))%Z) by lia.
  assert (H2 : (2 * (m * b - a) <= b)%Z) by lia.
  clear Hh.
  rewrite Zle_Qle in H1, H2. rewrite Zlt_Qlt in Hb.
  unfold Z.sub in H1, H2.
  zq H1. zq H2.
  change (inject_Z 2) with 2 in *. change (inject_Z 0) with 0 in Hb.
  pose proof (p2_pos e) as HP.
  set (A := inject_Z a) in *. set (B := inject_Z b) in *. set (P := p2 e) in *.
  set (M := inject_Z m) in *.
  assert (G : Qabs (M * P - x) <= P * (1 # 2)).
  { apply Qabs_Qle_condition. split.
    - apply (Qmult_le_r _ _ B Hb).
      setoid_replace ((M * P - x) * B) with (M * B * P - x * B) by ring. rewrite <- Hq.
      setoid_replace (- (P * (1 # 2)) * B) with ((- B * (1#2)) * P) by ring.
      setoid_replace (M * B * P - A * P) with ((M * B - A) * P) by ring.
      apply Qmult_le_r; [assumption | lra].
    - apply (Qmult_le_r _ _ B Hb).
      setoid_replace ((M * P - x) * B) with (M * B * P - x * B) by ring. rewrite <- Hq.
      setoid_replace (P * (1 # 2) * B) with ((B * (1#2)) * P) by ring.
      setoid_replace (M * B * P - A * P) with ((M * B - A) * P) by ring.
      apply Qmult_le_r; [assumption | lra]. }
  lra.
Qed.

(* ------------------------------------------------------------------ *)
(* Part 4: facts about rp on positive rationals                        *)
(* ------------------------------------------------------------------ *)

Lemma mant_bounds a b : (0 < b)%Z ->
  (4503599627370496 * b <= a)%Z -> (a < 9007199254740992 * b)%Z ->
  (4503599627370496 <= rne a b <= 9007199254740992)%Z.
Proof.
  intros Hb Hlo Hhi. split.
  - apply rne_ge; [assumption | lia].
  - apply rne_le; [assumption | lia].
Qed.

Lemma rp_pos x : 0 < x -> 0 < rp x.
Proof.
  intros Hx. destruct (rp_spec x Hx) as (m & e & a & b & Hr & Ha & Hb & Hlo & Hhi & Hm & Hq).
  rewrite Hr. pose proof (mant_bounds a b Hb Hlo Hhi) as [Hm1 _]. rewrite <- Hm in Hm1.
  apply Qmult_lt_0_compat; [| apply p2_pos].
  change 0 with (inject_Z 0). rewrite <- Zlt_Qlt. lia.
Qed.

Lemma rp_mono x y : 0 < x -> x <= y -> rp x <= rp y.
Proof.
  intros Hx Hxy. assert (Hy : 0 < y) by lra.
  destruct (rp_spec x Hx) as (m1 & e1 & a1 & b1 & Hr1 & Ha1 & Hb1 & Hlo1 & Hhi1 & Hm1 & Hq1).
  destruct (rp_spec y Hy) as (m2 & e2 & a2 & b2 & Hr2 & Ha2 & Hb2 & Hlo2 & Hhi2 & Hm2 & Hq2).
  rewrite Hr1, Hr2.
  pose proof (norm_Q _ _ _ _ Hb1 Hlo1 Hhi1 Hq1) as [N1 N1'].
  pose proof (norm_Q _ _ _ _ Hb2 Hlo2 Hhi2 Hq2) as [N2 N2'].
  pose proof (mant_bounds a1 b1 Hb1 Hlo1 Hhi1) as [B1 B1']. rewrite <- Hm1 in B1, B1'.
  pose proof (mant_bounds a2 b2 Hb2 Hlo2 Hhi2) as [B2 B2']. rewrite <- Hm2 in B2, B2'.
  pose proof (p2_pos e1) as P1. pose proof (p2_pos e2) as P2.
  destruct (Z.lt_trichotomy e1 e2) as [Hlt | [Heq | Hgt]].
  - (* lower binade: bounded by the representable boundary *)
    pose proof (p2_lt2 e1 e2 Hlt) as Hp.
    rewrite Zle_Qle in B1', B2.
    change (inject_Z 9007199254740992) with 9007199254740992 in B1'.
    change (inject_Z 4503599627370496) with 4503599627370496 in B2.
    apply Qle_trans with (9007199254740992 * p2 e1).
    + apply Qmult_le_r; assumption.
    + apply Qle_trans with (4503599627370496 * p2 e2).
      * lra.
      * apply Qmult_le_r; assumption.
  - subst e2.
    assert (Hc : (a1 * b2 <= a2 * b1)%Z).
    { rewrite Zle_Qle, !inject_Z_mult.
      apply (Qmult_le_r _ _ (p2 e1) P1).
      setoid_replace (inject_Z a1 * inject_Z b2 * p2 e1)
        with (inject_Z a1 * p2 e1 * inject_Z b2) by ring.
      setoid_replace (inject_Z a2 * inject_Z b1 * p2 e1)
        with (inject_Z a2 * p2 e1 * inject_Z b1) by ring.
      rewrite Hq1, Hq2.
      setoid_replace (x * inject_Z b1 * inject_Z b2) with (x * (inject_Z b1 * inject_Z b2)) by ring.
      setoid_replace (y * inject_Z b2 * inject_Z b1) with (y * (inject_Z b1 * inject_Z b2)) by ring.
      apply Qmult_le_r; [| assumption].
      apply Qmult_lt_0_compat; change 0 with (inject_Z 0); rewrite <- Zlt_Qlt; assumption. }
    apply Qmult_le_r; [assumption|]. rewrite <- Zle_Qle. subst m1 m2.
    apply rne_mono_ratio; assumption.
  - exfalso. pose proof (p2_lt2 e2 e1 Hgt) as Hp. lra.
Qed.

Lemma rp_proper x y : 0 < x -> x == y -> rp x == rp y.
Proof.
  intros Hx Hxy. assert (Hy : 0 < y) by (rewrite <- Hxy; exact Hx).
  apply Qle_antisym; apply rp_mono; try assumption; rewrite Hxy; apply Qle_refl.
Qed.

Lemma rp_err x : 0 < x -> Qabs (rp x - x) <= x * (1 # 9007199254740992).
Proof.
  intros Hx.
  destruct (rp_spec x Hx) as (m & e & a & b & Hr & Ha & Hb & Hlo & Hhi & Hm & Hq).
  pose proof (norm_Q _ _ _ _ Hb Hlo Hhi Hq) as [N1 N2].
  pose proof (half_Q a b e x Hb Hq) as Hh. rewrite <- Hm in Hh. rewrite <- Hr in Hh.
  set (t := Qabs (rp x - x)) in *. set (P := p2 e) in *. lra.
Qed.

Lemma rp_exact_aux x m e a b k : (0 < b)%Z -> m = rne a b ->
  inject_Z a * p2 e == x * inject_Z b -> x == inject_Z k * p2 e ->
  inject_Z m * p2 e == x.
Proof.
  intros Hb Hm Hq Hx.
  assert (Hab : a = (k * b)%Z).
  { apply inject_Z_injective. rewrite inject_Z_mult.
    apply (Qmult_inj_r _ _ (p2 e)).
    - intro Hz. pose proof (p2_pos e) as HP. rewrite Hz in HP. discriminate.
    - rewrite Hq, Hx. ring. }
  rewrite Hm, (rne_exact a b k Hb Hab). symmetry. exact Hx.
Qed.

Lemma rp_exact x k g : 0 < x -> x == inject_Z k * p2 g ->
  (k <= 9007199254740992)%Z -> rp x == x.
Proof.
  intros Hx Hxk Hk.
  destruct (rp_spec x Hx) as (m & e & a & b & Hr & Ha & Hb & Hlo & Hhi & Hm & Hq).
  pose proof (norm_Q _ _ _ _ Hb Hlo Hhi Hq) as [N1 N2].
  rewrite Hr.
  pose proof (p2_pos e) as Pe. pose proof (p2_pos g) as Pg.
  assert (HK : inject_Z k <= 9007199254740992).
  { change 9007199254740992 with (inject_Z 9007199254740992). rewrite <- Zle_Qle. exact Hk. }
  assert (HKP : inject_Z k * p2 g <= 9007199254740992 * p2 g).
  { apply Qmult_le_r; assumption. }
  assert (Heg : (e <= g + 1)%Z).
  { destruct (Z_le_gt_dec e (g + 1)) as [H|H]; [exact H|exfalso].
    pose proof (p2_lt2 (g + 1) e ltac:(lia)) as Hp. rewrite p2_succ in Hp. lra. }
  destruct (Z_le_gt_dec e g) as [Hle | Hgt].
  - (* x = (k * 2^(g-e)) * 2^e *)
    apply (rp_exact_aux x m e a b (k * 2 ^ (g - e)) Hb Hm Hq).
    rewrite Hxk, inject_Z_mult, (p2_Z (g - e)) by lia.
    rewrite <- Qmult_assoc, <- p2_add. replace (g - e + e)%Z with g by lia. reflexivity.
  - assert (e = (g + 1)%Z) by lia. subst e.
    rewrite p2_succ in N1.
    assert (HK2 : 9007199254740992 <= inject_Z k).
    { apply (Qmult_le_r _ _ (p2 g) Pg). lra. }
    change 9007199254740992 with (inject_Z 9007199254740992) in HK2. rewrite <- Zle_Qle in HK2.
    assert (k = 9007199254740992%Z) by lia. subst k.
    apply (rp_exact_aux x m (g + 1) a b 4503599627370496 Hb Hm Hq).
    rewrite Hxk, p2_succ.
    change (inject_Z 9007199254740992) with 9007199254740992.
    change (inject_Z 4503599627370496) with 4503599627370496. ring.
Qed.

(* ------------------------------------------------------------------ *)
(* Part 5: the facts about rnd64                                       *)
(* ------------------------------------------------------------------ *)

Lemma Q_sign x : {x < 0} + {x == 0} + {0 < x}.
Proof.
  destruct (Q_dec x 0) as [[H|H]|H]; [left; left | right | left; right]; assumption.
Qed.

Lemma rnd64_0 : rnd64 0 == 0.
Proof. reflexivity. Qed.

Lemma rnd64_opp x : rnd64 (- x) == - rnd64 x.
Proof.
  destruct (Q_sign x) as [[H|H]|H].
  - assert (H' : 0 < - x) by lra.
    rewrite (rnd64_pos _ H'), (rnd64_neg _ H). ring.
  - assert (H' : - x == 0) by lra.
    rewrite (rnd64_zero _ H), (rnd64_zero _ H'). reflexivity.
  - assert (H' : - x < 0) by lra.
    rewrite (rnd64_pos _ H), (rnd64_neg _ H').
    rewrite (rp_proper (- - x) x); [reflexivity | lra | ring].
Qed.

Lemma rnd64_nonneg x : 0 <= x -> 0 <= rnd64 x.
Proof.
  intros Hx. destruct (Q_sign x) as [[H|H]|H].
  - lra.
  - rewrite (rnd64_zero _ H). apply Qle_refl.
  - rewrite (rnd64_pos _ H). apply Qlt_le_weak, rp_pos, H.
Qed.

Lemma rnd64_nonpos x : x <= 0 -> rnd64 x <= 0.
Proof.
  intros Hx. assert (H : 0 <= - x) by lra.
  apply rnd64_nonneg in H. rewrite rnd64_opp in H. lra.
Qed.

Lemma rnd64_mono x y : x <= y -> rnd64 x <= rnd64 y.
Proof.
  intros Hxy. destruct (Q_sign x) as [[Hx|Hx]|Hx].
  - destruct (Qlt_le_dec y 0) as [Hy|Hy].
    + rewrite (rnd64_neg _ Hx), (rnd64_neg _ Hy).
      assert (H : rp (- y) <= rp (- x)) by (apply rp_mono; lra). lra.
    + apply Qle_trans with 0; [apply rnd64_nonpos; lra | apply rnd64_nonneg; exact Hy].
  - rewrite (rnd64_zero _ Hx). apply rnd64_nonneg. lra.
  - assert (Hy : 0 < y) by lra.
    rewrite (rnd64_pos _ Hx), (rnd64_pos _ Hy). apply rp_mono; assumption.
Qed.

Lemma rnd64_proper x y : x == y -> rnd64 x == rnd64 y.
Proof.
  intros H. apply Qle_antisym; apply rnd64_mono; rewrite H; apply Qle_refl.
Qed.

#[global] Instance rnd64_Proper : Proper (Qeq ==> Qeq) rnd64.
Proof. intros x y H. apply rnd64_proper, H. Qed.

Lemma rnd64_Qred x : rnd64 (Qred x) == rnd64 x.
Proof. apply rnd64_proper, Qred_correct. Qed.

Lemma rnd64_err x : Qabs (rnd64 x - x) <= Qabs x * (1 # 9007199254740992).
Proof.
  destruct (Q_sign x) as [[H|H]|H].
  - rewrite (rnd64_neg _ H).
    assert (H' : 0 < - x) by lra. pose proof (rp_err _ H') as He.
    setoid_replace (- rp (- x) - x) with (- (rp (- x) - - x)) by ring.
    rewrite Qabs_opp. rewrite (Qabs_neg x) by lra. exact He.
  - rewrite (rnd64_zero _ H). rewrite H. compute. discriminate.
  - rewrite (rnd64_pos _ H). rewrite (Qabs_pos x) by lra. apply rp_err, H.
Qed.

(* exactness on dyadics with at most 53 significant bits *)
Lemma rnd64_dyadic x k g : x == inject_Z k * p2 g ->
  (Z.abs k <= 9007199254740992)%Z -> rnd64 x == x.
Proof.
  intros Hx Hk. pose proof (p2_pos g) as Pg.
  destruct (Q_sign x) as [[H|H]|H].
  - rewrite (rnd64_neg _ H). assert (H' : 0 < - x) by lra.
    rewrite (rp_exact (- x) (- k) g H'); [ring | | lia].
    rewrite Hx, inject_Z_opp. ring.
  - rewrite (rnd64_zero _ H). symmetry. exact H.
  - rewrite (rnd64_pos _ H). apply (rp_exact x k g H Hx). lia.
Qed.

Lemma rnd64_pow2_mul m e : (Z.abs m <= 2 ^ 53)%Z -> rnd64 (pow2Q m e) == pow2Q m e.
Proof.
  intros Hm. change (2 ^ 53)%Z with 9007199254740992%Z in Hm.
  apply (rnd64_dyadic _ m e); [apply pow2Q_p2 | exact Hm].
Qed.

Lemma rnd64_int z : (Z.abs z <= 2 ^ 53)%Z -> rnd64 (inject_Z z) == inject_Z z.
Proof.
  intros Hz. change (2 ^ 53)%Z with 9007199254740992%Z in Hz.
  apply (rnd64_dyadic _ z 0); [| exact Hz].
  change (p2 0) with 1. ring.
Qed.

(* every result is a dyadic with a 53-bit mantissa *)
Lemma rnd64_repr x : exists m e, rnd64 x == inject_Z m * p2 e /\ (Z.abs m <= 9007199254740992)%Z.
Proof.
  destruct (Q_sign x) as [[H|H]|H].
  - assert (H' : 0 < - x) by lra.
    destruct (rp_spec _ H') as (m & e & a & b & Hr & Ha & Hb & Hlo & Hhi & Hm & Hq).
    pose proof (mant_bounds a b Hb Hlo Hhi) as [B1 B2]. rewrite <- Hm in B1, B2.
    exists (- m)%Z, e. split; [| lia].
    rewrite (rnd64_neg _ H), Hr, inject_Z_opp. ring.
  - exists 0%Z, 0%Z. split; [| lia]. rewrite (rnd64_zero _ H). reflexivity.
  - destruct (rp_spec _ H) as (m & e & a & b & Hr & Ha & Hb & Hlo & Hhi & Hm & Hq).
    pose proof (mant_bounds a b Hb Hlo Hhi) as [B1 B2]. rewrite <- Hm in B1, B2.
    exists m, e. split; [| lia].
    rewrite (rnd64_pos _ H), Hr. reflexivity.
Qed.

Lemma rnd64_idem x : rnd64 (rnd64 x) == rnd64 x.
Proof.
  destruct (rnd64_repr x) as (m & e & Hr & Hm).
  apply (rnd64_dyadic _ m e Hr Hm).
Qed.

