(* C18  overbook: one operator and one CPU per container, full-pool RAM, CPU-bound.
   Facts about [overbook_step] / [ob_results] / [ob_enqueue] / [ob_find_pool] / [ob_assign] of
   Model/Sched.v.

   Imports Proofs/NaiveFacts.v for the shared vocabulary ([sublist], [asteps] = histories of accepted
   requests for Assigned, [mk_assignment_transition_all], ...): compile NaiveFacts.v first.

   Structure: the dispatch loop [ob_assign] is characterised by the inductive relation [ob_run] (one
   constructor per way an operator of the queue is treated: abandoned pipeline, no capacity = stop,
   assigned); [overbook_step_cases] shows that a successful call is the early return or: count the
   failures, enqueue the ready operators, run the loop. O1..O6 are read off that. *)
From Coq Require Import List Arith Lia Bool ZArith QArith FinFun Permutation.
Import ListNotations.
From Eudoxia Require Import Num.Rnd64 Model.Types Model.Dag Model.Shapes Model.Lifecycle
  Model.Container Model.Pool Model.Executor Model.Sched
  Proofs.ListFacts Proofs.LifecycleFacts Proofs.ExecLifeFacts Proofs.NaiveFacts.
Close Scope Q_scope.
Close Scope Z_scope.

(* ------------------------------------------------------------------------------------------ *)
(* 1. the failure counters                                                                      *)
(* ------------------------------------------------------------------------------------------ *)

Lemma assoc_get_incr k k' l :
  assoc_get k (assoc_incr k' l) = (assoc_get k l + (if Nat.eqb k' k then 1 else 0))%Z.
Proof.
  induction l as [|[a v] t IH]; cbn [assoc_incr assoc_get].
  - destruct (Nat.eqb k' k); lia.
  - destruct (Nat.eqb a k') eqn:E1; cbn [assoc_get].
    + apply Nat.eqb_eq in E1. subst a. destruct (Nat.eqb k' k); lia.
    + destruct (Nat.eqb a k) eqn:E2.
      * apply Nat.eqb_eq in E2. subst a. rewrite Nat.eqb_sym, E1. lia.
      * exact IH.
Qed.

Lemma add_absent_In x y l : In x (add_absent y l) <-> x = y \/ In x l.
Proof.
  induction l as [|h t IH]; cbn [add_absent].
  - cbn. intuition.
  - destruct (Nat.eqb y h) eqn:E.
    + apply Nat.eqb_eq in E. subst h. cbn. intuition.
    + cbn [In]. rewrite IH. intuition.
Qed.

Lemma fold_add_absent_In x : forall l acc,
  In x (fold_left (fun l p => add_absent p l) l acc) <-> In x l \/ In x acc.
Proof.
  induction l as [|h t IH]; intros acc; cbn [fold_left].
  - cbn. intuition.
  - rewrite IH, add_absent_In. cbn [In]. intuition.
Qed.

(* the pipeline a result belongs to (results of this scheduler carry exactly one operator) *)
Definition r_pipe (C : cfg) (r : result) : nat := op_pipe (S_of C) (hd 0 (r_ops r)).

(* failed results of pipeline [k] in a batch *)
Definition fail_count (C : cfg) (k : nat) (results : list result) : nat :=
  length (filter (fun r => r_err r && Nat.eqb (r_pipe C r) k) results).

Lemma ob_results_spec C : forall results proc fails proc' fails',
  ob_results C results proc fails = Ok (proc', fails') ->
  Forall (fun r => exists op, r_ops r = [op]) results /\
  (forall k, assoc_get k fails' = (assoc_get k fails + Z.of_nat (fail_count C k results))%Z) /\
  (forall k, In k proc' <-> In k proc \/ exists r, In r results /\ r_pipe C r = k).
Proof.
  induction results as [|r t IH]; intros proc fails proc' fails' H.
  - cbn in H. inversion H; subst. split; [constructor|]. split.
    + intros k. cbn. lia.
    + intros k. split; [auto|]. intros [Hk|(r & [] & _)]. exact Hk.
  - cbn [ob_results] in H. destruct (r_ops r) as [|op [|op2 l]] eqn:Er; try discriminate.
    apply IH in H. destruct H as (F & G & P).
    assert (Rp : r_pipe C r = op_pipe (S_of C) op) by (unfold r_pipe; rewrite Er; reflexivity).
    split; [constructor; [exists op; exact Er | exact F]|]. split.
    + intros k. rewrite G. unfold fail_count. cbn [filter]. rewrite Rp.
      destruct (r_err r); cbn [andb].
      * rewrite assoc_get_incr. destruct (Nat.eqb (op_pipe (S_of C) op) k); cbn [length]; lia.
      * lia.
    + intros k. rewrite P, add_absent_In. split.
      * intros [[->|Hk]|(r' & Hr & E)]; auto.
        -- right. exists r. split; [left; reflexivity | exact Rp].
        -- right. exists r'. split; [right; exact Hr | exact E].
      * intros [Hk|(r' & [->|Hr] & E)]; auto.
        -- left. left. rewrite <- E. exact Rp.
        -- right. exists r'. auto.
Qed.

(* ------------------------------------------------------------------------------------------ *)
(* 2. the operator queue: duplicates are suppressed                                             *)
(* ------------------------------------------------------------------------------------------ *)

Lemma ob_enqueue_spec : forall ops q,
  exists added,
    ob_enqueue ops q = q ++ added /\
    (forall o, In o added -> In o ops /\ ~ In o q) /\
    (NoDup q -> NoDup (q ++ added)) /\
    (forall o, In o ops -> In o (q ++ added)).
Proof.
  induction ops as [|o t IH]; intros q; cbn [ob_enqueue].
  - exists []. rewrite app_nil_r. repeat split; auto; contradiction.
  - destruct (memb o q) eqn:M.
    + destruct (IH q) as (ad & E & I & N & A). exists ad.
      split; [exact E|]. split; [|split; [exact N|]].
      * intros x Hx. destruct (I x Hx) as [I1 I2]. split; [right; exact I1 | exact I2].
      * intros x [->|Hx]; [apply in_or_app; left; apply memb_In; exact M | auto].
    + apply memb_false in M. destruct (IH (q ++ [o])) as (ad & E & I & N & A).
      exists (o :: ad). rewrite E, <- app_assoc. cbn [app].
      split; [reflexivity|]. split; [|split].
      * intros x [->|Hx]; [split; [left; reflexivity | exact M]|].
        destruct (I x Hx) as [I1 I2]. split; [right; exact I1|].
        intros Hq. apply I2. apply in_or_app. left. exact Hq.
      * intros Nq. assert (N1 : NoDup (q ++ [o])).
        { apply NoDup_app_intro_nat; auto.
          - constructor; [intros []|constructor].
          - intros x Hx [->|[]]. exact (M Hx). }
        specialize (N N1). rewrite <- app_assoc in N. exact N.
      * intros x [->|Hx].
        -- apply in_or_app. right. left. reflexivity.
        -- specialize (A x Hx). rewrite <- app_assoc in A. exact A.
Qed.

Lemma ob_enqueue_fold C w : forall proc q,
  exists added,
    fold_left (fun q p => ob_enqueue (get_ops (S_of C) w p assignable true) q) proc q = q ++ added /\
    (forall o, In o added -> exists p, In p proc /\ In o (get_ops (S_of C) w p assignable true)) /\
    (NoDup q -> NoDup (q ++ added)) /\
    (forall p o, In p proc -> In o (get_ops (S_of C) w p assignable true) -> In o (q ++ added)).
Proof.
  induction proc as [|p t IH]; intros q; cbn [fold_left].
  - exists []. rewrite app_nil_r. repeat split; auto; contradiction.
  - destruct (ob_enqueue_spec (get_ops (S_of C) w p assignable true) q) as (ad1 & E1 & I1 & N1 & A1).
    rewrite E1. destruct (IH (q ++ ad1)) as (ad2 & E2 & I2 & N2 & A2).
    exists (ad1 ++ ad2). rewrite E2, <- app_assoc. repeat split.
    + intros o Ho. apply in_app_iff in Ho. destruct Ho as [Ho|Ho].
      * exists p. split; [left; reflexivity | apply (I1 o Ho)].
      * destruct (I2 o Ho) as (p' & Hp' & Hg). exists p'. split; [right; exact Hp' | exact Hg].
    + intros Nq. rewrite app_assoc. auto.
    + intros p' o [->|Hp'] Hg.
      * rewrite app_assoc. apply in_or_app. left. auto.
      * rewrite app_assoc. eapply A2; eauto.
Qed.

(* ------------------------------------------------------------------------------------------ *)
(* 3. try_make_assignment: the CPU snapshot                                                     *)
(* ------------------------------------------------------------------------------------------ *)

Definition snap_t := (nat * Z * Q)%type.
Definition sn_id (x : snap_t) : nat := fst (fst x).
Definition sn_av (x : snap_t) : Z := snd (fst x).
Definition sn_mr (x : snap_t) : Q := snd x.
Definition idmr (snap : list snap_t) : list (nat * Q) := map (fun x => (sn_id x, sn_mr x)) snap.

(* CPUs still free for pool [pid] in the snapshot *)
Definition cap (snap : list snap_t) (pid : nat) : Z :=
  sumZ (map (fun x => if Nat.eqb (sn_id x) pid then Z.max 0 (sn_av x) else 0%Z) snap).

Lemma ob_find_pool_none snap : ob_find_pool snap = None -> Forall (fun x => (sn_av x < 1)%Z) snap.
Proof.
  induction snap as [|[[pid av] mr] t IH]; cbn [ob_find_pool]; intros H; [constructor|].
  destruct (1 <=? av)%Z eqn:E; [discriminate|].
  destruct (ob_find_pool t) as [[[p m] t']|]; [discriminate|].
  constructor; [cbn; apply Z.leb_gt in E; exact E | auto].
Qed.

Lemma cap_none snap pid : Forall (fun x => (sn_av x < 1)%Z) snap -> cap snap pid = 0%Z.
Proof.
  unfold cap. induction 1 as [|x t Hx _ IH]; cbn [map sumZ]; [reflexivity|].
  rewrite IH. destruct (Nat.eqb (sn_id x) pid); lia.
Qed.

(* the first pool, in pool order, with a free CPU; its counter goes down by one *)
Lemma ob_find_pool_some : forall snap pid mr snap',
  ob_find_pool snap = Some (pid, mr, snap') ->
  exists pre av post,
    snap = pre ++ (pid, av, mr) :: post /\ Forall (fun x => (sn_av x < 1)%Z) pre /\ (1 <= av)%Z /\
    snap' = pre ++ (pid, (av - 1)%Z, mr) :: post.
Proof.
  induction snap as [|[[pid0 av0] mr0] t IH]; cbn [ob_find_pool]; intros pid mr snap' H; [discriminate|].
  destruct (1 <=? av0)%Z eqn:E.
  - inversion H; subst. exists [], av0, t. apply Z.leb_le in E. repeat split; auto.
  - destruct (ob_find_pool t) as [[[p m] t']|] eqn:F; [|discriminate].
    inversion H; subst. destruct (IH _ _ _ eq_refl) as (pre & av & post & E1 & F1 & L & E2).
    exists ((pid0, av0, mr0) :: pre), av, post. subst. repeat split; auto.
    constructor; [cbn; apply Z.leb_gt in E; exact E | exact F1].
Qed.

Lemma cap_app a b pid : cap (a ++ b) pid = (cap a pid + cap b pid)%Z.
Proof.
  unfold cap. induction a as [|x t IH]; cbn [app map sumZ]; [lia|]. rewrite IH. lia.
Qed.

Lemma cap_cons x t pid :
  cap (x :: t) pid = ((if Nat.eqb (sn_id x) pid then Z.max 0 (sn_av x) else 0) + cap t pid)%Z.
Proof. reflexivity. Qed.

Lemma ob_find_pool_cap snap pid mr snap' :
  ob_find_pool snap = Some (pid, mr, snap') ->
  idmr snap' = idmr snap /\ In (pid, mr) (idmr snap) /\
  forall pid', cap snap pid' = (cap snap' pid' + (if Nat.eqb pid pid' then 1 else 0))%Z.
Proof.
  intros H. destruct (ob_find_pool_some _ _ _ _ H) as (pre & av & post & -> & _ & L & ->).
  split; [|split].
  - unfold idmr. rewrite !map_app. reflexivity.
  - unfold idmr. rewrite map_app. apply in_or_app. right. left. reflexivity.
  - intros pid'. rewrite !cap_app, !cap_cons. unfold sn_id, sn_av. cbn [fst snd].
    destruct (Nat.eqb pid pid'); lia.
Qed.

(* ------------------------------------------------------------------------------------------ *)
(* 4. the dispatch loop                                                                         *)
(* ------------------------------------------------------------------------------------------ *)

Record ob_event := { oe_op : nat; oe_pid : nat; oe_world : world; oe_asg : asg }.

Definition ob_asg (C : cfg) (op pid : nat) (mr : Q) : asg :=
  {| a_ops := [op]; a_cpu := 1%Z; a_ram := mr;
     a_prio := prio_of_pipe C (op_pipe (S_of C) op); a_pool := Z.of_nat pid |}.

Section Loop.
Variable C : cfg.
Variable fails : list (nat * Z).
Local Notation St := (S_of C).

Definition abandoned (op : nat) : Prop := (max_failures <= assoc_get (op_pipe St op) fails)%Z.

(* [ob_run w snap queue q' w' snap' ev]: the loop over [queue], started in world [w] with CPU snapshot
   [snap], ends in world [w'] with snapshot [snap'], the kept queue [q'] and the assignments [ev] *)
Inductive ob_run : world -> list snap_t -> list nat -> list nat -> world -> list snap_t -> list ob_event -> Prop :=
| obr_nil w snap : ob_run w snap [] [] w snap []
| obr_abandon w snap op rest q' w' snap' ev :
    abandoned op -> ob_run w snap rest q' w' snap' ev -> ob_run w snap (op :: rest) q' w' snap' ev
| obr_full w snap op rest :
    ~ abandoned op -> assignable (st_of w op) = true -> ob_find_pool snap = None ->
    ob_run w snap (op :: rest) (op :: rest) w snap []
| obr_assign w snap op rest pid mr snap1 w1 q' w' snap' ev :
    ~ abandoned op -> assignable (st_of w op) = true ->
    ob_find_pool snap = Some (pid, mr, snap1) ->
    mk_assignment C w (ob_asg C op pid mr) = Ok w1 ->
    ob_run w1 snap1 rest q' w' snap' ev ->
    ob_run w snap (op :: rest) q' w' snap'
           ({| oe_op := op; oe_pid := pid; oe_world := w; oe_asg := ob_asg C op pid mr |} :: ev).

Lemma ob_assign_run : forall queue w snap acc q' w' asgs,
  ob_assign C w fails snap queue acc = Ok (q', w', asgs) ->
  exists snap' ev, ob_run w snap queue q' w' snap' ev /\ asgs = acc ++ map oe_asg ev.
Proof.
  induction queue as [|op rest IH]; intros w snap acc q' w' asgs H.
  - cbn in H. inversion H; subst. exists snap, []. split; [constructor | rewrite app_nil_r; reflexivity].
  - cbn [ob_assign] in H.
    destruct (max_failures <=? assoc_get (op_pipe St op) fails)%Z eqn:Ab.
    + apply Z.leb_le in Ab. apply IH in H. destruct H as (snap' & ev & R & ->).
      exists snap', ev. split; [apply obr_abandon; auto | reflexivity].
    + apply Z.leb_gt in Ab. assert (NA : ~ abandoned op) by (unfold abandoned; lia).
      destruct (assignable (st_of w op)) eqn:As; cbn [negb] in H; [|discriminate].
      destruct (ob_find_pool snap) as [[[pid mr] snap1]|] eqn:F.
      * unfold bind in H.
        destruct (mk_assignment C w _) as [w1|e] eqn:M; [|discriminate].
        apply IH in H. destruct H as (snap' & ev & R & ->).
        exists snap', ({| oe_op := op; oe_pid := pid; oe_world := w; oe_asg := ob_asg C op pid mr |} :: ev).
        split; [eapply obr_assign; eauto|]. cbn [map oe_asg]. rewrite <- app_assoc. reflexivity.
      * inversion H; subst. exists snap, []. split; [apply obr_full; auto | rewrite app_nil_r; reflexivity].
Qed.

Lemma ob_run_asteps w snap q q' w' snap' ev : ob_run w snap q q' w' snap' ev -> asteps St w w'.
Proof.
  induction 1 as [| | |w snap op rest pid mr snap1 w1 q' w' snap' ev _ _ _ M _ IH]; auto;
    try constructor.
  eapply asteps_trans; [|exact IH]. eapply mk_assignment_asteps. exact M.
Qed.

(* what every assignment looks like *)
Definition oe_ok (w w' : world) (snap : list snap_t) (e : ob_event) : Prop :=
  ~ abandoned (oe_op e) /\
  asteps St w (oe_world e) /\ asteps St (oe_world e) w' /\
  assignable (st_of (oe_world e) (oe_op e)) = true /\
  exists mr, oe_asg e = ob_asg C (oe_op e) (oe_pid e) mr /\ In (oe_pid e, mr) (idmr snap) /\
             exists w1, mk_assignment C (oe_world e) (oe_asg e) = Ok w1 /\ asteps St w1 w'.

Lemma ob_run_events w snap q q' w' snap' ev :
  ob_run w snap q q' w' snap' ev -> Forall (oe_ok w w' snap) ev.
Proof.
  induction 1 as [w snap|w snap op rest q' w' snap' ev _ _ IH|w snap op rest _ _ _
                 |w snap op rest pid mr snap1 w1 q' w' snap' ev NA As F M R IH].
  - constructor.
  - exact IH.
  - constructor.
  - pose proof (mk_assignment_asteps _ _ _ _ M) as A1.
    pose proof (ob_run_asteps _ _ _ _ _ _ _ R) as A2.
    destruct (ob_find_pool_cap _ _ _ _ F) as (Eid & Iid & _).
    constructor.
    + unfold oe_ok. cbn [oe_op oe_pid oe_world oe_asg]. repeat split; auto.
      * constructor.
      * eapply asteps_trans; eauto.
      * exists mr. repeat split; auto. exists w1. auto.
    + eapply Forall_impl; [|exact IH]. intros e (B1 & B2 & B3 & B4 & mr' & B5 & B6 & B7).
      unfold oe_ok. repeat split; auto.
      * eapply asteps_trans; eauto.
      * exists mr'. rewrite <- Eid. auto.
Qed.

(* the queue: a prefix is consumed; its operators are, in order, the assigned ones, except those of
   abandoned pipelines; the loop stops at the first operator that finds no CPU *)
Lemma ob_run_queue w snap q q' w' snap' ev :
  ob_run w snap q q' w' snap' ev ->
  exists pre,
    q = pre ++ q' /\
    sublist (map oe_op ev) pre /\
    Forall (fun o => abandoned o \/ In o (map oe_op ev)) pre /\
    (forall o, In o (map oe_op ev) -> ~ abandoned o) /\
    (q' = [] \/
     exists o rest, q' = o :: rest /\ ~ abandoned o /\ assignable (st_of w' o) = true /\
                    ob_find_pool snap' = None).
Proof.
  induction 1 as [w snap|w snap op rest q' w' snap' ev Ab _ IH|w snap op rest NA As F
                 |w snap op rest pid mr snap1 w1 q' w' snap' ev NA As F M R IH].
  - exists []. split; [reflexivity|]. split; [apply sl_nil|]. split; [constructor|].
    split; [intros o []|]. left. reflexivity.
  - destruct IH as (pre & E & SL & FA & NAb & St'). exists (op :: pre). subst rest.
    split; [reflexivity|]. split; [apply sl_skip; exact SL|].
    split; [constructor; [left; exact Ab | exact FA]|]. split; [exact NAb | exact St'].
  - exists []. split; [reflexivity|]. split; [apply sl_nil|]. split; [constructor|].
    split; [intros o []|]. right. exists op, rest. auto.
  - destruct IH as (pre & E & SL & FA & NAb & St'). exists (op :: pre). subst rest.
    split; [reflexivity|]. split; [cbn [map oe_op]; apply sl_keep; exact SL|].
    split; [|split; [|exact St']].
    + constructor; [right; left; reflexivity|].
      eapply Forall_impl; [|exact FA]. intros o [Ho|Ho]; [left; exact Ho | right; right; exact Ho].
    + intros o [<-|Ho]; [exact NA | auto].
Qed.

(* CPU accounting: every assignment takes one CPU of its pool out of the snapshot *)
Lemma ob_run_cap w snap q q' w' snap' ev :
  ob_run w snap q q' w' snap' ev ->
  idmr snap' = idmr snap /\
  forall pid, cap snap pid =
              (cap snap' pid + Z.of_nat (length (filter (fun e => Nat.eqb (oe_pid e) pid) ev)))%Z.
Proof.
  induction 1 as [w snap|w snap op rest q' w' snap' ev _ _ IH|w snap op rest _ _ _
                 |w snap op rest pid mr snap1 w1 q' w' snap' ev NA As F M R [IH1 IH2]].
  - split; [reflexivity|]. intros pid. cbn. lia.
  - exact IH.
  - split; [reflexivity|]. intros pid. cbn. lia.
  - destruct (ob_find_pool_cap _ _ _ _ F) as (Eid & _ & Cp). split; [congruence|].
    intros pid'. rewrite (Cp pid'), (IH2 pid'). cbn [filter oe_pid].
    destruct (Nat.eqb pid pid'); cbn [length]; lia.
Qed.

End Loop.

(* ------------------------------------------------------------------------------------------ *)
(* 5. [overbook_step] is the early return or: count failures, enqueue, dispatch                 *)
(* ------------------------------------------------------------------------------------------ *)

Definition ob_snap (e : estate) : list snap_t :=
  map (fun p => (p_id p, p_avail_cpu p, p_max_ram p)) (e_pools e).

(* the queue of the round: the old queue plus the ready operators of the pipelines to process *)
Definition ob_queue (C : cfg) (w : world) (q proc : list nat) : list nat :=
  fold_left (fun q p => ob_enqueue (get_ops (S_of C) w p assignable true) q) proc q.

Definition ob_proc0 (newp : list nat) : list nat := fold_left (fun l p => add_absent p l) newp [].

Lemma overbook_step_cases C s e results newp s' w' susps asgs :
  overbook_step C s e results newp = Ok (s', w', susps, asgs) ->
  (newp = [] /\ results = [] /\ s' = s /\ w' = e_world e /\ susps = [] /\ asgs = []) \/
  ((newp <> [] \/ results <> []) /\
   exists proc fails q' snap' ev,
     ob_results C results (ob_proc0 newp) (ss_fail s) = Ok (proc, fails) /\
     ob_run C fails (e_world e) (ob_snap e) (ob_queue C (e_world e) (ss_queue s) proc) q' w' snap' ev /\
     s' = {| ss_queue := q'; ss_fail := fails; ss_q := ss_q s; ss_i := ss_i s; ss_b := ss_b s;
             ss_suspending := ss_suspending s; ss_requeued := ss_requeued s; ss_oom := ss_oom s |} /\
     susps = [] /\ asgs = map oe_asg ev).
Proof.
  intros H.
  assert (B : (do pf <- ob_results C results (ob_proc0 newp) (ss_fail s);
               let '(proc, fails) := pf in
               do r <- ob_assign C (e_world e) fails (ob_snap e)
                                 (ob_queue C (e_world e) (ss_queue s) proc) [];
               let '(q', w1, a1) := r in
               Ok ({| ss_queue := q'; ss_fail := fails; ss_q := ss_q s; ss_i := ss_i s; ss_b := ss_b s;
                      ss_suspending := ss_suspending s; ss_requeued := ss_requeued s;
                      ss_oom := ss_oom s |}, w1, @nil susp, a1)) = Ok (s', w', susps, asgs) ->
          exists proc fails q' snap' ev,
            ob_results C results (ob_proc0 newp) (ss_fail s) = Ok (proc, fails) /\
            ob_run C fails (e_world e) (ob_snap e) (ob_queue C (e_world e) (ss_queue s) proc) q' w' snap' ev /\
            s' = {| ss_queue := q'; ss_fail := fails; ss_q := ss_q s; ss_i := ss_i s; ss_b := ss_b s;
                    ss_suspending := ss_suspending s; ss_requeued := ss_requeued s; ss_oom := ss_oom s |} /\
            susps = [] /\ asgs = map oe_asg ev).
  { clear H. intros H. unfold bind in H.
    destruct (ob_results C results (ob_proc0 newp) (ss_fail s)) as [[proc fails]|er] eqn:E1; [|discriminate].
    destruct (ob_assign C (e_world e) fails (ob_snap e) (ob_queue C (e_world e) (ss_queue s) proc) [])
      as [[[q' w1] a1]|er] eqn:E2; [|discriminate].
    inversion H; subst. apply ob_assign_run in E2. destruct E2 as (snap' & ev & R & ->).
    exists proc, fails, q', snap', ev. cbn [app]. auto 10. }
  unfold overbook_step in H. destruct newp as [|n np]; [destruct results as [|r rs]|].
  - left. inversion H. auto 10.
  - right. split; [right; discriminate|]. apply B. exact H.
  - right. split; [left; discriminate|]. apply B. exact H.
Qed.

(* ------------------------------------------------------------------------------------------ *)
(* O1                                                                                           *)
(* ------------------------------------------------------------------------------------------ *)

Theorem ob_no_suspend C s e results newp s' w' susps asgs :
  overbook_step C s e results newp = Ok (s', w', susps, asgs) -> susps = [].
Proof.
  intros H. apply overbook_step_cases in H.
  destruct H as [(_ & _ & _ & _ & E & _)|(_ & proc & fails & q' & snap' & ev & _ & _ & _ & E & _)]; exact E.
Qed.

Theorem ob_early_return C s e : overbook_step C s e [] [] = Ok (s, e_world e, [], []).
Proof. reflexivity. Qed.

Theorem ob_world C s e results newp s' w' susps asgs :
  overbook_step C s e results newp = Ok (s', w', susps, asgs) -> asteps (S_of C) (e_world e) w'.
Proof.
  intros H. apply overbook_step_cases in H.
  destruct H as [(_ & _ & _ & -> & _ & _)|(_ & proc & fails & q' & snap' & ev & _ & R & _ & _ & _)].
  - constructor.
  - eapply ob_run_asteps; eauto.
Qed.

(* ------------------------------------------------------------------------------------------ *)
(* O5: failure counters, abandoning                                                             *)
(* ------------------------------------------------------------------------------------------ *)

(* one increment per failed result of the pipeline, nothing else *)
Theorem ob_fail_counts C s e results newp s' w' susps asgs :
  overbook_step C s e results newp = Ok (s', w', susps, asgs) ->
  forall k, assoc_get k (ss_fail s') = (assoc_get k (ss_fail s) + Z.of_nat (fail_count C k results))%Z.
Proof.
  intros H k. apply overbook_step_cases in H.
  destruct H as [(_ & -> & -> & _ & _ & _)|(_ & proc & fails & q' & snap' & ev & E & _ & -> & _ & _)].
  - cbn. lia.
  - cbn [ss_fail]. apply (ob_results_spec _ _ _ _ _ _ E).
Qed.

Corollary ob_fail_monotone C s e results newp s' w' susps asgs :
  overbook_step C s e results newp = Ok (s', w', susps, asgs) ->
  forall k, (assoc_get k (ss_fail s) <= assoc_get k (ss_fail s'))%Z.
Proof. intros H k. rewrite (ob_fail_counts _ _ _ _ _ _ _ _ _ H k). lia. Qed.

(* results of this scheduler's containers carry exactly one operator (otherwise `only` raises) *)
Theorem ob_results_single C s e results newp s' w' susps asgs :
  overbook_step C s e results newp = Ok (s', w', susps, asgs) ->
  Forall (fun r => exists op, r_ops r = [op]) results.
Proof.
  intros H. apply overbook_step_cases in H.
  destruct H as [(_ & -> & _)|(_ & proc & fails & q' & snap' & ev & E & _)]; [constructor|].
  apply (ob_results_spec _ _ _ _ _ _ E).
Qed.

(* ------------------------------------------------------------------------------------------ *)
(* O2: the shape of every container                                                             *)
(* ------------------------------------------------------------------------------------------ *)

Lemma idmr_ob_snap e : idmr (ob_snap e) = map (fun p => (p_id p, p_max_ram p)) (e_pools e).
Proof. unfold idmr, ob_snap. rewrite map_map. reflexivity. Qed.

Lemma NoDup_app_l {A} (a b : list A) : NoDup (a ++ b) -> NoDup a.
Proof.
  induction a as [|h a IH]; cbn; intros N; [constructor|]. inversion N as [|? ? Hn N']; subst.
  constructor; [|auto]. intros Hi. apply Hn. apply in_or_app. left. exact Hi.
Qed.

Lemma NoDup_map_eq {A B} (f : A -> B) l x y :
  NoDup (map f l) -> In x l -> In y l -> f x = f y -> x = y.
Proof.
  induction l as [|h t IH]; intros N Hx Hy E; [contradiction|].
  cbn [map] in N. inversion N as [|? ? Hn N']; subst.
  destruct Hx as [->|Hx], Hy as [->|Hy]; auto.
  - exfalso. apply Hn. rewrite E. apply in_map. exact Hy.
  - exfalso. apply Hn. rewrite <- E. apply in_map. exact Hx.
Qed.

Theorem ob_shape C s e results newp s' w' susps asgs :
  overbook_step C s e results newp = Ok (s', w', susps, asgs) ->
  forall a, In a asgs ->
  exists o p wk,
    a_ops a = [o] /\ a_cpu a = 1%Z /\
    In p (e_pools e) /\ a_pool a = Z.of_nat (p_id p) /\ a_ram a = p_max_ram p /\
    a_prio a = prio_of_pipe C (op_pipe (S_of C) o) /\
    asteps (S_of C) (e_world e) wk /\ asteps (S_of C) wk w' /\
    assignable (st_of wk o) = true /\
    (assoc_get (op_pipe (S_of C) o) (ss_fail s') < max_failures)%Z /\
    (exists w1, mk_assignment C wk a = Ok w1 /\ asteps (S_of C) w1 w') /\
    (* the operator was queued: left over from an earlier round, or ready in a processed pipeline *)
    (In o (ss_queue s) \/
     exists k, (In k newp \/ exists r, In r results /\ r_pipe C r = k) /\
               In o (get_ops (S_of C) (e_world e) k assignable true)).
Proof.
  intros H a Ha. apply overbook_step_cases in H.
  destruct H as [(_ & _ & _ & _ & _ & ->)|(_ & proc & fails & q' & snap' & ev & E & R & -> & _ & ->)];
    [contradiction|].
  apply in_map_iff in Ha. destruct Ha as (x & <- & Hx).
  pose proof (ob_run_events _ _ _ _ _ _ _ _ _ R) as EV. rewrite Forall_forall in EV.
  destruct (EV x Hx) as (NA & A1 & A2 & As & mr & Ea & Im & w1 & M & A3).
  rewrite idmr_ob_snap in Im. apply in_map_iff in Im. destruct Im as (p & Ep & Ip).
  injection Ep as Epid Emr. subst mr.
  exists (oe_op x), p, (oe_world x). rewrite Ea. cbn [a_ops a_cpu a_pool a_ram a_prio ob_asg ss_fail].
  rewrite <- Epid.
  split; [reflexivity|]. split; [reflexivity|]. split; [exact Ip|]. split; [reflexivity|].
  split; [reflexivity|]. split; [reflexivity|]. split; [exact A1|]. split; [exact A2|].
  split; [exact As|]. split; [unfold abandoned in NA; lia|].
  split; [exists w1; rewrite Epid, <- Ea; auto|].
  destruct (ob_run_queue _ _ _ _ _ _ _ _ _ R) as (pre & Eq & SL & _).
  assert (Iq : In (oe_op x) (ob_queue C (e_world e) (ss_queue s) proc)).
  { rewrite Eq. apply in_or_app. left. eapply sublist_In; [exact SL|]. apply in_map. exact Hx. }
  unfold ob_queue in Iq.
  destruct (ob_enqueue_fold C (e_world e) proc (ss_queue s)) as (ad & E2 & I2 & _ & _).
  rewrite E2 in Iq. apply in_app_iff in Iq. destruct Iq as [Iq|Iq]; [left; exact Iq|].
  right. destruct (I2 _ Iq) as (k & Hk & Hg). exists k. split; [|exact Hg].
  destruct (ob_results_spec _ _ _ _ _ _ E) as (_ & _ & P). apply P in Hk.
  destruct Hk as [Hk|Hk]; [left|right; exact Hk].
  unfold ob_proc0 in Hk. apply fold_add_absent_In in Hk. destruct Hk as [Hk|[]]. exact Hk.
Qed.

(* with distinct pool ids, "the pool" of an assignment is determined *)
Corollary ob_shape_full_ram C s e results newp s' w' susps asgs :
  overbook_step C s e results newp = Ok (s', w', susps, asgs) ->
  NoDup (map p_id (e_pools e)) ->
  forall a p, In a asgs -> In p (e_pools e) -> a_pool a = Z.of_nat (p_id p) ->
  a_ram a = p_max_ram p /\ a_cpu a = 1%Z /\ length (a_ops a) = 1.
Proof.
  intros H N a p Ha Hp Ep.
  destruct (ob_shape _ _ _ _ _ _ _ _ _ H a Ha) as (o & p0 & wk & Eo & Ec & Ip0 & Ep0 & Er & _).
  assert (p0 = p).
  { apply (NoDup_map_eq p_id (e_pools e)); auto. apply Nat2Z.inj. congruence. }
  subst p0. rewrite Eo. auto.
Qed.

(* the operator queue never holds an operator twice; distinct containers hold distinct operators *)
Theorem ob_queue_nodup C s e results newp s' w' susps asgs :
  overbook_step C s e results newp = Ok (s', w', susps, asgs) ->
  NoDup (ss_queue s) ->
  NoDup (ss_queue s') /\ NoDup (flat_map a_ops asgs) /\
  (forall o, In o (flat_map a_ops asgs) -> ~ In o (ss_queue s')).
Proof.
  intros H N. apply overbook_step_cases in H.
  destruct H as [(_ & _ & -> & _ & _ & ->)|(_ & proc & fails & q' & snap' & ev & E & R & -> & _ & ->)].
  - split; [exact N|]. split; [constructor | intros o []].
  - cbn [ss_queue].
    destruct (ob_enqueue_fold C (e_world e) proc (ss_queue s)) as (ad & E2 & _ & N2 & _).
    specialize (N2 N). fold (ob_queue C (e_world e) (ss_queue s) proc) in E2. rewrite <- E2 in N2.
    destruct (ob_run_queue _ _ _ _ _ _ _ _ _ R) as (pre & Eq & SL & _).
    assert (Fm : flat_map a_ops (map oe_asg ev) = map oe_op ev).
    { pose proof (ob_run_events _ _ _ _ _ _ _ _ _ R) as EV. clear - EV.
      induction EV as [|x t (_ & _ & _ & _ & mr & Ea & _) _ IH]; [reflexivity|].
      cbn [map flat_map]. rewrite IH, Ea. reflexivity. }
    rewrite Fm. rewrite Eq in N2. split; [eapply NoDup_app_r; eauto|]. split.
    + eapply sublist_NoDup; [exact SL|]. apply NoDup_app_l in N2. exact N2.
    + intros o Ho Hq. apply (sublist_In _ _ _ SL) in Ho.
      revert N2 Ho Hq. clear. intros N2 Ho Hq. induction pre as [|h t IH]; [contradiction|].
      cbn [app] in N2. inversion N2 as [|? ? Hn N']; subst. destruct Ho as [->|Ho]; [|auto].
      apply Hn. apply in_or_app. right. exact Hq.
Qed.

(* ------------------------------------------------------------------------------------------ *)
(* O3: at most as many containers as free CPUs                                                  *)
(* ------------------------------------------------------------------------------------------ *)

Lemma cap_nonneg snap pid : (0 <= cap snap pid)%Z.
Proof.
  induction snap as [|x t IH]; [unfold cap; cbn; lia|]. rewrite cap_cons.
  destruct (Nat.eqb (sn_id x) pid); lia.
Qed.

Lemma cap_ob_snap_notin ps pid :
  ~ In pid (map p_id ps) -> cap (map (fun p => (p_id p, p_avail_cpu p, p_max_ram p)) ps) pid = 0%Z.
Proof.
  induction ps as [|h t IH]; intros Hn; [reflexivity|]. cbn [map]. rewrite cap_cons.
  unfold sn_id. cbn [fst]. destruct (Nat.eqb (p_id h) pid) eqn:E.
  - exfalso. apply Hn. left. apply Nat.eqb_eq. exact E.
  - rewrite IH; [lia|]. intros Hi. apply Hn. right. exact Hi.
Qed.

Lemma cap_ob_snap e p :
  NoDup (map p_id (e_pools e)) -> In p (e_pools e) ->
  cap (ob_snap e) (p_id p) = Z.max 0 (p_avail_cpu p).
Proof.
  unfold ob_snap. induction (e_pools e) as [|h t IH]; intros N Hp; [contradiction|].
  cbn [map] in *. inversion N as [|? ? Hn N']; subst. rewrite cap_cons. unfold sn_id, sn_av. cbn [fst snd].
  destruct Hp as [->|Hp].
  - rewrite Nat.eqb_refl, (cap_ob_snap_notin _ _ Hn). lia.
  - destruct (Nat.eqb (p_id h) (p_id p)) eqn:E.
    + exfalso. apply Hn. apply Nat.eqb_eq in E. rewrite E. apply in_map. exact Hp.
    + rewrite (IH N' Hp). lia.
Qed.

Lemma count_asgs_events C fails w w' snap ev pid :
  Forall (oe_ok C fails w w' snap) ev ->
  length (filter (fun a => (a_pool a =? Z.of_nat pid)%Z) (map oe_asg ev)) =
  length (filter (fun x => Nat.eqb (oe_pid x) pid) ev).
Proof.
  induction 1 as [|x t (_ & _ & _ & _ & mr & Ea & _) _ IH]; [reflexivity|].
  cbn [map filter]. rewrite Ea. cbn [a_pool ob_asg].
  destruct (Nat.eqb (oe_pid x) pid) eqn:E.
  - apply Nat.eqb_eq in E. rewrite E, Z.eqb_refl. cbn [length]. rewrite IH. reflexivity.
  - assert (Zn : (Z.of_nat (oe_pid x) =? Z.of_nat pid)%Z = false).
    { apply Z.eqb_neq. intros Hz. apply Nat2Z.inj in Hz. apply Nat.eqb_neq in E. contradiction. }
    rewrite Zn. exact IH.
Qed.

(* the number of containers a pool receives in a round *)
Definition to_pool (asgs : list asg) (p : pool) : nat :=
  length (filter (fun a => (a_pool a =? Z.of_nat (p_id p))%Z) asgs).

Theorem ob_cpu_bound C s e results newp s' w' susps asgs :
  overbook_step C s e results newp = Ok (s', w', susps, asgs) ->
  NoDup (map p_id (e_pools e)) ->
  forall p, In p (e_pools e) ->
  (Z.of_nat (to_pool asgs p) <= Z.max 0 (p_avail_cpu p))%Z /\
  to_pool asgs p <= Z.to_nat (p_avail_cpu p) /\
  sumZ (map a_cpu (filter (fun a => (a_pool a =? Z.of_nat (p_id p))%Z) asgs)) = Z.of_nat (to_pool asgs p).
Proof.
  intros H N p Hp. pose proof H as H0. apply overbook_step_cases in H.
  assert (Sum : sumZ (map a_cpu (filter (fun a => (a_pool a =? Z.of_nat (p_id p))%Z) asgs))
                = Z.of_nat (to_pool asgs p)).
  { unfold to_pool.
    assert (F1 : forall a, In a asgs -> a_cpu a = 1%Z).
    { intros a Ha. destruct (ob_shape _ _ _ _ _ _ _ _ _ H0 a Ha) as (o & p0 & wk & _ & Ec & _). exact Ec. }
    clear - F1. induction asgs as [|a t IH]; [reflexivity|]. cbn [filter].
    assert (IHt := IH (fun a Ha => F1 a (or_intror Ha))).
    destruct (a_pool a =? Z.of_nat (p_id p))%Z; [|exact IHt].
    cbn [map sumZ length]. rewrite IHt, (F1 a (or_introl eq_refl)). lia. }
  destruct H as [(_ & _ & _ & _ & _ & ->)|(_ & proc & fails & q' & snap' & ev & E & R & _ & _ & ->)].
  - unfold to_pool. cbn. repeat split; lia.
  - destruct (ob_run_cap _ _ _ _ _ _ _ _ _ R) as (_ & Cp). specialize (Cp (p_id p)).
    rewrite (cap_ob_snap e p N Hp) in Cp.
    pose proof (cap_nonneg snap' (p_id p)) as Nn.
    pose proof (count_asgs_events _ _ _ _ _ _ (p_id p) (ob_run_events _ _ _ _ _ _ _ _ _ R)) as Ce.
    unfold to_pool in *. rewrite Ce in *. repeat split; [lia|lia|exact Sum].
Qed.

(* ------------------------------------------------------------------------------------------ *)
(* O4: nobody waits while a CPU is free                                                         *)
(* ------------------------------------------------------------------------------------------ *)

Theorem ob_no_waiting_with_free_cpu C s e results newp s' w' susps asgs :
  overbook_step C s e results newp = Ok (s', w', susps, asgs) ->
  (newp <> [] \/ results <> []) ->
  exists proc pre,
    ob_results C results (ob_proc0 newp) (ss_fail s) = Ok (proc, ss_fail s') /\
    (* a prefix of the round's queue is consumed, the rest is kept verbatim *)
    ob_queue C (e_world e) (ss_queue s) proc = pre ++ ss_queue s' /\
    (* every consumed operator was assigned (to exactly the containers of [asgs], in order) or belongs
       to an abandoned pipeline *)
    sublist (flat_map a_ops asgs) pre /\
    Forall (fun o => (max_failures <= assoc_get (op_pipe (S_of C) o) (ss_fail s'))%Z \/
                     In o (flat_map a_ops asgs)) pre /\
    (* if something is kept, its head is a live assignable operator, and no pool has a CPU left *)
    (forall o rest, ss_queue s' = o :: rest ->
       (assoc_get (op_pipe (S_of C) o) (ss_fail s') < max_failures)%Z /\
       assignable (st_of w' o) = true /\
       (NoDup (map p_id (e_pools e)) ->
        forall p, In p (e_pools e) -> (p_avail_cpu p - Z.of_nat (to_pool asgs p) < 1)%Z)).
Proof.
  intros H Ne. apply overbook_step_cases in H.
  destruct H as [(-> & -> & _)|(_ & proc & fails & q' & snap' & ev & E & R & -> & _ & ->)].
  - destruct Ne as [Ne|Ne]; contradiction Ne; reflexivity.
  - cbn [ss_queue ss_fail].
    destruct (ob_run_queue _ _ _ _ _ _ _ _ _ R) as (pre & Eq & SL & FA & _ & Hd).
    pose proof (ob_run_events _ _ _ _ _ _ _ _ _ R) as EV.
    assert (Fm : flat_map a_ops (map oe_asg ev) = map oe_op ev).
    { clear - EV. induction EV as [|x t (_ & _ & _ & _ & mr & Ea & _) _ IH]; [reflexivity|].
      cbn [map flat_map]. rewrite IH, Ea. reflexivity. }
    exists proc, pre. rewrite Fm. split; [exact E|]. split; [exact Eq|]. split; [exact SL|].
    split; [exact FA|].
    intros o rest Eo. destruct Hd as [->|(o' & rest' & Eq' & NA & As & Fn)]; [discriminate|].
    rewrite Eq' in Eo. inversion Eo; subst o' rest'.
    split; [unfold abandoned in NA; lia|]. split; [exact As|].
    intros N p Hp. destruct (ob_run_cap _ _ _ _ _ _ _ _ _ R) as (_ & Cp). specialize (Cp (p_id p)).
    rewrite (cap_ob_snap e p N Hp) in Cp.
    rewrite (cap_none _ _ (ob_find_pool_none _ Fn)) in Cp.
    pose proof (count_asgs_events _ _ _ _ _ _ (p_id p) EV) as Ce.
    unfold to_pool. rewrite Ce. lia.
Qed.

(* in particular: an empty queue afterwards means everything queued was assigned or abandoned *)
Corollary ob_empty_queue_all_served C s e results newp s' w' susps asgs :
  overbook_step C s e results newp = Ok (s', w', susps, asgs) ->
  (newp <> [] \/ results <> []) -> ss_queue s' = [] ->
  exists proc,
    ob_results C results (ob_proc0 newp) (ss_fail s) = Ok (proc, ss_fail s') /\
    forall o, In o (ob_queue C (e_world e) (ss_queue s) proc) ->
      (max_failures <= assoc_get (op_pipe (S_of C) o) (ss_fail s'))%Z \/ In o (flat_map a_ops asgs).
Proof.
  intros H Ne Em.
  destruct (ob_no_waiting_with_free_cpu _ _ _ _ _ _ _ _ _ H Ne) as (proc & pre & E & Eq & _ & FA & _).
  exists proc. split; [exact E|]. rewrite Eq, Em, app_nil_r. rewrite Forall_forall in FA. exact FA.
Qed.

(* ------------------------------------------------------------------------------------------ *)
(* O5: a pipeline is abandoned once three of its containers have failed                         *)
(* ------------------------------------------------------------------------------------------ *)

Theorem ob_abandon_after_three C s e results newp s' w' susps asgs :
  overbook_step C s e results newp = Ok (s', w', susps, asgs) ->
  forall a o, In a asgs -> In o (a_ops a) ->
  (assoc_get (op_pipe (S_of C) o) (ss_fail s') < max_failures)%Z /\
  (assoc_get (op_pipe (S_of C) o) (ss_fail s) < max_failures)%Z.
Proof.
  intros H a o Ha Ho.
  destruct (ob_shape _ _ _ _ _ _ _ _ _ H a Ha) as (o' & p & wk & Eo & _ & _ & _ & _ & _ & _ & _ & _ & L & _).
  rewrite Eo in Ho. destruct Ho as [<-|[]]. split; [exact L|].
  pose proof (ob_fail_monotone _ _ _ _ _ _ _ _ _ H (op_pipe (S_of C) o')). lia.
Qed.

(* runs of rounds: the scheduler state is threaded; executor states, results and arrivals are
   arbitrary. [ob_rounds C s l s']: from state [s], rounds that emitted the batches [l] lead to [s'] *)
Inductive ob_rounds (C : cfg) : sstate -> list (list asg) -> sstate -> Prop :=
| obrs_nil s : ob_rounds C s [] s
| obrs_cons s e results newp s1 w1 susps asgs l s2 :
    overbook_step C s e results newp = Ok (s1, w1, susps, asgs) ->
    ob_rounds C s1 l s2 -> ob_rounds C s (asgs :: l) s2.

Lemma ob_rounds_fail_monotone C s l s' :
  ob_rounds C s l s' -> forall k, (assoc_get k (ss_fail s) <= assoc_get k (ss_fail s'))%Z.
Proof.
  induction 1 as [|s e results newp s1 w1 susps asgs l s2 H _ IH]; intros k; [lia|].
  pose proof (ob_fail_monotone _ _ _ _ _ _ _ _ _ H k). specialize (IH k). lia.
Qed.

(* once the counter of pipeline [k] has reached three, no later round assigns an operator of [k] *)
Theorem ob_abandoned_forever C s l s' k :
  ob_rounds C s l s' -> (max_failures <= assoc_get k (ss_fail s))%Z ->
  forall asgs a o, In asgs l -> In a asgs -> In o (a_ops a) -> op_pipe (S_of C) o <> k.
Proof.
  induction 1 as [|s e results newp s1 w1 susps asgs0 l s2 H _ IH]; intros Ab asgs a o Hl Ha Ho;
    [contradiction|].
  destruct Hl as [->|Hl].
  - intros <-. destruct (ob_abandon_after_three _ _ _ _ _ _ _ _ _ H a o Ha Ho) as [_ L]. lia.
  - apply (IH (Z.le_trans _ _ _ Ab (ob_fail_monotone _ _ _ _ _ _ _ _ _ H k)) asgs a o Hl Ha Ho).
Qed.

(* ... also when the third failure is reported in that very round *)
Corollary ob_abandoned_from_this_round C s e results newp s' w' susps asgs k :
  overbook_step C s e results newp = Ok (s', w', susps, asgs) ->
  (max_failures <= assoc_get k (ss_fail s) + Z.of_nat (fail_count C k results))%Z ->
  forall a o, In a asgs -> In o (a_ops a) -> op_pipe (S_of C) o <> k.
Proof.
  intros H Ab a o Ha Ho <-. destruct (ob_abandon_after_three _ _ _ _ _ _ _ _ _ H a o Ha Ho) as [L _].
  rewrite (ob_fail_counts _ _ _ _ _ _ _ _ _ H) in L. lia.
Qed.

(* ------------------------------------------------------------------------------------------ *)
(* O6: queued operators are ready                                                               *)
(* ------------------------------------------------------------------------------------------ *)

Definition queue_ready (C : cfg) (w : world) (q : list nat) : Prop :=
  forall o, In o q -> parents_complete (S_of C) w o = true.

Lemma parents_complete_steps S w w' o :
  steps S w w' -> parents_complete S w o = true -> parents_complete S w' o = true.
Proof.
  intros St P. rewrite parents_complete_spec in *. intros p Hp. eapply completed_final; eauto.
Qed.

Lemma queue_ready_steps C w w' q : steps (S_of C) w w' -> queue_ready C w q -> queue_ready C w' q.
Proof. intros St R o Ho. eapply parents_complete_steps; eauto. Qed.

(* every operator appended in a round is assignable with all parents Completed at that moment *)
Theorem ob_enqueued_ready C s e results newp s' w' susps asgs :
  overbook_step C s e results newp = Ok (s', w', susps, asgs) ->
  (newp <> [] \/ results <> []) ->
  exists proc added,
    ob_results C results (ob_proc0 newp) (ss_fail s) = Ok (proc, ss_fail s') /\
    ob_queue C (e_world e) (ss_queue s) proc = ss_queue s ++ added /\
    (forall o, In o added ->
       ~ In o (ss_queue s) /\ assignable (st_of (e_world e) o) = true /\
       parents_complete (S_of C) (e_world e) o = true) /\
    (* and nothing ready in a processed pipeline is forgotten *)
    (forall k o, In k proc -> In o (get_ops (S_of C) (e_world e) k assignable true) ->
       In o (ss_queue s ++ added)).
Proof.
  intros H Ne. apply overbook_step_cases in H.
  destruct H as [(-> & -> & _)|(_ & proc & fails & q' & snap' & ev & E & R & -> & _ & ->)].
  - destruct Ne as [Ne|Ne]; contradiction Ne; reflexivity.
  - cbn [ss_fail]. unfold ob_queue.
    assert (G : forall proc q, exists added,
              fold_left (fun q p => ob_enqueue (get_ops (S_of C) (e_world e) p assignable true) q) proc q
              = q ++ added /\
              (forall o, In o added -> ~ In o q /\
                 exists p, In p proc /\ In o (get_ops (S_of C) (e_world e) p assignable true)) /\
              (forall p o, In p proc -> In o (get_ops (S_of C) (e_world e) p assignable true) ->
                 In o (q ++ added))).
    { clear. induction proc as [|p t IH]; intros q; cbn [fold_left].
      - exists []. rewrite app_nil_r. repeat split; auto; contradiction.
      - destruct (ob_enqueue_spec (get_ops (S_of C) (e_world e) p assignable true) q)
          as (ad1 & E1 & I1 & _ & A1).
        rewrite E1. destruct (IH (q ++ ad1)) as (ad2 & E2 & I2 & A2).
        exists (ad1 ++ ad2). rewrite E2, <- app_assoc. split; [reflexivity|]. split.
        + intros o Ho. apply in_app_iff in Ho. destruct Ho as [Ho|Ho].
          * destruct (I1 o Ho) as [Io Nq]. split; [exact Nq|]. exists p. split; [left; reflexivity|exact Io].
          * destruct (I2 o Ho) as [Nq (p' & Hp' & Hg)]. split.
            -- intros Hq. apply Nq. apply in_or_app. left. exact Hq.
            -- exists p'. split; [right; exact Hp' | exact Hg].
        + intros p' o [->|Hp'] Hg.
          * rewrite app_assoc. apply in_or_app. left. auto.
          * rewrite app_assoc. eapply A2; eauto. }
    destruct (G proc (ss_queue s)) as (ad & E2 & I2 & A2).
    exists proc, ad. split; [exact E|]. split; [exact E2|]. split; [|exact A2].
    intros o Ho. destruct (I2 o Ho) as [Nq (p & _ & Hg)]. apply get_ops_In in Hg.
    destruct Hg as (_ & As & Pc). auto.
Qed.

(* the invariant: all queued operators have all parents Completed *)
Theorem ob_ready C s e results newp s' w' susps asgs :
  overbook_step C s e results newp = Ok (s', w', susps, asgs) ->
  queue_ready C (e_world e) (ss_queue s) ->
  queue_ready C w' (ss_queue s') /\
  (* and so has every operator put into a container, at the moment the container is created *)
  (forall a, In a asgs -> exists o wk,
     a_ops a = [o] /\ asteps (S_of C) (e_world e) wk /\ asteps (S_of C) wk w' /\
     assignable (st_of wk o) = true /\ parents_complete (S_of C) wk o = true).
Proof.
  intros H QR. pose proof H as H0. apply overbook_step_cases in H.
  destruct H as [(_ & _ & -> & -> & _ & ->)|(Ne & proc & fails & q' & snap' & ev & E & R & -> & _ & ->)].
  - split; [exact QR | intros a []].
  - destruct (ob_enqueued_ready _ _ _ _ _ _ _ _ _ H0 Ne) as (proc' & ad & E' & Eq & I & _).
    cbn [ss_fail] in E'. rewrite E in E'. inversion E'; subst proc'. clear E'.
    assert (QR1 : queue_ready C (e_world e) (ob_queue C (e_world e) (ss_queue s) proc)).
    { rewrite Eq. intros o Ho. apply in_app_iff in Ho. destruct Ho as [Ho|Ho]; [auto|].
      apply (I o Ho). }
    destruct (ob_run_queue _ _ _ _ _ _ _ _ _ R) as (pre & Eq2 & SL & _).
    pose proof (ob_run_asteps _ _ _ _ _ _ _ _ _ R) as A.
    split.
    + cbn [ss_queue]. apply (queue_ready_steps C (e_world e)); [apply asteps_steps; exact A|].
      intros o Ho. apply QR1. rewrite Eq2. apply in_or_app. right. exact Ho.
    + intros a Ha. apply in_map_iff in Ha. destruct Ha as (x & <- & Hx).
      pose proof (ob_run_events _ _ _ _ _ _ _ _ _ R) as EV. rewrite Forall_forall in EV.
      destruct (EV x Hx) as (_ & A1 & A2 & As & mr & Ea & _).
      exists (oe_op x), (oe_world x). rewrite Ea. cbn [a_ops ob_asg].
      split; [reflexivity|]. split; [exact A1|]. split; [exact A2|]. split; [exact As|].
      apply (parents_complete_steps _ (e_world e)); [apply asteps_steps; exact A1|].
      apply QR1. rewrite Eq2. apply in_or_app. left. eapply sublist_In; [exact SL|].
      apply in_map. exact Hx.
Qed.

(* over a whole history: the worlds of later rounds are reachable from the earlier ones by accepted
   requests (what the executor does, Proofs/ExecLifeFacts.v [exec_step_steps_in]) *)
Inductive ob_hist (C : cfg) : sstate -> world -> sstate -> world -> Prop :=
| obh_nil s w : ob_hist C s w s w
| obh_cons s w e results newp s1 w1 susps asgs s2 w2 :
    steps (S_of C) w (e_world e) ->
    overbook_step C s e results newp = Ok (s1, w1, susps, asgs) ->
    ob_hist C s1 w1 s2 w2 -> ob_hist C s w s2 w2.

Theorem ob_ready_invariant C s w s' w' :
  ob_hist C s w s' w' -> queue_ready C w (ss_queue s) -> queue_ready C w' (ss_queue s').
Proof.
  induction 1 as [|s w e results newp s1 w1 susps asgs s2 w2 St H _ IH]; intros QR; [exact QR|].
  apply IH. apply (ob_ready _ _ _ _ _ _ _ _ _ H). eapply queue_ready_steps; eauto.
Qed.

Corollary ob_ready_from_start C s' w' w0 :
  ob_hist C init_sstate w0 s' w' -> queue_ready C w' (ss_queue s').
Proof. intros H. apply (ob_ready_invariant _ _ _ _ _ H). intros o []. Qed.

(* the queue invariants together, over a history *)
Theorem ob_nodup_invariant C s w s' w' :
  ob_hist C s w s' w' -> NoDup (ss_queue s) -> NoDup (ss_queue s').
Proof.
  induction 1 as [|s w e results newp s1 w1 susps asgs s2 w2 St H _ IH]; intros N; [exact N|].
  apply IH. apply (ob_queue_nodup _ _ _ _ _ _ _ _ _ H N).
Qed.

(* ------------------------------------------------------------------------------------------ *)
(* non-vacuity: two pools with 2 free CPUs each, six queued operators, one abandoned pipeline   *)
(* ------------------------------------------------------------------------------------------ *)

Module OverbookExamples.

(* pipeline 0: operators 0, 1, 2; pipeline 1: operators 3, 4; pipeline 2: operator 5 (all independent) *)
Definition Sx : static :=
  mk_static [(Batch, [[]; []; []]); (Query, [[]; []]); (Interactive, [[]])].
Definition Cx : cfg :=
  {| cf_static := Sx; cf_script := fun _ _ => [1%Q]; cf_tps := 10%Z; cf_overcommit := true;
     cf_multi := false; cf_rnd := fun q => q |}.
Definition ex : estate := init_estate Cx 2 2%Z 8%Q.

(* operators 0, 5, 1, 2 wait; pipeline 2 has two failed containers so far *)
Definition s0 : sstate :=
  {| ss_queue := [0; 5; 1; 2]; ss_fail := [(2, 2%Z)]; ss_q := []; ss_i := []; ss_b := [];
     ss_suspending := []; ss_requeued := []; ss_oom := 0%Z |}.
Definition r_fail5 : result :=
  {| r_cid := 7; r_ops := [5]; r_cpu := 1%Z; r_ram := 8%Q; r_prio := Interactive; r_pool := 0; r_err := true |}.

(* pipeline 1 arrives and a third container of pipeline 2 is reported failed: operators 3, 4 are
   appended; operator 5 is skipped (abandoned); the four CPUs go to 0, 1 (pool 0) and 2, 3 (pool 1),
   each container with 1 CPU and the whole pool's RAM (16 > 8 allocated per pool); 4 is kept *)
Example ex_overbook_round :
  match overbook_step Cx s0 ex [r_fail5] [1] with
  | Ok (s', w', susps, asgs) =>
      ss_queue s' = [4] /\ ss_fail s' = [(2, 3%Z)] /\ susps = [] /\
      map a_ops asgs = [[0]; [1]; [2]; [3]] /\ map a_pool asgs = [0%Z; 0%Z; 1%Z; 1%Z] /\
      map a_cpu asgs = [1%Z; 1%Z; 1%Z; 1%Z] /\ map a_ram asgs = [8%Q; 8%Q; 8%Q; 8%Q] /\
      map a_prio asgs = [Batch; Batch; Batch; Query] /\
      map (st_of w') [0; 1; 2; 3; 4; 5] = [Assigned; Assigned; Assigned; Assigned; Pending; Pending]
  | Err _ => False
  end.
Proof. vm_compute. repeat split. Qed.

(* next round, nothing free: the queue is kept verbatim and nothing is assigned *)
Definition ex_full : estate :=
  {| e_world := e_world ex;
     e_pools := map (fun p => upd_pool p 0%Z (p_avail_ram p) (p_consumed p) (p_active p) (p_suspending p)
                                       (p_suspended p) (p_num_completed p) (p_tick_times p)) (e_pools ex);
     e_next := 4 |}.
Example ex_overbook_full :
  match overbook_step Cx (with_queue s0 [4]) ex_full [] [2] with
  | Ok (s', _, susps, asgs) => ss_queue s' = [4; 5] /\ susps = [] /\ asgs = []
  | Err _ => False
  end.
Proof. vm_compute. repeat split. Qed.

Example ex_overbook_early :
  overbook_step Cx s0 ex [] [] = Ok (s0, e_world ex, [], []).
Proof. reflexivity. Qed.

(* a result with two operators: `only` raises *)
Example ex_overbook_only :
  overbook_step Cx s0 ex
    [{| r_cid := 7; r_ops := [0; 1]; r_cpu := 1%Z; r_ram := 8%Q; r_prio := Batch; r_pool := 0; r_err := false |}] []
  = Err EOther.
Proof. reflexivity. Qed.

(* a queued operator that is not assignable trips the scheduler's assertion *)
Definition w_held : world :=
  match transition Sx (init_world Sx) 0 Assigned with Ok w => w | Err _ => init_world Sx end.
Example ex_overbook_assert :
  overbook_step Cx s0 {| e_world := w_held; e_pools := e_pools ex; e_next := 0 |} [] [1] = Err ESchedAssert.
Proof. vm_compute. reflexivity. Qed.

(* a two-round history for the multi-round statements *)
Example ex_overbook_rounds :
  exists l s', ob_rounds Cx s0 l s' /\ length l = 2 /\ (max_failures <= assoc_get 2 (ss_fail s'))%Z.
Proof.
  destruct (overbook_step Cx s0 ex [r_fail5] [1]) as [[[[s1 w1] su1] a1]|] eqn:E1; [|vm_compute in E1; discriminate].
  destruct (overbook_step Cx s1 ex_full [] [2]) as [[[[s2 w2] su2] a2]|] eqn:E2.
  - exists [a1; a2], s2. split; [econstructor; [exact E1|econstructor; [exact E2|constructor]]|].
    split; [reflexivity|]. vm_compute in E1. inversion E1; subst. vm_compute in E2. inversion E2; subst.
    vm_compute. discriminate.
  - vm_compute in E1. inversion E1; subst. vm_compute in E2. discriminate.
Qed.

End OverbookExamples.

(* ------------------------------------------------------------------------------------------ *)
