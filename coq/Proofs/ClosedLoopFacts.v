(* C08, closed loop beyond single-operator naive: containers that hold a whole pipeline (naive with
   multi_operator_containers) and the overbook policy with memory overcommit.

   M1  the executor side once and for all, for containers with any number of operators: an active
       container between two ticks is [mrunnable]: its remaining operators are pairwise distinct, the
       first one is ASSIGNED (not started) or RUNNING, the others ASSIGNED, and they form a [chain]:
       every parent of a remaining operator is COMPLETED or stands earlier in the remaining list.
       Under that invariant no container tick, no kill and no pool tick raises
       ([mpool_tick_total], [mpools_tick_total], [exec_round_ok]), and all the executor does to
       operator states are transitions to RUNNING / COMPLETED / FAILED ([xsteps]).
   M2  naive with multi-operator containers: the scheduler hands over a whole untouched pipeline in
       the order of operator_states, which is topological; pipelines are "all PENDING or none
       PENDING" ([allpend]) and the failure counter agrees with the states ([hist_ok]), so a pipeline
       is never assigned twice.  [naive_multi_runs_to_end(_mk_static)].
   M3  overbook with overcommit: every queued operator stays assignable with completed parents until
       it is taken ([ob_queue_ok]), so the scheduler's assertion cannot fire, every result has one
       operator, and the run reaches its last tick.  [overbook_runs_to_end(_mk_static)]. *)
From Coq Require Import ZArith QArith Qround List Bool Arith Lia Lqa Permutation.
Import ListNotations.
From Eudoxia Require Import Num.Rnd64 Model.Types Model.Dag Model.Lifecycle Model.Container Model.Pool
  Model.Executor Model.Sched Model.Simulator
  Proofs.ListFacts Proofs.LifecycleFacts Proofs.ConserveFacts Proofs.ExecLifeFacts Proofs.OomFacts
  Proofs.NaiveFacts Proofs.SafetyFacts.
From Eudoxia Require Proofs.DagProof.
Close Scope Q_scope.
Close Scope Z_scope.

(* ------------------------------------------------------------------------------------------ *)
(* lists                                                                                        *)
(* ------------------------------------------------------------------------------------------ *)

Lemma skipn_cons_nth {A} : forall (l : list A) n x r,
  skipn n l = x :: r -> nth_error l n = Some x /\ skipn (S n) l = r /\ n < length l.
Proof.
  induction l as [|h t IH]; intros n x r H.
  - destruct n; discriminate.
  - destruct n as [|n].
    + cbn in H. inversion H; subst. cbn. repeat split. lia.
    + cbn [skipn] in H. destruct (IH n x r H) as (A1 & A2 & A3). cbn [nth_error length].
      split; [exact A1|]. split; [exact A2|lia].
Qed.

Lemma Forall_map_eq {A B} (f : A -> B) (P : B -> Prop) l l' :
  map f l' = map f l -> Forall (fun x => P (f x)) l -> Forall (fun x => P (f x)) l'.
Proof. intros E H. apply Forall_map. rewrite E. apply Forall_map. exact H. Qed.

(* ------------------------------------------------------------------------------------------ *)
(* M1. the executor side for containers with several operators                                  *)
(* ------------------------------------------------------------------------------------------ *)

Section MultiLoop.
Variable C : cfg.
Let St := cf_static C.
Hypothesis Hscript : forall op cpu, cf_script C op cpu <> [].

(* what the executor does to operator states *)
Definition xtarget (a : ostate) : Prop := a = Running \/ a = Completed \/ a = Failed.

Inductive xsteps : world -> world -> Prop :=
| xs_refl w : xsteps w w
| xs_cons w op new w' w'' :
    op < length (w_st w) -> xtarget new -> transition St w op new = Ok w' -> xsteps w' w'' ->
    xsteps w w''.

Lemma xsteps_trans a b c : xsteps a b -> xsteps b c -> xsteps a c.
Proof. induction 1; intros; auto. econstructor; eauto. Qed.

Lemma xsteps_one w op new w' :
  op < length (w_st w) -> xtarget new -> transition St w op new = Ok w' -> xsteps w w'.
Proof. intros. econstructor; eauto. constructor. Qed.

Lemma xsteps_steps_in w w' : xsteps w w' -> steps_in St w w'.
Proof. induction 1; [constructor|econstructor; eauto]. Qed.

Lemma xsteps_mono w w' : xsteps w w' -> mono_w w w'.
Proof. intros H. apply (steps_in_mono C), xsteps_steps_in, H. Qed.

Lemma xsteps_wlen w w' : xsteps w w' -> wlen St w -> wlen St w'.
Proof. intros H. eapply steps_in_wlen, xsteps_steps_in, H. Qed.

(* operators the scheduler may pick (PENDING, FAILED) are not touched by the executor *)
Lemma xsteps_assignable_frame w w' o :
  xsteps w w' -> assignable (st_of w o) = true -> st_of w' o = st_of w o.
Proof.
  induction 1 as [w|w op new w1 w2 L X T R IH]; intros A; [reflexivity|].
  assert (Ne : o <> op).
  { intros ->. apply transition_ok in T. destruct T as [V _].
    apply assignable_cases in A. destruct A as [A|A]; rewrite A in V;
      destruct X as [->|[->| ->]]; discriminate. }
  pose proof (transition_st_other _ _ _ _ _ _ T Ne) as F.
  rewrite IH; [exact F|]. rewrite F. exact A.
Qed.

(* every parent of an operator of the list is COMPLETED or stands earlier in the list *)
Definition chain (w : world) (l : list nat) : Prop :=
  forall l1 o l2, l = l1 ++ o :: l2 ->
  forall p, In p (op_parents St o) -> st_of w p = Completed \/ In p l1.

Lemma chain_mono w w' l : mono_w w w' -> chain w l -> chain w' l.
Proof.
  intros [_ M] H l1 o l2 E p Hp.
  destruct (H l1 o l2 E p Hp) as [X|X]; [left; apply M; exact X|right; exact X].
Qed.

Lemma chain_head w o r : chain w (o :: r) -> parents_complete St w o = true.
Proof.
  intros H. apply parents_complete_spec. intros p Hp.
  destruct (H [] o r eq_refl p Hp) as [X|[]]. exact X.
Qed.

Lemma chain_tail w w' o r :
  mono_w w w' -> st_of w' o = Completed -> chain w (o :: r) -> chain w' r.
Proof.
  intros [_ M] Ho H l1 x l2 E p Hp.
  assert (E' : o :: r = (o :: l1) ++ x :: l2) by (rewrite E; reflexivity).
  destruct (H (o :: l1) x l2 E' p Hp) as [X|[X|X]].
  - left. apply M. exact X.
  - left. subst p. exact Ho.
  - right. exact X.
Qed.

Definition remops (c : container) : list nat := skipn (c_opidx c) (c_ops c).
Definition assigned_all (w : world) (l : list nat) : Prop := Forall (fun x => st_of w x = Assigned) l.

(* an active container between two ticks *)
Definition mrunnable (w : world) (c : container) : Prop :=
  c_completed c = false /\ c_frozen c = false /\ Qltb (c_ram c) 0%Q = false /\
  ops_in_range St (c_ops c) /\
  exists o r, remops c = o :: r /\ NoDup (o :: r) /\ chain w (o :: r) /\ assigned_all w r /\
    match c_rest c with
    | None => st_of w o = Assigned
    | Some rr => st_of w o = Running /\ rr <> []
    end.
(* ... one that kill("OOM") accepts *)
Definition mkillable (w : world) (c : container) : Prop :=
  c_completed c = false /\ Qltb (c_ram c) 0%Q = false /\ ops_in_range St (c_ops c) /\
  exists o r, remops c = o :: r /\ NoDup (o :: r) /\
    (st_of w o = Assigned \/ st_of w o = Running) /\ assigned_all w r.
Definition mafter (w : world) (c : container) : Prop :=
  finished c \/ (mkillable w c /\ (Qltb (c_ram c) (c_mem c) = false -> mrunnable w c)).
Definition msettled (w : world) (c : container) : Prop := finished c \/ mrunnable w c.

Lemma mrunnable_killable w c : mrunnable w c -> mkillable w c.
Proof.
  intros (Hc & _ & Hr & Rg & o & r & Ho & Nd & _ & As & Hs). split; [exact Hc|]. split; [exact Hr|].
  split; [exact Rg|]. exists o, r. repeat split; auto.
  destruct (c_rest c); [right; apply Hs|left; exact Hs].
Qed.

Lemma assigned_all_stable w w' l :
  (forall o, In o l -> st_of w' o = st_of w o) -> assigned_all w l -> assigned_all w' l.
Proof.
  unfold assigned_all. rewrite !Forall_forall. intros F H x Hx. rewrite (F x Hx). apply H, Hx.
Qed.

Lemma mrunnable_stable w w' c :
  mono_w w w' -> (forall o, In o (remops c) -> st_of w' o = st_of w o) -> mrunnable w c -> mrunnable w' c.
Proof.
  intros M F (Hc & Hf & Hr & Rg & o & r & Ho & Nd & Ch & As & Hs).
  split; [exact Hc|]. split; [exact Hf|]. split; [exact Hr|]. split; [exact Rg|]. exists o, r.
  assert (E : st_of w' o = st_of w o) by (apply F; rewrite Ho; left; reflexivity).
  split; [exact Ho|]. split; [exact Nd|]. split; [eapply chain_mono; eauto|]. split.
  - eapply assigned_all_stable; [|exact As]. intros x Hx. apply F. rewrite Ho. right. exact Hx.
  - rewrite E. exact Hs.
Qed.

Lemma mkillable_stable w w' c :
  (forall o, In o (remops c) -> st_of w' o = st_of w o) -> mkillable w c -> mkillable w' c.
Proof.
  intros F (Hc & Hr & Rg & o & r & Ho & Nd & Hs & As). split; [exact Hc|]. split; [exact Hr|].
  split; [exact Rg|]. exists o, r.
  assert (E : st_of w' o = st_of w o) by (apply F; rewrite Ho; left; reflexivity).
  split; [exact Ho|]. split; [exact Nd|]. split; [rewrite E; exact Hs|].
  eapply assigned_all_stable; [|exact As]. intros x Hx. apply F. rewrite Ho. right. exact Hx.
Qed.

Lemma own_mkillable w c : mkillable w c -> own c = remops c.
Proof. intros (Hc & _). unfold own, remops. rewrite Hc. reflexivity. Qed.

Lemma own_fin c : finished c -> own c = [].
Proof. intros [Hc _]. unfold own. rewrite Hc. reflexivity. Qed.

Lemma mafter_stable_own w w' c :
  mono_w w w' -> (forall o, In o (own c) -> st_of w' o = st_of w o) -> mafter w c -> mafter w' c.
Proof.
  intros M F [H|[K R]]; [left; exact H|right]. rewrite (own_mkillable _ _ K) in F.
  split; [eapply mkillable_stable; eauto|]. intros Q. eapply mrunnable_stable; eauto.
Qed.

Lemma msettled_stable_own w w' c :
  mono_w w w' -> (forall o, In o (own c) -> st_of w' o = st_of w o) -> msettled w c -> msettled w' c.
Proof.
  intros M F [H|R]; [left; exact H|right].
  rewrite (own_mkillable _ _ (mrunnable_killable _ _ R)) in F. eapply mrunnable_stable; eauto.
Qed.

Lemma remops_in_range w c x :
  wlen St w -> ops_in_range St (c_ops c) -> In x (remops c) -> x < length (w_st w).
Proof.
  intros L Rg Hx. unfold wlen in L. rewrite L. unfold ops_in_range in Rg. rewrite Forall_forall in Rg.
  apply Rg. eapply In_skipn. exact Hx.
Qed.

(* ---- one container tick ---- *)
Lemma mctick_tail_ok w1 cons c o r m rest' :
  wlen St w1 ->
  c_completed c = false -> Qltb (c_ram c) 0%Q = false -> ops_in_range St (c_ops c) ->
  remops c = o :: r -> NoDup (o :: r) -> chain w1 (o :: r) -> assigned_all w1 r ->
  st_of w1 o = Running ->
  exists w' cons' c', ctick_tail C w1 cons c o m rest' = Ok (w', cons', c') /\ mafter w' c' /\
                      xsteps w1 w'.
Proof.
  intros L Hc Hr Rg Ho Nd Ch As Hs.
  assert (Lo : o < length (w_st w1)).
  { eapply remops_in_range; eauto. rewrite Ho. left. reflexivity. }
  unfold ctick_tail, set_mem.
  destruct (Qltb (c_ram c) m) eqn:Q.
  - eexists _, _, _. split; [reflexivity|]. split; [|constructor]. right. split.
    + split; [exact Hc|]. split; [exact Hr|]. split; [exact Rg|]. exists o, r.
      unfold remops in *. cproj. auto.
    + cproj. intros X. congruence.
  - destruct rest' as [|m' r''].
    + assert (T : transition (cf_static C) w1 o Completed = Ok (world_after (cf_static C) w1 o Completed)).
      { apply transition_ok. rewrite Hs. split; [reflexivity|]. split; [discriminate|reflexivity]. }
      rewrite T. cbn [bind]. cbv zeta.
      assert (X1 : xsteps w1 (world_after (cf_static C) w1 o Completed)).
      { eapply xsteps_one; [exact Lo|right; left; reflexivity|exact T]. }
      destruct (Nat.eqb (S (c_opidx c)) (length (c_ops c))) eqn:Eq.
      * unfold mark_completed, set_mem. cproj.
        eexists _, _, _. split; [reflexivity|]. split; [|exact X1].
        left. split; [reflexivity|]. cproj. exact Hr.
      * eexists _, _, _. split; [reflexivity|]. split; [|exact X1].
        unfold remops in Ho. destruct (skipn_cons_nth _ _ _ _ Ho) as (_ & Sk & Li).
        apply Nat.eqb_neq in Eq.
        destruct r as [|o2 r2].
        { exfalso. apply (f_equal (@length nat)) in Sk. rewrite skipn_length in Sk. cbn in Sk. lia. }
        set (w2 := world_after (cf_static C) w1 o Completed) in *.
        pose proof (transition_mono C _ _ _ _ T) as M.
        assert (So : st_of w2 o = Completed) by (apply (transition_st_same _ _ _ _ _ T Lo)).
        inversion Nd as [|? ? No Nr]; subst.
        assert (Fr : forall x, In x (o2 :: r2) -> st_of w2 x = st_of w1 x).
        { intros x Hx. apply (transition_st_other _ _ _ _ _ _ T). intros ->. contradiction. }
        unfold assigned_all in As. inversion As as [|? ? A2 Ar2]; subst.
        assert (As2 : assigned_all w2 r2).
        { eapply assigned_all_stable; [|exact Ar2]. intros x Hx. apply Fr. right. exact Hx. }
        assert (S2 : st_of w2 o2 = Assigned) by (rewrite Fr; [exact A2|left; reflexivity]).
        right. split.
        -- split; [exact Hc|]. split; [exact Hr|]. split; [exact Rg|]. exists o2, r2.
           unfold remops. cproj. auto.
        -- intros _. split; [exact Hc|]. split; [reflexivity|]. split; [exact Hr|]. split; [exact Rg|].
           exists o2, r2. unfold remops. cproj.
           split; [exact Sk|]. split; [exact Nr|]. split; [eapply chain_tail; eauto|]. auto.
    + eexists _, _, _. split; [reflexivity|]. split; [|constructor]. right. split.
      * split; [exact Hc|]. split; [exact Hr|]. split; [exact Rg|]. exists o, r.
        unfold remops in *. cproj. auto.
      * intros _. split; [exact Hc|]. split; [reflexivity|]. split; [exact Hr|]. split; [exact Rg|].
        exists o, r. unfold remops in *. cproj. repeat split; auto. discriminate.
Qed.

Lemma mctick_runnable w cons c :
  wlen St w -> mrunnable w c ->
  exists w' cons' c', ctick C w cons c = Ok (w', cons', c') /\ mafter w' c' /\ xsteps w w'.
Proof.
  intros L (Hc & Hf & Hr & Rg & o & r & Ho & Nd & Ch & As & Hs). unfold ctick. rewrite Hc, Hf.
  assert (N : nth_error (c_ops c) (c_opidx c) = Some o).
  { unfold remops in Ho. apply skipn_cons_nth in Ho. tauto. }
  assert (Lo : o < length (w_st w)).
  { eapply remops_in_range; eauto. rewrite Ho. left. reflexivity. }
  rewrite N. destruct (c_rest c) as [rr|] eqn:Hrest.
  - destruct Hs as [Hs Hne]. cbn [bind]. destruct rr as [|m rest']; [congruence|].
    apply (mctick_tail_ok w cons c o r m rest'); assumption.
  - assert (T : transition (cf_static C) w o Running = Ok (world_after (cf_static C) w o Running)).
    { apply transition_ok. rewrite Hs. split; [reflexivity|].
      split; [intros _; eapply chain_head; eauto|reflexivity]. }
    rewrite T. cbn [bind]. pose proof (transition_mono C _ _ _ _ T) as M.
    assert (X1 : xsteps w (world_after (cf_static C) w o Running)).
    { eapply xsteps_one; [exact Lo|left; reflexivity|exact T]. }
    destruct (cf_script C o (c_cpu c)) as [|m rest'] eqn:Sc; [exfalso; eapply Hscript; eauto|].
    inversion Nd as [|? ? No Nr]; subst.
    destruct (mctick_tail_ok (world_after (cf_static C) w o Running) cons c o r m rest')
      as (w' & cons' & c' & E & A & X2); try assumption.
    + eapply xsteps_wlen; eauto.
    + eapply chain_mono; eauto.
    + eapply assigned_all_stable; [|exact As]. intros x Hx.
      apply (transition_st_other _ _ _ _ _ _ T). intros ->. contradiction.
    + apply (transition_st_same _ _ _ _ _ T Lo).
    + exists w', cons', c'. split; [exact E|]. split; [exact A|]. eapply xsteps_trans; eauto.
Qed.

Lemma transition_all_failed : forall l w,
  NoDup l -> (forall x, In x l -> x < length (w_st w)) ->
  (forall x, In x l -> st_of w x = Assigned \/ st_of w x = Running) ->
  exists w', transition_all St w l Failed = Ok w' /\ xsteps w w'.
Proof.
  induction l as [|o t IH]; intros w Nd Rg Hs; cbn [transition_all].
  - eexists. split; [reflexivity|constructor].
  - inversion Nd as [|? ? No Nt]; subst.
    assert (T : transition St w o Failed = Ok (world_after St w o Failed)).
    { apply transition_ok. split; [destruct (Hs o (or_introl eq_refl)) as [-> | ->]; reflexivity|].
      split; [discriminate|reflexivity]. }
    rewrite T. cbn [bind].
    destruct (IH (world_after St w o Failed) Nt) as (w' & E & X).
    + intros x Hx. rewrite (transition_length _ _ _ _ _ T). apply Rg. right. exact Hx.
    + intros x Hx. rewrite (transition_st_other _ _ _ _ _ _ T); [apply Hs; right; exact Hx|].
      intros ->. contradiction.
    + exists w'. split; [exact E|]. econstructor; [apply Rg; left; reflexivity| |exact T|exact X].
      right. right. reflexivity.
Qed.

Lemma mckill_killable w cons c :
  wlen St w -> mkillable w c ->
  exists w' cons' c', ckill C w cons c = Ok (w', cons', c') /\ finished c' /\ xsteps w w'.
Proof.
  intros L (Hc & Hr & Rg & o & r & Ho & Nd & Hs & As). unfold ckill. rewrite Hc.
  change (skipn (c_opidx c) (c_ops c)) with (remops c). rewrite Ho.
  destruct (transition_all_failed (o :: r) w Nd) as (w' & E & X).
  - intros x Hx. eapply remops_in_range; eauto. rewrite Ho. exact Hx.
  - intros x [<-|Hx]; [exact Hs|]. left. unfold assigned_all in As. rewrite Forall_forall in As.
    apply As, Hx.
  - fold St. rewrite E. cbn [bind]. unfold mark_completed, set_mem.
    eexists _, _, _. split; [reflexivity|]. split; [|exact X]. split; [reflexivity|]. cproj. exact Hr.
Qed.

(* ---- phase 4 ---- *)
Lemma mtick_active_total : forall act w cons,
  wlen St w -> NoDup (owns act) -> Forall (mrunnable w) act ->
  exists w' cons' act', tick_active C w cons act = Ok (w', cons', act') /\ Forall (mafter w') act' /\
                        xsteps w w'.
Proof.
  induction act as [|c t IH]; intros w cons L N F; cbn [tick_active].
  - eexists _, _, _. split; [reflexivity|]. split; constructor.
  - inversion F as [|? ? Fc Ft]; subst. rewrite owns_cons in N.
    destruct (mctick_runnable w cons c L Fc) as (w1 & cons1 & c1 & E1 & A1 & X1).
    pose proof (xsteps_mono _ _ X1) as M1. pose proof (xsteps_wlen _ _ X1 L) as L1.
    pose proof (Step_frame _ _ _ _ (ctick_own _ _ _ _ _ _ _ E1)) as F1.
    assert (Ft1 : Forall (mrunnable w1) t).
    { rewrite Forall_forall in *. intros x Hx. eapply mrunnable_stable; [exact M1| |apply Ft, Hx].
      intros o Ho. apply F1. intros Hin.
      rewrite <- (own_mkillable _ _ (mrunnable_killable _ _ (Ft x Hx))) in Ho.
      eapply NoDup_app_disj; [exact N|exact Hin|]. eapply own_in_owns; eauto. }
    destruct (IH w1 cons1 L1 (NoDup_app_r _ _ N) Ft1) as (w2 & cons2 & t2 & E2 & A2 & X2).
    rewrite E1. cbn [bind]. rewrite E2. cbn [bind]. eexists _, _, _. split; [reflexivity|].
    split; [|eapply xsteps_trans; eauto].
    constructor; [|exact A2].
    pose proof (Step_frame _ _ _ _ (tick_active_own _ _ _ _ _ _ _ E2)) as F2.
    eapply mafter_stable_own; [apply xsteps_mono; exact X2| |exact A1].
    intros o Ho. apply F2. intros Hin.
    assert (Ho' : In o (own c)).
    { destruct (ctick_own _ _ _ _ _ _ _ E1) as (Ms & _). eapply msub_In; eauto. }
    eapply NoDup_app_disj; eauto.
Qed.

(* ---- phase 5, step 1 ---- *)
Lemma mkill_over_limit_total : forall act w cons,
  wlen St w -> NoDup (owns act) -> Forall (mafter w) act ->
  exists w' cons' act', kill_over_limit C w cons act = Ok (w', cons', act') /\
                        Forall (msettled w') act' /\ xsteps w w'.
Proof.
  induction act as [|c t IH]; intros w cons L N F; cbn [kill_over_limit].
  - eexists _, _, _. split; [reflexivity|]. split; constructor.
  - inversion F as [|? ? Fc Ft]; subst. rewrite owns_cons in N.
    assert (X : exists w1 cons1 c1,
               (if Qltb (c_ram c) (c_mem c) then ckill C w cons c else Ok (w, cons, c)) = Ok (w1, cons1, c1) /\
               msettled w1 c1 /\ xsteps w w1 /\
               (forall o, ~ In o (own c) -> st_of w1 o = st_of w o) /\ msub (own c1) (own c)).
    { destruct (Qltb (c_ram c) (c_mem c)) eqn:Q.
      - destruct Fc as [[_ Fq]|[K _]]; [congruence|].
        destruct (mckill_killable w cons c L K) as (w1 & cons1 & c1 & E1 & Fin & X1).
        destruct (ckill_own _ _ _ _ _ _ _ E1) as [St1 Ow].
        exists w1, cons1, c1. split; [exact E1|]. split; [left; exact Fin|].
        split; [exact X1|]. split; [apply (Step_frame _ _ _ _ St1)|]. rewrite Ow. apply msub_nil.
      - exists w, cons, c. split; [reflexivity|]. split.
        + destruct Fc as [Fin|[_ Rn]]; [left; exact Fin|right; apply Rn; exact Q].
        + split; [constructor|]. split; [reflexivity|apply msub_refl]. }
    destruct X as (w1 & cons1 & c1 & E1 & A1 & X1 & F1 & Ms1).
    pose proof (xsteps_mono _ _ X1) as M1. pose proof (xsteps_wlen _ _ X1 L) as L1.
    assert (Ft1 : Forall (mafter w1) t).
    { rewrite Forall_forall in *. intros x Hx. eapply mafter_stable_own; [exact M1| |apply Ft, Hx].
      intros o Ho. apply F1. intros Hin. eapply NoDup_app_disj; [exact N|exact Hin|].
      eapply own_in_owns; eauto. }
    destruct (IH w1 cons1 L1 (NoDup_app_r _ _ N) Ft1) as (w2 & cons2 & t2 & E2 & A2 & X2).
    rewrite E1. cbn [bind]. rewrite E2. cbn [bind]. eexists _, _, _. split; [reflexivity|].
    split; [|eapply xsteps_trans; eauto].
    constructor; [|exact A2].
    pose proof (Step_frame _ _ _ _ (kill_over_limit_own _ _ _ _ _ _ _ E2)) as F2.
    eapply msettled_stable_own; [apply xsteps_mono; exact X2| |exact A1].
    intros o Ho. apply F2. intros Hin.
    assert (Ho' : In o (own c)) by (eapply msub_In; eauto).
    eapply NoDup_app_disj; eauto.
Qed.

(* ---- phase 5, step 2 ---- *)
Lemma mkill_until_fits_total mx : forall order act w cons,
  wlen St w -> NoDup (owns act) -> NoDup (map c_id act) ->
  Forall (msettled w) act -> NoDup order ->
  (forall cid, In cid order -> exists c, In c act /\ c_id c = cid /\ c_completed c = false) ->
  exists w' cons' act', kill_until_fits C mx w cons act order = Ok (w', cons', act') /\
                        Forall (msettled w') act' /\ xsteps w w'.
Proof.
  induction order as [|cid t IH]; intros act w cons L N Ni F No Hv; cbn [kill_until_fits].
  - eexists _, _, _. split; [reflexivity|]. split; [exact F|constructor].
  - destruct (Qleb cons mx); [eexists _, _, _; split; [reflexivity|]; split; [exact F|constructor]|].
    destruct (Hv cid (or_introl eq_refl)) as (c & Hc & Hid & Hnc).
    assert (Fc : find_container cid act = Some c) by (rewrite <- Hid; apply find_container_in; assumption).
    rewrite Fc. rewrite Forall_forall in F.
    assert (Rn : mrunnable w c).
    { destruct (F c Hc) as [[X _]|X]; [congruence|exact X]. }
    pose proof (mrunnable_killable _ _ Rn) as K.
    destruct (mckill_killable w cons c L K) as (w1 & cons1 & c1 & E1 & Fin & X1).
    destruct (ckill_own _ _ _ _ _ _ _ E1) as [St1 _].
    pose proof (ckill_ok _ _ _ _ _ _ _ E1) as (_ & Ed & _ & _). subst c1.
    rewrite E1. cbn [bind]. rewrite (replace_container_spec cid c act Ni Fc).
    apply NoDup_cons_iff in No. destruct No as [Ncid Nt].
    destruct (IH (map (kill_if [cid]) act) w1 cons1) as (w2 & cons2 & act2 & E2 & A2 & X2).
    + eapply xsteps_wlen; eauto.
    + eapply msub_NoDup; [apply owns_kill_when_msub|exact N].
    + unfold kill_if. rewrite map_kill_when_ids. exact Ni.
    + apply Forall_forall. intros y Hy. apply in_map_iff in Hy. destruct Hy as [x [<- Hx]].
      destruct (Nat.eq_dec (c_id x) cid) as [E|Ne].
      * assert (x = c) by (eapply NoDup_ids_inj; eauto; congruence). subst x.
        rewrite kill_if_hit by (left; symmetry; exact E). left. exact Fin.
      * rewrite kill_if_miss by (intros [X|[]]; congruence).
        eapply msettled_stable_own; [apply xsteps_mono; exact X1| |apply F, Hx].
        intros o Ho. apply (Step_frame _ _ _ _ St1).
        eapply owns_disjoint; eauto. intros ->. congruence.
    + exact Nt.
    + intros cid' Hcid'. destruct (Hv cid' (or_intror Hcid')) as (c' & Hc' & Hid' & Hnc').
      exists c'. split; [|auto]. apply in_map_iff. exists c'. split; [|exact Hc'].
      apply kill_if_miss. intros [X|[]]. apply Ncid. congruence.
    + exists w2, cons2, act2. split; [exact E2|]. split; [exact A2|eapply xsteps_trans; eauto].
Qed.

Lemma moom_killer_total mx w cons act :
  wlen St w -> NoDup (owns act) -> NoDup (map c_id act) -> Forall (mafter w) act ->
  exists w' cons' act', oom_killer C mx w cons act = Ok (w', cons', act') /\
                        Forall (msettled w') act' /\ xsteps w w'.
Proof.
  intros L N Ni F. unfold oom_killer.
  destruct (mkill_over_limit_total act w cons L N F) as (w1 & cons1 & act1 & E1 & A1 & X1).
  rewrite E1. cbn [bind].
  destruct (Qleb cons1 mx); [eexists _, _, _; split; [reflexivity|]; split; [exact A1|exact X1]|].
  destruct (kill_over_limit_own _ _ _ _ _ _ _ E1) as (Ms & _).
  pose proof (kill_over_limit_spec _ _ _ _ _ _ _ E1) as (Ea & _ & _).
  destruct (mkill_until_fits_total mx (victims_order C act1) act1 w1 cons1)
    as (w2 & cons2 & act2 & E2 & A2 & X2).
  - eapply xsteps_wlen; eauto.
  - eapply msub_NoDup; eauto.
  - rewrite Ea, map_kill_when_ids. exact Ni.
  - exact A1.
  - apply victims_order_NoDup. rewrite Ea, map_kill_when_ids. exact Ni.
  - intros cid Hcid. apply victims_order_not_completed in Hcid.
    destruct Hcid as (c & H1 & H2 & H3 & _). exists c. auto.
  - exists w2, cons2, act2. split; [exact E2|]. split; [exact A2|eapply xsteps_trans; eauto].
Qed.

(* ---- one pool ---- *)
(* a property of operator lists that containers and results inherit from the assignments
   (overbook: exactly one operator) *)
Variable Qo : list nat -> Prop.

Definition masg_ready (w : world) (a : asg) : Prop :=
  Qleb (a_ram a) 0%Q = false /\ ops_in_range St (a_ops a) /\ a_ops a <> [] /\ NoDup (a_ops a) /\
  assigned_all w (a_ops a) /\ chain w (a_ops a).

Lemma mnews_runnable w : forall asgs next,
  Forall (masg_ready w) asgs -> Forall (mrunnable w) (news next asgs).
Proof.
  induction asgs as [|a t IH]; intros next F; [constructor|]. inversion F as [|? ? Fa Ft]; subst.
  cbn [news]. constructor; [|apply IH; exact Ft].
  destruct Fa as (Hr & Rg & Ne & Nd & As & Ch). unfold mrunnable, new_container, remops. cproj.
  split; [reflexivity|]. split; [reflexivity|]. split; [apply Qleb_Qltb_0; exact Hr|].
  split; [exact Rg|]. cbn [skipn].
  destruct (a_ops a) as [|o r]; [congruence|]. exists o, r.
  unfold assigned_all in As. inversion As as [|? ? Ao Ar]; subst. repeat split; auto.
Qed.

Lemma news_ops : forall asgs next, map c_ops (news next asgs) = map a_ops asgs.
Proof.
  induction asgs as [|a t IH]; intros next; [reflexivity|]. cbn [news map]. rewrite IH. reflexivity.
Qed.

Definition mpool_inv (w : world) (next : nat) (p : pool) : Prop :=
  p_suspending p = [] /\ Forall (mrunnable w) (p_active p) /\ ids_ok next p /\
  Forall (fun c => Qo (c_ops c)) (p_active p).

Lemma mrunnable_range w c : mrunnable w c -> ops_in_range St (c_ops c).
Proof. intros (_ & _ & _ & Rg & _). exact Rg. Qed.

Lemma mpool_inv_live w next p : mpool_inv w next p -> pool_live p.
Proof.
  intros (Hs & Fa & _). split; [|rewrite Hs; constructor].
  eapply Forall_impl; [|exact Fa]. intros c (Hc & _). exact Hc.
Qed.

Lemma mpool_inv_ok w next p : mpool_inv w next p -> pool_ok St p.
Proof.
  intros (Hs & Fa & _). split; [|rewrite Hs; constructor].
  eapply Forall_impl; [|exact Fa]. intros c. apply mrunnable_range.
Qed.

Lemma mpool_tick_total w next p asgs :
  wlen St w -> mpool_inv w next p -> Forall (masg_ready w) asgs ->
  Forall (fun a => Qo (a_ops a)) asgs ->
  NoDup (pown p ++ aops asgs) ->
  (asgs = [] \/ verify_assignments C p asgs = Ok tt) ->
  (forall a, In a asgs -> opcount_ok C a = true) ->
  exists w' next' p' res,
    pool_tick C w next p [] asgs = Ok (w', next', p', res) /\ mpool_inv w' next' p' /\
    xsteps w w' /\ Forall (fun r => Qo (r_ops r)) res.
Proof.
  intros L (Hs & Fa & Hi & Fq) Fr Fqa N V O.
  set (act2 := p_active p ++ news next asgs).
  destruct (apply_assignments_ok C asgs next (p_avail_cpu p) (p_avail_ram p) (p_active p) O)
    as (acpu2 & aram2 & Ea).
  assert (E2 : exists next2 acpu2' aram2',
             match asgs with
             | [] => Ok (next, p_avail_cpu p, p_avail_ram p, p_active p)
             | _ => do _ <- verify_assignments C p asgs;
                    apply_assignments C next (p_avail_cpu p) (p_avail_ram p) (p_active p) asgs
             end = Ok (next2, acpu2', aram2', act2)).
  { destruct asgs as [|a0 t].
    - unfold act2. cbn [news]. rewrite app_nil_r. eauto.
    - destruct V as [V|V]; [discriminate|]. rewrite V. cbn [bind]. rewrite Ea. eauto. }
  destruct E2 as (next2 & acpu2' & aram2' & E2).
  assert (F2 : Forall (mrunnable w) act2).
  { unfold act2. apply Forall_app. split; [exact Fa|apply mnews_runnable; exact Fr]. }
  assert (Q2 : Forall (fun c => Qo (c_ops c)) act2).
  { unfold act2. apply Forall_app. split; [exact Fq|]. apply Forall_map. rewrite news_ops.
    apply Forall_map. exact Fqa. }
  assert (R2 : conts_in_range St act2).
  { eapply Forall_impl; [|exact F2]. intros c. apply mrunnable_range. }
  assert (N2 : NoDup (owns act2)).
  { unfold act2. rewrite owns_app, news_owns. unfold pown in N. rewrite Hs in N. cbn [owns flat_map] in N.
    rewrite app_nil_r in N. exact N. }
  assert (I2 : NoDup (map c_id act2)).
  { unfold act2. rewrite map_app, news_ids. destruct Hi as [Nl Bl]. unfold live in Nl, Bl.
    rewrite Hs, app_nil_r in Nl, Bl. apply ConserveFacts.NoDup_app_intro; [exact Nl|apply seq_NoDup|].
    intros x Hx Hq. apply in_seq in Hq. apply in_map_iff in Hx. destruct Hx as [c [<- Hc]].
    specialize (Bl c Hc). lia. }
  destruct (mtick_active_total act2 w (p_consumed p) L N2 F2) as (w4 & cons4 & act4 & E4 & A4 & X4).
  destruct (tick_active_steps_in _ _ _ _ _ _ _ E4 R2 L) as [_ O4].
  pose proof (xsteps_wlen _ _ X4 L) as L4.
  assert (R4 : conts_in_range St act4) by (eapply conts_in_range_map; eauto).
  assert (N4 : NoDup (owns act4)).
  { destruct (tick_active_own _ _ _ _ _ _ _ E4) as (Ms & _). eapply msub_NoDup; eauto. }
  assert (I4 : NoDup (map c_id act4)).
  { rewrite ids_keys, (tick_active_keys _ _ _ _ _ _ _ E4), <- ids_keys. exact I2. }
  destruct (moom_killer_total (p_max_ram p) w4 cons4 act4 L4 N4 I4 A4)
    as (w5 & cons5 & act5 & E5 & A5 & X5).
  destruct (oom_killer_steps_in _ _ _ _ _ _ _ _ E5 R4 L4) as [_ O5].
  assert (Q5 : Forall (fun c => Qo (c_ops c)) act5).
  { eapply (Forall_map_eq c_ops Qo); [|exact Q2]. rewrite O5. exact O4. }
  assert (E : exists p',
            pool_tick C w next p [] asgs
              = Ok (w5, next2, p', map (result_of (p_id p)) (filter c_completed act5)) /\
            p_suspending p' = [] /\ p_active p' = filter (fun c => negb (c_completed c)) act5).
  { eexists. split.
    - unfold pool_tick. eapply bind_ok; [reflexivity|]. cbv beta iota.
      eapply bind_ok; [exact E2|]. cbv beta iota.
      eapply bind_ok; [rewrite Hs; reflexivity|]. cbv beta iota zeta.
      eapply bind_ok; [exact E4|]. cbv beta iota.
      eapply bind_ok; [exact E5|]. cbv beta iota. reflexivity.
    - cbn [upd_pool p_suspending p_active filter]. split; reflexivity. }
  destruct E as (p' & E & Hs' & Ha').
  eexists w5, next2, p', _. split; [exact E|]. split; [|split].
  - split; [exact Hs'|]. split; [|split].
    + rewrite Ha'. apply Forall_forall. intros x Hx. apply filter_In in Hx. destruct Hx as [Hx Hc].
      rewrite Forall_forall in A5. destruct (A5 x Hx) as [[X _]|X]; [rewrite X in Hc; discriminate|exact X].
    + apply (pool_tick_ids _ _ _ _ _ _ _ _ _ _ E Hi).
    + rewrite Ha'. apply Forall_filter_keep. exact Q5.
  - eapply xsteps_trans; eauto.
  - apply Forall_map. cbn [result_of r_ops]. apply Forall_filter_keep. exact Q5.
Qed.

(* ---- all pools ---- *)
Lemma masg_ready_stable w w' a :
  mono_w w w' -> (forall o, In o (a_ops a) -> st_of w' o = st_of w o) -> masg_ready w a -> masg_ready w' a.
Proof.
  intros M F (Hr & Rg & Ne & Nd & As & Ch). split; [exact Hr|]. split; [exact Rg|]. split; [exact Ne|].
  split; [exact Nd|]. split; [eapply assigned_all_stable; eauto|eapply chain_mono; eauto].
Qed.

Lemma mpool_inv_stable w next w' next' q :
  mono_w w w' -> next <= next' -> (forall o, In o (pown q) -> st_of w' o = st_of w o) ->
  mpool_inv w next q -> mpool_inv w' next' q.
Proof.
  intros M Ln F (Hs & Fa & Hi & Fq). split; [exact Hs|]. split; [|split; [eapply ids_ok_mono; eauto|exact Fq]].
  rewrite Forall_forall in *. intros c Hc. eapply mrunnable_stable; [exact M| |apply Fa, Hc].
  intros o Ho. apply F. unfold pown. apply in_or_app. left.
  rewrite <- (own_mkillable _ _ (mrunnable_killable _ _ (Fa c Hc))) in Ho. eapply own_in_owns; eauto.
Qed.

Lemma mpools_tick_total asgs : forall ps w next,
  wlen St w -> Forall (mpool_inv w next) ps ->
  Forall (masg_ready w) (rel asgs ps) ->
  Forall (fun a => Qo (a_ops a)) asgs ->
  NoDup (flat_map pown ps ++ aops (rel asgs ps)) ->
  (forall p, In p ps -> mine_of p asgs = [] \/ verify_assignments C p (mine_of p asgs) = Ok tt) ->
  (forall a, In a asgs -> opcount_ok C a = true) ->
  exists w' next' ps' res,
    pools_tick C w next ps [] asgs = Ok (w', next', ps', res) /\
    Forall (mpool_inv w' next') ps' /\ next <= next' /\ xsteps w w' /\
    Forall (fun r => Qo (r_ops r)) res.
Proof.
  induction ps as [|p t IH]; intros w next L F Fr Fq N V O.
  - cbn [pools_tick]. eexists _, _, _, _. split; [reflexivity|]. split; [constructor|].
    split; [lia|]. split; constructor.
  - inversion F as [|? ? Fp Ft]; subst. unfold rel in Fr, N. cbn [flat_map] in Fr, N.
    fold (rel asgs t) in Fr, N.
    apply Forall_app in Fr. destruct Fr as [Frp Frt]. rewrite aops_app in N.
    assert (N' : NoDup ((pown p ++ aops (mine_of p asgs)) ++ (flat_map pown t ++ aops (rel asgs t)))).
    { eapply Permutation_NoDup; [|exact N]. rewrite <- !app_assoc. apply Permutation_app_head.
      rewrite !app_assoc. apply Permutation_app_tail. apply Permutation_app_comm. }
    assert (Fqp0 : Forall (fun a => Qo (a_ops a)) (mine_of p asgs)).
    { apply Forall_filter_keep. exact Fq. }
    assert (Op0 : forall a, In a (mine_of p asgs) -> opcount_ok C a = true).
    { intros a Ha. apply filter_In in Ha. apply O. tauto. }
    destruct (mpool_tick_total w next p (mine_of p asgs) L Fp Frp Fqp0 (NoDup_app_l _ _ N')
                (V p (or_introl eq_refl)) Op0)
      as (w1 & next1 & p1 & res1 & E1 & PI1 & X1 & Q1).
    destruct (pool_tick_own _ _ _ _ _ _ _ _ _ _ E1 (mpool_inv_live _ _ _ Fp)) as [St1 [Lv1 _]].
    pose proof (xsteps_mono _ _ X1) as M1. pose proof (xsteps_wlen _ _ X1 L) as L1.
    destruct Fp as (Hsp & Fap & Hip & Fqp).
    destruct (pool_tick_ids _ _ _ _ _ _ _ _ _ _ E1 Hip) as (_ & Hn1 & _).
    assert (Ln1 : next <= next1) by lia.
    assert (F1 : forall o, In o (flat_map pown t ++ aops (rel asgs t)) -> st_of w1 o = st_of w o).
    { intros o Ho. apply (Step_frame _ _ _ _ St1). intros Hin. eapply NoDup_app_disj; eauto. }
    assert (Ft1 : Forall (mpool_inv w1 next1) t).
    { rewrite Forall_forall in *. intros q Hq. eapply mpool_inv_stable; [exact M1|exact Ln1| |apply Ft, Hq].
      intros o Ho. apply F1. apply in_or_app. left. apply in_flat_map. exists q. auto. }
    assert (Frt1 : Forall (masg_ready w1) (rel asgs t)).
    { rewrite Forall_forall in *. intros a Ha. eapply masg_ready_stable; [exact M1| |apply Frt, Ha].
      intros o Ho. apply F1. apply in_or_app. right. unfold aops. apply in_flat_map. exists a. auto. }
    destruct (IH w1 next1 L1 Ft1 Frt1 Fq (NoDup_app_r _ _ N'))
      as (w2 & next2 & t2 & res2 & E2 & PI2 & Ln2 & X2 & Q2).
    { intros q Hq. apply V. right. exact Hq. }
    { exact O. }
    cbn [pools_tick]. cbv zeta. cbn [filter]. unfold mine_of in E1. rewrite E1. cbn [bind].
    rewrite E2. cbn [bind]. eexists _, _, _, _. split; [reflexivity|].
    split; [|split; [lia|split; [eapply xsteps_trans; eauto|apply Forall_app; split; assumption]]].
    constructor; [|exact PI2].
    assert (Lt1 : Forall pool_live t).
    { eapply Forall_impl; [|exact Ft1]. intros q. apply mpool_inv_live. }
    destruct (pools_tick_own _ _ _ _ _ _ _ _ _ _ E2 Lt1) as [St2 _].
    eapply mpool_inv_stable; [apply xsteps_mono; exact X2|exact Ln2| |exact PI1].
    intros o Ho. apply (Step_frame _ _ _ _ St2). intros Hin. apply in_step_source in Hin.
    destruct St1 as (Ms1 & _). eapply NoDup_app_disj; [exact N'| |exact Hin].
    eapply msub_In; eauto.
Qed.

(* ---- the executor half of a round, for any scheduler ---- *)
Definition mloop_inv (np : nat) (e : estate) : Prop :=
  inv C e /\ own_inv e /\ Forall (mpool_inv (e_world e) (e_next e)) (e_pools e) /\
  map p_id (e_pools e) = seq 0 np.

Lemma mloop_inv_init np cpu ram : mloop_inv np (init_estate C np cpu ram).
Proof.
  split; [apply inv_init|]. split; [apply own_inv_init|]. split.
  - unfold init_estate. cbn [e_pools e_world e_next]. apply Forall_forall. intros p Hp.
    apply in_map_iff in Hp. destruct Hp as [i [<- _]]. split; [reflexivity|]. split; [constructor|].
    split; [|constructor]. split; [constructor|intros ? []].
  - unfold init_estate. cbn [e_pools]. rewrite map_map. cbn [new_pool p_id]. apply map_id.
Qed.

Lemma exec_round_ok np e w' asgs :
  mloop_inv np e ->
  wlen St w' -> mono_w (e_world e) w' -> mk_assignments C (e_world e) asgs = Ok w' ->
  Forall (masg_ready w') asgs -> Forall (fun a => Qo (a_ops a)) asgs ->
  (forall x, assignable (st_of (e_world e) x) = false -> st_of w' x = st_of (e_world e) x) ->
  checks_pass C (e_pools e) asgs ->
  exists e2 res,
    exec_tick C {| e_world := w'; e_pools := e_pools e; e_next := e_next e |} [] asgs = Ok (e2, res) /\
    mloop_inv np e2 /\ xsteps w' (e_world e2) /\ Forall (fun r => Qo (r_ops r)) res.
Proof.
  intros (Iv & Ow & Pi & Hseq) L' M' Emk Fr Fq Frame (Ck1 & Ck2 & Ck3).
  destruct Iv as [L Rg]. pose proof Ow as (Nid & Plv & [Ns Ab]).
  assert (Ra : forall a, In a asgs -> ops_in_range St (a_ops a)).
  { intros a Ha. rewrite Forall_forall in Fr. destruct (Fr a Ha) as (_ & R & _). exact R. }
  assert (Pi' : Forall (mpool_inv w' (e_next e)) (e_pools e)).
  { rewrite Forall_forall in *. intros q Hq. eapply mpool_inv_stable; [exact M'|apply le_n| |apply Pi, Hq].
    intros o Ho. apply Frame. assert (B : busy (st_of (e_world e) o)).
    { apply Ab. unfold sown. apply in_flat_map. exists q. auto. }
    apply busy_not_assignable in B. exact B. }
  assert (Frel : Forall (masg_ready w') (rel asgs (e_pools e))).
  { rewrite Forall_forall in *. intros a Ha. apply Fr. eapply rel_incl; eauto. }
  assert (Nrel : NoDup (flat_map pown (e_pools e) ++ aops (rel asgs (e_pools e)))).
  { destruct (mk_assignments_good _ _ _ _ _ Emk Ra L (conj Ns Ab)) as [Ng _].
    eapply msub_NoDup; [|exact Ng]. intros x. rewrite cnt_rel.
    apply (pending_msub (e_pools e) asgs Nid x). }
  destruct (mpools_tick_total asgs (e_pools e) w' (e_next e) L' Pi' Frel Fq Nrel Ck2 Ck3)
    as (w2 & next2 & ps2 & res & Ept & Pi2 & _ & X2 & Q2).
  set (e2 := {| e_world := w2; e_pools := ps2; e_next := next2 |}).
  assert (Eex : exec_tick C {| e_world := w'; e_pools := e_pools e; e_next := e_next e |} [] asgs
                = Ok (e2, res)).
  { unfold exec_tick. cbv zeta. cbn [e_pools e_world e_next forallb andb]. rewrite Ck1. cbn [negb].
    rewrite Ept. reflexivity. }
  assert (Est : exec_step C e [] asgs = Ok (e2, res)).
  { unfold exec_step. rewrite Emk. cbn [bind]. exact Eex. }
  exists e2, res. split; [exact Eex|].
  destruct (exec_step_steps_in _ _ _ _ _ _ Est (conj L Rg) Ra) as [_ Iv2].
  split; [|split; [exact X2|exact Q2]].
  split; [exact Iv2|]. split; [eapply exec_step_own_inv; eauto; split; assumption|].
  split; [exact Pi2|]. cbn [e2 e_pools].
  destruct (pools_tick_static _ _ _ _ _ _ _ _ _ _ Ept) as [Ids _]. rewrite Ids. exact Hseq.
Qed.

End MultiLoop.

(* ------------------------------------------------------------------------------------------ *)
(* statics built by [mk_static]: every operator belongs to its pipeline's order, and the order  *)
(* of operator_states is topological                                                            *)
(* ------------------------------------------------------------------------------------------ *)

Definition ops_known (S : static) : Prop :=
  forall o, o < length (s_ops S) -> In o (pd_order (pipe_of S (op_pipe S o))).
Definition order_topo (S : static) : Prop :=
  forall k l1 o l2, pd_order (pipe_of S k) = l1 ++ o :: l2 ->
  forall p, In p (op_parents S o) -> In p l1.

Lemma list_sum_locate : forall (ns : list nat) o, o < list_sum ns ->
  exists k j, k < length ns /\ j < nth k ns 0 /\ o = list_sum (firstn k ns) + j.
Proof.
  induction ns as [|n t IH]; intros o H; [cbn in H; lia|].
  change (list_sum (n :: t)) with (n + list_sum t) in H.
  destruct (Nat.lt_ge_cases o n) as [Lt|Ge].
  - exists 0, o. cbn. repeat split; lia.
  - destruct (IH (o - n)) as (k & j & Hk & Hj & E); [lia|]. exists (S k), j.
    cbn [length nth firstn]. change (list_sum (n :: firstn k t)) with (n + list_sum (firstn k t)).
    repeat split; lia.
Qed.

Lemma mk_static_ops_known l : dags_wf l -> ops_known (mk_static l).
Proof.
  intros W o Ho.
  assert (Len : length (s_ops (mk_static l)) = list_sum (map pd_n (mk_pipes 0 l))).
  { cbn [mk_static s_ops]. apply SafetyFacts.mk_ops_length. }
  rewrite Len in Ho. destruct (list_sum_locate _ _ Ho) as (k & j & Hk & Hj & E).
  rewrite map_length in Hk.
  assert (Hk' : k < length (s_pipes (mk_static l))) by exact Hk.
  assert (Ej : nth k (map pd_n (mk_pipes 0 l)) 0 = pd_n (pipe_of (mk_static l) k)).
  { exact (map_nth pd_n (mk_pipes 0 l) dummy_pipe k). }
  rewrite Ej in Hj.
  assert (Ef : pd_first (pipe_of (mk_static l) k) = list_sum (firstn k (map pd_n (mk_pipes 0 l)))).
  { unfold pipe_of. cbn [mk_static s_pipes].
    rewrite mk_pipes_first by (rewrite mk_pipes_length in Hk; exact Hk).
    rewrite firstn_map. reflexivity. }
  assert (Eo : o = pd_first (pipe_of (mk_static l) k) + j) by lia.
  pose proof (mk_static_nth l k j Hk' Hj) as Nth. rewrite <- Eo in Nth.
  unfold op_pipe. rewrite Nth. cbn [od_pipe].
  destruct (NaiveFacts.mk_static_pipe l k W Hk') as [Eord Wg]. rewrite Eord, Eo. apply in_map.
  eapply Permutation_in; [apply Permutation_sym, DagProof.dag_iter_perm; exact Wg|].
  apply DagProof.In_nodes. exact Hj.
Qed.

Lemma mk_static_order_topo l : dags_wf l -> order_topo (mk_static l).
Proof.
  intros W k l1 o l2 E p Hp.
  assert (Hk : k < length (s_pipes (mk_static l))).
  { destruct (Nat.lt_ge_cases k (length (s_pipes (mk_static l)))) as [Lt|Ge]; [exact Lt|].
    unfold pipe_of in E. rewrite nth_overflow in E by exact Ge. cbn in E. destruct l1; discriminate. }
  destruct (NaiveFacts.mk_static_pipe l k W Hk) as [Eord Wg].
  rewrite Eord in E. apply map_eq_app in E. destruct E as (i1 & i2' & Ei & E1 & E2).
  destruct i2' as [|j i2]; [discriminate|]. cbn [map] in E2. inversion E2 as [[Ej E2']].
  assert (Hj : j < pd_n (pipe_of (mk_static l) k)).
  { apply DagProof.In_nodes. eapply Permutation_in; [apply DagProof.dag_iter_perm; exact Wg|].
    rewrite Ei. apply in_or_app. right. left. reflexivity. }
  unfold op_parents in Hp. rewrite <- Ej in Hp.
  rewrite (mk_static_nth l k j Hk Hj) in Hp. cbn [od_parents] in Hp.
  apply in_map_iff in Hp. destruct Hp as (q & <- & Hq).
  rewrite <- E1. apply in_map. eapply DagProof.dag_iter_topo; eauto.
Qed.

(* ------------------------------------------------------------------------------------------ *)
(* what the executor's transitions preserve                                                     *)
(* ------------------------------------------------------------------------------------------ *)

(* a pipeline is untouched (all PENDING) or has no PENDING operator at all *)
Definition allpend (S : static) (w : world) : Prop :=
  forall k o o', In o (pd_order (pipe_of S k)) -> In o' (pd_order (pipe_of S k)) ->
  st_of w o = Pending -> st_of w o' = Pending.

Lemma xsteps_hist C w w' :
  static_ok (cf_static C) -> ops_known (cf_static C) ->
  xsteps C w w' -> hist_ok (cf_static C) w -> hist_ok (cf_static C) w'.
Proof.
  intros SK OK. induction 1 as [w|w op new w1 w2 L X T R IH]; intros H; [exact H|].
  apply IH. eapply transition_hist; eauto. apply OK. destruct H as (L1 & _). rewrite <- L1. exact L.
Qed.

Lemma xsteps_allpend C w w' :
  xsteps C w w' -> allpend (cf_static C) w -> allpend (cf_static C) w'.
Proof.
  induction 1 as [w|w op new w1 w2 L X T R IH]; intros H; [exact H|]. apply IH.
  intros k o o' Io Io' Po.
  assert (No : o <> op).
  { intros ->. rewrite (transition_st_same _ _ _ _ _ T L) in Po.
    destruct X as [->|[->| ->]]; discriminate. }
  rewrite (transition_st_other _ _ _ _ _ _ T No) in Po.
  pose proof (H k o o' Io Io' Po) as Po'.
  assert (No' : o' <> op).
  { intros ->. apply transition_ok in T. destruct T as [V _]. rewrite Po' in V.
    destruct X as [->|[->| ->]]; discriminate. }
  rewrite (transition_st_other _ _ _ _ _ _ T No'). exact Po'.
Qed.

Lemma asteps_mono S w w' : asteps S w w' -> mono_w w w'.
Proof.
  intros H. split; [apply (asteps_length _ _ _ H)|].
  intros o Ho. eapply completed_final; [apply asteps_steps; exact H|exact Ho].
Qed.

Lemma chain_single C w o : parents_complete (cf_static C) w o = true -> chain C w [o].
Proof.
  intros H l1 x l2 E p Hp. destruct l1 as [|y l1].
  - inversion E; subst. left. rewrite parents_complete_spec in H. apply H, Hp.
  - destruct l1; discriminate.
Qed.

(* a whole run from an invariant of [sim_tick] *)
Lemma sim_run_total_gen C a (I : sim -> Prop) :
  (forall t s newp, I s -> NoDup newp -> (forall p, In p newp -> ~ In p (map fst (sm_arrival s))) ->
     exists s' lg, sim_tick C a t s newp = Ok (s', lg) /\ I s' /\
                   sm_arrival s' = sm_arrival s ++ map (fun p => (p, t)) newp) ->
  forall arrivals t s, I s -> NoDup (concat arrivals) ->
  (forall p, In p (concat arrivals) -> ~ In p (map fst (sm_arrival s))) ->
  exists sf logs, sim_run C a t s arrivals = (sf, logs, None) /\ length logs = length arrivals.
Proof.
  intros Ht. induction arrivals as [|newp r IH]; intros t s Li N D; cbn [sim_run].
  - eexists _, _. split; reflexivity.
  - cbn [concat] in N, D. apply ConserveFacts.NoDup_app_inv in N. destruct N as (N1 & N2 & N3).
    destruct (Ht t s newp Li N1) as (s1 & lg & E & Li1 & Ea).
    { intros p Hp. apply D. apply in_or_app. left. exact Hp. }
    rewrite E. destruct (IH (t + 1)%Z s1 Li1 N2) as (sf & logs & R & Len).
    { intros p Hp Hin. rewrite Ea, map_app, map_map in Hin. cbn [fst] in Hin. rewrite map_id in Hin.
      apply in_app_or in Hin. destruct Hin as [Hin|Hin].
      - apply (D p); [apply in_or_app; right; exact Hp|exact Hin].
      - apply (N3 p Hin Hp). }
    rewrite R. eexists _, _. split; [reflexivity|]. cbn [length]. rewrite Len. reflexivity.
Qed.

(* ------------------------------------------------------------------------------------------ *)
(* M2. naive with multi-operator containers                                                     *)
(* ------------------------------------------------------------------------------------------ *)

Section NaiveMulti.
Variable C : cfg.
Let St := cf_static C.
Hypothesis Hscript : forall op cpu, cf_script C op cpu <> [].
Hypothesis SK : static_ok St.
Hypothesis OK : ops_known St.
Hypothesis TP : order_topo St.
Hypothesis Hmulti : cf_multi C = true.

Let anyops : list nat -> Prop := fun _ => True.

Lemma SK_orders : orders_nodup St.
Proof. intros k. apply SK. Qed.

Lemma SK_disjoint k k' o :
  In o (pd_order (pipe_of St k)) -> In o (pd_order (pipe_of St k')) -> k = k'.
Proof.
  intros I1 I2. destruct SK as [_ SO].
  destruct (SO _ _ I1) as (E1 & _). destruct (SO _ _ I2) as (E2 & _). congruence.
Qed.

Lemma SK_range k o : In o (pd_order (pipe_of St k)) -> o < length (s_ops St).
Proof. intros I1. destruct SK as [_ SO]. destruct (SO _ _ I1) as (_ & R & _). exact R. Qed.

(* one round of the scheduler: whole untouched pipelines, in topological order *)
Lemma nv_run_multi w ps q rest rq w' ev :
  nv_run C false w ps q rest rq w' ev ->
  hist_ok St w -> allpend St w ->
  hist_ok St w' /\ allpend St w' /\ mono_w w w' /\
  mk_assignments C w (map ev_asg ev) = Ok w' /\
  Forall (masg_ready C w') (map ev_asg ev) /\
  (forall x, assignable (st_of w x) = false -> st_of w' x = st_of w x).
Proof.
  induction 1 as [w q|w p ps q rest rq w' ev Sk R IH|w p ps q rest rq w' ev Op Id R IH
                  |w p ps pre k q1 w1 rest rq w' ev Op Id Dr Ne Mk R IH]; intros H A.
  - split; [exact H|]. split; [exact A|]. split; [apply mono_w_refl|]. split; [reflexivity|].
    split; [constructor|reflexivity].
  - apply IH; assumption.
  - apply IH; assumption.
  - set (a := nv_asg C false w p k) in *.
    assert (Ea : a_ops a = get_ops St w k assignable false) by reflexivity.
    unfold dropped in Dr. apply orb_false_iff in Dr. destruct Dr as [_ Hf].
    pose proof H as (L1 & _ & _ & Cn).
    pose proof (no_failed_ops St w k (Cn k Failed) Hf) as NF.
    (* the pipeline is untouched: every operator of it is PENDING *)
    assert (AP : forall o, In o (pd_order (pipe_of St k)) -> st_of w o = Pending).
    { destruct (nv_ops C false w k) as [|o0 t0] eqn:En; [congruence|].
      assert (I0 : In o0 (nv_ops C false w k)) by (rewrite En; left; reflexivity).
      apply nv_ops_In in I0. destruct I0 as [I0 A0]. apply assignable_cases in A0.
      destruct A0 as [A0|A0]; [|exfalso; eapply NF; eauto].
      intros o Io. eapply A; eauto. }
    assert (Eo : a_ops a = pd_order (pipe_of St k)).
    { rewrite Ea. unfold get_ops. apply ConserveFacts.filter_all. intros o Io.
      rewrite (AP o Io). reflexivity. }
    pose proof (nv_asg_hist C false w p k w1 SK H Mk) as H1.
    pose proof (mk_assignment_asteps _ _ _ _ Mk) as As1. pose proof (asteps_mono _ _ _ As1) as M1.
    pose proof Mk as Mk0. apply mk_assignment_transition_all in Mk0. destruct Mk0 as [(_ & _ & Hram) T].
    fold St in T. rewrite Eo in T.
    assert (S1 : forall o, In o (pd_order (pipe_of St k)) -> st_of w1 o = Assigned).
    { intros o Io. eapply transition_all_set; eauto. rewrite L1. eapply SK_range; eauto. }
    assert (F1 : forall o, ~ In o (pd_order (pipe_of St k)) -> st_of w1 o = st_of w o).
    { intros o Io. eapply transition_all_frame; eauto. }
    assert (A1 : allpend St w1).
    { intros k' o o' Io Io' Po.
      assert (No : ~ In o (pd_order (pipe_of St k))).
      { intros X. rewrite (S1 o X) in Po. discriminate. }
      rewrite (F1 o No) in Po. pose proof (A k' o o' Io Io' Po) as Po'.
      rewrite F1; [exact Po'|]. intros X. apply No.
      rewrite (SK_disjoint k k' o' X Io'). exact Io. }
    destruct (IH H1 A1) as (H' & A' & M' & Mks & Rd & Fr).
    split; [exact H'|]. split; [exact A'|]. split; [eapply mono_w_trans; eauto|].
    cbn [map ev_asg mk_assignments]. fold a. rewrite Mk. cbn [bind]. split; [exact Mks|]. split.
    + constructor; [|exact Rd]. split; [exact Hram|]. rewrite Eo.
      split; [apply Forall_forall; intros o Io; eapply SK_range; eauto|].
      split; [rewrite <- Eo; exact Ne|]. split; [apply SK|]. split.
      * apply Forall_forall. intros o Io. rewrite Fr; [apply S1, Io|]. rewrite (S1 o Io). reflexivity.
      * intros l1 o l2 E par Hp. right. eapply TP; eauto.
    + intros x Hx. pose proof (mk_assignment_frame _ _ _ _ x Mk Hx) as Fx.
      rewrite Fr; [exact Fx|]. rewrite Fx. exact Hx.
Qed.

Definition nm_inv (np : nat) (s : sim) : Prop :=
  mloop_inv C anyops np (sm_exec s) /\ hist_ok St (e_world (sm_exec s)) /\
  allpend St (e_world (sm_exec s)).

Lemma naive_multi_tick_ok np s e results newp :
  mloop_inv C anyops np e -> hist_ok St (e_world e) -> allpend St (e_world e) ->
  exists s' w' asgs e2 res,
    naive_step C false s e results newp = Ok (s', w', [], asgs) /\
    exec_tick C {| e_world := w'; e_pools := e_pools e; e_next := e_next e |} [] asgs = Ok (e2, res) /\
    mloop_inv C anyops np e2 /\ hist_ok St (e_world e2) /\ allpend St (e_world e2).
Proof.
  intros Li H A.
  destruct (naive_step_total C false s e results newp SK_orders) as (s' & w' & asgs & E & _).
  assert (Facts : hist_ok St w' /\ allpend St w' /\ mono_w (e_world e) w' /\
                  mk_assignments C (e_world e) asgs = Ok w' /\ Forall (masg_ready C w') asgs /\
                  (forall x, assignable (st_of (e_world e) x) = false -> st_of w' x = st_of (e_world e) x)).
  { destruct (naive_step_cases _ _ _ _ _ _ _ _ _ _ E)
      as [(_ & _ & _ & -> & _ & ->)|(rest & rq & ev & R & _ & _ & ->)].
    - split; [exact H|]. split; [exact A|]. split; [apply mono_w_refl|]. split; [reflexivity|].
      split; [constructor|reflexivity].
    - assert (Es : single_of C false = false) by (unfold single_of; rewrite Hmulti; reflexivity).
      rewrite Es in R. eapply nv_run_multi; eauto. }
  destruct Facts as (H' & A' & M' & Mks & Rd & Fr).
  pose proof Li as (_ & _ & _ & Hseq).
  destruct (naive_round_checks _ _ _ _ _ _ _ _ _ _ _ E SK_orders Hseq) as [_ Ck].
  assert (L' : wlen St w') by (destruct H' as (L1 & _); exact L1).
  destruct (exec_round_ok C Hscript anyops np e w' asgs Li L' M' Mks Rd) as (e2 & res & Ex & Li2 & X2 & _);
    [apply Forall_forall; intros; exact I|exact Fr|exact Ck|].
  exists s', w', asgs, e2, res. split; [exact E|]. split; [exact Ex|]. split; [exact Li2|].
  split; [eapply xsteps_hist; eauto|eapply xsteps_allpend; eauto].
Qed.

Lemma naive_multi_sim_tick np t s newp :
  nm_inv np s -> NoDup newp -> (forall p, In p newp -> ~ In p (map fst (sm_arrival s))) ->
  exists s' lg, sim_tick C ANaive t s newp = Ok (s', lg) /\ nm_inv np s' /\
                sm_arrival s' = sm_arrival s ++ map (fun p => (p, t)) newp.
Proof.
  intros (Li & H & A) N D.
  destruct (naive_multi_tick_ok np (sm_sched s) (sm_exec s) (sm_results s) newp Li H A)
    as (ss' & w' & asgs & e2 & res & E1 & E2 & Li2 & H2 & A2).
  unfold sim_tick. rewrite (record_arrivals_ok t newp (sm_arrival s) N D). cbn [bind sched_step].
  rewrite E1. cbn [bind]. rewrite E2. cbn [bind].
  eexists _, _. split; [reflexivity|]. cbn [sm_exec sm_arrival]. split; [|reflexivity].
  split; [exact Li2|]. split; assumption.
Qed.

Theorem naive_multi_runs_to_end np cpu ram arrivals :
  NoDup (concat arrivals) ->
  exists sf logs,
    sim_run C ANaive 0%Z (init_sim C np cpu ram) arrivals = (sf, logs, None) /\
    length logs = length arrivals.
Proof.
  intros Na.
  apply (sim_run_total_gen C ANaive (nm_inv np)).
  - intros t s newp. apply naive_multi_sim_tick.
  - split; [apply mloop_inv_init|]. cbn [init_sim sm_exec init_estate e_world]. split.
    + apply hist_ok_init.
    + intros k o o' _ _ _. apply st_of_init.
  - exact Na.
  - intros p _ [].
Qed.

End NaiveMulti.

(* naive with multi-operator containers, for every static description built by [mk_static] from
   well-formed DAGs: the run reaches its last tick *)
Corollary naive_multi_runs_to_end_mk_static C l np cpu ram arrivals :
  cf_static C = mk_static l -> dags_wf l ->
  (forall op c, cf_script C op c <> []) ->
  cf_multi C = true ->
  NoDup (concat arrivals) ->
  exists sf logs,
    sim_run C ANaive 0%Z (init_sim C np cpu ram) arrivals = (sf, logs, None) /\
    length logs = length arrivals.
Proof.
  intros E W Hs Hm Na. apply naive_multi_runs_to_end; auto; rewrite E.
  - apply static_ok_mk_static, W.
  - apply mk_static_ops_known, W.
  - apply mk_static_order_topo, W.
Qed.

(* ------------------------------------------------------------------------------------------ *)
(* M3. overbook with memory overcommit                                                          *)
(* ------------------------------------------------------------------------------------------ *)

Section Overbook.
Variable C : cfg.
Let St := cf_static C.
Hypothesis Hscript : forall op cpu, cf_script C op cpu <> [].
Hypothesis SK : static_ok St.
Hypothesis Hover : cf_overcommit C = true.

Let oneop : list nat -> Prop := fun l => length l = 1.

(* the queue of operators waiting for a free CPU: distinct operators, each still assignable and
   with completed parents *)
Definition ob_queue_ok (w : world) (q : list nat) : Prop :=
  NoDup q /\
  forall o, In o q -> o < length (w_st w) /\ assignable (st_of w o) = true /\
                      parents_complete St w o = true.

Lemma ob_results_ok : forall results proc fails,
  Forall (fun r => oneop (r_ops r)) results ->
  exists proc' fails', ob_results C results proc fails = Ok (proc', fails').
Proof.
  induction results as [|r t IH]; intros proc fails F; cbn [ob_results]; [eauto|].
  inversion F as [|? ? Fr Ft]; subst. unfold oneop in Fr.
  destruct (r_ops r) as [|op [|op2 l]]; cbn in Fr; try lia. apply IH. exact Ft.
Qed.

Lemma ob_enqueue_ok w : forall ops q,
  ob_queue_ok w q ->
  (forall o, In o ops -> o < length (w_st w) /\ assignable (st_of w o) = true /\
                         parents_complete St w o = true) ->
  ob_queue_ok w (ob_enqueue ops q).
Proof.
  induction ops as [|o t IH]; intros q Hq Ho; cbn [ob_enqueue]; [exact Hq|].
  destruct (memb o q) eqn:Mb.
  - apply IH; [exact Hq|]. intros x Hx. apply Ho. right. exact Hx.
  - apply IH; [|intros x Hx; apply Ho; right; exact Hx].
    destruct Hq as [Nd Hq]. apply memb_false in Mb. split.
    + apply ConserveFacts.NoDup_app_intro; [exact Nd|constructor; [intros []|constructor]|].
      intros x Hx [<-|[]]. contradiction.
    + intros x Hx. apply in_app_or in Hx. destruct Hx as [Hx|[<-|[]]]; [apply Hq, Hx|].
      apply Ho. left. reflexivity.
Qed.

Lemma ob_enqueue_all_ok w : forall proc q,
  wlen St w -> ob_queue_ok w q ->
  ob_queue_ok w (fold_left (fun q p => ob_enqueue (get_ops (S_of C) w p assignable true) q) proc q).
Proof.
  induction proc as [|p t IH]; intros q L Hq; cbn [fold_left]; [exact Hq|].
  apply IH; [exact L|]. apply ob_enqueue_ok; [exact Hq|].
  intros o Ho. apply get_ops_In in Ho. destruct Ho as (Io & Ao & Po).
  split; [|split; [exact Ao|apply Po; reflexivity]].
  unfold wlen in L. rewrite L. destruct SK as [_ SO]. destruct (SO _ _ Io) as (_ & R & _). exact R.
Qed.

Lemma ob_assign_total fails : forall queue w snap acc,
  wlen St w -> ob_queue_ok w queue -> NoDup (snap_ids snap) -> snap_pos snap ->
  exists q' w' news,
    ob_assign C w fails snap queue acc = Ok (q', w', acc ++ news) /\
    wlen St w' /\ mono_w w w' /\ ob_queue_ok w' q' /\
    mk_assignments C w news = Ok w' /\ Forall (masg_ready C w') news /\
    Forall (fun a => oneop (a_ops a)) news /\
    (forall x, assignable (st_of w x) = false -> st_of w' x = st_of w x).
Proof.
  induction queue as [|op rest IH]; intros w snap acc L Hq N P; cbn [ob_assign].
  - exists [], w, []. rewrite app_nil_r. split; [reflexivity|]. split; [exact L|].
    split; [apply mono_w_refl|]. split; [exact Hq|]. split; [reflexivity|].
    split; [constructor|]. split; [constructor|reflexivity].
  - destruct Hq as [Nd Hq]. inversion Nd as [|? ? No Nr]; subst.
    assert (Hq' : ob_queue_ok w rest).
    { split; [exact Nr|]. intros o Ho. apply Hq. right. exact Ho. }
    destruct (max_failures <=? _)%Z; [apply IH; assumption|].
    destruct (Hq op (or_introl eq_refl)) as (Lo & Ao & Po). rewrite Ao. cbn [negb].
    destruct (ob_find_pool snap) as [[[pid mr] snap']|] eqn:F.
    + destruct (ob_find_pool_spec _ _ _ _ F N) as (I1 & I2 & I3 & I4 & I5). destruct (I5 P) as [P' R].
      set (a := {| a_ops := [op]; a_cpu := 1%Z; a_ram := mr;
                   a_prio := prio_of_pipe C (op_pipe (S_of C) op); a_pool := Z.of_nat pid |}).
      destruct (ob_mk_assignment C w op mr (prio_of_pipe C (op_pipe (S_of C) op)) pid Ao R) as [w1 M].
      fold a in M. rewrite M. cbn [bind].
      pose proof M as M0. apply mk_assignment_transition_all in M0. destruct M0 as [_ T].
      cbn [a a_ops transition_all] in T. apply bind_ok_inv in T. destruct T as (w1' & T & Ew).
      inversion Ew; subst w1'. fold St in T.
      pose proof (transition_mono C _ _ _ _ T) as M1.
      assert (L1 : wlen St w1) by (unfold wlen; rewrite (transition_length _ _ _ _ _ T); exact L).
      assert (S1 : st_of w1 op = Assigned) by (apply (transition_st_same _ _ _ _ _ T Lo)).
      assert (Hq1 : ob_queue_ok w1 rest).
      { split; [exact Nr|]. intros o Ho. destruct (Hq o (or_intror Ho)) as (Lo' & Ao' & Po').
        assert (Ne : o <> op) by (intros ->; contradiction).
        split; [rewrite (transition_length _ _ _ _ _ T); exact Lo'|].
        split; [rewrite (transition_st_other _ _ _ _ _ _ T Ne); exact Ao'|].
        eapply parents_complete_mono; eauto. }
      assert (N' : NoDup (snap_ids snap')) by (rewrite I3; exact N).
      destruct (IH w1 snap' (acc ++ [a]) L1 Hq1 N' P')
        as (q' & w' & news & E' & L' & M' & Q' & Mks & Rd & On & Fr).
      exists q', w', (a :: news). rewrite <- app_assoc in E'. split; [exact E'|]. split; [exact L'|].
      split; [eapply mono_w_trans; eauto|]. split; [exact Q'|].
      split; [cbn [mk_assignments]; rewrite M; exact Mks|]. split; [|split].
      * constructor; [|exact Rd]. split; [exact R|]. cbn [a a_ops].
        assert (Ro : op < length (s_ops St)) by (unfold wlen in L; rewrite <- L; exact Lo).
        split; [constructor; [exact Ro|constructor]|].
        split; [discriminate|]. split; [constructor; [intros []|constructor]|]. split.
        -- constructor; [|constructor]. rewrite Fr; [exact S1|]. rewrite S1. reflexivity.
        -- apply chain_single. eapply parents_complete_mono; [|exact Po]. eapply mono_w_trans; eauto.
      * constructor; [reflexivity|exact On].
      * intros x Hx. pose proof (mk_assignment_frame _ _ _ _ x M Hx) as Fx.
        rewrite Fr; [exact Fx|]. rewrite Fx. exact Hx.
    + exists (op :: rest), w, []. rewrite app_nil_r. split; [reflexivity|]. split; [exact L|].
      split; [apply mono_w_refl|]. split; [split; assumption|]. split; [reflexivity|].
      split; [constructor|]. split; [constructor|reflexivity].
Qed.

Definition with_ob (s : sstate) (q : list nat) (fails : list (nat * Z)) : sstate :=
  {| ss_queue := q; ss_fail := fails; ss_q := ss_q s; ss_i := ss_i s; ss_b := ss_b s;
     ss_suspending := ss_suspending s; ss_requeued := ss_requeued s; ss_oom := ss_oom s |}.

Lemma overbook_step_total s e results newp :
  wlen St (e_world e) -> ob_queue_ok (e_world e) (ss_queue s) ->
  Forall (fun r => oneop (r_ops r)) results ->
  NoDup (map p_id (e_pools e)) -> (forall p, In p (e_pools e) -> Qleb (p_max_ram p) 0%Q = false) ->
  exists s' w' asgs,
    overbook_step C s e results newp = Ok (s', w', [], asgs) /\
    wlen St w' /\ mono_w (e_world e) w' /\ ob_queue_ok w' (ss_queue s') /\
    mk_assignments C (e_world e) asgs = Ok w' /\ Forall (masg_ready C w') asgs /\
    Forall (fun a => oneop (a_ops a)) asgs /\
    (forall x, assignable (st_of (e_world e) x) = false -> st_of w' x = st_of (e_world e) x).
Proof.
  intros L Hq Fr N P. unfold overbook_step. cbv zeta.
  assert (G : exists s' w' asgs,
            (do pf <- ob_results C results (fold_left (fun l p => add_absent p l) newp []) (ss_fail s);
             let '(proc, fails) := pf in
             let queue := fold_left (fun q p => ob_enqueue (get_ops (S_of C) (e_world e) p assignable true) q)
                                    proc (ss_queue s) in
             let snap := map (fun p => (p_id p, p_avail_cpu p, p_max_ram p)) (e_pools e) in
             do r <- ob_assign C (e_world e) fails snap queue [];
             let '(q', w', asgs) := r in
             Ok ({| ss_queue := q'; ss_fail := fails; ss_q := ss_q s; ss_i := ss_i s; ss_b := ss_b s;
                    ss_suspending := ss_suspending s; ss_requeued := ss_requeued s; ss_oom := ss_oom s |},
                 w', @nil susp, asgs)) = Ok (s', w', [], asgs) /\
            wlen St w' /\ mono_w (e_world e) w' /\ ob_queue_ok w' (ss_queue s') /\
            mk_assignments C (e_world e) asgs = Ok w' /\ Forall (masg_ready C w') asgs /\
            Forall (fun a => oneop (a_ops a)) asgs /\
            (forall x, assignable (st_of (e_world e) x) = false -> st_of w' x = st_of (e_world e) x)).
  { destruct (ob_results_ok results (fold_left (fun l p => add_absent p l) newp []) (ss_fail s) Fr)
      as (proc & fails & Er).
    rewrite Er. cbn [bind]. cbv zeta.
    pose proof (ob_enqueue_all_ok (e_world e) proc (ss_queue s) L Hq) as Hq2.
    change (map (fun p => (p_id p, p_avail_cpu p, p_max_ram p)) (e_pools e)) with (pool_snap (e_pools e)).
    destruct (ob_assign_total fails _ (e_world e) (pool_snap (e_pools e)) [] L Hq2)
      as (q' & w' & news & Ea & L' & M' & Q' & Mks & Rd & On & Frm).
    { rewrite pool_snap_ids. exact N. }
    { apply pool_snap_pos, P. }
    cbn [app] in Ea. rewrite Ea. cbn [bind].
    eexists _, w', news. split; [reflexivity|]. cbn [ss_queue].
    split; [exact L'|]. split; [exact M'|]. split; [exact Q'|]. split; [exact Mks|].
    split; [exact Rd|]. split; [exact On|exact Frm]. }
  destruct newp as [|p0 newp']; [destruct results as [|r0 results']|]; try exact G.
  exists s, (e_world e), []. split; [reflexivity|]. split; [exact L|]. split; [apply mono_w_refl|].
  split; [exact Hq|]. split; [reflexivity|]. split; [constructor|]. split; [constructor|reflexivity].
Qed.

Definition ob_inv (np : nat) (cpu : Z) (ram : Q) (s : sim) : Prop :=
  mloop_inv C oneop np (sm_exec s) /\ pools_std np cpu ram s /\
  ob_queue_ok (e_world (sm_exec s)) (ss_queue (sm_sched s)) /\
  Forall (fun r => oneop (r_ops r)) (sm_results s).

Lemma ob_queue_ok_xsteps w w' q : xsteps C w w' -> ob_queue_ok w q -> ob_queue_ok w' q.
Proof.
  intros X [Nd Hq]. split; [exact Nd|]. intros o Ho. destruct (Hq o Ho) as (Lo & Ao & Po).
  pose proof (xsteps_mono _ _ _ X) as M. split; [destruct M as [Lm _]; rewrite Lm; exact Lo|].
  split; [rewrite (xsteps_assignable_frame _ _ _ _ X Ao); exact Ao|].
  eapply parents_complete_mono; eauto.
Qed.

Lemma overbook_sim_tick np cpu ram t s newp :
  Qleb ram 0%Q = false ->
  ob_inv np cpu ram s -> NoDup newp -> (forall p, In p newp -> ~ In p (map fst (sm_arrival s))) ->
  exists s' lg, sim_tick C AOverbook t s newp = Ok (s', lg) /\ ob_inv np cpu ram s' /\
                sm_arrival s' = sm_arrival s ++ map (fun p => (p, t)) newp.
Proof.
  intros Rp (Li & Ps & Hq & Fr) N D.
  pose proof Li as ([L _] & _ & _ & Hseq). pose proof Ps as [_ Pm].
  destruct (overbook_step_total (sm_sched s) (sm_exec s) (sm_results s) newp L Hq Fr)
    as (ss' & w' & asgs & E1 & L' & M' & Q' & Mks & Rd & On & Frm).
  { eapply pools_seq_nodup; eauto. }
  { intros p Hp. rewrite Forall_forall in Pm. destruct (Pm p Hp) as [_ ->]. exact Rp. }
  destruct (overbook_round_checks _ _ _ _ _ _ _ _ _ _ E1 Hover Hseq) as [_ Ck].
  destruct (exec_round_ok C Hscript oneop np (sm_exec s) w' asgs Li L' M' Mks Rd On Frm Ck)
    as (e2 & res & E2 & Li2 & X2 & Qr).
  assert (Et : exists s1 lg, sim_tick C AOverbook t s newp = Ok (s1, lg) /\
                 sm_exec s1 = e2 /\ sm_sched s1 = ss' /\ sm_results s1 = res /\
                 sm_arrival s1 = sm_arrival s ++ map (fun p => (p, t)) newp).
  { unfold sim_tick. rewrite (record_arrivals_ok t newp (sm_arrival s) N D). cbn [bind sched_step].
    rewrite E1. cbn [bind]. rewrite E2. cbn [bind]. eexists _, _. split; [reflexivity|].
    cbn [sm_exec sm_sched sm_results sm_arrival]. repeat split; reflexivity. }
  destruct Et as (s1 & lg & Et & Ee & Es & Er & Ea).
  exists s1, lg. split; [exact Et|]. split; [|exact Ea]. unfold ob_inv. rewrite Ee, Es, Er.
  split; [exact Li2|]. split; [|split; [eapply ob_queue_ok_xsteps; eauto|exact Qr]].
  eapply sim_tick_pools_std; [exact Et|exact Ps].
Qed.

Theorem overbook_runs_to_end np cpu ram arrivals :
  Qleb ram 0%Q = false ->
  NoDup (concat arrivals) ->
  exists sf logs,
    sim_run C AOverbook 0%Z (init_sim C np cpu ram) arrivals = (sf, logs, None) /\
    length logs = length arrivals.
Proof.
  intros Rp Na.
  apply (sim_run_total_gen C AOverbook (ob_inv np cpu ram)).
  - intros t s newp. apply overbook_sim_tick. exact Rp.
  - split; [apply mloop_inv_init|]. split; [apply pools_std_init|].
    cbn [init_sim sm_exec sm_sched sm_results init_sstate ss_queue]. split; [|constructor].
    split; [constructor|intros ? []].
  - exact Na.
  - intros p _ [].
Qed.

End Overbook.

(* overbook with memory overcommit and positive pool RAM, for every static description built by
   [mk_static] from well-formed DAGs: the run reaches its last tick (in particular the scheduler's
   own assertion never fires) *)
Corollary overbook_runs_to_end_mk_static C l np cpu ram arrivals :
  cf_static C = mk_static l -> dags_wf l ->
  (forall op c, cf_script C op c <> []) ->
  cf_overcommit C = true -> Qleb ram 0%Q = false ->
  NoDup (concat arrivals) ->
  exists sf logs,
    sim_run C AOverbook 0%Z (init_sim C np cpu ram) arrivals = (sf, logs, None) /\
    length logs = length arrivals.
Proof.
  intros E W Hs Ho Rp Na. apply overbook_runs_to_end; auto. rewrite E.
  apply static_ok_mk_static, W.
Qed.

(* naive and the starter template, any container mode *)
Corollary naive_any_mode_runs_to_end_mk_static C l (starter : bool) np cpu ram arrivals :
  cf_static C = mk_static l -> dags_wf l ->
  (forall op c, cf_script C op c <> []) ->
  NoDup (concat arrivals) ->
  exists sf logs,
    sim_run C (if starter then AStarter else ANaive) 0%Z (init_sim C np cpu ram) arrivals
    = (sf, logs, None) /\ length logs = length arrivals.
Proof.
  intros E W Hs Na. destruct starter.
  - apply (single_mode_runs_to_end_mk_static C l true); auto.
  - destruct (cf_multi C) eqn:M.
    + eapply naive_multi_runs_to_end_mk_static; eauto.
    + apply (single_mode_runs_to_end_mk_static C l false); auto. cbn. rewrite M. reflexivity.
Qed.

(* ------------------------------------------------------------------------------------------ *)
(* Examples                                                                                     *)
(* ------------------------------------------------------------------------------------------ *)
Module ClosedLoopExamples.

(* pipeline 0: operators 0 -> 1, {0,1} -> 2 (a chain with a join); pipeline 1: operators 3, 4
   (independent); operator 3 needs 9 GB in its only tick, everything else 1 GB for two ticks *)
Definition exl : list (prio * dag) := [(Query, [[]; [0]; [0; 1]]); (Batch, [[]; []])].
Definition exC : cfg :=
  {| cf_static := mk_static exl;
     cf_script := fun op _ => if Nat.eqb op 3 then [9%Q] else [1%Q; 1%Q];
     cf_tps := 10%Z; cf_overcommit := true; cf_multi := true; cf_rnd := fun x => x |}.
Definition ex_arrivals : list (list nat) := [[0]; [1]; []; []; []; []; []; []; []; []; []; []].

Lemma ex_dags_wf : dags_wf exl.
Proof.
  unfold dags_wf, exl.
  apply Forall_cons; [|apply Forall_cons; [|apply Forall_nil]];
    cbn [snd]; intros j Hj; cbn [length] in Hj;
    (destruct j as [|[|[|j]]]; try lia); cbn;
    (split; [repeat constructor; cbn; intuition lia | intros p Hp; intuition lia]).
Qed.

Lemma ex_script : forall op c, cf_script exC op c <> [].
Proof. intros op c. cbn. destruct (Nat.eqb op 3); discriminate. Qed.

Lemma ex_arrivals_nodup : NoDup (concat ex_arrivals).
Proof. cbn. repeat constructor; cbn; intuition discriminate. Qed.

Definition good_multi (r : result) : bool := negb (r_err r) && Nat.leb 2 (length (r_ops r)).

(* naive with multi-operator containers, two pools of 4 CPUs / 8 GB: the run reaches its last tick,
   the container holding the whole pipeline 0 (three operators) completes without error, the one
   holding pipeline 1 is killed (operator 3 exceeds the container's RAM) and is not retried *)
Example ex_naive_multi_run :
  let '(sf, logs, er) := sim_run exC ANaive 0%Z (init_sim exC 2 4%Z 8%Q) ex_arrivals in
  er = None /\
  map r_ops (filter good_multi (flat_map tl_results logs)) = [[0; 1; 2]] /\
  map r_ops (filter r_err (flat_map tl_results logs)) = [[3; 4]] /\
  map (st_of (e_world (sm_exec sf))) [0; 1; 2; 3; 4] = [Completed; Completed; Completed; Failed; Failed] /\
  sm_nasg sf = 2%Z /\ sm_nfail sf = 1%Z.
Proof. vm_compute. repeat split. Qed.

(* the closed-loop theorem applies to it *)
Example ex_naive_multi_total :
  exists sf logs,
    sim_run exC ANaive 0%Z (init_sim exC 2 4%Z 8%Q) ex_arrivals = (sf, logs, None) /\ length logs = 12.
Proof.
  apply (naive_multi_runs_to_end_mk_static exC exl).
  - reflexivity.
  - apply ex_dags_wf.
  - apply ex_script.
  - reflexivity.
  - apply ex_arrivals_nodup.
Qed.

(* overbook with overcommit on one pool with a single CPU: operators wait in the scheduler's queue
   for the CPU, operator 3 is retried until its pipeline has failed three times, and the run
   reaches its last tick *)
Definition ex_arrivals_ob : list (list nat) := [[0; 1]] ++ repeat [] 19.

Example ex_overbook_run :
  let '(sf, logs, er) := sim_run exC AOverbook 0%Z (init_sim exC 1 1%Z 8%Q) ex_arrivals_ob in
  er = None /\
  map r_ops (filter r_err (flat_map tl_results logs)) = [[3]; [3]; [3]] /\
  map (st_of (e_world (sm_exec sf))) [0; 1; 2; 3] = [Completed; Completed; Completed; Failed] /\
  sm_nfail sf = 3%Z.
Proof. vm_compute. repeat split. Qed.

Example ex_overbook_total :
  exists sf logs,
    sim_run exC AOverbook 0%Z (init_sim exC 1 1%Z 8%Q) ex_arrivals_ob = (sf, logs, None) /\
    length logs = 20.
Proof.
  apply (overbook_runs_to_end_mk_static exC exl).
  - reflexivity.
  - apply ex_dags_wf.
  - apply ex_script.
  - reflexivity.
  - reflexivity.
  - cbn. repeat constructor; cbn; intuition discriminate.
Qed.

End ClosedLoopExamples.

Print Assumptions naive_multi_runs_to_end_mk_static.
Print Assumptions overbook_runs_to_end_mk_static.
Print Assumptions naive_any_mode_runs_to_end_mk_static.
