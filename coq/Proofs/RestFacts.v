(* C19: facts about the REST scheduler model (Model/Rest.v).
   A. list / dict helpers;  B. one step;  C. whole runs (indexing, invariants);
   D. the call rule and the poll clock;  E. the reply codec and parsing;  F. serialisation hides needs. *)
From Coq Require Import ZArith QArith List Bool Arith Lia Lqa.
Import ListNotations.
From Eudoxia Require Import Num.Rnd64 Model.Types Model.Lifecycle Model.Rest Proofs.OomFacts.
Close Scope Q_scope.
Close Scope Z_scope.


(* ---------------------------------------------------------------------------------------------- *)
(* A. helpers *)

Lemma memZ_In x l : memZ x l = true <-> In x l.
Proof.
  unfold memZ. rewrite existsb_exists. split.
  - intros [y [Hy E]]. apply Z.eqb_eq in E. subst. exact Hy.
  - intros H. exists x. split; [exact H | apply Z.eqb_refl].
Qed.

Lemma memZ_false x l : memZ x l = false <-> ~ In x l.
Proof.
  rewrite <- memZ_In. destruct (memZ x l); split; intros; congruence.
Qed.

Lemma NoDup_app_iff {A} (a b : list A) :
  NoDup (a ++ b) <-> NoDup a /\ NoDup b /\ (forall x, In x a -> ~ In x b).
Proof.
  induction a as [|h t IH]; simpl.
  - split.
    + intros H. split; [constructor | split; [exact H | intros x []]].
    + intros [_ [H _]]. exact H.
  - split.
    + intros H. inversion H as [|? ? Hn Ht]; subst. apply IH in Ht. destruct Ht as [Ha [Hb Hd]].
      split; [|split].
      * constructor; [|exact Ha]. intros C. apply Hn. apply in_or_app. left. exact C.
      * exact Hb.
      * intros x [E|Hx].
        -- subst. intros C. apply Hn. apply in_or_app. right. exact C.
        -- apply Hd. exact Hx.
    + intros [Ha [Hb Hd]]. inversion Ha as [|? ? Hn Ht]; subst. constructor.
      * intros C. apply in_app_or in C. destruct C as [C|C]; [exact (Hn C)|].
        exact (Hd h (or_introl eq_refl) C).
      * apply IH. split; [exact Ht | split; [exact Hb|]]. intros x Hx. apply Hd. right. exact Hx.
Qed.

Lemma map_fst_filter (g : Z -> bool) (l : list pipe) :
  map fst (filter (fun p => g (fst p)) l) = filter g (map fst l).
Proof.
  induction l as [|h t IH]; simpl; [reflexivity|].
  destruct (g (fst h)); simpl; rewrite IH; reflexivity.
Qed.

Lemma map_fst_view succ (l : list pipe) : map fst (map (view succ) l) = map fst l.
Proof. induction l as [|h t IH]; simpl; [reflexivity|]. rewrite IH. reflexivity. Qed.

Lemma dict_set_fresh d k v : ~ In k (map fst d) -> dict_set d k v = d ++ [(k, v)].
Proof.
  induction d as [|[k' v'] t IH]; simpl; intros H; [reflexivity|].
  destruct (Z.eqb_spec k' k) as [E|E].
  - exfalso. apply H. left. exact E.
  - rewrite IH; [reflexivity|]. intros C. apply H. right. exact C.
Qed.

Lemma dict_set_keys d k v x : In x (map fst (dict_set d k v)) -> In x (map fst d) \/ x = k.
Proof.
  induction d as [|[k' v'] t IH]; simpl.
  - intros [E|[]]. right. symmetry. exact E.
  - destruct (Z.eqb_spec k' k) as [E|E]; simpl.
    + intros [H|H]; [right; symmetry; exact H | left; right; exact H].
    + intros [H|H]; [left; left; exact H|]. destruct (IH H) as [H'|H']; [left; right; exact H' | right; exact H'].
Qed.

Lemma merge_keys new : forall other x,
  In x (map fst (merge other new)) -> In x (map fst other) \/ In x (map fst new).
Proof.
  unfold merge. induction new as [|p t IH]; simpl; intros other x H; [left; exact H|].
  apply IH in H. destruct H as [H|H]; [|right; right; exact H].
  apply dict_set_keys in H. destruct H as [H|H]; [left; exact H | right; left; symmetry; exact H].
Qed.

Lemma merge_fresh new : forall other,
  NoDup (map fst other ++ map fst new) -> merge other new = other ++ new.
Proof.
  unfold merge. induction new as [|[k v] t IH]; simpl; intros other H.
  - rewrite app_nil_r. reflexivity.
  - assert (Hk : ~ In k (map fst other)).
    { apply NoDup_app_iff in H. destruct H as [_ [_ Hd]]. intros C. exact (Hd k C (or_introl eq_refl)). }
    rewrite (dict_set_fresh _ _ _ Hk). rewrite IH.
    + rewrite <- app_assoc. reflexivity.
    + rewrite map_app, <- app_assoc. simpl. exact H.
Qed.

Lemma NoDup_filter_app (g : Z -> bool) (k r : list Z) : NoDup (k ++ r) -> NoDup (filter g k ++ r).
Proof.
  intros H. apply NoDup_app_iff in H. destruct H as [Hk [Hr Hd]]. apply NoDup_app_iff.
  split; [apply NoDup_filter; exact Hk | split; [exact Hr|]].
  intros x Hx. apply filter_In in Hx. apply Hd. apply Hx.
Qed.

Lemma skipn_add {A} : forall b (l : list A) a, skipn a (skipn b l) = skipn (b + a) l.
Proof.
  induction b as [|b IH]; intros l a; [reflexivity|].
  destruct l; simpl; [destruct a; reflexivity|]. apply IH.
Qed.

Lemma nth_error_In_some {A} (l : list A) k x : nth_error l k = Some x -> In x l.
Proof. apply nth_error_In. Qed.

(* ---------------------------------------------------------------------------------------------- *)
(* B. one step *)

Section Step.
Variables (rnd : Q -> Q) (tps : Z) (poll : Q).

Definition events (i : tick_in) : Prop := ti_new i <> [] \/ ti_nres i <> 0.

Lemma is_nil_true {A} (l : list A) : is_nil l = true <-> l = [].
Proof. destruct l; simpl; split; intros; congruence. Qed.

Lemma early_return_iff st i :
  early_return rnd tps poll st i = true <->
  ti_new i = [] /\ ti_nres i = 0 /\
  (since_of rnd (now_of rnd tps (rs_tick st + 1)%Z) (rs_last st) < poll)%Q.
Proof.
  unfold early_return. rewrite !andb_true_iff, is_nil_true, Nat.eqb_eq, Qltb_true. tauto.
Qed.

Lemma step_skip st i :
  early_return rnd tps poll st i = true ->
  rest_step rnd tps poll st i = (mkrs (rs_tick st + 1)%Z (rs_last st) (rs_other st) (rs_lookup st), None).
Proof. intros H. unfold rest_step. rewrite H. reflexivity. Qed.

Lemma step_call st i :
  early_return rnd tps poll st i = false ->
  exists other2 lookup2,
    rest_step rnd tps poll st i =
      (mkrs (rs_tick st + 1)%Z (now_of rnd tps (rs_tick st + 1)%Z) other2 lookup2,
       Some (mkpl (rs_tick st + 1)%Z (now_of rnd tps (rs_tick st + 1)%Z) (ti_nres i)
                  (map (view (ti_succ i)) (ti_new i)) (map (view (ti_succ i)) (rs_other st)))) /\
    other2 = filter (fun p => negb (memZ (fst p) (ti_succ i))) (merge (rs_other st) (ti_new i)).
Proof. intros H. unfold rest_step. rewrite H. eexists. eexists. split; reflexivity. Qed.

(* a request is sent iff something arrived, something finished, or NOT (time_since_last < poll) *)
Lemma step_call_iff st i :
  (exists p, snd (rest_step rnd tps poll st i) = Some p) <->
  (events i \/ ~ (since_of rnd (now_of rnd tps (rs_tick st + 1)%Z) (rs_last st) < poll)%Q).
Proof.
  destruct (early_return rnd tps poll st i) eqn:E.
  - rewrite (step_skip _ _ E). simpl. apply early_return_iff in E. destruct E as [E1 [E2 E3]].
    unfold events. split.
    + intros [p Hp]. discriminate.
    + intros [[H|H]|H]; [exfalso; exact (H E1) | exfalso; exact (H E2) | exfalso; exact (H E3)].
  - destruct (step_call _ _ E) as [o2 [l2 [Hs _]]]. rewrite Hs. simpl. split.
    + intros _. unfold events.
      destruct (ti_new i) eqn:En; [|left; left; congruence].
      destruct (ti_nres i) eqn:Er; [|left; right; congruence].
      right. intros C. assert (early_return rnd tps poll st i = true); [|congruence].
      apply early_return_iff. auto.
    + intros _. eexists. reflexivity.
Qed.

Lemma step_tick st i : rs_tick (fst (rest_step rnd tps poll st i)) = (rs_tick st + 1)%Z.
Proof.
  destruct (early_return rnd tps poll st i) eqn:E.
  - rewrite (step_skip _ _ E). reflexivity.
  - destruct (step_call _ _ E) as [o2 [l2 [Hs _]]]. rewrite Hs. reflexivity.
Qed.

Lemma step_payload st i p :
  snd (rest_step rnd tps poll st i) = Some p ->
  pl_tick p = (rs_tick st + 1)%Z /\ pl_time p = now_of rnd tps (rs_tick st + 1)%Z /\
  pl_nres p = ti_nres i /\
  new_ids p = map fst (ti_new i) /\ other_ids p = map fst (rs_other st) /\
  pl_new p = map (view (ti_succ i)) (ti_new i) /\ pl_other p = map (view (ti_succ i)) (rs_other st) /\
  rs_last (fst (rest_step rnd tps poll st i)) = pl_time p.
Proof.
  destruct (early_return rnd tps poll st i) eqn:E.
  - rewrite (step_skip _ _ E). simpl. discriminate.
  - destruct (step_call _ _ E) as [o2 [l2 [Hs _]]]. rewrite Hs. simpl. intros H. inversion H; subst; clear H.
    unfold new_ids, other_ids. simpl. rewrite !map_fst_view. repeat split; reflexivity.
Qed.

Lemma step_none st i :
  snd (rest_step rnd tps poll st i) = None ->
  ti_new i = [] /\ ti_nres i = 0 /\
  rs_last (fst (rest_step rnd tps poll st i)) = rs_last st /\
  rs_other (fst (rest_step rnd tps poll st i)) = rs_other st /\
  rs_lookup (fst (rest_step rnd tps poll st i)) = rs_lookup st.
Proof.
  destruct (early_return rnd tps poll st i) eqn:E.
  - rewrite (step_skip _ _ E). simpl. intros _. apply early_return_iff in E. tauto.
  - destruct (step_call _ _ E) as [o2 [l2 [Hs _]]]. rewrite Hs. simpl. discriminate.
Qed.

(* keys of other_pipelines after a step come from before or from the arrivals *)
Lemma step_other_keys st i x :
  In x (map fst (rs_other (fst (rest_step rnd tps poll st i)))) ->
  In x (map fst (rs_other st)) \/ In x (map fst (ti_new i)).
Proof.
  destruct (early_return rnd tps poll st i) eqn:E.
  - rewrite (step_skip _ _ E). simpl. auto.
  - destruct (step_call _ _ E) as [o2 [l2 [Hs Ho]]]. rewrite Hs. simpl. subst o2.
    rewrite (map_fst_filter (fun k => negb (memZ k (ti_succ i)))). intros H. apply filter_In in H.
    apply merge_keys. apply H.
Qed.

(* what the update removes: exactly the successful ones *)
Lemma step_removes_successful st i p x :
  snd (rest_step rnd tps poll st i) = Some p -> In x (ti_succ i) ->
  ~ In x (map fst (rs_other (fst (rest_step rnd tps poll st i)))).
Proof.
  destruct (early_return rnd tps poll st i) eqn:E.
  - rewrite (step_skip _ _ E). simpl. discriminate.
  - destruct (step_call _ _ E) as [o2 [l2 [Hs Ho]]]. rewrite Hs. simpl. subst o2. intros _ Hx.
    rewrite (map_fst_filter (fun k => negb (memZ k (ti_succ i)))). intros H. apply filter_In in H.
    destruct H as [_ H]. apply negb_true_iff in H. apply memZ_false in H. exact (H Hx).
Qed.

(* ... and nothing else (given fresh ids): a known or new pipeline that is not successful stays known *)
Lemma step_keeps_unsuccessful st i p x :
  NoDup (map fst (rs_other st) ++ map fst (ti_new i)) ->
  snd (rest_step rnd tps poll st i) = Some p ->
  In x (map fst (rs_other st) ++ map fst (ti_new i)) -> ~ In x (ti_succ i) ->
  In x (map fst (rs_other (fst (rest_step rnd tps poll st i)))).
Proof.
  intros Hnd.
  destruct (early_return rnd tps poll st i) eqn:E.
  - rewrite (step_skip _ _ E). simpl. discriminate.
  - destruct (step_call _ _ E) as [o2 [l2 [Hs Ho]]]. rewrite Hs. simpl. subst o2. intros _ Hx Hn.
    rewrite (map_fst_filter (fun k => negb (memZ k (ti_succ i)))). apply filter_In. split.
    + rewrite (merge_fresh _ _ Hnd), map_app. exact Hx.
    + apply negb_true_iff. apply memZ_false. exact Hn.
Qed.

Lemma complete_ids_spec p x :
  In x (complete_ids p) <-> In (x, true) (pl_new p ++ pl_other p).
Proof.
  unfold complete_ids. rewrite in_map_iff. split.
  - intros [[y b] [E H]]. apply filter_In in H. simpl in *. destruct H as [H Hb]. subst. exact H.
  - intros H. exists (x, true). split; [reflexivity|]. apply filter_In. split; [exact H | reflexivity].
Qed.

Lemma view_true_in succ (l : list pipe) x : In (x, true) (map (view succ) l) -> In x (map fst l) /\ In x succ.
Proof.
  rewrite in_map_iff. intros [q [E H]]. unfold view in E. inversion E; subst. split.
  - apply in_map. exact H.
  - apply memZ_In. assumption.
Qed.

Lemma view_in succ (l : list pipe) x b : In (x, b) (map (view succ) l) -> b = memZ x succ.
Proof. rewrite in_map_iff. intros [q [E H]]. unfold view in E. inversion E; subst. reflexivity. Qed.

(* a pipeline shown complete was known or new, and successful *)
Lemma step_complete st i p x :
  snd (rest_step rnd tps poll st i) = Some p -> In x (complete_ids p) ->
  In x (map fst (rs_other st) ++ map fst (ti_new i)) /\ In x (ti_succ i).
Proof.
  intros Hp Hx. destruct (step_payload _ _ _ Hp) as [_ [_ [_ [_ [_ [Hn [Ho _]]]]]]].
  apply complete_ids_spec in Hx. rewrite Hn, Ho in Hx. apply in_app_or in Hx.
  destruct Hx as [Hx|Hx]; apply view_true_in in Hx; destruct Hx as [H1 H2]; (split; [|exact H2]);
    apply in_or_app; [right|left]; exact H1.
Qed.

(* the invariant: known ids and future arrivals are pairwise distinct *)
Lemma step_inv st i rest :
  NoDup (map fst (rs_other st) ++ map fst (ti_new i) ++ rest) ->
  NoDup (map fst (rs_other (fst (rest_step rnd tps poll st i))) ++ rest).
Proof.
  intros H.
  destruct (early_return rnd tps poll st i) eqn:E.
  - rewrite (step_skip _ _ E). simpl. apply early_return_iff in E. destruct E as [E _]. rewrite E in H. exact H.
  - destruct (step_call _ _ E) as [o2 [l2 [Hs Ho]]]. rewrite Hs. simpl. subst o2.
    rewrite (map_fst_filter (fun k => negb (memZ k (ti_succ i)))).
    apply NoDup_filter_app. rewrite merge_fresh.
    + rewrite map_app, <- app_assoc. exact H.
    + rewrite app_assoc in H. apply NoDup_app_iff in H. apply H.
Qed.

End Step.

(* ---------------------------------------------------------------------------------------------- *)
(* C. runs *)

Section Run.
Variables (rnd : Q -> Q) (tps : Z) (poll : Q).
Notation step := (rest_step rnd tps poll).
Notation run := (rest_run rnd tps poll).

Definition state_from (st : rs) (ins : list tick_in) (k : nat) : rs := snd (run st (firstn k ins)).

Lemma run_cons st i t :
  run st (i :: t) = (snd (step st i) :: fst (run (fst (step st i)) t), snd (run (fst (step st i)) t)).
Proof.
  simpl. destruct (step st i) as [st1 o]. simpl. destruct (run st1 t) as [os stn]. reflexivity.
Qed.

Lemma state_from_0 st ins : state_from st ins 0 = st.
Proof. reflexivity. Qed.

Lemma state_from_S st i t k : state_from st (i :: t) (S k) = state_from (fst (step st i)) t k.
Proof. unfold state_from. simpl firstn. rewrite run_cons. reflexivity. Qed.

Lemma run_nth : forall ins st k o,
  nth_error (fst (run st ins)) k = Some o ->
  exists i, nth_error ins k = Some i /\ o = snd (step (state_from st ins k) i).
Proof.
  induction ins as [|i t IH]; intros st k o H.
  - destruct k; discriminate.
  - rewrite run_cons in H. simpl in H. destruct k as [|k]; simpl in H.
    + inversion H; subst. exists i. split; reflexivity.
    + apply IH in H. destruct H as [i' [H1 H2]]. exists i'. split; [exact H1|].
      rewrite state_from_S. exact H2.
Qed.

Lemma run_nth_rev : forall ins st k i,
  nth_error ins k = Some i ->
  nth_error (fst (run st ins)) k = Some (snd (step (state_from st ins k) i)).
Proof.
  induction ins as [|i0 t IH]; intros st k i H.
  - destruct k; discriminate.
  - rewrite run_cons. simpl. destruct k as [|k]; simpl in *.
    + inversion H; subst. reflexivity.
    + rewrite state_from_S. apply IH. exact H.
Qed.

Lemma state_from_step : forall ins st k i,
  nth_error ins k = Some i -> state_from st ins (S k) = fst (step (state_from st ins k) i).
Proof.
  induction ins as [|i0 t IH]; intros st k i H.
  - destruct k; discriminate.
  - destruct k as [|k]; simpl in H.
    + inversion H; subst. rewrite state_from_S. reflexivity.
    + rewrite !state_from_S. apply IH. exact H.
Qed.

Lemma run_length : forall ins st, length (fst (run st ins)) = length ins.
Proof.
  induction ins as [|i t IH]; intros st; [reflexivity|]. rewrite run_cons. simpl. rewrite IH. reflexivity.
Qed.

Lemma skipn_nth {A} : forall (l : list A) k x, nth_error l k = Some x -> skipn k l = x :: skipn (S k) l.
Proof.
  induction l as [|h t IH]; intros k x H; destruct k; simpl in *; try discriminate.
  - inversion H. reflexivity.
  - apply IH. exact H.
Qed.

Lemma state_tick : forall ins st k, k <= length ins ->
  rs_tick (state_from st ins k) = (rs_tick st + Z.of_nat k)%Z.
Proof.
  intros ins st k. revert ins st. induction k as [|k IH]; intros ins st H.
  - rewrite state_from_0. lia.
  - destruct ins as [|i t]; simpl in H; [lia|]. rewrite state_from_S, IH by lia. rewrite step_tick. lia.
Qed.

(* the invariant along a run *)
Definition inv (st : rs) (ins : list tick_in) : Prop := NoDup (map fst (rs_other st) ++ arrivals ins).

Lemma inv_state : forall k ins st, inv st ins -> inv (state_from st ins k) (skipn k ins).
Proof.
  induction k as [|k IH]; intros ins st H; [exact H|].
  destruct ins as [|i t]; [exact H|]. rewrite state_from_S. simpl skipn. apply IH.
  unfold inv in *. simpl in H. apply step_inv. exact H.
Qed.

(* once an id is neither known nor among the future arrivals, it never shows up again *)
Lemma gone_forever : forall k ins st x,
  ~ In x (map fst (rs_other st)) -> ~ In x (arrivals ins) ->
  ~ In x (map fst (rs_other (state_from st ins k))) /\ ~ In x (arrivals (skipn k ins)).
Proof.
  induction k as [|k IH]; intros ins st x H1 H2; [split; assumption|].
  destruct ins as [|i t]; [split; assumption|]. rewrite state_from_S. simpl skipn.
  simpl in H2. apply IH.
  - intros C. apply step_other_keys in C. destruct C as [C|C]; [exact (H1 C)|].
    apply H2. apply in_or_app. left. exact C.
  - intros C. apply H2. apply in_or_app. right. exact C.
Qed.

Lemma state_from_add : forall a ins st b,
  state_from st ins (a + b) = state_from (state_from st ins a) (skipn a ins) b.
Proof.
  induction a as [|a IH]; intros ins st b; [reflexivity|].
  destruct ins as [|i t].
  - unfold state_from. simpl. rewrite !firstn_nil. reflexivity.
  - simpl plus. rewrite !state_from_S. simpl skipn. apply IH.
Qed.

Lemma nth_error_skipn {A} : forall a (l : list A) b, nth_error (skipn a l) b = nth_error l (a + b).
Proof.
  induction a as [|a IH]; intros l b; [reflexivity|]. destruct l; simpl; [destruct b; reflexivity|]. apply IH.
Qed.

End Run.

(* ---------------------------------------------------------------------------------------------- *)
(* theorems about [outs] (runs from the initial state) *)

Section Outs.
Variables (rnd : Q -> Q) (tps : Z) (poll : Q).
Notation O := (outs rnd tps poll).
Notation SB := (state_before rnd tps poll).

Lemma state_before_from ins k : SB ins k = state_from rnd tps poll rs_init ins k.
Proof. reflexivity. Qed.

Lemma outs_nth ins k p :
  nth_error (O ins) k = Some (Some p) ->
  exists i, nth_error ins k = Some i /\ snd (rest_step rnd tps poll (SB ins k) i) = Some p.
Proof.
  intros H. apply run_nth in H. destruct H as [i [H1 H2]]. exists i. split; [exact H1|].
  rewrite state_before_from. symmetry. exact H2.
Qed.

Lemma outs_nth_none ins k :
  nth_error (O ins) k = Some None ->
  exists i, nth_error ins k = Some i /\ snd (rest_step rnd tps poll (SB ins k) i) = None.
Proof.
  intros H. apply run_nth in H. destruct H as [i [H1 H2]]. exists i. split; [exact H1|].
  rewrite state_before_from. symmetry. exact H2.
Qed.

Lemma inv_before ins k : NoDup (arrivals ins) -> inv (SB ins k) (skipn k ins).
Proof. intros H. rewrite state_before_from. apply inv_state. exact H. Qed.

Lemma arrivals_skipn_cons ins k i :
  nth_error ins k = Some i -> arrivals (skipn k ins) = map fst (ti_new i) ++ arrivals (skipn (S k) ins).
Proof. intros H. rewrite (skipn_nth _ _ _ H). reflexivity. Qed.

(* new_pipelines and other_pipelines of a request are disjoint *)
Theorem new_other_disjoint ins k p x :
  NoDup (arrivals ins) ->
  nth_error (O ins) k = Some (Some p) ->
  In x (new_ids p) -> ~ In x (other_ids p).
Proof.
  intros Hf Hk Hx Ho. destruct (outs_nth _ _ _ Hk) as [i [Hi Hp]].
  destruct (step_payload _ _ _ _ _ _ Hp) as [_ [_ [_ [Hn [Hoo _]]]]].
  pose proof (inv_before ins k Hf) as Hinv. unfold inv in Hinv.
  rewrite (arrivals_skipn_cons _ _ _ Hi) in Hinv. rewrite app_assoc in Hinv.
  apply NoDup_app_iff in Hinv. destruct Hinv as [Hinv _]. apply NoDup_app_iff in Hinv.
  destruct Hinv as [_ [_ Hd]]. rewrite Hoo in Ho. rewrite Hn in Hx. exact (Hd x Ho Hx).
Qed.

(* both lists are duplicate-free *)
Theorem new_other_nodup ins k p :
  NoDup (arrivals ins) ->
  nth_error (O ins) k = Some (Some p) -> NoDup (other_ids p ++ new_ids p).
Proof.
  intros Hf Hk. destruct (outs_nth _ _ _ Hk) as [i [Hi Hp]].
  destruct (step_payload _ _ _ _ _ _ Hp) as [_ [_ [_ [Hn [Hoo _]]]]].
  pose proof (inv_before ins k Hf) as Hinv. unfold inv in Hinv.
  rewrite (arrivals_skipn_cons _ _ _ Hi) in Hinv. rewrite app_assoc in Hinv.
  apply NoDup_app_iff in Hinv. destruct Hinv as [Hinv _]. rewrite Hoo, Hn. exact Hinv.
Qed.

(* a pipeline reported complete in the request of tick k+1 is in no later request at all *)
Theorem complete_reported_once ins k p x :
  NoDup (arrivals ins) ->
  nth_error (O ins) k = Some (Some p) -> In x (complete_ids p) ->
  forall j q, k < j -> nth_error (O ins) j = Some (Some q) ->
    ~ In x (new_ids q) /\ ~ In x (other_ids q).
Proof.
  intros Hf Hk Hx j q Hlt Hj.
  destruct (outs_nth _ _ _ Hk) as [i [Hi Hp]].
  destruct (step_complete _ _ _ _ _ _ _ Hp Hx) as [Hin Hs].
  (* after the step: not known, and not among future arrivals *)
  assert (G1 : ~ In x (map fst (rs_other (SB ins (S k))))).
  { rewrite state_before_from, (state_from_step _ _ _ _ _ _ _ Hi), <- state_before_from.
    exact (step_removes_successful _ _ _ _ _ _ _ Hp Hs). }
  assert (G2 : ~ In x (arrivals (skipn (S k) ins))).
  { pose proof (inv_before ins k Hf) as Hinv. unfold inv in Hinv.
    rewrite (arrivals_skipn_cons _ _ _ Hi), app_assoc in Hinv. apply NoDup_app_iff in Hinv.
    destruct Hinv as [_ [_ Hd]]. exact (Hd x Hin). }
  destruct (outs_nth _ _ _ Hj) as [ij [Hij Hq]].
  destruct (step_payload _ _ _ _ _ _ Hq) as [_ [_ [_ [Hn [Ho _]]]]].
  replace j with (S k + (j - S k)) in * by lia.
  destruct (gone_forever rnd tps poll (j - S k) (skipn (S k) ins) (SB ins (S k)) x G1 G2) as [F1 F2].
  rewrite state_before_from, <- state_from_add, <- state_before_from in F1.
  split.
  - rewrite Hn. intros C. apply F2. rewrite skipn_add.
    rewrite (arrivals_skipn_cons _ _ _ Hij). apply in_or_app. left. exact C.
  - rewrite Ho. exact F1.
Qed.

(* hence: shown complete in at most one request *)
Theorem complete_at_most_once ins k j p q x :
  NoDup (arrivals ins) ->
  nth_error (O ins) k = Some (Some p) -> nth_error (O ins) j = Some (Some q) ->
  In x (complete_ids p) -> In x (complete_ids q) -> k = j.
Proof.
  intros Hf Hk Hj Hp Hq.
  assert (L : forall a b pa pb, a < b -> nth_error (O ins) a = Some (Some pa) ->
              nth_error (O ins) b = Some (Some pb) -> In x (complete_ids pa) -> In x (complete_ids pb) -> False).
  { intros a b pa pb Hlt Ha Hb Hxa Hxb.
    destruct (complete_reported_once ins a pa x Hf Ha Hxa b pb Hlt Hb) as [N1 N2].
    apply complete_ids_spec in Hxb. apply in_app_or in Hxb. destruct Hxb as [H|H].
    - apply N1. unfold new_ids. apply (in_map fst) in H. exact H.
    - apply N2. unfold other_ids. apply (in_map fst) in H. exact H. }
  destruct (Nat.lt_trichotomy k j) as [H|[H|H]]; [exfalso; eauto | exact H | exfalso; eauto].
Qed.

(* nothing is dropped silently: a pipeline listed in a request and not shown complete there is listed
   (as other) in the next request, whenever that is *)
Theorem listed_until_complete ins k p x :
  NoDup (arrivals ins) ->
  nth_error (O ins) k = Some (Some p) -> In x (new_ids p ++ other_ids p) -> ~ In x (complete_ids p) ->
  forall j q, k < j -> nth_error (O ins) j = Some (Some q) ->
    (forall m, k < m < j -> nth_error (O ins) m = Some None) ->
    In x (other_ids q).
Proof.
  intros Hf Hk Hx Hnc j q Hlt Hj Hnone.
  destruct (outs_nth _ _ _ Hk) as [i [Hi Hp]].
  destruct (step_payload _ _ _ _ _ _ Hp) as [_ [_ [_ [Hn [Ho [Hpn [Hpo _]]]]]]].
  pose proof (inv_before ins k Hf) as Hinv. unfold inv in Hinv.
  rewrite (arrivals_skipn_cons _ _ _ Hi), app_assoc in Hinv. apply NoDup_app_iff in Hinv.
  destruct Hinv as [Hnd _].
  assert (Hx' : In x (map fst (rs_other (SB ins k)) ++ map fst (ti_new i))).
  { rewrite Hn, Ho in Hx. apply in_app_or in Hx. apply in_or_app. tauto. }
  assert (Hns : ~ In x (ti_succ i)).
  { intros C. apply Hnc. apply complete_ids_spec. rewrite Hpn, Hpo.
    apply in_app_or in Hx'. apply in_or_app. destruct Hx' as [H|H]; [right|left];
      apply in_map_iff in H; destruct H as [pp [E H]]; apply in_map_iff; exists pp;
      (split; [|exact H]); unfold view; rewrite E; f_equal; apply memZ_In; exact C. }
  assert (G : In x (map fst (rs_other (SB ins (S k))))).
  { rewrite state_before_from, (state_from_step _ _ _ _ _ _ _ Hi), <- state_before_from.
    exact (step_keeps_unsuccessful _ _ _ _ _ _ _ Hnd Hp Hx' Hns). }
  (* silent ticks keep other_pipelines *)
  assert (K : forall d, S k + d <= j -> rs_other (SB ins (S k + d)) = rs_other (SB ins (S k))).
  { induction d as [|d IHd]; intros Hle; [rewrite Nat.add_0_r; reflexivity|].
    assert (Hm : k < S k + d < j) by lia. specialize (Hnone _ Hm).
    destruct (outs_nth_none _ _ Hnone) as [im [Him Hsn]].
    replace (S k + S d) with (S (S k + d)) by lia.
    rewrite state_before_from, (state_from_step _ _ _ _ _ _ _ Him), <- state_before_from.
    destruct (step_none _ _ _ _ _ Hsn) as [_ [_ [_ [Hoth _]]]]. rewrite Hoth. apply IHd. lia. }
  destruct (outs_nth _ _ _ Hj) as [ij [Hij Hq]].
  destruct (step_payload _ _ _ _ _ _ Hq) as [_ [_ [_ [_ [Hoq _]]]]].
  rewrite Hoq. replace j with (S k + (j - S k)) by lia. rewrite K by lia. exact G.
Qed.

(* every arrival is announced as new in the request of its own tick *)
Theorem arrival_announced ins k i :
  nth_error ins k = Some i -> ti_new i <> [] ->
  exists p, nth_error (O ins) k = Some (Some p) /\ new_ids p = map fst (ti_new i).
Proof.
  intros Hi Hne. unfold outs. rewrite (run_nth_rev _ _ _ _ _ _ _ Hi).
  assert (C : exists p, snd (rest_step rnd tps poll (state_from rnd tps poll rs_init ins k) i) = Some p).
  { apply step_call_iff. left. left. exact Hne. }
  destruct C as [p Hp]. exists p. rewrite Hp. split; [reflexivity|].
  destruct (step_payload _ _ _ _ _ _ Hp) as [_ [_ [_ [Hn _]]]]. exact Hn.
Qed.

(* ---------------------------------------------------------------------------------------------- *)
(* D. the call rule *)

Lemma last_time_app os o :
  last_time (os ++ [o]) = match o with Some p => pl_time p | None => last_time os end.
Proof. unfold last_time. rewrite fold_left_app. simpl. destruct o; reflexivity. Qed.

Lemma firstn_S_nth {A} : forall (l : list A) k x, nth_error l k = Some x -> firstn (S k) l = firstn k l ++ [x].
Proof.
  induction l as [|h t IH]; intros k x H; destruct k; simpl in *; try discriminate.
  - inversion H. reflexivity.
  - f_equal. apply IH. exact H.
Qed.

(* s.last_call_sim_time is the sim time of the most recent request (0.0 before the first) *)
Lemma last_is_last_time ins : forall k, k <= length ins ->
  rs_last (SB ins k) = last_time (firstn k (O ins)).
Proof.
  induction k as [|k IH]; intros Hle; [reflexivity|].
  destruct (nth_error ins k) as [i|] eqn:Hi; [|apply nth_error_None in Hi; lia].
  pose proof (run_nth_rev rnd tps poll ins rs_init k i Hi) as Hn. fold (O ins) in Hn.
  rewrite (firstn_S_nth _ _ _ Hn), last_time_app.
  rewrite state_before_from, (state_from_step _ _ _ _ _ _ _ Hi), <- state_before_from.
  rewrite <- state_before_from in Hn.
  destruct (snd (rest_step rnd tps poll (SB ins k) i)) as [p|] eqn:Hs.
  - destruct (step_payload _ _ _ _ _ _ Hs) as [_ [_ [_ [_ [_ [_ [_ Hl]]]]]]]. exact Hl.
  - destruct (step_none _ _ _ _ _ Hs) as [_ [_ [Hl _]]]. rewrite Hl. apply IH. lia.
Qed.

Lemma tick_before ins k : k <= length ins -> rs_tick (SB ins k) = Z.of_nat k.
Proof. intros H. rewrite state_before_from, state_tick by exact H. reflexivity. Qed.

(* a request is sent in tick k+1 iff something arrived, or something finished, or
   NOT (time_since_last < poll_interval), with the float operations of the code *)
Theorem call_iff ins k i :
  nth_error ins k = Some i ->
  ((exists p, nth_error (O ins) k = Some (Some p)) <->
   (ti_new i <> [] \/ ti_nres i <> 0 \/
    ~ (since_of rnd (now_of rnd tps (Z.of_nat k + 1)%Z) (last_time (firstn k (O ins))) < poll)%Q)).
Proof.
  intros Hi. assert (Hle : k <= length ins).
  { apply Nat.lt_le_incl. apply nth_error_Some. congruence. }
  unfold outs at 1. rewrite (run_nth_rev _ _ _ _ _ _ _ Hi). rewrite <- state_before_from.
  rewrite <- last_is_last_time by exact Hle. rewrite <- (tick_before ins k Hle).
  pose proof (step_call_iff rnd tps poll (SB ins k) i) as S. unfold events in S.
  split.
  - intros [p Hp]. inversion Hp as [Hp']. assert (E : exists p, snd (rest_step rnd tps poll (SB ins k) i) = Some p) by eauto.
    apply S in E. tauto.
  - intros H. assert (E : exists p, snd (rest_step rnd tps poll (SB ins k) i) = Some p) by (apply S; tauto).
    destruct E as [p Hp]. exists p. rewrite Hp. reflexivity.
Qed.

(* the request of tick k+1 carries tick = k+1 and sim_time = the float (k+1)/tps *)
Theorem payload_clock ins k p :
  nth_error (O ins) k = Some (Some p) ->
  pl_tick p = (Z.of_nat k + 1)%Z /\ pl_time p = now_of rnd tps (Z.of_nat k + 1)%Z.
Proof.
  intros Hk. destruct (outs_nth _ _ _ Hk) as [i [Hi Hp]].
  assert (Hle : k <= length ins). { apply Nat.lt_le_incl. apply nth_error_Some. congruence. }
  destruct (step_payload _ _ _ _ _ _ Hp) as [H1 [H2 _]]. rewrite (tick_before ins k Hle) in *. tauto.
Qed.

End Outs.

(* exact arithmetic: between two consecutive requests, the later of which was not triggered by an arrival
   or a result, at least poll_interval simulated seconds pass *)
Theorem poll_gap_exact tps poll ins k j p q i :
  k < j ->
  nth_error (outs (fun x => x) tps poll ins) k = Some (Some p) ->
  nth_error (outs (fun x => x) tps poll ins) j = Some (Some q) ->
  (forall m, k < m < j -> nth_error (outs (fun x => x) tps poll ins) m = Some None) ->
  nth_error ins j = Some i -> ti_new i = [] -> ti_nres i = 0 ->
  (poll <= pl_time q - pl_time p)%Q /\
  (pl_time q - pl_time p == inject_Z (Z.of_nat j - Z.of_nat k) / inject_Z tps)%Q.
Proof.
  intros Hlt Hk Hj Hnone Hi Hn Hr.
  set (rnd := fun x : Q => x) in *.
  assert (Hle : j <= length ins). { apply Nat.lt_le_incl. apply nth_error_Some. congruence. }
  (* last call time before tick j+1 is p's *)
  assert (L : forall d, S k + d <= j -> last_time (firstn (S k + d) (outs rnd tps poll ins)) = pl_time p).
  { induction d as [|d IHd]; intros Hd.
    - rewrite Nat.add_0_r, (firstn_S_nth _ _ _ Hk), last_time_app. reflexivity.
    - replace (S k + S d) with (S (S k + d)) by lia.
      assert (Hm : k < S k + d < j) by lia. specialize (Hnone _ Hm).
      rewrite (firstn_S_nth _ _ _ Hnone), last_time_app. apply IHd. lia. }
  specialize (L (j - S k)). replace (S k + (j - S k)) with j in L by lia. specialize (L (le_n _)).
  pose proof (call_iff rnd tps poll ins j i Hi) as C. destruct C as [C _].
  specialize (C (ex_intro _ q Hj)). rewrite L in C.
  destruct (payload_clock rnd tps poll ins j q Hj) as [_ Tq].
  destruct (payload_clock rnd tps poll ins k p Hk) as [_ Tp].
  destruct C as [C|[C|C]]; [congruence | congruence |].
  unfold since_of in C. rewrite <- Tq in C. unfold rnd in C. cbv beta in C. split.
  - apply Qnot_lt_le. exact C.
  - rewrite Tq, Tp. unfold now_of, rnd. cbv beta. unfold Z.sub.
    rewrite !inject_Z_plus, inject_Z_opp. unfold Qdiv. ring.
Qed.

(* exact arithmetic: the first request that is not triggered by an event comes no earlier than poll_interval *)
Theorem first_poll_exact tps poll ins j q i :
  nth_error (outs (fun x => x) tps poll ins) j = Some (Some q) ->
  (forall m, m < j -> nth_error (outs (fun x => x) tps poll ins) m = Some None) ->
  nth_error ins j = Some i -> ti_new i = [] -> ti_nres i = 0 ->
  (poll <= pl_time q)%Q.
Proof.
  intros Hj Hnone Hi Hn Hr.
  set (rnd := fun x : Q => x) in *.
  assert (L : forall d, d <= j -> last_time (firstn d (outs rnd tps poll ins)) = 0%Q).
  { induction d as [|d IHd]; intros Hd; [reflexivity|].
    assert (Hm : d < j) by lia. specialize (Hnone _ Hm).
    rewrite (firstn_S_nth _ _ _ Hnone), last_time_app. apply IHd. lia. }
  specialize (L j (le_n _)).
  pose proof (call_iff rnd tps poll ins j i Hi) as C. destruct C as [C _].
  specialize (C (ex_intro _ q Hj)). rewrite L in C.
  destruct (payload_clock rnd tps poll ins j q Hj) as [_ Tq].
  destruct C as [C|[C|C]]; [congruence | congruence |].
  unfold since_of in C. rewrite <- Tq in C. unfold rnd in C. cbv beta in C. apply Qnot_lt_le in C.
  assert (E : (pl_time q - 0 == pl_time q)%Q) by ring. rewrite E in C. exact C.
Qed.

(* exact arithmetic, the other direction: when poll_interval has passed since the last request, one is sent *)
Theorem poll_due_exact tps poll ins k i :
  nth_error ins k = Some i ->
  (poll <= inject_Z (Z.of_nat k + 1) / inject_Z tps - last_time (firstn k (outs (fun x => x) tps poll ins)))%Q ->
  exists p, nth_error (outs (fun x => x) tps poll ins) k = Some (Some p).
Proof.
  intros Hi H. apply (call_iff (fun x => x) tps poll ins k i Hi). right. right.
  unfold since_of, now_of. apply Qle_not_lt. exact H.
Qed.

(* ---------------------------------------------------------------------------------------------- *)
(* E. the reply *)

Lemma wrep_enc {A} (enc : A -> list Z) (d : wdec A)
  (H : forall a rest, d (enc a ++ rest) = Some (a, rest)) :
  forall l rest, wrep (length l) d (flat_map enc l ++ rest) = Some (l, rest).
Proof.
  induction l as [|a t IH]; intros rest; simpl; [reflexivity|].
  rewrite <- app_assoc, H, IH. reflexivity.
Qed.

Lemma wlist_enc {A} (enc : A -> list Z) (d : wdec A)
  (H : forall a rest, d (enc a ++ rest) = Some (a, rest)) :
  forall l rest, wlist d (enc_list enc l ++ rest) = Some (l, rest).
Proof.
  intros l rest. unfold wlist, enc_list. simpl.
  destruct (Z.leb_spec 0 (Z.of_nat (length l))) as [_|C]; [|lia].
  rewrite Nat2Z.id. apply wrep_enc. exact H.
Qed.

Lemma wZ_enc a rest : wZ ([a] ++ rest) = Some (a, rest).
Proof. reflexivity. Qed.

Lemma wbool_enc b rest : wbool (enc_bool b :: rest) = Some (b, rest).
Proof. destruct b; reflexivity. Qed.

Lemma wQ_enc q rest : wQ (enc_Q q ++ rest) = Some (q, rest).
Proof.
  destruct q as [n d]. unfold wQ, enc_Q. simpl. rewrite Pos2Z.id || idtac.
  reflexivity.
Qed.

Lemma wsusp_enc s rest : wsusp (enc_susp s ++ rest) = Some (s, rest).
Proof. destruct s. reflexivity. Qed.

Lemma wasg_enc a rest : wasg (enc_asg a ++ rest) = Some (a, rest).
Proof.
  destruct a as [ops cpu ram pr pool re fo]. unfold wasg, enc_asg. simpl as_ops. simpl as_cpu. simpl as_ram.
  simpl as_prio. simpl as_pool. simpl as_resume. simpl as_force.
  rewrite <- !app_assoc. rewrite (wlist_enc (fun x => [x]) wZ wZ_enc).
  rewrite wQ_enc, wQ_enc. destruct re, fo; reflexivity.
Qed.

Theorem decode_encode r : decode_reply (encode_reply r) = Some r.
Proof.
  destruct r as [ss aa]. unfold decode_reply, encode_reply. simpl rp_susp. simpl rp_asg.
  rewrite (wlist_enc enc_susp wsusp wsusp_enc).
  rewrite <- (app_nil_r (enc_list enc_asg aa)). rewrite (wlist_enc enc_asg wasg wasg_enc). reflexivity.
Qed.

(* parsing changes nothing: every field of every decision object is the field of the reply *)
Lemma parse_assignment_same tab a o : parse_assignment tab a = inr o -> same_decision a o.
Proof.
  unfold parse_assignment. destruct (forallb _ (as_ops a)); [|discriminate].
  destruct (prio_named (as_prio a)) as [pr|] eqn:Ep; [|discriminate].
  destruct (as_ops a) as [|o1 t] eqn:Eo; [discriminate|].
  destruct (lookup_pipe tab o1); [|discriminate].
  destruct (Qltb 0 (as_cpu a) && Qltb 0 (as_ram a)); [|discriminate].
  intros H. inversion H; subst; clear H. unfold same_decision. simpl.
  repeat split; try reflexivity; try (symmetry; exact Eo).
  unfold prio_named in Ep.
  destruct (Z.eqb_spec (as_prio a) 1); [inversion Ep; subst; simpl; congruence|].
  destruct (Z.eqb_spec (as_prio a) 2); [inversion Ep; subst; simpl; congruence|].
  destruct (Z.eqb_spec (as_prio a) 3); [inversion Ep; subst; simpl; congruence|]. discriminate.
Qed.

Theorem parse_assignments_same tab : forall l os,
  parse_assignments tab l = inr os -> Forall2 same_decision l os.
Proof.
  induction l as [|a t IH]; intros os H; simpl in H.
  - inversion H. constructor.
  - destruct (parse_assignment tab a) as [e|o] eqn:Ea; [discriminate|].
    destruct (parse_assignments tab t) as [e|os'] eqn:Et; [discriminate|].
    inversion H; subst. constructor; [exact (parse_assignment_same _ _ _ Ea) | apply IH; reflexivity].
Qed.

Theorem parse_assignments_pipeline tab : forall l os,
  parse_assignments tab l = inr os ->
  Forall (fun o => exists op, hd_error (ao_ops o) = Some op /\ lookup_pipe tab op = Some (ao_pipeline o)) os.
Proof.
  induction l as [|a t IH]; intros os H; simpl in H.
  - inversion H. constructor.
  - destruct (parse_assignment tab a) as [e|o] eqn:Ea; [discriminate|].
    destruct (parse_assignments tab t) as [e|os'] eqn:Et; [discriminate|].
    inversion H; subst. constructor; [|apply IH; reflexivity].
    unfold parse_assignment in Ea. destruct (forallb _ (as_ops a)); [|discriminate].
    destruct (prio_named (as_prio a)); [|discriminate].
    destruct (as_ops a) as [|o1 t1]; [discriminate|].
    destruct (lookup_pipe tab o1) eqn:El; [|discriminate].
    destruct (Qltb 0 (as_cpu a) && Qltb 0 (as_ram a)); [|discriminate].
    inversion Ea; subst. simpl. exists o1. split; [reflexivity | exact El].
Qed.

Theorem parse_suspensions_same l :
  map (fun s => (so_container s, so_pool s)) (parse_suspensions l) = map (fun s => (su_container s, su_pool s)) l.
Proof. unfold parse_suspensions. rewrite map_map. reflexivity. Qed.

(* ---------------------------------------------------------------------------------------------- *)
(* F. what is serialised does not depend on the resource needs *)

Theorem payload_hides_needs f p : pipe_to_dict (with_needs f p) = pipe_to_dict p.
Proof.
  destruct p as [id pr arr ops]. unfold pipe_to_dict, with_needs. simpl.
  assert (C : forall a, count_state a (map (fun o => {| ot_id := ot_id o; ot_state := ot_state o;
                 ot_parent_states := ot_parent_states o; ot_needs := f (ot_id o) |}) ops) = count_state a ops).
  { intros a. unfold count_state. induction ops as [|o t IH]; simpl; [reflexivity|].
    destruct (ostate_eqb (ot_state o) a); simpl; rewrite IH; reflexivity. }
  rewrite !C, map_length, map_map. f_equal.
Qed.
