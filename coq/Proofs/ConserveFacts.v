(* C03: conservation of CPU and RAM in every pool, for every configuration (arbitrary scripts,
   arbitrary rounding function), every command batch and every reachable executor state. *)
From Coq Require Import ZArith QArith Qabs List Bool Arith Lia Lqa Permutation.
Import ListNotations.
Close Scope Q_scope.
From Eudoxia Require Import Num.Rnd64 Model.Types Model.Dag Model.Lifecycle Model.Container
  Model.Pool Model.Executor Proofs.ListFacts.

(* ---------- the statements ---------- *)

Definition live (p : pool) : list container := p_active p ++ p_suspending p.
Definition cpu_conserved (p : pool) : Prop :=
  (p_avail_cpu p + sumZ (map c_cpu (live p)) = p_max_cpu p)%Z.
Definition ram_conserved (p : pool) : Prop :=
  (p_avail_ram p + sumQ (map c_ram (live p)) == p_max_ram p)%Q.

(* ---------- inversion of the error monad ---------- *)

Lemma bind_ok_inv {A B} (r : res A) (f : A -> res B) b :
  bind r f = Ok b -> exists a, r = Ok a /\ f a = Ok b.
Proof. destruct r as [a|e]; cbn; intros H; [eauto | discriminate]. Qed.

Ltac inv_bind H x E :=
  apply bind_ok_inv in H; destruct H as [x [E H]]; cbv beta in H.

(* ---------- sums ---------- *)

Lemma sumZ_app l1 l2 : sumZ (l1 ++ l2) = (sumZ l1 + sumZ l2)%Z.
Proof. induction l1 as [|x t IH]; cbn [sumZ app]; [reflexivity | rewrite IH; lia]. Qed.

Lemma sumQ_app l1 l2 : (sumQ (l1 ++ l2) == sumQ l1 + sumQ l2)%Q.
Proof. induction l1 as [|x t IH]; cbn [sumQ app]; [lra | rewrite IH; lra]. Qed.

Lemma sumZ_perm l1 l2 : Permutation l1 l2 -> sumZ l1 = sumZ l2.
Proof. induction 1; cbn [sumZ]; lia. Qed.

Lemma sumQ_perm l1 l2 : Permutation l1 l2 -> (sumQ l1 == sumQ l2)%Q.
Proof.
  induction 1 as [|x l l' _ IH|x y l|l l' l'' _ IH1 _ IH2]; cbn [sumQ].
  - lra.
  - rewrite IH; lra.
  - lra.
  - rewrite IH1; exact IH2.
Qed.

Lemma fold_ram_sum (l : list container) : forall a,
  (fold_left (fun a c => (a + c_ram c)%Q) l a == a + sumQ (map c_ram l))%Q.
Proof.
  induction l as [|c t IH]; intros a; cbn [fold_left map sumQ]; [lra|].
  rewrite IH. lra.
Qed.

Lemma sumZ_nonneg l : Forall (fun z => (0 <= z)%Z) l -> (0 <= sumZ l)%Z.
Proof. induction 1; cbn [sumZ]; lia. Qed.

Lemma sumQ_nonneg l : Forall (fun q => (0 <= q)%Q) l -> (0 <= sumQ l)%Q.
Proof. induction 1; cbn [sumQ]; lra. Qed.

(* ---------- lists ---------- *)

Lemma filter_perm {A} (P : A -> bool) (l : list A) :
  Permutation l (filter P l ++ filter (fun x => negb (P x)) l).
Proof.
  induction l as [|x t IH]; cbn [filter]; [constructor|].
  destruct (P x); cbn [negb app].
  - constructor; exact IH.
  - apply Permutation_cons_app; exact IH.
Qed.

Lemma filter_all {A} (P : A -> bool) (l : list A) :
  (forall x, In x l -> P x = true) -> filter P l = l.
Proof.
  induction l as [|x t IH]; intros H; cbn [filter]; [reflexivity|].
  rewrite (H x (or_introl eq_refl)). f_equal. apply IH. intros y Hy. apply H. right; exact Hy.
Qed.

Lemma filter_incl' {A} (P : A -> bool) (l : list A) : incl (filter P l) l.
Proof. intros x Hx. apply filter_In in Hx. tauto. Qed.

Lemma NoDup_map_filter {A B} (f : A -> B) (P : A -> bool) l :
  NoDup (map f l) -> NoDup (map f (filter P l)).
Proof.
  induction l as [|x t IH]; cbn [map filter]; intros H; [constructor|].
  inversion H as [|y l' Hn Hd]; subst.
  destruct (P x); cbn [map]; [|auto].
  constructor; [|auto]. intros Hin. apply Hn.
  apply in_map_iff in Hin. destruct Hin as [z [Hz Hin]]. apply filter_In in Hin.
  apply in_map_iff. exists z. tauto.
Qed.

Lemma NoDup_app_intro {A} (l1 l2 : list A) :
  NoDup l1 -> NoDup l2 -> (forall x, In x l1 -> ~ In x l2) -> NoDup (l1 ++ l2).
Proof.
  induction l1 as [|x t IH]; cbn [app]; intros H1 H2 Hd; [exact H2|].
  inversion H1 as [|y l' Hn Hd1]; subst. constructor.
  - intros Hin. apply in_app_or in Hin. destruct Hin as [Hin|Hin]; [contradiction|].
    apply (Hd x (or_introl eq_refl)). exact Hin.
  - apply IH; auto. intros y Hy. apply Hd. right; exact Hy.
Qed.

Lemma NoDup_app_inv {A} (l1 l2 : list A) :
  NoDup (l1 ++ l2) -> NoDup l1 /\ NoDup l2 /\ (forall x, In x l1 -> ~ In x l2).
Proof.
  induction l1 as [|x t IH]; cbn [app]; intros H.
  - split; [constructor|]. split; [exact H|]. intros x [].
  - inversion H as [|y l' Hn Hd]; subst. destruct (IH Hd) as [I1 [I2 I3]].
    split; [|split].
    + constructor; [|exact I1]. intros Hin. apply Hn. apply in_or_app. left; exact Hin.
    + exact I2.
    + intros y [->|Hy]; [|auto]. intros Hin. apply Hn. apply in_or_app. right; exact Hin.
Qed.

(* ---------- the resource key of a container: what no phase ever changes ---------- *)

Definition rkey : Type := (nat * Z * Q)%type.
Definition key (c : container) : rkey := (c_id c, c_cpu c, c_ram c).
Definition kid (k : rkey) : nat := fst (fst k).
Definition kcpu (k : rkey) : Z := snd (fst k).
Definition kram (k : rkey) : Q := snd k.
Definition keys (l : list container) : list rkey := map key l.

Lemma keys_app l1 l2 : keys (l1 ++ l2) = keys l1 ++ keys l2.
Proof. apply map_app. Qed.
Lemma ids_keys l : map c_id l = map kid (keys l).
Proof. unfold keys. rewrite map_map. reflexivity. Qed.
Lemma cpus_keys l : map c_cpu l = map kcpu (keys l).
Proof. unfold keys. rewrite map_map. reflexivity. Qed.
Lemma rams_keys l : map c_ram l = map kram (keys l).
Proof. unfold keys. rewrite map_map. reflexivity. Qed.

Lemma key_id c c' : key c' = key c -> c_id c' = c_id c.
Proof. unfold key. intros H. inversion H. reflexivity. Qed.

Lemma key_tick_elapsed c : key (tick_elapsed c) = key c.
Proof. reflexivity. Qed.
Lemma key_with_pos c i r f s : key (with_pos c i r f s) = key c.
Proof. reflexivity. Qed.
Lemma key_with_susp c l : key (with_susp c l) = key c.
Proof. reflexivity. Qed.
Lemma set_mem_key C c cons m c1 cons1 : set_mem C c cons m = (c1, cons1) -> key c1 = key c.
Proof. unfold set_mem. intros H. inversion H. reflexivity. Qed.
Lemma mark_completed_key C c cons e c1 cons1 :
  mark_completed C c cons e = (c1, cons1) -> key c1 = key c.
Proof.
  unfold mark_completed. destruct (set_mem C c cons 0%Q) as [c0 cons0] eqn:E.
  apply set_mem_key in E. intros H. inversion H. subst. exact E.
Qed.

Lemma csuspend_key C w c w' c' : csuspend C w c = Ok (w', c') -> key c' = key c.
Proof.
  unfold csuspend. intros H. inv_bind H w1 E. inversion H. reflexivity.
Qed.

Lemma csuspend_tick_key C w c w' c' : csuspend_tick C w c = Ok (w', c') -> key c' = key c.
Proof.
  unfold csuspend_tick. cbv zeta. destruct (c_susp_left c - 1 =? 0)%Z; intros H.
  - inv_bind H w1 E. inversion H. reflexivity.
  - inversion H. reflexivity.
Qed.

Lemma ckill_key C w cons c w' cons' c' : ckill C w cons c = Ok (w', cons', c') -> key c' = key c.
Proof.
  unfold ckill. destruct (c_completed c); [discriminate|]. intros H.
  inv_bind H w1 E. destruct (mark_completed C c cons true) as [c1 cons1] eqn:M.
  apply mark_completed_key in M. inversion H. subst. exact M.
Qed.

Lemma ctick_key C w cons c w' cons' c' : ctick C w cons c = Ok (w', cons', c') -> key c' = key c.
Proof.
  unfold ctick. destruct (c_completed c); [intros H; inversion H; reflexivity|].
  destruct (c_frozen c); [intros H; inversion H; reflexivity|].
  destruct (nth_error (c_ops c) (c_opidx c)) as [op|]; [|discriminate].
  intros H. inv_bind H wr E. destruct wr as [w1 rest].
  destruct rest as [|m rest']; [discriminate|].
  destruct (set_mem C c cons m) as [c1 cons1] eqn:Sm. apply set_mem_key in Sm.
  destruct (Qltb (c_ram c) m).
  - inversion H. subst. rewrite key_tick_elapsed, key_with_pos. exact Sm.
  - destruct rest' as [|m' rest''].
    + inv_bind H w2 E2. destruct (Nat.eqb (S (c_opidx c)) (length (c_ops c))).
      * destruct (mark_completed C (with_pos c1 (S (c_opidx c)) None false false) cons1 false)
          as [c2 cons2] eqn:M.
        apply mark_completed_key in M. inversion H. subst.
        rewrite key_tick_elapsed, M, key_with_pos. exact Sm.
      * inversion H. subst. rewrite key_tick_elapsed, key_with_pos. exact Sm.
    + inversion H. subst. rewrite key_tick_elapsed, key_with_pos. exact Sm.
Qed.

(* ---------- phases 3, 4, 5: ticking and killing never change a key ---------- *)

Lemma tick_suspending_keys C : forall sing w w' sing',
  tick_suspending C w sing = Ok (w', sing') -> keys sing' = keys sing.
Proof.
  induction sing as [|c t IH]; intros w w' sing' H; cbn [tick_suspending] in H.
  - inversion H. reflexivity.
  - inv_bind H wc E. destruct wc as [w1 c1].
    inv_bind H wt E2. destruct wt as [w2 t2]. inversion H. subst.
    cbn [keys map]. f_equal.
    + eapply csuspend_tick_key; eauto.
    + eapply IH; eauto.
Qed.

Lemma tick_active_keys C : forall act w cons w' cons' act',
  tick_active C w cons act = Ok (w', cons', act') -> keys act' = keys act.
Proof.
  induction act as [|c t IH]; intros w cons w' cons' act' H; cbn [tick_active] in H.
  - inversion H. reflexivity.
  - inv_bind H r E. destruct r as [[w1 cons1] c1].
    inv_bind H rt E2. destruct rt as [[w2 cons2] t2]. inversion H. subst.
    cbn [keys map]. f_equal.
    + eapply ctick_key; eauto.
    + eapply IH; eauto.
Qed.

Lemma kill_over_limit_keys C : forall act w cons w' cons' act',
  kill_over_limit C w cons act = Ok (w', cons', act') -> keys act' = keys act.
Proof.
  induction act as [|c t IH]; intros w cons w' cons' act' H; cbn [kill_over_limit] in H.
  - inversion H. reflexivity.
  - inv_bind H r E. destruct r as [[w1 cons1] c1].
    inv_bind H rt E2. destruct rt as [[w2 cons2] t2]. inversion H. subst.
    cbn [keys map]. f_equal.
    + destruct (Qltb (c_ram c) (c_mem c)).
      * eapply ckill_key; eauto.
      * inversion E. reflexivity.
    + eapply IH; eauto.
Qed.

Lemma find_container_some cid l c :
  find_container cid l = Some c -> In c l /\ c_id c = cid.
Proof.
  unfold find_container. intros H. apply find_some in H. destruct H as [H1 H2].
  apply Nat.eqb_eq in H2. auto.
Qed.

Lemma replace_container_keys c c' cid : forall l,
  find_container cid l = Some c -> key c' = key c ->
  keys (replace_container c' l) = keys l.
Proof.
  intros l F K. pose proof (find_container_some _ _ _ F) as [_ Hid].
  pose proof (key_id _ _ K) as Hid'.
  revert F. induction l as [|x t IH]; intros F; [discriminate|].
  unfold find_container in F. cbn [find] in F. cbn [replace_container].
  destruct (Nat.eqb (c_id x) cid) eqn:Ex.
  - inversion F. subst x. rewrite Hid', Nat.eqb_refl. cbn [keys map]. rewrite K. reflexivity.
  - rewrite Hid', Hid, Ex. cbn [keys map]. f_equal. apply IH. exact F.
Qed.

Lemma kill_until_fits_keys C mx : forall order w cons act w' cons' act',
  kill_until_fits C mx w cons act order = Ok (w', cons', act') -> keys act' = keys act.
Proof.
  induction order as [|cid t IH]; intros w cons act w' cons' act' H; cbn [kill_until_fits] in H.
  - inversion H. reflexivity.
  - destruct (Qleb cons mx); [inversion H; reflexivity|].
    destruct (find_container cid act) as [c|] eqn:F; [|discriminate].
    inv_bind H r E. destruct r as [[w1 cons1] c1].
    apply IH in H. rewrite H. eapply replace_container_keys; eauto. eapply ckill_key; eauto.
Qed.

Lemma oom_killer_keys C mx w cons act w' cons' act' :
  oom_killer C mx w cons act = Ok (w', cons', act') -> keys act' = keys act.
Proof.
  unfold oom_killer. intros H. inv_bind H r E. destruct r as [[w1 cons1] act1].
  apply kill_over_limit_keys in E.
  destruct (Qleb cons1 mx).
  - inversion H. subst. exact E.
  - apply kill_until_fits_keys in H. congruence.
Qed.

(* ---------- phase 1: a suspension moves one container from active to suspending ---------- *)

Lemma find_remove_perm cid : forall l c,
  NoDup (map c_id l) -> find_container cid l = Some c ->
  Permutation l (c :: remove_container cid l).
Proof.
  induction l as [|x t IH]; intros c N F; [discriminate|].
  unfold find_container in F. cbn [find] in F.
  unfold remove_container. cbn [filter]. cbn [map] in N.
  inversion N as [|y l' Hn Hd]; subst.
  destruct (Nat.eqb (c_id x) cid) eqn:Ex; cbn [negb].
  - inversion F. subst x. apply Nat.eqb_eq in Ex.
    rewrite filter_all; [reflexivity|].
    intros y Hy. destruct (Nat.eqb (c_id y) cid) eqn:Ey; [|reflexivity].
    exfalso. apply Hn. apply Nat.eqb_eq in Ey. rewrite Ex, <- Ey. apply in_map. exact Hy.
  - eapply perm_trans; [apply perm_skip; apply (IH c Hd F)|]. apply perm_swap.
Qed.

Lemma apply_suspends_perm C : forall ss w act sing w' act' sing',
  NoDup (map c_id act) ->
  apply_suspends C w act sing ss = Ok (w', act', sing') ->
  Permutation (keys (act' ++ sing')) (keys (act ++ sing)).
Proof.
  induction ss as [|s t IH]; intros w act sing w' act' sing' N H; cbn [apply_suspends] in H.
  - inversion H. subst. reflexivity.
  - destruct (find_container (su_cid s) act) as [c|] eqn:F; [|discriminate].
    inv_bind H wc E. destruct wc as [w1 c1]. apply csuspend_key in E.
    apply IH in H; [|apply NoDup_map_filter; exact N].
    eapply perm_trans; [exact H|].
    pose proof (find_remove_perm _ _ _ N F) as P.
    set (rem := remove_container (su_cid s) act) in *.
    eapply perm_trans with (keys ((c1 :: rem) ++ sing)).
    + unfold keys. apply Permutation_map. rewrite app_assoc.
      apply Permutation_sym. cbn [app]. apply Permutation_cons_append.
    + cbn [app keys map]. rewrite E. change (Permutation (keys ((c :: rem) ++ sing)) (keys (act ++ sing))).
      unfold keys. apply Permutation_map. apply Permutation_app_tail. apply Permutation_sym. exact P.
Qed.

Lemma apply_suspends_incl C : forall ss w act sing w' act' sing',
  apply_suspends C w act sing ss = Ok (w', act', sing') -> incl act' act.
Proof.
  induction ss as [|s t IH]; intros w act sing w' act' sing' H; cbn [apply_suspends] in H.
  - inversion H. subst. apply incl_refl.
  - destruct (find_container (su_cid s) act) as [c|] eqn:F; [|discriminate].
    inv_bind H wc E. destruct wc as [w1 c1]. apply IH in H.
    eapply incl_tran; [exact H|]. apply filter_incl'.
Qed.

Definition phase1 (C : cfg) (w : world) (p : pool) (ss : list susp)
  : res (world * list container * list container * Q) :=
  match ss with
  | [] => Ok (w, p_active p, p_suspending p, p_consumed p)
  | _ =>
      do _ <- verify_suspends (p_active p) ss;
      do r <- apply_suspends C w (p_active p) (p_suspending p) ss;
      let '(w', act, sing) := r in Ok (w', act, sing, reconcile C act)
  end.

Lemma phase1_spec C w p ss w1 act1 sing1 cons1 :
  phase1 C w p ss = Ok (w1, act1, sing1, cons1) ->
  incl act1 (p_active p) /\
  (ss = [] \/ NoDup (map c_id (p_active p)) -> Permutation (keys (act1 ++ sing1)) (keys (live p))).
Proof.
  unfold phase1. destruct ss as [|s t].
  - intros H. inversion H. subst. split; [apply incl_refl | intros _; reflexivity].
  - intros H. inv_bind H u E. inv_bind H r E2. destruct r as [[w' act] sing].
    inversion H. subst. split.
    + eapply apply_suspends_incl; eauto.
    + intros [Hn|N]; [discriminate|]. eapply apply_suspends_perm; eauto.
Qed.

(* ---------- phase 2: assignments ---------- *)

Fixpoint new_keys (next : nat) (asgs : list asg) : list rkey :=
  match asgs with
  | [] => []
  | a :: t => (next, a_cpu a, a_ram a) :: new_keys (S next) t
  end.

Lemma new_keys_ids : forall asgs next, map kid (new_keys next asgs) = seq next (length asgs).
Proof. induction asgs as [|a t IH]; intros next; cbn; [reflexivity | f_equal; apply IH]. Qed.
Lemma new_keys_cpus : forall asgs next, map kcpu (new_keys next asgs) = map a_cpu asgs.
Proof. induction asgs as [|a t IH]; intros next; cbn; [reflexivity | f_equal; apply IH]. Qed.
Lemma new_keys_rams : forall asgs next, map kram (new_keys next asgs) = map a_ram asgs.
Proof. induction asgs as [|a t IH]; intros next; cbn; [reflexivity | f_equal; apply IH]. Qed.

Lemma apply_assignments_spec C : forall asgs next acpu aram act next' acpu' aram' act',
  apply_assignments C next acpu aram act asgs = Ok (next', acpu', aram', act') ->
  next' = next + length asgs /\
  acpu' = (acpu - sumZ (map a_cpu asgs))%Z /\
  (aram' == aram - sumQ (map a_ram asgs))%Q /\
  keys act' = keys act ++ new_keys next asgs.
Proof.
  induction asgs as [|a t IH]; intros next acpu aram act next' acpu' aram' act' H;
    cbn [apply_assignments] in H.
  - inversion H. subst. cbn [length map sumZ sumQ new_keys].
    rewrite app_nil_r, Nat.add_0_r. repeat split; [lia | lra].
  - destruct (opcount_ok C a); [|discriminate].
    apply IH in H. destruct H as [H1 [H2 [H3 H4]]].
    cbn [length map sumZ sumQ new_keys]. repeat split.
    + lia.
    + lia.
    + rewrite H3. lra.
    + rewrite H4, keys_app, <- app_assoc. reflexivity.
Qed.

Definition phase2 (C : cfg) (next : nat) (p : pool) (act1 : list container) (asgs : list asg)
  : res (nat * Z * Q * list container) :=
  match asgs with
  | [] => Ok (next, p_avail_cpu p, p_avail_ram p, act1)
  | _ =>
      do _ <- verify_assignments C p asgs;
      apply_assignments C next (p_avail_cpu p) (p_avail_ram p) act1 asgs
  end.

Lemma phase2_spec C next p act1 asgs next2 acpu2 aram2 act2 :
  phase2 C next p act1 asgs = Ok (next2, acpu2, aram2, act2) ->
  next2 = next + length asgs /\
  acpu2 = (p_avail_cpu p - sumZ (map a_cpu asgs))%Z /\
  (aram2 == p_avail_ram p - sumQ (map a_ram asgs))%Q /\
  keys act2 = keys act1 ++ new_keys next asgs /\
  (asgs <> [] -> verify_assignments C p asgs = Ok tt).
Proof.
  unfold phase2. destruct asgs as [|a t].
  - intros H. inversion H. subst. cbn [length map sumZ sumQ new_keys].
    rewrite app_nil_r, Nat.add_0_r. repeat split; [lia | lra | congruence].
  - intros H. inv_bind H u E. destruct u. apply apply_assignments_spec in H.
    destruct H as [H1 [H2 [H3 H4]]]. repeat split; auto.
Qed.

(* ---------- the whole tick, opened once ---------- *)

Definition not_completed (c : container) : bool := negb (c_completed c).
Definition not_suspended (c : container) : bool := negb (is_suspended c).

Lemma pool_tick_shape C w next p ss asgs w' next' p' res :
  pool_tick C w next p ss asgs = Ok (w', next', p', res) ->
  exists act1 sing1 act5 sing3,
    incl act1 (p_active p) /\
    (ss = [] \/ NoDup (map c_id (p_active p)) ->
     Permutation (keys (act1 ++ sing1)) (keys (live p))) /\
    keys act5 = keys act1 ++ new_keys next asgs /\
    keys sing3 = keys sing1 /\
    next' = next + length asgs /\
    (asgs <> [] -> verify_assignments C p asgs = Ok tt) /\
    p_active p' = filter not_completed act5 /\
    p_suspending p' = filter not_suspended sing3 /\
    p_suspended p' = p_suspended p ++ filter is_suspended sing3 /\
    res = map (result_of (p_id p)) (filter c_completed act5) /\
    p_avail_cpu p' = (p_avail_cpu p - sumZ (map a_cpu asgs)
                      + sumZ (map c_cpu (filter is_suspended sing3))
                      + sumZ (map c_cpu (filter c_completed act5)))%Z /\
    (p_avail_ram p' == p_avail_ram p - sumQ (map a_ram asgs)
                       + sumQ (map c_ram (filter is_suspended sing3))
                       + sumQ (map c_ram (filter c_completed act5)))%Q /\
    p_max_cpu p' = p_max_cpu p /\ p_max_ram p' = p_max_ram p /\ p_id p' = p_id p.
Proof.
  intros H. unfold pool_tick in H.
  inv_bind H r1 E1. change (phase1 C w p ss = Ok r1) in E1.
  destruct r1 as [[[w1 act1] sing1] cons1]. cbv beta iota in H.
  inv_bind H r2 E2. change (phase2 C next p act1 asgs = Ok r2) in E2.
  destruct r2 as [[[next2 acpu2] aram2] act2]. cbv beta iota in H.
  inv_bind H r3 E3. destruct r3 as [w3 sing3]. cbv beta iota in H.
  cbv zeta in H.
  inv_bind H r4 E4. destruct r4 as [[w4 cons4] act4]. cbv beta iota in H.
  inv_bind H r5 E5. destruct r5 as [[w5 cons5] act5]. cbv beta iota in H.
  injection H as Hw Hn Hp Hr.
  apply phase1_spec in E1. destruct E1 as [I1 P1].
  apply phase2_spec in E2. destruct E2 as [N2 [A2 [R2 [K2 V2]]]].
  apply tick_suspending_keys in E3.
  apply tick_active_keys in E4.
  apply oom_killer_keys in E5.
  exists act1, sing1, act5, sing3.
  subst p' res next'.
  split; [exact I1|]. split; [exact P1|].
  split; [congruence|]. split; [exact E3|]. split; [exact N2|]. split; [exact V2|].
  split; [reflexivity|]. split; [reflexivity|]. split; [reflexivity|]. split; [reflexivity|].
  split; [cbn [p_avail_cpu upd_pool]; rewrite A2; reflexivity|].
  split; [|repeat split].
  cbn [p_avail_ram upd_pool]. rewrite !fold_ram_sum, R2. reflexivity.
Qed.

(* The bookkeeping of one tick: [fin] are the containers harvested (one result each), [done] the
   containers that finished suspending. Together with the containers still live afterwards they are,
   key for key, the containers live before plus the ones created from [asgs]. *)
Definition nodup_or_nosusp (p : pool) (ss : list susp) : Prop :=
  ss = [] \/ NoDup (map c_id (p_active p)).

Lemma pool_tick_account C w next p ss asgs w' next' p' res :
  pool_tick C w next p ss asgs = Ok (w', next', p', res) ->
  exists fin done,
    res = map (result_of (p_id p)) fin /\
    p_suspended p' = p_suspended p ++ done /\
    (nodup_or_nosusp p ss ->
     Permutation (keys (fin ++ live p' ++ done)) (keys (live p) ++ new_keys next asgs)) /\
    incl (keys fin) (keys (p_active p) ++ new_keys next asgs) /\
    Forall (fun c => c_completed c = true) fin /\
    Forall (fun c => is_suspended c = true) done /\
    Forall (fun c => c_completed c = false) (p_active p') /\
    Forall (fun c => is_suspended c = false) (p_suspending p') /\
    next' = next + length asgs /\
    (asgs <> [] -> verify_assignments C p asgs = Ok tt) /\
    p_avail_cpu p' = (p_avail_cpu p - sumZ (map a_cpu asgs)
                      + sumZ (map c_cpu fin) + sumZ (map c_cpu done))%Z /\
    (p_avail_ram p' == p_avail_ram p - sumQ (map a_ram asgs)
                       + sumQ (map c_ram fin) + sumQ (map c_ram done))%Q /\
    p_max_cpu p' = p_max_cpu p /\ p_max_ram p' = p_max_ram p /\ p_id p' = p_id p.
Proof.
  intros H. apply pool_tick_shape in H.
  destruct H as [act1 [sing1 [act5 [sing3
    [I1 [P1 [K5 [K3 [Hn [Hv [Ha [Hs [Hd [Hr [Hc [Hm [M1 [M2 M3]]]]]]]]]]]]]]]]]].
  exists (filter c_completed act5), (filter is_suspended sing3).
  split; [exact Hr|]. split; [exact Hd|].
  split.
  { intros Hnd. specialize (P1 Hnd).
    unfold live at 1. rewrite Ha, Hs.
    eapply perm_trans with (keys (act5 ++ sing3)).
    - unfold keys. apply Permutation_map. apply Permutation_sym.
      eapply perm_trans.
      + apply Permutation_app; [apply (filter_perm c_completed) | apply (filter_perm is_suspended)].
      + rewrite <- !app_assoc. apply Permutation_app_head.
        fold not_completed. fold not_suspended.
        apply Permutation_app_head. apply Permutation_app_comm.
    - rewrite keys_app, K5, K3, <- app_assoc.
      eapply perm_trans; [apply Permutation_app_head; apply Permutation_app_comm|].
      rewrite app_assoc, <- keys_app. apply Permutation_app_tail. exact P1. }
  split.
  { intros k Hk. unfold keys in Hk. apply in_map_iff in Hk. destruct Hk as [c [Hk Hc']].
    apply filter_In in Hc'. destruct Hc' as [Hc' _].
    assert (Hin : In k (keys act5)) by (unfold keys; apply in_map_iff; eauto).
    rewrite K5 in Hin. apply in_app_or in Hin. apply in_or_app.
    destruct Hin as [Hin|Hin]; [left | right; exact Hin].
    unfold keys in *. apply in_map_iff in Hin. destruct Hin as [c1 [Hk1 Hc1]].
    apply in_map_iff. exists c1. split; [exact Hk1 | apply I1; exact Hc1]. }
  split; [apply Forall_forall; intros c Hc'; apply filter_In in Hc'; tauto|].
  split; [apply Forall_forall; intros c Hc'; apply filter_In in Hc'; tauto|].
  split.
  { rewrite Ha. apply Forall_forall. intros c Hc'. apply filter_In in Hc'.
    destruct Hc' as [_ Hc']. unfold not_completed in Hc'. apply negb_true_iff. exact Hc'. }
  split.
  { rewrite Hs. apply Forall_forall. intros c Hc'. apply filter_In in Hc'.
    destruct Hc' as [_ Hc']. unfold not_suspended in Hc'. apply negb_true_iff. exact Hc'. }
  split; [exact Hn|]. split; [exact Hv|].
  split; [rewrite Hc; lia|].
  split; [rewrite Hm; lra|].
  auto.
Qed.

Lemma perm_cpu_sum L L0 next asgs :
  Permutation (keys L) (keys L0 ++ new_keys next asgs) ->
  sumZ (map c_cpu L) = (sumZ (map c_cpu L0) + sumZ (map a_cpu asgs))%Z.
Proof.
  intros P. apply (Permutation_map kcpu) in P. apply sumZ_perm in P.
  rewrite map_app, sumZ_app, <- !cpus_keys, new_keys_cpus in P. exact P.
Qed.

Lemma perm_ram_sum L L0 next asgs :
  Permutation (keys L) (keys L0 ++ new_keys next asgs) ->
  (sumQ (map c_ram L) == sumQ (map c_ram L0) + sumQ (map a_ram asgs))%Q.
Proof.
  intros P. apply (Permutation_map kram) in P. apply sumQ_perm in P.
  rewrite map_app, sumQ_app, <- !rams_keys, new_keys_rams in P. exact P.
Qed.

(* ================= 1. conservation across one pool tick ================= *)

Theorem pool_tick_conserve C w next p ss asgs w' next' p' res :
  pool_tick C w next p ss asgs = Ok (w', next', p', res) ->
  nodup_or_nosusp p ss ->
  cpu_conserved p -> ram_conserved p ->
  cpu_conserved p' /\ ram_conserved p' /\
  p_max_cpu p' = p_max_cpu p /\ p_max_ram p' = p_max_ram p /\ p_id p' = p_id p.
Proof.
  intros H Hnd Hc Hr. apply pool_tick_account in H.
  destruct H as [fin [done [_ [_ [P [_ [_ [_ [_ [_ [_ [_ [Ac [Ar [M1 [M2 M3]]]]]]]]]]]]]]]].
  specialize (P Hnd).
  pose proof (perm_cpu_sum _ _ _ _ P) as Sc. pose proof (perm_ram_sum _ _ _ _ P) as Sr.
  rewrite !map_app, !sumZ_app in Sc. rewrite !map_app, !sumQ_app in Sr.
  unfold cpu_conserved, ram_conserved in *.
  split; [rewrite M1; lia|]. split; [rewrite M2, Ar; lra|]. auto.
Qed.

Corollary pool_tick_conserve_nodup C w next p ss asgs w' next' p' res :
  pool_tick C w next p ss asgs = Ok (w', next', p', res) ->
  NoDup (map c_id (p_active p)) ->
  cpu_conserved p -> ram_conserved p ->
  cpu_conserved p' /\ ram_conserved p' /\
  p_max_cpu p' = p_max_cpu p /\ p_max_ram p' = p_max_ram p /\ p_id p' = p_id p.
Proof. intros H N. eapply pool_tick_conserve; eauto. right; exact N. Qed.

Corollary pool_tick_conserve_nosusp C w next p asgs w' next' p' res :
  pool_tick C w next p [] asgs = Ok (w', next', p', res) ->
  cpu_conserved p -> ram_conserved p ->
  cpu_conserved p' /\ ram_conserved p' /\
  p_max_cpu p' = p_max_cpu p /\ p_max_ram p' = p_max_ram p /\ p_id p' = p_id p.
Proof. intros H. eapply pool_tick_conserve; eauto. left; reflexivity. Qed.

(* ================= 2. an allocation is returned exactly in the tick its container leaves ===== *)

Theorem pool_tick_returned C w next p ss asgs w' next' p' res :
  pool_tick C w next p ss asgs = Ok (w', next', p', res) ->
  exists done,
    p_suspended p' = p_suspended p ++ done /\
    Forall (fun c => is_suspended c = true) done /\
    Forall (fun c => is_suspended c = false) (p_suspending p') /\
    Forall (fun c => c_completed c = false) (p_active p') /\
    p_avail_cpu p' = (p_avail_cpu p - sumZ (map a_cpu asgs)
                      + sumZ (map r_cpu res) + sumZ (map c_cpu done))%Z /\
    (p_avail_ram p' == p_avail_ram p - sumQ (map a_ram asgs)
                       + sumQ (map r_ram res) + sumQ (map c_ram done))%Q.
Proof.
  intros H. apply pool_tick_account in H.
  destruct H as [fin [done [Hr [Hd [_ [_ [_ [F2 [F3 [F4 [_ [_ [Ac [Ar _]]]]]]]]]]]]]].
  exists done. subst res. rewrite !map_map. cbn [result_of r_cpu r_ram].
  repeat split; auto.
Qed.

(* with no assignment and nothing leaving, the free amounts do not move *)
Corollary pool_tick_quiet C w next p ss w' next' p' :
  pool_tick C w next p ss [] = Ok (w', next', p', []) ->
  p_suspended p' = p_suspended p ->
  p_avail_cpu p' = p_avail_cpu p /\ (p_avail_ram p' == p_avail_ram p)%Q.
Proof.
  intros H Hs. apply pool_tick_returned in H.
  destruct H as [done [Hd [_ [_ [_ [Ac Ar]]]]]].
  rewrite Hs in Hd. rewrite <- (app_nil_r (p_suspended p)) in Hd at 1.
  apply app_inv_head in Hd. subst done. cbn [map sumZ sumQ] in *. split; [lia | rewrite Ar; lra].
Qed.

Definition ids_ok (next : nat) (p : pool) : Prop :=
  NoDup (map c_id (live p)) /\ forall c, In c (live p) -> c_id c < next.

Lemma ids_ok_active next p : ids_ok next p -> NoDup (map c_id (p_active p)).
Proof.
  intros [N _]. unfold live in N. rewrite map_app in N. apply NoDup_app_inv in N. tauto.
Qed.

Lemma ids_ok_mono n m p : n <= m -> ids_ok n p -> ids_ok m p.
Proof. intros L [N B]. split; [exact N|]. intros c Hc. specialize (B c Hc). lia. Qed.

Theorem pool_tick_ids C w next p ss asgs w' next' p' res :
  pool_tick C w next p ss asgs = Ok (w', next', p', res) ->
  ids_ok next p ->
  ids_ok next' p' /\ next' = next + length asgs /\
  NoDup (map r_cid res) /\
  (forall r, In r res -> ~ In (r_cid r) (map c_id (live p'))) /\
  (forall r, In r res ->
     In (r_cid r) (map c_id (p_active p)) \/ next <= r_cid r < next').
Proof.
  intros H Hok. pose proof (ids_ok_active _ _ Hok) as Na. destruct Hok as [N B].
  apply pool_tick_account in H.
  destruct H as [fin [done [Hr [_ [P [I [_ [_ [_ [_ [Hn _]]]]]]]]]]].
  specialize (P (or_intror Na)).
  apply (Permutation_map kid) in P.
  rewrite map_app, <- !ids_keys, new_keys_ids in P.
  assert (ND : NoDup (map c_id (live p) ++ seq next (length asgs))).
  { apply NoDup_app_intro; [exact N | apply seq_NoDup|].
    intros x Hx Hs. apply in_seq in Hs. apply in_map_iff in Hx.
    destruct Hx as [c [<- Hc]]. specialize (B c Hc). lia. }
  pose proof (Permutation_NoDup (Permutation_sym P) ND) as ND'.
  rewrite !map_app in ND'.
  apply NoDup_app_inv in ND'. destruct ND' as [Nf [Nr Df]].
  apply NoDup_app_inv in Nr. destruct Nr as [Nl [_ _]].
  assert (Rid : map r_cid res = map c_id fin).
  { subst res. rewrite map_map. reflexivity. }
  split; [split|].
  - exact Nl.
  - intros c Hc.
    assert (Hin : In (c_id c) (map c_id (fin ++ live p' ++ done))).
    { apply in_map. apply in_or_app. right. apply in_or_app. left. exact Hc. }
    apply (Permutation_in _ P) in Hin. apply in_app_or in Hin. destruct Hin as [Hin|Hin].
    + apply in_map_iff in Hin. destruct Hin as [c0 [E Hc0]]. specialize (B c0 Hc0). lia.
    + apply in_seq in Hin. lia.
  - split; [exact Hn|]. split; [rewrite Rid; exact Nf|]. split.
    + intros r Hr' Hin. apply (in_map r_cid) in Hr'. rewrite Rid in Hr'.
      apply (Df _ Hr'). apply in_or_app. left. exact Hin.
    + intros r Hr'. apply (in_map r_cid) in Hr'. rewrite Rid in Hr'.
      apply in_map_iff in Hr'. destruct Hr' as [c [E Hc]].
      assert (Hk : In (key c) (keys fin)) by (unfold keys; apply in_map; exact Hc).
      apply I in Hk. apply in_app_or in Hk. destruct Hk as [Hk|Hk].
      * left. rewrite <- E. apply (in_map kid) in Hk. rewrite <- ids_keys in Hk. exact Hk.
      * right. apply (in_map kid) in Hk. rewrite new_keys_ids in Hk. apply in_seq in Hk.
        rewrite <- E. unfold kid, key in Hk. cbn [fst] in Hk. lia.
Qed.

(* every result carries exactly the id, cpu and ram of a container that was active before the
   tick or was created from [asgs] in this tick (no side condition) *)
Theorem pool_tick_result_origin C w next p ss asgs w' next' p' res :
  pool_tick C w next p ss asgs = Ok (w', next', p', res) ->
  forall r, In r res ->
    r_pool r = p_id p /\
    In (r_cid r, r_cpu r, r_ram r) (keys (p_active p) ++ new_keys next asgs).
Proof.
  intros H r Hr'. apply pool_tick_account in H.
  destruct H as [fin [done [Hr [_ [_ [I _]]]]]]. subst res.
  apply in_map_iff in Hr'. destruct Hr' as [c [<- Hc]]. cbn [result_of r_pool r_cid r_cpu r_ram].
  split; [reflexivity|]. apply I. unfold keys. apply (in_map key) in Hc. exact Hc.
Qed.

(* ================= 3. an overselling batch is rejected as a whole ================= *)

Lemma Qltb_true a b : Qltb a b = true <-> (a < b)%Q.
Proof.
  unfold Qltb. rewrite negb_true_iff. split; intros H.
  - apply Qnot_le_lt. intros L. apply Qle_bool_iff in L. congruence.
  - destruct (Qle_bool b a) eqn:E; [|reflexivity].
    apply Qle_bool_iff in E. exfalso. apply (Qlt_not_le _ _ H). exact E.
Qed.

Lemma Qltb_false a b : Qltb a b = false <-> (b <= a)%Q.
Proof.
  unfold Qltb. rewrite negb_false_iff. apply Qle_bool_iff.
Qed.

Lemma verify_assignments_ok C p asgs :
  verify_assignments C p asgs = Ok tt <->
  (sumZ (map a_cpu asgs) <= p_avail_cpu p)%Z /\
  (cf_overcommit C = false -> (sumQ (map a_ram asgs) <= p_avail_ram p)%Q).
Proof.
  unfold verify_assignments.
  destruct (p_avail_cpu p <? sumZ (map a_cpu asgs))%Z eqn:Ec.
  - apply Z.ltb_lt in Ec. split; [discriminate | intros [H _]; lia].
  - apply Z.ltb_ge in Ec. destruct (cf_overcommit C); cbn [negb andb].
    + split; [intros _; split; [exact Ec | discriminate] | reflexivity].
    + destruct (Qltb (p_avail_ram p) (sumQ (map a_ram asgs))) eqn:Er.
      * apply Qltb_true in Er. split; [discriminate|]. intros [_ H]. specialize (H eq_refl).
        exfalso. apply (Qlt_not_le _ _ Er). exact H.
      * apply Qltb_false in Er. split; [intros _; split; auto | reflexivity].
Qed.

Lemma verify_assignments_cpu C p asgs :
  (p_avail_cpu p < sumZ (map a_cpu asgs))%Z -> verify_assignments C p asgs = Err EOversellCpu.
Proof.
  intros H. unfold verify_assignments. apply Z.ltb_lt in H. rewrite H. reflexivity.
Qed.

Lemma verify_assignments_ram C p asgs :
  (sumZ (map a_cpu asgs) <= p_avail_cpu p)%Z -> cf_overcommit C = false ->
  (p_avail_ram p < sumQ (map a_ram asgs))%Q -> verify_assignments C p asgs = Err EOversellRam.
Proof.
  intros Hc Ho Hr. unfold verify_assignments. apply Z.ltb_ge in Hc. rewrite Hc, Ho.
  apply Qltb_true in Hr. rewrite Hr. reflexivity.
Qed.

(* no state comes back from [Err]: the whole batch (and the whole tick) is refused *)
Theorem oversell_rejected_cpu C w next p ss asgs :
  asgs <> [] -> (p_avail_cpu p < sumZ (map a_cpu asgs))%Z ->
  (exists e, pool_tick C w next p ss asgs = Err e) /\
  pool_tick C w next p [] asgs = Err EOversellCpu.
Proof.
  intros Hne Hlt. split.
  - destruct (pool_tick C w next p ss asgs) as [[[[w' next'] p'] res]|e] eqn:E; [|eauto].
    apply pool_tick_account in E.
    destruct E as [fin [done [_ [_ [_ [_ [_ [_ [_ [_ [_ [V _]]]]]]]]]]]].
    specialize (V Hne). apply verify_assignments_ok in V. lia.
  - pose proof (verify_assignments_cpu C p asgs Hlt) as V.
    destruct asgs as [|a t]; [contradiction|].
    unfold pool_tick. rewrite V. reflexivity.
Qed.

Theorem oversell_rejected_ram C w next p ss asgs :
  asgs <> [] -> cf_overcommit C = false -> (p_avail_ram p < sumQ (map a_ram asgs))%Q ->
  (exists e, pool_tick C w next p ss asgs = Err e) /\
  ((sumZ (map a_cpu asgs) <= p_avail_cpu p)%Z ->
   pool_tick C w next p [] asgs = Err EOversellRam).
Proof.
  intros Hne Ho Hlt. split.
  - destruct (pool_tick C w next p ss asgs) as [[[[w' next'] p'] res]|e] eqn:E; [|eauto].
    apply pool_tick_account in E.
    destruct E as [fin [done [_ [_ [_ [_ [_ [_ [_ [_ [_ [V _]]]]]]]]]]]].
    specialize (V Hne). apply verify_assignments_ok in V. destruct V as [_ V].
    specialize (V Ho). exfalso. apply (Qlt_not_le _ _ Hlt). exact V.
  - intros Hc. pose proof (verify_assignments_ram C p asgs Hc Ho Hlt) as V.
    destruct asgs as [|a t]; [contradiction|].
    unfold pool_tick. rewrite V. reflexivity.
Qed.

(* conversely: an accepted non-empty batch fits *)
Theorem accepted_batch_fits C w next p ss asgs w' next' p' res :
  pool_tick C w next p ss asgs = Ok (w', next', p', res) ->
  (sumZ (map a_cpu asgs) <= p_avail_cpu p)%Z \/ asgs = [].
Proof.
  intros H. destruct asgs as [|a t]; [right; reflexivity | left].
  apply pool_tick_account in H.
  destruct H as [fin [done [_ [_ [_ [_ [_ [_ [_ [_ [_ [V _]]]]]]]]]]]].
  assert (Hne : a :: t <> []) by discriminate.
  specialize (V Hne). apply verify_assignments_ok in V. tauto.
Qed.

(* ================= 4. free amounts are never negative ================= *)

Definition conts_nonneg (p : pool) : Prop :=
  forall c, In c (live p) -> (0 <= c_cpu c)%Z /\ (0 <= c_ram c)%Q.
Definition asgs_pos (asgs : list asg) : Prop :=
  forall a, In a asgs -> (0 < a_cpu a)%Z /\ (0 < a_ram a)%Q.

Lemma sum_cpu_nonneg l :
  (forall c, In c l -> (0 <= c_cpu c)%Z /\ (0 <= c_ram c)%Q) -> (0 <= sumZ (map c_cpu l))%Z.
Proof.
  induction l as [|c t IH]; intros H; cbn [map sumZ]; [lia|].
  pose proof (H c (or_introl eq_refl)) as [Hc _].
  assert (0 <= sumZ (map c_cpu t))%Z by (apply IH; intros x Hx; apply H; right; exact Hx). lia.
Qed.

Lemma sum_ram_nonneg l :
  (forall c, In c l -> (0 <= c_cpu c)%Z /\ (0 <= c_ram c)%Q) -> (0 <= sumQ (map c_ram l))%Q.
Proof.
  induction l as [|c t IH]; intros H; cbn [map sumQ]; [lra|].
  pose proof (H c (or_introl eq_refl)) as [_ Hc].
  assert (0 <= sumQ (map c_ram t))%Q by (apply IH; intros x Hx; apply H; right; exact Hx). lra.
Qed.

Lemma new_keys_pos : forall asgs next k,
  asgs_pos asgs -> In k (new_keys next asgs) -> (0 < kcpu k)%Z /\ (0 < kram k)%Q.
Proof.
  induction asgs as [|a t IH]; intros next k Hp Hk; cbn [new_keys] in Hk; [destruct Hk|].
  destruct Hk as [<-|Hk].
  - apply (Hp a). left; reflexivity.
  - apply (IH (S next) k); [|exact Hk]. intros x Hx. apply Hp. right; exact Hx.
Qed.

Theorem pool_tick_nonneg C w next p ss asgs w' next' p' res :
  pool_tick C w next p ss asgs = Ok (w', next', p', res) ->
  nodup_or_nosusp p ss ->
  conts_nonneg p -> asgs_pos asgs -> (0 <= p_avail_cpu p)%Z ->
  conts_nonneg p' /\ (0 <= p_avail_cpu p')%Z /\
  (cf_overcommit C = false -> (0 <= p_avail_ram p)%Q -> (0 <= p_avail_ram p')%Q).
Proof.
  intros H Hnd Hcn Hap Hav0. apply pool_tick_account in H.
  destruct H as [fin [done [_ [_ [P [_ [_ [_ [_ [_ [_ [V [Ac [Ar _]]]]]]]]]]]]]].
  specialize (P Hnd).
  assert (All : forall c, In c (fin ++ live p' ++ done) -> (0 <= c_cpu c)%Z /\ (0 <= c_ram c)%Q).
  { intros c Hc. apply (in_map key) in Hc. apply (Permutation_in _ P) in Hc.
    apply in_app_or in Hc. destruct Hc as [Hc|Hc].
    - unfold keys in Hc. apply in_map_iff in Hc. destruct Hc as [c0 [E Hc0]].
      specialize (Hcn c0 Hc0). unfold key in E. injection E as E1 E2 E3.
      rewrite <- E2, <- E3. exact Hcn.
    - apply (new_keys_pos _ _ _ Hap) in Hc. unfold kcpu, kram, key in Hc. cbn [fst snd] in Hc.
      destruct Hc as [Hc1 Hc2]. split; [lia | lra]. }
  assert (Ff : forall c, In c fin -> (0 <= c_cpu c)%Z /\ (0 <= c_ram c)%Q).
  { intros c Hc. apply All. apply in_or_app. left; exact Hc. }
  assert (Fd : forall c, In c done -> (0 <= c_cpu c)%Z /\ (0 <= c_ram c)%Q).
  { intros c Hc. apply All. apply in_or_app. right. apply in_or_app. right; exact Hc. }
  pose proof (sum_cpu_nonneg _ Ff) as Sf. pose proof (sum_cpu_nonneg _ Fd) as Sd.
  pose proof (sum_ram_nonneg _ Ff) as Rf. pose proof (sum_ram_nonneg _ Fd) as Rd.
  split; [|split].
  - intros c Hc. apply All. apply in_or_app. right. apply in_or_app. left; exact Hc.
  - destruct asgs as [|a t].
    + cbn [map sumZ] in Ac. lia.
    + assert (Hne : a :: t <> []) by discriminate.
      specialize (V Hne). apply verify_assignments_ok in V. destruct V as [V _]. lia.
  - intros Ho Hr0. rewrite Ar. destruct asgs as [|a t].
    + cbn [map sumQ]. lra.
    + assert (Hne : a :: t <> []) by discriminate.
      specialize (V Hne). apply verify_assignments_ok in V. destruct V as [_ V].
      specialize (V Ho). lra.
Qed.

(* ================= 5. the executor: all pools, every reachable state ================= *)

Definition pools_ok (s : estate) : Prop :=
  Forall (fun p => cpu_conserved p /\ ram_conserved p) (e_pools s).

(* The invariant that carries conservation through suspensions: container ids of a pool are
   distinct and below the executor's counter. Without it conservation is NOT preserved by a tick with
   suspensions (see [nodup_needed] below): [remove_container] drops every active container with the
   id while only one is moved to the suspending list. *)
Definition pool_wf (next : nat) (p : pool) : Prop :=
  cpu_conserved p /\ ram_conserved p /\ ids_ok next p.
Definition pools_wf (s : estate) : Prop := Forall (pool_wf (e_next s)) (e_pools s).

Definition pool_nn (C : cfg) (p : pool) : Prop :=
  conts_nonneg p /\ (0 <= p_avail_cpu p)%Z /\
  (cf_overcommit C = false -> (0 <= p_avail_ram p)%Q).
Definition pools_nn (C : cfg) (s : estate) : Prop := Forall (pool_nn C) (e_pools s).

Definition mine_s (p : pool) (ss : list susp) : list susp :=
  filter (fun s => (su_pool s =? Z.of_nat (p_id p))%Z) ss.
Definition mine_a (p : pool) (asgs : list asg) : list asg :=
  filter (fun a => (a_pool a =? Z.of_nat (p_id p))%Z) asgs.

Lemma pools_tick_inv C (I : nat -> pool -> Prop) (ss : list susp) (asgs : list asg) :
  (forall n m p, n <= m -> I n p -> I m p) ->
  (forall w next p w' next' p' res,
     I next p ->
     pool_tick C w next p (mine_s p ss) (mine_a p asgs) = Ok (w', next', p', res) ->
     I next' p' /\ next <= next') ->
  forall ps w next w' next' ps' res,
    pools_tick C w next ps ss asgs = Ok (w', next', ps', res) ->
    Forall (I next) ps -> Forall (I next') ps' /\ next <= next'.
Proof.
  intros Mono Step.
  induction ps as [|p t IH]; intros w next w' next' ps' res H F; cbn [pools_tick] in H.
  - inversion H. subst. split; [constructor | lia].
  - cbv zeta in H. inv_bind H r E. destruct r as [[[w1 next1] p1] res1].
    inv_bind H rt E2. destruct rt as [[[w2 next2] t2] res2].
    inversion H. subst. inversion F as [|x l Fp Ft]; subst.
    destruct (Step _ _ _ _ _ _ _ Fp E) as [I1 L1].
    assert (Ft1 : Forall (I next1) t).
    { eapply Forall_impl; [|exact Ft]. intros q. apply Mono. exact L1. }
    destruct (IH _ _ _ _ _ _ E2 Ft1) as [I2 L2].
    split; [|lia]. constructor; [|exact I2]. eapply Mono; [exact L2 | exact I1].
Qed.

Lemma exec_step_inv C s ss asgs s' res :
  exec_step C s ss asgs = Ok (s', res) ->
  exists w, mk_assignments C (e_world s) asgs = Ok w /\
            pools_tick C w (e_next s) (e_pools s) ss asgs
            = Ok (e_world s', e_next s', e_pools s', res).
Proof.
  unfold exec_step. intros H. inv_bind H w E. exists w. split; [exact E|].
  unfold exec_tick in H. cbn [e_pools e_world e_next] in H.
  destruct (negb _); [discriminate|].
  inv_bind H r E2. destruct r as [[[w1 next1] ps1] res1]. inversion H. subst.
  cbn [e_pools e_world e_next]. exact E2.
Qed.

Lemma mk_assignments_pos C : forall asgs w w',
  mk_assignments C w asgs = Ok w' -> asgs_pos asgs.
Proof.
  induction asgs as [|a t IH]; intros w w' H x Hx; [destruct Hx|].
  cbn [mk_assignments] in H. inv_bind H w1 E.
  destruct Hx as [<-|Hx]; [|eapply IH; eauto].
  unfold mk_assignment in E.
  destruct (Nat.eqb (length (a_ops a)) 0); [discriminate|].
  destruct (a_cpu a <=? 0)%Z eqn:Ec; [discriminate|].
  destruct (Qleb (a_ram a) 0%Q) eqn:Er; [discriminate|].
  apply Z.leb_gt in Ec. split; [exact Ec|].
  apply Qnot_le_lt. intros L. unfold Qleb in Er. apply Qle_bool_iff in L. congruence.
Qed.

Lemma asgs_pos_mine p asgs : asgs_pos asgs -> asgs_pos (mine_a p asgs).
Proof. intros H a Ha. apply H. unfold mine_a in Ha. apply filter_In in Ha. tauto. Qed.

Lemma pool_wf_mono n m p : n <= m -> pool_wf n p -> pool_wf m p.
Proof. intros L [H1 [H2 H3]]. repeat split; auto; eapply ids_ok_mono; eauto. Qed.

Lemma pool_tick_wf C w next p ss asgs w' next' p' res :
  pool_wf next p -> pool_tick C w next p ss asgs = Ok (w', next', p', res) ->
  pool_wf next' p' /\ next <= next'.
Proof.
  intros [Hc [Hr Hi]] H.
  pose proof (pool_tick_conserve _ _ _ _ _ _ _ _ _ _ H (or_intror (ids_ok_active _ _ Hi)) Hc Hr)
    as [Hc' [Hr' _]].
  pose proof (pool_tick_ids _ _ _ _ _ _ _ _ _ _ H Hi) as [Hi' [Hn _]].
  split; [repeat split; auto; apply Hi' | lia].
Qed.

Theorem exec_step_wf C s ss asgs s' res :
  exec_step C s ss asgs = Ok (s', res) -> pools_wf s -> pools_wf s'.
Proof.
  intros H F. apply exec_step_inv in H. destruct H as [w [_ H]].
  unfold pools_wf in *.
  eapply (pools_tick_inv C pool_wf ss asgs pool_wf_mono) in H; [apply H | | exact F].
  intros w0 next p w1 next1 p1 res1 Hp Ht. eapply pool_tick_wf; eauto.
Qed.

Lemma pools_wf_ok s : pools_wf s -> pools_ok s.
Proof.
  unfold pools_wf, pools_ok. apply Forall_impl. intros p [H1 [H2 _]]. auto.
Qed.

(* the statement as requested, from the id invariant ... *)
Theorem exec_step_pools_ok C s ss asgs s' res :
  exec_step C s ss asgs = Ok (s', res) -> pools_wf s -> pools_ok s'.
Proof. intros H F. apply pools_wf_ok. eapply exec_step_wf; eauto. Qed.

(* ... and with no side condition for ticks without suspensions *)
Theorem exec_step_pools_ok_nosusp C s asgs s' res :
  exec_step C s [] asgs = Ok (s', res) -> pools_ok s -> pools_ok s'.
Proof.
  intros H F. apply exec_step_inv in H. destruct H as [w [_ H]].
  unfold pools_ok in *.
  eapply (pools_tick_inv C (fun _ p => cpu_conserved p /\ ram_conserved p) [] asgs) in H;
    [apply H | | | exact F].
  - intros n m p _ Hp. exact Hp.
  - intros w0 next p w1 next1 p1 res1 [Hc Hr] Ht. cbn [mine_s filter] in Ht.
    pose proof (pool_tick_conserve_nosusp _ _ _ _ _ _ _ _ _ Ht Hc Hr) as [Hc' [Hr' _]].
    apply pool_tick_account in Ht.
    destruct Ht as [fin [done [_ [_ [_ [_ [_ [_ [_ [_ [Hn _]]]]]]]]]]].
    split; [auto | lia].
Qed.

Lemma pools_wf_init C n cpu ram : pools_wf (init_estate C n cpu ram).
Proof.
  unfold pools_wf, init_estate. cbn [e_pools e_next]. apply Forall_forall.
  intros p Hp. apply in_map_iff in Hp. destruct Hp as [i [<- _]].
  unfold pool_wf, cpu_conserved, ram_conserved, ids_ok, live, new_pool.
  cbn [p_active p_suspending p_avail_cpu p_avail_ram p_max_cpu p_max_ram app map sumZ sumQ].
  split; [lia|]. split; [lra|]. split; [constructor | intros c []].
Qed.

Lemma pools_ok_init C n cpu ram : pools_ok (init_estate C n cpu ram).
Proof. apply pools_wf_ok. apply pools_wf_init. Qed.

Inductive reach_exec (C : cfg) (s0 : estate) : estate -> Prop :=
| reach_init : reach_exec C s0 s0
| reach_step s ss asgs s' res :
    reach_exec C s0 s -> exec_step C s ss asgs = Ok (s', res) -> reach_exec C s0 s'.

Theorem wf_inv C n cpu ram s :
  reach_exec C (init_estate C n cpu ram) s -> pools_wf s.
Proof.
  induction 1 as [|s ss asgs s' res _ IH H].
  - apply pools_wf_init.
  - eapply exec_step_wf; eauto.
Qed.

Theorem conserve_inv C n cpu ram s :
  reach_exec C (init_estate C n cpu ram) s -> pools_ok s.
Proof. intros H. apply pools_wf_ok. eapply wf_inv; eauto. Qed.

(* capacities and pool ids never change *)
Lemma pools_tick_static C ss asgs : forall ps w next w' next' ps' res,
  pools_tick C w next ps ss asgs = Ok (w', next', ps', res) ->
  map p_id ps' = map p_id ps /\
  forall cpu ram, Forall (fun p => p_max_cpu p = cpu /\ p_max_ram p = ram) ps ->
                  Forall (fun p => p_max_cpu p = cpu /\ p_max_ram p = ram) ps'.
Proof.
  induction ps as [|p t IH]; intros w next w' next' ps' res H; cbn [pools_tick] in H.
  - inversion H. split; [reflexivity | intros; constructor].
  - cbv zeta in H. inv_bind H r E. destruct r as [[[w1 next1] p1] res1].
    inv_bind H rt E2. destruct rt as [[[w2 next2] t2] res2].
    inversion H. subst.
    apply pool_tick_account in E.
    destruct E as [fin [done [_ [_ [_ [_ [_ [_ [_ [_ [_ [_ [_ [_ [M1 [M2 M3]]]]]]]]]]]]]]]].
    destruct (IH _ _ _ _ _ _ E2) as [J1 J2].
    split; [cbn [map]; congruence|].
    intros cpu ram F. inversion F as [|x l [Cp1 Cp2] Ct]; subst.
    constructor; [split; congruence | apply J2; exact Ct].
Qed.

Theorem capacity_inv C n cpu ram s :
  reach_exec C (init_estate C n cpu ram) s ->
  map p_id (e_pools s) = seq 0 n /\
  Forall (fun p => p_max_cpu p = cpu /\ p_max_ram p = ram) (e_pools s).
Proof.
  induction 1 as [|s ss asgs s' res _ IH H].
  - unfold init_estate. cbn [e_pools]. split.
    + rewrite map_map. cbn [new_pool p_id]. apply map_id.
    + apply Forall_forall. intros p Hp. apply in_map_iff in Hp. destruct Hp as [i [<- _]].
      split; reflexivity.
  - destruct IH as [Hid Hcap]. apply exec_step_inv in H. destruct H as [w [_ H]].
    apply pools_tick_static in H. destruct H as [J1 J2].
    split; [congruence | apply J2; exact Hcap].
Qed.

(* ---- non-negativity of the free amounts in every reachable state ---- *)

Lemma pool_tick_wf_nn C w next p ss asgs w' next' p' res :
  asgs_pos asgs ->
  pool_wf next p /\ pool_nn C p ->
  pool_tick C w next p ss asgs = Ok (w', next', p', res) ->
  (pool_wf next' p' /\ pool_nn C p') /\ next <= next'.
Proof.
  intros Hap [Hwf [Hcn [Hc0 Hr0]]] H.
  destruct (pool_tick_wf _ _ _ _ _ _ _ _ _ _ Hwf H) as [Hwf' L].
  destruct Hwf as [_ [_ Hi]].
  pose proof (pool_tick_nonneg _ _ _ _ _ _ _ _ _ _ H (or_intror (ids_ok_active _ _ Hi)) Hcn Hap Hc0)
    as [Hcn' [Hc0' Hr0']].
  split; [|exact L]. split; [exact Hwf'|]. split; [exact Hcn'|]. split; [exact Hc0'|].
  intros Ho. apply Hr0'; auto.
Qed.

Theorem exec_step_nn C s ss asgs s' res :
  exec_step C s ss asgs = Ok (s', res) -> pools_wf s -> pools_nn C s -> pools_nn C s'.
Proof.
  intros H F G. apply exec_step_inv in H. destruct H as [w [Hm H]].
  apply mk_assignments_pos in Hm.
  unfold pools_wf, pools_nn in *.
  assert (FG : Forall (fun p => pool_wf (e_next s) p /\ pool_nn C p) (e_pools s)).
  { apply Forall_forall. intros p Hp. rewrite Forall_forall in F, G. auto. }
  eapply (pools_tick_inv C (fun n p => pool_wf n p /\ pool_nn C p) ss asgs) in H;
    [ | | | exact FG].
  - destruct H as [H _]. eapply Forall_impl; [|exact H]. intros p [_ Hp]. exact Hp.
  - intros n m p L [Hp1 Hp2]. split; [eapply pool_wf_mono; eauto | exact Hp2].
  - intros w0 next p w1 next1 p1 res1 Hp Ht.
    eapply pool_tick_wf_nn; [|exact Hp|exact Ht]. apply asgs_pos_mine. exact Hm.
Qed.

Lemma pools_nn_init C n cpu ram :
  (0 <= cpu)%Z -> (0 <= ram)%Q -> pools_nn C (init_estate C n cpu ram).
Proof.
  intros Hc Hr. unfold pools_nn, init_estate. cbn [e_pools]. apply Forall_forall.
  intros p Hp. apply in_map_iff in Hp. destruct Hp as [i [<- _]].
  unfold pool_nn, conts_nonneg, live, new_pool.
  cbn [p_active p_suspending p_avail_cpu p_avail_ram app].
  split; [intros c []|]. split; [exact Hc | intros _; exact Hr].
Qed.

Theorem nonneg_inv C n cpu ram s :
  (0 <= cpu)%Z -> (0 <= ram)%Q ->
  reach_exec C (init_estate C n cpu ram) s -> pools_nn C s.
Proof.
  intros Hc Hr. induction 1 as [|s ss asgs s' res R IH H].
  - apply pools_nn_init; assumption.
  - eapply exec_step_nn; eauto. eapply wf_inv; eauto.
Qed.

(* the property, spelled out for a single pool of a reachable state *)
Theorem C03_reachable C n cpu ram s p :
  (0 <= cpu)%Z -> (0 <= ram)%Q ->
  reach_exec C (init_estate C n cpu ram) s -> In p (e_pools s) ->
  (p_avail_cpu p + sumZ (map c_cpu (p_active p ++ p_suspending p)) = cpu)%Z /\
  (p_avail_ram p + sumQ (map c_ram (p_active p ++ p_suspending p)) == ram)%Q /\
  (0 <= p_avail_cpu p <= cpu)%Z /\
  (cf_overcommit C = false -> (0 <= p_avail_ram p <= ram)%Q).
Proof.
  intros Hc Hr R Hp.
  pose proof (conserve_inv _ _ _ _ _ R) as Ok1. pose proof (nonneg_inv _ _ _ _ _ Hc Hr R) as Nn.
  pose proof (capacity_inv _ _ _ _ _ R) as [_ Cap].
  unfold pools_ok, pools_nn in *. rewrite Forall_forall in Ok1, Nn, Cap.
  destruct (Ok1 p Hp) as [Cc Cr]. destruct (Nn p Hp) as [Ncn [Nc Nr]].
  destruct (Cap p Hp) as [M1 M2].
  unfold cpu_conserved, ram_conserved, live in *. rewrite M1 in Cc. rewrite M2 in Cr.
  pose proof (sum_cpu_nonneg _ Ncn) as Sc. pose proof (sum_ram_nonneg _ Ncn) as Sr.
  unfold live in Sc, Sr.
  split; [exact Cc|]. split; [exact Cr|]. split; [lia|].
  intros Ho. specialize (Nr Ho). split; lra.
Qed.

(* ================= 6. non-vacuity ================= *)

Module Examples.

(* one pool of 4 CPUs / 8 GB; a two-operator pipeline and a one-operator pipeline; every operator
   takes one tick and 1 GB; exact arithmetic *)
Definition ex_cfg : cfg :=
  {| cf_static := mk_static [(Batch, [[]; [0]]); (Query, [[]])];
     cf_script := fun _ _ => [1%Q];
     cf_tps := 10%Z; cf_overcommit := false; cf_multi := true; cf_rnd := fun q => q |}.
Definition ex_s0 : estate := init_estate ex_cfg 1 4%Z 8%Q.
Definition ex_a0 : asg :=
  {| a_ops := [0; 1]; a_cpu := 2%Z; a_ram := 3%Q; a_prio := Batch; a_pool := 0%Z |}.
Definition ex_a1 : asg :=
  {| a_ops := [2]; a_cpu := 1%Z; a_ram := (5 # 2)%Q; a_prio := Query; a_pool := 0%Z |}.
Definition ex_big : asg :=
  {| a_ops := [2]; a_cpu := 3%Z; a_ram := 1%Q; a_prio := Query; a_pool := 0%Z |}.
Definition ex_fat : asg :=
  {| a_ops := [2]; a_cpu := 1%Z; a_ram := 6%Q; a_prio := Query; a_pool := 0%Z |}.
Definition ex_su : susp := {| su_cid := 0; su_pool := 0%Z |}.

(* tick 1: container 0 is created and runs its first operator; it stays active (2 CPUs, 3 GB) *)
Definition ex_s1 : estate :=
  Eval vm_compute in
    match exec_step ex_cfg ex_s0 [] [ex_a0] with Ok (s, _) => s | Err _ => ex_s0 end.
Example ex_tick1 : exec_step ex_cfg ex_s0 [] [ex_a0] = Ok (ex_s1, []).
Proof. vm_compute. reflexivity. Qed.

(* the world of tick 2 once the scheduler has created the Assignment object of [ex_a1] *)
Definition ex_w1 : world :=
  Eval vm_compute in
    match mk_assignments ex_cfg (e_world ex_s1) [ex_a1] with Ok w => w | Err _ => e_world ex_s1 end.
Example ex_w1_ok : mk_assignments ex_cfg (e_world ex_s1) [ex_a1] = Ok ex_w1.
Proof. vm_compute. reflexivity. Qed.
Definition ex_p1 : pool := Eval vm_compute in hd (new_pool 0 0%Z 0%Q) (e_pools ex_s1).

(* the hypotheses of the pool-level theorems hold for that pool and the batch of tick 2 *)
Example ex_hyps :
  cpu_conserved ex_p1 /\ ram_conserved ex_p1 /\ ids_ok 1 ex_p1 /\
  nodup_or_nosusp ex_p1 [ex_su] /\ conts_nonneg ex_p1 /\ asgs_pos [ex_a1] /\
  (0 <= p_avail_cpu ex_p1)%Z /\ (0 <= p_avail_ram ex_p1)%Q /\ length (live ex_p1) = 1.
Proof.
  split; [vm_compute; reflexivity|]. split; [vm_compute; reflexivity|].
  split.
  { split; [repeat constructor; intros []|]. intros c [<-|[]]. cbn. lia. }
  split; [right; repeat constructor; intros []|].
  split; [intros c [<-|[]]; cbn; split; [lia | discriminate]|].
  split; [intros a [<-|[]]; cbn; split; reflexivity|].
  split; [discriminate|]. split; [discriminate | reflexivity].
Qed.

(* tick 2 on that pool: container 0 is suspended and finishes suspending in the same tick
   (its 2 CPUs / 3 GB come back through [done]), container 1 is created, completes and is harvested
   (its 1 CPU / 2.5 GB come back through the result) *)
Example ex_pool_tick_ok :
  match pool_tick ex_cfg ex_w1 1 ex_p1 [ex_su] [ex_a1] with
  | Ok (_, next', p', res) =>
      next' = 2 /\ map r_cid res = [1] /\ map c_id (p_suspended p') = [0] /\ live p' = [] /\
      p_avail_cpu p' = 4%Z /\ (p_avail_ram p' == 8)%Q
  | Err _ => False
  end.
Proof. vm_compute. repeat split. Qed.

(* a tick after which a container remains live (tick 1 on the fresh pool) *)
Definition ex_w0 : world :=
  Eval vm_compute in
    match mk_assignments ex_cfg (e_world ex_s0) [ex_a0] with Ok w => w | Err _ => e_world ex_s0 end.
Example ex_pool_tick_live :
  match pool_tick ex_cfg ex_w0 0 (new_pool 0 4%Z 8%Q) [] [ex_a0] with
  | Ok (_, next', p', res) =>
      next' = 1 /\ res = [] /\ map c_id (live p') = [0] /\
      p_avail_cpu p' = 2%Z /\ (p_avail_ram p' == 5)%Q /\ p' = ex_p1
  | Err _ => False
  end.
Proof. vm_compute. repeat split. Qed.

(* overselling batches against the same pool (2 CPUs and 5 GB free) *)
Example ex_oversell_cpu :
  ((p_avail_cpu ex_p1 < sumZ (map a_cpu [ex_a1; ex_big]))%Z) /\
  pool_tick ex_cfg ex_w1 1 ex_p1 [] [ex_a1; ex_big] = Err EOversellCpu.
Proof. split; vm_compute; reflexivity. Qed.

Example ex_oversell_ram :
  ((p_avail_ram ex_p1 < sumQ (map a_ram [ex_fat]))%Q) /\
  pool_tick ex_cfg ex_w1 1 ex_p1 [] [ex_fat] = Err EOversellRam.
Proof. split; vm_compute; reflexivity. Qed.

(* the executor-level statements are not vacuous either: a two-step history *)
Definition ex_s2 : estate :=
  Eval vm_compute in
    match exec_step ex_cfg ex_s1 [ex_su] [ex_a1] with Ok (s, _) => s | Err _ => ex_s0 end.
Definition ex_res2 : list result :=
  Eval vm_compute in
    match exec_step ex_cfg ex_s1 [ex_su] [ex_a1] with Ok (_, r) => r | Err _ => [] end.
Example ex_tick2 : exec_step ex_cfg ex_s1 [ex_su] [ex_a1] = Ok (ex_s2, ex_res2).
Proof. vm_compute. reflexivity. Qed.

Example ex_reach : reach_exec ex_cfg ex_s0 ex_s2 /\ e_next ex_s2 = 2 /\ length ex_res2 = 1.
Proof.
  split; [|split; reflexivity].
  eapply reach_step; [|exact ex_tick2]. eapply reach_step; [|exact ex_tick1]. apply reach_init.
Qed.

(* Why the id side condition of [pool_tick_conserve] cannot be dropped: two active containers that
   share an id. Suspending that id removes both from the active list and moves one. (No reachable
   state looks like this: [wf_inv].) *)
Definition bad_c : container :=
  {| c_id := 0; c_ops := []; c_cpu := 1%Z; c_ram := 1%Q; c_prio := Batch; c_opidx := 0;
     c_rest := None; c_frozen := false; c_mem := 0%Q; c_can_suspend := true;
     c_completed := false; c_error := false; c_ticks := 0%Z; c_susp_left := 0%Z |}.
Definition bad_p : pool :=
  {| p_id := 0; p_max_cpu := 2%Z; p_max_ram := 2%Q; p_avail_cpu := 0%Z; p_avail_ram := 0%Q;
     p_consumed := 0%Q; p_active := [bad_c; bad_c]; p_suspending := []; p_suspended := [];
     p_num_completed := 0%Z; p_tick_times := [] |}.

Example nodup_needed :
  cpu_conserved bad_p /\ ram_conserved bad_p /\
  match pool_tick ex_cfg ex_w1 1 bad_p [ex_su] [] with
  | Ok (_, _, p', _) => ~ cpu_conserved p'
  | Err _ => False
  end.
Proof.
  split; [vm_compute; reflexivity|]. split; [vm_compute; reflexivity|].
  vm_compute. intros H. discriminate H.
Qed.

End Examples.

(* ================= assumptions ================= *)

