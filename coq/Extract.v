(* Extraction for back end X. Only the two standard-library directive files are used;
   no Extract Constant / Extract Inductive of our own. *)
From Coq Require Import Extraction ExtrOcamlBasic ExtrOcamlZBigInt.
From Eudoxia Require Import Model.Run.
Set Extraction Output Directory ".".
Extraction "model.ml" run.
