(* The decision expressions of the shipped schedulers as harness/extract_sched.py normalises them: every
   if/while test, the assignments that size a container, the Assignment/Suspend calls, break/continue, module
   constants, in source order. Model/Sched.v was transcribed from exactly these; bridge obligations compare this
   file with the source on every run. *)
From Coq Require Import List String.
Import ListNotations.
Open Scope string_scope.

Definition sched_naive_src : list string :=
  ["naive_pipeline: test: len(pipelines) == 0 and len(results) == 0";
    "naive_pipeline: set: avail_cpu_pool = s.executor.pools[pool_id].avail_cpu_pool";
    "naive_pipeline: set: avail_ram_pool = s.executor.pools[pool_id].avail_ram_pool";
    "naive_pipeline: test: avail_cpu_pool <= 0 or avail_ram_pool <= 0";
    "naive_pipeline: continue";
    "naive_pipeline: test: s.waiting_queue";
    "naive_pipeline: set: has_failures = pipeline.runtime_status().state_counts[OperatorState.FAILED] > 0";
    "naive_pipeline: test: pipeline.runtime_status().is_pipeline_successful() or has_failures";
    "naive_pipeline: continue";
    "naive_pipeline: test: s.multi_operator_containers";
    "naive_pipeline: set: op_list = pipeline.runtime_status().get_ops(ASSIGNABLE_STATES, require_parents_complete=False)";
    "naive_pipeline: set: op_list = pipeline.runtime_status().get_ops(ASSIGNABLE_STATES, require_parents_complete=True)[:1]";
    "naive_pipeline: test: not op_list";
    "naive_pipeline: continue";
    "naive_pipeline: Assignment(ops=op_list, cpu=avail_cpu_pool, ram=avail_ram_pool, priority=pipeline.priority, pool_id=pool_id, pipeline_id=pipeline.pipeline_id)";
    "naive_pipeline: break"].

Definition sched_starter_src : list string :=
  ["starter_scheduler: test: not pipelines and (not results)";
    "starter_scheduler: set: avail_cpu = pool.avail_cpu_pool";
    "starter_scheduler: set: avail_ram = pool.avail_ram_pool";
    "starter_scheduler: test: avail_cpu <= 0 or avail_ram <= 0";
    "starter_scheduler: continue";
    "starter_scheduler: test: s.waiting_queue";
    "starter_scheduler: set: has_failures = status.state_counts[OperatorState.FAILED] > 0";
    "starter_scheduler: test: status.is_pipeline_successful() or has_failures";
    "starter_scheduler: continue";
    "starter_scheduler: set: op_list = status.get_ops(ASSIGNABLE_STATES, require_parents_complete=True)[:1]";
    "starter_scheduler: test: not op_list";
    "starter_scheduler: continue";
    "starter_scheduler: Assignment(ops=op_list, cpu=avail_cpu, ram=avail_ram, priority=pipeline.priority, pool_id=pool_id, pipeline_id=pipeline.pipeline_id)";
    "starter_scheduler: break"].

Definition sched_overbook_src : list string :=
  ["overbook_scheduler: test: not pipelines and (not results)";
    "update_state: test: r.failed()";
    "update_state: test: op.id in queued_ids";
    "update_state: continue";
    "try_make_assignment: test: avail >= 1";
    "try_make_assignment: Assignment(ops=[op], cpu=1, ram=pool.max_ram_pool, priority=op.pipeline.priority, pool_id=pool_id, pipeline_id=op.pipeline.pipeline_id)";
    "make_assignments: test: s.pipeline_failures[op.pipeline.pipeline_id] >= MAX_FAILURES";
    "make_assignments: continue";
    "make_assignments: test: not assignment";
    "const: MAX_FAILURES = 3"].

Definition sched_priority_src : list string :=
  ["get_pool_with_max_avail_ram: set: id_ = -1";
    "get_pool_with_max_avail_ram: set: max_ram = 0";
    "get_pool_with_max_avail_ram: test: pool_stats[i]['avail_cpu'] > 0 and max_ram < pool_stats[i]['avail_ram']";
    "get_pool_with_max_avail_ram: set: id_ = i";
    "get_pool_with_max_avail_ram: set: max_ram = pool_stats[i]['avail_ram']";
    "priority_scheduler: test: r.failed()";
    "priority_scheduler: test: op.state() != OperatorState.COMPLETED";
    "priority_scheduler: test: pipelines_to_process";
    "priority_scheduler: test: s.multi_operator_containers";
    "priority_scheduler: set: op_list = pipeline.runtime_status().get_ops(ASSIGNABLE_STATES, require_parents_complete=False)";
    "priority_scheduler: set: op_list = pipeline.runtime_status().get_ops(ASSIGNABLE_STATES, require_parents_complete=True)";
    "priority_scheduler: set: op_list = [op for op in op_list if op.id not in already_queued]";
    "priority_scheduler: test: len(op_list) == 0";
    "priority_scheduler: continue";
    "priority_scheduler: test: s.multi_operator_containers";
    "priority_scheduler: test: container.container_id in s.requeued_suspended";
    "priority_scheduler: continue";
    "priority_scheduler: test: job is None";
    "priority_scheduler: set: avail_cpu_pool = s.executor.pools[i].avail_cpu_pool";
    "priority_scheduler: set: avail_ram_pool = s.executor.pools[i].avail_ram_pool";
    "priority_scheduler: set: pool_id = get_pool_with_max_avail_ram(s, pool_stats)";
    "priority_scheduler: test: pool_id == -1";
    "priority_scheduler: break";
    "priority_scheduler: set: op_list = job.ops";
    "priority_scheduler: test: rs is not None and rs.error is not None";
    "priority_scheduler: set: job_cpu = 2 * rs.old_cpu";
    "priority_scheduler: set: job_ram = 2 * rs.old_ram";
    "priority_scheduler: test: job_cpu > pool_stats[pool_id]['avail_cpu'] or job_ram > pool_stats[pool_id]['avail_ram']";
    "priority_scheduler: continue";
    "priority_scheduler: set: cpu_ratio = job_cpu / pool_stats[pool_id]['total_cpu']";
    "priority_scheduler: set: ram_ratio = job_ram / pool_stats[pool_id]['total_ram']";
    "priority_scheduler: test: cpu_ratio >= 0.5 or ram_ratio >= 0.5";
    "priority_scheduler: continue";
    "priority_scheduler: Assignment(ops=op_list, cpu=job_cpu, ram=job_ram, priority=job.priority, pool_id=pool_id, pipeline_id=job.pipeline.pipeline_id if job.pipeline else 'unknown_pipeline')";
    "priority_scheduler: test: rs is not None and (rs.old_cpu < pool_stats[pool_id]['avail_cpu'] and rs.old_ram < pool_stats[pool_id]['avail_ram'])";
    "priority_scheduler: set: job_cpu = rs.old_cpu";
    "priority_scheduler: set: job_ram = rs.old_ram";
    "priority_scheduler: Assignment(ops=op_list, cpu=job_cpu, ram=job_ram, priority=job.priority, pool_id=pool_id, pipeline_id=job.pipeline.pipeline_id if job.pipeline else 'unknown_pipeline')";
    "priority_scheduler: set: job_cpu = max(1, int(pool_stats[pool_id]['total_cpu'] / 10))";
    "priority_scheduler: set: job_ram = max(1, int(pool_stats[pool_id]['total_ram'] / 10))";
    "priority_scheduler: test: job_cpu >= pool_stats[pool_id]['avail_cpu'] or job_ram >= pool_stats[pool_id]['avail_ram']";
    "priority_scheduler: set: job_cpu = pool_stats[pool_id]['avail_cpu']";
    "priority_scheduler: set: job_ram = pool_stats[pool_id]['avail_ram']";
    "priority_scheduler: Assignment(ops=op_list, cpu=job_cpu, ram=job_ram, priority=job.priority, pool_id=pool_id, pipeline_id=job.pipeline.pipeline_id if job.pipeline else 'unknown_pipeline')";
    "priority_scheduler: test: len(s.qry_jobs) > 0";
    "priority_scheduler: set: num_to_suspend = len(s.qry_jobs)";
    "priority_scheduler: set: pool_id = 0";
    "priority_scheduler: test: cnt < num_to_suspend";
    "priority_scheduler: test: all(exhausted)";
    "priority_scheduler: break";
    "priority_scheduler: test: container.priority == Priority.QUERY";
    "priority_scheduler: test: container.can_suspend_container()";
    "priority_scheduler: set: pool_id = (pool_id + 1) % s.executor.num_pools";
    "priority_scheduler: Suspend(sus.container_id, sus.pool_id)"].

Definition sched_priority_pool_src : list string :=
  ["priority_pool_scheduler: test: p.priority == Priority.QUERY";
    "priority_pool_scheduler: test: p.priority == Priority.INTERACTIVE";
    "priority_pool_scheduler: test: p.priority == Priority.BATCH_PIPELINE";
    "priority_pool_scheduler: test: f.priority == Priority.QUERY";
    "priority_pool_scheduler: test: f.priority == Priority.INTERACTIVE";
    "priority_pool_scheduler: test: f.priority == Priority.BATCH_PIPELINE";
    "priority_pool_scheduler: test: container.container_id in s.suspending";
    "priority_pool_scheduler: test: job.priority == Priority.QUERY";
    "priority_pool_scheduler: test: job.priority == Priority.INTERACTIVE";
    "priority_pool_scheduler: test: job.priority == Priority.BATCH_PIPELINE";
    "priority_pool_scheduler: set: avail_cpu_pool = s.executor.pools[i].avail_cpu_pool";
    "priority_pool_scheduler: set: avail_ram_pool = s.executor.pools[i].avail_ram_pool";
    "priority_pool_scheduler: set: avail_ram = pool_stats[pool_id]['avail_ram']";
    "priority_pool_scheduler: set: avail_cpu = pool_stats[pool_id]['avail_cpu']";
    "priority_pool_scheduler: test: avail_ram == 0 or avail_cpu == 0";
    "priority_pool_scheduler: break";
    "priority_pool_scheduler: set: op_list = job.ops";
    "priority_pool_scheduler: test: rs is not None and rs.error is not None";
    "priority_pool_scheduler: set: job_cpu = 2 * rs.old_cpu";
    "priority_pool_scheduler: set: job_ram = 2 * rs.old_ram";
    "priority_pool_scheduler: set: cpu_ratio = job_cpu / pool_stats[pool_id]['total_cpu']";
    "priority_pool_scheduler: set: ram_ratio = job_ram / pool_stats[pool_id]['total_ram']";
    "priority_pool_scheduler: test: cpu_ratio >= 0.5 or ram_ratio >= 0.5";
    "priority_pool_scheduler: continue";
    "priority_pool_scheduler: test: job_cpu >= pool_stats[pool_id]['avail_cpu'] or job_ram >= pool_stats[pool_id]['avail_ram']";
    "priority_pool_scheduler: set: job_cpu = pool_stats[pool_id]['avail_cpu']";
    "priority_pool_scheduler: set: job_ram = pool_stats[pool_id]['avail_ram']";
    "priority_pool_scheduler: Assignment(ops=op_list, cpu=job_cpu, ram=job_ram, pool_id=pool_id, priority=job.priority, pipeline_id=job.pipeline.pipeline_id if job.pipeline else 'unknown')";
    "priority_pool_scheduler: test: rs is not None and (rs.old_cpu <= pool_stats[pool_id]['avail_cpu'] and rs.old_ram <= pool_stats[pool_id]['avail_ram'])";
    "priority_pool_scheduler: set: job_cpu = rs.old_cpu";
    "priority_pool_scheduler: set: job_ram = rs.old_ram";
    "priority_pool_scheduler: test: job_cpu == pool_stats[pool_id]['avail_cpu'] or job_ram == pool_stats[pool_id]['avail_ram']";
    "priority_pool_scheduler: set: job_cpu = pool_stats[pool_id]['avail_cpu']";
    "priority_pool_scheduler: set: job_ram = pool_stats[pool_id]['avail_ram']";
    "priority_pool_scheduler: Assignment(ops=op_list, cpu=job_cpu, ram=job_ram, pool_id=pool_id, priority=job.priority, pipeline_id=job.pipeline.pipeline_id if job.pipeline else 'unknown')";
    "priority_pool_scheduler: set: job_cpu = max(1, int(pool_stats[pool_id]['total_cpu'] / 10))";
    "priority_pool_scheduler: set: job_ram = max(1, int(pool_stats[pool_id]['total_ram'] / 10))";
    "priority_pool_scheduler: test: job_cpu >= pool_stats[pool_id]['avail_cpu'] or job_ram >= pool_stats[pool_id]['avail_ram']";
    "priority_pool_scheduler: set: job_cpu = pool_stats[pool_id]['avail_cpu']";
    "priority_pool_scheduler: set: job_ram = pool_stats[pool_id]['avail_ram']";
    "priority_pool_scheduler: Assignment(ops=op_list, cpu=job_cpu, ram=job_ram, pool_id=pool_id, priority=job.priority, pipeline_id=job.pipeline.pipeline_id if job.pipeline else 'unknown')"].
