(* Case runners for the lifecycle and DAG-iteration correspondences. *)
From Coq Require Import ZArith List Bool.
Import ListNotations.
From Eudoxia Require Import Model.Types Model.Dag Model.Lifecycle Model.Codec.

(* kind 1: DAG iteration. input: dag; output: list(pipeline.values) as insertion indices *)
Definition run_dag (l : list Z) : list Z :=
  match run_dec ddag l with
  | Some g => if wf_dagb g then eL eN (iterate g) else bad_input
  | None => bad_input
  end.

(* kind 2: a request history on a set of pipelines. A refused request leaves the world as it was
   (the Python object stays usable after the AssertionError) and the history continues. *)
Definition dump_world (S : static) (w : world) : list Z :=
  eL eost (w_st w)
  ++ flat_map (fun k =>
       map (cnt_of w k) all_ostates
       ++ eB (is_successful S w k) ++ eB (has_failures w k)
       ++ eL eN (get_ops S w k assignable false)
       ++ eL eN (get_ops S w k assignable true)
       ++ eL eN (get_ops S w k (ostate_eqb Pending) true)
       ++ eL eN (get_ops S w k (fun a => ostate_eqb a Completed || ostate_eqb a Failed) false))
     (seq 0 (length (s_pipes S))).

Fixpoint life_steps (S : static) (w : world) (reqs : list (nat * ostate)) : list Z * world :=
  match reqs with
  | [] => ([], w)
  | (op, new) :: t =>
      match transition S w op new with
      | Ok w' => let '(o, wf) := life_steps S w' t in (0%Z :: o, wf)
      | Err e => let '(o, wf) := life_steps S w t in (err_code e :: o, wf)
      end
  end.

Definition dpipes : dec (list (prio * dag)) := dlist (dpair dprio ddag).

Definition run_life (l : list Z) : list Z :=
  match run_dec (dpair dpipes (dlist (dpair dnat dost))) l with
  | Some (ps, reqs) =>
      if forallb (fun pg => wf_dagb (snd pg)) ps then
        let S := mk_static ps in
        if forallb (fun r => Nat.ltb (fst r) (length (s_ops S))) reqs then
          let '(o, w) := life_steps S (init_world S) reqs in
          o ++ dump_world S w
        else bad_input
      else bad_input
  | None => bad_input
  end.
