(* Case runner for whole simulations (kind 5). *)
From Coq Require Import ZArith QArith List Bool Arith.
Import ListNotations.
Close Scope Q_scope.
From Eudoxia Require Import Num.Rnd64 Model.Types Model.Dag Model.Lifecycle Model.Container Model.Pool
  Model.Executor Model.Sched Model.Simulator Model.Codec Model.RunExec.

Definition algo_of_Z (z : Z) : algo :=
  match z with
  | 0 => ANaive | 1 => AStarter | 2 => AOverbook | 3 => APriority | _ => APriorityPool
  end%Z.

Definition dump_asg (a : asg) : list Z :=
  eL eN (a_ops a) ++ [a_cpu a] ++ eQ (a_ram a) ++ [prio_val (a_prio a); a_pool a].
Definition dump_susp (s : susp) : list Z := eN (su_cid s) ++ [su_pool s].

Definition dump_tick (mask : Z) (s : sim) (lg : tick_log) : list Z :=
  (if bit mask 1 then eL dump_susp (tl_susp lg) ++ eL dump_asg (tl_asgs lg) else [])
  ++ (if bit mask 2 then eL dump_result (tl_results lg) else [])
  ++ (if bit mask 4 then eL eN (tl_finished lg) else [])
  ++ (if bit mask 8 then flat_map (fun p => [p_avail_cpu p] ++ eQ (p_avail_ram p)) (e_pools (sm_exec s)) else [])
  ++ (if bit mask 16 then eL eost (w_st (e_world (sm_exec s))) else []).

Definition dump_pstats (p : pstats) : list Z :=
  [pst_arrivals p; pst_completions p] ++ eO eQ (pst_mean p) ++ eO eQ (pst_p99 p).

Definition dump_stats (st : stats) : list Z :=
  [st_created st; st_completed st] ++ eQ (st_throughput st) ++ eO eQ (st_p99 st)
  ++ [st_assignments st; st_suspensions st; st_failures st]
  ++ dump_pstats (st_all st) ++ dump_pstats (st_query st) ++ dump_pstats (st_interactive st)
  ++ dump_pstats (st_batch st).

(* Between ticks the runner puts every rational of the state into lowest terms. The model's decisions
   depend on rationals only through ==-invariant operations (comparisons, arithmetic, rnd64 — see
   Rnd64Facts.rnd64_proper), so this changes no answer; without it a policy that hands a whole pool's free
   RAM to one container squares the denominator of that fraction in every cycle. *)
Definition norm_container (c : container) : container :=
  {| c_id := c_id c; c_ops := c_ops c; c_cpu := c_cpu c; c_ram := Qred (c_ram c); c_prio := c_prio c;
     c_opidx := c_opidx c; c_rest := c_rest c; c_frozen := c_frozen c; c_mem := Qred (c_mem c);
     c_can_suspend := c_can_suspend c; c_completed := c_completed c; c_error := c_error c;
     c_ticks := c_ticks c; c_susp_left := c_susp_left c |}.
Definition norm_pool (p : pool) : pool :=
  {| p_id := p_id p; p_max_cpu := p_max_cpu p; p_max_ram := p_max_ram p;
     p_avail_cpu := p_avail_cpu p; p_avail_ram := Qred (p_avail_ram p); p_consumed := Qred (p_consumed p);
     p_active := map norm_container (p_active p); p_suspending := map norm_container (p_suspending p);
     p_suspended := map norm_container (p_suspended p);
     p_num_completed := p_num_completed p; p_tick_times := p_tick_times p |}.
Definition norm_result (r : result) : result :=
  {| r_cid := r_cid r; r_ops := r_ops r; r_cpu := r_cpu r; r_ram := Qred (r_ram r); r_prio := r_prio r;
     r_pool := r_pool r; r_err := r_err r |}.
Definition norm_sim (s : sim) : sim :=
  {| sm_exec := {| e_world := e_world (sm_exec s); e_pools := map norm_pool (e_pools (sm_exec s));
                   e_next := e_next (sm_exec s) |};
     sm_sched := sm_sched s; sm_results := map norm_result (sm_results s);
     sm_outstanding := sm_outstanding s; sm_arrival := sm_arrival s; sm_lat := sm_lat s;
     sm_created := sm_created s; sm_nasg := sm_nasg s; sm_nsusp := sm_nsusp s; sm_nfail := sm_nfail s |}.

Fixpoint sim_dump (C : cfg) (a : algo) (mask : Z) (tick : Z) (s : sim) (arrivals : list (list nat))
  : list Z * option sim :=
  match arrivals with
  | [] => ([], Some s)
  | newp :: t =>
      match sim_tick C a tick s newp with
      | Err e => ([err_code e], None)
      | Ok (s', lg) =>
          let '(o, f) := sim_dump C a mask (tick + 1)%Z (norm_sim s') t in
          (0%Z :: dump_tick mask s' lg ++ o, f)
      end
  end.

(* the wire form of [sim_main] (Model/Simulator.v): the same two start-up checks around [sim_dump]. A refusal
   before the first tick is the bare error code (no tick record), as for any error raised in tick 0; with
   total RAM zero the record of tick 0 is followed by the error code of the utilisation statement *)
Definition sim_dump_main (C : cfg) (a : algo) (mask : Z) (np : nat) (cpu : Z) (ram : Q)
           (arrivals : list (list nat)) : list Z * option sim :=
  let s0 := init_sim C np cpu ram in
  if negb (pool_count_ok a np) then ([err_code ESchedAssert], None)
  else if total_ram_zero np ram then
    match arrivals with
    | [] => ([], Some s0)
    | newp :: _ =>
        match sim_tick C a 0%Z s0 newp with
        | Err e => ([err_code e], None)
        | Ok (s1, lg) => (0%Z :: dump_tick mask s1 lg ++ [err_code EOther], None)
        end
    end
  else sim_dump C a mask 0%Z s0 arrivals.

(* arrivals: list of (tick, pipeline); batches for ticks 0 .. n-1 in list order *)
Fixpoint batches (n : nat) (tick : Z) (arr : list (Z * nat)) : list (list nat) :=
  match n with
  | O => []
  | S n' => map snd (filter (fun x => (fst x =? tick)%Z) arr) :: batches n' (tick + 1)%Z arr
  end.

Definition run_sim (l : list Z) : list Z :=
  match run_dec (dlet al <- dZ; dlet tps <- dZ; dlet over <- dbool; dlet multi <- dbool; dlet np <- dnat;
                 dlet cpu <- dZ; dlet ram <- dQ; dlet dur <- dQ;
                 dlet pipes <- dlist (dpair dprio ddag); dlet scripts <- dscripts; dlet mask <- dZ;
                 dlet arr <- dlist (dpair dZ dnat);
                 dret (al, tps, over, multi, np, cpu, ram, dur, pipes, scripts, mask, arr)) l with
  | Some (al, tps, over, multi, np, cpu, ram, dur, pipes, scripts, mask, arr) =>
      if forallb (fun pg => wf_dagb (snd pg)) pipes && (0 <? tps)%Z
         && forallb (fun x => Nat.ltb (snd x) (length pipes)) arr then
        let C := {| cf_static := mk_static pipes; cf_script := lookup_script scripts; cf_tps := tps;
                    cf_overcommit := over; cf_multi := multi; cf_rnd := rnd64 |} in
        (* max_ticks = int(duration * ticks_per_second) *)
        let nticks := Z.to_nat (truncQ (rnd64 (dur * inject_Z tps)%Q)) in
        let '(o, f) := sim_dump_main C (algo_of_Z al) mask np cpu ram (batches nticks 0%Z arr) in
        match f with
        | Some s => o ++ [99%Z] ++ dump_stats (final_stats C dur s)
        | None => o
        end
      else bad_input
  | None => bad_input
  end.
