(* Case runners for trace replay (kind 13) and the gentrace round trip (kind 23).
   They execute [replay_at_fast], proved equal to [replay_at] (Proofs/TraceFacts.v replay_at_fast_eq). *)
From Coq Require Import ZArith QArith List Bool Arith.
Import ListNotations.
Close Scope Q_scope.
From Eudoxia Require Import Num.Rnd64 Model.Codec Model.Trace.

(* deliveries on the wire: only the ticks in which something was returned, as (offset from the first
   tick, file positions) *)
Fixpoint sparse_from (t : nat) (l : list (list nat)) : list (nat * list nat) :=
  match l with
  | [] => []
  | [] :: r => sparse_from (S t) r
  | d :: r => (t, d) :: sparse_from (S t) r
  end.

Definition enc_deliveries (l : list (list nat)) : list Z :=
  eL (fun td : nat * list nat => eN (fst td) ++ eL eN (snd td)) (sparse_from 0 l).

(* kind 13. input: tps, current_tick at the start (0 for a fresh WorkloadTrace), number of
   run_one_tick calls, the arrival_seconds column (exact rationals of the parsed floats);
   output: what each call returned *)
Definition run_trace (l : list Z) : list Z :=
  match run_dec (dlet tps <- dZ; dlet start <- dZ; dlet n <- dnat; dlet arrs <- dlist dQ;
                 dret (tps, start, n, arrs)) l with
  | Some (tps, start, n, arrs) =>
      if (0 <? tps)%Z && (0 <=? start)%Z then enc_deliveries (replay_at_fast rnd64 tps start arrs n)
      else bad_input
  | None => bad_input
  end.

(* kind 23. input: tps, number of run_one_tick calls of the replay, the generation tick of every
   pipeline; output: the arrival_seconds column generate_rows writes, and the replay of that column *)
Definition run_gentrace (l : list Z) : list Z :=
  match run_dec (dlet tps <- dZ; dlet n <- dnat; dlet ticks <- dlist dZ; dret (tps, n, ticks)) l with
  | Some (tps, n, ticks) =>
      if (0 <? tps)%Z && forallb (fun t => 0 <=? t)%Z ticks then
        let arrs := map (gen_arrival rnd64 tps) ticks in
        eL eQ arrs ++ enc_deliveries (replay_at_fast rnd64 tps 0 arrs n)
      else bad_input
  | None => bad_input
  end.
