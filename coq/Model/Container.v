(* Container (eudoxia/executor/container.py) with the generator _tick_generator unrolled into an
   explicit position. Definitions only.

   Timing enters as [cf_script op cpus]: the per-tick memory demand of operator [op] when run with
   [cpus] CPUs, one entry per tick the operator occupies (Model/Timing.v computes it from the segments;
   executor-level theorems hold for every script function). *)
From Coq Require Import ZArith QArith List Bool Arith.
Import ListNotations.
Close Scope Q_scope.
From Eudoxia Require Import Num.Rnd64 Model.Types Model.Dag Model.Lifecycle.

Record cfg := {
  cf_static : static;
  cf_script : nat -> Z -> list Q;
  cf_tps : Z;
  cf_overcommit : bool;
  cf_multi : bool;
  cf_rnd : Q -> Q            (* rounding of float operations: rnd64, or the identity for exact theorems *)
}.

Record container := {
  c_id : nat;
  c_ops : list nat;
  c_cpu : Z;
  c_ram : Q;
  c_prio : prio;
  c_opidx : nat;                 (* _current_op_idx: operators before it are COMPLETED *)
  c_rest : option (list Q);      (* remaining ticks of the current operator; None: not yet started *)
  c_frozen : bool;               (* stuck in `while self._current_memory > self.assignment.ram: yield` *)
  c_mem : Q;                     (* _current_memory *)
  c_can_suspend : bool;
  c_completed : bool;
  c_error : bool;                (* error is "OOM" / None *)
  c_ticks : Z;                   (* _ticks_elapsed *)
  c_susp_left : Z                (* _suspend_ticks_left, meaningful while suspending *)
}.

Definition new_container (id : nat) (ops : list nat) (cpu : Z) (ram : Q) (pr : prio) : container :=
  {| c_id := id; c_ops := ops; c_cpu := cpu; c_ram := ram; c_prio := pr; c_opidx := 0;
     c_rest := None; c_frozen := false; c_mem := 0%Q; c_can_suspend := false;
     c_completed := false; c_error := false; c_ticks := 0%Z; c_susp_left := 0%Z |}.

(* set_current_memory_usage: delta = new - cur; pool.consumed_ram_gb += delta *)
Definition set_mem (C : cfg) (c : container) (consumed : Q) (m : Q) : container * Q :=
  let delta := cf_rnd C (m - c_mem c)%Q in
  ({| c_id := c_id c; c_ops := c_ops c; c_cpu := c_cpu c; c_ram := c_ram c; c_prio := c_prio c;
      c_opidx := c_opidx c; c_rest := c_rest c; c_frozen := c_frozen c; c_mem := m;
      c_can_suspend := c_can_suspend c; c_completed := c_completed c; c_error := c_error c;
      c_ticks := c_ticks c; c_susp_left := c_susp_left c |},
   cf_rnd C (consumed + delta)%Q).

Definition with_pos (c : container) (idx : nat) (rest : option (list Q)) (frozen cs : bool) : container :=
  {| c_id := c_id c; c_ops := c_ops c; c_cpu := c_cpu c; c_ram := c_ram c; c_prio := c_prio c;
     c_opidx := idx; c_rest := rest; c_frozen := frozen; c_mem := c_mem c;
     c_can_suspend := cs; c_completed := c_completed c; c_error := c_error c;
     c_ticks := c_ticks c; c_susp_left := c_susp_left c |}.

Definition tick_elapsed (c : container) : container :=
  {| c_id := c_id c; c_ops := c_ops c; c_cpu := c_cpu c; c_ram := c_ram c; c_prio := c_prio c;
     c_opidx := c_opidx c; c_rest := c_rest c; c_frozen := c_frozen c; c_mem := c_mem c;
     c_can_suspend := c_can_suspend c; c_completed := c_completed c; c_error := c_error c;
     c_ticks := (c_ticks c + 1)%Z; c_susp_left := c_susp_left c |}.

(* _mark_completed(error): error recorded, completed, memory zeroed through set_current_memory_usage *)
Definition mark_completed (C : cfg) (c : container) (consumed : Q) (error : bool) : container * Q :=
  let '(c1, cons1) := set_mem C c consumed 0%Q in
  ({| c_id := c_id c1; c_ops := c_ops c1; c_cpu := c_cpu c1; c_ram := c_ram c1; c_prio := c_prio c1;
      c_opidx := c_opidx c1; c_rest := c_rest c1; c_frozen := c_frozen c1; c_mem := c_mem c1;
      c_can_suspend := c_can_suspend c1; c_completed := true; c_error := error;
      c_ticks := c_ticks c1; c_susp_left := c_susp_left c1 |}, cons1).

(* Container.tick(): one resume of the generator *)
Definition ctick (C : cfg) (w : world) (consumed : Q) (c : container) : res (world * Q * container) :=
  if c_completed c then Ok (w, consumed, c)
  else if c_frozen c then Ok (w, consumed, tick_elapsed c)
  else
    match nth_error (c_ops c) (c_opidx c) with
    | None => Err EStopIter
    | Some op =>
        do wr <- match c_rest c with
                 | Some r => Ok (w, r)
                 | None => do w' <- transition (cf_static C) w op Running;
                           Ok (w', cf_script C op (c_cpu c))
                 end;
        let '(w1, rest) := wr in
        match rest with
        | [] => Err EOther
        | m :: rest' =>
            let '(c1, cons1) := set_mem C c consumed m in
            if Qltb (c_ram c) m then
              Ok (w1, cons1, tick_elapsed (with_pos c1 (c_opidx c) (Some rest) true (c_can_suspend c)))
            else
              match rest' with
              | _ :: _ => Ok (w1, cons1, tick_elapsed (with_pos c1 (c_opidx c) (Some rest') false false))
              | [] =>
                  do w2 <- transition (cf_static C) w1 op Completed;
                  let idx' := S (c_opidx c) in
                  if Nat.eqb idx' (length (c_ops c)) then
                    let '(c2, cons2) := mark_completed C (with_pos c1 idx' None false false) cons1 false in
                    Ok (w2, cons2, tick_elapsed c2)
                  else Ok (w2, cons1, tick_elapsed (with_pos c1 idx' None false true))
              end
        end
    end.

(* kill("OOM"): operators from _current_op_idx on go to FAILED, then _mark_completed(error) *)
Definition ckill (C : cfg) (w : world) (consumed : Q) (c : container) : res (world * Q * container) :=
  if c_completed c then Err EOther
  else
    do w' <- transition_all (cf_static C) w (skipn (c_opidx c) (c_ops c)) Failed;
    let '(c', cons') := mark_completed C c consumed true in
    Ok (w', cons', c').

(* suspend duration: max(1, int((ram / 20) / tick_length_secs)) *)
Definition suspend_ticks (C : cfg) (ram : Q) : Z :=
  Z.max 1 (truncQ (cf_rnd C (cf_rnd C (ram / 20)%Q / cf_rnd C (1 / inject_Z (cf_tps C))%Q)%Q)).

Definition with_susp (c : container) (left : Z) : container :=
  {| c_id := c_id c; c_ops := c_ops c; c_cpu := c_cpu c; c_ram := c_ram c; c_prio := c_prio c;
     c_opidx := c_opidx c; c_rest := c_rest c; c_frozen := c_frozen c; c_mem := c_mem c;
     c_can_suspend := c_can_suspend c; c_completed := c_completed c; c_error := c_error c;
     c_ticks := c_ticks c; c_susp_left := left |}.

(* suspend_container(): remaining operators ASSIGNED -> SUSPENDING *)
Definition csuspend (C : cfg) (w : world) (c : container) : res (world * container) :=
  do w' <- transition_all (cf_static C) w (skipn (c_opidx c) (c_ops c)) Suspending;
  Ok (w', with_susp c (suspend_ticks C (c_ram c))).

(* suspend_container_tick(): on reaching exactly 0 the operators return to PENDING *)
Definition csuspend_tick (C : cfg) (w : world) (c : container) : res (world * container) :=
  let left := (c_susp_left c - 1)%Z in
  let c' := with_susp c left in
  if (left =? 0)%Z then
    do w' <- transition_all (cf_static C) w (skipn (c_opidx c) (c_ops c)) Pending; Ok (w', c')
  else Ok (w, c').

Definition is_suspended (c : container) : bool := (c_susp_left c =? 0)%Z.
