(* Token types in which harness/extract.py describes the statement structure of small source
   functions. The model either interprets such a token list (check_transition) or records the list
   it was transcribed from (transition); Bridge obligations compare them with what the source says
   now. *)
From Coq Require Import List.
From Eudoxia Require Import Model.Types.

Inductive ck_step :=
| CkTable                              (* refuse unless new_state in VALID_TRANSITIONS[current] *)
| CkParents (when need : ostate)       (* if new_state == when: refuse unless all parents are [need] *)
| CkAccept.                            (* return (True, None) *)

Inductive tr_step := TrCheck | TrAssert | TrReadOld | TrDecOld | TrIncNew | TrSet.
