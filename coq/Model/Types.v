(* Basic types shared by the whole model. Definitions only, no proofs. *)
From Coq Require Import ZArith QArith List Bool.
Import ListNotations.
Close Scope Q_scope.
Close Scope Z_scope.

(* OperatorState (eudoxia/workload/runtime_status.py). *)
Inductive ostate := Pending | Assigned | Running | Suspending | Completed | Failed.

Definition ostate_eqb (a b : ostate) : bool :=
  match a, b with
  | Pending, Pending | Assigned, Assigned | Running, Running
  | Suspending, Suspending | Completed, Completed | Failed, Failed => true
  | _, _ => false
  end.

(* position in [state_counts] and wire code in the case encoding *)
Definition ost_idx (a : ostate) : nat :=
  match a with
  | Pending => 0 | Assigned => 1 | Running => 2
  | Suspending => 3 | Completed => 4 | Failed => 5
  end.
Definition ost_of_nat (n : nat) : ostate :=
  match n with
  | 0 => Pending | 1 => Assigned | 2 => Running
  | 3 => Suspending | 4 => Completed | _ => Failed
  end.
Definition all_ostates : list ostate :=
  [Pending; Assigned; Running; Suspending; Completed; Failed].

(* Priority (eudoxia/utils/utils.py): the enum values give the order, QUERY highest. *)
Inductive prio := Query | Interactive | Batch.
Definition prio_val (p : prio) : Z :=
  match p with Query => 1 | Interactive => 2 | Batch => 3 end.
Definition prio_of_Z (z : Z) : prio :=
  if (z =? 1)%Z then Query else if (z =? 2)%Z then Interactive else Batch.
Definition prio_eqb (a b : prio) : bool := (prio_val a =? prio_val b)%Z.

(* Classes of exceptions that end a run. The harness maps Python exceptions onto these. *)
Inductive err :=
| EDep            (* "Dependencies not satisfied" *)
| ETransition     (* "Cannot transition operator ..." *)
| EOversellCpu    (* "Overallocated CPU in assignment" *)
| EOversellRam    (* "Overallocated RAM in assignment" *)
| EBadSuspend     (* container cannot be suspended / unknown container *)
| EOpCount        (* operator-count assertion of the pool *)
| EBadAssignArgs  (* Assignment.__init__ assertions: no operators, cpu <= 0, ram <= 0 *)
| EBadPool        (* command names a pool that does not exist *)
| EStopIter       (* generator ran off its end *)
| ESchedAssert    (* an assertion inside a scheduler *)
| EOther.

Definition err_code (e : err) : Z :=
  match e with
  | EDep => 1 | ETransition => 2 | EOversellCpu => 3 | EOversellRam => 4
  | EBadSuspend => 5 | EOpCount => 6 | EBadAssignArgs => 7 | EBadPool => 8
  | EStopIter => 9 | ESchedAssert => 10 | EOther => 11
  end%Z.

Inductive res (A : Type) := Ok (a : A) | Err (e : err).
Arguments Ok {A} a.
Arguments Err {A} e.

Definition bind {A B} (r : res A) (f : A -> res B) : res B :=
  match r with Ok a => f a | Err e => Err e end.
Notation "'do' x <- r ; k" := (bind r (fun x => k))
  (at level 200, x pattern, r at level 100, k at level 200, right associativity).

(* list helpers used across the model *)
Definition get {A} (d : A) (l : list A) (i : nat) : A := nth i l d.
Fixpoint set_nth {A} (l : list A) (i : nat) (v : A) : list A :=
  match l, i with
  | [], _ => []
  | _ :: t, O => v :: t
  | h :: t, S i' => h :: set_nth t i' v
  end.

Definition memb (x : nat) (l : list nat) : bool := existsb (Nat.eqb x) l.

Fixpoint sumZ (l : list Z) : Z :=
  match l with [] => 0%Z | x :: t => (x + sumZ t)%Z end.
Fixpoint sumQ (l : list Q) : Q :=
  match l with [] => 0%Q | x :: t => (x + sumQ t)%Q end.

Definition Qleb (a b : Q) : bool := Qle_bool a b.
Definition Qltb (a b : Q) : bool := negb (Qle_bool b a).
Definition Qeqb (a b : Q) : bool := Qeq_bool a b.
