(* ResourcePool.run_one_tick (eudoxia/executor/resource_pool.py), in its exact order.
   Definitions only. *)
From Coq Require Import ZArith QArith Qabs List Bool Arith.
Import ListNotations.
Close Scope Q_scope.
From Eudoxia Require Import Num.Rnd64 Model.Types Model.Dag Model.Lifecycle Model.Container.

Record asg := { a_ops : list nat; a_cpu : Z; a_ram : Q; a_prio : prio; a_pool : Z }.
Record susp := { su_cid : nat; su_pool : Z }.
Record result := {
  r_cid : nat; r_ops : list nat; r_cpu : Z; r_ram : Q; r_prio : prio; r_pool : nat; r_err : bool }.

Record pool := {
  p_id : nat;
  p_max_cpu : Z; p_max_ram : Q;
  p_avail_cpu : Z; p_avail_ram : Q;
  p_consumed : Q;
  p_active : list container;
  p_suspending : list container;
  p_suspended : list container;
  p_num_completed : Z;
  p_tick_times : list Z            (* container_tick_times, in append order *)
}.

Definition new_pool (id : nat) (cpu : Z) (ram : Q) : pool :=
  {| p_id := id; p_max_cpu := cpu; p_max_ram := ram; p_avail_cpu := cpu; p_avail_ram := ram;
     p_consumed := 0%Q; p_active := []; p_suspending := []; p_suspended := [];
     p_num_completed := 0%Z; p_tick_times := [] |}.

Definition upd_pool (p : pool) (acpu : Z) (aram cons : Q) (act sing sed : list container)
           (nc : Z) (tt : list Z) : pool :=
  {| p_id := p_id p; p_max_cpu := p_max_cpu p; p_max_ram := p_max_ram p;
     p_avail_cpu := acpu; p_avail_ram := aram; p_consumed := cons;
     p_active := act; p_suspending := sing; p_suspended := sed;
     p_num_completed := nc; p_tick_times := tt |}.

Definition find_container (cid : nat) (l : list container) : option container :=
  find (fun c => Nat.eqb (c_id c) cid) l.
Definition remove_container (cid : nat) (l : list container) : list container :=
  filter (fun c => negb (Nat.eqb (c_id c) cid)) l.

(* _reconcile_consumed_ram: sum(c.get_current_memory_usage() for c in active).
   CPython >= 3.12 sums floats with Neumaier's compensated algorithm (Python/bltinmodule.c): the start
   value is the int 0, so the first item is taken exactly; every further item x does
   t = f + x; c += (|f| >= |x| ? (f - t) + x : (x - t) + f); f = t; and the compensation is added at
   the end if it is non-zero. Memory values are Python floats here (the harness builds segments with
   float fields; see DESIGN.md, trusted base). *)
Definition neumaier_step (rnd : Q -> Q) (fc : Q * Q) (x : Q) : Q * Q :=
  let '(f, c) := fc in
  let t := rnd (f + x)%Q in
  let c' := if Qleb (Qabs x) (Qabs f)
            then rnd (c + rnd (rnd (f - t) + x))%Q
            else rnd (c + rnd (rnd (x - t) + f))%Q in
  (t, c').

Definition py_sum (rnd : Q -> Q) (l : list Q) : Q :=
  match l with
  | [] => 0%Q
  | x :: t =>
      let '(f, c) := fold_left (neumaier_step rnd) t (x, 0%Q) in
      if Qeqb c 0%Q then f else rnd (f + c)%Q
  end.

Definition reconcile (C : cfg) (act : list container) : Q := py_sum (cf_rnd C) (map c_mem act).

(* ---- phase 1: suspensions ---- *)
Fixpoint verify_suspends (act : list container) (ss : list susp) : res unit :=
  match ss with
  | [] => Ok tt
  | s :: t =>
      match find_container (su_cid s) act with
      | None => Err EBadSuspend
      | Some c => if c_can_suspend c then verify_suspends act t else Err EBadSuspend
      end
  end.

Fixpoint apply_suspends (C : cfg) (w : world) (act sing : list container) (ss : list susp)
  : res (world * list container * list container) :=
  match ss with
  | [] => Ok (w, act, sing)
  | s :: t =>
      match find_container (su_cid s) act with
      | None => Err EBadSuspend
      | Some c =>
          do wc <- csuspend C w c;
          let '(w', c') := wc in
          apply_suspends C w' (remove_container (su_cid s) act) (sing ++ [c']) t
      end
  end.

(* ---- phase 2: assignments ---- *)
Definition verify_assignments (C : cfg) (p : pool) (asgs : list asg) : res unit :=
  let cpu := sumZ (map a_cpu asgs) in
  let ram := sumQ (map a_ram asgs) in
  if (p_avail_cpu p <? cpu)%Z then Err EOversellCpu
  else if negb (cf_overcommit C) && Qltb (p_avail_ram p) ram then Err EOversellRam
  else Ok tt.

Definition opcount_ok (C : cfg) (a : asg) : bool :=
  if cf_multi C then Nat.leb 1 (length (a_ops a)) else Nat.eqb (length (a_ops a)) 1.

Fixpoint apply_assignments (C : cfg) (next : nat) (acpu : Z) (aram : Q) (act : list container)
         (asgs : list asg) : res (nat * Z * Q * list container) :=
  match asgs with
  | [] => Ok (next, acpu, aram, act)
  | a :: t =>
      if opcount_ok C a then
        apply_assignments C (S next) (acpu - a_cpu a)%Z (aram - a_ram a)%Q
                          (act ++ [new_container next (a_ops a) (a_cpu a) (a_ram a) (a_prio a)]) t
      else Err EOpCount
  end.

(* ---- phase 3: suspending containers ---- *)
Fixpoint tick_suspending (C : cfg) (w : world) (sing : list container)
  : res (world * list container) :=
  match sing with
  | [] => Ok (w, [])
  | c :: t =>
      do wc <- csuspend_tick C w c;
      let '(w', c') := wc in
      do wt <- tick_suspending C w' t;
      let '(w'', t') := wt in
      Ok (w'', c' :: t')
  end.

(* ---- phase 4: active containers ---- *)
Fixpoint tick_active (C : cfg) (w : world) (cons : Q) (act : list container)
  : res (world * Q * list container) :=
  match act with
  | [] => Ok (w, cons, [])
  | c :: t =>
      do r <- ctick C w cons c;
      let '(w', cons', c') := r in
      do rt <- tick_active C w' cons' t;
      let '(w'', cons'', t') := rt in
      Ok (w'', cons'', c' :: t')
  end.

(* ---- phase 5: _run_out_of_memory_killer ---- *)
(* step 1: every active container over its own limit *)
Fixpoint kill_over_limit (C : cfg) (w : world) (cons : Q) (act : list container)
  : res (world * Q * list container) :=
  match act with
  | [] => Ok (w, cons, [])
  | c :: t =>
      do r <- (if Qltb (c_ram c) (c_mem c) then ckill C w cons c else Ok (w, cons, c));
      let '(w', cons', c') := r in
      do rt <- kill_over_limit C w' cons' t;
      let '(w'', cons'', t') := rt in
      Ok (w'', cons'', c' :: t')
  end.

(* score = consumption_gb * (consumption_gb / allocation), two float operations *)
Definition score (C : cfg) (c : container) : Q :=
  cf_rnd C (c_mem c * cf_rnd C (c_mem c / c_ram c)%Q)%Q.

Definition scorable (c : container) : bool := negb (c_completed c) && Qltb 0%Q (c_mem c).

(* stable sort, descending by score: list.sort(key=..., reverse=True) keeps the original order of
   equal keys *)
Fixpoint insert_desc (x : Q * nat) (l : list (Q * nat)) : list (Q * nat) :=
  match l with
  | [] => [x]
  | y :: t => if Qltb (fst x) (fst y) then y :: insert_desc x t else x :: l
  end.
Definition sort_desc (l : list (Q * nat)) : list (Q * nat) := fold_right insert_desc [] l.

Definition victims_order (C : cfg) (act : list container) : list nat :=
  map snd (sort_desc (map (fun c => (score C c, c_id c)) (filter scorable act))).

Fixpoint replace_container (c' : container) (l : list container) : list container :=
  match l with
  | [] => []
  | c :: t => if Nat.eqb (c_id c) (c_id c') then c' :: t else c :: replace_container c' t
  end.

Fixpoint kill_until_fits (C : cfg) (max_ram : Q) (w : world) (cons : Q) (act : list container)
         (order : list nat) : res (world * Q * list container) :=
  match order with
  | [] => Ok (w, cons, act)
  | cid :: t =>
      if Qleb cons max_ram then Ok (w, cons, act)
      else
        match find_container cid act with
        | None => Err EOther
        | Some c =>
            do r <- ckill C w cons c;
            let '(w', cons', c') := r in
            kill_until_fits C max_ram w' cons' (replace_container c' act) t
        end
  end.

Definition oom_killer (C : cfg) (max_ram : Q) (w : world) (cons : Q) (act : list container)
  : res (world * Q * list container) :=
  do r <- kill_over_limit C w cons act;
  let '(w1, cons1, act1) := r in
  if Qleb cons1 max_ram then Ok (w1, cons1, act1)
  else kill_until_fits C max_ram w1 cons1 act1 (victims_order C act1).

(* ---- phase 6: harvest completed containers ---- *)
Definition result_of (pid : nat) (c : container) : result :=
  {| r_cid := c_id c; r_ops := c_ops c; r_cpu := c_cpu c; r_ram := c_ram c; r_prio := c_prio c;
     r_pool := pid; r_err := c_error c |}.

Definition pool_tick (C : cfg) (w : world) (next : nat) (p : pool) (ss : list susp) (asgs : list asg)
  : res (world * nat * pool * list result) :=
  (* 1. suspensions (then the consumed memory is recomputed) *)
  do r1 <- match ss with
           | [] => Ok (w, p_active p, p_suspending p, p_consumed p)
           | _ =>
               do _ <- verify_suspends (p_active p) ss;
               do r <- apply_suspends C w (p_active p) (p_suspending p) ss;
               let '(w', act, sing) := r in Ok (w', act, sing, reconcile C act)
           end;
  let '(w1, act1, sing1, cons1) := r1 in
  (* 2. assignments *)
  do r2 <- match asgs with
           | [] => Ok (next, p_avail_cpu p, p_avail_ram p, act1)
           | _ =>
               do _ <- verify_assignments C p asgs;
               apply_assignments C next (p_avail_cpu p) (p_avail_ram p) act1 asgs
           end;
  let '(next2, acpu2, aram2, act2) := r2 in
  (* 3. suspending containers *)
  do r3 <- tick_suspending C w1 sing1;
  let '(w3, sing3) := r3 in
  let done := filter is_suspended sing3 in
  let acpu3 := (acpu2 + sumZ (map c_cpu done))%Z in
  let aram3 := fold_left (fun a c => (a + c_ram c)%Q) done aram2 in
  let sing3' := filter (fun c => negb (is_suspended c)) sing3 in
  let sed3 := p_suspended p ++ done in
  (* 4. active containers *)
  do r4 <- tick_active C w3 cons1 act2;
  let '(w4, cons4, act4) := r4 in
  (* 5. OOM killer *)
  do r5 <- oom_killer C (p_max_ram p) w4 cons4 act4;
  let '(w5, cons5, act5) := r5 in
  (* 6. harvest *)
  let fin := filter c_completed act5 in
  let acpu6 := (acpu3 + sumZ (map c_cpu fin))%Z in
  let aram6 := fold_left (fun a c => (a + c_ram c)%Q) fin aram3 in
  let nc := (p_num_completed p + Z.of_nat (length (filter (fun c => negb (c_error c)) fin)))%Z in
  let act6 := filter (fun c => negb (c_completed c)) act5 in
  (* 7. reconcile when something exited *)
  let cons6 := match fin with [] => cons5 | _ => reconcile C act6 end in
  Ok (w5, next2,
      upd_pool p acpu6 aram6 cons6 act6 sing3' sed3 nc (p_tick_times p ++ map c_ticks fin),
      map (result_of (p_id p)) fin).
