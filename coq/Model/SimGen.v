(* The loop of run_simulator (eudoxia/simulator.py) with the scheduler as a PARAMETER.
   [gsim_tick] / [gsim_run] are [sim_tick] / [sim_run] of Model/Simulator.v, statement by statement (same
   bookkeeping, same logs), with the call [sched_step C a] replaced by an arbitrary [step : gstep SS]:
   a function from (scheduler state, executor state, results of the last tick, newly arrived pipelines,
   tick number) to the new scheduler state, the world after the Assignment objects were created, the
   suspensions and the assignments. Proofs/SimGenFacts.v proves that with [lift_sched C a] the generic loop
   IS the existing one. Definitions only. *)
From Coq Require Import ZArith QArith List Bool Arith.
Import ListNotations.
Close Scope Q_scope.
From Eudoxia Require Import Num.Rnd64 Model.Types Model.Dag Model.Lifecycle Model.Container Model.Pool
  Model.Executor Model.Sched Model.Simulator.

(* any scheduler: Scheduler.run_one_tick(executor_results, new_pipelines), with the executor it was
   built around and the simulator's tick number *)
Definition gstep (SS : Type) : Type :=
  SS -> estate -> list result -> list nat -> Z -> res (SS * world * list susp * list asg).

(* the shipped schedulers as a [gstep] (they do not look at the tick number) *)
Definition lift_sched (C : cfg) (a : algo) : gstep sstate :=
  fun ss e results newp _ => sched_step C a ss e results newp.

(* [sim] of Model/Simulator.v with the scheduler state of type [SS] *)
Record gsim (SS : Type) := mkgsim {
  gm_exec : estate;
  gm_sched : SS;
  gm_results : list result;
  gm_outstanding : list nat;
  gm_arrival : list (nat * Z);
  gm_lat : list (prio * Z);
  gm_created : Z; gm_nasg : Z; gm_nsusp : Z; gm_nfail : Z
}.
Arguments mkgsim {SS}.
Arguments gm_exec {SS}. Arguments gm_sched {SS}. Arguments gm_results {SS}.
Arguments gm_outstanding {SS}. Arguments gm_arrival {SS}. Arguments gm_lat {SS}.
Arguments gm_created {SS}. Arguments gm_nasg {SS}. Arguments gm_nsusp {SS}. Arguments gm_nfail {SS}.

Definition ginit {SS} (C : cfg) (npools : nat) (cpu : Z) (ram : Q) (ss0 : SS) : gsim SS :=
  {| gm_exec := init_estate C npools cpu ram; gm_sched := ss0; gm_results := [];
     gm_outstanding := []; gm_arrival := []; gm_lat := [];
     gm_created := 0%Z; gm_nasg := 0%Z; gm_nsusp := 0%Z; gm_nfail := 0%Z |}.

Definition gsim_tick {SS} (C : cfg) (step : gstep SS) (tick : Z) (s : gsim SS) (newp : list nat)
  : res (gsim SS * tick_log) :=
  do arr <- record_arrivals tick newp (gm_arrival s);
  let outstanding := fold_left (fun l p => add_absent p l) newp (gm_outstanding s) in
  do d <- step (gm_sched s) (gm_exec s) (gm_results s) newp tick;
  let '(ss', w', susps, asgs) := d in
  let e1 := {| e_world := w'; e_pools := e_pools (gm_exec s); e_next := e_next (gm_exec s) |} in
  do er <- exec_tick C e1 susps asgs;
  let '(e2, results) := er in
  let fin := match results with
             | [] => []
             | _ => filter (fun p => is_successful (cf_static C) (e_world e2) p) outstanding
             end in
  let lat := map (fun p => (pd_prio (pipe_of (cf_static C) p), (tick - arrival_of p arr)%Z)) fin in
  Ok ({| gm_exec := e2; gm_sched := ss'; gm_results := results;
         gm_outstanding := filter (fun p => negb (memb p fin)) outstanding;
         gm_arrival := arr; gm_lat := gm_lat s ++ lat;
         gm_created := (gm_created s + Z.of_nat (length newp))%Z;
         gm_nasg := (gm_nasg s + Z.of_nat (length asgs))%Z;
         gm_nsusp := (gm_nsusp s + Z.of_nat (length susps))%Z;
         gm_nfail := (gm_nfail s + Z.of_nat (length (filter r_err results)))%Z |},
      {| tl_new := newp; tl_susp := susps; tl_asgs := asgs; tl_results := results; tl_finished := fin |}).

Fixpoint gsim_run {SS} (C : cfg) (step : gstep SS) (tick : Z) (s : gsim SS) (arrivals : list (list nat))
  : gsim SS * list tick_log * option err :=
  match arrivals with
  | [] => (s, [], None)
  | newp :: t =>
      match gsim_tick C step tick s newp with
      | Err e => (s, [], Some e)
      | Ok (s', lg) => let '(sf, logs, e) := gsim_run C step (tick + 1)%Z s' t in (sf, lg :: logs, e)
      end
  end.

(* the state BEFORE each tick that is started (entry k belongs to tick [tick + k]) *)
Fixpoint gsim_states {SS} (C : cfg) (step : gstep SS) (tick : Z) (s : gsim SS) (arrivals : list (list nat))
  : list (gsim SS) :=
  match arrivals with
  | [] => []
  | newp :: t =>
      s :: match gsim_tick C step tick s newp with
           | Err _ => []
           | Ok (s', _) => gsim_states C step (tick + 1)%Z s' t
           end
  end.

(* ---- conversions ---- *)

Definition g_of_sim (s : sim) : gsim sstate :=
  {| gm_exec := sm_exec s; gm_sched := sm_sched s; gm_results := sm_results s;
     gm_outstanding := sm_outstanding s; gm_arrival := sm_arrival s; gm_lat := sm_lat s;
     gm_created := sm_created s; gm_nasg := sm_nasg s; gm_nsusp := sm_nsusp s; gm_nfail := sm_nfail s |}.

Definition sim_of_g (s : gsim sstate) : sim :=
  {| sm_exec := gm_exec s; sm_sched := gm_sched s; sm_results := gm_results s;
     sm_outstanding := gm_outstanding s; sm_arrival := gm_arrival s; sm_lat := gm_lat s;
     sm_created := gm_created s; sm_nasg := gm_nasg s; sm_nsusp := gm_nsusp s; sm_nfail := gm_nfail s |}.

(* replace the scheduler-private state *)
Definition gwith {SS TT} (t : TT) (s : gsim SS) : gsim TT :=
  {| gm_exec := gm_exec s; gm_sched := t; gm_results := gm_results s;
     gm_outstanding := gm_outstanding s; gm_arrival := gm_arrival s; gm_lat := gm_lat s;
     gm_created := gm_created s; gm_nasg := gm_nasg s; gm_nsusp := gm_nsusp s; gm_nfail := gm_nfail s |}.

(* everything but the scheduler-private state *)
Definition gforget {SS} (s : gsim SS) : gsim unit := gwith tt s.

Definition gforget_run {SS} (r : gsim SS * list tick_log * option err) : gsim unit * list tick_log * option err :=
  let '(sf, logs, e) := r in (gforget sf, logs, e).

(* the statistics of a run: [final_stats] does not read the scheduler state *)
Definition gfinal_stats {SS} (C : cfg) (duration : Q) (s : gsim SS) : stats :=
  final_stats C duration (sim_of_g (gwith init_sstate s)).
