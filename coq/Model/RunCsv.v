(* Case runners for the trace-file model: kind 14 (rows -> pipelines or refusal), kind 24 (pipelines -> rows). *)
From Coq Require Import ZArith QArith List Bool Arith.
Import ListNotations.
Close Scope Q_scope.
From Eudoxia Require Import Model.Types Model.Timing Model.Codec Model.Csv.

(* a row: pid, arrival option, priority code, operator token, parents, cpu seconds, law code, memory option, read *)
Definition drow : dec row :=
  dlet pid <- dnat; dlet arr <- dopt dQ; dlet pr <- dnat; dlet op <- dnat; dlet ps <- dlist dnat;
  dlet cpu <- dQ; dlet lw <- dnat; dlet mem <- dopt dQ; dlet rd <- dQ;
  dret {| r_pid := pid; r_arr := arr; r_prio := pr; r_op := op; r_parents := ps; r_cpu := cpu;
          r_law := lw; r_mem := mem; r_read := rd |}.
Definition erow (r : row) : list Z :=
  eN (r_pid r) ++ eO eQ (r_arr r) ++ eN (r_prio r) ++ eN (r_op r) ++ eL eN (r_parents r) ++
  eQ (r_cpu r) ++ eN (r_law r) ++ eO eQ (r_mem r) ++ eQ (r_read r).

(* an operator: parents, cpu seconds, law code, memory option, read *)
Definition dop : dec op_m :=
  dlet ps <- dlist dnat; dlet cpu <- dQ; dlet lw <- dnat; dlet mem <- dopt dQ; dlet rd <- dQ;
  dret {| om_parents := ps;
          om_seg := {| sg_cpu_secs := cpu; sg_law := law_of_nat lw; sg_mem := mem; sg_read := rd |} |}.
Definition eop (o : op_m) : list Z :=
  eL eN (om_parents o) ++ eQ (sg_cpu_secs (om_seg o)) ++ eN (law_idx (sg_law (om_seg o))) ++
  eO eQ (sg_mem (om_seg o)) ++ eQ (sg_read (om_seg o)).

(* a pipeline: priority value, arrival, operators *)
Definition dpipe : dec pipeline_m :=
  dlet pr <- dprio; dlet arr <- dQ; dlet ops <- dlist dop;
  dret {| pm_prio := pr; pm_arr := arr; pm_ops := ops |}.
Definition epipe (ip : nat * pipeline_m) : list Z :=
  eN (fst ip) ++ [prio_val (pm_prio (snd ip))] ++ eQ (pm_arr (snd ip)) ++ eL eop (pm_ops (snd ip)).

(* kind 14. input: the rows of a file; output: 0, then per pipeline its pipeline_id token and contents; or [11] *)
Definition run_csv_read (l : list Z) : list Z :=
  match run_dec (dlist drow) l with
  | Some rows =>
      eres (fun ps => eL epipe (combine (batch_ids rows) ps)) (read_rows rows)
  | None => bad_input
  end.

(* kind 24. input: pipelines in writing order; output: the rows *)
Definition run_csv_write (l : list Z) : list Z :=
  match run_dec (dlist dpipe) l with
  | Some ps => eL erow (write_rows ps)
  | None => bad_input
  end.
