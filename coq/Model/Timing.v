(* The time and memory model of a segment/operator: ScalingFuncs, Segment.get_io_seconds /
   get_cpu_time / get_peak_memory_gb (eudoxia/workload/pipeline.py) and the tick arithmetic of
   Container._tick_generator (eudoxia/executor/container.py). Definitions only.

   Two versions: the float-faithful one (every Python float operation rounded with [rnd]) that the
   correspondence check compares with the implementation, and the exact specification the property
   text states. *)
From Coq Require Import ZArith QArith List Bool Arith String.
Import ListNotations.
Close Scope Q_scope.
From Eudoxia Require Import Num.Rnd64 Model.Types.

(* ScalingFuncs bodies as a small expression language; harness/extract.py translates the source
   into the same language and Bridge obligations compare. *)
Inductive law_expr :=
| LBase                                   (* baseline_cpu_seconds *)
| LCpus                                   (* num_cpus *)
| LConst (z : Z)
| LDiv (a b : law_expr)                   (* a / b *)
| LAdd (a b : law_expr)
| LIfLt (k : Z) (a b : law_expr)          (* a if num_cpus < k else b *)
| LLog (a : law_expr)                     (* np.log *)
| LSqrt (a : law_expr)                    (* np.sqrt *)
| LPow (a b : law_expr).                  (* np.power on integers *)

Inductive law := Const | Log | Sqrt | Linear3 | Linear7 | Squared | Exp.

Definition law_body (l : law) : law_expr :=
  match l with
  | Const   => LBase
  | Linear3 => LIfLt 3 (LDiv LBase LCpus) (LDiv LBase (LConst 3))
  | Linear7 => LIfLt 7 (LDiv LBase LCpus) (LDiv LBase (LConst 7))
  | Log     => LDiv LBase (LAdd (LLog LCpus) (LConst 1))
  | Sqrt    => LDiv LBase (LSqrt LCpus)
  | Squared => LDiv LBase (LPow LCpus (LConst 2))
  | Exp     => LDiv LBase (LIfLt 4 (LPow (LConst 2) LCpus) (LConst 16))
  end.

(* Segment.SCALING_FUNCS: name -> function, in the dict's order *)
Definition law_names : list (nat * law) :=
  [ (0, Const); (1, Log); (2, Sqrt); (3, Linear3); (4, Linear7); (5, Squared); (6, Exp) ].
Definition law_of_nat (n : nat) : law :=
  match n with 0 => Const | 1 => Log | 2 => Sqrt | 3 => Linear3 | 4 => Linear7 | 5 => Squared | _ => Exp end.
Definition law_idx (l : law) : nat :=
  match l with Const => 0 | Log => 1 | Sqrt => 2 | Linear3 => 3 | Linear7 => 4 | Squared => 5 | Exp => 6 end.

(* Segment.SCALING_FUNCS in the dict's order (bridge obligations law_names, law_bodies) *)
Definition law_table : list (string * law) :=
  [ ("const", Const); ("log", Log); ("sqrt", Sqrt); ("linear3", Linear3); ("linear7", Linear7);
    ("squared", Squared); ("exp", Exp) ]%string.

(* The source expressions this file (and suspend_ticks in Container.v) was transcribed from, as the
   extractor normalises them; bridge obligation segment_exprs compares with the source on every run. *)
Definition segment_exprs : list string :=
  ["get_io_seconds: return self.storage_read_gb / DISK_SCAN_GB_SEC"%string;
    "get_cpu_time: return self.scaling_func(num_cpus, self.baseline_cpu_seconds)"%string;
    "get_peak_memory_gb: if self.memory_gb is not None: return self.memory_gb ; return self.storage_read_gb"%string;
    "tick: seg_ticks = []"%string;
    "tick: seg_ticks.append([int(io_secs / self.tick_length_secs), int(cpu_secs / self.tick_length_secs)])"%string;
    "tick: seg_ticks[-1][1] = 1"%string;
    "tick: last_seg_idx = max((idx for idx, (io, cpu) in enumerate(seg_ticks) if io + cpu > 0))"%string;
    "tick: io_ticks, cpu_ticks = seg_ticks[seg_idx]"%string;
    "tick: total_seg_ticks = io_ticks + cpu_ticks"%string;
    "tick: self.set_current_memory_usage(seg.memory_gb)"%string;
    "tick: io_progress_secs = (i + 1) * self.tick_length_secs"%string;
    "tick: self.set_current_memory_usage(io_progress_secs * DISK_SCAN_GB_SEC)"%string;
    "tick: self.set_current_memory_usage(seg.get_peak_memory_gb())"%string;
    "init: self.tick_length_secs = 1.0 / ticks_per_second"%string;
    "suspend: write_to_disk_secs = self.assignment.ram / DISK_SCAN_GB_SEC"%string;
    "suspend: write_to_disk_ticks = max(1, int(write_to_disk_secs / self.tick_length_secs))"%string].

(* np.log / np.sqrt are not functions we can define: their values on the integers used enter as
   tables filled from numpy (exact rationals of the doubles). *)
Record mathtab := { mt_log : Z -> Q; mt_sqrt : Z -> Q }.

(* evaluation with rounding [rnd] at every float operation; integer-only subterms are exact *)
Fixpoint law_eval (rnd : Q -> Q) (mt : mathtab) (e : law_expr) (cpus : Z) (base : Q) : Q :=
  match e with
  | LBase => base
  | LCpus => inject_Z cpus
  | LConst z => inject_Z z
  | LDiv a b => rnd (law_eval rnd mt a cpus base / law_eval rnd mt b cpus base)%Q
  | LAdd a b => rnd (law_eval rnd mt a cpus base + law_eval rnd mt b cpus base)%Q
  | LIfLt k a b => if (cpus <? k)%Z then law_eval rnd mt a cpus base else law_eval rnd mt b cpus base
  | LLog a => mt_log mt (Qnum (law_eval rnd mt a cpus base))
  | LSqrt a => mt_sqrt mt (Qnum (law_eval rnd mt a cpus base))
  | LPow a b => inject_Z (Qnum (law_eval rnd mt a cpus base) ^ Qnum (law_eval rnd mt b cpus base))
  end.

Record seg := {
  sg_cpu_secs : Q;            (* baseline_cpu_seconds *)
  sg_law : law;
  sg_mem : option Q;          (* memory_gb; None = grows with I/O *)
  sg_read : Q                 (* storage_read_gb *)
}.

Definition disk_scan : Q := 20%Q.   (* DISK_SCAN_GB_SEC, bridge-checked *)

Definition cpu_time (rnd : Q -> Q) (mt : mathtab) (s : seg) (cpus : Z) : Q :=
  law_eval rnd mt (law_body (sg_law s)) cpus (sg_cpu_secs s).
Definition io_secs (rnd : Q -> Q) (s : seg) : Q := rnd (sg_read s / disk_scan)%Q.
Definition peak_mem (s : seg) : Q := match sg_mem s with Some m => m | None => sg_read s end.

(* int(secs / tick_length_secs) *)
Definition ticks_of (rnd : Q -> Q) (tps : Z) (secs : Q) : Z :=
  truncQ (rnd (secs / rnd (1 / inject_Z tps))%Q).

Definition seg_ticks (rnd : Q -> Q) (mt : mathtab) (tps cpus : Z) (s : seg) : Z * Z :=
  (ticks_of rnd tps (io_secs rnd s), ticks_of rnd tps (cpu_time rnd mt s cpus)).

(* "an operator occupies at least one tick": if every segment rounds to zero ticks, the last one
   gets one CPU tick (fix 6b74e0e) *)
Fixpoint bump_last (l : list (Z * Z)) : list (Z * Z) :=
  match l with
  | [] => []
  | [(io, _)] => [(io, 1%Z)]
  | x :: t => x :: bump_last t
  end.
Definition op_seg_ticks (rnd : Q -> Q) (mt : mathtab) (tps cpus : Z) (segs : list seg) : list (Z * Z) :=
  let l := map (seg_ticks rnd mt tps cpus) segs in
  if (sumZ (map (fun p => (fst p + snd p)%Z) l) =? 0)%Z then bump_last l else l.

(* memory during I/O tick i (0-based): fixed, or (i+1) * tick_length * 20, two float products *)
Definition io_mem (rnd : Q -> Q) (tps : Z) (s : seg) (i : Z) : Q :=
  match sg_mem s with
  | Some m => m
  | None => rnd (rnd (inject_Z (i + 1) * rnd (1 / inject_Z tps))%Q * disk_scan)%Q
  end.

Definition seg_script (rnd : Q -> Q) (tps : Z) (s : seg) (io cpu : Z) : list Q :=
  map (fun i => io_mem rnd tps s (Z.of_nat i)) (seq 0 (Z.to_nat io))
  ++ repeat (peak_mem s) (Z.to_nat cpu).

(* the per-tick demand of an operator: its segments one after the other *)
Definition op_script (rnd : Q -> Q) (mt : mathtab) (tps cpus : Z) (segs : list seg) : list Q :=
  flat_map (fun st => let '(s, (io, cpu)) := st in seg_script rnd tps s io cpu)
           (combine segs (op_seg_ticks rnd mt tps cpus segs)).

(* ---- the specification in exact arithmetic (property text / README) ---- *)
Definition spec_cpu_time (mt : mathtab) (s : seg) (cpus : Z) : Q :=
  law_eval (fun x => x) mt (law_body (sg_law s)) cpus (sg_cpu_secs s).
Definition spec_io_ticks (tps : Z) (s : seg) : Z := floorQ (sg_read s / 20 * inject_Z tps)%Q.
Definition spec_cpu_ticks (mt : mathtab) (tps cpus : Z) (s : seg) : Z :=
  floorQ (spec_cpu_time mt s cpus * inject_Z tps)%Q.
Definition spec_io_mem (tps : Z) (s : seg) (i : Z) : Q :=
  match sg_mem s with Some m => m | None => (inject_Z (i + 1) * 20 / inject_Z tps)%Q end.
