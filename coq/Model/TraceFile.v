(* Replaying a trace FILE:  eudoxia run -w trace.csv  =  WorkloadTrace(CSVWorkloadReader(file), ticks_per_second)
   driven by run_one_tick once per tick. Definitions only.

   Two models meet here and nothing is transcribed a second time:
     Model/CsvLazy.v  the reader as lazy generators and the consumer WorkloadTrace with its ONE batch of look-ahead
                      ([wt_init] = __init__, [wt_tick] = run_one_tick, [wt_replay]), where the test
                      "self.get_next_batch_tick() <= self.current_tick" of a call is an abstract predicate of next_batch;
     Model/Trace.v    (C13) the tick arithmetic of that test: [tick_length] = 1.0 / ticks_per_second,
                      [next_batch_tick] = arrival_seconds / self.tick_length_secs, [batch_arrival] =
                      self.next_batch[0].arrival_seconds, with the rounding function [rnd] applied at the two float
                      operations ([rnd := rnd64] the code as it is, [rnd := exact] the specification).
   [file_replay] instantiates the predicate of the former with the test of the latter: call number t (0-based) is made
   with current_tick = t, because __init__ sets current_tick = 0 and every call that returns increments it.
   A call that raises does not return (pipelines_to_return is lost with the frame) and the replay ends there. *)
From Coq Require Import ZArith QArith List Bool Arith.
Import ListNotations.
From Eudoxia Require Import Num.Rnd64 Model.Types Model.Timing Model.Csv Model.CsvLazy Model.Trace.
Close Scope Q_scope.
Close Scope Z_scope.

(* a PipelineArrival as Model/Trace.v sees it: an identifier and arrival_seconds *)
Definition as_item (a : arrival) : item := (fst a, pm_arr (snd a)).

(* "self.get_next_batch_tick() <= self.current_tick" with [key] = get_next_batch_tick as a function of
   next_batch[0].arrival_seconds and current_tick = cur (float against int: an exact comparison) *)
Definition key_ready (key : Q -> Q) (cur : Z) (b : list arrival) : bool :=
  Qle_bool (key (batch_arrival (map as_item b))) (inject_Z cur).

(* the test as WorkloadTrace computes it *)
Definition file_ready (rnd : Q -> Q) (tps : Z) (cur : Z) (b : list arrival) : bool :=
  key_ready (next_batch_tick rnd (tick_length rnd tps)) cur b.

(* the tests of the calls number s, s+1, .., s+n-1 *)
Definition key_readys (key : Q -> Q) (s n : nat) : list (list arrival -> bool) :=
  map (fun t => key_ready key (Z.of_nat t)) (seq s n).

(* tick_length_secs is computed once, in __init__ *)
Definition file_readys (rnd : Q -> Q) (tps : Z) (n : nat) : list (list arrival -> bool) :=
  let key := next_batch_tick rnd (tick_length rnd tps) in key_readys key 0 n.

(* WorkloadTrace(CSVWorkloadReader(rows), tps) and [nticks] calls of run_one_tick: what each call returned (each
   pipeline with its pipeline_id token), up to the call that raised, and the exception if the constructor or a call
   raised *)
Definition file_replay_with (rnd : Q -> Q) (tps : Z) (nticks : nat) (rows : list row)
  : list (list arrival) * option refusal :=
  wt_replay (file_readys rnd tps nticks) rows.

(* the code as it is *)
Definition file_replay (tps : Z) (nticks : nat) (rows : list row) : list (list arrival) * option refusal :=
  file_replay_with rnd64 tps nticks rows.

(* the moment at which the refusal of a malformed file reaches the caller: out of the constructor, or out of call
   number t of run_one_tick (t calls have returned before) *)
Inductive surfaced := AtConstruction | AtTick (t : nat).

Definition surfaced_in (rows : list row) (res : list (list arrival) * option refusal) : option surfaced :=
  match snd res with
  | None => None
  | Some _ => Some (match wt_init rows with inl _ => AtConstruction | inr _ => AtTick (length (fst res)) end)
  end.

Definition file_refusal_at (rnd : Q -> Q) (tps : Z) (nticks : nat) (rows : list row) : option surfaced :=
  surfaced_in rows (file_replay_with rnd tps nticks rows).

(* ------------------------------------------------------------------------------------------------------ *)
(* vocabulary of the statements *)

(* the pipelines of a file in file order, each with its pipeline_id token (what kind 14 answers), given the
   pipelines [ps] the eager reader [read_rows_c] returns *)
Definition file_pipelines (rows : list row) (ps : list pipeline_m) : list arrival := combine (batch_ids rows) ps.

(* the elements of [l] at the positions [is], in the order of [is] (positions outside [l] contribute nothing):
   C13's replay answers file positions, the file replay answers the pipelines at those positions *)
Definition select {A : Type} (l : list A) (is : list nat) : list A :=
  flat_map (fun i => match nth_error l i with Some x => [x] | None => [] end) is.

(* the longest well-formed prefix of a file: the rows of the pipelines before the first one that
   create_pipeline_from_batch refuses *)
Fixpoint good_batches (bs : list (list row)) : list (list row) :=
  match bs with
  | [] => []
  | b :: t => match create_pipeline b with inl _ => [] | inr _ => b :: good_batches t end
  end.
Definition good_prefix (rows : list row) : list row := concat (good_batches (batches rows)).

(* the tick of a pipeline as the code computes it: the first call whose current_tick is at or after
   get_next_batch_tick (Model/Trace.v [first_tick]) *)
Definition file_tick (rnd : Q -> Q) (tps : Z) (a : arrival) : Z :=
  first_tick (next_batch_tick rnd (tick_length rnd tps) (pm_arr (snd a))).
