(* The REST scheduler (eudoxia/scheduler/rest.py) as it is.
   1. the JSON schema: key names of every dict that crosses the wire (tied to the to_dict bodies, to the
      keys read by _parse_*, and to the json tags of go/eudoxia/types.go by bridge obligations);
   2. what a pipeline / an operator serialises to (Pipeline.to_dict, Operator.to_dict): the view records
      have no field for segments or resource needs;
   3. the scheduler's own bookkeeping (rest_init / rest_scheduler): tick counter, poll clock,
      other_pipelines (an insertion-ordered dict), operator_lookup; the executor is abstracted into the
      per-tick input (arrivals, number of results, which pipelines are successful);
   4. the reply: wire codec and _parse_suspensions / _parse_assignments.
   Definitions only. [rnd] is the rounding of a float operation ([rnd64] for the code, [fun x => x]
   for exact arithmetic). *)
From Coq Require Import ZArith QArith List Bool String.
Import ListNotations.
From Eudoxia Require Import Num.Rnd64 Model.Types Model.Lifecycle.
Close Scope Q_scope.
Close Scope Z_scope.
Close Scope string_scope.

(* ---------------------------------------------------------------------------------------------- *)
(* 1. key names *)

Definition request_keys : list string :=
  ["tick"; "sim_time_seconds"; "results"; "new_pipelines"; "other_pipelines"; "pools"]%string.
Definition response_keys : list string := ["suspensions"; "assignments"]%string.
Definition pipeline_keys : list string :=
  ["pipeline_id"; "priority"; "arrival_tick"; "is_complete"; "has_failures"; "operators"]%string.
Definition operator_keys : list string :=
  ["id"; "state"; "is_assignable_state"; "parents_complete"]%string.
Definition pool_keys : list string :=
  ["pool_id"; "max_cpu"; "max_ram_gb"; "avail_cpu"; "avail_ram_gb"; "consumed_ram_gb";
   "active_containers"; "suspending_containers"; "suspended_containers"]%string.
Definition container_keys : list string :=
  ["container_id"; "pipeline_id"; "operator_ids"; "cpu"; "ram_gb"; "current_memory_gb"; "priority"]%string.
Definition result_keys : list string :=
  ["ops"; "cpu"; "ram"; "priority"; "pool_id"; "container_id"; "error"]%string.
(* read by _parse_suspensions / _parse_assignments, in the order the code reads them *)
Definition suspension_keys : list string := ["container_id"; "pool_id"]%string.
Definition assignment_keys : list string :=
  ["operator_ids"; "cpu"; "ram_gb"; "priority"; "pool_id"; "is_resume"; "force_run"]%string.
(* values that may be null (None) on the wire *)
Definition nullable_keys : list (string * string) :=
  [("Pipeline", "arrival_tick"); ("ExecutionResult", "container_id"); ("ExecutionResult", "error")]%string.


(* the source text the model transcribes, statement by statement (timing and logging statements left out);
   compared with /repo by bridge obligations: any edit of these functions invalidates the model *)
Definition rest_init_src : list string :=
  ["s.rest_addr = s.params.get('rest_scheduler_addr', 'localhost:8080')";
   "s.rest_poll_interval = s.params.get('rest_poll_interval', 1.0)";
   "s.last_call_sim_time = 0.0";
   "s.current_tick = 0";
   "s.other_pipelines: Dict[str, Pipeline] = {}";
   "s.operator_lookup: Dict[str, Operator] = {}";
   "s.final_tick = int(s.params['duration'] * s.params['ticks_per_second'])";
   "url = f'http://{s.rest_addr}/init'";
   "payload = {";
   "'params': s.params";
   "}";
   "resp = requests.post(url, json=payload)";
   "resp.raise_for_status()"]%string.
Definition rest_scheduler_src : list string :=
  ["s.current_tick += 1";
   "ticks_per_second = s.params.get('ticks_per_second', 1000)";
   "current_sim_time = s.current_tick / ticks_per_second";
   "time_since_last = current_sim_time - s.last_call_sim_time";
   "if not pipelines and (not results) and (time_since_last < s.rest_poll_interval):";
   ". return ([], [])";
   "s.last_call_sim_time = current_sim_time";
   "for p in pipelines:";
   ". for op in p.values:";
   ". . s.operator_lookup[str(op.id)] = op";
   "payload = {";
   "'tick': s.current_tick";
   "'sim_time_seconds': current_sim_time";
   "'results': [r.to_dict() for r in results]";
   "'new_pipelines': [p.to_dict() for p in pipelines]";
   "'other_pipelines': [p.to_dict() for p in s.other_pipelines.values()]";
   "'pools': [pool.to_dict() for pool in s.executor.pools]";
   "}";
   "url = f'http://{s.rest_addr}/schedule'";
   "resp = requests.post(url, json=payload)";
   "resp.raise_for_status()";
   "response = resp.json()";
   "suspensions = _parse_suspensions(response['suspensions'])";
   "assignments = _parse_assignments(s, response['assignments'])";
   "for p in pipelines:";
   ". s.other_pipelines[p.pipeline_id] = p";
   "for pipeline_id in list(s.other_pipelines.keys()):";
   ". pipeline = s.other_pipelines[pipeline_id]";
   ". if pipeline.runtime_status().is_pipeline_successful():";
   ". . for op in pipeline.values:";
   ". . . del s.operator_lookup[str(op.id)]";
   ". . del s.other_pipelines[pipeline_id]";
   "return (suspensions, assignments)"]%string.
Definition assignment_fields : list string :=
  ["ops = [s.operator_lookup[op_id] for op_id in a['operator_ids']]";
   "ops=ops";
   "cpu=a['cpu']";
   "ram=a['ram_gb']";
   "priority=Priority[a['priority']]";
   "pool_id=a['pool_id']";
   "pipeline_id=ops[0].pipeline.pipeline_id";
   "is_resume=a['is_resume']";
   "force_run=a['force_run']";
   "assignments.append(assignment)"]%string.
Definition operator_to_dict_src : list string :=
  ["runtime = self.pipeline.runtime_status()";
   "state = runtime.operator_states[self]";
   "parents_complete = all((runtime.operator_states[p] == OperatorState.COMPLETED for p in self.parents))";
   "return {";
   "'id': str(self.id)";
   "'state': state.value";
   "'is_assignable_state': state in ASSIGNABLE_STATES";
   "'parents_complete': parents_complete";
   "}"]%string.
Definition pipeline_to_dict_src : list string :=
  ["runtime = self.runtime_status()";
   "return {";
   "'pipeline_id': self.pipeline_id";
   "'priority': self.priority.name";
   "'arrival_tick': runtime.arrival_tick";
   "'is_complete': runtime.is_pipeline_successful()";
   "'has_failures': runtime.state_counts[OperatorState.FAILED] > 0";
   "'operators': [op.to_dict() for op in self.values]";
   "}"]%string.

(* Go side (go/eudoxia/types.go): which json fields are pointers, i.e. can take null *)
Definition go_pointer_keys : list (string * string) :=
  [("Pipeline", "arrival_tick"); ("ExecutionResult", "error")]%string.

(* same set of keys (order is irrelevant in JSON objects) *)
Definition same_keys (a b : list string) : bool :=
  Nat.eqb (List.length a) (List.length b)
  && forallb (fun k => existsb (String.eqb k) b) a && forallb (fun k => existsb (String.eqb k) a) b.

(* ---------------------------------------------------------------------------------------------- *)
(* 2. serialisation of operators and pipelines *)

(* the true resource needs of a segment: never serialised *)
Record seg_need := { sn_cpu_secs : Q; sn_mem : option Q; sn_read : Q }.

(* an operator as the simulator knows it *)
Record op_true := {
  ot_id : Z;
  ot_state : ostate;
  ot_parent_states : list ostate;
  ot_needs : list seg_need }.

(* Operator.to_dict: exactly the keys [operator_keys] *)
Record op_view := {
  ov_id : Z;
  ov_state : ostate;
  ov_assignable : bool;
  ov_parents_complete : bool }.

Definition op_to_dict (o : op_true) : op_view :=
  {| ov_id := ot_id o;
     ov_state := ot_state o;
     ov_assignable := assignable (ot_state o);
     ov_parents_complete := forallb (ostate_eqb Completed) (ot_parent_states o) |}.

Record pipe_true := {
  pt_id : Z;
  pt_prio : prio;
  pt_arrival : option Z;
  pt_ops : list op_true }.

(* Pipeline.to_dict: exactly the keys [pipeline_keys] *)
Record pipe_view := {
  pv_id : Z;
  pv_prio : prio;
  pv_arrival : option Z;
  pv_complete : bool;
  pv_failures : bool;
  pv_ops : list op_view }.

Definition count_state (a : ostate) (ops : list op_true) : nat :=
  List.length (filter (fun o => ostate_eqb (ot_state o) a) ops).

Definition pipe_to_dict (p : pipe_true) : pipe_view :=
  {| pv_id := pt_id p;
     pv_prio := pt_prio p;
     pv_arrival := pt_arrival p;
     pv_complete := Nat.eqb (count_state Completed (pt_ops p)) (List.length (pt_ops p));
     pv_failures := Nat.ltb 0 (count_state Failed (pt_ops p));
     pv_ops := map op_to_dict (pt_ops p) |}.

(* replace the needs of every operator (used to state that the view does not depend on them) *)
Definition with_needs (f : Z -> list seg_need) (p : pipe_true) : pipe_true :=
  {| pt_id := pt_id p; pt_prio := pt_prio p; pt_arrival := pt_arrival p;
     pt_ops := map (fun o => {| ot_id := ot_id o; ot_state := ot_state o;
                                ot_parent_states := ot_parent_states o; ot_needs := f (ot_id o) |})
                   (pt_ops p) |}.

(* ---------------------------------------------------------------------------------------------- *)
(* 3. bookkeeping *)

Definition memZ (x : Z) (l : list Z) : bool := existsb (Z.eqb x) l.

(* a pipeline as far as the bookkeeping is concerned: its id and the ids of its operators *)
Definition pipe := (Z * list Z)%type.

Record rs := mkrs {
  rs_tick : Z;                  (* s.current_tick *)
  rs_last : Q;                  (* s.last_call_sim_time *)
  rs_other : list pipe;         (* s.other_pipelines, in dict order *)
  rs_lookup : list Z }.         (* keys of s.operator_lookup, in dict order *)

Definition rs_init : rs := mkrs 0%Z 0%Q [] [].

Record tick_in := mkin {
  ti_new : list pipe;           (* the tick's new pipelines *)
  ti_nres : nat;                (* len(results) *)
  ti_succ : list Z }.           (* ids p with p.runtime_status().is_pipeline_successful() in this tick *)

(* the part of the request body that the bookkeeping decides *)
Record payload := mkpl {
  pl_tick : Z;
  pl_time : Q;
  pl_nres : nat;
  pl_new : list (Z * bool);     (* pipeline_id, is_complete *)
  pl_other : list (Z * bool) }.

(* d[k] = v on an insertion-ordered dict *)
Fixpoint dict_set (d : list pipe) (k : Z) (v : list Z) : list pipe :=
  match d with
  | [] => [(k, v)]
  | (k', v') :: t => if (k' =? k)%Z then (k, v) :: t else (k', v') :: dict_set t k v
  end.

Definition key_add (l : list Z) (k : Z) : list Z := if memZ k l then l else l ++ [k].

(* for p in pipelines: for op in p.values: s.operator_lookup[str(op.id)] = op *)
Definition register (lookup : list Z) (new : list pipe) : list Z :=
  fold_left (fun lk p => fold_left key_add (snd p) lk) new lookup.

(* for p in pipelines: s.other_pipelines[p.pipeline_id] = p *)
Definition merge (other new : list pipe) : list pipe :=
  fold_left (fun d p => dict_set d (fst p) (snd p)) new other.

Definition view (succ : list Z) (p : pipe) : Z * bool := (fst p, memZ (fst p) succ).

Definition is_nil {A} (l : list A) : bool := match l with [] => true | _ => false end.

Definition now_of (rnd : Q -> Q) (tps tick : Z) : Q := rnd (inject_Z tick / inject_Z tps)%Q.
Definition since_of (rnd : Q -> Q) (now last : Q) : Q := rnd (now - last)%Q.

(* `not pipelines and not results and time_since_last < s.rest_poll_interval` *)
Definition early_return (rnd : Q -> Q) (tps : Z) (poll : Q) (st : rs) (i : tick_in) : bool :=
  let now := now_of rnd tps (rs_tick st + 1)%Z in
  is_nil (ti_new i) && Nat.eqb (ti_nres i) 0 && Qltb (since_of rnd now (rs_last st)) poll.

(* one invocation of rest_scheduler *)
Definition rest_step (rnd : Q -> Q) (tps : Z) (poll : Q) (st : rs) (i : tick_in) : rs * option payload :=
  let tick := (rs_tick st + 1)%Z in
  let now := now_of rnd tps tick in
  if early_return rnd tps poll st i then
    (mkrs tick (rs_last st) (rs_other st) (rs_lookup st), None)
  else
    let lookup1 := register (rs_lookup st) (ti_new i) in
    let pl := mkpl tick now (ti_nres i) (map (view (ti_succ i)) (ti_new i))
                   (map (view (ti_succ i)) (rs_other st)) in
    let other1 := merge (rs_other st) (ti_new i) in
    let dead := filter (fun p => memZ (fst p) (ti_succ i)) other1 in
    let other2 := filter (fun p => negb (memZ (fst p) (ti_succ i))) other1 in
    let dead_ops := flat_map snd dead in
    let lookup2 := filter (fun k => negb (memZ k dead_ops)) lookup1 in
    (mkrs tick now other2 lookup2, Some pl).

(* a whole run: the per-tick outputs (None = no request in that tick) and the final state *)
Fixpoint rest_run (rnd : Q -> Q) (tps : Z) (poll : Q) (st : rs) (ins : list tick_in)
  : list (option payload) * rs :=
  match ins with
  | [] => ([], st)
  | i :: t =>
      let '(st1, o) := rest_step rnd tps poll st i in
      let '(os, stn) := rest_run rnd tps poll st1 t in
      (o :: os, stn)
  end.

Definition outs rnd tps poll ins := fst (rest_run rnd tps poll rs_init ins).

(* the scheduler's state before tick k+1 (k ticks done), and the sim time of the last request among outputs *)
Definition state_before rnd tps poll (ins : list tick_in) (k : nat) : rs :=
  snd (rest_run rnd tps poll rs_init (firstn k ins)).
Definition last_time (os : list (option payload)) : Q :=
  fold_left (fun acc o => match o with Some p => pl_time p | None => acc end) os 0%Q.

(* ids mentioned in a request *)
Definition new_ids (p : payload) : list Z := map fst (pl_new p).
Definition other_ids (p : payload) : list Z := map fst (pl_other p).
Definition complete_ids (p : payload) : list Z :=
  map fst (filter snd (pl_new p ++ pl_other p)).
Definition arrivals (ins : list tick_in) : list Z := flat_map (fun i => map fst (ti_new i)) ins.

(* ---------------------------------------------------------------------------------------------- *)
(* 4. the reply *)

Record suspension := { su_container : Z; su_pool : Z }.
Record assignment := {
  as_ops : list Z;          (* operator_ids *)
  as_cpu : Q;
  as_ram : Q;
  as_prio : Z;              (* priority name: 1 QUERY, 2 INTERACTIVE, 3 BATCH_PIPELINE, anything else: no such name *)
  as_pool : Z;
  as_resume : bool;
  as_force : bool }.
Record reply := { rp_susp : list suspension; rp_asg : list assignment }.

(* wire form (flat integers), field by field in the order of [suspension_keys] / [assignment_keys] *)
Definition enc_bool (b : bool) : Z := if b then 1%Z else 0%Z.
Definition enc_Q (q : Q) : list Z := [Qnum q; Z.pos (Qden q)].
Definition enc_list {A} (f : A -> list Z) (l : list A) : list Z := Z.of_nat (List.length l) :: flat_map f l.
Definition enc_susp (s : suspension) : list Z := [su_container s; su_pool s].
Definition enc_asg (a : assignment) : list Z :=
  enc_list (fun x => [x]) (as_ops a) ++ enc_Q (as_cpu a) ++ enc_Q (as_ram a)
  ++ [as_prio a; as_pool a; enc_bool (as_resume a); enc_bool (as_force a)].
Definition encode_reply (r : reply) : list Z :=
  enc_list enc_susp (rp_susp r) ++ enc_list enc_asg (rp_asg r).

Definition wdec (A : Type) := list Z -> option (A * list Z).
Definition wZ : wdec Z := fun l => match l with x :: t => Some (x, t) | [] => None end.
Definition wbool : wdec bool :=
  fun l => match l with x :: t => if (x =? 0)%Z then Some (false, t)
                                  else if (x =? 1)%Z then Some (true, t) else None
                   | [] => None end.
Definition wQ : wdec Q :=
  fun l => match l with n :: d :: t => if (0 <? d)%Z then Some (Qmake n (Z.to_pos d), t) else None
                   | _ => None end.
Fixpoint wrep {A} (n : nat) (d : wdec A) : wdec (list A) :=
  fun l => match n with
           | O => Some ([], l)
           | S n' => match d l with
                     | Some (a, l1) => match wrep n' d l1 with
                                       | Some (t, l2) => Some (a :: t, l2)
                                       | None => None end
                     | None => None end
           end.
Definition wlist {A} (d : wdec A) : wdec (list A) :=
  fun l => match l with
           | n :: t => if (0 <=? n)%Z then wrep (Z.to_nat n) d t else None
           | [] => None end.
Definition wsusp : wdec suspension :=
  fun l => match l with c :: p :: t => Some ({| su_container := c; su_pool := p |}, t) | _ => None end.
Definition wasg : wdec assignment :=
  fun l =>
    match wlist wZ l with
    | Some (ops, l1) =>
      match wQ l1 with
      | Some (cpu, l2) =>
        match wQ l2 with
        | Some (ram, l3) =>
          match l3 with
          | pr :: pool :: l4 =>
            match wbool l4 with
            | Some (re, l5) =>
              match wbool l5 with
              | Some (fo, l6) =>
                  Some ({| as_ops := ops; as_cpu := cpu; as_ram := ram; as_prio := pr; as_pool := pool;
                           as_resume := re; as_force := fo |}, l6)
              | None => None end
            | None => None end
          | _ => None end
        | None => None end
      | None => None end
    | None => None end.

Definition decode_reply (l : list Z) : option reply :=
  match wlist wsusp l with
  | Some (ss, l1) =>
    match wlist wasg l1 with
    | Some (aa, []) => Some {| rp_susp := ss; rp_asg := aa |}
    | _ => None end
  | None => None end.

(* the objects the scheduler hands to the executor *)
Record suspend_obj := { so_container : Z; so_pool : Z }.
Record assign_obj := {
  ao_ops : list Z; ao_cpu : Q; ao_ram : Q; ao_prio : prio; ao_pool : Z; ao_pipeline : Z;
  ao_resume : bool; ao_force : bool }.

Inductive perr := PKeyOperator | PKeyPriority | PIndex | PArgs.
Definition perr_code (e : perr) : Z :=
  match e with PKeyOperator => 1 | PKeyPriority => 2 | PIndex => 3 | PArgs => 4 end%Z.

(* _parse_suspensions *)
Definition parse_suspensions (l : list suspension) : list suspend_obj :=
  map (fun s => {| so_container := su_container s; so_pool := su_pool s |}) l.

Fixpoint lookup_pipe (tab : list (Z * Z)) (op : Z) : option Z :=
  match tab with
  | [] => None
  | (k, p) :: t => if (k =? op)%Z then Some p else lookup_pipe t op
  end.

Definition prio_named (z : Z) : option prio :=
  if (z =? 1)%Z then Some Query else if (z =? 2)%Z then Some Interactive
  else if (z =? 3)%Z then Some Batch else None.

(* one iteration of the loop of _parse_assignments, in the evaluation order of the Python text:
   the operator lookups, Priority[...], ops[0], then the assertions of Assignment.__init__ *)
Definition parse_assignment (tab : list (Z * Z)) (a : assignment) : perr + assign_obj :=
  if forallb (fun o => match lookup_pipe tab o with Some _ => true | None => false end) (as_ops a) then
    match prio_named (as_prio a) with
    | None => inl PKeyPriority
    | Some pr =>
      match as_ops a with
      | [] => inl PIndex
      | o :: _ =>
        match lookup_pipe tab o with
        | None => inl PKeyOperator
        | Some pid =>
          if Qltb 0 (as_cpu a) && Qltb 0 (as_ram a) then
            inr {| ao_ops := as_ops a; ao_cpu := as_cpu a; ao_ram := as_ram a; ao_prio := pr;
                   ao_pool := as_pool a; ao_pipeline := pid; ao_resume := as_resume a;
                   ao_force := as_force a |}
          else inl PArgs
        end
      end
    end
  else inl PKeyOperator.

Fixpoint parse_assignments (tab : list (Z * Z)) (l : list assignment) : perr + list assign_obj :=
  match l with
  | [] => inr []
  | a :: t =>
      match parse_assignment tab a with
      | inl e => inl e
      | inr o => match parse_assignments tab t with
                 | inl e => inl e
                 | inr os => inr (o :: os)
                 end
      end
  end.

(* "executed exactly as given": every field of a decision object is the field of the reply *)
Definition same_decision (a : assignment) (o : assign_obj) : Prop :=
  ao_ops o = as_ops a /\ ao_cpu o = as_cpu a /\ ao_ram o = as_ram a /\ prio_val (ao_prio o) = as_prio a /\
  ao_pool o = as_pool a /\ ao_resume o = as_resume a /\ ao_force o = as_force a.
