(* The five shipped scheduling policies (eudoxia/scheduler/naive.py, overbook.py, priority.py,
   priority_pool.py and the starter template of eudoxia/__main__.py) as pure functions of
   (scheduler state, executor state, results of the last tick, newly arrived pipelines).
   Assignment objects are created inside the policies, so the operator states move to ASSIGNED at
   that moment (mk_assignment), exactly as in the code. Definitions only. *)
From Coq Require Import ZArith QArith List Bool Arith.
Import ListNotations.
Close Scope Q_scope.
From Eudoxia Require Import Num.Rnd64 Model.Types Model.Dag Model.Lifecycle Model.Container Model.Pool
  Model.Executor.

Inductive algo := ANaive | AStarter | AOverbook | APriority | APriorityPool.

(* RetryStats *)
Record retry := { rt_ram : Q; rt_cpu : Z; rt_err : bool; rt_cid : nat; rt_pool : nat }.
(* WaitingQueueJob *)
Record job := { j_prio : prio; j_pipe : nat; j_ops : list nat; j_retry : option retry }.

Record sstate := {
  ss_queue : list nat;             (* naive/starter: waiting pipelines; overbook: queued operators *)
  ss_fail : list (nat * Z);        (* overbook: pipeline -> failed containers *)
  ss_q : list job; ss_i : list job; ss_b : list job;   (* priority queues, high to low *)
  ss_suspending : list (nat * job);                    (* container id -> job, insertion ordered *)
  ss_requeued : list nat;                              (* priority: suspended containers already re-queued *)
  ss_oom : Z                                           (* oom_failed_to_run *)
}.

Definition init_sstate : sstate :=
  {| ss_queue := []; ss_fail := []; ss_q := []; ss_i := []; ss_b := [];
     ss_suspending := []; ss_requeued := []; ss_oom := 0%Z |}.

Definition with_queue (s : sstate) (q : list nat) : sstate :=
  {| ss_queue := q; ss_fail := ss_fail s; ss_q := ss_q s; ss_i := ss_i s; ss_b := ss_b s;
     ss_suspending := ss_suspending s; ss_requeued := ss_requeued s; ss_oom := ss_oom s |}.

Definition S_of (C : cfg) := cf_static C.
Definition prio_of_pipe (C : cfg) (k : nat) : prio := pd_prio (pipe_of (S_of C) k).

(* ------------------------------------------------------------------------------------------ *)
(* naive and the starter template *)

(* the inner `while s.waiting_queue:` loop for one pool; returns (remaining queue, requeue additions,
   world, optional assignment) *)
Fixpoint naive_scan (C : cfg) (single : bool) (w : world) (pool_id : nat) (acpu : Z) (aram : Q)
         (queue : list nat) : res (list nat * list nat * world * option asg) :=
  match queue with
  | [] => Ok ([], [], w, None)
  | p :: rest =>
      if is_successful (S_of C) w p || has_failures w p then naive_scan C single w pool_id acpu aram rest
      else
        let ops := if single then firstn 1 (get_ops (S_of C) w p assignable true)
                   else get_ops (S_of C) w p assignable false in
        match ops with
        | [] =>
            do r <- naive_scan C single w pool_id acpu aram rest;
            let '(q', rq, w', a) := r in Ok (q', p :: rq, w', a)
        | _ =>
            let a := {| a_ops := ops; a_cpu := acpu; a_ram := aram; a_prio := prio_of_pipe C p;
                        a_pool := Z.of_nat pool_id |} in
            do w' <- mk_assignment C w a;
            Ok (rest, [p], w', Some a)
        end
  end.

Fixpoint naive_pools (C : cfg) (single : bool) (w : world) (ps : list pool) (queue requeue : list nat)
         (acc : list asg) : res (list nat * list nat * world * list asg) :=
  match ps with
  | [] => Ok (queue, requeue, w, acc)
  | p :: t =>
      if (p_avail_cpu p <=? 0)%Z || Qleb (p_avail_ram p) 0%Q then naive_pools C single w t queue requeue acc
      else
        do r <- naive_scan C single w (p_id p) (p_avail_cpu p) (p_avail_ram p) queue;
        let '(q', rq, w', a) := r in
        naive_pools C single w' t q' (requeue ++ rq) (match a with Some x => acc ++ [x] | None => acc end)
  end.

(* [single]: one ready operator per container. naive: not multi_operator_containers; starter: always *)
Definition naive_step (C : cfg) (starter : bool) (s : sstate) (e : estate) (results : list result)
           (newp : list nat) : res (sstate * world * list susp * list asg) :=
  let w := e_world e in
  match newp, results with
  | [], [] => Ok (s, w, [], [])       (* (starter appends the empty arrival list first: no change) *)
  | _, _ =>
      let single := if starter then true else negb (cf_multi C) in
      do r <- naive_pools C single w (e_pools e) (ss_queue s ++ newp) [] [];
      let '(q, rq, w', asgs) := r in
      Ok (with_queue s (q ++ rq), w', [], asgs)
  end.

(* ------------------------------------------------------------------------------------------ *)
(* overbook *)

Definition max_failures : Z := 3.

Fixpoint add_absent (x : nat) (l : list nat) : list nat :=
  match l with [] => [x] | y :: t => if Nat.eqb x y then l else y :: add_absent x t end.

Fixpoint assoc_get (k : nat) (l : list (nat * Z)) : Z :=
  match l with [] => 0%Z | (a, v) :: t => if Nat.eqb a k then v else assoc_get k t end.
Fixpoint assoc_incr (k : nat) (l : list (nat * Z)) : list (nat * Z) :=
  match l with
  | [] => [(k, 1%Z)]
  | (a, v) :: t => if Nat.eqb a k then (a, (v + 1)%Z) :: t else (a, v) :: assoc_incr k t
  end.

(* pipelines_to_process and the failure counters; `only(r.ops)` raises unless there is exactly one op *)
Fixpoint ob_results (C : cfg) (results : list result) (proc : list nat) (fails : list (nat * Z))
  : res (list nat * list (nat * Z)) :=
  match results with
  | [] => Ok (proc, fails)
  | r :: t =>
      match r_ops r with
      | [op] =>
          let p := op_pipe (S_of C) op in
          ob_results C t (add_absent p proc) (if r_err r then assoc_incr p fails else fails)
      | _ => Err EOther
      end
  end.

Fixpoint ob_enqueue (ops : list nat) (queue : list nat) : list nat :=
  match ops with
  | [] => queue
  | o :: t => if memb o queue then ob_enqueue t queue else ob_enqueue t (queue ++ [o])
  end.

(* try_make_assignment: first pool (in pool order) with a free CPU in the snapshot *)
Fixpoint ob_find_pool (snap : list (nat * Z * Q)) : option (nat * Q * list (nat * Z * Q)) :=
  match snap with
  | [] => None
  | (pid, av, mr) :: t =>
      if (1 <=? av)%Z then Some (pid, mr, (pid, (av - 1)%Z, mr) :: t)
      else match ob_find_pool t with
           | Some (p, m, t') => Some (p, m, (pid, av, mr) :: t')
           | None => None
           end
  end.

Fixpoint ob_assign (C : cfg) (w : world) (fails : list (nat * Z)) (snap : list (nat * Z * Q))
         (queue : list nat) (acc : list asg) : res (list nat * world * list asg) :=
  match queue with
  | [] => Ok ([], w, acc)
  | op :: rest =>
      if (max_failures <=? assoc_get (op_pipe (S_of C) op) fails)%Z then ob_assign C w fails snap rest acc
      else if negb (assignable (st_of w op)) then Err ESchedAssert
      else
        match ob_find_pool snap with
        | None => Ok (queue, w, acc)
        | Some (pid, mr, snap') =>
            let a := {| a_ops := [op]; a_cpu := 1%Z; a_ram := mr;
                        a_prio := prio_of_pipe C (op_pipe (S_of C) op); a_pool := Z.of_nat pid |} in
            do w' <- mk_assignment C w a;
            ob_assign C w' fails snap' rest (acc ++ [a])
        end
  end.

Definition overbook_step (C : cfg) (s : sstate) (e : estate) (results : list result) (newp : list nat)
  : res (sstate * world * list susp * list asg) :=
  let w := e_world e in
  match newp, results with
  | [], [] => Ok (s, w, [], [])
  | _, _ =>
      do pf <- ob_results C results (fold_left (fun l p => add_absent p l) newp []) (ss_fail s);
      let '(proc, fails) := pf in
      let queue := fold_left (fun q p => ob_enqueue (get_ops (S_of C) w p assignable true) q) proc (ss_queue s) in
      let snap := map (fun p => (p_id p, p_avail_cpu p, p_max_ram p)) (e_pools e) in
      do r <- ob_assign C w fails snap queue [];
      let '(q', w', asgs) := r in
      Ok ({| ss_queue := q'; ss_fail := fails; ss_q := ss_q s; ss_i := ss_i s; ss_b := ss_b s;
             ss_suspending := ss_suspending s; ss_requeued := ss_requeued s; ss_oom := ss_oom s |},
          w', [], asgs)
  end.

(* ------------------------------------------------------------------------------------------ *)
(* priority and priority-pool: shared pieces *)

(* the per-pool snapshot: (avail_cpu, avail_ram, total_cpu, total_ram) *)
Definition pstat := (Z * Q * Z * Q)%type.
Definition snapshot (e : estate) : list pstat :=
  map (fun p => (p_avail_cpu p, p_avail_ram p, p_max_cpu p, p_max_ram p)) (e_pools e).
Definition ps_acpu (x : pstat) : Z := fst (fst (fst x)).
Definition ps_aram (x : pstat) : Q := snd (fst (fst x)).
Definition ps_tcpu (x : pstat) : Z := snd (fst x).
Definition ps_tram (x : pstat) : Q := snd x.
Definition ps_take (x : pstat) (cpu : Z) (ram : Q) : pstat :=
  ((ps_acpu x - cpu)%Z, (ps_aram x - ram)%Q, ps_tcpu x, ps_tram x).
Definition dummy_stat : pstat := (0%Z, 0%Q, 0%Z, 0%Q).

(* the new-job rule: max(1, int(total/10)), or everything that is free *)
Definition new_job_size (C : cfg) (x : pstat) : Z * Q :=
  let jc := Z.max 1 (truncQ (cf_rnd C (inject_Z (ps_tcpu x) / 10)%Q)) in
  let jr := inject_Z (Z.max 1 (truncQ (cf_rnd C (ps_tram x / 10)%Q))) in
  if (ps_acpu x <=? jc)%Z || Qleb (ps_aram x) jr then (ps_acpu x, ps_aram x) else (jc, jr).

(* the 50% cut-off of retries: two float divisions compared with 0.5 *)
Definition over_half (C : cfg) (x : pstat) (cpu : Z) (ram : Q) : bool :=
  Qleb (1 # 2)%Q (cf_rnd C (inject_Z cpu / inject_Z (ps_tcpu x))%Q)
  || Qleb (1 # 2)%Q (cf_rnd C (ram / ps_tram x)%Q).

Definition queue_of (s : sstate) (p : prio) : list job :=
  match p with Query => ss_q s | Interactive => ss_i s | Batch => ss_b s end.
Definition with_queues (s : sstate) (q i b : list job) : sstate :=
  {| ss_queue := ss_queue s; ss_fail := ss_fail s; ss_q := q; ss_i := i; ss_b := b;
     ss_suspending := ss_suspending s; ss_requeued := ss_requeued s; ss_oom := ss_oom s |}.
Definition push_job (s : sstate) (j : job) (p : prio) : sstate :=
  match p with
  | Query => with_queues s (ss_q s ++ [j]) (ss_i s) (ss_b s)
  | Interactive => with_queues s (ss_q s) (ss_i s ++ [j]) (ss_b s)
  | Batch => with_queues s (ss_q s) (ss_i s) (ss_b s ++ [j])
  end.

Definition not_completed_ops (w : world) (ops : list nat) : list nat :=
  filter (fun o => negb (ostate_eqb (st_of w o) Completed)) ops.

Fixpoint assoc_set {A} (k : nat) (v : A) (l : list (nat * A)) : list (nat * A) :=
  match l with
  | [] => [(k, v)]
  | (a, x) :: t => if Nat.eqb a k then (a, v) :: t else (a, x) :: assoc_set k v t
  end.
Fixpoint assoc_find {A} (k : nat) (l : list (nat * A)) : option A :=
  match l with [] => None | (a, x) :: t => if Nat.eqb a k then Some x else assoc_find k t end.
Definition assoc_del {A} (k : nat) (l : list (nat * A)) : list (nat * A) :=
  filter (fun ax => negb (Nat.eqb (fst ax) k)) l.

(* `for c in pool.suspending_containers: s.suspending[c.container_id] = job` (all pools in order) *)
Definition job_of_container (w : world) (pid : nat) (c : container) : res job :=
  match not_completed_ops w (c_ops c) with
  | [] => Err ESchedAssert
  | (o :: _) as ops =>
      Ok {| j_prio := c_prio c; j_pipe := 0 (* set by caller *); j_ops := ops;
            j_retry := Some {| rt_ram := c_ram c; rt_cpu := c_cpu c; rt_err := c_error c;
                               rt_cid := c_id c; rt_pool := pid |} |}
  end.
Definition job_with_pipe (C : cfg) (j : job) : job :=
  {| j_prio := j_prio j; j_pipe := op_pipe (S_of C) (hd 0 (j_ops j)); j_ops := j_ops j; j_retry := j_retry j |}.

Fixpoint note_suspending (C : cfg) (w : world) (pid : nat) (cs : list container) (m : list (nat * job))
  : res (list (nat * job)) :=
  match cs with
  | [] => Ok m
  | c :: t => do j <- job_of_container w pid c;
              note_suspending C w pid t (assoc_set (c_id c) (job_with_pipe C j) m)
  end.
Fixpoint note_suspending_pools (C : cfg) (w : world) (ps : list pool) (m : list (nat * job))
  : res (list (nat * job)) :=
  match ps with
  | [] => Ok m
  | p :: t => do m' <- note_suspending C w (p_id p) (p_suspending p) m; note_suspending_pools C w t m'
  end.

(* ------------------------------------------------------------------------------------------ *)
(* priority *)

(* retry_info: operator -> stats of the failed result it came from (later results overwrite) *)
Definition retry_of_result (r : result) : retry :=
  {| rt_ram := r_ram r; rt_cpu := r_cpu r; rt_err := r_err r; rt_cid := r_cid r; rt_pool := r_pool r |}.
Definition retry_info (w : world) (results : list result) : list (nat * retry) :=
  fold_left (fun m r =>
    if r_err r then
      fold_left (fun m' o => if ostate_eqb (st_of w o) Completed then m' else assoc_set o (retry_of_result r) m')
                (r_ops r) m
    else m) results [].

Definition queued_ops (s : sstate) : list nat :=
  flat_map j_ops (ss_q s) ++ flat_map j_ops (ss_i s) ++ flat_map j_ops (ss_b s).

Definition pr_new_jobs (C : cfg) (w : world) (s : sstate) (results : list result) (newp : list nat)
  : list job :=
  let proc := fold_left (fun l r => fold_left (fun l' o => add_absent (op_pipe (S_of C) o) l') (r_ops r) l)
                        results (fold_left (fun l p => add_absent p l) newp []) in
  let ri := retry_info w results in
  let already := queued_ops s in
  flat_map (fun p =>
    let ops0 := if cf_multi C then get_ops (S_of C) w p assignable false
                else get_ops (S_of C) w p assignable true in
    let ops := filter (fun o => negb (memb o already)) ops0 in
    match ops with
    | [] => []
    | o :: _ =>
        if cf_multi C then
          [{| j_prio := prio_of_pipe C p; j_pipe := p; j_ops := ops; j_retry := assoc_find o ri |}]
        else
          map (fun o' => {| j_prio := prio_of_pipe C p; j_pipe := p; j_ops := [o'];
                            j_retry := assoc_find o' ri |}) ops
    end) proc.

(* suspended containers: re-queue each exactly once (fix 10c2fdc) *)
Fixpoint pr_requeue (C : cfg) (w : world) (pid : nat) (cs : list container) (s : sstate) : res sstate :=
  match cs with
  | [] => Ok s
  | c :: t =>
      if memb (c_id c) (ss_requeued s) then pr_requeue C w pid t s
      else
        do j <- match assoc_find (c_id c) (ss_suspending s) with
                | Some j => Ok j
                | None => do j0 <- job_of_container w pid c; Ok (job_with_pipe C j0)
                end;
        let s1 := {| ss_queue := ss_queue s; ss_fail := ss_fail s; ss_q := ss_q s; ss_i := ss_i s;
                     ss_b := ss_b s; ss_suspending := assoc_del (c_id c) (ss_suspending s);
                     ss_requeued := ss_requeued s ++ [c_id c]; ss_oom := ss_oom s |} in
        pr_requeue C w pid t (push_job s1 j (j_prio j))
  end.
Fixpoint pr_requeue_pools (C : cfg) (w : world) (ps : list pool) (s : sstate) : res sstate :=
  match ps with
  | [] => Ok s
  | p :: t => do s' <- pr_requeue C w (p_id p) (p_suspended p) s; pr_requeue_pools C w t s'
  end.

(* get_pool_with_max_avail_ram: largest free RAM (> 0) among pools with a free CPU; first wins ties *)
Fixpoint max_ram_pool (stats : list pstat) (i : nat) (best : option nat) (best_ram : Q) : option nat :=
  match stats with
  | [] => best
  | x :: t =>
      if (0 <? ps_acpu x)%Z && Qltb best_ram (ps_aram x) then max_ram_pool t (S i) (Some i) (ps_aram x)
      else max_ram_pool t (S i) best best_ram
  end.

Definition set_stat (stats : list pstat) (i : nat) (x : pstat) : list pstat := set_nth stats i x.

(* the scan of one class queue; returns (number of jobs scanned = removed, stats, world, assignments, oom) *)
Fixpoint pr_scan (C : cfg) (w : world) (stats : list pstat) (queue : list job) (oom : Z)
  : res (nat * list pstat * world * list asg * Z) :=
  match queue with
  | [] => Ok (0, stats, w, [], oom)
  | j :: rest =>
      match max_ram_pool stats 0 None 0%Q with
      | None => Ok (0, stats, w, [], oom)
      | Some pid =>
          let x := nth pid stats dummy_stat in
          let continue_with (st : list pstat) (w' : world) (a : option asg) (oom' : Z) :=
            do r <- pr_scan C w' st rest oom';
            let '(n, st', w'', asgs, oom'') := r in
            Ok (S n, st', w'', (match a with Some y => y :: asgs | None => asgs end), oom'') in
          let start (cpu : Z) (ram : Q) :=
            let a := {| a_ops := j_ops j; a_cpu := cpu; a_ram := ram; a_prio := j_prio j;
                        a_pool := Z.of_nat pid |} in
            do w' <- mk_assignment C w a;
            continue_with (set_stat stats pid (ps_take x cpu ram)) w' (Some a) oom in
          match j_retry j with
          | Some rs =>
              if rt_err rs then
                let jc := (2 * rt_cpu rs)%Z in let jr := (2 * rt_ram rs)%Q in
                if (ps_acpu x <? jc)%Z || Qltb (ps_aram x) jr then continue_with stats w None oom
                else if over_half C x jc jr then continue_with stats w None (oom + 1)%Z
                else start jc jr
              else if (rt_cpu rs <? ps_acpu x)%Z && Qltb (rt_ram rs) (ps_aram x)
                   then start (rt_cpu rs) (rt_ram rs)
                   else let '(jc, jr) := new_job_size C x in start jc jr
          | None => let '(jc, jr) := new_job_size C x in start jc jr
          end
      end
  end.

(* preemption: round-robin over the pools' active lists *)
Fixpoint skip_query (l : list container) : option (container * list container) :=
  match l with
  | [] => None
  | c :: t => if prio_eqb (c_prio c) Query then skip_query t else Some (c, t)
  end.

Fixpoint pr_preempt (fuel : nat) (need : nat) (iters : list (nat * list container * bool)) (i : nat)
         (acc : list susp) : list susp :=
  match fuel with
  | O => acc
  | S f =>
      if Nat.leb need (length acc) then acc
      else if forallb (fun x => snd x) iters then acc
      else
        let n := length iters in
        let '(pid, l, ex) := nth i iters (0, [], true) in
        let nexti := Nat.modulo (S i) n in
        match skip_query l with
        | None => pr_preempt f need (set_nth iters i (pid, [], true)) nexti acc
        | Some (c, t) =>
            pr_preempt f need (set_nth iters i (pid, t, ex)) nexti
                       (if c_can_suspend c then acc ++ [{| su_cid := c_id c; su_pool := Z.of_nat pid |}] else acc)
        end
  end.

Definition priority_step (C : cfg) (s : sstate) (e : estate) (results : list result) (newp : list nat)
  : res (sstate * world * list susp * list asg) :=
  let w := e_world e in
  let jobs := match newp, results with [], [] => [] | _, _ => pr_new_jobs C w s results newp end in
  let s1 := fold_left (fun st j => push_job st j (prio_of_pipe C (j_pipe j))) jobs s in
  do m <- note_suspending_pools C w (e_pools e) (ss_suspending s1);
  let s2 := {| ss_queue := ss_queue s1; ss_fail := ss_fail s1; ss_q := ss_q s1; ss_i := ss_i s1; ss_b := ss_b s1;
               ss_suspending := m; ss_requeued := ss_requeued s1; ss_oom := ss_oom s1 |} in
  do s3 <- pr_requeue_pools C w (e_pools e) s2;
  let stats := snapshot e in
  do r1 <- pr_scan C w stats (ss_q s3) (ss_oom s3);
  let '(n1, st1, w1, a1, o1) := r1 in
  do r2 <- pr_scan C w1 st1 (ss_i s3) o1;
  let '(n2, st2, w2, a2, o2) := r2 in
  do r3 <- pr_scan C w2 st2 (ss_b s3) o2;
  let '(n3, st3, w3, a3, o3) := r3 in
  let q := skipn n1 (ss_q s3) in
  let s4 := {| ss_queue := ss_queue s3; ss_fail := ss_fail s3; ss_q := q; ss_i := skipn n2 (ss_i s3);
               ss_b := skipn n3 (ss_b s3); ss_suspending := ss_suspending s3;
               ss_requeued := ss_requeued s3; ss_oom := o3 |} in
  let susps :=
    match q with
    | [] => []
    | _ =>
        let iters := map (fun p => (p_id p, p_active p, false)) (e_pools e) in
        let fuel := (S (length iters)) * (S (length iters) + length (flat_map p_active (e_pools e))) in
        pr_preempt fuel (length q) iters 0 []
    end in
  Ok (s4, w3, susps, a1 ++ a2 ++ a3).

(* ------------------------------------------------------------------------------------------ *)
(* priority-pool *)

Fixpoint pp_scan (C : cfg) (w : world) (pid : nat) (x : pstat) (queue : list job) (oom : Z)
  : res (nat * pstat * world * list asg * Z) :=
  match queue with
  | [] => Ok (0, x, w, [], oom)
  | j :: rest =>
      if Qeqb (ps_aram x) 0%Q || (ps_acpu x =? 0)%Z then
        if Qeqb (ps_aram x) 0%Q && (ps_acpu x =? 0)%Z then Ok (0, x, w, [], oom) else Err ESchedAssert
      else
        let continue_with (x' : pstat) (w' : world) (a : option asg) (oom' : Z) :=
          do r <- pp_scan C w' pid x' rest oom';
          let '(n, x'', w'', asgs, oom'') := r in
          Ok (S n, x'', w'', (match a with Some y => y :: asgs | None => asgs end), oom'') in
        let start (cpu : Z) (ram : Q) :=
          let a := {| a_ops := j_ops j; a_cpu := cpu; a_ram := ram; a_prio := j_prio j;
                      a_pool := Z.of_nat pid |} in
          do w' <- mk_assignment C w a;
          continue_with (ps_take x cpu ram) w' (Some a) oom in
        match j_retry j with
        | Some rs =>
            if rt_err rs then
              let jc := (2 * rt_cpu rs)%Z in let jr := (2 * rt_ram rs)%Q in
              if over_half C x jc jr then continue_with x w None (oom + 1)%Z
              else if (ps_acpu x <=? jc)%Z || Qleb (ps_aram x) jr then start (ps_acpu x) (ps_aram x)
              else start jc jr
            else if (rt_cpu rs <=? ps_acpu x)%Z && Qleb (rt_ram rs) (ps_aram x) then
              if (rt_cpu rs =? ps_acpu x)%Z || Qeqb (rt_ram rs) (ps_aram x)
              then start (ps_acpu x) (ps_aram x) else start (rt_cpu rs) (rt_ram rs)
            else let '(jc, jr) := new_job_size C x in start jc jr
        | None => let '(jc, jr) := new_job_size C x in start jc jr
        end
  end.

(* suspended containers: only those noted while suspending are re-queued *)
Fixpoint pp_requeue (cs : list container) (s : sstate) : sstate :=
  match cs with
  | [] => s
  | c :: t =>
      match assoc_find (c_id c) (ss_suspending s) with
      | Some j =>
          let s1 := {| ss_queue := ss_queue s; ss_fail := ss_fail s; ss_q := ss_q s; ss_i := ss_i s;
                       ss_b := ss_b s; ss_suspending := assoc_del (c_id c) (ss_suspending s);
                       ss_requeued := ss_requeued s; ss_oom := ss_oom s |} in
          pp_requeue t (push_job s1 j (j_prio j))
      | None => pp_requeue t s
      end
  end.

Fixpoint pp_failures (C : cfg) (w : world) (results : list result) (s : sstate) : res sstate :=
  match results with
  | [] => Ok s
  | r :: t =>
      if r_err r then
        match not_completed_ops w (r_ops r) with
        | [] => Err ESchedAssert
        | (o :: _) as ops =>
            pp_failures C w t
              (push_job s {| j_prio := r_prio r; j_pipe := op_pipe (S_of C) o; j_ops := ops;
                             j_retry := Some (retry_of_result r) |} (r_prio r))
        end
      else pp_failures C w t s
  end.

Definition priority_pool_step (C : cfg) (s : sstate) (e : estate) (results : list result) (newp : list nat)
  : res (sstate * world * list susp * list asg) :=
  let w := e_world e in
  let s1 := fold_left (fun st p =>
              push_job st {| j_prio := prio_of_pipe C p; j_pipe := p;
                             j_ops := pd_order (pipe_of (S_of C) p); j_retry := None |}
                       (prio_of_pipe C p)) newp s in
  do s2 <- pp_failures C w results s1;
  do m <- note_suspending_pools C w (e_pools e) (ss_suspending s2);
  let s3 := {| ss_queue := ss_queue s2; ss_fail := ss_fail s2; ss_q := ss_q s2; ss_i := ss_i s2; ss_b := ss_b s2;
               ss_suspending := m; ss_requeued := ss_requeued s2; ss_oom := ss_oom s2 |} in
  let s4 := fold_left (fun st p => pp_requeue (p_suspended p) st) (e_pools e) s3 in
  let stats := snapshot e in
  let x0 := nth 0 stats dummy_stat in
  let x1 := nth 1 stats dummy_stat in
  do r1 <- pp_scan C w 0 x0 (ss_q s4) (ss_oom s4);
  let '(n1, x0a, w1, a1, o1) := r1 in
  do r2 <- pp_scan C w1 0 x0a (ss_i s4) o1;
  let '(n2, x0b, w2, a2, o2) := r2 in
  do r3 <- pp_scan C w2 1 x1 (ss_b s4) o2;
  let '(n3, x1a, w3, a3, o3) := r3 in
  Ok ({| ss_queue := ss_queue s4; ss_fail := ss_fail s4; ss_q := skipn n1 (ss_q s4);
         ss_i := skipn n2 (ss_i s4); ss_b := skipn n3 (ss_b s4); ss_suspending := ss_suspending s4;
         ss_requeued := ss_requeued s4; ss_oom := o3 |}, w3, [], a1 ++ a2 ++ a3).

Definition sched_step (C : cfg) (a : algo) (s : sstate) (e : estate) (results : list result)
           (newp : list nat) : res (sstate * world * list susp * list asg) :=
  match a with
  | ANaive => naive_step C false s e results newp
  | AStarter => naive_step C true s e results newp
  | AOverbook => overbook_step C s e results newp
  | APriority => priority_step C s e results newp
  | APriorityPool => priority_pool_step C s e results newp
  end.
