(* Wire format of correspondence cases: every case is a flat [list Z]; so is every model answer.
   The decoders are total: a malformed input yields [None] and the run functions answer [[-1]]. *)
From Coq Require Import ZArith QArith List Bool.
Import ListNotations.
Close Scope Q_scope.
From Eudoxia Require Import Model.Types Model.Dag.

Definition dec (A : Type) := list Z -> option (A * list Z).

Definition dret {A} (a : A) : dec A := fun l => Some (a, l).
Definition dbind {A B} (d : dec A) (f : A -> dec B) : dec B :=
  fun l => match d l with Some (a, l') => f a l' | None => None end.
Notation "'dlet' x <- d ; k" := (dbind d (fun x => k))
  (at level 200, x pattern, d at level 100, k at level 200, right associativity).

Definition dZ : dec Z := fun l => match l with x :: t => Some (x, t) | [] => None end.
Definition dnat : dec nat := dlet z <- dZ; dret (Z.to_nat z).
Definition dbool : dec bool := dlet z <- dZ; dret (negb (z =? 0)%Z).
Definition dQ : dec Q :=
  dlet n <- dZ; dlet d <- dZ;
  if (0 <? d)%Z then dret (Qmake n (Z.to_pos d)) else (fun _ => None).
Definition dprio : dec prio := dlet z <- dZ; dret (prio_of_Z z).
Definition dost : dec ostate := dlet n <- dnat; dret (ost_of_nat n).

Fixpoint drep {A} (n : nat) (d : dec A) : dec (list A) :=
  match n with
  | O => dret []
  | S n' => dlet a <- d; dlet t <- drep n' d; dret (a :: t)
  end.
Definition dlist {A} (d : dec A) : dec (list A) := dlet n <- dnat; drep n d.
Definition dopt {A} (d : dec A) : dec (option A) :=
  dlet b <- dbool; if b then (dlet a <- d; dret (Some a)) else dret None.
Definition dpair {A B} (da : dec A) (db : dec B) : dec (A * B) :=
  dlet a <- da; dlet b <- db; dret (a, b).

Definition ddag : dec dag := dlist (dlist dnat).

Definition run_dec {A} (d : dec A) (l : list Z) : option A :=
  match d l with Some (a, []) => Some a | _ => None end.

(* encoders *)
Definition eN (n : nat) : list Z := [Z.of_nat n].
Definition eB (b : bool) : list Z := [if b then 1 else 0]%Z.
Definition eQ (q : Q) : list Z := let r := Qred q in [Qnum r; Z.pos (Qden r)].
Definition eL {A} (f : A -> list Z) (l : list A) : list Z := Z.of_nat (length l) :: flat_map f l.
Definition eO {A} (f : A -> list Z) (o : option A) : list Z :=
  match o with Some a => 1%Z :: f a | None => [0%Z] end.
Definition eost (a : ostate) : list Z := eN (ost_idx a).
Definition eres {A} (f : A -> list Z) (r : res A) : list Z :=
  match r with Ok a => 0%Z :: f a | Err e => [err_code e] end.

Definition bad_input : list Z := [(-1)%Z].
