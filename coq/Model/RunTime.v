(* Case runner for the time/memory model of one operator (kind 4). *)
From Coq Require Import ZArith QArith List Bool Arith.
Import ListNotations.
Close Scope Q_scope.
From Eudoxia Require Import Num.Rnd64 Model.Types Model.Timing Model.Codec.

Definition dseg : dec seg :=
  dlet c <- dQ; dlet l <- dnat; dlet m <- dopt dQ; dlet r <- dQ;
  dret {| sg_cpu_secs := c; sg_law := law_of_nat l; sg_mem := m; sg_read := r |}.

Fixpoint assocZ (t : list (Z * Q)) (k : Z) : Q :=
  match t with [] => 0%Q | (a, v) :: t' => if (a =? k)%Z then v else assocZ t' k end.

Definition dmathtab : dec mathtab :=
  dlet lg <- dlist (dpair dZ dQ); dlet sq <- dlist (dpair dZ dQ);
  dret {| mt_log := assocZ lg; mt_sqrt := assocZ sq |}.

(* input: tps cpus mathtab segs; output: the per-tick demand of the operator *)
Definition run_time (l : list Z) : list Z :=
  match run_dec (dlet tps <- dZ; dlet cpus <- dZ; dlet mt <- dmathtab; dlet segs <- dlist dseg;
                 dret (tps, cpus, mt, segs)) l with
  | Some (tps, cpus, mt, segs) =>
      if (0 <? tps)%Z && (0 <? cpus)%Z then
        eL eQ (op_script rnd64 mt tps cpus segs)
      else bad_input
  | None => bad_input
  end.
