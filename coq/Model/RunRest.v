(* Case runners for the REST scheduler model: kind 19 (bookkeeping run), kind 29 (reply codec + parsing). *)
From Coq Require Import ZArith QArith List Bool Arith.
Import ListNotations.
Close Scope Q_scope.
From Eudoxia Require Import Num.Rnd64 Model.Types Model.Codec Model.Rest.

Definition dpipe : dec pipe := dpair dZ (dlist dZ).
Definition dtick : dec tick_in :=
  dlet new <- dlist dpipe; dlet n <- dnat; dlet succ <- dlist dZ; dret (mkin new n succ).

Definition eZ (z : Z) : list Z := [z].

Definition enc_payload (st : rs) (p : payload) : list Z :=
  [1%Z; pl_tick p] ++ eQ (pl_time p) ++ eN (pl_nres p)
  ++ eL eZ (new_ids p) ++ eL eZ (other_ids p) ++ eL eZ (complete_ids p)
  ++ eN (length (rs_lookup st)) ++ eN (length (rs_other st)).

(* the run, printing each tick's output together with the state after it *)
Fixpoint run_ticks (tps : Z) (poll : Q) (st : rs) (ins : list tick_in) : list Z :=
  match ins with
  | [] => []
  | i :: t =>
      let '(st1, o) := rest_step rnd64 tps poll st i in
      (match o with None => [0%Z] | Some p => enc_payload st1 p end) ++ run_ticks tps poll st1 t
  end.

(* input: tps poll ticks; output: per tick 0 | 1 tick time nres new other complete |lookup| |other'| *)
Definition run_rest (l : list Z) : list Z :=
  match run_dec (dlet tps <- dZ; dlet poll <- dQ; dlet ticks <- dlist dtick; dret (tps, poll, ticks)) l with
  | Some (tps, poll, ticks) =>
      if (0 <? tps)%Z then run_ticks tps poll rs_init ticks else bad_input
  | None => bad_input
  end.

Definition enc_sobj (s : suspend_obj) : list Z := [so_container s; so_pool s].
Definition enc_aobj (a : assign_obj) : list Z :=
  eL eZ (ao_ops a) ++ eQ (ao_cpu a) ++ eQ (ao_ram a)
  ++ [prio_val (ao_prio a); ao_pool a; ao_pipeline a] ++ eB (ao_resume a) ++ eB (ao_force a).

(* input: operator table (operator id, pipeline id), then the reply in wire form;
   output: error code of the first failing assignment, or 0 and the decision objects *)
Definition run_rest_codec (l : list Z) : list Z :=
  match dlist (dpair dZ dZ) l with
  | Some (tab, wire) =>
      match decode_reply wire with
      | Some r =>
          match parse_assignments tab (rp_asg r) with
          | inl e => [perr_code e]
          | inr objs => 0%Z :: eL enc_sobj (parse_suspensions (rp_susp r)) ++ eL enc_aobj objs
          end
      | None => bad_input
      end
  | None => bad_input
  end.
