(* The loop of run_simulator (eudoxia/simulator.py): arrivals, scheduler, executor, counters, the
   completion sweep and the statistics. Definitions only. *)
From Coq Require Import ZArith QArith List Bool Arith.
Import ListNotations.
Close Scope Q_scope.
From Eudoxia Require Import Num.Rnd64 Model.Types Model.Dag Model.Lifecycle Model.Container Model.Pool
  Model.Executor Model.Sched.

(* what happened in one tick, for the trace and for the independent recount *)
Record tick_log := {
  tl_new : list nat;              (* pipelines that arrived *)
  tl_susp : list susp;
  tl_asgs : list asg;
  tl_results : list result;
  tl_finished : list nat          (* pipelines recorded as finished in this tick *)
}.

Record sim := {
  sm_exec : estate;
  sm_sched : sstate;
  sm_results : list result;       (* executor_results of the previous tick *)
  sm_outstanding : list nat;      (* outstanding_pipelines, insertion ordered *)
  sm_arrival : list (nat * Z);    (* pipeline -> arrival tick *)
  sm_lat : list (prio * Z);       (* latencies in completion order, with the pipeline's priority *)
  sm_created : Z; sm_nasg : Z; sm_nsusp : Z; sm_nfail : Z
}.

Definition init_sim (C : cfg) (npools : nat) (cpu : Z) (ram : Q) : sim :=
  {| sm_exec := init_estate C npools cpu ram; sm_sched := init_sstate; sm_results := [];
     sm_outstanding := []; sm_arrival := []; sm_lat := [];
     sm_created := 0%Z; sm_nasg := 0%Z; sm_nsusp := 0%Z; sm_nfail := 0%Z |}.

Fixpoint arrival_of (p : nat) (l : list (nat * Z)) : Z :=
  match l with [] => 0%Z | (a, t) :: r => if Nat.eqb a p then t else arrival_of p r end.

(* record_arrival asserts that the pipeline has not arrived before *)
Fixpoint record_arrivals (tick : Z) (newp : list nat) (arr : list (nat * Z)) : res (list (nat * Z)) :=
  match newp with
  | [] => Ok arr
  | p :: t => if existsb (fun x => Nat.eqb (fst x) p) arr then Err EOther
              else record_arrivals tick t (arr ++ [(p, tick)])
  end.

Definition sim_tick (C : cfg) (a : algo) (tick : Z) (s : sim) (newp : list nat) : res (sim * tick_log) :=
  do arr <- record_arrivals tick newp (sm_arrival s);
  let outstanding := fold_left (fun l p => add_absent p l) newp (sm_outstanding s) in
  do d <- sched_step C a (sm_sched s) (sm_exec s) (sm_results s) newp;
  let '(ss', w', susps, asgs) := d in
  let e1 := {| e_world := w'; e_pools := e_pools (sm_exec s); e_next := e_next (sm_exec s) |} in
  do er <- exec_tick C e1 susps asgs;
  let '(e2, results) := er in
  (* completion sweep, only when the tick produced results *)
  let fin := match results with
             | [] => []
             | _ => filter (fun p => is_successful (cf_static C) (e_world e2) p) outstanding
             end in
  let lat := map (fun p => (pd_prio (pipe_of (cf_static C) p), (tick - arrival_of p arr)%Z)) fin in
  Ok ({| sm_exec := e2; sm_sched := ss'; sm_results := results;
         sm_outstanding := filter (fun p => negb (memb p fin)) outstanding;
         sm_arrival := arr; sm_lat := sm_lat s ++ lat;
         sm_created := (sm_created s + Z.of_nat (length newp))%Z;
         sm_nasg := (sm_nasg s + Z.of_nat (length asgs))%Z;
         sm_nsusp := (sm_nsusp s + Z.of_nat (length susps))%Z;
         sm_nfail := (sm_nfail s + Z.of_nat (length (filter r_err results)))%Z |},
      {| tl_new := newp; tl_susp := susps; tl_asgs := asgs; tl_results := results; tl_finished := fin |}).

(* the whole run over a list of per-tick arrival batches; stops at the first error *)
Fixpoint sim_run (C : cfg) (a : algo) (tick : Z) (s : sim) (arrivals : list (list nat))
  : sim * list tick_log * option err :=
  match arrivals with
  | [] => (s, [], None)
  | newp :: t =>
      match sim_tick C a tick s newp with
      | Err e => (s, [], Some e)
      | Ok (s', lg) => let '(sf, logs, e) := sim_run C a (tick + 1)%Z s' t in (sf, lg :: logs, e)
      end
  end.

(* ---- statistics ---- *)

(* insertion sort on Z, for the percentile *)
Fixpoint insZ (x : Z) (l : list Z) : list Z :=
  match l with [] => [x] | y :: t => if (x <=? y)%Z then x :: l else y :: insZ x t end.
Definition sortZ (l : list Z) : list Z := fold_right insZ [] l.

(* np.percentile(l, 99), default linear interpolation at virtual index (n-1) * 99/100; None = nan *)
Definition percentile99 (l : list Z) : option Q :=
  match l with
  | [] => None
  | _ =>
      let s := sortZ l in
      let n := Z.of_nat (length s) in
      let idx := (inject_Z (n - 1) * (99 # 100))%Q in
      let lo := floorQ idx in
      let frac := (idx - inject_Z lo)%Q in
      let a := nth (Z.to_nat lo) s 0%Z in
      let b := nth (Z.to_nat (lo + 1)) s a in
      Some (inject_Z a + inject_Z (b - a) * frac)%Q
  end.

Definition meanZ (l : list Z) : option Q :=
  match l with [] => None | _ => Some (inject_Z (sumZ l) / inject_Z (Z.of_nat (length l)))%Q end.

Definition div_tps (tps : Z) (o : option Q) : option Q :=
  match o with Some x => Some (x / inject_Z tps)%Q | None => None end.

Record pstats := { pst_arrivals : Z; pst_completions : Z; pst_mean : option Q; pst_p99 : option Q }.

Definition pipeline_stats (tps : Z) (arrivals : Z) (lat : list Z) : pstats :=
  {| pst_arrivals := arrivals; pst_completions := Z.of_nat (length lat);
     pst_mean := div_tps tps (meanZ lat); pst_p99 := div_tps tps (percentile99 lat) |}.

Definition lat_of (s : sim) (p : prio) : list Z :=
  map snd (filter (fun x => prio_eqb (fst x) p) (sm_lat s)).
Definition arrivals_of (C : cfg) (s : sim) (p : prio) : Z :=
  Z.of_nat (length (filter (fun x => prio_eqb (pd_prio (pipe_of (cf_static C) (fst x))) p) (sm_arrival s))).

Record stats := {
  st_created : Z; st_completed : Z; st_throughput : Q; st_p99 : option Q;
  st_assignments : Z; st_suspensions : Z; st_failures : Z;
  st_all : pstats; st_query : pstats; st_interactive : pstats; st_batch : pstats
}.

Definition final_stats (C : cfg) (duration : Q) (s : sim) : stats :=
  let ps := e_pools (sm_exec s) in
  let completed := sumZ (map p_num_completed ps) in
  let times := flat_map p_tick_times ps in
  let tps := cf_tps C in
  {| st_created := sm_created s; st_completed := completed;
     st_throughput := (inject_Z completed / duration)%Q;
     st_p99 := div_tps tps (percentile99 times);
     st_assignments := sm_nasg s; st_suspensions := sm_nsusp s; st_failures := sm_nfail s;
     (* all_latencies = sum(latencies_by_priority.values(), []): QUERY, INTERACTIVE, BATCH *)
     st_all := pipeline_stats tps (Z.of_nat (length (sm_arrival s)))
                 (lat_of s Query ++ lat_of s Interactive ++ lat_of s Batch);
     st_query := pipeline_stats tps (arrivals_of C s Query) (lat_of s Query);
     st_interactive := pipeline_stats tps (arrivals_of C s Interactive) (lat_of s Interactive);
     st_batch := pipeline_stats tps (arrivals_of C s Batch) (lat_of s Batch) |}.

(* ---- the entry point: what run_simulator does around the loop ---- *)

(* init_priority_pool_scheduler (scheduler/priority_pool.py:20) asserts `s.executor.num_pools == 2` when the
   scheduler object is built, before the first tick; the other schedulers accept every pool count *)
Definition pool_count_ok (a : algo) (np : nat) : bool :=
  match a with APriorityPool => Nat.eqb np 2 | _ => true end.

(* simulator.py:364-370: at the end of every tick with tick_number % ticks_per_second == 0 (tick 0 is one)
   the loop evaluates 100.0 * allocated_ram / total_ram with total_ram = num_pools * ram_gb_per_pool
   (executor.py:57): ZeroDivisionError iff there is no pool or the pools have no RAM *)
Definition total_ram_zero (np : nat) (ram : Q) : bool := Nat.eqb np 0 || Qeqb ram 0%Q.

(* run_simulator from the construction of the scheduler to the end of the loop. The answer has the shape of
   [sim_run]'s: (state reached, logs of the completed ticks, error). With total RAM zero the first tick is
   simulated (an error raised inside it comes first), then the utilisation statement raises. *)
Definition sim_main (C : cfg) (a : algo) (np : nat) (cpu : Z) (ram : Q) (arrivals : list (list nat))
  : sim * list tick_log * option err :=
  let s0 := init_sim C np cpu ram in
  if negb (pool_count_ok a np) then (s0, [], Some ESchedAssert)
  else if total_ram_zero np ram then
    match arrivals with
    | [] => (s0, [], None)
    | newp :: _ =>
        match sim_tick C a 0%Z s0 newp with
        | Err e => (s0, [], Some e)
        | Ok (s1, lg) => (s1, [lg], Some EOther)
        end
    end
  else sim_run C a 0%Z s0 arrivals.
